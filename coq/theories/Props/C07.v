(* C07 - The launched channel set survives the path intact; channel order is irrelevant.
   Property theorems about Model/Channels.v (proofs in Proofs/Channels.v).

   Vocabulary (definitions of Proofs/Channels.v):
     pos_slots l        every slot width of l is > 0
     chan_overlap a b   the open slots ]f - w/2, f + w/2[ of a and b intersect
     overlapping l      two entries at different positions of l overlap
     sep a b            a's slot ends at or before b's slot starts
     si_ok s            s is sorted with separated slots, positive slot widths, baud <= slot (a valid SpectralInformation)
     bdisj / bands_disjoint   interiors of the bands pairwise disjoint
     bsub r b           band r is contained in band b
     path_ok path       every Edfa has exactly one band; every Multiband_amplifier has non-overlapping per-band
                        amplifiers, pairwise disjoint declared bands, each of them served by one of its amplifiers
     pstamp path c      c with the uid of the amplifier stage that processes it pushed on its history, for every
                        amplifier of the path in turn (Multiband: the first per-band amplifier whose band holds c)
     same_chan a b      a and b agree on id, frequency, baud rate, slot width, label and transmitter data *)
From Coq Require Import QArith Qround Permutation Lia.
From Verif Require Import Prelude Model.Channels Proofs.Channels Gen.ChannelsGen Proofs.ChannelsGen.
Open Scope Q_scope.

(* ---- construction: order irrelevant ---- *)
Theorem mk_si_perm : forall l l' : list chan,
  pos_slots l -> Permutation l l' -> mk_si l = mk_si l'.
Proof. exact Proofs.Channels.mk_si_perm. Qed.
Print Assumptions mk_si_perm.

(* ---- construction: rejected exactly on overlap or baud > slot; which error ---- *)
Theorem mk_si_rejects : forall l : list chan, pos_slots l ->
  ((exists e, mk_si l = Err e) <-> overlapping l \/ exists c, In c l /\ cslot c < cbaud c).
Proof. exact Proofs.Channels.mk_si_rejects. Qed.
Print Assumptions mk_si_rejects.

Theorem mk_si_rejects_overlap : forall l : list chan, pos_slots l ->
  (mk_si l = Err E_overlap <-> overlapping l).
Proof. exact Proofs.Channels.mk_si_overlap_iff. Qed.
Print Assumptions mk_si_rejects_overlap.

Theorem mk_si_rejects_baud : forall l : list chan, pos_slots l ->
  (mk_si l = Err E_baud <-> ~ overlapping l /\ exists c, In c l /\ cslot c < cbaud c).
Proof. exact Proofs.Channels.mk_si_baud_iff. Qed.
Print Assumptions mk_si_rejects_baud.

(* the adjacent check made by the code on the sorted arrays is the pairwise check *)
Theorem adjacent_check_is_pairwise : forall s : list chan,
  pw (le_key cf) s -> pos_slots s -> (adj_overlap s = false <-> pw sep s).
Proof. exact Proofs.Channels.adj_overlap_false_iff. Qed.
Print Assumptions adjacent_check_is_pairwise.

(* two carriers on the same frequency are always rejected (their slots overlap) *)
Theorem mk_si_equal_frequency_rejected : forall l1 a l2 b l3,
  pos_slots (l1 ++ a :: l2 ++ b :: l3) -> cf a == cf b ->
  mk_si (l1 ++ a :: l2 ++ b :: l3) = Err E_overlap.
Proof. exact Proofs.Channels.equal_freq_rejected. Qed.
Print Assumptions mk_si_equal_frequency_rejected.

(* ---- construction: accepted => same records, frequency order, separated slots ---- *)
Theorem mk_si_sorted : forall (l : list chan) (s : si), pos_slots l -> mk_si l = Ok s ->
  Permutation l s /\ si_ok s /\ pw (fun a b => cf a < cf b) s.
Proof. exact Proofs.Channels.mk_si_sorted. Qed.
Print Assumptions mk_si_sorted.

(* ---- find_common_range ---- *)
Theorem common_range_spec : forall amps dmin dmax dsp x, filter_valid amps <> [] ->
  ((exists b, In b (find_common_range amps dmin dmax dsp) /\ bmin b < x /\ x < bmax b) <->
   (forall a, In a (filter_valid amps) -> exists b, In b a /\ bmin b < x /\ x < bmax b)).
Proof. exact Proofs.Channels.common_range_point. Qed.
Print Assumptions common_range_spec.

Theorem common_range_spec_channel : forall amps dmin dmax dsp c, 0 < cslot c -> filter_valid amps <> [] ->
  (in_some (find_common_range amps dmin dmax dsp) c = true <->
   (forall a, In a (filter_valid amps) -> in_some a c = true)).
Proof. exact Proofs.Channels.common_range_slot. Qed.
Print Assumptions common_range_spec_channel.

Theorem common_range_no_amplifier : forall amps dmin dmax dsp, filter_valid amps = [] ->
  find_common_range amps dmin dmax dsp =
    match dmin, dmax with Some a, Some b => [mkB a b None] | _, _ => [] end.
Proof. exact Proofs.Channels.common_range_default. Qed.
Print Assumptions common_range_no_amplifier.

Theorem common_range_disjoint : forall amps dmin dmax dsp,
  (forall a, In a (filter_valid amps) -> bands_disjoint a) ->
  bands_disjoint (find_common_range amps dmin dmax dsp).
Proof. exact Proofs.Channels.common_range_disjoint. Qed.
Print Assumptions common_range_disjoint.

(* ---- demux on every band, mux the parts ---- *)
Theorem demux_mux_partition : forall (bs : list band) (s : si), si_ok s -> bands_disjoint bs ->
  filter_bands bs s = match filter (in_some bs) s with
                      | [] => Err E_noband
                      | kept => Ok kept
                      end.
Proof. exact Proofs.Channels.filter_bands_ok. Qed.
Print Assumptions demux_mux_partition.

(* what "= filter p s" means: each kept channel exactly once, in frequency order, records intact *)
Theorem kept_exactly_once_sorted_intact : forall (p : chan -> bool) (s : si), si_ok s ->
  si_ok (filter p s) /\ NoDup (filter p s) /\ (forall c, In c (filter p s) <-> In c s /\ p c = true).
Proof. exact Proofs.Channels.filter_sublist_props. Qed.
Print Assumptions kept_exactly_once_sorted_intact.

(* ---- the pre-propagation filter and the path ---- *)
Theorem filter_si_spec : forall path dmin dmax dsp (s : si), path_ok path -> si_ok s ->
  filter_si path dmin dmax dsp s =
    match filter (in_some (path_common_range path dmin dmax dsp)) s with
    | [] => Err E_noband
    | kept => Ok kept
    end.
Proof. exact Proofs.Channels.filter_si_spec. Qed.
Print Assumptions filter_si_spec.

Theorem filter_then_path : forall path dmin dmax dsp (s0 s1 : si), path_ok path -> si_ok s0 ->
  filter_si path dmin dmax dsp s0 = Ok s1 ->
  s1 = filter (in_some (path_common_range path dmin dmax dsp)) s0 /\ s1 <> [] /\
  propagate_path path s1 = Ok (map (pstamp path) s1) /\
  Forall (fun c => same_chan c (pstamp path c) /\
                   length (chist (pstamp path c)) = (length (chist c) + n_amps path)%nat) s1.
Proof. exact Proofs.Channels.filter_then_path. Qed.
Print Assumptions filter_then_path.

(* ---- end to end: permuting the carrier list changes nothing ---- *)
Theorem launch_perm : forall path dmin dmax dsp (l l' : list chan), pos_slots l -> Permutation l l' ->
  launch path dmin dmax dsp l = launch path dmin dmax dsp l'.
Proof. exact Proofs.Channels.launch_perm. Qed.
Print Assumptions launch_perm.

(* ================= construction of the launched spectrum ================= *)
(* SpectralInformation.__init__ is written column-wise (indices = argsort(frequency), every array re-indexed):
   it is the row-wise constructor applied to the rows *)
Theorem mk_si_columnwise : forall cs : cols, mk_si_cols cs = mk_si (rows cs).
Proof. exact Proofs.Channels.mk_si_cols_rowwise. Qed.
Print Assumptions mk_si_columnwise.

(* carriers_to_spectral_information: the per-attribute lists built from keys() / values() are, entry by entry, the
   carriers of the dict - for any dict order *)
Theorem carriers_to_si_rowwise : forall d : list (Q * carrier), carriers_to_si d = mk_si (map chan_of d).
Proof. exact Proofs.Channels.carriers_to_si_rowwise. Qed.
Print Assumptions carriers_to_si_rowwise.

Theorem carriers_to_si_perm : forall d d' : list (Q * carrier),
  pos_carriers d -> Permutation d d' -> carriers_to_si d = carriers_to_si d'.
Proof. exact Proofs.Channels.carriers_to_si_perm. Qed.
Print Assumptions carriers_to_si_perm.

Theorem carriers_to_si_attached : forall (d : list (Q * carrier)) (s : si),
  pos_carriers d -> carriers_to_si d = Ok s ->
  Permutation (map chan_of d) s /\ si_ok s /\
  (forall c, In c s -> exists kv, In kv d /\ c = chan_of kv) /\
  (forall kv, In kv d -> In (chan_of kv) s).
Proof. exact Proofs.Channels.carriers_to_si_attached. Qed.
Print Assumptions carriers_to_si_attached.

(* create_input_spectral_information: the uniform grid *)
Theorem uniform_grid_accepted : forall fmin fmax sp baud label tx, 0 < sp -> baud <= sp -> fmin <= fmax ->
  create_input_si fmin fmax sp baud label tx =
    Ok (grid_chans fmin sp baud label tx (Qfloor ((fmax - fmin) / sp))).
Proof. exact Proofs.Channels.create_input_si_ok. Qed.
Print Assumptions uniform_grid_accepted.

Theorem uniform_grid_fmax_below_fmin : forall fmin fmax sp baud label tx, 0 < sp -> fmax < fmin ->
  create_input_si fmin fmax sp baud label tx = Err E_negdim.
Proof. exact Proofs.Channels.create_input_si_negative. Qed.
Print Assumptions uniform_grid_fmax_below_fmin.

Theorem uniform_grid_count : forall fmin sp baud label tx n,
  length (grid_chans fmin sp baud label tx n) = Z.to_nat n.
Proof. exact Proofs.Channels.grid_chans_length. Qed.
Print Assumptions uniform_grid_count.

Theorem uniform_grid_channels : forall fmin fmax sp baud label tx c, 0 < sp ->
  In c (grid_chans fmin sp baud label tx (Qfloor ((fmax - fmin) / sp))) ->
  exists i, (1 <= i <= Qfloor ((fmax - fmin) / sp))%Z /\ c = grid_chan fmin sp baud label tx i /\
            fmin < cf c /\ cf c <= fmax /\ fmin + half sp <= clo c /\ chi c <= fmax + half sp.
Proof. exact Proofs.Channels.grid_chans_spec. Qed.
Print Assumptions uniform_grid_channels.

Theorem uniform_grid_maximal : forall fmin fmax sp, 0 < sp ->
  fmax < fmin + sp * inject_Z (Qfloor ((fmax - fmin) / sp) + 1).
Proof. exact Proofs.Channels.grid_maximal. Qed.
Print Assumptions uniform_grid_maximal.

Theorem uniform_grid_increasing_separated : forall fmin sp baud label tx n, 0 < sp -> baud <= sp ->
  si_ok (grid_chans fmin sp baud label tx n) /\ pw (fun a b => cf a < cf b) (grid_chans fmin sp baud label tx n).
Proof.
  intros fmin sp baud label tx n Hsp Hb.
  exact (conj (Proofs.Channels.grid_chans_ok fmin sp baud label tx n Hsp Hb)
              (Proofs.Channels.grid_chans_increasing fmin sp baud label tx n Hsp)).
Qed.
Print Assumptions uniform_grid_increasing_separated.

Theorem uniform_grid_baud_rejected : forall fmin fmax sp baud label tx, 0 < sp -> sp < baud ->
  (1 <= Qfloor ((fmax - fmin) / sp))%Z -> create_input_si fmin fmax sp baud label tx = Err E_baud.
Proof. exact Proofs.Channels.create_input_si_baud. Qed.
Print Assumptions uniform_grid_baud_rejected.

(* ================= find_common_range with default_design_bands; the spacing key ================= *)
Theorem common_range_gen_spec : forall amps dmin dmax dsp ddb x, filter_valid amps <> [] ->
  ((exists b, In b (find_common_range_gen amps dmin dmax dsp ddb) /\ bmin b < x /\ x < bmax b) <->
   (forall a, In a (filter_valid amps) -> exists b, In b a /\ bmin b < x /\ x < bmax b)).
Proof. exact Proofs.Channels.common_range_gen_point. Qed.
Print Assumptions common_range_gen_spec.

Theorem common_range_gen_spec_channel : forall amps dmin dmax dsp ddb c, 0 < cslot c -> filter_valid amps <> [] ->
  (in_some (find_common_range_gen amps dmin dmax dsp ddb) c = true <->
   (forall a, In a (filter_valid amps) -> in_some a c = true)).
Proof. exact Proofs.Channels.common_range_gen_slot. Qed.
Print Assumptions common_range_gen_spec_channel.

(* every returned band carries a spacing, lies inside one band of every valid amplifier, and its spacing is at least
   the one that band declares (sp_ge r b: bsp b = Some x -> exists y, bsp r = Some y /\ x <= y) *)
Theorem common_range_spacing : forall amps dmin dmax dsp ddb r, filter_valid amps <> [] ->
  In r (find_common_range_gen amps dmin dmax dsp ddb) ->
  (exists y, bsp r = Some y) /\
  (forall a, In a (filter_valid amps) -> exists b, In b a /\ bsub r b /\ sp_ge r b).
Proof. exact Proofs.Channels.common_range_gen_refines. Qed.
Print Assumptions common_range_spacing.

(* ================= idempotence; filtering commutes with the construction ================= *)
Theorem filter_bands_idempotent : forall bs (s k : si), si_ok s -> bands_disjoint bs ->
  filter_bands bs s = Ok k -> filter_bands bs k = Ok k.
Proof. exact Proofs.Channels.filter_bands_idem. Qed.
Print Assumptions filter_bands_idempotent.

Theorem filter_si_idempotent : forall path dmin dmax dsp (s k : si), path_ok path -> si_ok s ->
  filter_si path dmin dmax dsp s = Ok k -> filter_si path dmin dmax dsp k = Ok k.
Proof. exact Proofs.Channels.filter_si_idem. Qed.
Print Assumptions filter_si_idempotent.

Theorem filter_before_or_after_construction : forall bs (l : list chan) (s : si),
  pos_slots l -> bands_disjoint bs -> mk_si l = Ok s ->
  filter_bands bs s = match filter (in_some bs) l with
                      | [] => Err E_noband
                      | l' => mk_si l'
                      end.
Proof. exact Proofs.Channels.filter_before_or_after. Qed.
Print Assumptions filter_before_or_after_construction.

Theorem filter_commutes_with_permutation : forall path dmin dmax dsp (l l' : list chan),
  pos_slots l -> Permutation l l' ->
  (let* s := mk_si l in filter_si path dmin dmax dsp s) = (let* s := mk_si l' in filter_si path dmin dmax dsp s).
Proof. exact Proofs.Channels.filter_perm. Qed.
Print Assumptions filter_commutes_with_permutation.

(* ================= translator tie: what /repo's source says now is the model =================
   Gen/ChannelsGen.v is regenerated from the source on every run (harness/pygen_c07.py: expressions translated, the numpy
   plumbing around them template-matched, fail closed). *)
Theorem C07_source_is_in_band : g_is_in_band = in_band.
Proof. exact Proofs.ChannelsGen.gen_is_in_band. Qed.
Print Assumptions C07_source_is_in_band.

Theorem C07_source_constructor : forall l : list chan, g_mk_si l = mk_si l.
Proof. exact Proofs.ChannelsGen.gen_mk_si. Qed.
Print Assumptions C07_source_constructor.

Theorem C07_source_constructor_checks : g_adj_over = adj_over /\ g_exceeds = exceeds.
Proof. exact (conj Proofs.ChannelsGen.gen_adj_over Proofs.ChannelsGen.gen_exceeds). Qed.
Print Assumptions C07_source_constructor_checks.

Theorem C07_source_select_channels : forall p (s : si), g_select_channels p s = select p s.
Proof. exact Proofs.ChannelsGen.gen_select_channels. Qed.
Print Assumptions C07_source_select_channels.

Theorem C07_source_demux : forall (s : si) b, g_demux s b = demux s b.
Proof. exact Proofs.ChannelsGen.gen_demux. Qed.
Print Assumptions C07_source_demux.

Theorem C07_source_add : forall a b : si, g_si_add a b = si_add a b.
Proof. exact Proofs.ChannelsGen.gen_si_add. Qed.
Print Assumptions C07_source_add.

Theorem C07_source_mux : forall l : list si, g_mux l = mux l.
Proof. exact Proofs.ChannelsGen.gen_mux. Qed.
Print Assumptions C07_source_mux.

Theorem C07_source_filter_si : forall cr (s : si), g_filter_bands cr s = filter_bands cr s.
Proof. exact Proofs.ChannelsGen.gen_filter_bands. Qed.
Print Assumptions C07_source_filter_si.

Theorem C07_source_calculate_spacing : forall d f s lo hi, g_calculate_spacing d f s lo hi = spacing_of d f s lo hi.
Proof. exact Proofs.ChannelsGen.gen_calculate_spacing. Qed.
Print Assumptions C07_source_calculate_spacing.

Theorem C07_source_band_intersection : forall d f s, g_inter d f s = inter d f s.
Proof. exact Proofs.ChannelsGen.gen_inter. Qed.
Print Assumptions C07_source_band_intersection.

Theorem C07_source_find_common_range : forall amps dmin dmax dsp ddb,
  g_find_common_range amps dmin dmax dsp ddb = find_common_range_gen amps dmin dmax dsp ddb.
Proof. exact Proofs.ChannelsGen.gen_find_common_range. Qed.
Print Assumptions C07_source_find_common_range.

Theorem C07_source_automatic_nch : forall fmin fmax sp, g_automatic_nch fmin fmax sp = automatic_nch fmin fmax sp.
Proof. exact Proofs.ChannelsGen.gen_automatic_nch. Qed.
Print Assumptions C07_source_automatic_nch.

Theorem C07_source_grid_frequency : forall fmin sp baud label tx i,
  g_grid_freq fmin sp i = cf (grid_chan fmin sp baud label tx i).
Proof. exact Proofs.ChannelsGen.gen_grid_freq. Qed.
Print Assumptions C07_source_grid_frequency.

Theorem C07_source_edfa_call : forall a (s : si), g_edfa_call a s = edfa_call a s.
Proof. exact Proofs.ChannelsGen.gen_edfa_call. Qed.
Print Assumptions C07_source_edfa_call.

Theorem C07_source_multiband_call : forall subs (s : si), g_multi_call subs s = multi_call subs s.
Proof. exact Proofs.ChannelsGen.gen_multi_call. Qed.
Print Assumptions C07_source_multiband_call.

(* ================= non-vacuity ================= *)
(* frequencies in GHz: C band 191250..196150, L band 186550..190050 *)
Definition ch (i : Z) (f b w : Z) : chan := mkC i (inject_Z f) (inject_Z b) (inject_Z w) "x" [inject_Z i] [].
Definition bC : band := mkB (inject_Z 191250) (inject_Z 196150) None.
Definition bL : band := mkB (inject_Z 186550) (inject_Z 190050) None.
Definition bC2 : band := mkB (inject_Z 191300) (inject_Z 196100) (Some (inject_Z 50)).
Definition ex_l : list chan :=
  [ch 1 193000 32 50; ch 2 187000 32 50; ch 3 191275 32 50; ch 4 190600 32 50; ch 5 193075 64 100; ch 6 191325 32 50].
Definition ex_l' : list chan :=
  [ch 6 191325 32 50; ch 4 190600 32 50; ch 1 193000 32 50; ch 5 193075 64 100; ch 3 191275 32 50; ch 2 187000 32 50].
Definition ex_path : list elem :=
  [EPass 0; EEdfa (mkA 1 [bC2]); EPass 2; EMulti 3 [bC; bL] [mkA 31 [bC]; mkA 32 [bL]]; EPass 4; EEdfa (mkA 5 [bC])].

Example ex_pos : pos_slots ex_l.
Proof. intros c Hc. cbn in Hc. repeat (destruct Hc as [<-|Hc]; [reflexivity|]). destruct Hc. Qed.
(* accepted, sorted: ids 2 4 3 6 1 5 *)
Example ex_mk_si : exists s, mk_si ex_l = Ok s /\ map cid s = [2; 4; 3; 6; 1; 5]%Z /\ mk_si ex_l' = Ok s.
Proof. eexists. split; [vm_compute; reflexivity|]. split; vm_compute; reflexivity. Qed.
(* rejected: overlap (two carriers 25 GHz apart with 50 GHz slots), baud > slot, equal frequencies *)
Example ex_overlap : mk_si [ch 1 193000 32 50; ch 2 193025 32 50] = Err E_overlap.
Proof. vm_compute. reflexivity. Qed.
Example ex_overlapping : overlapping [ch 1 193000 32 50; ch 2 193025 32 50].
Proof.
  exists [], (ch 1 193000 32 50), [], (ch 2 193025 32 50), []. split; [reflexivity|].
  split; vm_compute; reflexivity.
Qed.
Example ex_touching_ok : exists s, mk_si [ch 1 193050 32 50; ch 2 193000 50 50] = Ok s.
Proof. eexists. vm_compute. reflexivity. Qed.
Example ex_baud : mk_si [ch 1 193000 51 50; ch 2 193100 32 50] = Err E_baud.
Proof. vm_compute. reflexivity. Qed.
Example ex_equal_freq : mk_si [ch 1 193000 32 50; ch 2 194000 32 50; ch 3 193000 32 50] = Err E_overlap.
Proof. vm_compute. reflexivity. Qed.
(* the positive-slot hypothesis of mk_si_perm is needed: two zero-width carriers on one frequency are accepted
   in the order given (numpy's argsort is stable on small arrays), so the result depends on the input order *)
Example ex_zero_width_order_dependent :
  let a := ch 1 193000 0 0 in let b := ch 2 193000 0 0 in
  mk_si [a; b] = Ok [a; b] /\ mk_si [b; a] = Ok [b; a].
Proof. split; vm_compute; reflexivity. Qed.

(* the common range of the example path: C2 /\ (C or L) /\ C = 191300..196100 *)
Example ex_common_range :
  map (fun b => (bmin b, bmax b)) (path_common_range ex_path None None (inject_Z 50)) =
  [(inject_Z 191300, inject_Z 196100)].
Proof. vm_compute. reflexivity. Qed.

Example ex_path_ok : path_ok ex_path.
Proof.
  unfold path_ok, ex_path.
  apply Forall_cons; [exact I|]. apply Forall_cons; [exists bC2; reflexivity|].
  apply Forall_cons; [exact I|]. apply Forall_cons; [|apply Forall_cons; [exact I|apply Forall_cons; [exists bC; reflexivity|apply Forall_nil]]].
  cbn [elem_ok]. split; [|split; [|split]].
  - intros a [<-|[<-|[]]]; discriminate.
  - cbn. repeat split; auto. constructor; [|constructor]. right. vm_compute. discriminate.
  - cbn. repeat split; auto. constructor; [|constructor]. right. vm_compute. discriminate.
  - intros b [<-|[<-|[]]].
    + exists (mkA 31 [bC]), bC, []. cbn [In abands]. repeat split; auto; vm_compute; discriminate.
    + exists (mkA 32 [bL]), bL, []. cbn [In abands]. repeat split; auto; vm_compute; discriminate.
Qed.

(* launch on the example: channels 2 (L band), 4 (gap), 3 (edge of C2) are removed by the filter; 6, 1, 5 reach
   the receiver in frequency order, each stamped by the three amplifier stages 1, 31, 5 *)
Example ex_launch :
  match launch ex_path None None (inject_Z 50) ex_l with
  | Ok s => map (fun c => (cid c, chist c)) s = [(6, [5; 31; 1]); (1, [5; 31; 1]); (5, [5; 31; 1])]%Z
  | Err _ => False
  end.
Proof. vm_compute. reflexivity. Qed.
Example ex_launch_perm : launch ex_path None None (inject_Z 50) ex_l = launch ex_path None None (inject_Z 50) ex_l'.
Proof. vm_compute. reflexivity. Qed.
(* a multiband amplifier alone silently drops the gap channel 4 - this is why the filter must come first *)
Example ex_multi_drops_gap_channel :
  match mk_si ex_l with
  | Ok s => match elem_call (EMulti 3 [bC; bL] [mkA 31 [bC]; mkA 32 [bL]]) s with
            | Ok s' => map cid s' = [2; 3; 6; 1; 5]%Z
            | Err _ => False
            end
  | Err _ => False
  end.
Proof. vm_compute. reflexivity. Qed.

(* ---- construction ---- *)
(* the default SI band 191.3 .. 196.1 THz with 50 GHz spacing (GHz units): 96 channels, the first on 191350, the last
   on 196100 = f_max, whose slot therefore ends 25 GHz above f_max *)
Example ex_grid :
  match create_input_si (inject_Z 191300) (inject_Z 196100) (inject_Z 50) (inject_Z 32) "32.00G" [] with
  | Ok s => (length s = 96%nat) /\ (map cf (firstn 1 s) = [inject_Z 191300 + inject_Z 50 * inject_Z 1]) /\
            Qeq_bool (chi (last s (ch 0 0 0 0))) (inject_Z 196125) = true
  | Err _ => False
  end.
Proof. vm_compute. repeat split; reflexivity. Qed.
Example ex_grid_awkward_spacing :     (* spacing 100/3 GHz: 144 channels, accepted (exact arithmetic) *)
  match create_input_si (inject_Z 191300) (inject_Z 196100) (100 # 3) (inject_Z 32) "" [] with
  | Ok s => length s = 144%nat
  | Err _ => False
  end.
Proof. vm_compute. reflexivity. Qed.
Example ex_grid_baud : create_input_si (inject_Z 191300) (inject_Z 196100) (inject_Z 50) (inject_Z 51) "" [] = Err E_baud.
Proof. vm_compute. reflexivity. Qed.
Example ex_grid_zero_spacing : create_input_si (inject_Z 191300) (inject_Z 196100) 0 (inject_Z 32) "" [] = Err E_zero.
Proof. vm_compute. reflexivity. Qed.

Definition kk (i : Z) (b w : Z) (l : string) : carrier :=
  mkK i (inject_Z b) (inject_Z w) l (inject_Z (40 + i)) (1 # 1000) (inject_Z i) (15 # 100).
Definition ex_dict : list (Q * carrier) :=
  [(inject_Z 193000, kk 1 32 50 "a"); (inject_Z 187000, kk 2 64 75 "b"); (inject_Z 195000, kk 3 28 37 "c")].
Example ex_carriers :
  match carriers_to_si ex_dict, carriers_to_si (rev ex_dict) with
  | Ok s, Ok s' => s = s' /\ map (fun c => (cid c, clabel c, cbaud c)) s =
                               [(2%Z, "b"%string, inject_Z 64); (1%Z, "a"%string, inject_Z 32); (3%Z, "c"%string, inject_Z 28)]
  | _, _ => False
  end.
Proof. vm_compute. split; reflexivity. Qed.
Example ex_pos_carriers : pos_carriers ex_dict.
Proof. intros kv [<-|[<-|[<-|[]]]]; reflexivity. Qed.
Example ex_dimension_mismatch :
  create_arbitrary_cols (mkCols [1; 2]%Z [inject_Z 193000; inject_Z 193100] [inject_Z 32] [inject_Z 50; inject_Z 50]
                                [""; ""]%string [0; 0] [0; 0] [0; 0] [0; 0]) = Err E_dim.
Proof. vm_compute. reflexivity. Qed.

(* ---- spacing: amplifier 1 declares 75 on C; amplifier 2 declares nothing; design band gives 100 on L ---- *)
Example ex_spacing_design_bands :
  map (fun b => (bmin b, bsp b))
      (find_common_range_gen [[mkRB (Some (inject_Z 191250)) (Some (inject_Z 196150)) (Some (inject_Z 75));
                               mkRB (Some (inject_Z 186550)) (Some (inject_Z 190050)) None];
                              [mkRB (Some (inject_Z 186000)) (Some (inject_Z 196500)) None]]
                             None None (inject_Z 50)
                             [mkB (inject_Z 186000) (inject_Z 190500) (Some (inject_Z 100))]) =
  [(inject_Z 186550, Some (inject_Z 100)); (inject_Z 191250, Some (inject_Z 75))].
Proof. vm_compute. reflexivity. Qed.

(* ---- idempotence on the example path ---- *)
Example ex_filter_idempotent :
  match mk_si ex_l with
  | Ok s => match filter_si ex_path None None (inject_Z 50) s with
            | Ok k => filter_si ex_path None None (inject_Z 50) k = Ok k /\ map cid k = [6; 1; 5]%Z
            | Err _ => False
            end
  | Err _ => False
  end.
Proof. vm_compute. split; reflexivity. Qed.
