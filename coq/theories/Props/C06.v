(* C06 — a ROADM never amplifies and equalises every channel to its egress target.
   Property theorems about the model Verif.Model.Roadm (dB domain, exact rationals); proofs in Proofs/Roadm.v.

   Reading aid.  `propagate r deg from l = Ok o` : the crossing from ingress degree `from` to egress degree `deg`
   of ROADM `r` on spectrum `l` (a list of carriers of any length, each with its own frequency, baud rate, slot
   width, offset and power) succeeded with output `o`.   `chan_at l mls outs i c ml c'` : `c` is the i-th input
   carrier, `ml` the path loss ('roadm-maxloss' of the internal add/drop/express path at the carrier's frequency)
   applied to it and `c'` the i-th output carrier.  `resolve r deg = Some pl` : `pl` is the policy in force at
   the egress degree;  `chan_target pl c`  is  t | d + cbaud c | d + cslot c  for constant power / PSD x baud rate /
   PSW x slot width. *)
From Coq Require Import QArith Qminmax.
From Verif Require Import Prelude Model.Roadm.
From Verif Require Proofs.Roadm.
From Verif Require Import Gen.RoadmGen.
From Verif Require Proofs.RoadmGen.
Open Scope Q_scope.

(* ---- each channel leaves with min(target + offset, input power - path loss) *)
Theorem roadm_formula : forall r deg from l o,
  propagate r deg from l = Ok o ->
  exists pl mls mx,
    resolve r deg = Some pl /\ path_maxloss r from deg l = Ok (mls, mx) /\
    length mls = length l /\ length (o_chans o) = length l /\
    forall i c ml c', chan_at l mls (o_chans o) i c ml c' ->
      cp c' == Qmin (chan_target pl c + coff c) (cp c - ml).
Proof. exact Proofs.Roadm.roadm_formula. Qed.
Print Assumptions roadm_formula.

(* ---- no channel leaves with more power than it entered (path loss >= 0) *)
Theorem roadm_no_gain : forall r deg from l o,
  propagate r deg from l = Ok o ->
  exists mls mx, path_maxloss r from deg l = Ok (mls, mx) /\
    forall i c ml c', chan_at l mls (o_chans o) i c ml c' -> 0 <= ml -> cp c' <= cp c.
Proof. exact Proofs.Roadm.roadm_no_gain. Qed.
Print Assumptions roadm_no_gain.

(* ---- never above the target *)
Theorem roadm_caps_at_target : forall r deg from l o,
  propagate r deg from l = Ok o ->
  exists pl mls mx, resolve r deg = Some pl /\ path_maxloss r from deg l = Ok (mls, mx) /\
    forall i c ml c', chan_at l mls (o_chans o) i c ml c' -> cp c' <= chan_target pl c + coff c.
Proof. exact Proofs.Roadm.roadm_caps_at_target. Qed.
Print Assumptions roadm_caps_at_target.

(* ---- exactly on target when there is enough power, left at input - loss (unequalised) otherwise *)
Theorem roadm_exact_when_enough_power : forall r deg from l o,
  propagate r deg from l = Ok o ->
  exists pl mls mx, resolve r deg = Some pl /\ path_maxloss r from deg l = Ok (mls, mx) /\
    forall i c ml c', chan_at l mls (o_chans o) i c ml c' ->
      (chan_target pl c + coff c <= cp c - ml -> cp c' == chan_target pl c + coff c) /\
      (cp c - ml <= chan_target pl c + coff c -> cp c' == cp c - ml).
Proof. exact Proofs.Roadm.roadm_exact_when_enough_power. Qed.
Print Assumptions roadm_exact_when_enough_power.

(* ---- the ROADM only attenuates: no carrier is added, dropped or reordered, and the signal / ASE / NLI shares
        (hence OSNR, SNR_NLI, GSNR) as well as frequency, baud rate, slot width and offset are untouched *)
Theorem roadm_quality : forall r deg from l o,
  propagate r deg from l = Ok o ->
  length (o_chans o) = length l /\
  forall i c c', nth_error l i = Some c -> nth_error (o_chans o) i = Some c' ->
    cs c' = cs c /\ ca c' = ca c /\ cn c' = cn c /\
    cf c' = cf c /\ cbaud c' = cbaud c /\ cslot c' = cslot c /\ coff c' = coff c.
Proof. exact Proofs.Roadm.roadm_quality. Qed.
Print Assumptions roadm_quality.

(* ---- PMD / PDL (carried squared): the crossing adds exactly the 'roadm-pmd' / 'roadm-pdl' looked up on the internal
        path at the carrier's frequency, in quadrature, and never lowers them *)
Theorem roadm_pmd_pdl : forall r deg from l o,
  propagate r deg from l = Ok o ->
  exists pm pd, path_pol r from deg l = Ok (pm, pd) /\ length pm = length l /\ length pd = length l /\
    forall i c c', nth_error l i = Some c -> nth_error (o_chans o) i = Some c' ->
      exists a b, nth_error pm i = Some a /\ nth_error pd i = Some b /\
        cpmd2 c' = cpmd2 c + a * a /\ cpdl2 c' = cpdl2 c + b * b /\
        cpmd2 c <= cpmd2 c' /\ cpdl2 c <= cpdl2 c'.
Proof. exact Proofs.Roadm.roadm_pmd_pdl. Qed.
Print Assumptions roadm_pmd_pdl.

(* unsquared reading of "never lowers": x = pmd before, y = pmd after *)
Theorem quadrature_monotone : forall x y, 0 <= x -> 0 <= y -> x * x <= y * y -> x <= y.
Proof. exact Proofs.Roadm.sq_le_le. Qed.
Print Assumptions quadrature_monotone.

(* the value added is that of the first entry of the path's profile that contains the carrier's frequency and
   defines the key (an entry without it is skipped) *)
Theorem pol_per_band : forall r from deg l pm pd bs,
  path_pol r from deg l = Ok (pm, pd) -> get_path (rpaths r) from deg = Ok bs ->
  Forall (fun c => lookup1k bpmd bs (cf c) <> None) l -> Forall (fun c => lookup1k bpdl bs (cf c) <> None) l ->
  forall i c a b, nth_error l i = Some c -> nth_error pm i = Some a -> nth_error pd i = Some b ->
    lookup1k bpmd bs (cf c) = Some a /\ lookup1k bpdl bs (cf c) = Some b.
Proof. exact Proofs.Roadm.pol_per_band. Qed.
Print Assumptions pol_per_band.

Theorem lookup1k_spec : forall sel bs f q,
  lookup1k sel bs f = Some q ->
  exists pre b post, bs = pre ++ b :: post /\ in_band b f = true /\ sel b = Val q /\
    Forall (fun b' => in_band b' f = false \/ kv_val (sel b') = None) pre.
Proof. exact Proofs.Roadm.lookup1k_spec. Qed.
Print Assumptions lookup1k_spec.

(* ---- what the element reports: loss_pch_db = input - output >= path loss; reference channel: same min rule
        with the largest path loss, reference loss >= that loss *)
Theorem roadm_reports : forall r deg from l o,
  propagate r deg from l = Ok o ->
  exists mls mx rin rtg,
    path_maxloss r from deg l = Ok (mls, mx) /\ zfind from (refin r) = Some rin /\
    ref_target r deg = Ok (Some rtg) /\
    (forall ml, In ml mls -> ml <= mx) /\
    o_ref_out o = Qmin (rin - mx) rtg /\ o_ref_loss o = rin - o_ref_out o /\ mx <= o_ref_loss o /\
    length (o_loss o) = length l /\
    forall i c ml c' x, chan_at l mls (o_chans o) i c ml c' -> nth_error (o_loss o) i = Some x ->
      x = cp c - cp c' /\ ml <= x.
Proof. exact Proofs.Roadm.roadm_reports. Qed.
Print Assumptions roadm_reports.

(* ---- the path loss of a carrier is the 'roadm-maxloss' of the first band of the internal path's impairment
        profile that contains its frequency and defines a value (when every carrier lies in such a band) *)
Theorem maxloss_per_band : forall r from deg l mls mx bs,
  path_maxloss r from deg l = Ok (mls, mx) -> get_path (rpaths r) from deg = Ok bs ->
  Forall (fun c => lookup1 bs (cf c) <> None) l ->
  forall i c ml, nth_error l i = Some c -> nth_error mls i = Some ml -> lookup1 bs (cf c) = Some ml.
Proof. exact Proofs.Roadm.maxloss_per_band. Qed.
Print Assumptions maxloss_per_band.

Theorem lookup1_spec : forall bs f q,
  lookup1 bs f = Some q ->
  exists pre b post, bs = pre ++ b :: post /\ in_band b f = true /\ band_val b = Some q /\
    Forall (fun b' => in_band b' f = false \/ band_val b' = None) pre.
Proof. exact Proofs.Roadm.lookup1_spec. Qed.
Print Assumptions lookup1_spec.

(* ---- target resolution: the egress degree's entry of whichever kind if present, else the node's *)
Theorem target_resolution : forall r deg,
  (forall t, zfind deg (dpow r) = Some t -> resolve r deg = Some (Power t)) /\
  (forall d, zfind deg (dpow r) = None -> zfind deg (dpsd r) = Some d -> resolve r deg = Some (Psd d)) /\
  (forall d, zfind deg (dpow r) = None -> zfind deg (dpsd r) = None -> zfind deg (dpsw r) = Some d ->
             resolve r deg = Some (Psw d)) /\
  (zfind deg (dpow r) = None -> zfind deg (dpsd r) = None -> zfind deg (dpsw r) = None ->
   resolve r deg = node_policy r).
Proof. exact Proofs.Roadm.target_resolution. Qed.
Print Assumptions target_resolution.

Theorem target_values : forall t d c,
  chan_target (Power t) c = t /\ chan_target (Psd d) c = d + cbaud c /\ chan_target (Psw d) c = d + cslot c.
Proof. exact Proofs.Roadm.target_values. Qed.
Print Assumptions target_values.

Theorem node_policy_exactly_one : forall r, exactly_one r ->
  (exists t, npow r = Some t /\ npsd r = None /\ npsw r = None /\ node_policy r = Some (Power t)) \/
  (exists d, npow r = None /\ npsd r = Some d /\ npsw r = None /\ node_policy r = Some (Psd d)) \/
  (exists d, npow r = None /\ npsd r = None /\ npsw r = Some d /\ node_policy r = Some (Psw d)).
Proof. exact Proofs.Roadm.node_policy_exactly_one. Qed.
Print Assumptions node_policy_exactly_one.

(* ---- design step (set_roadm_per_degree_targets): populating the per-degree tables changes no resolved target,
        keeps every user entry, and gives every egress OMS an entry *)
Theorem set_targets_preserves : forall next r r',
  exactly_one r -> set_targets r next = Ok r' ->
  exactly_one r' /\ npow r' = npow r /\ npsd r' = npsd r /\ npsw r' = npsw r /\
  refc r' = refc r /\ refin r' = refin r /\ rpaths r' = rpaths r /\
  (forall deg, resolve r' deg = resolve r deg) /\
  (forall deg t, zfind deg (dpow r) = Some t -> zfind deg (dpow r') = Some t) /\
  (forall deg t, zfind deg (dpsd r) = Some t -> zfind deg (dpsd r') = Some t) /\
  (forall deg t, zfind deg (dpsw r) = Some t -> zfind deg (dpsw r') = Some t) /\
  (forall d, In d next -> deg_has r' d = true).
Proof. exact Proofs.Roadm.set_targets_preserves. Qed.
Print Assumptions set_targets_preserves.

(* every ROADM with exactly one node-level policy can be designed (F12 fixed) *)
Theorem set_targets_ok : forall next r, exactly_one r -> exists r', set_targets r next = Ok r'.
Proof. exact Proofs.Roadm.set_targets_ok. Qed.
Print Assumptions set_targets_ok.

Theorem design_rejects_none : forall next r d,
  npow r = None -> npsd r = None -> npsw r = None -> In d next -> deg_has r d = false ->
  exists e, set_targets r next = Err e.
Proof. exact Proofs.Roadm.design_rejects_none. Qed.
Print Assumptions design_rejects_none.

(* ---- design step (set_roadm_input_powers): the reference input power of an ingress degree is what its feed
        delivers; target_to_be_supported bounds every reference target the ROADM resolves; and when an ingress
        degree raises no "target can not be met" condition, the reference channel leaves exactly on target *)
Theorem input_powers_spec : forall pref b w feeds k,
  zfind k (input_powers pref b w feeds) =
  match zfind k feeds with Some f => Some (feed_power pref b w f) | None => None end.
Proof. exact Proofs.Roadm.input_powers_spec. Qed.
Print Assumptions input_powers_spec.

Theorem supported_bounds_targets : forall r b w m,
  supported r b w = Ok m -> refc r = Some (b, w) ->
  forall deg rt, ref_target r deg = Ok (Some rt) -> rt <= m.
Proof. exact Proofs.Roadm.supported_bounds_targets. Qed.
Print Assumptions supported_bounds_targets.

Theorem ref_on_target_when_supported : forall r deg from l o b w m rin mls mx,
  propagate r deg from l = Ok o -> refc r = Some (b, w) -> supported r b w = Ok m ->
  zfind from (refin r) = Some rin -> path_maxloss r from deg l = Ok (mls, mx) -> m + mx <= rin ->
  exists rtg, ref_target r deg = Ok (Some rtg) /\ o_ref_out o == rtg /\ o_ref_loss o == rin - rtg.
Proof. exact Proofs.Roadm.ref_on_target_when_supported. Qed.
Print Assumptions ref_on_target_when_supported.

(* ---- design step (set_roadm_internal_paths): every ingress/egress pair gets its internal path, express between
        line degrees, drop towards / add from a transceiver degree, with the impairment id the user chose for it *)
Theorem internal_paths_covers : forall profs pdis prev next drops adds calls,
  internal_paths profs pdis prev next drops adds = Ok calls ->
  let d := pdi_dict pdis in
  (forall from to, In from prev -> In to next -> In (mkCall from to Express (pdi_find d from to)) calls) /\
  (forall from dr, In from prev -> In dr drops -> In (mkCall from dr Drop (pdi_find d from dr)) calls) /\
  (forall ad to, In ad adds -> In to next -> In (mkCall ad to Add (pdi_find d ad to)) calls).
Proof. exact Proofs.Roadm.internal_paths_covers. Qed.
Print Assumptions internal_paths_covers.

(* ---- exactly one policy: equipment entry -> element config -> Roadm element *)
Theorem one_policy_accepted : forall eq el t,
  no_null eq -> no_null el -> load_policy eq el = Ok t ->
  count_some t = 1%Z /\ count_present eq = 1%Z /\ (count_present el <= 1)%Z /\
  t = (if (count_present el =? 1)%Z then vals el else vals eq).
Proof. exact Proofs.Roadm.one_policy_accepted. Qed.
Print Assumptions one_policy_accepted.

Theorem one_policy_many_rejected : forall eq el,
  (1 < count_present el \/ 1 < count_present eq)%Z -> exists e, load_policy eq el = Err e.
Proof. exact Proofs.Roadm.one_policy_many_rejected. Qed.
Print Assumptions one_policy_many_rejected.

Theorem one_policy_none_rejected : forall eq el, count_present eq = 0%Z -> exists e, load_policy eq el = Err e.
Proof. exact Proofs.Roadm.one_policy_none_rejected. Qed.
Print Assumptions one_policy_none_rejected.

(* RoadmParams on its own (an element built without the loader): more than one policy rejected; note that it
   accepts none — that case is only caught by the equipment check / the design step above *)
Theorem roadm_params_policy : forall k,
  ((1 < count_valued k)%Z -> exists e, roadm_params k = Err e) /\
  (forall t, roadm_params k = Ok t -> t = vals k /\ (count_some t <= 1)%Z).
Proof. exact Proofs.Roadm.roadm_params_policy. Qed.
Print Assumptions roadm_params_policy.

(* one_policy_accepted needs no_null: with an explicit JSON null the loader accepts a ROADM with no policy *)
Theorem one_policy_null_refuted :
  exists eq el t, load_policy eq el = Ok t /\ count_some t = 0%Z.
Proof. exact Proofs.Roadm.one_policy_null_refuted. Qed.
Print Assumptions one_policy_null_refuted.

(* ---- non-vacuity: concrete crossings on which the hypotheses hold and every branch is taken *)
(* ROADM: node PSD -34 dB(mW/GHz); degree 2 constant power -16 dBm; degree 3 PSW -35 dB(mW/GHz);
   express path 1->2 with two bands (C: 16.5 dB, L: 5 dB), add path 9->3 with the default (0 dB) *)
Definition ex_roadm : roadm :=
  mkRoadm None (Some (-34)) None [(2%Z, -16)] [] [(3%Z, -35)] (Some (15, 17)) [(1%Z, -2); (9%Z, 0)]
    [mkPath 1 2 [mkBand (Some (191300, 196100)) (Val (33 # 2)) (Val 3) Absent;
                 mkBand (Some (191300, 196100)) Absent Absent (Val (1 # 2));
                 mkBand (Some (186300, 190100)) (Val 5) (Val 0) (Val (3 # 10))];
     mkPath 9 3 [global_band 1 (1 # 2)]; mkPath 1 4 [global_band 1 (1 # 2)]].
(* mixed spectrum: one carrier far above target, one below target after the loss, one in the L band *)
Definition ex_spectrum : list chan :=
  [mkC 193100 15 17 (1 # 2) 3 (9 # 10) (1 # 20) (1 # 20) 16 0;
   mkC 193200 18 (75 # 4) 0 (-10) 1 0 0 0 (1 # 4);
   mkC 188000 15 17 (-2) (-9) (3 # 4) (1 # 4) 0 1 1].

Example ex_crossing_powers :
  match propagate ex_roadm 2 1 ex_spectrum with
  | Ok o => map (fun c => Qred (cp c)) (o_chans o) = [(-31 # 2); (-53 # 2); (-18)] /\ o_ref_out o == (-37 # 2) /\ o_ref_loss o == (33 # 2)
  | Err _ => False
  end.
Proof. vm_compute. repeat split; reflexivity. Qed.

(* pmd: 4^2 + 3^2 = 25 on carrier 1 (first entry), second entry supplies the pdl the first one lacks; L band: 0 / 0.3 *)
Example ex_crossing_pmd_pdl :
  match propagate ex_roadm 2 1 ex_spectrum with
  | Ok o => map (fun c => Qred (cpmd2 c)) (o_chans o) = [25; 9; 1] /\
            map (fun c => Qred (cpdl2 c)) (o_chans o) = [(1 # 4); (1 # 2); (109 # 100)]
  | Err _ => False
  end.
Proof. vm_compute. repeat split; reflexivity. Qed.

Example ex_crossing_psw_add :
  match propagate ex_roadm 3 9 ex_spectrum with
  | Ok o => map (fun c => Qred (cp c)) (o_chans o) = [(-35 # 2); (-65 # 4); (-20)]
  | Err _ => False
  end.
Proof. vm_compute. repeat split; reflexivity. Qed.

Example ex_crossing_node_level_psd :
  resolve ex_roadm 4 = Some (Psd (-34)) /\ resolve ex_roadm 2 = Some (Power (-16)) /\
  resolve ex_roadm 3 = Some (Psw (-35)) /\ exactly_one ex_roadm.
Proof. vm_compute. repeat split; reflexivity. Qed.

(* the hypothesis 0 <= ml of roadm_no_gain is needed: a negative 'roadm-maxloss' makes the model (and gnpy) amplify *)
Example ex_negative_maxloss_amplifies :
  match propagate (mkRoadm (Some 0) None None [] [] [] None [(1%Z, 0)] [mkPath 1 2 [mkBand None (Val (-3)) (Val 0) (Val 0)]]) 2 1
                  [mkC 193100 15 17 0 (-10) 1 0 0 0 0] with
  | Ok o => map (fun c => Qred (cp c)) (o_chans o) = [(-7)]
  | Err _ => False
  end.
Proof. vm_compute. reflexivity. Qed.

Example ex_design_populates :
  match set_targets ex_roadm [2; 3; 4; 5]%Z with
  | Ok r' => dpow r' = [(2%Z, -16)] /\ dpsd r' = [(4%Z, -34); (5%Z, -34)] /\ dpsw r' = [(3%Z, -35)]
  | Err _ => False
  end.
Proof. vm_compute. repeat split; reflexivity. Qed.

(* a 0 dBm node target is a target: the design step populates it (regression of F12) *)
Example ex_design_zero_dbm :
  match set_targets (mkRoadm (Some 0) None None [] [] [] None [] []) [1; 2]%Z with
  | Ok r' => dpow r' = [(1%Z, 0); (2%Z, 0)] /\ exactly_one r'
  | Err _ => False
  end.
Proof. vm_compute. repeat split; reflexivity. Qed.

Example ex_loader :
  load_policy (mkK (Val (-20)) Absent Absent) (mkK Absent (Val (-34)) Absent) = Ok (None, Some (-34), None) /\
  load_policy (mkK (Val (-20)) Absent Absent) (mkK Absent Absent Absent) = Ok (Some (-20), None, None) /\
  no_null (mkK (Val (-20)) Absent Absent) /\ no_null (mkK Absent (Val (-34)) Absent).
Proof. repeat split; try (vm_compute; reflexivity); cbn; discriminate. Qed.

(* design step on ex_roadm: ingress 1 fed by an amplifier (pref 1 dBm, delta_p -0.5, out_voa 1.5), ingress 9 by a
   transceiver, ingress 7 by a neighbour ROADM with PSD -35 through 2.5 dB of fused loss *)
Example ex_design_inputs :
  map (fun kv => (fst kv, Qred (snd kv))) (input_powers 1 15 17 [(1%Z, FEdfa (-1 # 2) (3 # 2) 0); (9%Z, FTrx 0); (7%Z, FRoadm (Psd (-35)) (5 # 2))])
    = [(1%Z, -1); (9%Z, 1); (7%Z, (-45 # 2))] /\
  match supported ex_roadm 15 17 with Ok m => m == -16 | Err _ => False end /\
  warned (-16) [(1%Z, -1); (9%Z, 1); (7%Z, (-45 # 2))] = [7%Z].
Proof. vm_compute. repeat split; reflexivity. Qed.

Example ex_internal_paths :
  internal_paths [mkProf 1 Add []; mkProf 2 Drop []] [mkPdi 9 3 1; mkPdi 1 9 2] [1]%Z [2; 3]%Z [9]%Z [9]%Z
    = Ok [mkCall 1 2 Express None; mkCall 1 3 Express None; mkCall 1 9 Drop (Some 2%Z);
          mkCall 9 2 Add None; mkCall 9 3 Add (Some 1%Z)] /\
  (exists e, internal_paths [mkProf 1 Add []] [mkPdi 1 9 1] [1]%Z [2]%Z [9]%Z [9]%Z = Err e).
Proof. split; [vm_compute; reflexivity | eexists; vm_compute; reflexivity]. Qed.

(* ================= translator tie: what /repo's source says today IS the model (Gen/RoadmGen.v is regenerated from
   the source on every run by harness/pygen_c06.py; these theorems are re-checked against it) ================= *)
(* Roadm.propagate: per-carrier equalisation arithmetic, reference channel, reports, PMD / PDL quadrature sums *)
Theorem C06_source_delta_power : forall tgt ml c, g_delta_power tgt ml c = delta_power tgt ml c.
Proof. exact Proofs.RoadmGen.gen_delta_power. Qed.
Print Assumptions C06_source_delta_power.

Theorem C06_source_equalize : forall pl cm, g_equalize pl cm = equalize pl cm.
Proof. exact Proofs.RoadmGen.gen_equalize. Qed.
Print Assumptions C06_source_equalize.

Theorem C06_source_propagate_reports : forall r deg from l o,
  propagate_power r deg from l = Ok o ->
  exists pl mls mx rin rtg,
    resolve r deg = Some pl /\ path_maxloss r from deg l = Ok (mls, mx) /\ zfind from (refin r) = Some rin /\
    ref_target r deg = Ok (Some rtg) /\
    o_chans o = map (g_equalize pl) (combine l mls) /\
    o_ref_out o = g_ref_out rin mx rtg /\ o_ref_loss o = g_ref_loss rin (o_ref_out o) /\
    o_loss o = map (fun cc => g_loss (fst cc) (snd cc)) (combine l (o_chans o)).
Proof. exact Proofs.RoadmGen.gen_reports. Qed.
Print Assumptions C06_source_propagate_reports.

Theorem C06_source_pmd_pdl : forall c a b,
  cpmd2 (add_pol c a b) = g_pmd2 c a /\ cpdl2 (add_pol c a b) = g_pdl2 c b /\ cp (add_pol c a b) = cp c.
Proof. exact Proofs.RoadmGen.gen_pol. Qed.
Print Assumptions C06_source_pmd_pdl.

(* get_per_degree_power / get_per_degree_ref_power / get_roadm_target_power: order of the tables, kind of each target *)
Theorem C06_source_resolve : forall r deg, g_resolve r deg = resolve r deg /\ g_resolve_ref r deg = resolve r deg.
Proof. exact Proofs.RoadmGen.gen_resolve. Qed.
Print Assumptions C06_source_resolve.

Theorem C06_source_node_policy : forall r, g_node r = node_policy r /\ g_node_ref r = node_policy r.
Proof. exact Proofs.RoadmGen.gen_node. Qed.
Print Assumptions C06_source_node_policy.

(* get_impairment: band test and per-key defaults *)
Theorem C06_source_in_band : forall b f, g_in_band b f = in_band b f.
Proof. exact Proofs.RoadmGen.gen_in_band. Qed.
Print Assumptions C06_source_in_band.

Theorem C06_source_item_val : forall b,
  g_item_val g_default_maxloss (bml b) = band_val b /\
  g_item_val g_default_pmd (bpmd b) = kv_val (bpmd b) /\ g_item_val g_default_pdl (bpdl b) = kv_val (bpdl b).
Proof. exact Proofs.RoadmGen.gen_item_val. Qed.
Print Assumptions C06_source_item_val.

(* set_roadm_per_degree_targets *)
Theorem C06_source_set_targets : forall next r, g_set_targets r next = set_targets r next.
Proof. exact Proofs.RoadmGen.gen_set_targets. Qed.
Print Assumptions C06_source_set_targets.

(* set_roadm_internal_paths: look-up keys and demanded path types *)
Theorem C06_source_internal_paths : forall profs pdis prev next drops adds calls,
  internal_paths profs pdis prev next drops adds = Ok calls ->
  let d := pdi_dict pdis in
  (forall from to, In from prev -> In to next ->
     In (mkCall from to Express (pdi_find d (fst (g_express_key from to)) (snd (g_express_key from to)))) calls) /\
  (forall from dr, In from prev -> In dr drops ->
     In (mkCall from dr g_drop_want (pdi_find d (fst (g_drop_key from dr)) (snd (g_drop_key from dr)))) calls) /\
  (forall ad to, In ad adds -> In to next ->
     In (mkCall ad to g_add_want (pdi_find d (fst (g_add_key ad to)) (snd (g_add_key ad to)))) calls).
Proof. exact Proofs.RoadmGen.gen_internal_paths. Qed.
Print Assumptions C06_source_internal_paths.

(* RoadmParams / json_io.Roadm / find_equalisation + merge_equalization *)
Theorem C06_source_roadm_params : forall k, g_roadm_params k = roadm_params k.
Proof. exact Proofs.RoadmGen.gen_roadm_params. Qed.
Print Assumptions C06_source_roadm_params.

Theorem C06_source_eqpt_check : forall e, g_eqpt_check e = eqpt_check e.
Proof. exact Proofs.RoadmGen.gen_eqpt_check. Qed.
Print Assumptions C06_source_eqpt_check.

Theorem C06_source_merge_policy : forall el eq, g_merge_policy el eq = merge_policy el eq.
Proof. exact Proofs.RoadmGen.gen_merge_policy. Qed.
Print Assumptions C06_source_merge_policy.

(* propagate_and_optimize_mode: a mode is only evaluated on the propagation made with its own baud rate and offset *)
Theorem C06_source_mode_explored : forall mb mo msp br off sp,
  g_mode_explored mb mo msp br off sp = true -> mb == br /\ mo == off.
Proof. exact Proofs.RoadmGen.gen_mode_explored. Qed.
Print Assumptions C06_source_mode_explored.
