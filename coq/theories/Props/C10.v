(* C10 — Auto-selected amplifiers are allowed, capable and the quietest capable choice.
   Property theorems only; the proofs are in Proofs/Select.v, the model in Model/Select.v.

   Vocabulary
     lib                     equipment['Edfa'] in dict order (names are dict keys: NoDup)
     nd, prev, next          the amplifier node (own variety_list), its neighbours (ROADM with its booster/preamp
                             restriction lists, fibre with its loss coefficient(s), anything else)
     restr_list nd prev next the restriction list that applies, by precedence
     permitted ... a         a is single-band, covers the design band [bmin,bmax] and is in the applicable restriction
                             list, or - when no list applies - is flagged allowed_for_design
     capable ra ext g p a    a (Raman only if ra) has  g + 3 - gain_min > 0  (no +3 for Raman)  and
                             min(p - g + gain_flatmax + ext, p_max) - p > 0
     nf                      noise figure of each candidate at the required gain (any function) *)
From Coq Require Import QArith Qminmax Lia.
From Verif Require Import Prelude Model.Select Proofs.Select Gen.SelectGen Proofs.SelectGen.
Open Scope Q_scope.

(* precedence of the restriction lists: own variety list > booster list of a preceding ROADM > preamp list of a
   following ROADM > none; an empty list at one level hands over to the next *)
Theorem C10_restr_precedence : forall nd prev next,
  let r := restr_list nd prev next in
  (n_vlist nd <> [] -> r = n_vlist nd) /\
  (n_vlist nd = [] ->
     (forall b p, prev = NRoadm b p -> b <> [] -> r = b) /\
     ((forall b p, prev = NRoadm b p -> b = []) ->
        (forall b p, next = NRoadm b p -> p <> [] -> r = p) /\
        ((forall b p, next = NRoadm b p -> p = []) -> r = []))).
Proof. exact restr_precedence. Qed.
Print Assumptions C10_restr_precedence.

(* whenever auto-design picks a model it is an entry of the library taken from the permitted set *)
Theorem C10_sel_permitted : forall nd prev next bmin bmax maxl gain pt ext nf lib s red,
  NoDup (map a_name lib) -> n_variety nd = ""%string ->
  auto_select nd prev next bmin bmax maxl gain pt ext nf lib = Ok (s, red) ->
  In s lib /\ permitted nd prev next bmin bmax s.
Proof. exact sel_permitted. Qed.
Print Assumptions C10_sel_permitted.

(* ... and covers the design band (and is not a multiband grouping) *)
Theorem C10_sel_band : forall nd prev next bmin bmax maxl gain pt ext nf lib s red,
  NoDup (map a_name lib) -> n_variety nd = ""%string ->
  auto_select nd prev next bmin bmax maxl gain pt ext nf lib = Ok (s, red) ->
  a_multi s = false /\ a_fmin s <= bmin /\ bmax <= a_fmax s.
Proof. exact sel_band. Qed.
Print Assumptions C10_sel_band.

(* Raman models only after a fibre all of whose loss coefficients are below the configured limit
   (maxl = max_fiber_lineic_loss_for_raman in dB/m, the unit of loss_coef) *)
Theorem C10_sel_raman_only_if_allowed : forall nd prev next bmin bmax maxl gain pt ext nf lib s red,
  NoDup (map a_name lib) -> n_variety nd = ""%string ->
  auto_select nd prev next bmin bmax maxl gain pt ext nf lib = Ok (s, red) ->
  a_raman s = true ->
  exists lcs, prev = NFiber lcs /\ Forall (fun lc => lc < maxl) lcs.
Proof. exact sel_raman_only_if_allowed. Qed.
Print Assumptions C10_sel_raman_only_if_allowed.

(* if some permitted model is capable, a model is chosen, it is permitted and capable, no power reduction is
   applied, and no permitted capable model has a lower noise figure *)
Theorem C10_sel_capable : forall nd prev next bmin bmax maxl gain pt ext nf lib,
  NoDup (map a_name lib) -> n_variety nd = ""%string ->
  let ra := raman_allowed prev maxl in
  (exists a, In a lib /\ permitted nd prev next bmin bmax a /\ capable ra ext gain pt a) ->
  exists s red, auto_select nd prev next bmin bmax maxl gain pt ext nf lib = Ok (s, red) /\
    In s lib /\ permitted nd prev next bmin bmax s /\ capable ra ext gain pt s /\ red == 0 /\
    (forall a, In a lib -> permitted nd prev next bmin bmax a -> capable ra ext gain pt a -> nf s <= nf a).
Proof. exact auto_select_capable. Qed.
Print Assumptions C10_sel_capable.

(* the same at the level of select_edfa, for any candidate dict *)
Theorem C10_select_capable : forall ra gain pt ext nf lib,
  (exists a, In a lib /\ capable ra ext gain pt a) ->
  exists s red, select_edfa ra gain pt ext nf lib = Ok (s, red) /\
    In s lib /\ capable ra ext gain pt s /\ red == 0 /\
    (forall a, In a lib -> capable ra ext gain pt a -> nf s <= nf a).
Proof. exact select_capable. Qed.
Print Assumptions C10_select_capable.

(* min(key=nf) returns the first minimum: everything before the chosen candidate is strictly noisier *)
Theorem C10_sel_first_minimum : forall ra gain pt ext nf lib s red,
  select_edfa ra gain pt ext nf lib = Ok (s, red) ->
  exists l1 l2, acc_power ext gain pt (pool ra gain lib) = l1 ++ s :: l2 /\
                Forall (fun a => nf s < nf a) l1 /\ Forall (fun a => nf s <= nf a) l2.
Proof. exact sel_first_minimum. Qed.
Print Assumptions C10_sel_first_minimum.

(* what the code does in every case, in particular when nobody is capable.  pool = the candidates above their
   (extended) minimum gain if there are any, else every EDFA of the dict (Raman excluded: input padding is assumed).
   If somebody of the pool has the power, the chosen one has it and is the quietest of those; otherwise the chosen
   one is within 0.3 dB of the best available power pm and is the quietest of those within 0.3 dB; the power
   reduction is min(power margin of the chosen one, 0). *)
Theorem C10_sel_fallback : forall ra gain pt ext nf lib s red,
  select_edfa ra gain pt ext nf lib = Ok (s, red) ->
  let pw := pow_margin ext gain pt in
  let pl := pool ra gain lib in
  In s pl /\ red = Qmin (pw s) 0 /\
  ((exists a, In a pl /\ 0 < pw a) ->
     0 < pw s /\ forall a, In a pl -> 0 < pw a -> nf s <= nf a) /\
  ((forall a, In a pl -> pw a <= 0) ->
     exists pm, (forall a, In a pl -> pw a <= pm) /\ (exists a, In a pl /\ pw a == pm) /\
                pm - (3 # 10) < pw s /\
                forall a, In a pl -> pm - (3 # 10) < pw a -> nf s <= nf a).
Proof. exact select_fallback. Qed.
Print Assumptions C10_sel_fallback.

(* the only failure: no EDFA at all among the candidates and no (allowed) Raman above its minimum gain *)
Theorem C10_sel_error : forall ra gain pt ext nf lib e,
  select_edfa ra gain pt ext nf lib = Err e ->
  edfa_list lib = [] /\ forall a, In a (amp_list ra lib) -> gain_margin gain a <= 0.
Proof. exact select_error. Qed.
Print Assumptions C10_sel_error.

(* an imposed type_variety takes precedence over every restriction *)
Theorem C10_imposed_variety : forall nd prev next bmin bmax lib,
  n_variety nd <> ""%string -> node_restrictions nd prev next bmin bmax lib = [n_variety nd].
Proof. exact imposed_variety. Qed.
Print Assumptions C10_imposed_variety.

(* ---- non-vacuity: a five-entry library; a ROADM booster list that the node's own list overrides; ties in NF *)
Definition exA (n : string) (ram allowed : bool) (gmin gmax pmax : Q) : amp :=
  mkAmp n false ram allowed (191275 # 1) (196125 # 1) gmin gmax pmax false.
Definition ex_lib : list amp :=
  [exA "low" false true 8 16 21; exA "med" false true 15 25 21; exA "high" false true 25 35 21;
   exA "med2" false false 15 25 23; exA "ram" true true 10 20 21].
Definition ex_nf (a : amp) : Q :=
  if String.eqb (a_name a) "low" then 7 else if String.eqb (a_name a) "med" then 6
  else if String.eqb (a_name a) "med2" then 6 else if String.eqb (a_name a) "high" then 5 else 1.

Example ex_nodup : NoDup (map a_name ex_lib).
Proof. repeat constructor; cbn; intuition discriminate. Qed.

(* no restriction anywhere: among the allowed_for_design entries, med is capable and quietest (med2 is not allowed,
   ram is not allowed after a ROADM) *)
Example ex_select_plain :
  option_map (fun sr => a_name (fst sr))
    (match auto_select (mkNode "" []) (NRoadm [] []) NOther (191300 # 1) (196100 # 1) (1 # 4000) 20 20 (5 # 2) ex_nf ex_lib
     with Ok x => Some x | Err _ => None end) = Some "med"%string.
Proof. vm_compute. reflexivity. Qed.

(* the ROADM's booster list admits med2 and med: equal NF, the first in library order wins *)
Example ex_select_tie :
  option_map (fun sr => a_name (fst sr))
    (match auto_select (mkNode "" []) (NRoadm ["med2"; "med"]%string []) NOther (191300 # 1) (196100 # 1) (1 # 4000) 20 20 (5 # 2) ex_nf ex_lib
     with Ok x => Some x | Err _ => None end) = Some "med"%string.
Proof. vm_compute. reflexivity. Qed.

(* the node's own list overrides the ROADM's; after a low-loss fibre the Raman entry is usable and quietest *)
Example ex_select_raman :
  option_map (fun sr => a_name (fst sr))
    (match auto_select (mkNode "" ["ram"; "low"]%string) (NFiber [2 # 10000]) (NRoadm [] ["high"]%string)
                       (191300 # 1) (196100 # 1) (1 # 4000) 14 18 (5 # 2) ex_nf ex_lib
     with Ok x => Some x | Err _ => None end) = Some "ram"%string.
Proof. vm_compute. reflexivity. Qed.

(* the hypothesis of C10_sel_capable is satisfiable *)
Example ex_capable_hyp :
  exists a, In a ex_lib /\ permitted (mkNode "" []) (NRoadm [] []) NOther (191300 # 1) (196100 # 1) a /\
            capable (raman_allowed (NRoadm [] []) (1 # 4000)) (5 # 2) 20 20 a.
Proof.
  exists (exA "med" false true 15 25 21). split; [cbn; tauto |]. split.
  - unfold permitted. cbn. repeat split; try (unfold Qle; cbn; lia); try congruence.
  - unfold capable, gain_margin, pow_margin. cbn. repeat split; try discriminate; reflexivity.
Qed.

(* nobody capable (gain 40 dB): the fall-back picks the entry closest to the power, with a power reduction *)
Example ex_fallback :
  match select_edfa false 40 21 (5 # 2) ex_nf ex_lib with
  | Ok (s, red) => (a_name s, Qred red) = ("high"%string, - (5 # 2))
  | Err _ => False
  end.
Proof. vm_compute. reflexivity. Qed.

(* ---- multiband amplifiers (type_def 'multi_band': a named group of single-band entries) *)
(* the permitted multiband models: in the applicable restriction list or - when none applies - allowed for design,
   every member covering one of the design bands *)
Theorem C10_multi_restrictions : forall nd prev next bands lib groups m,
  n_variety nd = ""%string ->
  (In m (multi_restrictions nd prev next bands lib groups) <->
   exists g, In g groups /\ g_name g = m /\
     (let r := restr_list nd prev next in (r <> [] -> In m r) /\ (r = [] -> g_allowed g = true)) /\
     Forall (fun t => exists b a, In b bands /\ lookup_amp t lib = Some a /\ covers a (fst b) (snd b) = true) (g_members g)).
Proof. exact multi_restrictions_spec. Qed.
Print Assumptions C10_multi_restrictions.

(* a model that offers a capable entry for every band survives preselect_multiband_amps *)
Theorem C10_multi_preselect_keeps : forall lib groups ext g bts restr0 sel,
  NoDup (map g_name groups) -> In g groups -> In (g_name g) restr0 -> In (g_name g) sel ->
  Forall (band_ok lib g true ext) bts ->
  exists sel', preselect lib groups ext restr0 sel bts = Ok sel' /\ In (g_name g) sel'.
Proof. exact preselect_keeps. Qed.
Print Assumptions C10_multi_preselect_keeps.

(* if a permitted multiband model is capable in every band (extended-gain allowance included), every band's choice
   is capable, needs no power reduction and is no noisier than that model's entry for the band *)
Theorem C10_multi_capable : forall nd prev next lib groups maxl ext bts g,
  NoDup (map g_name groups) -> n_variety nd = ""%string -> In g groups ->
  In (g_name g) (multi_restrictions nd prev next (map (fun b => (fst (fst (fst b)), snd (fst (fst b)))) bts) lib groups) ->
  Forall (band_ok lib g (raman_allowed prev maxl) ext) bts ->
  exists mr redfa, multi_redfa nd prev next lib groups ext bts = Ok (mr, redfa) /\
    Forall (fun b => let '(bmin, bmax, gain, pt) := b in
              forall nf, exists t a s red,
                In t (g_members g) /\ lookup_amp t lib = Some a /\ covers a bmin bmax = true /\
                band_select lib redfa prev maxl bmin bmax gain pt ext nf = Ok (s, red) /\
                capable (raman_allowed prev maxl) ext gain pt s /\ red == 0 /\ nf s <= nf a) bts.
Proof. exact multi_capable. Qed.
Print Assumptions C10_multi_capable.

(* the preselection never leaves the permitted models (and is not empty once a band has been processed) *)
Theorem C10_multi_preselect_within : forall lib groups ext restr0 bts sel sel',
  (forall m, In m sel -> In m restr0) ->
  preselect lib groups ext restr0 sel bts = Ok sel' ->
  (forall m, In m sel' -> In m restr0) /\ (bts <> [] -> sel' <> []).
Proof. exact preselect_within. Qed.
Print Assumptions C10_multi_preselect_within.

(* every band's choice belongs to a permitted multiband model, provided every permitted model has an entry for the
   band (otherwise restrictions_edfa is empty for the band and set_one_amplifier falls back to the whole library) *)
Theorem C10_multi_pick_permitted : forall nd prev next lib groups maxl ext bts mr redfa bmin bmax gain pt nf s red,
  n_variety nd = ""%string -> In (bmin, bmax, gain, pt) bts ->
  multi_redfa nd prev next lib groups ext bts = Ok (mr, redfa) ->
  (forall g, In g groups -> In (g_name g) mr -> exists t, In t (g_members g) /\ covers_name lib bmin bmax t = true) ->
  band_select lib redfa prev maxl bmin bmax gain pt ext nf = Ok (s, red) ->
  exists g, In g groups /\ In (g_name g) mr /\ In (a_name s) (g_members g).
Proof. exact multi_pick_permitted. Qed.
Print Assumptions C10_multi_pick_permitted.

(* the designed type_variety is taken (find_type_variety) among the models of the whole library that list every
   band's choice; it is a permitted one exactly when no other model lists the same entries *)
Theorem C10_multi_type : forall groups chosen m,
  In m (common_groups groups chosen) <->
  exists g, In g groups /\ g_name g = m /\ forall t, In t chosen -> In t (g_members g).
Proof. exact common_groups_spec. Qed.
Print Assumptions C10_multi_type.

(* regression of the repaired defect on the model: mA = [c_ok, l0] allowed, mB = [c_good, l0] not allowed; the C band
   gets c_ok although c_good is quieter, and the only common model is mA *)
Example ex_multi_no_leak :
  match multi_redfa (mkNode "" []) NOther NOther w_mlib w_groups (5 # 2)
                    [(187000, 190000, 20, 18); (191300, 196000, 20, 18)] with
  | Ok (mr, redfa) =>
      mr = ["mA"]%string /\
      match band_select w_mlib redfa NOther (1 # 4000) 191300 196000 20 18 (5 # 2) w_nf with
      | Ok (s, _) => a_name s = "c_ok"%string /\ common_groups w_groups ["l0"; "c_ok"]%string = ["mA"]%string
      | Err _ => False
      end
  | Err _ => False
  end.
Proof. vm_compute. repeat split. Qed.

(* non-vacuity of C10_multi_capable: mA is permitted and capable in both bands *)
Example ex_multi_hyp :
  In (g_name (mkG "mA" true ["c_ok"; "l0"]%string))
     (multi_restrictions (mkNode "" []) NOther NOther [(187000, 190000); (191300, 196000)] w_mlib w_groups) /\
  Forall (band_ok w_mlib (mkG "mA" true ["c_ok"; "l0"]%string) (raman_allowed NOther (1 # 4000)) (5 # 2))
         [(187000, 190000, 20, 18); (191300, 196000, 20, 18)].
Proof.
  split; [vm_compute; tauto |].
  constructor; [| constructor; [| constructor]].
  - exists "l0"%string, (mkAmp "l0" false false true 186550 190050 15 25 21 false).
    repeat split; try (cbn; tauto); try discriminate; reflexivity.
  - exists "c_ok"%string, (mkAmp "c_ok" false false true 191250 196150 15 25 21 false).
    repeat split; try (cbn; tauto); try discriminate; reflexivity.
Qed.

(* full statement "the designed type_variety is a permitted multiband model" is false of the faithful model
   (finding F-multiband-type): mX = [c_ok, l0] is not allowed, mA = [l0, c_ok] is; both list the two choices,
   find_type_variety may name the node mX *)
Theorem C10_multi_type_permitted_refuted :
  exists nd prev next bands lib groups chosen m g,
    n_variety nd = ""%string /\
    In g groups /\ In (g_name g) (multi_restrictions nd prev next bands lib groups) /\
    (forall t, In t chosen -> In t (g_members g)) /\
    In m (common_groups groups chosen) /\ ~ In m (multi_restrictions nd prev next bands lib groups).
Proof. exact multi_type_permitted_refuted. Qed.
Print Assumptions C10_multi_type_permitted_refuted.

(* ---- translator tie: definitions generated from the source text of gnpy/core/network.py (harness/pygen_c10.py ->
   Gen/SelectGen.v, regenerated on every run) proved equal to the hand-written model.  mk_row = the Edfa_list entry of a
   library entry (power margin, gain_min margin). ---- *)
Theorem C10_source_filter : forall ra gain pt ext lib,
  g_filter ra gain pt ext lib =
  (let* g := acc_gain ra gain lib in
   match g with
   | [] => Err "ValueError:max() arg is an empty sequence"
   | _ => Ok (map (mk_row ext gain pt) (acc_power ext gain pt g))
   end).
Proof. exact gen_filter. Qed.
Print Assumptions C10_source_filter.

Theorem C10_source_select_edfa : forall ra gain pt ext nf lib,
  g_select_edfa ra gain pt ext nf lib = select_edfa ra gain pt ext nf lib.
Proof. exact gen_select_edfa. Qed.
Print Assumptions C10_source_select_edfa.

Theorem C10_source_restriction_condition : forall r bmin bmax a, g_permb r bmin bmax a = permb r bmin bmax a.
Proof. exact gen_permb. Qed.
Print Assumptions C10_source_restriction_condition.

Theorem C10_source_preselect_cover : forall a bmin bmax, g_presel_cover a bmin bmax = covers a bmin bmax.
Proof. exact gen_presel_cover. Qed.
Print Assumptions C10_source_preselect_cover.

Theorem C10_source_raman_allowed : forall prev maxl, g_raman_allowed prev maxl = raman_allowed prev maxl.
Proof. exact gen_raman_allowed. Qed.
Print Assumptions C10_source_raman_allowed.

(* the ranking key: edfa_nf is template-matched whole (a fresh element of the library entry at hand, its noise figure at
   the required gain) and network.py is checked to keep no state between calls; the translation fails otherwise *)
Theorem C10_source_nf_of_entry_at_hand : g_nf_of_entry_at_hand = true.
Proof. exact gen_nf_of_entry_at_hand. Qed.
Print Assumptions C10_source_nf_of_entry_at_hand.
