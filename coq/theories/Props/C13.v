(* C13 — A service is accepted exactly when its worst channel clears the mode's threshold.
   Property theorems only; the proofs are in Proofs/Verdict.v, the model in Model/Verdict.v.

   Vocabulary (Model/Verdict.v):
     receiver, rxch        per channel: baud rate, four RAW (line only) figures and four current figures, all as 1/ratio
     update_snr r args     Transceiver.update_snr called with args: 0.1 nm SNRs (1/linear), scalar / per channel / None
     one_pen raw x         penalty of impairment value x for the table `raw` as listed in the equipment file
                           (normalised at load: (0,0) inserted when every abscissa is > 0, sorted; +inf outside)
     metric T f            round(min over channels (GSNR_0.1nm - total penalty), 2)   (met: a rational or -inf)
     decide_fixed          blocking reason of a request whose mode is given (forward, then reverse when bidirectional)
     mode_loop margin P lib sp   propagate_and_optimize_mode, P it m = receiver figures of mode m after the propagation
                           `it` = (baud rate, offset);  explore lib sp = the (propagation, mode) pairs in the code's order
     eval1 margin P it m   Pass (metric > OSNR + margin, STRICT) | Fail | NoSnr | Raise
     loop_st step ...      the same loop with the state of the path threaded through the propagations;
                           code_step = restore the designed gains, then propagate on the path objects *)
From Coq Require Import QArith Sorted.
From Verif Require Import Prelude Model.Verdict Proofs.Verdict Gen.VerdictGen Proofs.VerdictGen.
Open Scope Q_scope.

(* ---- the receiver counts every noise contribution exactly once, whatever happened before ---- *)
(* histories: after ANY sequence of update_snr calls a further call gives what it gives on the untouched receiver
   (same figures, same error): no accumulation from one mode of the loop to the next *)
Theorem update_snr_hist_indep : forall h r r1 args,
  run_updates r h = Ok r1 -> update_snr r1 args = update_snr r args.
Proof. exact Proofs.Verdict.update_snr_hist_indep. Qed.
Print Assumptions update_snr_hist_indep.

Theorem raw_figures_survive : forall h r r1, run_updates r h = Ok r1 -> Forall2 same_raw r1 r.
Proof. exact Proofs.Verdict.run_updates_raw. Qed.
Print Assumptions raw_figures_survive.

(* 1/GSNR_rx = 1/GSNR_line + sum over the crossed ROADMs of their entry (None = express: nothing) + 1/OSNR_tx *)
Theorem once_each : forall r roadms tx r' k c,
  update_snr r (roadms ++ [Some (Scalar tx)]) = Ok r' -> nth_error r k = Some c ->
  exists c', nth_error r' k = Some c' /\ same_raw c' c /\
    snr_01 c' == raw_snr_01 c + added_at roadms k + tx /\
    osnr_01 c' == raw_osnr_01 c + added_at roadms k + tx /\
    snr_bw c' == raw_snr_bw c + (added_at roadms k + tx) * (baud c / ref_bw) /\
    osnr_bw c' == raw_osnr_bw c + (added_at roadms k + tx) * (baud c / ref_bw).
Proof. exact Proofs.Verdict.once_each. Qed.
Print Assumptions once_each.

Theorem express_adds_nothing : forall l k, added_at (None :: l) k = added_at l k.
Proof. exact Proofs.Verdict.added_at_none. Qed.
Print Assumptions express_adds_nothing.

(* ---- the metric is the rounded worst channel ---- *)
Theorem metric_is_worst_channel : forall T f m, metric T f = Ok m ->
  exists l, chan_mets T (f_g01 f) (f_cd f) (f_pmd f) (f_pdl f) = Ok l /\ l <> [] /\
    (forall y, In y l -> met_le m (met_round2 y)) /\ (exists y, In y l /\ met_eq m (met_round2 y)).
Proof. exact Proofs.Verdict.metric_spec. Qed.
Print Assumptions metric_is_worst_channel.

Theorem channel_values : forall T g cd pmd pdl l,
  chan_mets T g cd pmd pdl = Ok l ->
  length l = length g /\
  forall k gk ck pk dk, nth_error g k = Some gk -> nth_error cd k = Some ck -> nth_error pmd k = Some pk ->
    nth_error pdl k = Some dk -> nth_error l k = Some (met_sub gk (total_pen T ck pk dk)).
Proof. exact Proofs.Verdict.chan_mets_spec. Qed.
Print Assumptions channel_values.

Theorem rounding_is_monotone_and_close : forall a b,
  (a <= b -> round2 a <= round2 b) /\ Qabs.Qabs (round2 a - a) <= 1 # 200.
Proof. intros a b. split; [apply Proofs.Verdict.round2_mono | apply Proofs.Verdict.round2_close]. Qed.
Print Assumptions rounding_is_monotone_and_close.

(* the metric clears a threshold exactly when every channel (GSNR_0.1nm - penalties, rounded) does *)
Theorem worst_channel_clears_iff : forall T f m thr, metric T f = Ok m ->
  exists l, chan_mets T (f_g01 f) (f_cd f) (f_pmd f) (f_pdl f) = Ok l /\ l <> [] /\
    (met_le (MFin thr) m <-> forall y, In y l -> met_le (MFin thr) (met_round2 y)).
Proof. exact Proofs.Verdict.metric_clears_iff. Qed.
Print Assumptions worst_channel_clears_iff.

(* ---- fixed mode: feasible iff the metric of the path (and of the reverse path) is at least OSNR + margin ---- *)
Theorem verdict_fixed_spec : forall thr fwd rev,
  (decide_fixed thr fwd rev = None <->
     met_le (MFin thr) fwd /\ (forall r, rev = Some r -> met_le (MFin thr) r)) /\
  (decide_fixed thr fwd rev = None \/ decide_fixed thr fwd rev = Some MODE_NOT_FEASIBLE).
Proof. exact Proofs.Verdict.verdict_fixed_spec. Qed.
Print Assumptions verdict_fixed_spec.

(* ---- an impairment outside the mode's penalty table always blocks ---- *)
Theorem penalty_above_table : forall raw x, raw <> [] -> (forall p, In p raw -> fst p < x) -> one_pen raw x = PInf.
Proof. exact Proofs.Verdict.one_pen_above. Qed.
Print Assumptions penalty_above_table.
Theorem penalty_below_table : forall raw x, raw <> [] -> (forall p, In p raw -> x < fst p) -> x < 0 -> one_pen raw x = PInf.
Proof. exact Proofs.Verdict.one_pen_below. Qed.
Print Assumptions penalty_below_table.
Theorem penalty_inside_finite : forall raw x, raw <> [] ->
  (exists p, In p (normalise raw) /\ fst p <= x) -> (exists p, In p (normalise raw) /\ x <= fst p) ->
  exists q, one_pen raw x = PFin q.
Proof. exact Proofs.Verdict.one_pen_inside. Qed.
Print Assumptions penalty_inside_finite.
Theorem normalised_table : forall raw,
  StronglySorted (fun p q => fst p <= fst q) (normalise raw) /\
  forall p, In p (normalise raw) <-> In p raw \/ (p = (0, 0) /\ forallb (fun p => Qlt_bool 0 (fst p)) raw = true).
Proof. intros raw. split; [apply Proofs.Verdict.normalise_asc | apply Proofs.Verdict.normalise_in]. Qed.
Print Assumptions normalised_table.

(* one channel whose CD, PMD or PDL is outside its table: blocked in fixed mode and never selected, for every threshold *)
Theorem penalty_outside_blocks : forall T f m k gk ck pk dk thr, metric T f = Ok m ->
  nth_error (f_g01 f) k = Some gk -> nth_error (f_cd f) k = Some ck -> nth_error (f_pmd f) k = Some pk ->
  nth_error (f_pdl f) k = Some dk ->
  one_pen (t_cd T) ck = PInf \/ one_pen (t_pmd T) pk = PInf \/ one_pen (t_pdl T) dk = PInf ->
  blocked_fixed thr m = true /\ passes_auto thr m = false.
Proof. exact Proofs.Verdict.penalty_outside_blocks. Qed.
Print Assumptions penalty_outside_blocks.

(* ---- automatic mode ---- *)
(* the loop returns the first pair of the exploration order that does not fail *)
Theorem mode_loop_spec : forall margin P lib sp,
  mode_loop margin P lib sp = first_decisive margin P (explore lib sp) None.
Proof. exact Proofs.Verdict.mode_loop_first_decisive. Qed.
Print Assumptions mode_loop_spec.

(* the exploration order: exactly the fitting modes, each under the propagation made with ITS baud rate and ITS offset;
   propagations strictly decreasing in (baud rate, offset) — each value once —, modes of a propagation non-increasing in
   (bit rate, offset) *)
Theorem exploration_order : forall lib sp,
  (forall it m, In (it, m) (explore lib sp) <->
     In it (iters lib sp) /\ In m lib /\ m_baud m == fst it /\ m_off m == snd it /\ fits sp m = true) /\
  (forall it, In it (iters lib sp) -> exists m, In m lib /\ fits sp m = true /\ it = (m_baud m, m_off m)) /\
  (forall m, In m lib -> fits sp m = true -> exists it, In it (iters lib sp) /\ iter_eqb (m_baud m, m_off m) it = true) /\
  StronglySorted (fun a b => iter_gtb a b = true) (iters lib sp) /\
  (forall it, StronglySorted (fun a b => key_gtb b a = false) (modes_of lib sp it)).
Proof.
  intros lib sp. split; [apply Proofs.Verdict.explore_in|]. split; [apply Proofs.Verdict.iters_in|].
  split; [apply Proofs.Verdict.iters_repr|]. split; [apply Proofs.Verdict.iters_sorted | apply Proofs.Verdict.modes_of_sorted].
Qed.
Print Assumptions exploration_order.

(* a selected mode fits the spacing, was judged on the propagation of its own (baud rate, offset) and clears its
   threshold strictly; every fitting mode with a higher (baud rate, offset), and every fitting mode of the same
   propagation with a higher (bit rate, offset), was evaluated before and failed *)
Theorem mode_loop_selected : forall margin P lib sp it m,
  mode_loop margin P lib sp = Selected it m ->
  In m lib /\ fits sp m = true /\ m_baud m == fst it /\ m_off m == snd it /\ In it (iters lib sp) /\
  eval1 margin P it m = Pass /\
  (forall m', In m' lib -> fits sp m' = true -> iter_gt (m_baud m', m_off m') it ->
     exists it', In it' (iters lib sp) /\ iter_eqb (m_baud m', m_off m') it' = true /\ eval1 margin P it' m' = Fail) /\
  (forall m', In m' lib -> fits sp m' = true -> m_baud m' == fst it -> m_off m' == snd it -> key_gtb m' m = true ->
     eval1 margin P it m' = Fail).
Proof. exact Proofs.Verdict.mode_loop_selected. Qed.
Print Assumptions mode_loop_selected.

Theorem mode_loop_selected_conv : forall margin P lib sp l1 l2 it m,
  explore lib sp = l1 ++ (it, m) :: l2 -> Forall (fails margin P) l1 -> eval1 margin P it m = Pass ->
  mode_loop margin P lib sp = Selected it m.
Proof. exact Proofs.Verdict.mode_loop_selected_conv. Qed.
Print Assumptions mode_loop_selected_conv.

(* none feasible: NO_FEASIBLE_MODE with the last explored mode *)
Theorem mode_loop_no_feasible_mode : forall margin P lib sp,
  (forall it m, mode_loop margin P lib sp = NoFeasibleMode it m ->
     Forall (fails margin P) (explore lib sp) /\ explore lib sp <> [] /\
     List.last (explore lib sp) (it, m) = (it, m) /\ In (it, m) (explore lib sp)) /\
  (Forall (fails margin P) (explore lib sp) -> explore lib sp <> [] ->
     exists it m, mode_loop margin P lib sp = NoFeasibleMode it m /\ In (it, m) (explore lib sp)).
Proof. intros. split; [apply Proofs.Verdict.mode_loop_nomode | apply Proofs.Verdict.mode_loop_nomode_conv]. Qed.
Print Assumptions mode_loop_no_feasible_mode.

(* no baud rate fits: NO_FEASIBLE_BAUDRATE_WITH_SPACING, and only then *)
Theorem mode_loop_no_baudrate : forall margin P lib sp,
  mode_loop margin P lib sp = NoBaudrate <-> forall m, In m lib -> fits sp m = false.
Proof. exact Proofs.Verdict.mode_loop_nobaud. Qed.
Print Assumptions mode_loop_no_baudrate.

(* bookkeeping after the loop: feasible iff a mode was selected and (bidirectional) the reverse path clears that mode's
   threshold; NO_FEASIBLE_MODE / NO_FEASIBLE_BAUDRATE_WITH_SPACING are kept; a failing reverse path gives MODE_NOT_FEASIBLE *)
Theorem decide_auto_spec : forall margin o rev,
  (decide_auto margin o rev = None <->
     exists it m, o = Selected it m /\ forall r, rev = Some r -> met_le (MFin (m_osnr m + margin)) r) /\
  (forall it m, o = NoFeasibleMode it m -> decide_auto margin o rev = Some "NO_FEASIBLE_MODE"%string) /\
  (o = NoBaudrate -> decide_auto margin o rev = Some "NO_FEASIBLE_BAUDRATE_WITH_SPACING"%string) /\
  (forall it m r, o = Selected it m -> rev = Some r -> ~ met_le (MFin (m_osnr m + margin)) r ->
     decide_auto margin o rev = Some MODE_NOT_FEASIBLE).
Proof. exact Proofs.Verdict.decide_auto_spec. Qed.
Print Assumptions decide_auto_spec.

(* Pass / Fail are the strict comparison of the metric with OSNR + margin *)
Theorem pass_is_strict : forall margin P it m,
  (eval1 margin P it m = Pass <->
     exists f x, P it m = Some f /\ metric (m_tab m) f = Ok x /\ ~ met_le x (MFin (m_osnr m + margin))) /\
  (eval1 margin P it m = Fail <->
     exists f x, P it m = Some f /\ metric (m_tab m) f = Ok x /\ met_le x (MFin (m_osnr m + margin))).
Proof. intros. split; [apply Proofs.Verdict.eval1_pass | apply Proofs.Verdict.eval1_fail]. Qed.
Print Assumptions pass_is_strict.

(* every mode is judged on the propagation made with its own baud rate and its own power offset (fix 1495bc6e) *)
Theorem selected_own_offset : forall margin P lib sp it m,
  mode_loop margin P lib sp = Selected it m -> iter_eqb it (m_baud m, m_off m) = true.
Proof. exact Proofs.Verdict.selected_own_offset. Qed.
Print Assumptions selected_own_offset.
Theorem explored_own_offset : forall lib sp it m, In (it, m) (explore lib sp) -> iter_eqb it (m_baud m, m_off m) = true.
Proof. exact Proofs.Verdict.explored_own_offset. Qed.
Print Assumptions explored_own_offset.

(* ---- the loop with the amplifier state made explicit ---- *)
(* The code (fix 6c7139d6) writes the designed gain of every amplifier of the path back at the top of every
   (baud rate, offset) iteration and then propagates on the path objects.  For every designed path, library, load
   assignment and figure conversion: the decision is the specification-level one on the figures of FRESH propagations,
   and the path handed back to the caller is in the state of the last propagation made, started from the designed
   gains — the clamp of the deciding iteration only, never that of an earlier one. *)
Theorem mode_loop_indep : forall load_of conv margin lib sp designed,
  fst (mode_loop_st (code_step designed load_of conv) margin lib sp designed) =
    mode_loop margin (fresh_provider designed load_of conv) lib sp /\
  forall pth, final_state designed load_of (fst (mode_loop_st (code_step designed load_of conv) margin lib sp designed)) = Some pth ->
    snd (mode_loop_st (code_step designed load_of conv) margin lib sp designed) = pth.
Proof. exact Proofs.Verdict.mode_loop_code. Qed.
Print Assumptions mode_loop_indep.
(* what makes the restore sound: propagations only change amplifier gains, so writing the designed gains back gives
   the designed path again *)
Theorem restore_gives_designed : forall d l, restore d (fst (run_load d l)) = d.
Proof. intros d l. apply Proofs.Verdict.restore_shape. apply Proofs.Verdict.run_load_shape. Qed.
Print Assumptions restore_gives_designed.

(* WHY THE RESTORE IS NEEDED — a theorem about the hypothetical loop WITHOUT it (`leaky_step` / `leaky_runs`: what the
   code did before 6c7139d6), not about the code: with the clamp persisting between iterations the figures of a later
   propagation differ from a fresh one and the decision can flip (witness: NO_FEASIBLE_MODE instead of a selection).
   corpus/C13/f06_*.json replay the witness on gnpy and must pass. *)
Theorem mode_loop_fresh_state_needed_refuted :
  (exists p ls, leaky_runs p ls <> fresh_runs p ls) /\
  (exists load_of conv margin lib sp p,
     fst (mode_loop_st (leaky_step load_of conv) margin lib sp p) <> mode_loop margin (fresh_provider p load_of conv) lib sp).
Proof.
  split.
  - exists w_path, [w_load (64, 8); w_load (32, 0)]. exact w_figures_differ.
  - exists w_load, w_conv, 0, w_lib, 75, w_path. destruct w_decision_differs as [A B]. rewrite A, B. discriminate.
Qed.
Print Assumptions mode_loop_fresh_state_needed_refuted.
(* ... the hypothetical loop would only be right where no propagation changes the state of the path *)
Theorem leaky_is_fresh_without_saturation : forall p ls,
  (forall l, In l ls -> fst (run_load p l) = p) -> leaky_runs p ls = fresh_runs p ls.
Proof. exact Proofs.Verdict.leaky_eq_fresh_if_stable. Qed.
Print Assumptions leaky_is_fresh_without_saturation.
(* the same witness through the loop of the code: selection, and only the last clamp on the returned path *)
Example ex_code_loop_on_witness :
  fst (mode_loop_st (code_step w_path w_load w_conv) 0 w_lib 75 w_path) = Selected (32, 0) (mkM 1 32 0 100 (75 # 2) 400 (mkT [] [] [])) /\
  snd (mode_loop_st (code_step w_path w_load w_conv) 0 w_lib 75 w_path) = fst (run_load w_path (w_load (32, 0))) /\
  fst (run_load w_path (w_load (32, 0))) = w_path /\ fst (run_load w_path (w_load (64, 8))) <> w_path.
Proof. split; [vm_compute; reflexivity|]. split; [vm_compute; reflexivity|]. split; [vm_compute; reflexivity | vm_compute; discriminate]. Qed.

(* ---- the same statements on the numeric amplifier state (dB), the part the harness compares with every Edfa ---- *)
(* effective gain after a propagation = min(gain before, p_max - pin): never above the gain before, output never above p_max *)
Theorem amplifier_clamp : forall g pmax p,
  clamp_db g pmax (Some p) <= g /\ clamp_db g pmax (Some p) + p <= pmax /\ clamp_db g pmax None = g.
Proof. intros. split; [apply Proofs.Verdict.clamp_db_le|]. split; [apply Proofs.Verdict.clamp_db_pmax | reflexivity]. Qed.
Print Assumptions amplifier_clamp.
(* the loop of the code (snapshot, then restore + propagate per iteration): the gain after the k-th propagation is the
   clamp of the DESIGNED gain by that propagation's own input power — nothing of the earlier iterations is left *)
Theorem amplifier_state_in_mode_loop : forall g0 pmax pins,
  amp_history g0 pmax (loop_events pins) = map (clamp_db g0 pmax) pins.
Proof. exact Proofs.Verdict.loop_history. Qed.
Print Assumptions amplifier_state_in_mode_loop.
(* propagations on shared objects without restore (a batch without the per-request copy; the loop before 6c7139d6): each
   gain is the clamp of the previous one; the gains never come back up and are at most those of fresh propagations *)
Theorem amplifier_state_when_shared : forall g0 pmax pins,
  amp_history g0 pmax (shared_events pins) = running pmax g0 pins /\
  StronglySorted (fun a b => b <= a) (running pmax g0 pins) /\
  Forall2 (fun x f => x <= f) (running pmax g0 pins) (map (clamp_db g0 pmax) pins).
Proof.
  intros. split; [apply Proofs.Verdict.shared_history|].
  split; [apply Proofs.Verdict.running_decreasing | apply Proofs.Verdict.running_le_fresh].
Qed.
Print Assumptions amplifier_state_when_shared.
Example ex_amplifier_state :
  amp_history 23 21 (shared_events [Some 3; Some (-5)]) = [18; 18] /\
  amp_history 23 21 (loop_events [Some 3; Some (-5)]) = [18; 23].
Proof. exact Proofs.Verdict.shared_differs_from_loop. Qed.

(* ---- translator tie: what /repo's SOURCE says (Gen/VerdictGen.v, regenerated from the source on every run by
   harness/pygen_c13.py) is the model these theorems are about ---- *)
(* compute_path_with_disjunction: `round(snr01nm_with_penalty[argmin], 2) < OSNR + margin` blocks, A->Z then Z->A *)
Theorem C13_source_fixed_verdict : forall osnr margin fwd rev,
  g_decide_fixed osnr margin fwd rev = decide_fixed (osnr + margin) (met_round2 fwd) (option_map met_round2 rev) /\
  g_fixed_blocked_fwd osnr margin fwd = blocked_fixed (osnr + margin) (met_round2 fwd) /\
  g_fixed_reason_fwd = MODE_NOT_FEASIBLE /\ g_fixed_reason_rev = MODE_NOT_FEASIBLE.
Proof.
  intros. split; [apply gen_decide_fixed|]. split; [apply gen_fixed_blocked_fwd | apply gen_fixed_reasons].
Qed.
Print Assumptions C13_source_fixed_verdict.
(* propagate_and_optimize_mode: pairs, min_spacing filter, modes of a propagation (baud, offset, spacing), sort key,
   STRICT acceptance test, blocking reasons *)
Theorem C13_source_mode_loop : forall lib sp it margin m worst,
  g_iters lib sp = iters lib sp /\ g_modes_of lib sp it = modes_of lib sp it /\ g_fits sp m = fits sp m /\
  g_accept margin m worst = passes_auto (m_osnr m + margin) (met_round2 worst) /\
  reason_of NoComputedSnr = Some g_reason_nosnr /\ reason_of NoBaudrate = Some g_reason_nobaud /\
  reason_of (NoFeasibleMode it m) = Some g_reason_nomode.
Proof.
  intros. split; [apply gen_iters|]. split; [apply gen_modes_of|]. split; [apply gen_fits|]. split; [apply gen_accept|].
  destruct gen_reasons as [A [B C]]. split; [exact A|]. split; [exact B | apply C].
Qed.
Print Assumptions C13_source_mode_loop.
Theorem C13_source_eval : forall margin P it m f worst,
  P it m = Some f -> metric (m_tab m) f = Ok (met_round2 worst) ->
  eval1 margin P it m = if g_accept margin m worst then Pass else Fail.
Proof. exact gen_eval1. Qed.
Print Assumptions C13_source_eval.
(* Transceiver._calc_penalty: numpy.interp with left = right = inf *)
Theorem C13_source_calc_penalty : forall x tab, g_calc_penalty x tab = interp x tab.
Proof. exact gen_calc_penalty. Qed.
Print Assumptions C13_source_calc_penalty.
(* utils.snr_sum and Transceiver.update_snr: 1/snr' = 1/snr_raw + added * bw / 12.5e9, from the RAW figures *)
Theorem C13_source_update_snr : forall added c x bw s,
  g_update1 added c = update1 added c /\ g_snr_sum x bw added ref_bw = snr_sum x bw added /\ g_contribution s = s.
Proof. intros. split; [apply gen_update1|]. split; [apply gen_snr_sum | apply gen_contribution]. Qed.
Print Assumptions C13_source_update_snr.
(* Roadm.set_roadm_paths: each add / drop stage of the default model is worth half of 1/add_drop_osnr *)
Theorem C13_source_add_drop_stage : forall ad,
  g_add_drop_stage ad = add_drop_stage ad /\ add_drop_stage ad + add_drop_stage ad == ad.
Proof. intros. split; [apply gen_add_drop_stage | apply add_drop_total]. Qed.
Print Assumptions C13_source_add_drop_stage.
(* json_io.Transceiver.__init__: (0, 0) inserted when every abscissa is > 0, then sorted *)
Theorem C13_source_normalise : forall raw, g_normalise raw = normalise raw.
Proof. exact gen_normalise. Qed.
Print Assumptions C13_source_normalise.
Theorem C13_source_blocking_classes :
  g_blocking_nomode = ["NO_FEASIBLE_MODE"; "MODE_NOT_FEASIBLE"]%string /\
  g_blocking_nopath = ["NO_PATH"; "NO_PATH_WITH_CONSTRAINT"; "NO_FEASIBLE_BAUDRATE_WITH_SPACING"; "NO_COMPUTED_SNR"]%string.
Proof. exact gen_blocking_lists. Qed.
Print Assumptions C13_source_blocking_classes.

(* ---- non-vacuity ---- *)
Definition ex_rx : receiver := [receive1 32 (1 # 1000) (2 # 1000) (3 # 1000) (4 # 1000); receive1 64 (1 # 500) (1 # 400) (1 # 300) (1 # 200)].
Example ex_history :
  exists r1, run_updates ex_rx [[Some (Scalar (1 # 100))]; [Some (Arr [1 # 50; 1 # 60]); None; Some (Scalar (1 # 10))]] = Ok r1 /\
  update_snr r1 [Some (Arr [1 # 7; 1 # 9]); None; Some (Scalar (1 # 10000))] =
  update_snr ex_rx [Some (Arr [1 # 7; 1 # 9]); None; Some (Scalar (1 # 10000))] /\
  exists r2, update_snr ex_rx [Some (Arr [1 # 7; 1 # 9]); None; Some (Scalar (1 # 10000))] = Ok r2 /\
             map snr_01 r2 <> map snr_01 ex_rx.
Proof.
  eexists. split; [vm_compute; reflexivity|]. split; [vm_compute; reflexivity|].
  eexists. split; [vm_compute; reflexivity|]. vm_compute. discriminate.
Qed.

Definition ex_tab : tables := mkT [(4000, 1); (2000, 1 # 2)] [] [(3 # 2, 1)].
Definition pfin_is (p : pen) (q : Q) : bool := match p with PFin x => Qeq_bool x q | PInf => false end.
Example ex_penalties :
  pfin_is (total_pen ex_tab 1000 5 1) ((1 # 4) + (2 # 3)) = true /\ pfin_is (total_pen ex_tab 4000 5 0) 1 = true /\
  total_pen ex_tab 4001 5 1 = PInf /\ total_pen ex_tab 1000 5 2 = PInf /\ total_pen ex_tab (-1) 5 1 = PInf.
Proof. repeat split; vm_compute; reflexivity. Qed.

Example ex_fixed :
  exists m, metric ex_tab (mkF [20; 21] [1000; 3000] [5; 5] [1; 0]) = Ok m /\
    decide_fixed (19 + (8 # 100)) m None = None /\ decide_fixed (19 + (9 # 100)) m None = Some MODE_NOT_FEASIBLE /\
    decide_fixed 15 m (Some (MFin 14)) = Some MODE_NOT_FEASIBLE.
Proof. eexists. split; [vm_compute; reflexivity|]. repeat split; vm_compute; reflexivity. Qed.

(* a library with two baud rates, three offsets; the 64 GBd modes do not fit 50 GHz *)
Definition ex_lib : list mode :=
  [mkM 0 32 0 100 (75 # 2) 12 (mkT [] [] []); mkM 1 64 0 400 75 20 (mkT [] [] []);
   mkM 2 32 3 200 50 16 ex_tab; mkM 3 44 0 300 50 30 (mkT [] [] [])].
Definition ex_P : provider := fun it m => Some (mkF [if Qeq_bool (snd it) 3 then 21 else 19; 22] [1000; 3000] [5; 5] [1; 0]).
Example ex_loop :
  map (fun x => (fst x, m_id (snd x))) (explore ex_lib 50) = [((44, 0), 3%Z); ((32, 3), 2%Z); ((32, 0), 0%Z)] /\
  (exists m, mode_loop 2 ex_P ex_lib 50 = Selected (32, 3) m /\ m_id m = 2%Z) /\
  (exists m, mode_loop 5 ex_P ex_lib 50 = Selected (32, 0) m /\ m_id m = 0%Z) /\
  (exists m, mode_loop 10 ex_P ex_lib 50 = NoFeasibleMode (32, 0) m /\ m_id m = 0%Z) /\
  mode_loop 2 ex_P ex_lib 30 = NoBaudrate.
Proof.
  split; [vm_compute; reflexivity|]. split; [eexists; split; vm_compute; reflexivity|].
  split; [eexists; split; vm_compute; reflexivity|]. split; [eexists; split; vm_compute; reflexivity|].
  vm_compute; reflexivity.
Qed.
