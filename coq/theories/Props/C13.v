(* C13 — placeholder while the proofs are being written *)
From Coq Require Import QArith.
From Verif Require Import Prelude Model.Verdict Proofs.Verdict.
Example placeholder_c13 : round2 (1 # 3) == 33 # 100.
Proof. vm_compute. reflexivity. Qed.
Print Assumptions placeholder_c13.
