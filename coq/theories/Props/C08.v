(* placeholder, replaced below *)
From Verif Require Import Prelude Model.Chain.
Example placeholder : True. Proof. exact I. Qed.
