(* C08 — Auto-design turns any well-formed topology into a complete line system.
   Property theorems only; the proofs are in Proofs/Chain.v, the model in Model/Chain.v.

   Model: a line between two ROADM / transceiver endpoints is a chain `list elem` (Fib | Fus | Amp);
   `design_line c l` = split_fiber on every fibre, add_roadm_preamp / add_roadm_booster (in either order),
   add_inline_amplifier, add_connector_loss, add_fiber_padding, as gnpy/core/network.py does them.
   Vocabulary (Proofs/Chain.v):
     no_auto els          no element of the input carries the "inserted by auto-design" mark
     c_min c <= c_max c   max(padding/0.2 km, 50 km) <= max_length  (otherwise see the *_refuted theorems, finding F16)
     erase els            els without the inserted amplifiers
     tot_len / tot_ll     sum of the fibre lengths / of length x loss coefficient
     span_sl c r          loss of a span minus the estimated Raman gain of its Raman fibres (c_rg c, an input)
     runs els             the spans: maximal fibre/fused runs as prev_node_generator / next_node_generator delimit them
     PairOk x y           junction rule for neighbours x -> y: no fibre-fibre, ROADM-fibre, fibre-ROADM junction; an
                          inserted amplifier only touches fibres and ROADMs (none next to Fused / Transceiver)
     RunPadded pad r      a span that starts with a fibre and ends with a non-Raman fibre, without Raman fibre,
                          has loss >= pad *)
From Verif Require Import Prelude Model.Chain Proofs.Chain Proofs.ChainNames Proofs.ChainSplit Proofs.ChainOpt Gen.ChainGen Proofs.ChainGen.
From Coq Require Import QArith Permutation Lia.
Open Scope Z_scope.

(* calculate_new_length, for every length and every configuration with target <= max_length *)
Theorem C08_split_length : forall L mn mx tg len n,
  0 < tg -> tg <= mx -> calc_len L mn mx tg = Ok (len, n) ->
  1 <= n /\ (qz n * len == L)%Q /\ ((qz mx <= L)%Q -> (len <= qz mx)%Q) /\ ((L < qz mx)%Q -> n = 1 /\ len = L).
Proof. exact calc_len_spec. Qed.
Print Assumptions C08_split_length.

(* split_fiber: equal spans with the original loss coefficient that together have the original length and
   length x loss coefficient; at most max_length each; untouched below max_length *)
Theorem C08_split_fibre : forall c f r, c_min c <= c_max c -> split_fib c f = Ok r ->
  (tot_len r == f_len f)%Q /\ (tot_ll r == f_len f * f_lc f)%Q /\ r <> [] /\
  (forall e, In e r -> exists g, e = Fib g /\ f_lc g = f_lc f /\ (qz (Z.of_nat (length r)) * f_len g == f_len f)%Q
                                 /\ ((qz (c_max c) <= f_len f)%Q -> (f_len g <= qz (c_max c))%Q)) /\
  ((f_len f < qz (c_max c))%Q -> r = [Fib f]).
Proof.
  intros c f r Hc H. destruct (split_fib_spec c f r Hc H) as [A B C D E]. repeat split; assumption.
Qed.
Print Assumptions C08_split_fibre.

(* a span that calculate_new_length produced is never split again, and every fibre of a designed line has such a
   length (so a second auto-design leaves the spans alone) *)
Theorem C08_split_idempotent : forall L mn mx tg len n L',
  0 < tg -> tg <= mx -> mn <= mx -> calc_len L mn mx tg = Ok (len, n) -> (L' == len)%Q ->
  exists len', calc_len L' mn mx tg = Ok (len', 1).
Proof. exact calc_len_idem. Qed.
Print Assumptions C08_split_idempotent.
Theorem C08_designed_spans_stable : forall c l l', c_min c <= c_max c -> no_auto (l_els l) -> design_line c l = Ok l' ->
  Forall (fstable c) (l_els l').
Proof. exact design_line_stable. Qed.
Print Assumptions C08_designed_spans_stable.

(* every fibre-fibre and ROADM-fibre junction has received an amplifier, none was inserted next to a Fused or a
   Transceiver — for every line, every configuration, both orders of the booster / preamp passes *)
Theorem C08_junctions : forall c l l', c_min c <= c_max c -> no_auto (l_els l) -> design_line c l = Ok l' ->
  AdjAll PairOk (path (l_sk l) (l_dk l) (l_els l')).
Proof. intros c l l' Hc Hn H. apply junctions_ok_iff. exact (d_junctions _ _ _ (design_line_spec c l l' Hc Hn H)). Qed.
Print Assumptions C08_junctions.

(* removing the inserted amplifiers gives back the split expansion of the input chain (same uids in the same
   order, same total length and total length x loss coefficient as the input); endpoints are kept, hence
   reachability between ROADMs / transceivers is unchanged *)
Theorem C08_erase_amps : forall c l l', c_min c <= c_max c -> no_auto (l_els l) -> design_line c l = Ok l' ->
  (l_sk l' = l_sk l /\ l_src l' = l_src l /\ l_dk l' = l_dk l /\ l_dst l' = l_dst l) /\
  (exists s, split_chain c (l_els l) = Ok s /\ names (erase (l_els l')) = names s /\
             (tot_len (erase (l_els l')) == tot_len (l_els l))%Q /\ (tot_ll (erase (l_els l')) == tot_ll (l_els l))%Q) /\
  (tot_len (l_els l') == tot_len (l_els l))%Q /\ (tot_ll (l_els l') == tot_ll (l_els l))%Q.
Proof.
  intros c l l' Hc Hn H. destruct (design_line_spec c l l' Hc Hn H) as [E _ _ _ R [T1 T2] _]. repeat split; try apply E; assumption.
Qed.
Print Assumptions C08_erase_amps.

(* uids after design = uids of the split chain + at most one booster uid + at most one preamp uid + one inline uid
   per fibre-fibre junction, each exactly once: if those candidates are pairwise distinct the output uids are unique *)
Theorem C08_names_unique : forall c l l', c_min c <= c_max c -> no_auto (l_els l) -> design_line c l = Ok l' ->
  exists s extra, split_chain c (l_els l) = Ok s /\
    Permutation (names (l_els l')) (names s ++ extra ++ inline_names s) /\
    (forall n, In n extra -> n = bname l s \/ n = pname l s) /\ (length extra <= 2)%nat /\
    (NoDup (names s ++ extra ++ inline_names s) -> NoDup (names (l_els l'))).
Proof.
  intros c l l' Hc Hn H. destruct (d_names _ _ _ (design_line_spec c l l' Hc Hn H)) as (s & extra & A & B & C & D).
  exists s, extra. repeat split; auto. intro ND. eapply Permutation_NoDup; [apply Permutation_sym; exact B | exact ND].
Qed.
Print Assumptions C08_names_unique.

(* every fibre has connector losses; every span that starts with a fibre and ends with a non-Raman fibre has at
   least the padding loss *)
Theorem C08_connectors_and_padding : forall c l l', c_min c <= c_max c -> no_auto (l_els l) -> design_line c l = Ok l' ->
  Forall FibOk (l_els l') /\ Forall (RunPadded (c_pad c)) (runs (l_els l')).
Proof.
  intros c l l' Hc Hn H. destruct (design_line_spec c l l' Hc Hn H) as [_ _ F P _ _ _]. split.
  - apply Forall_forall. intros e He. rewrite forallb_forall in F. specialize (F e He).
    destruct e as [f|n lo|a]; cbn in *; auto. destruct (f_cin f), (f_cout f); try discriminate. split; eauto.
  - apply padding_ok_iff. exact P.
Qed.
Print Assumptions C08_connectors_and_padding.

(* add_fiber_padding changes nothing but att_in of the first element of a span, and only when that is a fibre *)
Theorem C08_padding_first_fibre_only : forall c r r', pad_run c r = Ok r' ->
  r' = r \/ exists g t, r = Fib g :: t /\ r' = bump (Fib g) (c_pad c - span_sl c r) :: t /\ (span_sl c r < c_pad c)%Q.
Proof. exact pad_run_shape. Qed.
Print Assumptions C08_padding_first_fibre_only.

(* the validators applied to the implementation's designed network mean what they say *)
Theorem C08_designed_ok_reflect : forall lib pm els,
  designed_ok lib pm els = true <-> Forall (fun e => FibOk e /\ AmpOk lib pm e) els.
Proof. exact designed_ok_iff. Qed.
Print Assumptions C08_designed_ok_reflect.
Theorem C08_junctions_ok_reflect : forall sk dk els, junctions_ok sk dk els = true <-> AdjAll PairOk (path sk dk els).
Proof. exact junctions_ok_iff. Qed.
Print Assumptions C08_junctions_ok_reflect.
Theorem C08_padding_ok_reflect : forall pad els, padding_ok pad els = true <-> Forall (RunPadded pad) (runs els).
Proof. exact padding_ok_iff. Qed.
Print Assumptions C08_padding_ok_reflect.

(* ---- where the faithful model does not satisfy the full-strength property (replayed on gnpy: findings) ---- *)
(* F9: split_fiber copies the lumped losses into every sub-span ... *)
Theorem C08_split_lumped_refuted : exists c f r,
  split_fib c f = Ok r /\ (lumped_total r == 2 * lumped_total [Fib f])%Q /\ ~ (lumped_total [Fib f] == 0)%Q.
Proof. exact split_lumped_refuted. Qed.
Print Assumptions C08_split_lumped_refuted.
(* ... or raises although the fibre itself is valid *)
Theorem C08_split_lumped_raises : exists c f e, lumped_inside f (f_len f) = true /\ split_fib c f = Err e.
Proof. exact split_lumped_raises. Qed.
Print Assumptions C08_split_lumped_raises.
(* F16: max(padding/0.2 km, 50 km) > max_length: division by zero, or spans longer than max_length *)
Theorem C08_min_above_max_zero_division : exists c L e, c_max c < c_min c /\ (qz (c_max c) <= L)%Q /\
  calc_len L (c_min c) (c_max c) (c_target c) = Err e.
Proof. exact calc_len_zero_division. Qed.
Print Assumptions C08_min_above_max_zero_division.
Theorem C08_min_above_max_long_spans_refuted : exists c L len n, c_max c < c_min c /\
  calc_len L (c_min c) (c_max c) (c_target c) = Ok (len, n) /\ (qz (c_max c) < len)%Q.
Proof. exact calc_len_above_max_refuted. Qed.
Print Assumptions C08_min_above_max_long_spans_refuted.
(* F18: a Raman fibre at or above max_length is replaced by plain fibres *)
Theorem C08_split_raman_lost : exists c f r, f_raman f = true /\ split_fib c f = Ok r /\
  forallb (fun e => match e with Fib g => negb (f_raman g) | _ => false end) r = true /\ (2 <= length r)%nat.
Proof. exact split_raman_lost. Qed.
Print Assumptions C08_split_raman_lost.
(* F17: a span between two amplifiers that ends (or starts) with a Fused is never padded *)
Theorem C08_padding_fused_refuted : exists c l l' r,
  design_line c l = Ok l' /\ In r (runs (l_els l')) /\ existsb is_amp r = false /\ has_raman r = false /\
  (run_loss r < c_pad c)%Q /\ junctions_ok (l_sk l) (l_dk l) (l_els l') = true.
Proof. exact padding_fused_refuted. Qed.
Print Assumptions C08_padding_fused_refuted.
(* a Raman fibre inside a fused run that ends with a plain fibre is designed (gnpy fix 36fd5b85 for finding F15;
   witness kept in corpus/C08/f15_raman_fused_fiber.json): the Raman gain estimate is an input of the model (c_rg) *)
Theorem C08_raman_in_fused_run_designs : exists l', no_auto (l_els (w_line [w_user_amp "a";
    Fib (mkFib "r" true (qz 80000) (1 # 5000) (Some 0%Q) (Some (1 # 2)) 0 []); Fus "u" 1; Fib (w_fib "f" 5 [])])) /\
  design_line w_cfg_r (w_line [w_user_amp "a"; Fib (mkFib "r" true (qz 80000) (1 # 5000) (Some 0%Q) (Some (1 # 2)) 0 []);
                               Fus "u" 1; Fib (w_fib "f" 5 [])]) = Ok l' /\
  names (l_els l') = ["a"; "r"; "u"; "f"; "Edfa_preamp_B_from_f"]%string.
Proof. exact pad_raman_designs. Qed.
Print Assumptions C08_raman_in_fused_run_designs.

(* syntactic form of names_unique: input uids distinct and "safe" (no "(", not starting with "Edfa", "booster" or
   "preamp") -> the uids of the designed line are distinct.  The generated formats "<uid>_(k/n)",
   "Edfa_booster_<roadm>_to_<uid>", "Edfa_preamp_<roadm>_from_<uid>", "Edfa_<uid>" are injective on such uids
   (Proofs/ChainNames.v: base_ok_inj, split_name_k_inj, edfa_not_base, booster_not_base, preamp_not_base).
   Per line; across lines the booster / preamp formats "<roadm>_to_<uid>" are not injective without a condition on
   ROADM names, which the graph-level oracle of the check covers. *)
Theorem C08_names_unique_syntactic : forall c l l', no_auto (l_els l) -> design_line c l = Ok l' ->
  NoDup (names (l_els l)) -> Forall safe (names (l_els l)) -> NoDup (names (l_els l')).
Proof. exact design_names_unique. Qed.
Print Assumptions C08_names_unique_syntactic.

(* design keeps the endpoint pair of every line (no hypothesis), hence the edges between ROADMs / transceivers and
   reachability over any sequence of lines are unchanged for a whole network *)
Theorem C08_endpoints_preserved : forall c l l', design_line c l = Ok l' -> endpoints l' = endpoints l.
Proof. exact design_line_endpoints. Qed.
Print Assumptions C08_endpoints_preserved.
Theorem C08_reachability_preserved : forall c ls ls' a b, design_net c ls = Ok ls' ->
  map endpoints ls' = map endpoints ls /\ (reach (edges ls') a b <-> reach (edges ls) a b).
Proof. intros c ls ls' a b H. split; [exact (design_net_endpoints c ls ls' H) | exact (design_net_reach c ls ls' a b H)]. Qed.
Print Assumptions C08_reachability_preserved.

(* ---- non-vacuity: a line with a fibre to split, a fused junction, a short fibre to pad, a user amplifier ---- *)
Example C08_ex_hyps : c_min w_cfg <= c_max w_cfg /\ no_auto (l_els ex_line).
Proof. exact ex_hyps. Qed.
Example C08_ex_design : exists l', design_line w_cfg ex_line = Ok l' /\
  names (l_els l') = ["Edfa_booster_A_to_f1_(1/2)"; "f1_(1/2)"; "Edfa_f1_(1/2)"; "f1_(2/2)"; "u"; "f2"; "Edfa_f2"; "f3"; "a"; "f4";
                      "Edfa_preamp_B_from_f4"]%string.
Proof. exact ex_design. Qed.
Example C08_ex_split : calc_len (qz 200000) 50000 150000 90000 = Ok ((qz 200000 / qz 2)%Q, 2).
Proof. vm_compute. reflexivity. Qed.
Example C08_ex_reach : exists ls', design_net w_cfg [ex_line; mkLine Roadm "B" 1 Roadm "C" true [Fib (w_fib "g" 60 [])]] = Ok ls' /\
  reach (edges ls') "A" "C" /\ ~ reach (edges ls') "C" "A".
Proof. exact ex_reach. Qed.
Example C08_ex_names_safe : NoDup (names (l_els ex_line)) /\ Forall safe (names (l_els ex_line)).
Proof. exact ex_names_safe. Qed.

(* ---- the entry point of the tools: worker_utils.designed_network(..., no_insert_edfas).  Without the option it is
   design_line; with it nothing is split or inserted (same elements, same uids, same lengths, same endpoints), it never
   fails, and still every fibre has connector losses and every span that starts with a fibre and ends with a non-Raman
   fibre has at least the padding loss (order of the steps in the source: template-matched by harness/pygen_c08.py) ---- *)
Theorem C08_entry_point_default : forall c l, design_line_opt false c l = design_line c l.
Proof. exact design_line_opt_default. Qed.
Print Assumptions C08_entry_point_default.
Theorem C08_no_insert_connectors_and_padding : forall c l l', design_line_opt true c l = Ok l' ->
  Forall FibOk (l_els l') /\ Forall (RunPadded (c_pad c)) (runs (l_els l')) /\
  map ekey (l_els l') = map ekey (l_els l) /\ names (l_els l') = names (l_els l) /\
  tot_len (l_els l') = tot_len (l_els l) /\ endpoints l' = endpoints l.
Proof.
  intros c l l' H. destruct (design_line_no_insert c l l' H) as (F & P & K & N & T & E).
  split; [|split; [apply padding_ok_iff; exact P | auto]].
  apply Forall_forall. intros e He. rewrite forallb_forall in F. specialize (F e He).
  destruct e as [f|n lo|a]; cbn in *; auto. destruct (f_cin f), (f_cout f); try discriminate. split; eauto.
Qed.
Print Assumptions C08_no_insert_connectors_and_padding.
Theorem C08_no_insert_total : forall c l, exists l', design_line_opt true c l = Ok l'.
Proof. exact design_line_no_insert_total. Qed.
Print Assumptions C08_no_insert_total.
Example C08_ex_no_insert : exists l', design_line_opt true w_cfg (w_line [Fib (w_fib "f" 30 [])]) = Ok l' /\
  names (l_els l') = ["f"]%string /\ forallb fib_ok (l_els l') = true /\ padding_ok (c_pad w_cfg) (l_els l') = true.
Proof. exact ex_no_insert. Qed.

(* ---- translator tie (harness/pygen_c08.py): the definitions g_* of Gen/ChainGen.v are re-generated on every run from
   the source of gnpy/core/network.py; each equals the corresponding part of the model.  Vocabulary (Gen/ChainGen.v,
   Proofs/ChainGen.v): nkind / isinst = the classes the source tests with isinstance (a RamanFiber is a Fiber);
   kind_of e = the class of a chain element; succ_kind / succ_name l = class / uid of what follows the source ROADM (the
   first element, or the far end of an empty line), pred_kind / pred_name l likewise before the destination ROADM;
   next_kind kend t = class of the successor of an element followed by t (kend = the far end after the last). ---- *)
Theorem C08_source_calculate_new_length : forall L mn mx tg, g_calc_len L mn mx tg = calc_len L mn mx tg.
Proof. exact gen_calc_len. Qed.
Print Assumptions C08_source_calculate_new_length.

Theorem C08_source_span_bounds : forall c, g_min_length c = c_min c /\ g_target_length c = c_target c.
Proof. exact gen_bounds. Qed.
Print Assumptions C08_source_span_bounds.

(* split_fiber: the model's split_fib is calculate_new_length, the source's "single span" test and, otherwise, spans
   numbered from 0 with the source's uid, each a plain Fiber with the parameters of the original *)
Theorem C08_source_split_fiber : forall c f,
  split_fib c f =
  let* ln := g_calc_len (f_len f) (g_min_length c) (c_max c) (g_target_length c) in
  let '(len, n) := ln in
  if g_split_single n then Ok [Fib f]
  else if lumped_inside f len then
    Ok (map (fun span => Fib (mkFib (g_split_uid (f_name f) span n) false len (f_lc f) (f_cin f) (f_cout f) (f_att f)
                                    (f_lumped f))) (zrange 0 n))
  else Err "NetworkTopologyError:lumped loss outside the new span".
Proof. exact gen_split_fib. Qed.
Print Assumptions C08_source_split_fiber.

Theorem C08_source_booster : forall l, l_sk l = Roadm ->
  add_booster l =
  if g_booster_wanted (succ_kind l) then
    let* _ := kind_check (l_els l) in
    Ok (with_els l (new_amp (g_booster_uid (l_src l) (succ_name l))
                            (g_booster_multi (has_kind true (l_els l)) (has_kind false (l_els l)) (l_bands l)) :: l_els l))
  else Ok l.
Proof. exact gen_booster. Qed.
Print Assumptions C08_source_booster.

Theorem C08_source_preamp : forall l, l_dk l = Roadm ->
  add_preamp l =
  if g_preamp_wanted (pred_kind l) then
    let* _ := kind_check (l_els l) in
    Ok (with_els l (l_els l ++ [new_amp (g_preamp_uid (l_dst l) (pred_name l))
                                        (g_preamp_multi (has_kind true (l_els l)) (has_kind false (l_els l)))]))
  else Ok l.
Proof. exact gen_preamp. Qed.
Print Assumptions C08_source_preamp.

Theorem C08_source_inline : forall kend e t, kend = KRoadm \/ kend = KTrx ->
  add_inline (e :: t) =
  let* t' := add_inline t in
  if is_fib e && g_inline_wanted (next_kind kend t) then
    let* _ := kind_check t in
    Ok (e :: new_amp (g_inline_uid (el_name e)) (g_inline_multi (has_kind true t) (has_kind false t)) :: t')
  else Ok (e :: t').
Proof. exact gen_inline. Qed.
Print Assumptions C08_source_inline.

Theorem C08_source_connector_loss : forall c f kend t, kend = KRoadm \/ kend = KTrx ->
  conn_fib c f (next_is_fus t) =
  mkFib (f_name f) (f_raman f) (f_len f) (f_lc f) (Some (g_conn_in c (f_cin f)))
        (Some (g_conn_out c (f_cout f) (next_kind kend t))) (f_att f) (f_lumped f).
Proof. intros c f kend t H. rewrite (gen_next_is_fus kend t H). apply gen_conn_fib. Qed.
Print Assumptions C08_source_connector_loss.

Theorem C08_source_padding : forall c g t f, last (Fib g :: t) dflt = Fib f -> f_raman f = false ->
  pad_run c (Fib g :: t) =
  Ok (if g_pad_needed (c_pad c) (span_sl c (Fib g :: t))
      then bump (Fib g) (g_pad_incr (c_pad c) (span_sl c (Fib g :: t))) :: t
      else Fib g :: t).
Proof. exact gen_pad_run. Qed.
Print Assumptions C08_source_padding.
Theorem C08_source_padding_att_in : forall att pad sl, (g_pad_att att pad sl == att + g_pad_incr pad sl)%Q.
Proof. exact gen_pad_att. Qed.
Print Assumptions C08_source_padding_att_in.

(* spans: two neighbours x -> y are joined (no break) iff the source's backward walk from y steps on x and its forward walk
   from x steps on y: any succession of Fiber and Fused with at least one Fused in each pair *)
Theorem C08_source_span_walks : forall x y, g_prev_link x y = negb (brk x y) /\ g_next_link y x = negb (brk x y).
Proof. exact gen_span_link. Qed.
Print Assumptions C08_source_span_walks.

(* non-vacuity: the generated functions on the example line (ROADM A -> f1 ... f4 -> ROADM B) and on a 200 km fibre *)
Example C08_ex_source_split : g_calc_len (qz 200000) (g_min_length w_cfg) (c_max w_cfg) (g_target_length w_cfg)
                              = Ok ((qz 200000 / qz 2)%Q, 2) /\ g_split_uid "f1" 0 2 = "f1_(1/2)"%string.
Proof. split; vm_compute; reflexivity. Qed.
Example C08_ex_source_ends : l_sk ex_line = Roadm /\ l_dk ex_line = Roadm /\
  g_booster_wanted (succ_kind ex_line) = true /\ g_preamp_wanted (pred_kind ex_line) = true /\
  g_booster_wanted KRaman = true /\ g_preamp_wanted KRaman = true /\ g_inline_wanted KRaman = true /\
  g_booster_wanted KFused = false /\ g_inline_wanted KRoadm = false.
Proof. repeat split; reflexivity. Qed.
Example C08_ex_source_padding : exists g t f, last (Fib g :: t) dflt = Fib f /\ f_raman f = false /\
  g_pad_needed (c_pad w_cfg) (span_sl w_cfg (Fib g :: t)) = true.
Proof. exists (w_fib "f" 5 []), [], (w_fib "f" 5 []). repeat split; vm_compute; reflexivity. Qed.
