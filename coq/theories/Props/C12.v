(* C12 — requests declared disjoint never share a ROADM-to-ROADM link in either direction.
   links n p            = unordered pairs of successive ROADMs of p (a link and its opposite direction coincide)
   no_common_link n p q = forall l, In l (links n p) -> ~ In l (links n q)
   Route                = specification of C11 (Proofs/Route.v)
   The pruning algorithm of compute_path_dsjctn is not modelled: what it returns is judged by disjoint_ok /
   route_ok, its DisjunctionError by exists_disjoint_pair (single pair, candidate paths of at most `cutoff` links).
   Findings K1 (step 4 on the short list), K2, K3 (aggregation) of the pinned tree are repaired in /repo; their
   witnesses are kept as corpus cases and as the regression examples below. *)
From Verif Require Import Prelude Model.Route Proofs.Route Model.Disjoint Proofs.Disjoint Gen.DisjointGen Proofs.DisjointGen.
Open Scope Z_scope.

(* model of request.py isdisjoint: 0 exactly when the two lists have no common consecutive pair *)
Theorem c12_isdisjoint_spec :
  forall p1 p2,
  isdisjoint p1 p2 = 0 <->
  forall x y, (exists l1 l2, p1 = l1 ++ x :: y :: l2) -> ~ exists l1 l2, p2 = l1 ++ x :: y :: l2.
Proof. exact isdisjoint_spec. Qed.
Print Assumptions c12_isdisjoint_spec.

(* what a link is: an unordered pair of successive ROADMs of the path; walking the same sites the other way round
   uses the same links (a link and its opposite direction are the same link) *)
Theorem c12_links_spec :
  forall n p a b,
  In (a, b) (links n p) <->
  a <= b /\ exists l1 l2, roadms n p = l1 ++ a :: b :: l2 \/ roadms n p = l1 ++ b :: a :: l2.
Proof. exact links_spec. Qed.
Print Assumptions c12_links_spec.

Theorem c12_links_rev :
  forall n p l, In l (links n (rev p)) <-> In l (links n p).
Proof. exact links_rev. Qed.
Print Assumptions c12_links_rev.

(* the validator that judges the returned set of paths reflects the property *)
Theorem c12_disjoint_ok_reflects :
  forall n paths groups,
  disjoint_ok n paths groups = true <->
  forall grp, In grp groups -> forall a b, In a grp -> In b grp -> a <> b ->
    no_common_link n (path_of paths a) (path_of paths b).
Proof. exact disjoint_ok_spec. Qed.
Print Assumptions c12_disjoint_ok_reflects.

(* the existence procedure is sound and complete over all pairs of routes of at most cutoff links *)
Theorem c12_exists_disjoint_pair_spec :
  forall n s1 t1 inc1 s2 t2 inc2 cutoff,
  exists_disjoint_pair n s1 t1 inc1 s2 t2 inc2 cutoff = true <->
  exists p1 p2,
    Route (ngraph n) s1 t1 inc1 p1 /\ (length p1 <= S cutoff)%nat /\
    Route (ngraph n) s2 t2 inc2 p2 /\ (length p2 <= S cutoff)%nat /\
    no_common_link n p1 p2.
Proof. exact exists_disjoint_pair_spec. Qed.
Print Assumptions c12_exists_disjoint_pair_spec.

(* the same for a whole batch: one route per request (at most cutoff links each, include lists met) such that any two
   requests named together in a group, at positions i < j of the batch, get routes without a common link *)
Theorem c12_exists_disjoint_assignment_spec :
  forall n cutoff groups rqs,
  exists_disjoint_assignment n cutoff groups rqs = true <->
  exists ps,
    Forall2 (fun r p => Route (ngraph n) (b_src r) (b_dst r) (b_inc r) p /\ (length p <= S cutoff)%nat) rqs ps /\
    ForallOrdPairs (fun x y => conflict groups (fst x) (fst y) = true -> no_common_link n (snd x) (snd y))
                   (combine (map b_id rqs) ps).
Proof. exact exists_disjoint_assignment_spec. Qed.
Print Assumptions c12_exists_disjoint_assignment_spec.

Theorem c12_conflict_spec :
  forall groups a b,
  conflict groups a b = true <-> a <> b /\ exists grp, In grp groups /\ In a grp /\ In b grp.
Proof. exact conflict_spec. Qed.
Print Assumptions c12_conflict_spec.

(* deduplicate_disjunctions (with Python's remove-while-iterating semantics): every declared set of requests is
   still declared, nothing is invented *)
Theorem c12_dedup_groups_preserved :
  forall l,
  (forall d, In d l -> exists d', In d' (deduplicate l) /\ set_eq (members d) (members d') = true) /\
  incl (deduplicate l) l.
Proof. exact dedup_groups_preserved. Qed.
Print Assumptions c12_dedup_groups_preserved.

(* ... but it does NOT remove every repetition: two groups with the same set of requests and different ids can both
   survive (six groups a b a a b b leave 1, 3, 5; 1 and 5 are both b).  Replayed on gnpy: same output. *)
Theorem c12_dedup_complete_refuted :
  exists l d d', NoDup (map gid l) /\ In d (deduplicate l) /\ In d' (deduplicate l) /\
                 gid d <> gid d' /\ set_eq (members d) (members d') = true.
Proof. exact dedup_complete_refuted. Qed.
Print Assumptions c12_dedup_complete_refuted.

(* validator "every pair declared disjoint is still declared for the requests that now carry it" *)
Theorem c12_covered_ok_reflects :
  forall declared gs,
  covered_ok declared gs = true <->
  forall grp, In grp declared -> forall a b, In a grp -> In b grp -> a <> b -> Covered gs a b.
Proof. exact covered_ok_spec. Qed.
Print Assumptions c12_covered_ok_reflects.

(* requests_aggregation (ids and groups; as repaired by ae92a5de, 1cefb39c): groups_preserved.
   For every well-formed input -- Inv of the initial state: request ids are non-empty and share no atom, groups only
   name existing requests, each at most once (Record Inv in Proofs/Disjoint.v) -- every pair declared disjoint is
   still declared for the requests that now carry it, and no group names a request that no longer exists *)
Theorem c12_aggregate_preserves :
  forall rqs gs,
  Inv (mkS (map a_id rqs) (seq 0 (length rqs)) gs) ->
  let st := aggregate rqs gs in
  (forall a b, Covered gs a b -> Covered (s_groups st) a b) /\
  no_stale (final_ids st) (s_groups st) = true.
Proof. exact aggregate_preserves. Qed.
Print Assumptions c12_aggregate_preserves.

(* ... and requests that differ in a compared attribute are never merged: ids and groups come back untouched *)
Theorem c12_aggregate_distinct_untouched :
  forall rqs gs, NoDup (map a_sig rqs) ->
  aggregate rqs gs = mkS (map a_id rqs) (seq 0 (length rqs)) gs.
Proof. exact aggregate_distinct_untouched. Qed.
Print Assumptions c12_aggregate_distinct_untouched.

(* ---------- translator tie: decision code of /repo re-translated on every run (Gen/DisjointGen.v, harness/pygen_c11.py) ---------- *)
Theorem C12_source_isdisjoint : forall p1 p2, g_isdisjoint p1 p2 = isdisjoint p1 p2.
Proof. exact gen_isdisjoint. Qed.
Print Assumptions C12_source_isdisjoint.

(* step 1: candidates are enumerated up to 80 links, the bound under which completeness is claimed and judged *)
Theorem C12_source_cutoff : Z.to_nat g_cutoff = search_cutoff /\ search_cutoff = 80%nat.
Proof. split; [exact gen_cutoff|reflexivity]. Qed.
Print Assumptions C12_source_cutoff.

(* step 2: a candidate is kept exactly when neither it nor its reverse shares a consecutive pair with the chosen path *)
Theorem C12_source_step2 :
  forall a b c, g_step2_accept (g_step2_conflicts a b c) = true <-> isdisjoint a c = 0 /\ isdisjoint b c = 0.
Proof. exact gen_step2_accept. Qed.
Print Assumptions C12_source_step2.

(* step 4: the include list is tested against the FULL element path (not the ROADM short list); one STRICT hop makes the
   list strict *)
Theorem C12_source_step4 :
  forall nl full short strict_list,
  g_step4_ok nl full short = ispart nl full /\ g_step4_strict strict_list = existsb (fun b => b) strict_list.
Proof. intros. split; reflexivity. Qed.
Print Assumptions C12_source_step4.

(* step 5: a group without candidate raises DisjunctionError, unconditionally *)
Theorem C12_source_step5 : g_step5 false = Err "DisjunctionError" /\ g_step5 true = Ok tt.
Proof. split; reflexivity. Qed.
Print Assumptions C12_source_step5.

(* compare_reqs: the group test is the shape test of the aggregation model, the compared attributes are the signature *)
Theorem C12_source_compare_reqs :
  (forall r1 r2 gs, g_same_disj r1 r2 gs = same_disj r1 r2 gs) /\ g_compared_attrs = compared_attrs.
Proof. split; [exact gen_same_disj|exact gen_compared_attrs]. Qed.
Print Assumptions C12_source_compare_reqs.

(* route-list clean-up (own source first / destination last: pop positions) and the twin test, as in C11; matched
   literally too: BaseParams.update_attr deep-copies list / dict defaults (successive batches are independent),
   requests_from_json sorts the route objects by their numeric index *)
Theorem C12_source_route_list_cleanup : g_clean_pops = clean_pops.
Proof. exact gen_clean_pops. Qed.
Print Assumptions C12_source_route_list_cleanup.

Theorem C12_source_twin_attributes : g_twin_attrs = twin_attrs /\ twin_attrs = compared_attrs.
Proof. exact gen_twin_attrs. Qed.
Print Assumptions C12_source_twin_attributes.

(* the reverse candidates of step 1 come from find_reversed_path (matched literally: a crossed OMS without reverse OMS
   raises ValueError); it collects the OMS of every element that is neither a transceiver nor a ROADM *)
Theorem C12_source_find_reversed_path_filter : forall n el, g_rev_keeps n el = rev_keeps n el.
Proof. exact gen_rev_keeps. Qed.
Print Assumptions C12_source_find_reversed_path_filter.

(* ---------- non-vacuity ---------- *)
(* triangle A B C (f11_net has no B-C line): A->C direct and A->B share nothing; A->C and C->A share the link *)
Example c12_ex_links :
  links f11_net [0; 1; 8; 5; 4] = [(1, 5)] /\ links f11_net [4; 5; 9; 1; 0] = [(1, 5)] /\
  links f11_net [2; 3; 7; 1; 8; 5; 4] = [(1, 3); (1, 5)].
Proof. vm_compute. repeat split. Qed.
Example c12_ex_disjoint_ok :
  disjoint_ok f11_net [(0, [0; 1; 8; 5; 4]); (1, [0; 1; 6; 3; 2]); (2, [4; 5; 9; 1; 0])] [[0; 1]] = true /\
  disjoint_ok f11_net [(0, [0; 1; 8; 5; 4]); (1, [0; 1; 6; 3; 2]); (2, [4; 5; 9; 1; 0])] [[0; 1]; [2; 0]] = false.
Proof. vm_compute. split; reflexivity. Qed.
Example c12_ex_exists :
  exists_disjoint_pair f11_net 0 4 [] 0 2 [] 80 = true /\ exists_disjoint_pair f11_net 0 4 [] 4 0 [] 80 = false /\
  exists_disjoint_pair f11_net 0 4 [] 2 4 [] 80 = false.
Proof. vm_compute. repeat split. Qed.
Example c12_ex_isdisjoint : isdisjoint [1; 2; 3; 4] [9; 2; 3] = 1 /\ isdisjoint [1; 2; 3; 4] [3; 2; 1] = 0.
Proof. vm_compute. split; reflexivity. Qed.
Example c12_ex_dedup :
  map gid (deduplicate [mkG 1 [[0]; [1]]; mkG 2 [[1]; [0]]; mkG 3 [[0]; [2]]; mkG 4 [[1]; [0]; [0]]]) = [1; 3].
Proof. vm_compute. reflexivity. Qed.
Example c12_ex_aggregate :
  let st := aggregate [mkA [0] 1 true; mkA [1] 1 true; mkA [2] 5 true] [mkG 0 [[0]; [2]]; mkG 1 [[1]; [2]]] in
  final_ids st = [[1; 0]; [2]] /\ s_groups st = [mkG 0 [[2]; [1; 0]]] /\
  covered_ok [[0; 2]; [1; 2]] (s_groups st) = true.
Proof. vm_compute. repeat split. Qed.
Example c12_ex_wf : Inv (mkS (map a_id k2_rqs) (seq 0 (length k2_rqs)) k2_groups).
Proof. exact k2_inv. Qed.
(* regressions K2 / K3: twins whose groups differ in shape are no longer merged, nothing is lost, nothing is stale *)
Example c12_ex_regressions :
  covered_ok k2_declared (s_groups (aggregate k2_rqs k2_groups)) = true /\
  final_ids (aggregate k2_rqs k2_groups) = [[0]; [1]; [2]; [3]] /\
  no_stale (final_ids (aggregate k3_rqs k3_groups)) (s_groups (aggregate k3_rqs k3_groups)) = true /\
  s_groups (aggregate k3_rqs k3_groups) = k3_groups.
Proof. vm_compute. repeat split. Qed.
(* batch: A->C, A->B, C->A on the two-line star; {0,1} is satisfiable, adding {0,2} (A->C vs C->A share A-C) is not *)
Example c12_ex_assignment :
  exists_disjoint_assignment f11_net 80 [[0; 1]] [(0, 0, 4, []); (1, 0, 2, []); (2, 4, 0, [])] = true /\
  exists_disjoint_assignment f11_net 80 [[0; 1]; [2; 0]] [(0, 0, 4, []); (1, 0, 2, []); (2, 4, 0, [])] = false /\
  exists_disjoint_assignment f11_net 80 [[2; 1]] [(0, 0, 4, []); (1, 0, 2, []); (2, 4, 0, [])] = true.
Proof. vm_compute. repeat split. Qed.
Example c12_ex_dedup_incomplete : map gid (deduplicate dd_witness) = [1; 3; 5].
Proof. vm_compute. reflexivity. Qed.
