(* C20 — Spreadsheet inputs convert to the network and services they describe.
   Property theorems only; the proofs are in Proofs/Sheet*.v, the model in Model/Sheet.v.

   Vocabulary
     convert w                the model of xls_to_json_data on the parsed rows w (Nodes / Links / Eqpt / Roadms)
     nodes_of / links_of_w / eqpts_of_w   the data objects built from the rows (defaults applied)
     final_nodes w            the node list after sanity_check's correction (ILA declared on degree <> 2 -> ROADM)
     uid_list ns ls es        (Proofs/Sheet3.v) the list, in order:  trx c, roadm c  for every ROADM site c;
                              west/east fused spans in c  for every FUSED site;  fiber (A -> Z)-cable_east,
                              fiber (Z -> A)-cable_west  for every Links row;  west/east edfa in c  for every ILA
                              site without Eqpt row;  east/west edfa in A to Z  for every Eqpt row
     render                   the byte string of a uid (the f-strings of convert.py)
     wellformed w             site names contain none of ' ' ')' '|';  FUSED sites have no Eqpt row.  The latter
                              excludes the region where convert.py neither rejects nor converts properly (open
                              finding C20-eqpt-on-fused, see C20_eqpt_on_fused_refuted)
     sane ns ls es            the ten sanity rules, as propositions (Proofs/Sheet.v)
     violation ns ls es       one of the ten rules is broken (Proofs/Sheet7.v)
     is_line u                u is a fibre, an amplifier or a fused element
     one_succ cs u / one_pred cs u   u has exactly one successor / predecessor in the connection list cs *)
From Coq Require Import QArith.
From Verif Require Import Prelude Model.Sheet.
From Verif Require Import Proofs.Sheet Proofs.Sheet2 Proofs.Sheet3 Proofs.Sheet4 Proofs.Sheet5 Proofs.Sheet6 Proofs.Sheet7
                          Proofs.Sheet8 Proofs.Sheet9 Proofs.Sheet10.
From Verif Require Import Gen.SheetGen Proofs.SheetGen.
Open Scope Z_scope.

(* ---- accepted workbooks ---- *)
Theorem C20_sheet_structure : forall w n, convert w = Ok n -> wellformed w ->
  let ns := final_nodes w in let ls := links_of_w w in let es := eqpts_of_w w in
  uids n = uid_list ns ls es /\
  (forall l, In l ls -> exists e1 e2, In e1 (elements n) /\ In e2 (elements n) /\
     el_uid e1 = UFiber (l_from l) (l_to l) (s_cable (l_east l)) /\ el_c e1 = fiber_content (l_east l) /\
     el_uid e2 = UFiber (l_to l) (l_from l) (s_cable (l_west l)) /\ el_c e2 = fiber_content (l_west l)) /\
  NoDup (names n) /\
  (forall a b, In (a, b) (connections n) -> In a (uids n) /\ In b (uids n)) /\
  (forall u, In u (uids n) -> is_line u -> one_succ (connections n) u /\ one_pred (connections n) u).
Proof. exact sheet_structure. Qed.
Print Assumptions C20_sheet_structure.

(* west side of a Links row: every empty cell takes the east value (itself defaulted to 80 km / SSMF / 0.2 dB/km) *)
Theorem C20_west_defaults_to_east : forall r,
  l_east (mk_link r) = fill_side default_side (lr_east r) /\
  l_west (mk_link r) = fill_side (l_east (mk_link r)) (lr_west r).
Proof. intros r. split; reflexivity. Qed.
Print Assumptions C20_west_defaults_to_east.

(* the same degree statement on names (strings), using injectivity of rendering on well-formed names *)
Theorem C20_line_degree_names : forall w n, convert w = Ok n -> wellformed w ->
  forall u, In u (uids n) -> is_line u ->
  (exists v, In (render u, v) (named_conns n) /\ forall v', In (render u, v') (named_conns n) -> v' = v) /\
  (exists p, In (p, render u) (named_conns n) /\ forall p', In (p', render u) (named_conns n) -> p' = p).
Proof. exact line_degree_names. Qed.
Print Assumptions C20_line_degree_names.

Theorem C20_render_injective : forall u v, uid_names_ok u -> uid_names_ok v -> render u = render v -> u = v.
Proof. exact render_inj. Qed.
Print Assumptions C20_render_injective.

(* the settings of Eqpt row (A, Z): east on the element feeding the fibre A -> Z, west on the element fed by Z -> A *)
Theorem C20_eqpt_facing : forall w n, convert w = Ok n -> wellformed w ->
  forall e, In e (eqpts_of_w w) ->
  (exists el k, In el (elements n) /\ el_uid el = UEdfaTo East (e_from e) (e_to e) /\ el_c el = amp_content (e_east e) /\
                In (UEdfaTo East (e_from e) (e_to e), UFiber (e_from e) (e_to e) k) (connections n) /\
                In (UFiber (e_from e) (e_to e) k) (uids n)) /\
  (exists el k, In el (elements n) /\ el_uid el = UEdfaTo West (e_from e) (e_to e) /\ el_c el = amp_content (e_west e) /\
                In (UFiber (e_to e) (e_from e) k, UEdfaTo West (e_from e) (e_to e)) (connections n) /\
                In (UFiber (e_to e) (e_from e) k) (uids n)).
Proof. exact eqpt_facing. Qed.
Print Assumptions C20_eqpt_facing.

(* ---- rejected workbooks ---- *)
Theorem C20_sanity_rejects : forall w, violation (nodes_of w) (links_of_w w) (eqpts_of_w w) ->
  (exists r, In r rules /\ convert w = Err (topo_err r)) /\ forall n, convert w <> Ok n.
Proof. exact sanity_rejects. Qed.
Print Assumptions C20_sanity_rejects.

Theorem C20_accepted_is_sane : forall w n, convert w = Ok n -> sane (nodes_of w) (links_of_w w) (eqpts_of_w w).
Proof. exact accepted_is_sane. Qed.
Print Assumptions C20_accepted_is_sane.

(* every rejection is one of the ten sanity rules, the documented error of a Roadms row whose 'from degrees' and
   impairment ids differ in number, a non-integer impairment id, or the arithmetic error of a PMD value on a length
   <= 0; the KeyError / StopIteration / IndexError places of convert.py are unreachable *)
Theorem C20_convert_errors : forall w e, convert w = Err e ->
  (exists r, In r rules /\ e = topo_err r) \/ In e other_errors.
Proof. exact convert_errors. Qed.
Print Assumptions C20_convert_errors.

(* ---- Roadms sheet: per-degree impairments ---- *)
(* the ROADM element of a ROADM site carries exactly the triples of the Roadms rows whose Node A is the site: from the
   ingress element 'west edfa in A to <from degree>' to the egress element 'east edfa in A to <Node Z>', with the
   i-th id for the i-th 'from degree' *)
Theorem C20_impairments_land : forall w n, convert w = Ok n ->
  forall m, In m (final_nodes w) -> n_type m = TRoadm ->
  exists e v rs pd pi, In e (elements n) /\ el_uid e = URoadm (n_city m) /\ el_c e = CRoadm v rs pd pi /\
    forall t, In t (odef [] pi) <->
      exists r fdc ids fd id, In r (w_roadms w) /\ rr_from r = n_city m /\
        ostr_o (rr_from_deg r) = Some fdc /\ transform_data (rr_imp r) = Ok (Some ids) /\
        In (fd, id) (combine (split bar fdc) ids) /\
        t = (UEdfaTo West (n_city m) fd, UEdfaTo East (n_city m) (rr_to r), id).
Proof. exact impairments_land. Qed.
Print Assumptions C20_impairments_land.
(* and these two degrees are elements of the network as soon as the Eqpt sheet has the rows (A, from degree), (A, Z);
   by C20_eqpt_facing they are the amplifiers fed by the fibre from <from degree> / feeding the fibre to Z *)
Theorem C20_impairment_degrees_exist : forall w n, convert w = Ok n -> forall a b c,
  In a (eqpts_of_w w) -> In b (eqpts_of_w w) -> e_from a = c -> e_from b = c ->
  In (UEdfaTo West c (e_to a)) (uids n) /\ In (UEdfaTo East c (e_to b)) (uids n).
Proof. exact impairment_degrees_exist. Qed.
Print Assumptions C20_impairment_degrees_exist.

(* ---- the full statement without the `wellformed` guard is false of the faithful model: witness (replayed on
        gnpy by the harness: corpus/C20/f20d) ---- *)
Theorem C20_eqpt_on_fused_refuted : exists n, convert w_eqpt_on_fused = Ok n /\
  In (UEdfaTo East "F" "B") (uids n) /\
  forall a b, In (a, b) (connections n) -> a <> UEdfaTo East "F" "B" /\ b <> UEdfaTo East "F" "B".
Proof. exact eqpt_on_fused_refuted. Qed.
Print Assumptions C20_eqpt_on_fused_refuted.

(* ---- service sheet ---- *)
Theorem C20_service_spec : forall equipment bidir r q, request_element equipment bidir r = Ok q ->
  exists trx modes sp,
    id_str (q_trx r) = Some trx /\ assoc trx equipment = Some modes /\ r_trx q = trx /\
    r_mode q = id_str (q_mode r) /\ (forall m, r_mode q = Some m -> In m modes) /\
    q_spacing r = Some sp /\ ~ sp == 0 /\
    r_spacing_hz q == sp * 1000000000 /\
    r_bw_bps q == match q_bw r with Some b => b * 1000000000 | None => 0 end /\
    r_power_dbm q = q_power r /\ r_nbch q = option_map qtrunc (q_nbch r) /\
    r_src q = ("trx " +s pystr (ostr_o (q_src r))) /\ r_dst q = ("trx " +s pystr (ostr_o (q_dst r))) /\
    r_nodes q = (if seqb (ostr "" (q_path r)) "" then [] else split bar (ostr "" (q_path r))) /\
    r_loose q = is_loose_cell (q_loose r) /\
    r_disj q = (match id_str (q_disj r) with Some s => split bar s | None => [] end) /\
    r_id q = id_str (q_id r) /\ r_bidir q = bidir.
Proof. exact request_element_spec. Qed.
Print Assumptions C20_service_spec.

Theorem C20_pathsync_spec : forall q,
  (r_disj q = [] -> pathsync q = None) /\
  (r_disj q <> [] -> pathsync q = Some (r_id q, r_id q :: map Some (r_disj q))).
Proof. exact pathsync_spec. Qed.
Print Assumptions C20_pathsync_spec.

Theorem C20_one_vector_per_disjoint_row : forall l,
  length (sync_vectors l) = length (filter (fun q => match r_disj q with [] => false | _ => true end) l).
Proof. exact one_vector_per_disjoint_row. Qed.
Print Assumptions C20_one_vector_per_disjoint_row.

Theorem C20_route_objects_spec : forall q,
  map snd (route_objects q) = r_nodes q /\
  (NoDup (r_nodes q) -> forall i x, nth_error (r_nodes q) i = Some x ->
                         nth_error (route_objects q) i = Some (Z.of_nat i, x)).
Proof. exact route_objects_spec. Qed.
Print Assumptions C20_route_objects_spec.

(* ---- route-name correction (correct_xls_route_list): the list surgery ----
   `surgery dec i temp live` is the loop: hop k of the copy `temp` is kept / renamed / dropped / refused according to
   `dec`, acting on the FIRST occurrence of its name in the live list.  `slots` is the slot-by-slot image.
   A service row has one strictness for all its hops (r_loose), so "the i-th strictness belongs to the i-th kept hop"
   holds by construction; what has to be proved is that every operation hits the hop's own slot. *)
Theorem C20_route_surgery_slotwise : forall dec temp i done, clean dec i temp done ->
  surgery dec i temp (done ++ temp) = (let* r := slots dec i temp in Ok (done ++ r)).
Proof. exact surgery_slotwise. Qed.
Print Assumptions C20_route_surgery_slotwise.
(* whether it raises (a STRICT hop that cannot be corrected) depends on the decisions only *)
Theorem C20_route_surgery_raises : forall dec temp i live e,
  surgery dec i temp live = Err e <-> slots dec i temp = Err e.
Proof. exact surgery_raises. Qed.
Print Assumptions C20_route_surgery_raises.
(* `clean` holds when no hop name is repeated and no corrected name is itself written in the list *)
Theorem C20_route_clean_sufficient : forall dec temp i done, NoDup temp -> (forall x, In x done -> ~ In x temp) ->
  (forall j n s, In n temp -> dec j n = ARename s -> ~ In s temp) -> clean dec i temp done.
Proof. exact clean_sufficient. Qed.
Print Assumptions C20_route_clean_sufficient.
Theorem C20_correct_route_slotwise : forall k r r',
  let l := pop_ends (r_src r) (r_dst r) (r_nodes r) in
  let dec := decide (k_graph k) (k_roadm k) (k_fused k) (k_ila k) (k_next k) (r_loose r) (r_dst r) l in
  clean dec 0 l [] -> correct_route k r = Ok r' -> slots dec 0 l = Ok (r_nodes r').
Proof. exact correct_route_slotwise. Qed.
Print Assumptions C20_correct_route_slotwise.
(* the decision for one hop: unknown names and transceiver / fibre names are dropped when LOOSE and refused when
   STRICT; a hop is only ever renamed into one of its suggestions; exact ROADM / amplifier uids are kept *)
Theorem C20_decide_spec : forall g cr cf ci nn dst route i n,
  (smem n (uids_of_kind KTrx g ++ uids_of_kind KFiber g) = true ->
     decide g cr cf ci nn false dst route i n = AFail "ServiceError:trx_or_fiber_in_strict_route" /\
     decide g cr cf ci nn true dst route i n = ADrop) /\
  (smem n (uids_of_kind KTrx g ++ uids_of_kind KFiber g) = false -> suggestions g cr cf ci n = [] ->
     decide g cr cf ci nn false dst route i n = AFail "ServiceError:unknown_node_in_strict_route" /\
     decide g cr cf ci nn true dst route i n = ADrop) /\
  (smem n (uids_of_kind KTrx g ++ uids_of_kind KFiber g) = false ->
   smem n (uids_of_kind KRoadm g ++ uids_of_kind KEdfa g) = true ->
     forall loose, decide g cr cf ci nn loose dst route i n = AKeep) /\
  (forall loose s, decide g cr cf ci nn loose dst route i n = ARename s -> In s (suggestions g cr cf ci n)).
Proof.
  intros. split; [apply decide_strict_trx_fiber|]. split; [apply decide_strict_unknown|].
  split; [intros; apply decide_exact_kept; assumption | intros; eapply decide_rename_in_suggestions; eassumption].
Qed.
Print Assumptions C20_decide_spec.
Theorem C20_correct_route_keeps : forall k r r', correct_route k r = Ok r' ->
  r_id r' = r_id r /\ r_src r' = r_src r /\ r_dst r' = r_dst r /\ r_trx r' = r_trx r /\ r_mode r' = r_mode r /\
  r_spacing_hz r' = r_spacing_hz r /\ r_power_dbm r' = r_power_dbm r /\ r_nbch r' = r_nbch r /\
  r_disj r' = r_disj r /\ r_loose r' = r_loose r /\ r_bw_bps r' = r_bw_bps r /\ r_bidir r' = r_bidir r /\
  In (r_src r) (uids_of_kind KTrx (k_graph k)) /\ In (r_dst r) (uids_of_kind KTrx (k_graph k)).
Proof. exact correct_route_keeps. Qed.
Print Assumptions C20_correct_route_keeps.
(* without `clean` the slot-by-slot statement is false of the faithful model, and names matched by substring drop
   valid hops: witnesses, both reproduced on gnpy (corpus/C20/r04, r05) *)
Theorem C20_surgery_order_refuted :
  nodes_after w_order (svc_row "A" "B" "F | I | B | west fused spans in F" "yes")
    = Ok [["west edfa in I"; "roadm B"; "west fused spans in F"]]%string /\
  nodes_after w_order (svc_row "A" "B" "F | I | B" "yes")
    = Ok [["west fused spans in F"; "west edfa in I"; "roadm B"]]%string.
Proof. exact surgery_order_refuted. Qed.
Print Assumptions C20_surgery_order_refuted.
Theorem C20_prefix_name_refuted :
  nodes_after w_prefix (svc_row "B" "C" "A1 | C" "no") = Ok [["roadm C"]]%string /\
  nodes_after w_prefix (svc_row "A" "B" "A10 | B" "no") = Ok [["west edfa in A10"; "roadm B"]]%string.
Proof. exact prefix_name_refuted. Qed.
Print Assumptions C20_prefix_name_refuted.

(* ---- header recognition (read_header / read_slice / parse_headers) ----
   A label is looked for on the header line and the nine following lines; on a line it matches the first text cell
   that CONTAINS it; a line holding a non-zero number inside the slice yields no header at all. *)
Theorem C20_header_search : forall g a b label n line r, find_label g line a b label n = Some r ->
  exists k, (k < n)%nat /\ read_slice g (line + k) a b label = Some r /\
            forall j, (j < k)%nat -> read_slice g (line + j) a b label = None.
Proof. exact find_label_spec. Qed.
Print Assumptions C20_header_search.
Theorem C20_read_slice_at : forall g line a b label hs j h,
  all_some (map header_text (row_slice g line a b)) = Some hs -> (a <= b)%nat ->
  nth_error hs j = Some h -> contains label h = true -> label <> EmptyString ->
  (forall i h', (i < j)%nat -> nth_error hs i = Some h' -> h' = EmptyString \/ contains label h' = false) ->
  exists c', read_slice g line a b label = Some ((a + j)%nat, c').
Proof. exact read_slice_at. Qed.
Print Assumptions C20_read_slice_at.
Theorem C20_label_absent : forall g line a b label,
  (forall k h c, (k < 10)%nat -> In (h, c) (read_header g (line + k) a b) -> contains label h = false) ->
  find_label g line a b label 10 = None.
Proof. exact label_absent. Qed.
Print Assumptions C20_label_absent.
(* what a sheet must satisfy: every label of the dictionary is read on the header line itself (C20_read_slice_at) at
   its intended column - then the mapping is the intended one; an optional label that is left out must be contained
   in no text cell of the ten lines (C20_label_absent), else it is taken from there (witnesses below) *)
Theorem C20_columns_read_as_intended : forall g line a b (col : string -> nat) d hd,
  (forall label field, In (label, field) d -> exists c', read_slice g line a b label = Some (col label, c')) ->
  d <> [] \/ hd <> [] ->
  parse_flat g d hd line a b = Ok (intended d col hd) /\
  (NoDup (map fst hd ++ map (fun lf => col (fst lf)) d) ->
   intended d col hd = hd ++ map (fun lf => (col (fst lf), snd lf)) d).
Proof. intros. split; [apply parse_flat_intended; assumption | apply intended_distinct]. Qed.
Print Assumptions C20_columns_read_as_intended.
(* well-formed sheets that are mis-read (both reproduced on gnpy through xls_to_json_data):
   a Nodes sheet with the City column only and a site called Type-C: column 0 is read as the node type, no column as
   the city ("Duplicate city"); a one-sided Links sheet with a site called Southwest in a row without numbers: the
   east distance column is read as west_distance, every east length becomes the default *)
Theorem C20_header_hazard_nodes :
  parse_headers g_nodes_h1 node_headers [] 4 0 10 = Ok [(0%nat, "node_type"%string)].
Proof. exact header_hazard_nodes. Qed.
Print Assumptions C20_header_hazard_nodes.
Theorem C20_header_hazard_links : exists hd,
  parse_headers (g_links_h2 "Southwest") link_headers [] 3 0 16 = Ok hd /\
  parse_row [CStr "A"; CStr "B"; CNum 10] hd "east_distance" = CEmpty /\
  parse_row [CStr "A"; CStr "B"; CNum 10] hd "west_distance" = CNum 10.
Proof. exact header_hazard_links. Qed.
Print Assumptions C20_header_hazard_links.

(* ---- translator tie: the definitions generated on every run from the source of convert.py / service_sheet.py
        (Gen/SheetGen.v, harness/pygen_c20.py) are the model's ---- *)
Theorem C20_source_link_defaulting : g_link_default = default_side /\ forall r, g_mk_link r = mk_link r.
Proof. split; [exact gen_link_default | exact gen_mk_link]. Qed.
Print Assumptions C20_source_link_defaulting.
Theorem C20_source_eqpt_defaulting : forall r, g_mk_eqpt r = mk_eqpt r.
Proof. exact gen_mk_eqpt. Qed.
Print Assumptions C20_source_eqpt_defaulting.
Theorem C20_source_link_eq : forall a b, g_link_eqv a b = link_eqv a b.
Proof. exact gen_link_eqv. Qed.
Print Assumptions C20_source_link_eq.
Theorem C20_source_fiber_element : forall ns d l,
  fiber_el ns d l =
  (let* a := lookup_node (fst (g_fiber_mid d l)) ns in
   let* b := lookup_node (snd (g_fiber_mid d l)) ns in
   let* _ := pmd_check (match d with East => l_east l | West => l_west l end) in
   Ok (mkEl (g_fiber_uid d l) (midpoint a b) (g_fiber_content d l))).
Proof. exact gen_fiber_el. Qed.
Print Assumptions C20_source_fiber_element.
Theorem C20_source_eqpt_element : forall ns d e,
  eqpt_el ns d e =
  (let* a := lookup_node (g_amp_city d e) ns in Ok (mkEl (g_amp_uid d e) (node_loc a) (g_amp_content d e))).
Proof. exact gen_eqpt_el. Qed.
Print Assumptions C20_source_eqpt_element.
Theorem C20_source_fiber_link : forall f t ls,
  fiber_link f t ls =
  match find (fun li => in2 (l_from li) f t && in2 (l_to li) f t) (links_of f ls) with
  | Some li => Ok (g_fiber_link_uid f t li)
  | None => Err "StopIteration:fiber_link"%string
  end.
Proof. exact gen_fiber_link. Qed.
Print Assumptions C20_source_fiber_link.
Theorem C20_source_eqpt_in_city_to_city : forall c to_ es t d, g_ein c to_ es t d = eqpt_in_city_to_city c to_ es t d.
Proof. exact gen_ein. Qed.
Print Assumptions C20_source_eqpt_in_city_to_city.
(* corresp_next_node: the walk from an amplifier to "the next ILA or ROADM" passes over fibres and fused elements *)
Theorem C20_source_next_node_walk : forall k, g_skipped_kind k = skipped_kind k.
Proof. exact gen_skipped_kind. Qed.
Print Assumptions C20_source_next_node_walk.
Theorem C20_source_sanity_check : forall ns ls es,
  g_sanity_check ns ls es = sanity_check ns ls es /\ forall n, g_correct_type ls n = correct_type ls n.
Proof. intros. split; [apply gen_sanity_check | intros; apply gen_correct_type]. Qed.
Print Assumptions C20_source_sanity_check.
Theorem C20_source_request_units : forall equipment bidir r q, request_element equipment bidir r = Ok q ->
  g_spacing r = Some (r_spacing_hz q) /\ g_power_dbm r = r_power_dbm q /\ g_nbch r = r_nbch q /\ g_bw r = r_bw_bps q.
Proof. exact gen_request_units. Qed.
Print Assumptions C20_source_request_units.
Theorem C20_source_route_pops : forall src dst l, g_pop_ends src dst l = pop_ends src dst l.
Proof. exact gen_pop_ends. Qed.
Print Assumptions C20_source_route_pops.
Theorem C20_source_route_writeback : forall i n s live, g_writeback i n s live = replace_first n s live.
Proof. exact gen_writeback. Qed.
Print Assumptions C20_source_route_writeback.

(* ---- non-vacuity ---- *)
(* ROADM A, ROADM B, an ILA I (Eqpt row naming its second neighbour), an ILA J without row, a FUSED site F, a site K
   declared ILA on degree 3 (becomes ROADM), asymmetric Links rows *)
Definition ex_side (d : Q) (c : string) : side_row := mkSideRow (Some d) None None None None None (Some c).
Definition ex_w : rows :=
  mkRows [nd "A" "ROADM"; nd "I" "ILA"; nd "J" "ILA"; nd "B" "ROADM"; nd "F" "FUSED"; nd "K" "ILA"]
         [mkLinkRow "A" "I" (ex_side 50 "c1") (mkSideRow (Some 70.5%Q) (Some "NZDF"%string) None None None None None);
          mkLinkRow "B" "I" (ex_side 12.3455%Q "c2") blank_side;
          lk "A" "J"; lk "J" "K"; lk "K" "B"; lk "K" "F"; lk "F" "A"]
         [mkEqptRow "I" "B" (mkAmpRow (Some "std_low_gain"%string) (Some 12%Q) None (Some (-1)%Q) None None)
                            (mkAmpRow (Some "fused"%string) None None None None None);
          mkEqptRow "A" "I" blank_amp (mkAmpRow None (Some 20%Q) None None None None)]
         [mkRoadmRow "A" "I" (Some (-18.5)%Q) None (Some "F"%string) (CStr "0")].
Example ex_wellformed : wellformed ex_w.
Proof.
  constructor.
  - intros c H. vm_compute in H. repeat (destruct H as [H|H]; [subst c; reflexivity|]). destruct H.
  - intros n H T. vm_compute in H.
    repeat (destruct H as [H|H]; [subst n; try discriminate T; vm_compute; reflexivity|]). destruct H.
Qed.
Example ex_converts : exists n, convert ex_w = Ok n /\ length (elements n) = 28%nat /\ length (connections n) = 36%nat.
Proof. eexists. split; [vm_compute; reflexivity|]. split; reflexivity. Qed.

(* a duplicate (reversed) link: a violation in the sense of C20_sanity_rejects *)
Definition ex_dup : rows := mkRows [nd "A" "ROADM"; nd "B" "ROADM"] [lk "A" "B"; lk "B" "A"] [] [].
Example ex_violation : violation (nodes_of ex_dup) (links_of_w ex_dup) (eqpts_of_w ex_dup) /\
                       convert ex_dup = Err (topo_err "duplicate_link").
Proof.
  split; [|vm_compute; reflexivity].
  apply (V_duplicate_link _ _ _ [] [] [] (mk_link (lk "A" "B")) (mk_link (lk "B" "A"))); reflexivity.
Qed.

(* a service row: 37.5 GHz, 2 dBm, 80.0 channels, 150.5 Gbit/s, strict route, disjoint from requests 0 and r1 *)
Definition ex_row : req_row :=
  mkReqRow (CNum 3) (Some "A"%string) (Some "B"%string) (CStr "Voyager") (CStr "mode 1") (Some 37.5%Q) (Some 2%Q)
           (Some 80%Q) (CStr "0 | r1") (Some "A | roadm B"%string) (Some "no"%string) (Some 150.5%Q).
Example ex_request : exists q, request_element [("Voyager", ["mode 1"; "mode 2"])]%string false ex_row = Ok q /\
  r_id q = Some "3"%string /\ r_spacing_hz q == 37500000000 /\ r_bw_bps q == 150500000000 /\ r_nbch q = Some 80 /\
  r_nodes q = ["A"; "roadm B"]%string /\ r_loose q = false /\
  pathsync q = Some (Some "3", [Some "3"; Some "0"; Some "r1"])%string.
Proof. eexists. split; [vm_compute; reflexivity|]. repeat split; reflexivity. Qed.

(* the slot-by-slot theorem applies: a route without repeated names whose corrections are not written in it *)
Example ex_clean :
  let dec := fun (i : nat) (n : string) =>
    if seqb n "A" then ARename "roadm A" else if seqb n "nowhere" then ADrop else AKeep in
  clean dec 0 ["nowhere"; "A"; "roadm B"]%string [] /\
  surgery dec 0 ["nowhere"; "A"; "roadm B"]%string ["nowhere"; "A"; "roadm B"]%string = Ok ["roadm A"; "roadm B"]%string.
Proof.
  split; [|vm_compute; reflexivity].
  apply clean_sufficient.
  - repeat constructor; cbn; intuition discriminate.
  - intros x [].
  - intros j n s Hn D Hs. cbn in Hn, Hs.
    destruct Hn as [<-|[<-|[<-|[]]]]; cbn in D; inversion D; subst s; intuition discriminate.
Qed.
(* impairments: row (A, I) of ex_w with from degree F and id 0 *)
Example ex_impairment : exists n, convert ex_w = Ok n /\ exists e, In e (elements n) /\ el_uid e = URoadm "A" /\
  match el_c e with
  | CRoadm _ _ _ pi => pi = Some [(UEdfaTo West "A" "F", UEdfaTo East "A" "I", 0)]
  | _ => False
  end.
Proof.
  eexists. split; [vm_compute; reflexivity|]. eexists. split; [do 3 right; left; reflexivity|].
  split; reflexivity.
Qed.
(* a standard Nodes header line is read as intended *)
Example ex_headers :
  parse_headers [[CEmpty]; [CEmpty]; [CEmpty]; [CEmpty];
                 [CStr "City"; CStr "State"; CStr "Country"; CStr "Region"; CStr "Latitude"; CStr "Longitude"; CStr " Type "];
                 [CStr "Type-C"; CStr "x"; CStr "y"; CStr "z"; CNum 1; CNum 2; CStr "ROADM"]] node_headers [] 4 0 10
  = Ok [(0, "city"); (1, "state"); (2, "country"); (3, "region"); (4, "latitude"); (5, "longitude"); (6, "node_type")]%nat%string.
Proof. vm_compute. reflexivity. Qed.
