(* C20 — Spreadsheet inputs convert to the network and services they describe. (work in progress) *)
From Coq Require Import QArith.
From Verif Require Import Prelude Model.Sheet Proofs.Sheet.
Open Scope Z_scope.

Theorem C20_west_defaults_to_east : forall r,
  l_west (mk_link r) = fill_side (l_east (mk_link r)) (lr_west r).
Proof. exact west_defaults_to_east. Qed.
Print Assumptions C20_west_defaults_to_east.
