(* C20 — Spreadsheet inputs convert to the network and services they describe.
   Property theorems only; the proofs are in Proofs/Sheet*.v, the model in Model/Sheet.v.

   Vocabulary
     convert w                the model of xls_to_json_data on the parsed rows w (Nodes / Links / Eqpt / Roadms)
     nodes_of / links_of_w / eqpts_of_w   the data objects built from the rows (defaults applied)
     final_nodes w            the node list after sanity_check's correction (ILA declared on degree <> 2 -> ROADM)
     uid_list ns ls es        (Proofs/Sheet3.v) the list, in order:  trx c, roadm c  for every ROADM site c;
                              west/east fused spans in c  for every FUSED site;  fiber (A -> Z)-cable_east,
                              fiber (Z -> A)-cable_west  for every Links row;  west/east edfa in c  for every ILA
                              site without Eqpt row;  east/west edfa in A to Z  for every Eqpt row
     render                   the byte string of a uid (the f-strings of convert.py)
     wellformed w             site names contain none of ' ' ')' '|';  FUSED sites have no Eqpt row.  The latter
                              excludes the region where convert.py neither rejects nor converts properly (open
                              finding C20-eqpt-on-fused, see C20_eqpt_on_fused_refuted)
     sane ns ls es            the ten sanity rules, as propositions (Proofs/Sheet.v)
     violation ns ls es       one of the ten rules is broken (Proofs/Sheet7.v)
     is_line u                u is a fibre, an amplifier or a fused element
     one_succ cs u / one_pred cs u   u has exactly one successor / predecessor in the connection list cs *)
From Coq Require Import QArith.
From Verif Require Import Prelude Model.Sheet.
From Verif Require Import Proofs.Sheet Proofs.Sheet2 Proofs.Sheet3 Proofs.Sheet4 Proofs.Sheet5 Proofs.Sheet6 Proofs.Sheet7
                          Proofs.Sheet8.
Open Scope Z_scope.

(* ---- accepted workbooks ---- *)
Theorem C20_sheet_structure : forall w n, convert w = Ok n -> wellformed w ->
  let ns := final_nodes w in let ls := links_of_w w in let es := eqpts_of_w w in
  uids n = uid_list ns ls es /\
  (forall l, In l ls -> exists e1 e2, In e1 (elements n) /\ In e2 (elements n) /\
     el_uid e1 = UFiber (l_from l) (l_to l) (s_cable (l_east l)) /\ el_c e1 = fiber_content (l_east l) /\
     el_uid e2 = UFiber (l_to l) (l_from l) (s_cable (l_west l)) /\ el_c e2 = fiber_content (l_west l)) /\
  NoDup (names n) /\
  (forall a b, In (a, b) (connections n) -> In a (uids n) /\ In b (uids n)) /\
  (forall u, In u (uids n) -> is_line u -> one_succ (connections n) u /\ one_pred (connections n) u).
Proof. exact sheet_structure. Qed.
Print Assumptions C20_sheet_structure.

(* west side of a Links row: every empty cell takes the east value (itself defaulted to 80 km / SSMF / 0.2 dB/km) *)
Theorem C20_west_defaults_to_east : forall r,
  l_east (mk_link r) = fill_side default_side (lr_east r) /\
  l_west (mk_link r) = fill_side (l_east (mk_link r)) (lr_west r).
Proof. intros r. split; reflexivity. Qed.
Print Assumptions C20_west_defaults_to_east.

(* the same degree statement on names (strings), using injectivity of rendering on well-formed names *)
Theorem C20_line_degree_names : forall w n, convert w = Ok n -> wellformed w ->
  forall u, In u (uids n) -> is_line u ->
  (exists v, In (render u, v) (named_conns n) /\ forall v', In (render u, v') (named_conns n) -> v' = v) /\
  (exists p, In (p, render u) (named_conns n) /\ forall p', In (p', render u) (named_conns n) -> p' = p).
Proof. exact line_degree_names. Qed.
Print Assumptions C20_line_degree_names.

Theorem C20_render_injective : forall u v, uid_names_ok u -> uid_names_ok v -> render u = render v -> u = v.
Proof. exact render_inj. Qed.
Print Assumptions C20_render_injective.

(* the settings of Eqpt row (A, Z): east on the element feeding the fibre A -> Z, west on the element fed by Z -> A *)
Theorem C20_eqpt_facing : forall w n, convert w = Ok n -> wellformed w ->
  forall e, In e (eqpts_of_w w) ->
  (exists el k, In el (elements n) /\ el_uid el = UEdfaTo East (e_from e) (e_to e) /\ el_c el = amp_content (e_east e) /\
                In (UEdfaTo East (e_from e) (e_to e), UFiber (e_from e) (e_to e) k) (connections n) /\
                In (UFiber (e_from e) (e_to e) k) (uids n)) /\
  (exists el k, In el (elements n) /\ el_uid el = UEdfaTo West (e_from e) (e_to e) /\ el_c el = amp_content (e_west e) /\
                In (UFiber (e_to e) (e_from e) k, UEdfaTo West (e_from e) (e_to e)) (connections n) /\
                In (UFiber (e_to e) (e_from e) k) (uids n)).
Proof. exact eqpt_facing. Qed.
Print Assumptions C20_eqpt_facing.

(* ---- rejected workbooks ---- *)
Theorem C20_sanity_rejects : forall w, violation (nodes_of w) (links_of_w w) (eqpts_of_w w) ->
  (exists r, In r rules /\ convert w = Err (topo_err r)) /\ forall n, convert w <> Ok n.
Proof. exact sanity_rejects. Qed.
Print Assumptions C20_sanity_rejects.

Theorem C20_accepted_is_sane : forall w n, convert w = Ok n -> sane (nodes_of w) (links_of_w w) (eqpts_of_w w).
Proof. exact accepted_is_sane. Qed.
Print Assumptions C20_accepted_is_sane.

(* every rejection is one of the ten sanity rules, or the arithmetic error of a PMD value on a length <= 0; the
   KeyError / StopIteration / IndexError places of convert.py are unreachable *)
Theorem C20_convert_errors : forall w e, convert w = Err e ->
  (exists r, In r rules /\ e = topo_err r) \/ e = "ZeroDivisionError:pmd"%string \/ e = "ValueError:pmd"%string.
Proof. exact convert_errors. Qed.
Print Assumptions C20_convert_errors.

(* ---- the full statement without the `wellformed` guard is false of the faithful model: witness (replayed on
        gnpy by the harness: corpus/C20/f20d) ---- *)
Theorem C20_eqpt_on_fused_refuted : exists n, convert w_eqpt_on_fused = Ok n /\
  In (UEdfaTo East "F" "B") (uids n) /\
  forall a b, In (a, b) (connections n) -> a <> UEdfaTo East "F" "B" /\ b <> UEdfaTo East "F" "B".
Proof. exact eqpt_on_fused_refuted. Qed.
Print Assumptions C20_eqpt_on_fused_refuted.

(* ---- service sheet ---- *)
Theorem C20_service_spec : forall equipment bidir r q, request_element equipment bidir r = Ok q ->
  exists trx modes sp,
    id_str (q_trx r) = Some trx /\ assoc trx equipment = Some modes /\ r_trx q = trx /\
    r_mode q = id_str (q_mode r) /\ (forall m, r_mode q = Some m -> In m modes) /\
    q_spacing r = Some sp /\ ~ sp == 0 /\
    r_spacing_hz q == sp * 1000000000 /\
    r_bw_bps q == match q_bw r with Some b => b * 1000000000 | None => 0 end /\
    r_power_dbm q = q_power r /\ r_nbch q = option_map qtrunc (q_nbch r) /\
    r_src q = ("trx " +s pystr (ostr_o (q_src r))) /\ r_dst q = ("trx " +s pystr (ostr_o (q_dst r))) /\
    r_nodes q = (if seqb (ostr "" (q_path r)) "" then [] else split bar (ostr "" (q_path r))) /\
    r_loose q = is_loose_cell (q_loose r) /\
    r_disj q = (match id_str (q_disj r) with Some s => split bar s | None => [] end) /\
    r_id q = id_str (q_id r) /\ r_bidir q = bidir.
Proof. exact request_element_spec. Qed.
Print Assumptions C20_service_spec.

Theorem C20_pathsync_spec : forall q,
  (r_disj q = [] -> pathsync q = None) /\
  (r_disj q <> [] -> pathsync q = Some (r_id q, r_id q :: map Some (r_disj q))).
Proof. exact pathsync_spec. Qed.
Print Assumptions C20_pathsync_spec.

Theorem C20_one_vector_per_disjoint_row : forall l,
  length (sync_vectors l) = length (filter (fun q => match r_disj q with [] => false | _ => true end) l).
Proof. exact one_vector_per_disjoint_row. Qed.
Print Assumptions C20_one_vector_per_disjoint_row.

Theorem C20_route_objects_spec : forall q,
  map snd (route_objects q) = r_nodes q /\
  (NoDup (r_nodes q) -> forall i x, nth_error (r_nodes q) i = Some x ->
                         nth_error (route_objects q) i = Some (Z.of_nat i, x)).
Proof. exact route_objects_spec. Qed.
Print Assumptions C20_route_objects_spec.

(* partial: name correction is proved to leave everything but the route list untouched and to require both end
   points to be transceivers; that every surviving route entry names an element of the network is tied by the
   correspondence run and the oracle only (the first-occurrence list surgery of correct_xls_route_list is modelled,
   its invariant is not proved) *)
Theorem C20_correct_route_keeps_partial : forall d ru tf tu r r', correct_route d ru tf tu r = Ok r' ->
  r_id r' = r_id r /\ r_src r' = r_src r /\ r_dst r' = r_dst r /\ r_trx r' = r_trx r /\ r_mode r' = r_mode r /\
  r_spacing_hz r' = r_spacing_hz r /\ r_power_dbm r' = r_power_dbm r /\ r_nbch r' = r_nbch r /\
  r_disj r' = r_disj r /\ r_loose r' = r_loose r /\ r_bw_bps r' = r_bw_bps r /\ r_bidir r' = r_bidir r /\
  In (r_src r) tu /\ In (r_dst r) tu.
Proof. exact correct_route_keeps. Qed.
Print Assumptions C20_correct_route_keeps_partial.

(* ---- non-vacuity ---- *)
(* ROADM A, ROADM B, an ILA I (Eqpt row naming its second neighbour), an ILA J without row, a FUSED site F, a site K
   declared ILA on degree 3 (becomes ROADM), asymmetric Links rows *)
Definition ex_side (d : Q) (c : string) : side_row := mkSideRow (Some d) None None None None None (Some c).
Definition ex_w : rows :=
  mkRows [nd "A" "ROADM"; nd "I" "ILA"; nd "J" "ILA"; nd "B" "ROADM"; nd "F" "FUSED"; nd "K" "ILA"]
         [mkLinkRow "A" "I" (ex_side 50 "c1") (mkSideRow (Some 70.5%Q) (Some "NZDF"%string) None None None None None);
          mkLinkRow "B" "I" (ex_side 12.3455%Q "c2") blank_side;
          lk "A" "J"; lk "J" "K"; lk "K" "B"; lk "K" "F"; lk "F" "A"]
         [mkEqptRow "I" "B" (mkAmpRow (Some "std_low_gain"%string) (Some 12%Q) None (Some (-1)%Q) None None)
                            (mkAmpRow (Some "fused"%string) None None None None None);
          mkEqptRow "A" "I" blank_amp (mkAmpRow None (Some 20%Q) None None None None)]
         [mkRoadmRow "A" "I" (Some (-18.5)%Q) None (Some "F"%string) (CStr "0")].
Example ex_wellformed : wellformed ex_w.
Proof.
  constructor.
  - intros c H. vm_compute in H. repeat (destruct H as [H|H]; [subst c; reflexivity|]). destruct H.
  - intros n H T. vm_compute in H.
    repeat (destruct H as [H|H]; [subst n; try discriminate T; vm_compute; reflexivity|]). destruct H.
Qed.
Example ex_converts : exists n, convert ex_w = Ok n /\ length (elements n) = 28%nat /\ length (connections n) = 36%nat.
Proof. eexists. split; [vm_compute; reflexivity|]. split; reflexivity. Qed.

(* a duplicate (reversed) link: a violation in the sense of C20_sanity_rejects *)
Definition ex_dup : rows := mkRows [nd "A" "ROADM"; nd "B" "ROADM"] [lk "A" "B"; lk "B" "A"] [] [].
Example ex_violation : violation (nodes_of ex_dup) (links_of_w ex_dup) (eqpts_of_w ex_dup) /\
                       convert ex_dup = Err (topo_err "duplicate_link").
Proof.
  split; [|vm_compute; reflexivity].
  apply (V_duplicate_link _ _ _ [] [] [] (mk_link (lk "A" "B")) (mk_link (lk "B" "A"))); reflexivity.
Qed.

(* a service row: 37.5 GHz, 2 dBm, 80.0 channels, 150.5 Gbit/s, strict route, disjoint from requests 0 and r1 *)
Definition ex_row : req_row :=
  mkReqRow (CNum 3) (Some "A"%string) (Some "B"%string) (CStr "Voyager") (CStr "mode 1") (Some 37.5%Q) (Some 2%Q)
           (Some 80%Q) (CStr "0 | r1") (Some "A | roadm B"%string) (Some "no"%string) (Some 150.5%Q).
Example ex_request : exists q, request_element [("Voyager", ["mode 1"; "mode 2"])]%string false ex_row = Ok q /\
  r_id q = Some "3"%string /\ r_spacing_hz q == 37500000000 /\ r_bw_bps q == 150500000000 /\ r_nbch q = Some 80 /\
  r_nodes q = ["A"; "roadm B"]%string /\ r_loose q = false /\
  pathsync q = Some (Some "3", [Some "3"; Some "0"; Some "r1"])%string.
Proof. eexists. split; [vm_compute; reflexivity|]. repeat split; reflexivity. Qed.
