(* C06 — translator tie: every definition generated from /repo's source (Gen/RoadmGen.v, rewritten on every run by
   harness/pygen_c06.py) is the corresponding definition of the hand-written model (Model/Roadm.v). *)
From Coq Require Import QArith Qabs Qminmax Lia.
From Verif Require Import Prelude Model.Roadm Gen.RoadmGen.
From Verif Require Proofs.Roadm.
Open Scope Q_scope.

(* ---- Roadm.propagate *)
Lemma gen_absmin : forall x, g_absmin x = correction x.
Proof. reflexivity. Qed.

Lemma gen_delta_power : forall tgt ml c, g_delta_power tgt ml c = delta_power tgt ml c.
Proof. reflexivity. Qed.

Lemma gen_equalize : forall pl cm, g_equalize pl cm = equalize pl cm.
Proof. intros pl [c ml]. reflexivity. Qed.

Lemma gen_pol : forall c a b, cpmd2 (add_pol c a b) = g_pmd2 c a /\ cpdl2 (add_pol c a b) = g_pdl2 c b /\ cp (add_pol c a b) = cp c.
Proof. intros. repeat split. Qed.

Lemma gen_reports : forall r deg from l o,
  propagate_power r deg from l = Ok o ->
  exists pl mls mx rin rtg,
    resolve r deg = Some pl /\ path_maxloss r from deg l = Ok (mls, mx) /\ zfind from (refin r) = Some rin /\
    ref_target r deg = Ok (Some rtg) /\
    o_chans o = map (g_equalize pl) (combine l mls) /\
    o_ref_out o = g_ref_out rin mx rtg /\ o_ref_loss o = g_ref_loss rin (o_ref_out o) /\
    o_loss o = map (fun cc => g_loss (fst cc) (snd cc)) (combine l (o_chans o)).
Proof.
  intros r deg from l o H.
  destruct (Proofs.Roadm.propagate_inv _ _ _ _ _ H) as (pl & mls & mx & rin & rtg & A & B & C & D & E & F & G & I).
  exists pl, mls, mx, rin, rtg. repeat split; auto;
    try (rewrite E; apply map_ext; intros [c ml]; reflexivity).
Qed.

(* ---- target resolution *)
Lemma gen_node : forall r, g_node r = node_policy r /\ g_node_ref r = node_policy r.
Proof.
  intros r. unfold g_node, g_node_ref, node_policy, nod.
  destruct (npow r), (npsd r), (npsw r); split; reflexivity.
Qed.

Lemma gen_resolve : forall r deg, g_resolve r deg = resolve r deg /\ g_resolve_ref r deg = resolve r deg.
Proof.
  intros r deg. unfold g_resolve, g_resolve_ref, resolve, tab.
  destruct (gen_node r) as [E1 E2]. rewrite E1, E2.
  destruct (zfind deg (dpow r)), (zfind deg (dpsd r)), (zfind deg (dpsw r)); split; reflexivity.
Qed.

(* ---- impairment lookup *)
Lemma gen_in_band : forall b f, g_in_band b f = in_band b f.
Proof. intros b f. unfold g_in_band, in_band. destruct (brange b) as [[lo hi] |]; reflexivity. Qed.

Lemma gen_item_val : forall b,
  g_item_val g_default_maxloss (bml b) = band_val b /\
  g_item_val g_default_pmd (bpmd b) = kv_val (bpmd b) /\ g_item_val g_default_pdl (bpdl b) = kv_val (bpdl b).
Proof. intros b. unfold band_val. destruct (bml b), (bpmd b), (bpdl b); repeat split. Qed.

(* ---- design step: per-degree targets *)
Lemma gen_missing : forall r d, g_missing r d = negb (deg_has r d).
Proof.
  intros r d. unfold g_missing, deg_has, tab.
  destruct (zhas d (dpow r)), (zhas d (dpsd r)), (zhas d (dpsw r)); reflexivity.
Qed.

Lemma gen_set_targets : forall next r, g_set_targets r next = set_targets r next.
Proof.
  induction next as [| d next IH]; intros r; [reflexivity |].
  cbn [g_set_targets set_targets]. rewrite gen_missing.
  destruct (deg_has r d); cbn [negb]; [apply IH |].
  unfold g_set_step, nod, add_to, is_some, truthy_pow, truthy_lin.
  destruct (npow r) as [t |]; [cbn [bind]; apply IH |].
  destruct (npsd r) as [t |]; [cbn [bind]; apply IH |].
  destruct (npsw r) as [t |]; [cbn [bind]; apply IH |].
  reflexivity.
Qed.

(* ---- design step: internal paths *)
Lemma gen_path_keys : forall a b,
  g_express_key a b = (a, b) /\ g_drop_key a b = (a, b) /\ g_add_key a b = (a, b) /\ g_drop_want = Drop /\ g_add_want = Add.
Proof. intros. repeat split. Qed.

(* the internal paths of the model, read with the generated look-up keys and demanded types *)
Lemma gen_internal_paths : forall profs pdis prev next drops adds calls,
  internal_paths profs pdis prev next drops adds = Ok calls ->
  let d := pdi_dict pdis in
  (forall from to, In from prev -> In to next ->
     In (mkCall from to Express (pdi_find d (fst (g_express_key from to)) (snd (g_express_key from to)))) calls) /\
  (forall from dr, In from prev -> In dr drops ->
     In (mkCall from dr g_drop_want (pdi_find d (fst (g_drop_key from dr)) (snd (g_drop_key from dr)))) calls) /\
  (forall ad to, In ad adds -> In to next ->
     In (mkCall ad to g_add_want (pdi_find d (fst (g_add_key ad to)) (snd (g_add_key ad to)))) calls).
Proof. exact Proofs.Roadm.internal_paths_covers. Qed.

(* ---- single policy *)
Lemma gen_roadm_params : forall k, g_roadm_params k = roadm_params k.
Proof. intros [k1 k2 k3]. destruct k1, k2, k3; reflexivity. Qed.

Lemma gen_eqpt_check : forall e, g_eqpt_check e = eqpt_check e.
Proof. intros [k1 k2 k3]. destruct k1, k2, k3; reflexivity. Qed.

Lemma gen_merge_policy : forall el eq, g_merge_policy el eq = merge_policy el eq.
Proof. intros [k1 k2 k3] eq. destruct k1, k2, k3; reflexivity. Qed.

(* ---- request.propagate_and_optimize_mode: every mode explored on a spectrum has the baud rate and the equalisation
        offset that spectrum was built with (so the ROADM crossings of the accepted propagation are those of the mode) *)
Lemma gen_mode_explored : forall mb mo msp br off sp,
  g_mode_explored mb mo msp br off sp = true -> mb == br /\ mo == off.
Proof.
  intros mb mo msp br off sp H. unfold g_mode_explored in H.
  apply andb_prop in H. destruct H as [H _]. apply andb_prop in H. destruct H as [H1 H2].
  split; apply Qeq_bool_iff; assumption.
Qed.
