(* C16 — translator tie: what harness/pygen_c16.py establishes on /repo's source (Gen/BatchGen.v) selects, in Model/Batch.v,
   exactly the pipeline the C16 theorems are about. *)
From Coq Require Import QArith Lia.
From Verif Require Import Prelude Model.Verdict Model.Batch Gen.BatchGen Proofs.Verdict Proofs.Batch.
Open Scope Z_scope.

(* compute_path_with_disjunction propagates on copies in both directions: the pipeline is `planning` *)
Lemma gen_planning : forall SS A (assign : SS -> request -> bool -> SS * A) n ss rqs,
  planning_src g_copy_forward g_copy_reverse assign n ss rqs = planning assign n ss rqs.
Proof. reflexivity. Qed.
(* propagate_and_optimize_mode writes the designed gains back before every propagation *)
Lemma gen_run_loads : forall d p ls, run_loads_src g_restores_gains d p ls = run_loads d p ls.
Proof. reflexivity. Qed.
(* the attributes compare_reqs looks at *)
Lemma gen_compared_fields : g_compared_fields = aggregation_fields.
Proof. reflexivity. Qed.
(* the order of the steps of planning() *)
Lemma gen_pipeline : g_pipeline = pipeline_steps.
Proof. reflexivity. Qed.
Lemma gen_isolation : g_route_memo = false /\ g_writes_sim_params = false /\ g_results_per_request = 1 /\
  g_explicit_path_new_list = true.
Proof. repeat split. Qed.

(* hence the source-selected pipeline has the batch properties *)
Lemma source_batch_indep : forall SS A (assign : SS -> request -> bool -> SS * A) n ss rqs,
  fst (fst (planning_src g_copy_forward g_copy_reverse assign n ss rqs)) = n /\
  map fst (snd (planning_src g_copy_forward g_copy_reverse assign n ss rqs)) = map (fun rq => fst (evaluate n rq)) rqs.
Proof. intros. rewrite gen_planning. split; [apply planning_net | apply planning_results]. Qed.
Lemma source_request_fresh : forall d ls p, same_shape d p ->
  snd (run_loads_src g_restores_gains d p ls) = fresh_runs d ls.
Proof. intros d ls p H. rewrite gen_run_loads. apply (proj1 (run_loads_fresh d ls p H)). Qed.
(* the other selections would NOT: without a copy, or without the restore, results depend on what ran before *)
Lemma other_selection_differs :
  map (fun x => r_ok (fst x)) (snd (planning_src false true next_slot w_net 0 [w_hot; w_cold])) <>
  map (fun x => r_ok (fst x)) (snd (planning_src true true next_slot w_net 0 [w_hot; w_cold])) /\
  snd (run_loads_src false w_path w_path [mkL 4 1 6; mkL 4 1 1]) <> snd (run_loads_src true w_path w_path [mkL 4 1 6; mkL 4 1 1]).
Proof. split; vm_compute; discriminate. Qed.
