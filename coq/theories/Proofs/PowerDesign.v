(* C09 — lemmas about the power design model (Model/PowerDesign.v). *)
From Coq Require Import QArith Qminmax Qround Qabs Lqa Lia.
From Verif Require Import Prelude Model.Select Model.PowerDesign Proofs.Select.
Open Scope Q_scope.

(* ------------------------------------------------------------------ rounding *)
Lemma rhe_compat : forall q q', q == q' -> rhe q = rhe q'.
Proof.
  intros q q' H. unfold rhe. rewrite (Qfloor_comp _ _ H).
  assert (E : q - inject_Z (Qfloor q') == q' - inject_Z (Qfloor q')) by (rewrite H; reflexivity).
  rewrite (Qcompare_comp _ _ E _ _ (Qeq_refl (1 # 2))). reflexivity.
Qed.

Lemma round_nd_compat : forall q q' n, q == q' -> round_nd q n == round_nd q' n.
Proof.
  intros q q' n H. unfold round_nd.
  assert (E : q * pow10 n == q' * pow10 n) by (rewrite H; reflexivity).
  rewrite (rhe_compat _ _ E). reflexivity.
Qed.

Lemma rhe_inject_Z : forall k, rhe (inject_Z k) = k.
Proof.
  intros k. unfold rhe. rewrite Qfloor_Z.
  assert (E : (inject_Z k - inject_Z k ?= 1 # 2) = Lt).
  { apply Qlt_alt. ring_simplify (inject_Z k - inject_Z k). reflexivity. }
  rewrite E. reflexivity.
Qed.

(* nearest integer: at most one half away *)
Lemma rhe_near : forall q, inject_Z (rhe q) - (1 # 2) <= q /\ q <= inject_Z (rhe q) + (1 # 2).
Proof.
  intros q. unfold rhe.
  pose proof (Qfloor_le q) as Hlo. pose proof (Qlt_floor q) as Hhi.
  rewrite inject_Z_plus in Hhi. change (inject_Z 1) with 1 in Hhi.
  set (f := Qfloor q) in *.
  destruct (q - inject_Z f ?= 1 # 2) eqn:E.
  - apply Qeq_alt in E. destruct (Z.even f); [| rewrite inject_Z_plus; change (inject_Z 1) with 1]; split; lra.
  - apply Qlt_alt in E. split; lra.
  - apply Qgt_alt in E. rewrite inject_Z_plus. change (inject_Z 1) with 1. split; lra.
Qed.

Lemma pow10_pos : forall n, 0 < pow10 n.
Proof.
  intros n. unfold pow10. change 0 with (inject_Z 0). rewrite <- Zlt_Qlt. apply Z.pow_pos_nonneg; lia.
Qed.

(* round(q, n) is within half a unit of the n-th decimal *)
Lemma round_nd_near : forall q n,
  round_nd q n - (1 # 2) / pow10 n <= q /\ q <= round_nd q n + (1 # 2) / pow10 n.
Proof.
  intros q n. unfold round_nd. pose proof (pow10_pos n) as Hp.
  destruct (rhe_near (q * pow10 n)) as [H1 H2]. set (k := inject_Z (rhe (q * pow10 n))) in *.
  assert (Hne : ~ pow10 n == 0) by lra.
  assert (E1 : (k / pow10 n - (1 # 2) / pow10 n) * pow10 n == k - (1 # 2)) by (field; exact Hne).
  assert (E2 : (k / pow10 n + (1 # 2) / pow10 n) * pow10 n == k + (1 # 2)) by (field; exact Hne).
  split.
  - apply Qmult_le_r with (z := pow10 n); [exact Hp |]. rewrite E1. exact H1.
  - apply Qmult_le_r with (z := pow10 n); [exact Hp |]. rewrite E2. exact H2.
Qed.

(* a multiple of 10^-n is a fixed point of round(., n) *)
Lemma round_nd_fix : forall k n, round_nd (inject_Z k / pow10 n) n == inject_Z k / pow10 n.
Proof.
  intros k n. unfold round_nd. pose proof (pow10_pos n) as Hp.
  assert (E : inject_Z k / pow10 n * pow10 n == inject_Z k) by (field; lra).
  rewrite (rhe_compat _ _ E), rhe_inject_Z. reflexivity.
Qed.

(* round2float with a usable step s = round(step, 1): the result is k*s for the integer k nearest to x/s *)
Theorem round2float_grid : forall x step,
  1 # 100 <= r2f_step step ->
  exists k : Z, round2float x step == inject_Z k * r2f_step step /\
                inject_Z k - (1 # 2) <= x / r2f_step step /\ x / r2f_step step <= inject_Z k + (1 # 2).
Proof.
  intros x step Hs. unfold round2float.
  assert (Hb : Qle_bool (1 # 100) (r2f_step step) = true) by (apply Qle_bool_iff; exact Hs).
  rewrite Hb. set (s := r2f_step step) in *.
  exists (rhe (x / s * pow10 0)).
  assert (Hp0 : pow10 0 == 1) by reflexivity.
  assert (Hr0 : round_nd (x / s) 0 == inject_Z (rhe (x / s * pow10 0))).
  { unfold round_nd. generalize (rhe (x / s * pow10 0)). intros z. change (pow10 0) with 1. field. }
  split.
  - (* s is a multiple of 1/10, so is k*s: the outer rounding changes nothing *)
    set (k := rhe (x / s * pow10 0)) in *.
    set (m := rhe (step * pow10 1)).
    assert (Es : s == inject_Z m / pow10 1) by reflexivity.
    assert (Hp1 : 0 < pow10 1) by apply pow10_pos.
    assert (A : round_nd (x / s) 0 * s == inject_Z (k * m) / pow10 1).
    { rewrite Hr0, Es, inject_Z_mult. field. lra. }
    rewrite (round_nd_compat _ _ 1%nat A), round_nd_fix, Es, inject_Z_mult. field. lra.
  - destruct (rhe_near (x / s * pow10 0)) as [H1 H2]. set (k := rhe (x / s * pow10 0)) in *.
    assert (E0 : x / s * pow10 0 == x / s).
    { change (pow10 0) with 1. field. lra. }
    rewrite E0 in H1, H2. split; assumption.
Qed.

Corollary round2float_le : forall x step,
  1 # 100 <= r2f_step step -> round2float x step <= x + r2f_step step / 2.
Proof.
  intros x step Hs. destruct (round2float_grid x step Hs) as (k & Hk & H1 & H2).
  rewrite Hk. set (s := r2f_step step) in *. assert (Hs0 : 0 < s) by lra.
  assert (Hx : x == x / s * s) by (field; lra).
  set (y := x / s) in *.
  assert (H : (inject_Z k - (1 # 2)) * s <= y * s) by (apply Qmult_le_compat_r; lra).
  set (ks := inject_Z k * s). set (ys := y * s) in *.
  assert (H' : ks - (1 # 2) * s <= ys) by (unfold ks; ring_simplify in H; ring_simplify; exact H).
  clearbody ks ys y s. clear H H1 H2 Hk. setoid_replace (s / 2) with ((1 # 2) * s) by field. lra.
Qed.

Corollary round2float_le_fine : forall x step,
  ~ 1 # 100 <= r2f_step step -> round2float x step <= x + (1 # 200).
Proof.
  intros x step Hs. unfold round2float.
  destruct (Qle_bool (1 # 100) (r2f_step step)) eqn:E; [apply Qle_bool_iff in E; contradiction |].
  destruct (round_nd_near x 2) as [H1 _]. change ((1 # 2) / pow10 2) with ((1 # 2) / 100) in H1.
  assert (E2 : (1 # 2) / 100 == 1 # 200) by reflexivity. lra.
Qed.

(* ------------------------------------------------------------------ one amplifier *)
(* how the amplifier's parameters and the power reduction were obtained *)
(* what a selector must guarantee (select_edfa does: C10_sel_fallback): a library entry, and the power reduction
   min(power margin of the chosen entry, 0) *)
Definition sel_sound (lib : list amp) (ext : Q) (sel : selector) : Prop :=
  forall g pt s red cr, sel g pt = Ok (s, red, cr) -> In s lib /\ red = Qmin (pow_margin ext g pt s) 0.

Definition sel_result (c : span_cfg) (lib : list amp) (pref_total prev_dp prev_voa nl : Q)
                      (sel : selector) (a : ampn) (g0 pt dp0 : Q) (params : amp) (red : Q) : Prop :=
  (n_variety (an_node a) = ""%string /\ exists cr, sel g0 pt = Ok (params, red, cr))
  \/
  (n_variety (an_node a) <> ""%string /\ find_amp (n_variety (an_node a)) lib = Some params /\
   red = if c_power_mode c then Qmin 0 (a_pmax params - (pref_total + dp0))
         else Qmin 0 (a_pmax params - (pref_total + prev_dp - nl - prev_voa + g0))).

Definition voa_auto_on (c : span_cfg) (a : ampn) (params : amp) : bool :=
  match an_ovoa a with None => c_power_mode c && a_voa_auto params | Some _ => false end.

Lemma set_one_inv : forall c lib pref_total prev_dp prev_voa nl tp tp_arg sel a d dp voa,
  set_one_gen c lib pref_total prev_dp prev_voa nl tp tp_arg sel a = Ok (d, dp, voa) ->
  exists g0 pt dp0 params red,
    targets c pref_total prev_dp prev_voa nl tp a = Ok (g0, pt, dp0, voa) /\
    sel_result c lib pref_total prev_dp prev_voa nl sel a g0 pt dp0 params red /\
    dp = dp0 + red /\
    let v := if voa_auto_on c a params then auto_voa c (a_pmax params) (a_gmax params) pt (g0 + red) else 0 in
    d_variety d = a_name params /\ d_gain d = g0 + red + v /\
    d_delta_p d = (if c_power_mode c then Some (dp0 + red + v) else None) /\
    d_dp d = (if c_power_mode c then dp0 + red + v else dp0 + red) /\
    d_ovoa d = match an_ovoa a with Some x => x | None => v end /\
    d_ivoa d = ozero (an_ivoa a) /\ d_node_loss d = nl.
Proof.
  intros c lib pref_total prev_dp prev_voa nl tp tp_arg sel a d dp voa H.
  unfold set_one_gen in H.
  destruct (targets c pref_total prev_dp prev_voa nl tp a) as [[[[g0 pt] dp0] voa'] | e] eqn:ET; cbn [bind] in H;
    [| discriminate].
  destruct (String.eqb (n_variety (an_node a)) "") eqn:EV.
  - apply String.eqb_eq in EV.
    destruct (sel g0 pt) as [[[s red] cr] | e] eqn:ES; cbn [bind] in H; [| discriminate].
    injection H as Hd Hdp Hvoa. subst voa'.
    exists g0, pt, dp0, s, red. split; [reflexivity |]. split; [left; split; [exact EV | exists cr; exact ES] |].
    split; [symmetry; exact Hdp |]. subst d. cbv zeta. unfold voa_auto_on. cbn [d_variety d_gain d_delta_p d_dp d_ovoa d_ivoa d_node_loss].
    repeat split; reflexivity.
  - apply String.eqb_neq in EV.
    destruct (find_amp (n_variety (an_node a)) lib) as [p |] eqn:EF; cbn [bind] in H; [| discriminate].
    injection H as Hd Hdp Hvoa. subst voa'.
    eexists g0, pt, dp0, p, _. split; [reflexivity |]. split; [right; split; [exact EV | split; [exact EF | reflexivity]] |].
    split; [symmetry; exact Hdp |]. subst d. cbv zeta. unfold voa_auto_on. cbn [d_variety d_gain d_delta_p d_dp d_ovoa d_ivoa d_node_loss].
    repeat split; reflexivity.
Qed.

Lemma targets_inv : forall c pref_total prev_dp prev_voa nl tp a g0 pt dp0 voa,
  targets c pref_total prev_dp prev_voa nl tp a = Ok (g0, pt, dp0, voa) ->
  g0 - ozero (an_ivoa a) == nl + dp0 - prev_dp + prev_voa /\ pt = pref_total + dp0 /\ voa = ozero (an_ovoa a) /\
  (* the offset: the operator's, or the rule + operator VOA; in gain mode with an operator gain it follows from the gain *)
  (match an_gain a, c_power_mode c with
   | Some g, false => g0 = g /\ dp0 = prev_dp - nl - prev_voa + g - ozero (an_ivoa a)
   | _, _ => match an_dp a with
             | Some u => dp0 = u
             | None => exists t, tp = Ok t /\ dp0 = t + ozero (an_ovoa a)
             end
   end).
Proof.
  intros c pref_total prev_dp prev_voa nl tp a g0 pt dp0 voa H. unfold targets in H.
  destruct (an_dp a) as [u |] eqn:Edp.
  - cbn [bind] in H. destruct (an_gain a) as [g |] eqn:Eg; [destruct (c_power_mode c) eqn:Epm |];
      injection H as H1 H2 H3 H4; subst; repeat split; try reflexivity; lra.
  - destruct tp as [t | e]; cbn [bind] in H; [| discriminate].
    destruct (an_gain a) as [g |] eqn:Eg; [destruct (c_power_mode c) eqn:Epm |];
      injection H as H1 H2 H3 H4; subst; repeat split; try reflexivity; try lra;
      exists t; split; reflexivity.
Qed.

Lemma set_one_budget : forall c lib pref_total prev_dp prev_voa nl tp tp_arg sel a d dp voa,
  set_one_gen c lib pref_total prev_dp prev_voa nl tp tp_arg sel a = Ok (d, dp, voa) ->
  d_gain d - d_ivoa d == nl + d_dp d - prev_dp + prev_voa /\ d_dp d - d_ovoa d == dp - voa.
Proof.
  intros c lib pref_total prev_dp prev_voa nl tp tp_arg sel a d dp voa H.
  destruct (set_one_inv _ _ _ _ _ _ _ _ _ _ _ _ _ H)
    as (g0 & pt & dp0 & params & red & HT & _ & Hdp & Hv & Hg & _ & Hd & Ho & Hi & _).
  destruct (targets_inv _ _ _ _ _ _ _ _ _ _ _ HT) as (Hb & _ & Hvoa & _).
  rewrite Hg, Hd, Ho, Hi, Hdp, Hvoa. unfold voa_auto_on.
  destruct (an_ovoa a) as [x |] eqn:Eo; cbn [ozero] in *.
  - destruct (c_power_mode c); split; lra.
  - destruct (c_power_mode c) eqn:Epm; cbn [andb].
    + destruct (a_voa_auto params); split; lra.
    + split; lra.
Qed.

(* ------------------------------------------------------------------ the budget along an OMS *)
(* the span loss the design uses at each amplifier is the loss really crossed since the previous amplifier *)
(* what the reference channel really loses in an element: a RamanFiber gives its estimated gain back *)
Definition eff (e : elem) : Q := eloss e - rgain true e.

Fixpoint budget_wf (seg : list elem) (after : list elem) : Prop :=
  match after with
  | [] => True
  | Amp _ :: rest => node_loss_of seg == qsum (map eff seg) /\ budget_wf [] rest
  | x :: rest => budget_wf (x :: seg) rest
  end.

Lemma design_from_budget : forall c lib bmin bmax pref_total pref_ch e after prevn seg prev_dp prev_voa p ds,
  budget_wf seg after ->
  p == pref_ch + prev_dp - prev_voa - qsum (map eff seg) ->
  design_from c lib bmin bmax pref_total e prevn seg prev_dp prev_voa after = Ok ds ->
  Forall2 (fun q d => q == pref_ch + d_dp d) (walk p after ds) ds.
Proof.
  intros c lib bmin bmax pref_total pref_ch e after.
  induction after as [| x rest IH]; intros prevn seg prev_dp prev_voa p ds Hwf Hp Hd.
  - cbn in Hd. injection Hd as <-. constructor.
  - destruct x as [f | l | a].
    + cbn [design_from] in Hd. cbn [walk]. cbn [budget_wf] in Hwf.
      eapply IH; [exact Hwf | | exact Hd]. unfold qsum, eff in *. cbn [map fold_right]. lra.
    + cbn [design_from] in Hd. cbn [walk]. cbn [budget_wf] in Hwf.
      eapply IH; [exact Hwf | | exact Hd]. unfold qsum, eff in *. cbn [map fold_right]. lra.
    + cbn [design_from] in Hd. cbn [budget_wf] in Hwf. destruct Hwf as [Hnl Hwf].
      match type of Hd with bind ?r _ = _ => destruct r as [[[d dp] voa] | err] eqn:ES end; cbn [bind] in Hd;
        [| discriminate].
      match type of Hd with bind ?r _ = _ => destruct r as [ds' | err] eqn:ED end; cbn [bind] in Hd;
        [| discriminate].
      injection Hd as <-. cbn [walk].
      destruct (set_one_budget _ _ _ _ _ _ _ _ _ _ _ _ _ ES) as [Hg Ho].
      constructor.
      * lra.
      * eapply IH; [exact Hwf | | exact ED]. unfold qsum in *. cbn [map fold_right]. lra.
Qed.

Theorem budget_closed : forall c lib bmin bmax pref_ch pref_total p0 s e chain ds,
  budget_wf [] chain ->
  design c lib bmin bmax pref_ch pref_total p0 s e chain = Ok ds ->
  Forall2 (fun q d => q == pref_ch + d_dp d) (walk p0 chain ds) ds.
Proof.
  intros c lib bmin bmax pref_ch pref_total p0 s e chain ds Hwf Hd. unfold design in Hd.
  eapply design_from_budget; [exact Hwf | | exact Hd].
  unfold qsum in *. cbn [map fold_right]. lra.
Qed.

(* ------------------------------------------------------------------ selection facts used by the design *)
Lemma find_amp_In : forall n lib p, find_amp n lib = Some p -> In p lib /\ a_name p = n.
Proof.
  intros n lib p. induction lib as [| x l IH]; cbn; [discriminate |].
  destruct (String.eqb (a_name x) n) eqn:E.
  - intros H. injection H as <-. apply String.eqb_eq in E. auto.
  - intros H. destruct (IH H). auto.
Qed.

Lemma auto_select_red : forall nd prev next bmin bmax maxl gain pt ext nf lib s red,
  auto_select nd prev next bmin bmax maxl gain pt ext nf lib = Ok (s, red) ->
  In s lib /\ red = Qmin (pow_margin ext gain pt s) 0.
Proof.
  intros nd prev next bmin bmax maxl gain pt ext nf lib s red H. unfold auto_select in H.
  destruct (node_restrictions nd prev next bmin bmax lib) as [| r0 r]; [discriminate |].
  destruct (select_fallback _ _ _ _ _ _ _ _ H) as (Hin & Hred & _).
  split; [| exact Hred]. apply pool_subset in Hin. unfold restrict_lib in Hin. apply filter_In in Hin. tauto.
Qed.

Lemma edfa_selector_sound : forall c lib bmin bmax prev next a,
  sel_sound lib (c_ext c) (edfa_selector c lib bmin bmax prev next a).
Proof.
  intros c lib bmin bmax prev next a g pt s red cr H. unfold edfa_selector in H.
  match type of H with bind ?r _ = _ => destruct r as [[s' red'] | e] eqn:E end; cbn [bind] in H; [| discriminate].
  injection H as <- <- _. exact (auto_select_red _ _ _ _ _ _ _ _ _ _ _ _ _ E).
Qed.

(* ------------------------------------------------------------------ saturation *)
(* the power reduction: never positive, brings the total design power (and, for an auto-selected model, the gain)
   within the amplifier's limits, and is zero when the limits are already met *)
Theorem dp_saturation : forall c lib pref_total prev_dp prev_voa nl tp tp_arg sel a d dp voa g0 pt dp0 voa0,
  sel_sound lib (c_ext c) sel ->
  targets c pref_total prev_dp prev_voa nl tp a = Ok (g0, pt, dp0, voa0) ->
  set_one_gen c lib pref_total prev_dp prev_voa nl tp tp_arg sel a = Ok (d, dp, voa) ->
  exists params, In params lib /\ a_name params = d_variety d /\
    dp <= dp0 /\
    (if String.eqb (n_variety (an_node a)) ""
     then (* auto-selected *)
          pref_total + dp <= a_pmax params /\ g0 + (dp - dp0) <= a_gmax params + c_ext c /\
          (pref_total + dp0 <= a_pmax params -> g0 <= a_gmax params + c_ext c -> dp == dp0)
     else if c_power_mode c
     then pref_total + dp <= a_pmax params /\ (pref_total + dp0 <= a_pmax params -> dp == dp0)
     else (* gain mode: the test is made on the power before the input VOA *)
          pref_total + dp + ozero (an_ivoa a) <= a_pmax params /\
          (pref_total + dp0 + ozero (an_ivoa a) <= a_pmax params -> dp == dp0)).
Proof.
  intros c lib pref_total prev_dp prev_voa nl tp tp_arg sel a d dp voa g0 pt dp0 voa0 Hs HT H.
  destruct (set_one_inv _ _ _ _ _ _ _ _ _ _ _ _ _ H)
    as (g0' & pt' & dp0' & params & red & HT' & Hsel & Hdp & Hv & _).
  rewrite HT in HT'. injection HT' as <- <- <- <-.
  destruct (targets_inv _ _ _ _ _ _ _ _ _ _ _ HT) as (Hb & Hpt & _ & _).
  exists params. destruct Hsel as [[Hnv Hsel] | (Hnv & Hfind & Hred)].
  - destruct Hsel as [cr Hsel]. destruct (Hs _ _ _ _ _ Hsel) as [Hin Hred].
    rewrite Hnv. cbn [String.eqb]. split; [exact Hin |]. split; [symmetry; exact Hv |].
    subst dp red pt. unfold pow_margin.
    set (x := pref_total + dp0 - g0 + a_gmax params + c_ext c).
    assert (Ex : x == pref_total + dp0 - g0 + a_gmax params + c_ext c) by reflexivity. clearbody x.
    destruct (Q.min_spec x (a_pmax params)) as [[H1 H2] | [H1 H2]];
      destruct (Q.min_spec (Qmin x (a_pmax params) - (pref_total + dp0)) 0) as [[H3 H4] | [H3 H4]];
      rewrite H4; rewrite H2 in *; repeat split; try lra.
  - apply find_amp_In in Hfind. destruct Hfind as [Hin Hname].
    apply String.eqb_neq in Hnv. rewrite Hnv. split; [exact Hin |]. split; [symmetry; exact Hv |].
    subst dp. destruct (c_power_mode c).
    + subst red. destruct (Q.min_spec 0 (a_pmax params - (pref_total + dp0))) as [[H1 H2] | [H1 H2]];
        rewrite H2; repeat split; lra.
    + subst red.
      destruct (Q.min_spec 0 (a_pmax params - (pref_total + prev_dp - nl - prev_voa + g0))) as [[H1 H2] | [H1 H2]];
        rewrite H2; repeat split; lra.
Qed.

(* ------------------------------------------------------------------ output VOA *)
(* red = the power reduction; dp = dp0 + red is what is handed to the next amplifier together with voa *)
Theorem voa_rule : forall c lib pref_total prev_dp prev_voa nl tp tp_arg sel a d dp voa g0 pt dp0 voa0,
  sel_sound lib (c_ext c) sel ->
  targets c pref_total prev_dp prev_voa nl tp a = Ok (g0, pt, dp0, voa0) ->
  set_one_gen c lib pref_total prev_dp prev_voa nl tp tp_arg sel a = Ok (d, dp, voa) ->
  exists params red, In params lib /\ a_name params = d_variety d /\ dp = dp0 + red /\
    (match an_ovoa a with
     | Some x => (* operator VOA: kept, nothing optimised *)
         d_ovoa d = x /\ voa = ozero (Some x) /\ d_gain d == g0 + red /\ d_dp d == dp
     | None =>
         voa = 0 /\
         (if c_power_mode c && a_voa_auto params
          then (let raw := Qmin (a_pmax params - pt) (a_gmax params - (g0 + red)) in
                d_ovoa d = Qmax (Qmin (round2float raw (c_voa_step c) - c_voa_margin c) raw) 0) /\
               d_gain d == g0 + red + d_ovoa d /\ d_dp d == dp + d_ovoa d
          else d_ovoa d = 0 /\ d_gain d == g0 + red /\ d_dp d == dp)
     end).
Proof.
  intros c lib pref_total prev_dp prev_voa nl tp tp_arg sel a d dp voa g0 pt dp0 voa0 Hs HT H.
  destruct (set_one_inv _ _ _ _ _ _ _ _ _ _ _ _ _ H)
    as (g0' & pt' & dp0' & params & red & HT' & Hsel & Hdp & Hv & Hg & _ & Hd & Ho & _).
  rewrite HT in HT'. injection HT' as <- <- <- <-.
  destruct (targets_inv _ _ _ _ _ _ _ _ _ _ _ HT) as (_ & _ & Hvoa & _).
  assert (Hinp : In params lib).
  { destruct Hsel as [[_ Hsel] | (_ & Hfind & _)];
      [destruct Hsel as [cr Hsel]; apply Hs in Hsel; tauto | apply find_amp_In in Hfind; tauto]. }
  exists params, red. split; [exact Hinp |]. split; [symmetry; exact Hv |]. split; [exact Hdp |].
  unfold voa_auto_on in *. subst dp. revert Hg Hd Ho Hvoa.
  destruct (an_ovoa a) as [x |]; destruct (c_power_mode c); cbn [andb ozero];
    try destruct (a_voa_auto params); intros Hg Hd Ho Hvoa; rewrite ?Ho, ?Hg, ?Hd;
    repeat split; try reflexivity; try exact Hvoa; lra.
Qed.

(* with the automatic VOA included (it is capped at the head-room), the total design power stays within p_max.
   In gain mode the saturation test of an imposed variety is made before the input VOA, hence the sign condition *)
Theorem total_power_within_pmax : forall c lib pref_total prev_dp prev_voa nl tp tp_arg sel a d dp voa,
  sel_sound lib (c_ext c) sel ->
  (c_power_mode c = true \/ 0 <= ozero (an_ivoa a)) ->
  set_one_gen c lib pref_total prev_dp prev_voa nl tp tp_arg sel a = Ok (d, dp, voa) ->
  exists params, In params lib /\ a_name params = d_variety d /\ pref_total + d_dp d <= a_pmax params.
Proof.
  intros c lib pref_total prev_dp prev_voa nl tp tp_arg sel a d dp voa Hs Hmode H.
  destruct (set_one_inv _ _ _ _ _ _ _ _ _ _ _ _ _ H)
    as (g0 & pt & dp0 & params & red & HT & Hsel & Hdp & Hv & Hg & _ & Hd & Ho & _).
  destruct (targets_inv _ _ _ _ _ _ _ _ _ _ _ HT) as (Hb & Hpt & _ & _).
  assert (Hinp : In params lib).
  { destruct Hsel as [[_ Hsel] | (_ & Hfind & _)];
      [destruct Hsel as [cr Hsel]; apply Hs in Hsel; tauto | apply find_amp_In in Hfind; tauto]. }
  assert (Hsat' : pref_total + dp <= a_pmax params /\ red <= 0).
  { destruct Hsel as [[Hnv Hsel] | (Hnv & Hfind & Hred)].
    - destruct Hsel as [cr Hsel]. destruct (Hs _ _ _ _ _ Hsel) as [_ Hred]. subst dp red pt. unfold pow_margin.
      set (x := pref_total + dp0 - g0 + a_gmax params + c_ext c). clearbody x.
      destruct (Q.min_spec x (a_pmax params)) as [[H1 H2] | [H1 H2]];
        destruct (Q.min_spec (Qmin x (a_pmax params) - (pref_total + dp0)) 0) as [[H3 H4] | [H3 H4]];
        rewrite H4; rewrite H2 in *; split; lra.
    - subst dp red. destruct (c_power_mode c) eqn:Epm.
      + destruct (Q.min_spec 0 (a_pmax params - (pref_total + dp0))) as [[H1 H2] | [H1 H2]]; rewrite H2; split; lra.
      + destruct Hmode as [Hm | Hiv]; [discriminate |].
        destruct (Q.min_spec 0 (a_pmax params - (pref_total + prev_dp - nl - prev_voa + g0))) as [[H1 H2] | [H1 H2]];
          rewrite H2; split; lra. }
  destruct Hsat' as [Hsat' Hred0].
  exists params. split; [exact Hinp |]. split; [symmetry; exact Hv |].
  rewrite Hd. unfold voa_auto_on. destruct (c_power_mode c) eqn:Epm; [| subst dp; lra].
  destruct (an_ovoa a) as [x |].
  - subst dp. lra.
  - cbn [andb]. destruct (a_voa_auto params); [| subst dp; lra].
    unfold auto_voa. cbv zeta. set (raw := auto_voa_raw (a_pmax params) (a_gmax params) pt (g0 + red)).
    assert (Hraw : raw <= a_pmax params - pt) by (unfold raw, auto_voa_raw; apply Q.le_min_l).
    set (r := round2float raw (c_voa_step c) - c_voa_margin c).
    assert (Hcap : Qmin r raw <= raw) by apply Q.le_min_r.
    subst dp pt.
    destruct (Q.max_spec (Qmin r raw) 0) as [[H1 H2] | [H1 H2]]; rewrite H2; clearbody raw r;
      clear - Hsat' Hred0 Hcap Hraw H1; lra.
Qed.

(* ------------------------------------------------------------------ the power rule *)
Theorem target_power_rule : forall c rest e t,
  target_power c rest e = Ok t ->
  match rest, e with
  | [], EndRoadm _ => t = 0                                        (* 0 before a ROADM *)
  | _, _ => exists lo hi step tl, c_dpr c = lo :: hi :: step :: tl /\
            t = Qmin hi (Qmax lo (round2float ((next_loss rest - c_ref c) * c_slope c) step))
  end.
Proof.
  intros c rest e t H. unfold target_power in H.
  assert (G : dp_rule c (next_loss rest) = Ok t ->
              exists lo hi step tl, c_dpr c = lo :: hi :: step :: tl /\
                t = Qmin hi (Qmax lo (round2float ((next_loss rest - c_ref c) * c_slope c) step))).
  { clear H. intros H. unfold dp_rule, nth_q in H.
    destruct (c_dpr c) as [| lo [| hi [| step tl]]]; cbn in H; try discriminate.
    injection H as <-. exists lo, hi, step, tl. split; reflexivity. }
  destruct rest as [| n r]; [destruct e as [pl |] |]; try (apply G; exact H).
  injection H as <-. reflexivity.
Qed.

(* clamping: whatever the span losses, the rule stays inside a well-ordered delta_power_range *)
Theorem target_power_range : forall c rest e t lo hi step tl,
  target_power c rest e = Ok t -> c_dpr c = lo :: hi :: step :: tl -> lo <= hi ->
  match rest, e with [], EndRoadm _ => t = 0 | _, _ => lo <= t /\ t <= hi end.
Proof.
  intros c rest e t lo hi step tl H Hd Hle. pose proof (target_power_rule _ _ _ _ H) as R.
  destruct rest as [| n r]; [destruct e as [pl |] |]; try exact R;
    destruct R as (lo' & hi' & step' & tl' & Hd' & ->); rewrite Hd in Hd'; injection Hd' as <- <- <- <-;
    (split; [apply Q.min_glb; [exact Hle | apply Q.le_max_l] | apply Q.le_min_l]).
Qed.

(* where the operator set no offset (and, in gain mode, no gain) the offset is the rule plus the operator's VOA *)
Theorem offset_rule : forall c pref_total prev_dp prev_voa nl tp a g0 pt dp0 voa,
  targets c pref_total prev_dp prev_voa nl tp a = Ok (g0, pt, dp0, voa) ->
  an_dp a = None -> (c_power_mode c = true \/ an_gain a = None) ->
  exists t, tp = Ok t /\ dp0 = t + ozero (an_ovoa a) /\ g0 == nl + dp0 - prev_dp + prev_voa + ozero (an_ivoa a).
Proof.
  intros c pref_total prev_dp prev_voa nl tp a g0 pt dp0 voa H Hdp Hm.
  destruct (targets_inv _ _ _ _ _ _ _ _ _ _ _ H) as (Hb & _ & _ & Hcase). rewrite Hdp in Hcase.
  assert (G : exists t, tp = Ok t /\ dp0 = t + ozero (an_ovoa a)).
  { destruct (an_gain a) as [g |]; [destruct (c_power_mode c) |]; try exact Hcase.
    destruct Hm as [Hm | Hm]; discriminate. }
  destruct G as (t & H1 & H2). exists t. split; [exact H1 |]. split; [exact H2 | lra].
Qed.

(* ------------------------------------------------------------------ operator settings are kept unless they saturate *)
Theorem user_offset_kept : forall c lib pref_total prev_dp prev_voa nl tp tp_arg sel a d dp voa u,
  sel_sound lib (c_ext c) sel ->
  c_power_mode c = true -> an_dp a = Some u ->
  set_one_gen c lib pref_total prev_dp prev_voa nl tp tp_arg sel a = Ok (d, dp, voa) ->
  exists params, In params lib /\ a_name params = d_variety d /\ dp <= u /\
    (if String.eqb (n_variety (an_node a)) ""
     then exists g0, g0 == nl + u - prev_dp + prev_voa + ozero (an_ivoa a) /\
                     (pref_total + u <= a_pmax params -> g0 <= a_gmax params + c_ext c -> dp == u)
     else pref_total + u <= a_pmax params -> dp == u) /\
    (* delta_p itself: the kept offset, plus the automatic VOA if the operator left out_voa open *)
    d_delta_p d = Some (d_dp d) /\ d_dp d - d_ovoa d == dp - voa.
Proof.
  intros c lib pref_total prev_dp prev_voa nl tp tp_arg sel a d dp voa u Hs Hpm Hu H.
  destruct (set_one_inv _ _ _ _ _ _ _ _ _ _ _ _ _ H)
    as (g0 & pt & dp0 & params0 & red & HT & _ & _ & _ & _ & Hdel & Hd & _).
  destruct (dp_saturation _ _ _ _ _ _ _ _ _ _ _ _ _ _ _ _ _ Hs HT H) as (params & Hin & Hname & Hle & Hsat).
  destruct (targets_inv _ _ _ _ _ _ _ _ _ _ _ HT) as (Hb & _ & _ & Hcase).
  rewrite Hpm, Hu in Hcase.
  assert (E : dp0 = u) by (destruct (an_gain a); exact Hcase). subst dp0.
  exists params. split; [exact Hin |]. split; [exact Hname |]. split; [exact Hle |]. split.
  - destruct (String.eqb (n_variety (an_node a)) "").
    + exists g0. split; [lra | apply Hsat].
    + rewrite Hpm in Hsat. apply Hsat.
  - split; [rewrite Hdel, Hd, Hpm; reflexivity | apply (set_one_budget _ _ _ _ _ _ _ _ _ _ _ _ _ H)].
Qed.

Theorem user_gain_kept : forall c lib pref_total prev_dp prev_voa nl tp tp_arg sel a d dp voa g,
  sel_sound lib (c_ext c) sel ->
  c_power_mode c = false -> an_gain a = Some g ->
  set_one_gen c lib pref_total prev_dp prev_voa nl tp tp_arg sel a = Ok (d, dp, voa) ->
  exists params, In params lib /\ a_name params = d_variety d /\ d_gain d <= g /\
    d_delta_p d = None /\
    (* the output power the test is made on: the power entering the amplifier (before its input VOA) + the gain *)
    let pout := pref_total + prev_dp - nl - prev_voa + g in
    (if String.eqb (n_variety (an_node a)) ""
     then pout - ozero (an_ivoa a) <= a_pmax params -> g <= a_gmax params + c_ext c -> d_gain d == g
     else pout <= a_pmax params -> d_gain d == g).
Proof.
  intros c lib pref_total prev_dp prev_voa nl tp tp_arg sel a d dp voa g Hs Hpm Hg H.
  destruct (set_one_inv _ _ _ _ _ _ _ _ _ _ _ _ _ H)
    as (g0 & pt & dp0 & params0 & red & HT & _ & Hdp & _ & Hgain & Hdel & _).
  destruct (dp_saturation _ _ _ _ _ _ _ _ _ _ _ _ _ _ _ _ _ Hs HT H) as (params & Hin & Hname & Hle & Hsat).
  destruct (targets_inv _ _ _ _ _ _ _ _ _ _ _ HT) as (Hb & _ & _ & Hcase).
  rewrite Hpm, Hg in Hcase. destruct Hcase as [-> Hdp0].
  assert (Hv : voa_auto_on c a params0 = false).
  { unfold voa_auto_on. rewrite Hpm. destruct (an_ovoa a); reflexivity. }
  rewrite Hv in Hgain.
  exists params. split; [exact Hin |]. split; [exact Hname |].
  split; [rewrite Hgain; subst dp; lra |]. split; [rewrite Hdel, Hpm; reflexivity |]. cbv zeta.
  destruct (String.eqb (n_variety (an_node a)) "").
  - intros H1 H2. destruct Hsat as (_ & _ & Hs'). rewrite Hgain. subst dp.
    assert (E : dp0 + red == dp0) by (apply Hs'; lra). lra.
  - rewrite Hpm in Hsat. intros H1. destruct Hsat as [_ Hs']. rewrite Hgain. subst dp.
    assert (E : dp0 + red == dp0) by (apply Hs'; lra). lra.
Qed.

(* ------------------------------------------------------------------ every amplifier of a designed OMS *)
Lemma design_from_each : forall (P : damp -> Prop) c lib bmin bmax pref_total e,
  (forall prev_dp prev_voa nl tp tp_arg prev next a d dp voa,
     set_one c lib bmin bmax pref_total prev_dp prev_voa nl tp tp_arg prev next a = Ok (d, dp, voa) -> P d) ->
  forall after prevn seg prev_dp prev_voa ds,
  design_from c lib bmin bmax pref_total e prevn seg prev_dp prev_voa after = Ok ds -> Forall P ds.
Proof.
  intros P c lib bmin bmax pref_total e HP after.
  induction after as [| x rest IH]; intros prevn seg prev_dp prev_voa ds Hd.
  - cbn in Hd. injection Hd as <-. constructor.
  - destruct x as [f | l | a]; cbn [design_from] in Hd; try (eapply IH; exact Hd).
    match type of Hd with bind ?r _ = _ => destruct r as [[[d dp] voa] | err] eqn:ES end; cbn [bind] in Hd;
      [| discriminate].
    match type of Hd with bind ?r _ = _ => destruct r as [ds' | err] eqn:ED end; cbn [bind] in Hd; [| discriminate].
    injection Hd as <-. constructor; [eapply HP; exact ES | eapply IH; exact ED].
Qed.

Lemma design_from_each_in : forall (P : damp -> Prop) c lib bmin bmax pref_total e after,
  (forall prev_dp prev_voa nl tp tp_arg prev next a d dp voa, In (Amp a) after ->
     set_one c lib bmin bmax pref_total prev_dp prev_voa nl tp tp_arg prev next a = Ok (d, dp, voa) -> P d) ->
  forall prevn seg prev_dp prev_voa ds,
  design_from c lib bmin bmax pref_total e prevn seg prev_dp prev_voa after = Ok ds -> Forall P ds.
Proof.
  intros P c lib bmin bmax pref_total e after.
  induction after as [| x rest IH]; intros HP prevn seg prev_dp prev_voa ds Hd.
  - cbn in Hd. injection Hd as <-. constructor.
  - assert (HP' : forall prev_dp prev_voa nl tp tp_arg prev next a d dp voa, In (Amp a) rest ->
              set_one c lib bmin bmax pref_total prev_dp prev_voa nl tp tp_arg prev next a = Ok (d, dp, voa) -> P d).
    { intros. eapply HP; [right; eassumption | eassumption]. }
    destruct x as [f | l | a]; cbn [design_from] in Hd; try (eapply (IH HP'); exact Hd).
    match type of Hd with bind ?r _ = _ => destruct r as [[[d dp] voa] | err] eqn:ES end; cbn [bind] in Hd;
      [| discriminate].
    match type of Hd with bind ?r _ = _ => destruct r as [ds' | err] eqn:ED end; cbn [bind] in Hd; [| discriminate].
    injection Hd as <-. constructor; [eapply HP; [left; reflexivity | exact ES] | eapply (IH HP'); exact ED].
Qed.

(* total design power never exceeds the amplifier's maximum output, automatic VOA included *)
Theorem design_within_pmax : forall c lib bmin bmax pref_ch pref_total p0 s e chain ds,
  (c_power_mode c = true \/
   Forall (fun x => match x with Amp a => 0 <= ozero (an_ivoa a) | _ => True end) chain) ->
  design c lib bmin bmax pref_ch pref_total p0 s e chain = Ok ds ->
  Forall (fun d => exists params, In params lib /\ a_name params = d_variety d /\
                                  pref_total + d_dp d <= a_pmax params) ds.
Proof.
  intros c lib bmin bmax pref_ch pref_total p0 s e chain ds Hm Hd. unfold design in Hd.
  eapply design_from_each_in; [| exact Hd]. intros prev_dp prev_voa nl tp tp_arg prev next a d dp voa Hin Hs.
  unfold set_one in Hs. eapply total_power_within_pmax; [apply edfa_selector_sound | | exact Hs].
  destruct Hm as [Hm | Hm]; [left; exact Hm | right].
  rewrite Forall_forall in Hm. exact (Hm _ Hin).
Qed.

(* ------------------------------------------------------------------ span losses after connector / padding preparation *)
Definition passive (e : elem) : Prop := is_ff e = true.
Definition raw_el (e : elem) : Prop := match e with Fib f => f_dsl f = None | _ => True end.
(* no fibre directly follows a fibre (add_inline_amplifier puts an amplifier between them) *)
Definition fib_pair (x : elem) (t : list elem) : Prop :=
  match x, t with Fib _, Fib _ :: _ => False | _, _ => True end.
Fixpoint nff (l : list elem) : Prop := match l with [] => True | x :: t => fib_pair x t /\ nff t end.
Definition seg_ok (seg : list elem) : Prop := node_loss_of seg == qsum (map eff seg).
Definition no_raman (e : elem) : Prop := match e with Fib f => f_raman f = None | _ => True end.

Lemma no_raman_gain : forall b l, Forall no_raman l -> qsum (map (rgain b) l) == 0.
Proof.
  intros b l H. induction H as [| x t Hx _ IH]; [reflexivity |].
  unfold qsum in *. cbn [map fold_right]. rewrite IH.
  destruct x as [f | y | a]; cbn in *; try rewrite Hx; lra.
Qed.

Lemma no_raman_eff : forall l, Forall no_raman l -> qsum (map eff l) == qsum (map eloss l).
Proof.
  intros l H. induction H as [| x t Hx _ IH]; [reflexivity |].
  unfold qsum in *. cbn [map fold_right]. rewrite IH. unfold eff.
  destruct x as [f | y | a]; cbn in *; try rewrite Hx; lra.
Qed.

Lemma walk_gen_full : forall r p, Forall passive (p :: r) -> nff (p :: r) -> walk_gen r p = r.
Proof.
  induction r as [| q r IH]; intros p Hp Hn; [reflexivity |].
  cbn [walk_gen]. inversion Hp as [| ? ? Hp1 Hp2]; subst. inversion Hp2 as [| ? ? Hq Hr]; subst.
  destruct Hn as [Hpair Hn].
  assert (L : link_ok q p = true).
  { unfold link_ok. unfold passive in Hp1, Hq. destruct p, q; cbn in *; try discriminate; try reflexivity.
    destruct Hpair. }
  rewrite L. f_equal. apply IH; assumption.
Qed.

Lemma walk_gen_stop : forall t p, match t with [] => True | Amp _ :: _ => True | _ => False end -> walk_gen t p = [].
Proof.
  intros t p H. destruct t as [| [f | l | a] t]; try destruct H; [reflexivity |].
  cbn [walk_gen]. unfold link_ok. cbn. reflexivity.
Qed.

Lemma live_seg : forall b r p t, Forall passive (p :: r) -> nff (p :: r) ->
  match t with [] => True | Amp _ :: _ => True | _ => False end ->
  live_loss b r p t == qsum (map eloss (p :: r)) - qsum (map (rgain b) (p :: r)).
Proof.
  intros b r p t Hp Hn Ht. unfold live_loss. rewrite (walk_gen_full r p Hp Hn), (walk_gen_stop t p Ht).
  inversion Hp as [| ? ? Hp1 _]; subst. unfold passive in Hp1. rewrite Hp1. unfold qsum. cbn [map fold_right]. lra.
Qed.

Lemma eff_split : forall l, qsum (map eff l) == qsum (map eloss l) - qsum (map (rgain true) l).
Proof.
  induction l as [| x t IH]; [reflexivity |]. unfold qsum in *. cbn [map fold_right]. rewrite IH. unfold eff. lra.
Qed.

Lemma seg_ok_live : forall seg, Forall passive seg -> nff seg ->
  match seg with Fib f :: _ => f_dsl f = None | _ => True end -> seg_ok seg.
Proof.
  intros seg Hp Hn Hd. unfold seg_ok, node_loss_of. destruct seg as [| p r]; [reflexivity |].
  rewrite eff_split.
  unfold span_loss. destruct p as [f | l | a]; [rewrite Hd | |]; apply live_seg; auto.
Qed.

Lemma seg_ok_cached : forall f r d, f_dsl f = Some d -> d == qsum (map eff (Fib f :: r)) -> seg_ok (Fib f :: r).
Proof. intros f r d Hd He. unfold seg_ok, node_loss_of, span_loss. rewrite Hd. exact He. Qed.

Lemma bump_spec : forall seg node d seg' node' o,
  bump seg node d = (seg', node', o) ->
  Forall passive (node :: seg) ->
  Forall passive (node' :: seg') /\
  (forall f, node = Fib f -> exists f', node' = Fib f') /\
  match o with
  | Some _ => qsum (map eloss (node' :: seg')) == qsum (map eloss (node :: seg)) + d
  | None => seg' = seg /\ node' = node
  end.
Proof.
  induction seg as [| p r IH]; intros node d seg' node' o H Hp.
  - cbn [bump] in H. destruct node as [f | l | a]; injection H as <- <- <-.
    + split; [constructor; [reflexivity | constructor] |]. split; [intros f0 _; eexists; reflexivity |].
      unfold qsum. cbn [map fold_right eloss]. unfold floss, set_att. cbn [f_lin f_cin f_cout f_att]. lra.
    + split; [exact Hp |]. split; [intros f0 Hf0; discriminate | split; reflexivity].
    + split; [exact Hp |]. split; [intros f0 Hf0; discriminate | split; reflexivity].
  - cbn [bump] in H. inversion Hp as [| ? ? Hp1 Hp2]; subst.
    destruct (link_ok p node) eqn:L.
    + destruct (bump r p d) as [[r' p'] o'] eqn:EB. injection H as <- <- <-.
      destruct (IH p d r' p' o' EB Hp2) as (Hp' & _ & Ho).
      split; [constructor; assumption |]. split; [intros f0 Hf0; eexists; exact Hf0 |].
      destruct o' as [att |].
      * unfold qsum in *. cbn [map fold_right] in *. lra.
      * destruct Ho as [-> ->]. split; reflexivity.
    + destruct node as [f | l | a]; injection H as <- <- <-.
      * split; [constructor; [reflexivity | exact Hp2] |]. split; [intros f0 _; eexists; reflexivity |].
        unfold qsum. cbn [map fold_right eloss]. unfold floss, set_att. cbn [f_lin f_cin f_cout f_att]. lra.
      * split; [exact Hp |]. split; [intros f0 Hf0; discriminate | split; reflexivity].
      * split; [exact Hp |]. split; [intros f0 Hf0; discriminate | split; reflexivity].
Qed.

(* the OMS seen from its end: for every amplifier, the passive elements just upstream of it *)
Fixpoint take_passive (l : list elem) : list elem :=
  match l with [] => [] | Amp _ :: _ => [] | x :: t => x :: take_passive t end.
Fixpoint rwf (B : list elem) : Prop :=
  match B with [] => True | Amp _ :: r => seg_ok (take_passive r) /\ rwf r | _ :: r => rwf r end.
Definition amp_headed (l : list elem) : Prop := match l with [] => True | Amp _ :: _ => True | _ => False end.

Lemma take_passive_app : forall seg done, Forall passive seg -> amp_headed done -> take_passive (seg ++ done) = seg.
Proof.
  induction seg as [| x seg IH]; intros done Hp Hd.
  - cbn. destruct done as [| [f | l | a] t]; try destruct Hd; reflexivity.
  - inversion Hp as [| ? ? Hx Hs]; subst. cbn [app take_passive]. unfold passive in Hx.
    destruct x as [f | l | a]; [| | discriminate]; f_equal; apply IH; assumption.
Qed.

Lemma take_passive_app_amp : forall X a Y, take_passive (X ++ Amp a :: Y) = take_passive X.
Proof.
  induction X as [| x X IH]; intros a Y; [reflexivity |].
  destruct x as [f | l | b]; cbn [app take_passive]; [f_equal; apply IH | f_equal; apply IH | reflexivity].
Qed.

Lemma rwf_passive_app : forall seg done, Forall passive seg -> (rwf (seg ++ done) <-> rwf done).
Proof.
  induction seg as [| x seg IH]; intros done Hp; [reflexivity |].
  inversion Hp as [| ? ? Hx Hs]; subst. unfold passive in Hx.
  destruct x as [f | l | a]; [| | discriminate]; cbn [app rwf]; apply IH; assumption.
Qed.

Lemma rwf_app_amp : forall X a Y, rwf (X ++ Amp a :: Y) <-> rwf X /\ rwf (Amp a :: Y).
Proof.
  induction X as [| x X IH]; intros a Y.
  - cbn [app]. split; [intros H; split; [exact I | exact H] | intros [_ H]; exact H].
  - specialize (IH a Y). set (R := rwf (Amp a :: Y)) in *. clearbody R.
    destruct x as [f | l | b]; cbn [app]; cbn [rwf]; try exact IH.
    rewrite take_passive_app_amp. rewrite IH. tauto.
Qed.

Lemma rwf_budget : forall after seg, Forall passive seg -> rwf (rev after ++ seg) -> budget_wf seg after.
Proof.
  induction after as [| x rest IH]; intros seg Hp H; [exact I |].
  cbn [rev] in H. rewrite <- app_assoc in H. cbn [app] in H.
  destruct x as [f | l | a]; cbn [budget_wf].
  - apply IH; [constructor; [reflexivity | exact Hp] | exact H].
  - apply IH; [constructor; [reflexivity | exact Hp] | exact H].
  - apply rwf_app_amp in H. destruct H as [H1 H2]. cbn [rwf] in H2. destruct H2 as [H2 _].
    assert (E : take_passive seg = seg).
    { rewrite <- (app_nil_r seg) at 1. apply take_passive_app; [exact Hp | exact I]. }
    rewrite E in H2. split; [exact H2 |]. apply IH; [constructor | rewrite app_nil_r; exact H1].
Qed.

Lemma bump_no_raman : forall seg node d seg' node' o,
  bump seg node d = (seg', node', o) -> Forall no_raman (node :: seg) -> Forall no_raman (node' :: seg').
Proof.
  induction seg as [| p r IH]; intros node d seg' node' o H Hn.
  - cbn [bump] in H. destruct node as [f | l | a]; injection H as <- <- <-; try exact Hn.
    inversion Hn; subst. constructor; [assumption | constructor].
  - cbn [bump] in H. inversion Hn as [| ? ? Hn1 Hn2]; subst.
    destruct (link_ok p node).
    + destruct (bump r p d) as [[r' p'] o'] eqn:EB. injection H as <- <- <-.
      constructor; [exact Hn1 | eapply IH; eassumption].
    + destruct node as [f | l | a]; injection H as <- <- <-; try exact Hn.
      constructor; [exact Hn1 | exact Hn2].
Qed.

(* add_fiber_padding on the last fibre of a span without RamanFiber: afterwards the cached design loss is the loss
   of the span *)
Lemma process_last : forall c done seg f t,
  amp_headed t -> Forall passive seg -> Forall raw_el seg -> Forall no_raman seg -> nff (Fib f :: seg) ->
  raw_el (Fib f) -> f_raman f = None ->
  exists seg2, padr c done seg (Fib f :: t) = padr c done seg2 t /\ Forall passive seg2 /\ seg_ok seg2.
Proof.
  intros c done seg f t Ht Hp Hsr Hnr Hn1 Hdsl Hram. cbn in Hdsl.
  assert (Hp1 : Forall passive (Fib f :: seg)) by (constructor; [reflexivity | exact Hp]).
  assert (Hnr1 : Forall no_raman (Fib f :: seg)) by (constructor; [exact Hram | exact Hnr]).
  assert (Esl : span_loss false seg (Fib f) t == qsum (map eff (Fib f :: seg))).
  { unfold span_loss. rewrite Hdsl. rewrite (live_seg false seg (Fib f) t Hp1 Hn1); [| destruct t as [| [| |] ?]; auto].
    rewrite (no_raman_gain false _ Hnr1), (no_raman_eff _ Hnr1). lra. }
  assert (Eis : is_raman f = false) by (unfold is_raman; rewrite Hram; reflexivity).
  assert (Estep : padr c done seg (Fib f :: t) =
                  let sl := span_loss false seg (Fib f) t in
                  let f1 := set_dsl f sl in
                  if qltb sl (c_padding c) then
                    match bump seg (Fib f1) (c_padding c - sl) with
                    | (seg', Fib f2, Some _) => padr c done (Fib (set_dsl f2 (sl + (c_padding c - sl))) :: seg') t
                    | (seg', e2, _) => padr c done (e2 :: seg') t
                    end
                  else padr c done (Fib f1 :: seg) t).
  { destruct t as [| [g | l | a] t']; try destruct Ht; cbn [padr]; rewrite Eis; reflexivity. }
  rewrite Estep. cbv zeta. set (sl := span_loss false seg (Fib f) t) in *.
  assert (Hkeep : seg_ok (Fib (set_dsl f sl) :: seg)) by (eapply seg_ok_cached; [reflexivity | exact Esl]).
  assert (Hpk : Forall passive (Fib (set_dsl f sl) :: seg)) by (constructor; [reflexivity | exact Hp]).
  assert (Hnrk : Forall no_raman (Fib (set_dsl f sl) :: seg)) by (constructor; [exact Hram | exact Hnr]).
  destruct (qltb sl (c_padding c)); [| exists (Fib (set_dsl f sl) :: seg); auto].
  destruct (bump seg (Fib (set_dsl f sl)) (c_padding c - sl)) as [[seg' e2] o] eqn:EB.
  destruct (bump_spec _ _ _ _ _ _ EB Hpk) as (Hp' & Hfib & Ho).
  pose proof (bump_no_raman _ _ _ _ _ _ EB Hnrk) as Hnr'.
  destruct (Hfib _ eq_refl) as [f2 ->].
  destruct o as [att |].
  - rename Ho into Hsum.
    exists (Fib (set_dsl f2 (sl + (c_padding c - sl))) :: seg'). split; [reflexivity |]. split.
    + inversion Hp'; subst. constructor; [reflexivity | assumption].
    + eapply seg_ok_cached; [reflexivity |].
      assert (Hnr2 : Forall no_raman (Fib (set_dsl f2 (sl + (c_padding c - sl))) :: seg')).
      { inversion Hnr'; subst. constructor; assumption. }
      rewrite (no_raman_eff _ Hnr2). rewrite (no_raman_eff _ Hnr1) in Esl.
      unfold qsum in *. cbn [map fold_right eloss] in *. unfold floss, set_dsl in *.
      cbn [f_lin f_cin f_cout f_att] in *. lra.
  - destruct Ho as [-> Heq]. injection Heq as ->.
    exists (Fib (set_dsl f sl) :: seg). auto.
Qed.

(* a RamanFiber is always the last element of its span (its estimate at the reference power may differ from the one
   at the designed power: a cached design_span_loss behind it would not be the designed loss) *)
Definition raman_pair (x : elem) (t : list elem) : Prop :=
  match x, t with Fib f, Fus _ :: _ => f_raman f = None | _, _ => True end.
Fixpoint raman_last (l : list elem) : Prop := match l with [] => True | x :: t => raman_pair x t /\ raman_last t end.

Lemma padr_rwf : forall c after done seg,
  rwf done -> amp_headed done -> Forall passive seg -> Forall raw_el after -> nff after -> raman_last after ->
  ((Forall raw_el seg /\ Forall no_raman seg /\ nff seg /\
    match seg, after with Fib _ :: _, Fib _ :: _ => False | _, _ => True end)
   \/ (seg_ok seg /\ amp_headed after)) ->
  rwf (padr c done seg after).
Proof.
  intros c after. induction after as [| x t IH]; intros done seg Hd Hh Hp Hraw Hn Hrl Hst.
  - cbn [padr]. apply rwf_passive_app; assumption.
  - inversion Hraw as [| ? ? Hx Ht]; subst. destruct Hn as [Hpair Hn]. destruct Hrl as [Hrp Hrl].
    destruct x as [f | l | a].
    + (* fibre *)
      destruct Hst as [(Hsr & Hnr & Hsn & Hj) | [_ Habs]]; [| destruct Habs].
      assert (Hn1 : nff (Fib f :: seg)).
      { split; [| exact Hsn]. destruct seg as [| [g | | ] seg]; try exact I. exact Hj. }
      assert (Hp1 : Forall passive (Fib f :: seg)) by (constructor; [reflexivity | exact Hp]).
      destruct (f_raman f) as [gg |] eqn:Eram.
      * (* RamanFiber: last of its span, never padded *)
        assert (Eis : is_raman f = true) by (unfold is_raman; rewrite Eram; reflexivity).
        assert (Hok : seg_ok (Fib f :: seg)) by (apply seg_ok_live; auto).
        destruct t as [| [g | l' | a'] t'].
        -- cbn [padr]. rewrite Eis. apply rwf_passive_app; assumption.
        -- destruct Hpair.
        -- cbn in Hrp. congruence.
        -- cbn [padr]. rewrite Eis.
           apply IH; [exact Hd | exact Hh | exact Hp1 | exact Ht | exact Hn | exact Hrl | right; split; [exact Hok | exact I]].
      * destruct t as [| [g | l' | a'] t'].
        -- destruct (process_last c done seg f [] I Hp Hsr Hnr Hn1 Hx Eram) as (seg2 & -> & Hp2 & Hok).
           apply IH; [exact Hd | exact Hh | exact Hp2 | exact Ht | exact Hn | exact Hrl | right; split; [exact Hok | exact I]].
        -- destruct Hpair.
        -- (* next is a Fused: skipped *)
           cbn [padr].
           apply IH; [exact Hd | exact Hh | exact Hp1 | exact Ht | exact Hn | exact Hrl |].
           left. split; [constructor; assumption |]. split; [constructor; [exact Eram | exact Hnr] |].
           split; [exact Hn1 | exact I].
        -- destruct (process_last c done seg f (Amp a' :: t') I Hp Hsr Hnr Hn1 Hx Eram) as (seg2 & -> & Hp2 & Hok).
           apply IH; [exact Hd | exact Hh | exact Hp2 | exact Ht | exact Hn | exact Hrl | right; split; [exact Hok | exact I]].
    + (* fused *)
      destruct Hst as [(Hsr & Hnr & Hsn & Hj) | [_ Habs]]; [| destruct Habs].
      cbn [padr].
      apply IH; [exact Hd | exact Hh | constructor; [reflexivity | exact Hp] | exact Ht | exact Hn | exact Hrl |].
      left. split; [constructor; [exact I | exact Hsr] |]. split; [constructor; [exact I | exact Hnr] |].
      split; [split; [exact I | exact Hsn] | exact I].
    + (* amplifier: the span is closed *)
      cbn [padr]. apply IH; [| exact I | constructor | exact Ht | exact Hn | exact Hrl |].
      * cbn [rwf]. rewrite (take_passive_app seg done Hp Hh). split; [| apply rwf_passive_app; assumption].
        destruct Hst as [(Hsr & _ & Hsn & _) | [Hok _]]; [| exact Hok].
        apply seg_ok_live; auto. destruct seg as [| [g | | ] seg]; try exact I.
        inversion Hsr as [| ? ? Hg _]; subst. exact Hg.
      * left. split; [constructor |]. split; [constructor |]. split; exact I.
Qed.

(* ------------------------------------------------------------------ from the OMS as loaded *)
Definition rfib_pair (x : relem) (t : list relem) : Prop :=
  match x, t with RFib _, RFib _ :: _ => False | _, _ => True end.
Fixpoint rnff (l : list relem) : Prop := match l with [] => True | x :: t => rfib_pair x t /\ rnff t end.
Definition rraman_pair (x : relem) (t : list relem) : Prop :=
  match x, t with RFib f, RFus _ :: _ => rf_raman f = None | _, _ => True end.
Fixpoint rraman_last (l : list relem) : Prop := match l with [] => True | x :: t => rraman_pair x t /\ rraman_last t end.
(* an amplifier separates any two consecutive fibres (add_inline_amplifier, C08), and a RamanFiber ends its span *)
Definition raw_ok (l : list relem) : Prop := rnff l /\ rraman_last l.

Lemma conn_raw : forall c l, Forall raw_el (conn c l).
Proof.
  intros c l. induction l as [| x t IH]; [constructor |].
  destruct x as [f | y | a]; cbn [conn]; constructor; try exact I; try exact IH. reflexivity.
Qed.

Lemma conn_nff : forall c l, rnff l -> nff (conn c l).
Proof.
  intros c l. induction l as [| x t IH]; intros H; [exact I |].
  destruct H as [Hp Ht]. specialize (IH Ht).
  destruct x as [f | y | a]; cbn [conn]; (split; [| exact IH]); try exact I.
  destruct t as [| [g | z | b] t']; try exact I. destruct Hp.
Qed.

Lemma conn_raman_last : forall c l, rraman_last l -> raman_last (conn c l).
Proof.
  intros c l. induction l as [| x t IH]; intros H; [exact I |].
  destruct H as [Hp Ht]. specialize (IH Ht).
  destruct x as [f | y | a]; cbn [conn]; (split; [| exact IH]); try exact I.
  destruct t as [| [g | z | b] t']; try exact I. exact Hp.
Qed.

Theorem prep_budget_wf : forall c raw, raw_ok raw -> budget_wf [] (prep c raw).
Proof.
  intros c raw [Hn Hr]. unfold prep. apply rwf_budget; [constructor |].
  rewrite rev_involutive, app_nil_r.
  apply padr_rwf; [exact I | exact I | constructor | apply conn_raw | apply conn_nff; exact Hn |
                   apply conn_raman_last; exact Hr |].
  left. split; [constructor |]. split; [constructor |]. split; [exact I |]. destruct (conn c raw); exact I.
Qed.

(* the budget closes along ANY OMS designed from loaded elements *)
Theorem budget_closed_raw : forall c lib bmin bmax pref_ch pref_total p0 s e raw ds,
  raw_ok raw ->
  design c lib bmin bmax pref_ch pref_total p0 s e (prep c raw) = Ok ds ->
  Forall2 (fun q d => q == pref_ch + d_dp d) (walk p0 (prep c raw) ds) ds.
Proof.
  intros c lib bmin bmax pref_ch pref_total p0 s e raw ds Hraw Hd.
  eapply budget_closed; [apply prep_budget_wf; exact Hraw | exact Hd].
Qed.

(* ------------------------------------------------------------------ refutation helpers *)
Definition walk_okb (pref p0 : Q) (chain : list elem) (ds : list damp) : bool :=
  forallb (fun qd => Qeq_bool (fst qd) (pref + d_dp (snd qd))) (combine (walk p0 chain ds) ds).

Lemma walk_okb_complete : forall pref l ds,
  Forall2 (fun q d => q == pref + d_dp d) l ds ->
  forallb (fun qd => Qeq_bool (fst qd) (pref + d_dp (snd qd))) (combine l ds) = true.
Proof.
  intros pref l ds H. induction H as [| q d l ds Hq _ IH]; [reflexivity |].
  cbn [combine forallb fst snd]. rewrite IH, andb_true_r. apply Qeq_bool_iff. exact Hq.
Qed.

(* ------------------------------------------------------------------ where the full statement fails (faithful model = open finding) *)
Definition w_cfg (pm : bool) (margin : Q) : span_cfg :=
  mkSpan pm [-2; 3; 1 # 2] 20 (3 # 10) margin (1 # 2) (5 # 2) (1 # 4000) 10 0 0 0.
Definition w_lib : list amp := [mkAmp "A" false false true 191275 196125 15 25 (163 # 10) true].
Definition w_amp (g dp ov iv : option Q) : ampn := mkAN (mkNode "A" []) g dp ov iv [].

(* gain mode: the saturation test forgets the input VOA.  Operator gain 16.5 dB, in_voa 1 dB, 16 dBm at the
   amplifier input: the output would be 15.5 dBm < p_max 16.3, yet the gain is reduced *)
Theorem gain_mode_in_voa_refuted :
  exists c lib bmin bmax pref_total prev_dp prev_voa nl tp tp_arg prev next a d dp voa p g iv,
    c_power_mode c = false /\ an_gain a = Some g /\ an_ivoa a = Some iv /\
    set_one c lib bmin bmax pref_total prev_dp prev_voa nl tp tp_arg prev next a = Ok (d, dp, voa) /\
    find_amp (d_variety d) lib = Some p /\
    pref_total + prev_dp - nl - prev_voa - iv + g <= a_pmax p /\ d_gain d < g.
Proof.
  exists (w_cfg false 1), w_lib, 191300, 196100, 16, 0, 0, 16, (Ok 0), 0, NOther, NOther,
         (w_amp (Some (33 # 2)) None (Some 0) (Some 1)).
  eexists. eexists. eexists. eexists. exists (33 # 2), 1.
  split; [reflexivity |]. split; [reflexivity |]. split; [reflexivity |].
  split; [vm_compute; reflexivity |]. split; [vm_compute; reflexivity |].
  split; [vm_compute; discriminate | vm_compute; reflexivity].
Qed.

(* ------------------------------------------------------------------ the single-band (Edfa) instances *)
Corollary set_one_budget_edfa : forall c lib bmin bmax pref_total prev_dp prev_voa nl tp tp_arg prev next a d dp voa,
  set_one c lib bmin bmax pref_total prev_dp prev_voa nl tp tp_arg prev next a = Ok (d, dp, voa) ->
  d_gain d - d_ivoa d == nl + d_dp d - prev_dp + prev_voa /\ d_dp d - d_ovoa d == dp - voa.
Proof. intros. unfold set_one in *. eapply set_one_budget; eassumption. Qed.

Corollary dp_saturation_edfa : forall c lib bmin bmax pref_total prev_dp prev_voa nl tp tp_arg prev next a d dp voa g0 pt dp0 voa0,
  targets c pref_total prev_dp prev_voa nl tp a = Ok (g0, pt, dp0, voa0) ->
  set_one c lib bmin bmax pref_total prev_dp prev_voa nl tp tp_arg prev next a = Ok (d, dp, voa) ->
  exists params, In params lib /\ a_name params = d_variety d /\
    dp <= dp0 /\
    (if String.eqb (n_variety (an_node a)) ""
     then pref_total + dp <= a_pmax params /\ g0 + (dp - dp0) <= a_gmax params + c_ext c /\
          (pref_total + dp0 <= a_pmax params -> g0 <= a_gmax params + c_ext c -> dp == dp0)
     else if c_power_mode c
     then pref_total + dp <= a_pmax params /\ (pref_total + dp0 <= a_pmax params -> dp == dp0)
     else pref_total + dp + ozero (an_ivoa a) <= a_pmax params /\
          (pref_total + dp0 + ozero (an_ivoa a) <= a_pmax params -> dp == dp0)).
Proof. intros. unfold set_one in *. eapply dp_saturation; eauto using edfa_selector_sound. Qed.

Corollary voa_rule_edfa : forall c lib bmin bmax pref_total prev_dp prev_voa nl tp tp_arg prev next a d dp voa g0 pt dp0 voa0,
  targets c pref_total prev_dp prev_voa nl tp a = Ok (g0, pt, dp0, voa0) ->
  set_one c lib bmin bmax pref_total prev_dp prev_voa nl tp tp_arg prev next a = Ok (d, dp, voa) ->
  exists params red, In params lib /\ a_name params = d_variety d /\ dp = dp0 + red /\
    (match an_ovoa a with
     | Some x => d_ovoa d = x /\ voa = ozero (Some x) /\ d_gain d == g0 + red /\ d_dp d == dp
     | None =>
         voa = 0 /\
         (if c_power_mode c && a_voa_auto params
          then (let raw := Qmin (a_pmax params - pt) (a_gmax params - (g0 + red)) in
                d_ovoa d = Qmax (Qmin (round2float raw (c_voa_step c) - c_voa_margin c) raw) 0) /\
               d_gain d == g0 + red + d_ovoa d /\ d_dp d == dp + d_ovoa d
          else d_ovoa d = 0 /\ d_gain d == g0 + red /\ d_dp d == dp)
     end).
Proof. intros. unfold set_one in *. eapply voa_rule; eauto using edfa_selector_sound. Qed.

Corollary user_offset_kept_edfa : forall c lib bmin bmax pref_total prev_dp prev_voa nl tp tp_arg prev next a d dp voa u,
  c_power_mode c = true -> an_dp a = Some u ->
  set_one c lib bmin bmax pref_total prev_dp prev_voa nl tp tp_arg prev next a = Ok (d, dp, voa) ->
  exists params, In params lib /\ a_name params = d_variety d /\ dp <= u /\
    (if String.eqb (n_variety (an_node a)) ""
     then exists g0, g0 == nl + u - prev_dp + prev_voa + ozero (an_ivoa a) /\
                     (pref_total + u <= a_pmax params -> g0 <= a_gmax params + c_ext c -> dp == u)
     else pref_total + u <= a_pmax params -> dp == u) /\
    d_delta_p d = Some (d_dp d) /\ d_dp d - d_ovoa d == dp - voa.
Proof. intros. unfold set_one in *. eapply user_offset_kept; eauto using edfa_selector_sound. Qed.

Corollary user_gain_kept_edfa : forall c lib bmin bmax pref_total prev_dp prev_voa nl tp tp_arg prev next a d dp voa g,
  c_power_mode c = false -> an_gain a = Some g ->
  set_one c lib bmin bmax pref_total prev_dp prev_voa nl tp tp_arg prev next a = Ok (d, dp, voa) ->
  exists params, In params lib /\ a_name params = d_variety d /\ d_gain d <= g /\
    d_delta_p d = None /\
    let pout := pref_total + prev_dp - nl - prev_voa + g in
    (if String.eqb (n_variety (an_node a)) ""
     then pout - ozero (an_ivoa a) <= a_pmax params -> g <= a_gmax params + c_ext c -> d_gain d == g
     else pout <= a_pmax params -> d_gain d == g).
Proof. intros. unfold set_one in *. eapply user_gain_kept; eauto using edfa_selector_sound. Qed.

(* ------------------------------------------------------------------ multiband OMS: the budget closes in every band *)
(* each band amplifier of a multiband OMS is designed by the same set_one_amplifier: its saturation / VOA / operator
   clauses are those of set_one_gen (dp_saturation, voa_rule, user_*_kept) with a sound selector *)
Lemma band_selector_sound : forall c lib redfa pc prev b a, sel_sound lib (c_ext c) (band_selector c lib redfa pc prev b a).
Proof.
  intros c lib redfa pc prev b a g pt s red cr H. unfold band_selector in H.
  match type of H with bind ?r _ = _ => destruct r as [[s' red'] | e] eqn:E end; cbn [bind] in H; [| discriminate].
  injection H as <- <- _. unfold band_select in E.
  destruct (select_fallback _ _ _ _ _ _ _ _ E) as (Hin & Hred & _).
  split; [| exact Hred]. apply pool_subset in Hin. apply filter_In in Hin. tauto.
Qed.

Lemma mb_set_length : forall c lib nl tp tp_arg redfa pc prev bis st amps rs,
  mb_set c lib nl tp tp_arg redfa pc prev bis st amps = Ok rs ->
  length rs = length bis /\ length st = length bis /\ length amps = length bis.
Proof.
  intros c lib nl tp tp_arg redfa pc prev bis.
  induction bis as [| b bs IH]; intros st amps rs H.
  - destruct st as [| [? ?] ?]; destruct amps; cbn in H; try discriminate. injection H as <-. auto.
  - destruct st as [| [pdp pvoa] ss]; [cbn in H; discriminate |].
    destruct amps as [| a rest]; [cbn in H; discriminate |].
    cbn [mb_set] in H.
    match type of H with bind ?r _ = _ => destruct r as [r1 | e] end; cbn [bind] in H; [| discriminate].
    match type of H with bind ?r _ = _ => destruct r as [rs1 | e] eqn:E2 end; cbn [bind] in H; [| discriminate].
    injection H as <-. destruct (IH ss rest rs1 E2) as (L1 & L2 & L3). cbn [length]. repeat split; lia.
Qed.

Lemma mb_set_nth : forall c lib nl tp tp_arg redfa pc prev bis st amps rs k,
  mb_set c lib nl tp tp_arg redfa pc prev bis st amps = Ok rs -> (k < length bis)%nat ->
  exists sel, sel_sound lib (c_ext c) sel /\
    set_one_gen c lib (bi_pref_total (nth k bis (mkBI 0 0 0))) (fst (nth k st (0, 0))) (snd (nth k st (0, 0)))
                nl tp tp_arg sel (nth k amps dummy_ampn) = Ok (nth k rs (dummy_damp, 0, 0)).
Proof.
  intros c lib nl tp tp_arg redfa pc prev bis.
  induction bis as [| b bs IH]; intros st amps rs k H Hk; [cbn in Hk; lia |].
  destruct st as [| [pdp pvoa] ss]; [cbn in H; discriminate |].
  destruct amps as [| a rest]; [cbn in H; discriminate |].
  cbn [mb_set] in H.
  match type of H with bind ?r _ = _ => destruct r as [r1 | e] eqn:E1 end; cbn [bind] in H; [| discriminate].
  match type of H with bind ?r _ = _ => destruct r as [rs1 | e] eqn:E2 end; cbn [bind] in H; [| discriminate].
  injection H as <-.
  destruct k as [| k]; cbn [nth fst snd].
  - eexists. split; [apply band_selector_sound | exact E1].
  - cbn [length] in Hk. apply (IH ss rest rs1 k E2). lia.
Qed.

Lemma mb_node_set : forall c lib groups nl tp tp_arg prev next nd bis st amps rs,
  mb_node c lib groups nl tp tp_arg prev next nd bis st amps = Ok rs ->
  exists redfa pc, mb_set c lib nl tp tp_arg redfa pc prev bis st amps = Ok rs.
Proof.
  intros c lib groups nl tp tp_arg prev next nd bis st amps rs H. unfold mb_node in H.
  match type of H with bind ?r _ = _ => destruct r as [bts | e] end; cbn [bind] in H; [| discriminate].
  match type of H with bind ?r _ = _ => destruct r as [[mr redfa] | e] end; cbn [bind] in H; [| discriminate].
  match type of H with bind ?r _ = _ => destruct r as [rs' | e] eqn:E end; cbn [bind] in H; [| discriminate].
  destruct (common_groups groups _); [discriminate |]. injection H as <-. eexists redfa, _. exact E.
Qed.


Lemma design_mb_from_budget : forall c lib groups bis pref_ch e k after prevn seg st p dss,
  (k < length bis)%nat -> length st = length bis ->
  budget_wf seg (proj_band k after) ->
  p == pref_ch + fst (nth k st (0, 0)) - snd (nth k st (0, 0)) - qsum (map eff seg) ->
  design_mb_from c lib groups bis e prevn seg st after = Ok dss ->
  Forall2 (fun q d => q == pref_ch + d_dp d) (walk p (proj_band k after) (proj_ds k dss)) (proj_ds k dss).
Proof.
  intros c lib groups bis pref_ch e k after.
  induction after as [| x rest IH]; intros prevn seg st p dss Hk Hlen Hwf Hp Hd.
  - cbn in Hd. injection Hd as <-. constructor.
  - destruct x as [f | l | nd amps].
    + cbn [design_mb_from to_elem] in Hd. cbn [proj_band map to_elem] in *. cbn [walk]. cbn [budget_wf] in Hwf.
      eapply IH; [exact Hk | exact Hlen | exact Hwf | | exact Hd]. unfold qsum, eff in *. cbn [map fold_right]. lra.
    + cbn [design_mb_from to_elem] in Hd. cbn [proj_band map to_elem] in *. cbn [walk]. cbn [budget_wf] in Hwf.
      eapply IH; [exact Hk | exact Hlen | exact Hwf | | exact Hd]. unfold qsum, eff in *. cbn [map fold_right]. lra.
    + cbn [design_mb_from] in Hd. cbn [proj_band map] in *. cbn [budget_wf] in Hwf. destruct Hwf as [Hnl Hwf].
      match type of Hd with bind ?r _ = _ => destruct r as [rs | err] eqn:EN end; cbn [bind] in Hd; [| discriminate].
      match type of Hd with bind ?r _ = _ => destruct r as [dss' | err] eqn:ED end; cbn [bind] in Hd; [| discriminate].
      injection Hd as <-.
      destruct (mb_node_set _ _ _ _ _ _ _ _ _ _ _ _ _ EN) as (redfa & pc & ES).
      destruct (mb_set_length _ _ _ _ _ _ _ _ _ _ _ _ ES) as (L1 & L2 & L3).
      destruct (mb_set_nth _ _ _ _ _ _ _ _ _ _ _ _ k ES Hk) as (sel & _ & S1).
      destruct (nth k rs (dummy_damp, 0, 0)) as [[d dp] voa] eqn:En.
      destruct (set_one_budget _ _ _ _ _ _ _ _ _ _ _ _ _ S1) as [Hg Ho].
      assert (Ed : nth k (map (fun r => fst (fst r)) rs) dummy_damp = d).
      { change dummy_damp with ((fun r : damp * Q * Q => fst (fst r)) (dummy_damp, 0, 0)). rewrite map_nth, En. reflexivity. }
      assert (Est : nth k (map (fun r => (snd (fst r), snd r)) rs) (0, 0) = (dp, voa)).
      { change (0, 0) with ((fun r : damp * Q * Q => (snd (fst r), snd r)) (dummy_damp, 0, 0)). rewrite map_nth, En. reflexivity. }
      cbn [proj_ds map walk]. rewrite Ed. constructor.
      * lra.
      * apply (IH NOther [] (map (fun r => (snd (fst r), snd r)) rs)); [exact Hk | rewrite map_length; exact L1 | exact Hwf | | exact ED].
        rewrite Est. unfold qsum. cbn [map fold_right fst snd]. lra.
Qed.

(* along ANY multiband OMS and in EVERY band, the reference channel of the band leaves each Multiband_amplifier
   (before the band's output VOA) at reference power + the band amplifier's offset *)
Theorem budget_closed_mb : forall c lib groups bis pref_ch p0 s e chain dss k,
  (k < length bis)%nat ->
  budget_wf [] (proj_band k chain) ->
  design_mb c lib groups bis pref_ch p0 s e chain = Ok dss ->
  Forall2 (fun q d => q == pref_ch + d_dp d) (walk p0 (proj_band k chain) (proj_ds k dss)) (proj_ds k dss).
Proof.
  intros c lib groups bis pref_ch p0 s e chain dss k Hk Hwf Hd. unfold design_mb in Hd.
  eapply design_mb_from_budget; [exact Hk | apply map_length | exact Hwf | | exact Hd].
  assert (E : nth k (map (fun _ : bandinfo => (p0 - pref_ch, 0)) bis) (0, 0) = (p0 - pref_ch, 0)).
  { clear - Hk. revert k Hk. induction bis as [| b bs IH]; intros k Hk; [cbn in Hk; lia |].
    destruct k; [reflexivity |]. cbn [map nth]. apply IH. cbn in Hk. lia. }
  rewrite E. unfold qsum. cbn [map fold_right fst snd]. lra.
Qed.


(* in every band the total design power of the band stays within the chosen entry's p_max (power mode) *)
Theorem mb_node_within_pmax : forall c lib groups nl tp tp_arg prev next nd bis st amps rs k,
  c_power_mode c = true -> (k < length bis)%nat ->
  mb_node c lib groups nl tp tp_arg prev next nd bis st amps = Ok rs ->
  let d := fst (fst (nth k rs (dummy_damp, 0, 0))) in
  exists params, In params lib /\ a_name params = d_variety d /\
                 bi_pref_total (nth k bis (mkBI 0 0 0)) + d_dp d <= a_pmax params.
Proof.
  intros c lib groups nl tp tp_arg prev next nd bis st amps rs k Hpm Hk H. cbv zeta.
  destruct (mb_node_set _ _ _ _ _ _ _ _ _ _ _ _ _ H) as (redfa & pc & ES).
  destruct (mb_set_nth _ _ _ _ _ _ _ _ _ _ _ _ k ES Hk) as (sel & Hs & S1).
  destruct (nth k rs (dummy_damp, 0, 0)) as [[d dp] voa]. cbn [fst].
  eapply total_power_within_pmax; [exact Hs | left; exact Hpm | exact S1].
Qed.
