(* Proofs about Model/SI.v: C01 (power bookkeeping invariant, exact accounting, GSNR identity) and
   C02 (quality never improves; passive elements leave it unchanged). *)
From Verif Require Import Prelude Model.SI.
From Coq Require Import QArith Qreduction Qfield Lqa Lia Permutation.
Open Scope Q_scope.

(* ------------------------------------------------------------------ small helpers *)
Lemma Qle_bool_true x y : Qle_bool x y = true <-> x <= y.
Proof. apply Qle_bool_iff. Qed.
Lemma Qle_bool_false x y : Qle_bool x y = false <-> y < x.
Proof.
  split; intros H.
  - destruct (Qlt_le_dec y x) as [Hlt|Hle]; [exact Hlt|].
    apply Qle_bool_iff in Hle. congruence.
  - destruct (Qle_bool x y) eqn:E; [|reflexivity].
    apply Qle_bool_iff in E. exfalso. apply (Qlt_irrefl y). eapply Qlt_le_trans; eauto.
Qed.
Lemma negb_Qle_bool x y : negb (Qle_bool x y) = true <-> y < x.
Proof. rewrite Bool.negb_true_iff. apply Qle_bool_false. Qed.

Lemma div_pos_nonneg x y : 0 <= x -> 0 < y -> 0 <= x / y.
Proof.
  intros Hx Hy. unfold Qdiv. apply Qmult_le_0_compat; [exact Hx|].
  apply Qlt_le_weak, Qinv_lt_0_compat, Hy.
Qed.
Lemma mul_le_l z x y : 0 <= z -> x <= y -> z * x <= z * y.
Proof. intros Hz Hxy. rewrite (Qmult_comm z x), (Qmult_comm z y). apply Qmult_le_compat_r; assumption. Qed.
Lemma div_le_1 x y : 0 < y -> x <= y -> x / y <= 1.
Proof. intros Hy Hxy. apply Qle_shift_div_r; [exact Hy|]. lra. Qed.

(* ------------------------------------------------------------------ reflection of the side conditions *)
Lemma wf1b_iff c o : wf1b c o = true <-> Wf1 c o.
Proof.
  destruct o as [k|g|x|x]; cbn [wf1b Wf1].
  - apply negb_Qle_bool.
  - apply negb_Qle_bool.
  - apply Qle_bool_true.
  - rewrite Bool.andb_true_iff, !Qle_bool_true. tauto.
Qed.
Lemma wfcb_iff ops : forall c, wfcb c ops = true <-> WfOps c ops.
Proof.
  induction ops as [|o t IH]; intros c; cbn [wfcb WfOps]; [tauto|].
  rewrite Bool.andb_true_iff, wf1b_iff, IH. tauto.
Qed.
Lemma invb_iff c : invb c = true <-> Inv c.
Proof.
  unfold invb, Inv. rewrite !Bool.andb_true_iff, negb_Qle_bool, !Qle_bool_true, Qeq_bool_iff. tauto.
Qed.

(* ------------------------------------------------------------------ C01: the invariant *)
Lemma inv_shares_le1 c : Inv c -> rs c <= 1 /\ ra c <= 1 /\ rn c <= 1.
Proof. intros (Hp & Hs & Ha & Hn & Hsum). repeat split; lra. Qed.

(* signal + ASE + NLI power = total power *)
Lemma inv_power_split c : Inv c -> sig_pow c + ase_pow c + nli_pow c == pch c.
Proof.
  intros (Hp & Hs & Ha & Hn & Hsum). unfold sig_pow, ase_pow, nli_pow.
  setoid_replace (rs c * pch c + ra c * pch c + rn c * pch c) with ((rs c + ra c + rn c) * pch c) by ring.
  rewrite Hsum. ring.
Qed.

Lemma att_inv k c : Inv c -> 0 < k -> Inv (att k c).
Proof.
  unfold Inv, att; cbn [pch rs ra rn]. intros (Hp & Hs & Ha & Hn & Hsum) Hk.
  repeat split; try assumption. nra.
Qed.
Lemma gain_inv g c : Inv c -> 0 < g -> Inv (gain g c).
Proof. exact (att_inv g c). Qed.

Lemma add_ase_inv x c : Inv c -> 0 <= x -> Inv (add_ase x c).
Proof.
  unfold Inv, add_ase; cbn [pch rs ra rn]. intros (Hp & Hs & Ha & Hn & Hsum) Hx.
  assert (Hp' : 0 < pch c + x) by lra.
  assert (Hinv : 0 < / (pch c + x)) by (apply Qinv_lt_0_compat; exact Hp').
  repeat split.
  - exact Hp'.
  - unfold Qdiv. apply Qmult_le_0_compat; [exact Hs|]. apply Qmult_le_0_compat; lra.
  - unfold Qdiv. apply Qmult_le_0_compat; [|lra]. nra.
  - unfold Qdiv. apply Qmult_le_0_compat; [exact Hn|]. apply Qmult_le_0_compat; lra.
  - setoid_replace (rs c * (pch c / (pch c + x)) + (ra c * pch c + x) / (pch c + x) + rn c * (pch c / (pch c + x)))
      with (((rs c + ra c + rn c) * pch c + x) / (pch c + x)) by (field; lra).
    rewrite Hsum. field. lra.
Qed.

Lemma add_nli_inv x c : Inv c -> 0 <= x -> x <= pch c -> Inv (add_nli x c).
Proof.
  unfold Inv, add_nli; cbn [pch rs ra rn]. intros (Hp & Hs & Ha & Hn & Hsum) Hx Hxp.
  assert (Hr0 : 0 <= x / pch c) by (apply div_pos_nonneg; assumption).
  assert (Hr1 : x / pch c <= 1) by (apply div_le_1; assumption).
  set (r := x / pch c) in *.
  repeat split.
  - exact Hp.
  - apply Qmult_le_0_compat; lra.
  - apply Qmult_le_0_compat; lra.
  - assert (0 <= rn c * (1 - r)) by (apply Qmult_le_0_compat; lra). lra.
  - setoid_replace (rs c * (1 - r) + ra c * (1 - r) + (rn c * (1 - r) + r))
      with ((rs c + ra c + rn c) * (1 - r) + r) by ring.
    rewrite Hsum. ring.
Qed.

Lemma cstep_inv o c : Inv c -> Wf1 c o -> Inv (cstep o c).
Proof.
  destruct o as [k|g|x|x]; cbn [cstep Wf1]; intros Hi Hw.
  - apply att_inv; assumption.
  - apply gain_inv; assumption.
  - apply add_ase_inv; assumption.
  - destruct Hw. apply add_nli_inv; assumption.
Qed.

(* every history *)
Lemma run_inv ops : forall c, Inv c -> WfOps c ops -> Inv (crun ops c).
Proof.
  induction ops as [|o t IH]; intros c Hi Hw; cbn [crun fold_left]; [exact Hi|].
  destruct Hw as [Hw1 Hwt]. apply IH; [apply cstep_inv; assumption|exact Hwt].
Qed.
Lemma trace_inv ops : forall c, Inv c -> WfOps c ops -> Forall Inv (ctrace ops c).
Proof.
  induction ops as [|o t IH]; intros c Hi Hw; cbn [ctrace].
  - constructor; [exact Hi|constructor].
  - destruct Hw as [Hw1 Hwt]. constructor; [exact Hi|]. apply IH; [apply cstep_inv; assumption|exact Hwt].
Qed.

Lemma crun_app l1 l2 c : crun (l1 ++ l2) c = crun l2 (crun l1 c).
Proof. unfold crun. apply fold_left_app. Qed.
Lemma wfops_app l1 : forall l2 c, WfOps c (l1 ++ l2) <-> WfOps c l1 /\ WfOps (crun l1 c) l2.
Proof.
  induction l1 as [|o t IH]; intros l2 c; cbn [app WfOps crun fold_left]; [tauto|].
  rewrite IH. unfold crun. tauto.
Qed.

(* ------------------------------------------------------------------ C01: exact accounting *)
Lemma add_ase_accounting x c : 0 < pch c -> 0 <= x ->
  pch (add_ase x c) == pch c + x /\
  sig_pow (add_ase x c) == sig_pow c /\
  nli_pow (add_ase x c) == nli_pow c /\
  ase_pow (add_ase x c) == ase_pow c + x.
Proof.
  intros Hp Hx. unfold sig_pow, nli_pow, ase_pow, add_ase; cbn [pch rs ra rn].
  assert (Hne : ~ pch c + x == 0) by lra.
  repeat split; try reflexivity; field; exact Hne.
Qed.

Lemma add_nli_accounting x c : 0 < pch c ->
  pch (add_nli x c) = pch c /\
  sig_pow (add_nli x c) == sig_pow c - rs c * x /\
  ase_pow (add_nli x c) == ase_pow c - ra c * x /\
  nli_pow (add_nli x c) == nli_pow c + (1 - rn c) * x.
Proof.
  intros Hp. unfold sig_pow, nli_pow, ase_pow, add_nli; cbn [pch rs ra rn].
  assert (Hne : ~ pch c == 0) by lra.
  repeat split; field; exact Hne.
Qed.
(* under the invariant the NLI added is exactly taken from signal and ASE: nothing is created or lost *)
Lemma add_nli_transfer x c : Inv c ->
  nli_pow (add_nli x c) - nli_pow c == (sig_pow c - sig_pow (add_nli x c)) + (ase_pow c - ase_pow (add_nli x c)).
Proof.
  intros (Hp & Hs & Ha & Hn & Hsum).
  destruct (add_nli_accounting x c Hp) as (_ & H1 & H2 & H3). rewrite H1, H2, H3.
  setoid_replace (1 - rn c) with (rs c + ra c) by lra. ring.
Qed.

Lemma att_accounting k c :
  pch (att k c) == k * pch c /\ sig_pow (att k c) == k * sig_pow c /\
  ase_pow (att k c) == k * ase_pow c /\ nli_pow (att k c) == k * nli_pow c /\
  rs (att k c) = rs c /\ ra (att k c) = ra c /\ rn (att k c) = rn c.
Proof.
  unfold sig_pow, nli_pow, ase_pow, att; cbn [pch rs ra rn].
  repeat split; ring.
Qed.
Lemma gain_accounting g c :
  pch (gain g c) == g * pch c /\ sig_pow (gain g c) == g * sig_pow c /\
  ase_pow (gain g c) == g * ase_pow c /\ nli_pow (gain g c) == g * nli_pow c /\
  rs (gain g c) = rs c /\ ra (gain g c) = ra c /\ rn (gain g c) = rn c.
Proof. exact (att_accounting g c). Qed.

(* the C01 statement for every history of one channel *)
Lemma run_power_split ops c : Inv c -> WfOps c ops ->
  let c' := crun ops c in
  sig_pow c' + ase_pow c' + nli_pow c' == pch c' /\
  (0 <= rs c' /\ rs c' <= 1) /\ (0 <= ra c' /\ ra c' <= 1) /\ (0 <= rn c' /\ rn c' <= 1).
Proof.
  intros Hi Hw c'. assert (Hi' : Inv c') by (apply run_inv; assumption).
  split; [apply inv_power_split; exact Hi'|].
  destruct (inv_shares_le1 _ Hi') as (H1 & H2 & H3). destruct Hi' as (Hp & Hs & Ha & Hn & _). tauto.
Qed.

(* ------------------------------------------------------------------ C01: the GSNR identity *)
Lemma nsr_identity c : 0 < rs c -> nsr_g c == nsr_ase c + nsr_nli c.
Proof. intros Hs. unfold nsr_g, nsr_ase, nsr_nli. field. lra. Qed.

Lemma inv_div x y : / (x / y) == y / x.
Proof. unfold Qdiv. rewrite Qinv_mult_distr, Qinv_involutive. ring. Qed.
(* 1/GSNR = 1/OSNR_ASE + 1/SNR_NLI on the figures info.py computes *)
Lemma gsnr_identity c : 0 < rs c -> / gsnr c == / osnr c + / snr_nli c.
Proof.
  intros Hs. unfold gsnr, osnr, snr_nli. rewrite !inv_div. field. lra.
Qed.

Lemma calc_snr_identity c : 0 < rs c ->
  let r := calc_snr c in
  f_gsnr r == f_osnr r + f_nli r /\ f_gsnr01 r == f_osnr01 r + f_nli r * (ref_bw / cbr c).
Proof.
  intros Hs r. unfold r, calc_snr; cbn [f_gsnr f_osnr f_nli f_gsnr01 f_osnr01].
  rewrite (nsr_identity c Hs). split; ring.
Qed.
Lemma update_snr_identity args c : 0 < rs c ->
  let r := update_snr args c in
  f_gsnr r == f_osnr r + f_nli r /\ f_gsnr01 r == f_osnr01 r + f_nli r * (ref_bw / cbr c).
Proof.
  intros Hs r. unfold r, update_snr, calc_snr, snr_sum_inv; cbn [f_gsnr f_osnr f_nli f_gsnr01 f_osnr01].
  rewrite (nsr_identity c Hs). split; ring.
Qed.
(* the 0.1 nm figures are the signal-bandwidth figures rescaled by 12.5 GHz / baud rate *)
Lemma update_snr_01nm args c : 0 < cbr c ->
  let r := update_snr args c in
  f_osnr01 r == f_osnr r * (ref_bw / cbr c) /\ f_gsnr01 r == f_gsnr r * (ref_bw / cbr c).
Proof.
  intros Hb r. unfold r, update_snr, calc_snr, snr_sum_inv, ref_bw; cbn [f_gsnr f_osnr f_nli f_gsnr01 f_osnr01].
  split; field; lra.
Qed.
(* added noise can only lower the reported figures *)
Lemma sum_some_nonneg args : Forall (fun o => match o with Some x => 0 <= x | None => True end) args ->
  0 <= sum_some args.
Proof.
  induction 1 as [|o t Ho _ IH]; cbn [sum_some]; [lra|]. destruct o; lra.
Qed.

(* ------------------------------------------------------------------ C02: one update *)
Lemma ratio_le_div s' d' s d : 0 < d' -> 0 < d -> (ratio_le (s', d') (s, d) <-> s' / d' <= s / d).
Proof.
  intros Hd' Hd. unfold ratio_le; cbn [fst snd]. split; intros H.
  - apply Qle_shift_div_l; [exact Hd|].
    setoid_replace (s' / d' * d) with ((s' * d) / d') by (field; lra).
    apply Qle_shift_div_r; [exact Hd'|]. exact H.
  - assert (H1 : s' / d' * d' <= s / d * d') by (apply Qmult_le_compat_r; lra).
    setoid_replace (s' / d' * d') with s' in H1 by (field; lra).
    assert (H2 : s' * d <= s / d * d' * d) by (apply Qmult_le_compat_r; lra).
    setoid_replace (s / d * d' * d) with (s * d') in H2 by (field; lra). exact H2.
Qed.
Lemma ratio_eq_le x' x : ratio_eq x' x -> ratio_le x' x.
Proof. unfold ratio_eq, ratio_le. intros H. rewrite H. apply Qle_refl. Qed.

Lemma att_quality_eq k c : same_shares (att k c) c.
Proof. repeat split. Qed.
Lemma gain_quality_eq g c : same_shares (gain g c) c.
Proof. repeat split. Qed.

Lemma same_shares_refl c : same_shares c c.
Proof. repeat split. Qed.
Lemma same_shares_trans c1 c2 c3 : same_shares c3 c2 -> same_shares c2 c1 -> same_shares c3 c1.
Proof. unfold same_shares. intros (A & B & C) (D & E & F). repeat split; congruence. Qed.
Lemma same_shares_quality c' c : same_shares c' c ->
  ratio_eq (q_osnr c') (q_osnr c) /\ ratio_eq (q_nli c') (q_nli c) /\ ratio_eq (q_gsnr c') (q_gsnr c).
Proof.
  intros (A & B & C). unfold ratio_eq, q_osnr, q_nli, q_gsnr; cbn [fst snd]. rewrite A, B, C.
  repeat split; ring.
Qed.

Lemma add_ase_quality x c : Inv c -> 0 <= x -> only_ase (add_ase x c) c.
Proof.
  intros (Hp & Hs & Ha & Hn & Hsum) Hx.
  unfold only_ase, ratio_eq, ratio_le, q_nli, q_osnr, q_gsnr, add_ase; cbn [fst snd pch rs ra rn].
  assert (Hp' : 0 < pch c + x) by lra.
  assert (Hne : ~ pch c + x == 0) by lra.
  assert (Hq : 0 <= rs c * (x / (pch c + x))).
  { apply Qmult_le_0_compat; [exact Hs|]. apply div_pos_nonneg; assumption. }
  repeat split.
  - field. exact Hne.
  - setoid_replace (rs c * ((ra c * pch c + x) / (pch c + x)))
      with (rs c * (pch c / (pch c + x)) * ra c + rs c * (x / (pch c + x))) by (field; exact Hne).
    lra.
  - setoid_replace (rs c * ((ra c * pch c + x) / (pch c + x) + rn c * (pch c / (pch c + x))))
      with (rs c * (pch c / (pch c + x)) * (ra c + rn c) + rs c * (x / (pch c + x))) by (field; exact Hne).
    lra.
Qed.

Lemma add_nli_quality x c : Inv c -> 0 <= x -> x <= pch c -> only_nli (add_nli x c) c.
Proof.
  intros (Hp & Hs & Ha & Hn & Hsum) Hx Hxp.
  unfold only_nli, ratio_eq, ratio_le, q_nli, q_osnr, q_gsnr, add_nli; cbn [fst snd pch rs ra rn].
  assert (Hr0 : 0 <= x / pch c) by (apply div_pos_nonneg; assumption).
  set (r := x / pch c) in *.
  assert (Hq : 0 <= rs c * r) by (apply Qmult_le_0_compat; assumption).
  repeat split.
  - ring.
  - setoid_replace (rs c * (rn c * (1 - r) + r)) with (rs c * (1 - r) * rn c + rs c * r) by ring. lra.
  - setoid_replace (rs c * (ra c * (1 - r) + (rn c * (1 - r) + r)))
      with (rs c * (1 - r) * (ra c + rn c) + rs c * r) by ring. lra.
Qed.

(* ------------------------------------------------------------------ C02: a transitive domination order *)
(* c' is dominated by c: the signal share shrank by a factor l in [0,1] and the noise shares shrank by no
   more than that.  Reflexive and transitive without any side condition (in particular when a share is 0),
   and it implies the three cross-multiplied comparisons. *)

Lemma qdom_refl c : qdom c c.
Proof. exists 1. repeat split; try lra; ring. Qed.
Lemma qdom_trans c1 c2 c3 : qdom c3 c2 -> qdom c2 c1 -> qdom c3 c1.
Proof.
  intros (l2 & H20 & H21 & Hs2 & Ha2 & Hn2) (l1 & H10 & H11 & Hs1 & Ha1 & Hn1).
  exists (l2 * l1).
  assert (0 <= l2 * l1) by (apply Qmult_le_0_compat; assumption).
  assert (l2 * l1 <= 1) by nra.
  repeat split; try assumption.
  - rewrite Hs2, Hs1. ring.
  - assert (l2 * (l1 * ra c1) <= l2 * ra c2) by (apply mul_le_l; assumption). nra.
  - assert (l2 * (l1 * rn c1) <= l2 * rn c2) by (apply mul_le_l; assumption). nra.
Qed.

Lemma qdom_quality c' c : qdom c' c -> 0 <= rs c -> quality_le c' c.
Proof.
  intros (l & Hl0 & Hl1 & Hs' & Ha' & Hn') Hs.
  unfold quality_le, ratio_le, q_osnr, q_nli, q_gsnr; cbn [fst snd]. rewrite Hs'.
  assert (Ha : rs c * (l * ra c) <= rs c * ra c') by (apply mul_le_l; assumption).
  assert (Hn : rs c * (l * rn c) <= rs c * rn c') by (apply mul_le_l; assumption).
  repeat split; nra.
Qed.

Lemma same_shares_qdom c' c : same_shares c' c -> qdom c' c.
Proof. intros (A & B & C). exists 1. rewrite A, B, C. repeat split; try lra; ring. Qed.

Lemma cstep_qdom o c : Inv c -> Wf1 c o -> qdom (cstep o c) c.
Proof.
  intros Hi Hw. destruct o as [k|g|x|x]; cbn [cstep Wf1] in *.
  - apply same_shares_qdom, att_quality_eq.
  - apply same_shares_qdom, gain_quality_eq.
  - destruct Hi as (Hp & Hs & Ha & Hn & Hsum).
    assert (Hp' : 0 < pch c + x) by lra.
    exists (pch c / (pch c + x)). unfold add_ase; cbn [rs ra rn].
    assert (Hx' : 0 <= x / (pch c + x)) by (apply div_pos_nonneg; assumption).
    repeat split.
    + apply div_pos_nonneg; lra.
    + apply div_le_1; lra.
    + ring.
    + setoid_replace ((ra c * pch c + x) / (pch c + x))
        with (pch c / (pch c + x) * ra c + x / (pch c + x)) by (field; lra). lra.
    + rewrite Qmult_comm. apply Qle_refl.
  - destruct Hw as [Hx Hxp]. destruct Hi as (Hp & Hs & Ha & Hn & Hsum).
    assert (Hr0 : 0 <= x / pch c) by (apply div_pos_nonneg; assumption).
    assert (Hr1 : x / pch c <= 1) by (apply div_le_1; assumption).
    exists (1 - x / pch c). unfold add_nli; cbn [rs ra rn].
    repeat split; try lra; try ring.
Qed.

Lemma run_qdom ops : forall c, Inv c -> WfOps c ops -> qdom (crun ops c) c.
Proof.
  induction ops as [|o t IH]; intros c Hi Hw; cbn [crun fold_left]; [apply qdom_refl|].
  destruct Hw as [Hw1 Hwt].
  eapply qdom_trans; [apply IH; [apply cstep_inv; assumption|exact Hwt]|apply cstep_qdom; assumption].
Qed.

(* quality after l1 ++ l2 is not better than after l1, whatever l1 and l2 are *)
Lemma prefix_quality l1 l2 c : Inv c -> WfOps c (l1 ++ l2) ->
  quality_le (crun (l1 ++ l2) c) (crun l1 c).
Proof.
  intros Hi Hw. apply wfops_app in Hw. destruct Hw as [Hw1 Hw2].
  assert (Hi1 : Inv (crun l1 c)) by (apply run_inv; assumption).
  rewrite crun_app. apply qdom_quality; [apply run_qdom; assumption|].
  destruct Hi1 as (_ & Hs & _). exact Hs.
Qed.

Lemma firstn_split {A} (l : list A) (i j : nat) : (i <= j)%nat ->
  firstn j l = firstn i l ++ firstn (j - i) (skipn i l).
Proof.
  revert i j. induction l as [|x t IH]; intros i j Hij.
  - rewrite !firstn_nil, skipn_nil, firstn_nil. reflexivity.
  - destruct i as [|i]; [cbn [firstn skipn app]; rewrite Nat.sub_0_r; reflexivity|].
    destruct j as [|j]; [lia|]. cbn [firstn skipn app Nat.sub]. f_equal. apply IH. lia.
Qed.
Lemma wfops_firstn ops j c : WfOps c ops -> WfOps c (firstn j ops).
Proof.
  intros Hw. rewrite <- (firstn_skipn j ops) in Hw. apply wfops_app in Hw. tauto.
Qed.

(* monotonicity along any history: the state after j updates is not better than after i <= j updates *)
Lemma path_quality_ops ops c i j : Inv c -> WfOps c ops -> (i <= j)%nat ->
  quality_le (crun (firstn j ops) c) (crun (firstn i ops) c).
Proof.
  intros Hi Hw Hij. rewrite (firstn_split ops i j Hij).
  apply prefix_quality; [exact Hi|]. rewrite <- firstn_split by exact Hij. apply wfops_firstn, Hw.
Qed.

(* the same, counted in elements of a path *)
Lemma path_ops_app p1 p2 : path_ops (p1 ++ p2) = path_ops p1 ++ path_ops p2.
Proof. unfold path_ops. rewrite map_app, concat_app. reflexivity. Qed.
Lemma path_quality pth c i j : Inv c -> WfOps c (path_ops pth) -> (i <= j)%nat ->
  quality_le (after pth j c) (after pth i c).
Proof.
  intros Hi Hw Hij. unfold after. rewrite (firstn_split pth i j Hij), path_ops_app.
  apply prefix_quality; [exact Hi|]. rewrite <- path_ops_app, <- firstn_split by exact Hij.
  rewrite <- (firstn_skipn j pth), path_ops_app in Hw. apply wfops_app in Hw. tauto.
Qed.
(* every intermediate state of a path satisfies the C01 invariant *)
Lemma path_inv pth c k : Inv c -> WfOps c (path_ops pth) -> Inv (after pth k c).
Proof.
  intros Hi Hw. unfold after. apply run_inv; [exact Hi|].
  rewrite <- (firstn_skipn k pth), path_ops_app in Hw. apply wfops_app in Hw. tauto.
Qed.

(* ------------------------------------------------------------------ C02: per element kind *)
Lemma only_ase_after_same c2 c1 c0 : same_shares c1 c0 -> only_ase c2 c1 -> only_ase c2 c0.
Proof.
  intros (A & B & C). unfold only_ase, ratio_eq, ratio_le, q_nli, q_osnr, q_gsnr; cbn [fst snd].
  rewrite A, B, C. tauto.
Qed.
Lemma only_ase_then_same c2 c1 c0 : same_shares c2 c1 -> only_ase c1 c0 -> only_ase c2 c0.
Proof.
  intros (A & B & C). unfold only_ase, ratio_eq, ratio_le, q_nli, q_osnr, q_gsnr; cbn [fst snd].
  rewrite A, B, C. tauto.
Qed.
Lemma only_nli_after_same c2 c1 c0 : same_shares c1 c0 -> only_nli c2 c1 -> only_nli c2 c0.
Proof.
  intros (A & B & C). unfold only_nli, ratio_eq, ratio_le, q_nli, q_osnr, q_gsnr; cbn [fst snd].
  rewrite A, B, C. tauto.
Qed.
Lemma only_nli_then_same c2 c1 c0 : same_shares c2 c1 -> only_nli c1 c0 -> only_nli c2 c0.
Proof.
  intros (A & B & C). unfold only_nli, ratio_eq, ratio_le, q_nli, q_osnr, q_gsnr; cbn [fst snd].
  rewrite A, B, C. tauto.
Qed.

Lemma okind_eqb_eq x y : okind_eqb x y = true -> x = y.
Proof. destruct x, y; cbn; congruence. Qed.
Lemma kinds_eqb_eq l1 : forall l2, kinds_eqb l1 l2 = true -> l1 = l2.
Proof.
  induction l1 as [|x t IH]; intros [|y u]; cbn [kinds_eqb]; try congruence.
  rewrite Bool.andb_true_iff. intros [H1 H2]. f_equal; [apply okind_eqb_eq, H1|apply IH, H2].
Qed.

Lemma all_att_same ops : forall c, forallb (okind_eqb OAtt) (map ckind_of ops) = true ->
  same_shares (crun ops c) c.
Proof.
  induction ops as [|o t IH]; intros c H; cbn [crun fold_left]; [apply same_shares_refl|].
  cbn [map forallb] in H. apply Bool.andb_true_iff in H. destruct H as [H1 H2].
  destruct o; cbn in H1; try discriminate.
  eapply same_shares_trans; [apply IH, H2|apply att_quality_eq].
Qed.

Ltac inv_kinds H :=
  apply kinds_eqb_eq in H;
  repeat match goal with
  | H : map ckind_of ?l = _ :: _ |- _ => destruct l as [|[?k|?g|?x|?x] ?t]; cbn [map ckind_of] in H; try discriminate H;
                                        injection H as H
  | H : map ckind_of ?l = [] |- _ => destruct l; [clear H|discriminate H]
  | H : _ :: _ = _ :: _ |- _ => injection H as H
  end.

Lemma edfa_claim ops c : cprog_okb KEdfa ops = true -> Inv c -> WfOps c ops -> only_ase (crun ops c) c.
Proof.
  unfold cprog_okb; cbn [prog_kinds_okb]. rewrite Bool.orb_true_iff. intros [H|H] Hi Hw; inv_kinds H.
  - cbn [crun fold_left cstep]. cbn [WfOps Wf1 cstep] in Hw. destruct Hw as (Hx & Hg & _).
    eapply only_ase_then_same; [apply gain_quality_eq|apply add_ase_quality; assumption].
  - cbn [crun fold_left cstep]. cbn [WfOps Wf1 cstep] in Hw. destruct Hw as (Hk & Hx & Hg & _).
    eapply only_ase_then_same; [apply gain_quality_eq|].
    eapply only_ase_after_same; [apply (att_quality_eq k c)|].
    apply add_ase_quality; [apply att_inv; assumption|assumption].
Qed.

Lemma fiber_claim ops c : cprog_okb KFiber ops = true -> Inv c -> WfOps c ops -> only_nli (crun ops c) c.
Proof.
  unfold cprog_okb; cbn [prog_kinds_okb]. intros H Hi Hw; inv_kinds H.
  cbn [crun fold_left cstep]. cbn [WfOps Wf1 cstep] in Hw. destruct Hw as (Hk & (Hx & Hxp) & Hk0 & Hk1 & _).
  eapply only_nli_then_same; [apply att_quality_eq|].
  eapply only_nli_then_same; [apply att_quality_eq|].
  eapply only_nli_after_same; [apply (att_quality_eq k c)|].
  apply add_nli_quality; [apply att_inv; assumption|assumption|assumption].
Qed.

Lemma multi_claim ops c : cprog_okb KMulti ops = true -> Inv c -> WfOps c ops -> only_ase (crun ops c) c.
Proof.
  unfold cprog_okb; cbn [prog_kinds_okb]. rewrite !Bool.orb_true_iff. intros [[H|H]|H] Hi Hw.
  - apply kinds_eqb_eq in H. destruct ops; [|discriminate H]. cbn [crun fold_left].
    unfold only_ase, ratio_eq, ratio_le. repeat split; try reflexivity; apply Qle_refl.
  - apply edfa_claim; [|assumption|assumption]. unfold cprog_okb; cbn [prog_kinds_okb]. rewrite H. reflexivity.
  - apply edfa_claim; [|assumption|assumption]. unfold cprog_okb; cbn [prog_kinds_okb]. rewrite H. apply Bool.orb_true_r.
Qed.

Lemma elem_quality k ops c : cprog_okb k ops = true -> Inv c -> WfOps c ops -> elem_claim k (crun ops c) c.
Proof.
  intros H Hi Hw. destruct k; cbn [elem_claim].
  - unfold cprog_okb in H; cbn [prog_kinds_okb] in H. apply kinds_eqb_eq in H.
    destruct ops; [apply same_shares_refl|discriminate H].
  - apply all_att_same, H.
  - apply all_att_same, H.
  - apply fiber_claim; assumption.
  - destruct (run_inv ops c Hi Hw) as (_ & _ & _).
    apply qdom_quality; [apply run_qdom; assumption|]. destruct Hi as (_ & Hs & _). exact Hs.
  - apply edfa_claim; assumption.
  - apply multi_claim; assumption.
Qed.

(* every element claim implies "not better" *)
Lemma only_ase_quality c' c : only_ase c' c -> quality_le c' c.
Proof. intros (A & B & C). repeat split; try assumption. apply ratio_eq_le, A. Qed.
Lemma only_nli_quality c' c : only_nli c' c -> quality_le c' c.
Proof. intros (A & B & C). repeat split; try assumption. apply ratio_eq_le, A. Qed.
Lemma elem_claim_quality k c' c : elem_claim k c' c -> quality_le c' c.
Proof.
  destruct k; cbn [elem_claim]; intros H.
  1-3: destruct (same_shares_quality _ _ H) as (A & B & C); repeat split; apply ratio_eq_le; assumption.
  - apply only_nli_quality, H.
  - exact H.
  - apply only_ase_quality, H.
  - apply only_ase_quality, H.
Qed.

(* ------------------------------------------------------------------ whole spectra *)
Lemma bind_ok {A B} (r : res A) (f : A -> res B) b : bind r f = Ok b -> exists a, r = Ok a /\ f a = Ok b.
Proof. destruct r as [a|e]; cbn [bind]; [eauto|discriminate]. Qed.

Lemma crun_cf ops : forall c, cf (crun ops c) = cf c /\ csw (crun ops c) = csw c /\ cbr (crun ops c) = cbr c.
Proof.
  induction ops as [|o t IH]; intros c; cbn [crun fold_left]; [tauto|].
  destruct (IH (cstep o c)) as (A & B & C). unfold crun in *. rewrite A, B, C. destruct o; cbn; tauto.
Qed.

Lemma map2c_inv f : forall xs sp r, Forall Inv sp -> wfvb f xs sp = true -> map2c f xs sp = Ok r -> Forall Inv r.
Proof.
  induction xs as [|x xt IH]; intros [|c ct] r Hi Hw H; cbn [map2c] in H; try discriminate.
  - injection H as <-. constructor.
  - apply bind_ok in H. destruct H as (r' & H1 & H2). injection H2 as <-.
    cbn [wfvb] in Hw. apply Bool.andb_true_iff in Hw. destruct Hw as [Hw1 Hw2].
    inversion Hi as [|? ? Hc Hct]; subst.
    constructor; [apply cstep_inv; [exact Hc|apply wf1b_iff, Hw1]|eapply IH; eauto].
Qed.
Lemma map2c_chan f : forall xs sp r, map2c f xs sp = Ok r -> forall c', In c' r ->
  exists x c, In c sp /\ c' = cstep (f x) c /\ (wfvb f xs sp = true -> Wf1 c (f x)).
Proof.
  induction xs as [|x xt IH]; intros [|c ct] r H c' Hin; cbn [map2c] in H; try discriminate.
  - injection H as <-. destruct Hin.
  - apply bind_ok in H. destruct H as (r' & H1 & H2). injection H2 as <-.
    destruct Hin as [<-|Hin].
    + exists x, c. split; [left; reflexivity|]. split; [reflexivity|].
      cbn [wfvb]. rewrite Bool.andb_true_iff. intros [Hw _]. apply wf1b_iff, Hw.
    + destruct (IH ct r' H1 c' Hin) as (x' & c0 & Hc0 & Heq & Hw).
      exists x', c0. split; [right; exact Hc0|]. split; [exact Heq|].
      cbn [wfvb]. rewrite Bool.andb_true_iff. intros [_ Hw2]. apply Hw, Hw2.
Qed.
Lemma map2c_length f : forall xs sp r, map2c f xs sp = Ok r -> length r = length sp /\ length xs = length sp.
Proof.
  induction xs as [|x xt IH]; intros [|c ct] r H; cbn [map2c] in H; try discriminate.
  - injection H as <-. split; reflexivity.
  - apply bind_ok in H. destruct H as (r' & H1 & H2). injection H2 as <-.
    destruct (IH _ _ H1). cbn [length]. split; congruence.
Qed.

(* sorting and merging keep exactly the same channel records *)
Lemma insert_f_perm c l : Permutation (insert_f c l) (c :: l).
Proof.
  induction l as [|d t IH]; cbn [insert_f]; [apply Permutation_refl|].
  destruct (Qle_bool (cf c) (cf d)); [apply Permutation_refl|].
  eapply Permutation_trans; [apply perm_skip, IH|apply perm_swap].
Qed.
Lemma sort_f_perm l : Permutation (sort_f l) l.
Proof.
  induction l as [|c t IH]; cbn [sort_f fold_right]; [constructor|].
  eapply Permutation_trans; [apply insert_f_perm|apply perm_skip, IH].
Qed.
Inductive fsorted : spectrum -> Prop :=
| fs_nil : fsorted []
| fs_cons c l : Forall (fun d => cf c <= cf d) l -> fsorted l -> fsorted (c :: l).
Lemma insert_f_sorted c l : fsorted l -> fsorted (insert_f c l).
Proof.
  induction 1 as [|d t Hd Ht IH]; cbn [insert_f].
  - constructor; constructor.
  - destruct (Qle_bool (cf c) (cf d)) eqn:E.
    + apply Qle_bool_true in E. constructor; [|constructor; assumption].
      constructor; [exact E|]. eapply Forall_impl; [|exact Hd]. cbn. intros e He. eapply Qle_trans; eauto.
    + apply Qle_bool_false in E. constructor; [|exact IH].
      eapply Permutation_Forall; [apply Permutation_sym, insert_f_perm|].
      constructor; [apply Qlt_le_weak, E|exact Hd].
Qed.
Lemma sort_f_sorted l : fsorted (sort_f l).
Proof. induction l as [|c t IH]; cbn [sort_f fold_right]; [constructor|apply insert_f_sorted, IH]. Qed.

Lemma mk_si_spec l r : mk_si l = Ok r -> r = sort_f l /\ overlapb r = false /\ exceedb r = false.
Proof.
  unfold mk_si. destruct (overlapb (sort_f l)) eqn:E1; [discriminate|].
  destruct (exceedb (sort_f l)) eqn:E2; [discriminate|]. intros H. injection H as <-. tauto.
Qed.
Lemma si_add_spec x y r : si_add x y = Ok r -> r = sort_f (x ++ y) /\ overlapb r = false.
Proof.
  unfold si_add. destruct (mk_si (x ++ y)) as [l|e] eqn:E; [|discriminate].
  intros H. injection H as <-. apply mk_si_spec in E. tauto.
Qed.
Lemma si_add_perm x y r : si_add x y = Ok r -> Permutation r (x ++ y) /\ fsorted r.
Proof. intros H. apply si_add_spec in H. destruct H as [-> _]. split; [apply sort_f_perm|apply sort_f_sorted]. Qed.
Lemma mux_perm l : forall r, mux l = Ok r -> Permutation r (concat l).
Proof.
  induction l as [|x t IH]; intros r H; cbn [mux] in H; [discriminate|].
  destruct t as [|y u].
  - injection H as <-. cbn [concat]. rewrite app_nil_r. apply Permutation_refl.
  - apply bind_ok in H. destruct H as (r' & H1 & H2). apply si_add_perm in H2. destruct H2 as [H2 _].
    eapply Permutation_trans; [exact H2|]. cbn [concat]. apply Permutation_app_head. apply IH, H1.
Qed.
Lemma demux_keep lo hi sp c : In c (demux lo hi sp) <-> In c sp /\ in_band lo hi c = true.
Proof. unfold demux. apply filter_In. Qed.
Lemma demux_idem lo hi sp : demux lo hi (demux lo hi sp) = demux lo hi sp.
Proof.
  unfold demux. induction sp as [|c t IH]; cbn [filter]; [reflexivity|].
  destruct (in_band lo hi c) eqn:E; [cbn [filter]; rewrite E, IH; reflexivity|exact IH].
Qed.
(* splitting into bands and merging again loses and creates nothing: the merged spectrum consists of
   exactly the channel records that were in some band, each once per band it lies in *)
Lemma demux_mux_keep bands sp r :
  mux (map (fun b => demux (fst b) (snd b) sp) bands) = Ok r ->
  Permutation r (concat (map (fun b => filter (in_band (fst b) (snd b)) sp) bands)) /\
  (forall c, In c r -> In c sp).
Proof.
  intros H. apply mux_perm in H. split; [exact H|].
  intros c Hc. eapply Permutation_in in Hc; [|exact H]. apply in_concat in Hc.
  destruct Hc as (l & Hl & Hcl). apply in_map_iff in Hl. destruct Hl as (b & <- & _).
  apply demux_keep in Hcl. tauto.
Qed.

Lemma sstep_inv o sp r : Forall Inv sp -> swf1b sp o = true -> sstep o sp = Ok r -> Forall Inv r.
Proof.
  intros Hi Hw H. destruct o as [ks|gs|xs|xs|lo hi|other]; cbn [sstep swf1b] in *.
  1-4: eapply map2c_inv; eauto.
  - injection H as <-. apply Forall_forall. intros c Hc. apply demux_keep in Hc.
    rewrite Forall_forall in Hi. apply Hi. tauto.
  - apply si_add_perm in H. destruct H as [H _]. eapply Permutation_Forall; [apply Permutation_sym, H|].
    apply Forall_app. split; [exact Hi|]. apply Forall_forall. intros c Hc.
    rewrite forallb_forall in Hw. apply invb_iff, Hw, Hc.
Qed.
Lemma srun_inv ops : forall sp r, Forall Inv sp -> swfb sp ops = true -> srun ops sp = Ok r -> Forall Inv r.
Proof.
  induction ops as [|o t IH]; intros sp r Hi Hw H; cbn [srun swfb] in *.
  - injection H as <-. exact Hi.
  - apply bind_ok in H. destruct H as (sp' & H1 & H2). rewrite H1 in Hw.
    apply Bool.andb_true_iff in Hw. destruct Hw as [Hw1 Hw2].
    eapply IH; [eapply sstep_inv; eauto|exact Hw2|exact H2].
Qed.

(* a run of vector updates acts on every channel as a per-channel history of the same kinds *)
Lemma sstep_vec_chan o sp r : is_vec o = true -> sstep o sp = Ok r -> forall c', In c' r ->
  exists co c, In c sp /\ c' = cstep co c /\ ckind_of co = kind_of o /\ (swf1b sp o = true -> Wf1 c co).
Proof.
  intros Hv H c' Hin. destruct o as [ks|gs|xs|xs|lo hi|other]; cbn [is_vec] in Hv; try discriminate;
    cbn [sstep swf1b kind_of] in *;
    destruct (map2c_chan _ _ _ _ H c' Hin) as (x & c & Hc & Heq & Hw);
    eexists _, c; (split; [exact Hc|]); (split; [exact Heq|]); (split; [reflexivity|exact Hw]).
Qed.
Lemma srun_chan ops : forall sp r, forallb is_vec ops = true -> srun ops sp = Ok r -> forall c', In c' r ->
  exists c cops, In c sp /\ c' = crun cops c /\ map ckind_of cops = map kind_of ops /\
                 (swfb sp ops = true -> WfOps c cops).
Proof.
  induction ops as [|o t IH]; intros sp r Hv H c' Hin; cbn [srun] in H.
  - injection H as <-. exists c', []. cbn. tauto.
  - cbn [forallb] in Hv. apply Bool.andb_true_iff in Hv. destruct Hv as [Hv1 Hv2].
    apply bind_ok in H. destruct H as (sp' & H1 & H2).
    destruct (IH sp' r Hv2 H2 c' Hin) as (c1 & cops & Hc1 & Heq & Hk & Hw).
    destruct (sstep_vec_chan o sp sp' Hv1 H1 c1 Hc1) as (co & c & Hc & Heq1 & Hk1 & Hw1).
    exists c, (co :: cops). split; [exact Hc|]. split; [cbn [crun fold_left]; subst c1; exact Heq|].
    split; [cbn [map]; congruence|].
    cbn [swfb WfOps]. rewrite H1, Bool.andb_true_iff. intros [A B]. subst c1. split; [apply Hw1, A|apply Hw, B].
Qed.

Lemma prog_kinds_vec k ops : sprog_okb k ops = true -> forallb is_vec ops = true.
Proof.
  unfold sprog_okb. intros H.
  assert (Hall : forallb (fun o => negb (okind_eqb o ODemux || okind_eqb o OAdd)) (map kind_of ops) = true).
  { destruct k; cbn [prog_kinds_okb] in H;
      try (apply kinds_eqb_eq in H; rewrite H; reflexivity).
    1-2: (induction (map kind_of ops) as [|x l IH]; [reflexivity|];
          cbn [forallb] in *; apply Bool.andb_true_iff in H; destruct H as [H1 H2];
          apply okind_eqb_eq in H1; subst x; cbn; apply IH, H2).
    1-2: (rewrite !Bool.orb_true_iff in H; repeat (destruct H as [H|H]); apply kinds_eqb_eq in H; rewrite H; reflexivity). }
  clear H. induction ops as [|o t IH]; [reflexivity|].
  cbn [map forallb] in *. apply Bool.andb_true_iff in Hall. destruct Hall as [H1 H2].
  rewrite (IH H2), Bool.andb_true_r. destruct o; cbn in *; congruence.
Qed.

Lemma multi_outs_in amps : forall sp outs, multi_outs amps sp = Ok outs -> forall o, In o outs ->
  exists lo hi ops, In (lo, hi, ops) amps /\ edfa_call lo hi ops (demux lo hi sp) = Ok o.
Proof.
  induction amps as [|[[lo hi] ops] t IH]; intros sp outs H o Hin; cbn [multi_outs] in H.
  - injection H as <-. destruct Hin.
  - destruct (is_nil (demux lo hi sp)).
    + destruct (IH sp outs H o Hin) as (lo' & hi' & ops' & A & B). exists lo', hi', ops'. split; [right; exact A|exact B].
    + apply bind_ok in H. destruct H as (o1 & H1 & H2). apply bind_ok in H2. destruct H2 as (r & H2 & H3).
      injection H3 as <-. destruct Hin as [<-|Hin].
      * exists lo, hi, ops. split; [left; reflexivity|exact H1].
      * destruct (IH sp r H2 o Hin) as (lo' & hi' & ops' & A & B). exists lo', hi', ops'. split; [right; exact A|exact B].
Qed.
Lemma multi_wfb_in amps sp lo hi ops : multi_wfb amps sp = true -> In (lo, hi, ops) amps ->
  swfb (demux lo hi (demux lo hi sp)) ops = true.
Proof.
  induction amps as [|[[lo' hi'] ops'] t IH]; intros Hw Hin; [destruct Hin|].
  cbn [multi_wfb] in Hw. apply Bool.andb_true_iff in Hw. destruct Hw as [A B].
  destruct Hin as [E|Hin]; [injection E as <- <- <-; exact A|apply IH; assumption].
Qed.

Lemma edfa_call_chan k lo hi ops sp r : sprog_okb k ops = true -> edfa_call lo hi ops sp = Ok r ->
  forall c', In c' r -> exists c cops, In c sp /\ c' = crun cops c /\ cprog_okb k cops = true /\
                                      (swfb (demux lo hi sp) ops = true -> WfOps c cops).
Proof.
  intros Hk H c' Hin. unfold edfa_call in H. destruct (is_nil (demux lo hi sp)); [discriminate|].
  destruct (srun_chan ops _ r (prog_kinds_vec _ _ Hk) H c' Hin) as (c & cops & Hc & Heq & Hkk & Hw).
  exists c, cops. apply demux_keep in Hc. split; [tauto|]. split; [exact Heq|]. split; [|exact Hw].
  unfold cprog_okb. rewrite Hkk. exact Hk.
Qed.

(* every channel leaving an element is a channel that entered it, taken through a per-channel history
   that is an instance of the element kind's program *)
Lemma erun_chan k e sp r : eprog_okb k e = true -> erun e sp = Ok r -> forall c', In c' r ->
  exists c cops, In c sp /\ c' = crun cops c /\ cprog_okb k cops = true /\ (ewfb e sp = true -> WfOps c cops).
Proof.
  intros Hk H c' Hin.
  assert (Flat : forall ops, e = PFlat ops -> sprog_okb k ops = true ->
            exists c cops, In c sp /\ c' = crun cops c /\ cprog_okb k cops = true /\ (ewfb e sp = true -> WfOps c cops)).
  { intros ops -> Hp. cbn [erun ewfb] in *.
    destruct (srun_chan ops sp r (prog_kinds_vec _ _ Hp) H c' Hin) as (c & cops & Hc & Heq & Hkk & Hw).
    exists c, cops. split; [exact Hc|]. split; [exact Heq|]. split; [|exact Hw].
    unfold cprog_okb. rewrite Hkk. exact Hp. }
  destruct k, e as [ops|lo hi ops|amps]; cbn [eprog_okb] in Hk; try discriminate; try (eapply Flat; eauto; fail).
  - (* Edfa *) cbn [erun ewfb] in *. eapply (edfa_call_chan KEdfa); eauto.
  - (* Multiband *) cbn [erun ewfb] in *.
    apply bind_ok in H. destruct H as (outs & H1 & H2). destruct (is_nil outs); [discriminate|].
    apply mux_perm in H2. eapply Permutation_in in Hin; [|exact H2]. apply in_concat in Hin.
    destruct Hin as (o & Ho & Hco).
    destruct (multi_outs_in amps sp outs H1 o Ho) as (lo & hi & ops & Hamp & Hcall).
    rewrite forallb_forall in Hk. specialize (Hk _ Hamp). cbn [snd] in Hk.
    destruct (edfa_call_chan KMulti lo hi ops _ o Hk Hcall c' Hco) as (c & cops & Hc & Heq & Hkk & Hw).
    exists c, cops. apply demux_keep in Hc. split; [tauto|]. split; [exact Heq|]. split; [exact Hkk|].
    intros Hwf. apply Hw. eapply multi_wfb_in; eauto.
Qed.

(* C01 + C02 for one element acting on a whole spectrum *)
Lemma erun_quality k e sp r : Forall Inv sp -> eprog_okb k e = true -> ewfb e sp = true -> erun e sp = Ok r ->
  forall c', In c' r -> exists c, In c sp /\ cf c' = cf c /\ Inv c' /\ elem_claim k c' c /\ qdom c' c.
Proof.
  intros Hi Hk Hw H c' Hin.
  destruct (erun_chan k e sp r Hk H c' Hin) as (c & cops & Hc & Heq & Hkk & Hwf).
  specialize (Hwf Hw). rewrite Forall_forall in Hi. specialize (Hi c Hc).
  exists c. subst c'. split; [exact Hc|]. split; [apply crun_cf|].
  split; [apply run_inv; assumption|]. split; [apply elem_quality; assumption|apply run_qdom; assumption].
Qed.
Lemma erun_inv k e sp r : Forall Inv sp -> eprog_okb k e = true -> ewfb e sp = true -> erun e sp = Ok r -> Forall Inv r.
Proof.
  intros Hi Hk Hw H. apply Forall_forall. intros c' Hin.
  destruct (erun_quality k e sp r Hi Hk Hw H c' Hin) as (c & _ & _ & Hinv & _). exact Hinv.
Qed.

(* any path of elements, on the whole spectrum *)
Lemma prun_qdom els : forall sp r, Forall Inv sp -> pwfb els sp = true -> prun els sp = Ok r ->
  Forall Inv r /\ forall c', In c' r -> exists c, In c sp /\ cf c' = cf c /\ qdom c' c.
Proof.
  induction els as [|[k e] t IH]; intros sp r Hi Hw H; cbn [prun pwfb] in *.
  - injection H as <-. split; [exact Hi|]. intros c' Hin. exists c'. split; [exact Hin|]. split; [reflexivity|apply qdom_refl].
  - apply bind_ok in H. destruct H as (sp' & H1 & H2). rewrite H1 in Hw.
    apply Bool.andb_true_iff in Hw. destruct Hw as [Hw Hw3]. apply Bool.andb_true_iff in Hw. destruct Hw as [Hw1 Hw2].
    assert (Hi' : Forall Inv sp') by (eapply erun_inv; eauto).
    destruct (IH sp' r Hi' Hw3 H2) as [Hir Hq]. split; [exact Hir|].
    intros c' Hin. destruct (Hq c' Hin) as (c1 & Hc1 & Hf1 & Hd1).
    destruct (erun_quality k e sp sp' Hi Hw1 Hw2 H1 c1 Hc1) as (c & Hc & Hf & _ & _ & Hd).
    exists c. split; [exact Hc|]. split; [congruence|]. eapply qdom_trans; eauto.
Qed.
Lemma prun_app l1 : forall l2 sp, prun (l1 ++ l2) sp = let* sp' := prun l1 sp in prun l2 sp'.
Proof.
  induction l1 as [|[k e] t IH]; intros l2 sp; cbn [app prun bind]; [reflexivity|].
  destruct (erun e sp) as [sp'|err]; cbn [bind]; [apply IH|reflexivity].
Qed.
Lemma pwfb_app l1 : forall l2 sp sp', pwfb (l1 ++ l2) sp = true -> prun l1 sp = Ok sp' ->
  pwfb l1 sp = true /\ pwfb l2 sp' = true.
Proof.
  induction l1 as [|[k e] t IH]; intros l2 sp sp' Hw H; cbn [app prun pwfb] in *.
  - injection H as <-. tauto.
  - apply bind_ok in H. destruct H as (sp1 & H1 & H2). rewrite H1 in *.
    apply Bool.andb_true_iff in Hw. destruct Hw as [Hw Hw3].
    destruct (IH l2 sp1 sp' Hw3 H2) as [A B]. rewrite Hw, A. tauto.
Qed.
(* monotonicity along any path, for the whole spectrum: whatever leaves element j was, at the output of
   any earlier element i, a channel of the same frequency whose three quality figures were not worse *)
Lemma prun_path_quality els sp i j ri rj : Forall Inv sp -> pwfb els sp = true -> (i <= j)%nat ->
  prun (firstn i els) sp = Ok ri -> prun (firstn j els) sp = Ok rj ->
  Forall Inv rj /\ forall c', In c' rj -> exists c, In c ri /\ cf c' = cf c /\ quality_le c' c.
Proof.
  intros Hi Hw Hij Hri Hrj.
  rewrite (firstn_split els i j Hij), prun_app, Hri in Hrj. cbn [bind] in Hrj.
  rewrite <- (firstn_skipn j els), (firstn_split els i j Hij), <- app_assoc in Hw.
  destruct (pwfb_app _ _ _ _ Hw Hri) as [Hw1 Hw2].
  destruct (prun_qdom _ _ _ Hi Hw1 Hri) as [Hii _].
  assert (Hw3 : pwfb (firstn (j - i) (skipn i els)) ri = true).
  { destruct (prun (firstn (j - i) (skipn i els)) ri) as [x|] eqn:E; [|discriminate].
    destruct (pwfb_app _ _ _ _ Hw2 E) as [A _]. exact A. }
  destruct (prun_qdom _ _ _ Hii Hw3 Hrj) as [Hjj Hq]. split; [exact Hjj|].
  intros c' Hin. destruct (Hq c' Hin) as (c & Hc & Hf & Hd). exists c. split; [exact Hc|]. split; [exact Hf|].
  apply qdom_quality; [exact Hd|]. rewrite Forall_forall in Hii. destruct (Hii c Hc) as (_ & Hs & _). exact Hs.
Qed.

(* ------------------------------------------------------------------ normalised execution = the model *)
(* The correspondence runs execute crun_n / srun_n (Qred after every update, to keep the numerals small).
   They compute the same rationals as crun / srun, channel by channel, and fail in the same way. *)
Lemma ceq_refl c : ceq c c.
Proof. unfold ceq. repeat split; reflexivity. Qed.
Lemma cnorm_ceq c : ceq (cnorm c) c.
Proof. unfold ceq, cnorm; cbn [cf csw cbr pch rs ra rn]. repeat split; try reflexivity; apply Qred_correct. Qed.
Lemma ceq_trans c1 c2 c3 : ceq c1 c2 -> ceq c2 c3 -> ceq c1 c3.
Proof.
  unfold ceq. intros (A1 & A2 & A3 & A4 & A5 & A6 & A7) (B1 & B2 & B3 & B4 & B5 & B6 & B7).
  repeat split; try congruence; etransitivity; eassumption.
Qed.
Lemma cstep_ceq o c c' : ceq c c' -> ceq (cstep o c) (cstep o c').
Proof.
  intros (A1 & A2 & A3 & A4 & A5 & A6 & A7).
  destruct o as [k|g|x|x]; unfold ceq; cbn [cstep att gain add_ase add_nli cf csw cbr pch rs ra rn];
    rewrite ?A4, ?A5, ?A6, ?A7; repeat split; try assumption; reflexivity.
Qed.
Lemma cstep_n_ceq o c : ceq (cstep_n o c) (cstep o c).
Proof.
  destruct o as [k|g|x|x]; cbn [cstep_n cstep]; try apply cnorm_ceq;
    unfold ceq; cbn [att gain add_nli cf csw cbr pch rs ra rn]; repeat split; try reflexivity; apply Qred_correct.
Qed.
Lemma crun_n_ceq ops : forall c c', ceq c c' -> ceq (crun_n ops c) (crun ops c').
Proof.
  induction ops as [|o t IH]; intros c c' H; cbn [crun_n crun fold_left]; [exact H|].
  apply IH. eapply ceq_trans; [apply cstep_n_ceq|apply cstep_ceq, H].
Qed.

Lemma map2c_ceq f : forall xs sp sp', Forall2 ceq sp sp' -> res_rel (map2c f xs sp) (map2c f xs sp').
Proof.
  induction xs as [|x xt IH]; intros sp sp' H; destruct H as [|c c' ct ct' Hc Hct]; cbn [map2c res_rel];
    try reflexivity; [constructor|].
  specialize (IH ct ct' Hct). destruct (map2c f xt ct), (map2c f xt ct'); cbn [bind res_rel] in *; try tauto.
  constructor; [apply cstep_ceq, Hc|exact IH].
Qed.
Lemma filter_ceq (g : chan -> bool) : (forall c c', ceq c c' -> g c = g c') ->
  forall l l', Forall2 ceq l l' -> Forall2 ceq (filter g l) (filter g l').
Proof.
  intros Hg l l' H. induction H as [|c c' t t' Hc Ht IH]; cbn [filter]; [constructor|].
  rewrite (Hg c c' Hc). destruct (g c'); [constructor; assumption|exact IH].
Qed.
Lemma in_band_ceq lo hi c c' : ceq c c' -> in_band lo hi c = in_band lo hi c'.
Proof. intros (A1 & A2 & _). unfold in_band. rewrite A1, A2. reflexivity. Qed.
Lemma insert_f_ceq c c' : ceq c c' -> forall l l', Forall2 ceq l l' -> Forall2 ceq (insert_f c l) (insert_f c' l').
Proof.
  intros Hc l l' H. induction H as [|d d' t t' Hd Ht IH]; cbn [insert_f]; [constructor; [exact Hc|constructor]|].
  destruct Hc as (A1 & Hc'). destruct Hd as (B1 & Hd'). rewrite A1, B1.
  destruct (Qle_bool (cf c') (cf d')).
  - constructor; [split; assumption|]. constructor; [split; assumption|exact Ht].
  - constructor; [split; assumption|]. apply IH.
Qed.
Lemma sort_f_ceq l l' : Forall2 ceq l l' -> Forall2 ceq (sort_f l) (sort_f l').
Proof.
  intros H. induction H as [|c c' t t' Hc Ht IH]; cbn [sort_f fold_right]; [constructor|].
  apply insert_f_ceq; assumption.
Qed.
Lemma overlapb_ceq l l' : Forall2 ceq l l' -> overlapb l = overlapb l'.
Proof.
  intros H. induction H as [|c c' t t' Hc Ht IH]; cbn [overlapb]; [reflexivity|].
  destruct Ht as [|d d' u u' Hd Hu]; [reflexivity|].
  destruct Hc as (A1 & A2 & _). destruct Hd as (B1 & B2 & Hd'). rewrite A1, A2, B1, B2. f_equal. apply IH.
Qed.
Lemma exceedb_ceq l l' : Forall2 ceq l l' -> exceedb l = exceedb l'.
Proof.
  intros H. unfold exceedb. induction H as [|c c' t t' Hc Ht IH]; cbn [existsb]; [reflexivity|].
  destruct Hc as (_ & A2 & A3 & _). rewrite A2, A3, IH. reflexivity.
Qed.
Lemma si_add_ceq x x' y y' : Forall2 ceq x x' -> Forall2 ceq y y' -> res_rel (si_add x y) (si_add x' y').
Proof.
  intros Hx Hy. assert (H : Forall2 ceq (sort_f (x ++ y)) (sort_f (x' ++ y'))) by (apply sort_f_ceq, Forall2_app; assumption).
  unfold si_add, mk_si. rewrite (overlapb_ceq _ _ H), (exceedb_ceq _ _ H).
  destruct (overlapb (sort_f (x' ++ y'))); [reflexivity|]. destruct (exceedb (sort_f (x' ++ y'))); [reflexivity|exact H].
Qed.
Lemma forall2_ceq_refl l : Forall2 ceq l l.
Proof. induction l; constructor; [apply ceq_refl|assumption]. Qed.
Lemma sstep_ceq o sp sp' : Forall2 ceq sp sp' -> res_rel (sstep o sp) (sstep o sp').
Proof.
  intros H. destruct o as [ks|gs|xs|xs|lo hi|other]; cbn [sstep].
  1-4: apply map2c_ceq, H.
  - cbn [res_rel]. apply filter_ceq; [apply in_band_ceq|exact H].
  - apply si_add_ceq; [exact H|apply forall2_ceq_refl].
Qed.
Lemma forall2_ceq_trans l1 : forall l2 l3, Forall2 ceq l1 l2 -> Forall2 ceq l2 l3 -> Forall2 ceq l1 l3.
Proof.
  induction l1 as [|c t IH]; intros l2 l3 H12 H23; inversion H12; subst; inversion H23; subst; constructor.
  - eapply ceq_trans; eauto.
  - eapply IH; eauto.
Qed.
Lemma map2c_n_ceq f : forall xs sp sp', Forall2 ceq sp sp' -> res_rel (map2c_n f xs sp) (map2c f xs sp').
Proof.
  induction xs as [|x xt IH]; intros sp sp' H; destruct H as [|c c' ct ct' Hc Hct]; cbn [map2c_n map2c res_rel];
    try reflexivity; [constructor|].
  specialize (IH ct ct' Hct). destruct (map2c_n f xt ct), (map2c f xt ct'); cbn [bind res_rel] in *; try tauto.
  constructor; [eapply ceq_trans; [apply cstep_n_ceq|apply cstep_ceq, Hc]|exact IH].
Qed.
Lemma sstep_n_ceq o sp sp' : Forall2 ceq sp sp' -> res_rel (sstep_n o sp) (sstep o sp').
Proof.
  intros H. destruct o as [ks|gs|xs|xs|lo hi|other]; cbn [sstep_n].
  1-4: cbn [sstep]; apply map2c_n_ceq, H.
  all: apply sstep_ceq, H.
Qed.
Lemma srun_n_ceq ops : forall sp sp', Forall2 ceq sp sp' -> res_rel (srun_n ops sp) (srun ops sp').
Proof.
  induction ops as [|o t IH]; intros sp sp' H; cbn [srun_n srun]; [exact H|].
  pose proof (sstep_n_ceq o sp sp' H) as Hs.
  destruct (sstep_n o sp) as [r|e], (sstep o sp') as [r'|e']; cbn [bind res_rel] in *; try tauto.
  apply IH. exact Hs.
Qed.
Lemma srun_n_correct ops sp : res_rel (srun_n ops sp) (srun ops sp).
Proof. apply srun_n_ceq, forall2_ceq_refl. Qed.

Lemma prun_inv els sp r : Forall Inv sp -> pwfb els sp = true -> prun els sp = Ok r -> Forall Inv r.
Proof. intros Hi Hw H. destruct (prun_qdom els sp r Hi Hw H) as [A _]. exact A. Qed.
(* the whole-spectrum statement of C01 along any path *)
Lemma prun_power_split els sp r : Forall Inv sp -> pwfb els sp = true -> prun els sp = Ok r ->
  Forall (fun c => sig_pow c + ase_pow c + nli_pow c == pch c /\
                   (0 <= rs c /\ rs c <= 1) /\ (0 <= ra c /\ ra c <= 1) /\ (0 <= rn c /\ rn c <= 1) /\
                   (0 < rs c -> / gsnr c == / osnr c + / snr_nli c)) r.
Proof.
  intros Hi Hw H. pose proof (prun_inv els sp r Hi Hw H) as Hr.
  eapply Forall_impl; [|exact Hr]. intros c Hc.
  split; [apply inv_power_split, Hc|].
  destruct (inv_shares_le1 c Hc) as (A & B & C). destruct Hc as (_ & Hs & Ha & Hn & _).
  repeat split; try assumption. apply gsnr_identity.
Qed.
