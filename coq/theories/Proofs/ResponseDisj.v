(* C19 — requests_aggregation and the synchronisation (disjunction) groups:
   same_disj decides "the two requests sit in groups of the same shape"; one absorption renames the absorbed request
   to the joined id in every group that named it, removes the groups that named the absorbing request under its old id
   (their constraints live on in the renamed groups of the absorbed twin), invents no group; a request whose groups
   have another shape is never absorbed. *)
From Verif Require Import Prelude Model.Response Proofs.Response Proofs.ResponseAgg.
From Coq Require Import QArith Lia ZifyBool Permutation.
Open Scope Z_scope.

(* ------------------------------------------------------------------ sets of ids as lists *)
Definition set_equiv (a b : list string) : Prop := forall x, In x a <-> In x b.

Lemma set_equiv_refl : forall a, set_equiv a a.
Proof. intros a x. reflexivity. Qed.
Lemma set_equiv_sym : forall a b, set_equiv a b -> set_equiv b a.
Proof. intros a b H x. symmetry. apply H. Qed.
Lemma set_equiv_trans : forall a b c, set_equiv a b -> set_equiv b c -> set_equiv a c.
Proof. intros a b c H1 H2 x. rewrite (H1 x). apply H2. Qed.

Lemma mem_s_in : forall x l, mem_s x l = true <-> In x l.
Proof.
  intros x l. unfold mem_s. rewrite existsb_exists. split.
  - intros (y & Hy & E). apply String.eqb_eq in E. subst. exact Hy.
  - intros H. exists x. split; [exact H|apply String.eqb_refl].
Qed.
Lemma mem_s_false : forall x l, mem_s x l = false <-> ~ In x l.
Proof.
  intros x l. split.
  - intros H Hin. apply mem_s_in in Hin. congruence.
  - intros H. destruct (mem_s x l) eqn:E; [|reflexivity]. apply mem_s_in in E. contradiction.
Qed.

Lemma subset_s_spec : forall a b, subset_s a b = true <-> incl a b.
Proof.
  intros a b. unfold subset_s. rewrite forallb_forall. split.
  - intros H x Hx. apply mem_s_in. apply H. exact Hx.
  - intros H x Hx. apply mem_s_in. apply H. exact Hx.
Qed.
Lemma set_eq_s_spec : forall a b, set_eq_s a b = true <-> set_equiv a b.
Proof.
  intros a b. unfold set_eq_s. rewrite andb_true_iff, !subset_s_spec. split.
  - intros [H1 H2] x. split; [apply H1|apply H2].
  - intros H. split; intros x Hx; apply H; exact Hx.
Qed.

(* set(group) - {id} *)
Lemma others_spec : forall id d x, In x (others id d) <-> In x d /\ x <> id.
Proof.
  intros id d x. unfold others. rewrite filter_In. split.
  - intros [H1 H2]. split; [exact H1|]. intros ->. rewrite String.eqb_refl in H2. discriminate.
  - intros [H1 H2]. split; [exact H1|]. destruct (String.eqb id x) eqn:E; [|reflexivity].
    apply String.eqb_eq in E. congruence.
Qed.

(* ------------------------------------------------------------------ same_sets = equality of multisets of sets *)
Definition SameSets (a b : list (list string)) : Prop :=
  exists b', Permutation b b' /\ Forall2 set_equiv a b'.

Lemma remove_set_some : forall s l l', remove_set s l = Some l' ->
  exists x, set_equiv s x /\ Permutation l (x :: l').
Proof.
  intros s l. induction l as [|y t IH]; intros l' H; cbn [remove_set] in H; [discriminate|].
  destruct (set_eq_s s y) eqn:E.
  - injection H as <-. exists y. split; [apply set_eq_s_spec; exact E|reflexivity].
  - destruct (remove_set s t) as [r|]; [|discriminate]. injection H as <-.
    destruct (IH r eq_refl) as (x & Sx & P). exists x. split; [exact Sx|].
    rewrite P. apply perm_swap.
Qed.

Lemma remove_set_none : forall s l, remove_set s l = None -> forall x, In x l -> ~ set_equiv s x.
Proof.
  intros s l. induction l as [|y t IH]; intros H x Hx; [destruct Hx|]. cbn [remove_set] in H.
  destruct (set_eq_s s y) eqn:E; [discriminate|].
  destruct (remove_set s t) as [r|] eqn:R; [discriminate|].
  destruct Hx as [<-|Hx].
  - intros Q. apply set_eq_s_spec in Q. congruence.
  - apply IH; [reflexivity|exact Hx].
Qed.

Lemma Forall2_app_inv_r' : forall A B (R : A -> B -> Prop) l p q,
  Forall2 R l (p ++ q) -> exists lp lq, l = lp ++ lq /\ Forall2 R lp p /\ Forall2 R lq q.
Proof.
  intros A B R l p. revert l. induction p as [|y p IH]; intros l q H.
  - exists [], l. repeat split; [constructor|exact H].
  - cbn [app] in H. inversion H as [|x ? lt ? Rx Ft]; subst.
    destruct (IH lt q Ft) as (lp & lq & -> & F1 & F2).
    exists (x :: lp), lq. repeat split; [constructor; assumption|exact F2].
Qed.

Lemma SameSets_remove : forall s t b b2, SameSets (s :: t) b -> remove_set s b = Some b2 -> SameSets t b2.
Proof.
  intros s t b b2 (b' & P & F) R. inversion F as [|? x ? b1 Sx Ft]; subst.
  destruct (remove_set_some _ _ _ R) as (y & Sy & Py).
  assert (PP : Permutation (x :: b1) (y :: b2)) by (rewrite <- P; exact Py).
  assert (Hy : In y (x :: b1)) by (eapply Permutation_in; [symmetry; exact PP|left; reflexivity]).
  destruct Hy as [->|Hy].
  - exists b1. split; [symmetry; eapply Permutation_cons_inv; exact PP|exact Ft].
  - apply in_split in Hy as (p & q & ->).
    destruct (Forall2_app_inv_r' _ _ _ _ _ _ Ft) as (tp & tq0 & -> & Fp & Fq0).
    inversion Fq0 as [|ty ? tq ? Sty Fq]; subst.
    exists (p ++ x :: q). split.
    + assert (P2 : Permutation (y :: x :: p ++ q) (y :: b2)).
      { rewrite <- PP. rewrite perm_swap. apply perm_skip. apply Permutation_middle. }
      apply Permutation_cons_inv in P2. rewrite <- P2. apply Permutation_middle.
    + apply Forall2_app; [exact Fp|]. constructor; [|exact Fq].
      eapply set_equiv_trans; [exact Sty|]. eapply set_equiv_trans; [apply set_equiv_sym; exact Sy|exact Sx].
Qed.

Theorem same_sets_spec : forall a b, same_sets a b = true <-> SameSets a b.
Proof.
  induction a as [|s t IH]; intros b; cbn [same_sets].
  - split.
    + destruct b; [|discriminate]. intros _. exists []. split; constructor.
    + intros (b' & P & F). inversion F; subst. apply Permutation_sym, Permutation_nil in P. subst. reflexivity.
  - split.
    + destruct (remove_set s b) as [b2|] eqn:R; [|discriminate]. intros H. apply IH in H as (b2' & P2 & F2).
      destruct (remove_set_some _ _ _ R) as (x & Sx & Px).
      exists (x :: b2'). split; [rewrite Px; apply perm_skip; exact P2|constructor; assumption].
    + intros H. destruct (remove_set s b) as [b2|] eqn:R.
      * apply IH. eapply SameSets_remove; eassumption.
      * exfalso. destruct H as (b' & P & F). inversion F as [|? x ? b1 Sx Ft]; subst.
        apply (remove_set_none _ _ R x); [eapply Permutation_in; [symmetry; exact P|left; reflexivity]|exact Sx].
Qed.

(* the groups naming a request, and its partners group by group *)
Definition groups_of (id : string) (disj : disjs) : disjs := filter (mem_s id) disj.
Definition partners (id : string) (disj : disjs) : list (list string) := map (others id) (groups_of id disj).

(* "same shape": neither request is in any group, or both are and their partner sets agree group by group
   (as multisets of sets — what sorted(sorted(set - {id})) == sorted(...) compares) *)
Definition SameShape (id1 id2 : string) (disj : disjs) : Prop :=
  (groups_of id1 disj = [] /\ groups_of id2 disj = []) \/
  (groups_of id1 disj <> [] /\ groups_of id2 disj <> [] /\ SameSets (partners id1 disj) (partners id2 disj)).

Theorem same_disj_spec : forall id1 id2 disj, same_disj id1 id2 disj = true <-> SameShape id1 id2 disj.
Proof.
  intros id1 id2 disj. unfold same_disj, SameShape, partners, groups_of.
  destruct (filter (mem_s id1) disj) as [|g1 t1]; destruct (filter (mem_s id2) disj) as [|g2 t2].
  - split; [intros _; left; split; reflexivity|reflexivity].
  - split; [discriminate|]. intros [[_ H]|[H _]]; [discriminate H|contradiction H; reflexivity].
  - split; [discriminate|]. intros [[H _]|[_ [H _]]]; [discriminate H|contradiction H; reflexivity].
  - rewrite same_sets_spec. split.
    + intros H. right. repeat split; try discriminate. exact H.
    + intros [[H _]|[_ [_ H]]]; [discriminate H|exact H].
Qed.

(* ------------------------------------------------------------------ a different shape is never absorbed *)
Theorem absorbed_same_shape : forall req disj this_r, can_absorb req disj this_r = true ->
  a_id req <> a_id this_r /\ key_eqb (a_key req) (a_key this_r) = true /\ a_mode_set this_r = true /\
  SameShape (a_id req) (a_id this_r) disj.
Proof.
  intros req disj this_r H. unfold can_absorb, compare_reqs in H.
  apply andb_prop in H as [H MS]. apply andb_prop in H as [NE H]. apply andb_prop in H as [KE SD].
  split; [|split; [exact KE|split; [exact MS|apply same_disj_spec; exact SD]]].
  intros E. rewrite E, String.eqb_refl in NE. discriminate.
Qed.

(* one step of requests_aggregation either changes nothing or absorbs req (the request with tag t) into the first
   request that can absorb it *)
Definition rename (old new : string) (d : list string) : list string :=
  if mem_s old d then remove_first old d ++ [new] else d.

Lemma update_disj_ids_map : forall old new disj, update_disj_ids old new disj = map (rename old new) disj.
Proof. reflexivity. Qed.

Definition groups_after (a b n : string) (disj : disjs) : disjs :=
  drop_containing b (map (rename a n) disj).

Lemma agg_step_cases : forall local disj t local' disj', agg_step (local, disj) t = (local', disj') ->
  (local' = local /\ disj' = disj) \/
  exists req this_r,
    by_tag local t = Some req /\ In this_r local /\ can_absorb req disj this_r = true /\
    disj' = groups_after (a_id req) (a_id this_r) (a_id (merge this_r req)) disj.
Proof.
  intros local disj t local' disj' H. unfold agg_step in H. fold (by_tag local t) in H.
  destruct (by_tag local t) as [req|] eqn:B; [|left; injection H as <- <-; auto].
  destruct (find (can_absorb req disj) local) as [this_r|] eqn:F; [|left; injection H as <- <-; auto].
  right. injection H as _ <-. apply find_some in F as [I C]. exists req, this_r. auto.
Qed.

Theorem step_same_shape : forall local disj t local' disj', agg_step (local, disj) t = (local', disj') ->
  disj' = disj \/
  exists req this_r, by_tag local t = Some req /\ In this_r local /\
    SameShape (a_id req) (a_id this_r) disj /\
    disj' = groups_after (a_id req) (a_id this_r) (a_id (merge this_r req)) disj.
Proof.
  intros local disj t local' disj' H. destruct (agg_step_cases _ _ _ _ _ H) as [[_ ->]|(req & this_r & B & I & C & ->)].
  - left. reflexivity.
  - right. exists req, this_r. repeat split; try assumption. apply (absorbed_same_shape _ _ _ C).
Qed.

(* ------------------------------------------------------------------ what happens to the groups *)
Lemma in_remove_first : forall x y l, In x (remove_first y l) -> In x l.
Proof.
  intros x y l. induction l as [|z t IH]; cbn [remove_first]; [auto|].
  destruct (String.eqb y z); [intros H; right; exact H|]. intros [H|H]; [left; exact H|right; apply IH; exact H].
Qed.
Lemma in_remove_first_neq : forall x y l, x <> y -> In x l -> In x (remove_first y l).
Proof.
  intros x y l N. induction l as [|z t IH]; cbn [remove_first]; [auto|].
  destruct (String.eqb y z) eqn:E.
  - apply String.eqb_eq in E. subst z. intros [H|H]; [congruence|exact H].
  - intros [H|H]; [left; exact H|right; apply IH; exact H].
Qed.
Lemma remove_first_nodup : forall y l, NoDup l -> ~ In y (remove_first y l) /\ NoDup (remove_first y l).
Proof.
  intros y l. induction l as [|z t IH]; intros ND; cbn [remove_first]; [split; [intros []|constructor]|].
  inversion ND as [|? ? Hn ND']; subst. destruct (String.eqb y z) eqn:E.
  - apply String.eqb_eq in E. subst z. split; assumption.
  - destruct (IH ND') as [I1 I2]. split.
    + intros [H|H]; [subst; rewrite String.eqb_refl in E; discriminate|contradiction].
    + constructor; [|exact I2]. intros H. apply Hn. eapply in_remove_first. exact H.
Qed.

(* members of a renamed group *)
Lemma rename_in : forall a n d x, In x (rename a n d) -> (x = n /\ In a d) \/ In x d.
Proof.
  intros a n d x. unfold rename. destruct (mem_s a d) eqn:M; [|auto].
  intros H. apply in_app_or in H as [H|[<-|[]]].
  - right. eapply in_remove_first. exact H.
  - left. split; [reflexivity|apply mem_s_in; exact M].
Qed.
Lemma rename_keeps : forall a n d x, x <> a -> In x d -> In x (rename a n d).
Proof.
  intros a n d x N H. unfold rename. destruct (mem_s a d); [|exact H].
  apply in_or_app. left. apply in_remove_first_neq; assumption.
Qed.
Lemma rename_names_new : forall a n d, In a d -> In n (rename a n d).
Proof.
  intros a n d H. unfold rename. rewrite (proj2 (mem_s_in a d) H). apply in_or_app. right. left. reflexivity.
Qed.
Lemma rename_untouched : forall a n d, ~ In a d -> rename a n d = d.
Proof. intros a n d H. unfold rename. rewrite (proj2 (mem_s_false a d) H). reflexivity. Qed.
Lemma rename_drops_old : forall a n d, NoDup d -> n <> a -> ~ In a (rename a n d).
Proof.
  intros a n d ND N. unfold rename. destruct (mem_s a d) eqn:M.
  - intros H. apply in_app_or in H as [H|[H|[]]]; [|congruence].
    apply (proj1 (remove_first_nodup a d ND)). exact H.
  - apply mem_s_false. exact M.
Qed.

Lemma filter_len : forall A (f : A -> bool) l, (length (filter f l) <= length l)%nat.
Proof. induction l as [|x t IH]; cbn [filter length]; [lia|]. destruct (f x); cbn [length]; lia. Qed.

(* after absorbing the request named a into the request named b under the joined name n *)
Theorem groups_after_spec : forall a b n disj,
  let G' := groups_after a b n disj in
  (* the groups that named the absorbing request under its old id are gone *)
  Forall (fun d' => ~ In b d') G' /\
  (* no group is invented: every remaining group is an old group, renamed; the order is kept *)
  G' = filter (fun d' => negb (mem_s b d')) (map (rename a n) disj) /\
  (forall d', In d' G' -> exists d, In d disj /\ d' = rename a n d) /\
  (length G' <= length disj)%nat /\
  (* every group that named the absorbed request names the joined request instead, and survives unless it also
     named the absorbing one; the groups that did not name it are untouched *)
  (forall d, In d disj -> In a d ->
     In n (rename a n d) /\ (NoDup d -> n <> a -> ~ In a (rename a n d)) /\
     (~ In b (rename a n d) -> In (rename a n d) G')) /\
  (forall d, In d disj -> ~ In a d -> ~ In b d -> In d G').
Proof.
  intros a b n disj G'. unfold G', groups_after, drop_containing.
  split; [|split; [reflexivity|split; [|split; [|split]]]].
  - apply Forall_forall. intros d' H. apply filter_In in H as [_ H]. apply mem_s_false.
    destruct (mem_s b d'); [discriminate|reflexivity].
  - intros d' H. apply filter_In in H as [H _]. apply in_map_iff in H as (d & <- & Hd). eauto.
  - eapply Nat.le_trans; [apply filter_len|]. rewrite map_length. apply Nat.le_refl.
  - intros d Hd Ha. split; [apply rename_names_new; exact Ha|]. split; [intros ND N; apply rename_drops_old; assumption|].
    intros Hb. apply filter_In. split; [apply in_map; exact Hd|].
    rewrite (proj2 (mem_s_false _ _) Hb). reflexivity.
  - intros d Hd Ha Hb. apply filter_In. split.
    + apply in_map_iff. exists d. split; [apply rename_untouched; exact Ha|exact Hd].
    + rewrite (proj2 (mem_s_false _ _) Hb). reflexivity.
Qed.

(* ------------------------------------------------------------------ the removed groups' constraints live on *)
Lemma Forall2_in_r : forall A B (R : A -> B -> Prop) l1 l2 y, Forall2 R l1 l2 -> In y l2 -> exists x, In x l1 /\ R x y.
Proof.
  intros A B R l1 l2 y F. induction F as [|x y' l1 l2 Rxy F IH]; intros H; [destruct H|].
  destruct H as [<-|H]; [exists x; split; [left; reflexivity|exact Rxy]|].
  destruct (IH H) as (x' & I & Rx). exists x'. split; [right; exact I|exact Rx].
Qed.

Lemma append_length : forall a b : string, String.length (a ++ b) = (String.length a + String.length b)%nat.
Proof. induction a as [|c a IH]; intros b; cbn; [reflexivity|]. rewrite IH. reflexivity. Qed.

Lemma joined_id_new : forall this_r req, a_id (merge this_r req) <> a_id this_r /\ a_id (merge this_r req) <> a_id req.
Proof.
  intros this_r req. cbn [merge a_id]. split; intros E; apply (f_equal String.length) in E;
    rewrite !append_length in E; cbn in E; lia.
Qed.

(* when req (named a) is absorbed by this_r (named b): every group g that named b — and is therefore removed — has a
   twin group g1 that named a with the same partners; g1 does not name b, so its renamed version survives and names
   the joined request n together with exactly the partners of g *)
Theorem absorbed_constraints_live_on : forall req disj this_r,
  can_absorb req disj this_r = true ->
  let a := a_id req in let b := a_id this_r in let n := a_id (merge this_r req) in
  forall g, In g disj -> In b g ->
  exists g1, In g1 disj /\ In a g1 /\ ~ In b g1 /\
    set_equiv (others a g1) (others b g) /\
    In (rename a n g1) (groups_after a b n disj) /\
    (forall x, x <> a -> (In x (rename a n g1) <-> x = n \/ (In x g /\ x <> b))).
Proof.
  intros req disj this_r C a b n g Hg Hb.
  destruct (absorbed_same_shape _ _ _ C) as (NE & _ & _ & SS). fold a b in NE, SS.
  assert (Gb : In g (groups_of b disj)) by (apply filter_In; split; [exact Hg|apply mem_s_in; exact Hb]).
  destruct SS as [[_ E]|(_ & _ & (b' & P & F))]; [rewrite E in Gb; destruct Gb|].
  assert (Hin : In (others b g) b').
  { eapply Permutation_in; [exact P|]. unfold partners. apply in_map. exact Gb. }
  destruct (Forall2_in_r _ _ _ _ _ _ F Hin) as (s & Hs & Se).
  unfold partners in Hs. apply in_map_iff in Hs as (g1 & <- & Hg1).
  apply filter_In in Hg1 as [Hg1 Ha]. apply mem_s_in in Ha.
  assert (Nb : ~ In b g1).
  { intros Hb1. assert (In b (others a g1)) by (apply others_spec; split; [exact Hb1|congruence]).
    apply Se in H. apply others_spec in H as [_ H]. congruence. }
  destruct (joined_id_new this_r req) as [Nn1 Nn2]. fold n b a in Nn1, Nn2.
  assert (Nbr : ~ In b (rename a n g1)).
  { intros H. apply rename_in in H as [[H _]|H]; [congruence|contradiction]. }
  exists g1. split; [exact Hg1|]. split; [exact Ha|]. split; [exact Nb|]. split; [exact Se|]. split.
  - destruct (groups_after_spec a b n disj) as (_ & _ & _ & _ & K & _).
    destruct (K g1 Hg1 Ha) as (_ & _ & K3). apply K3. exact Nbr.
  - intros x Nx. split.
    + intros H. apply rename_in in H as [[-> _]|H]; [left; reflexivity|].
      right. apply others_spec. apply Se. apply others_spec. split; assumption.
    + intros [->|[H1 H2]]; [apply rename_names_new; exact Ha|].
      apply rename_keeps; [exact Nx|].
      assert (In x (others b g)) by (apply others_spec; split; assumption).
      apply Se in H. apply others_spec in H as [H _]. exact H.
Qed.

(* ------------------------------------------------------------------ the whole run invents no group *)
(* d' is d after some renamings *)
Inductive derived (d : list string) : list string -> Prop :=
| der_refl : derived d d
| der_step : forall a n d', derived d d' -> derived d (rename a n d').

Lemma fold_groups : forall tags local disj local' disj',
  fold_left agg_step tags (local, disj) = (local', disj') ->
  (length disj' <= length disj)%nat /\ forall d', In d' disj' -> exists d, In d disj /\ derived d d'.
Proof.
  induction tags as [|t ts IH]; intros local disj local' disj' H; cbn [fold_left] in H.
  - injection H as _ <-. split; [apply Nat.le_refl|]. intros d' Hd. exists d'. split; [exact Hd|constructor].
  - destruct (agg_step (local, disj) t) as [l1 d1] eqn:S. destruct (IH _ _ _ _ H) as [L1 D1].
    destruct (agg_step_cases _ _ _ _ _ S) as [[_ ->]|(req & this_r & _ & _ & _ & ->)]; [split; assumption|].
    destruct (groups_after_spec (a_id req) (a_id this_r) (a_id (merge this_r req)) disj) as (_ & _ & Inv & Len & _).
    split; [lia|]. intros d' Hd'. destruct (D1 d' Hd') as (d1 & Hd1 & Der).
    destruct (Inv d1 Hd1) as (d0 & Hd0 & ->). exists d0. split; [exact Hd0|].
    clear - Der. induction Der; [apply der_step; constructor|apply der_step; exact IHDer].
Qed.

Theorem aggregation_groups : forall reqs disj out disj',
  requests_aggregation reqs disj = (out, disj') ->
  (length disj' <= length disj)%nat /\ forall d', In d' disj' -> exists d, In d disj /\ derived d d'.
Proof. intros reqs disj out disj' H. unfold requests_aggregation in H. eapply fold_groups. exact H. Qed.

(* a renaming only ever replaces an id by another one: a derived group is not longer than its origin and keeps every
   id that was not renamed *)
Lemma remove_first_length : forall y l, In y l -> S (length (remove_first y l)) = length l.
Proof.
  intros y l. induction l as [|z t IH]; intros H; [destruct H|]. cbn [remove_first].
  destruct (String.eqb y z) eqn:E; [reflexivity|]. cbn [length]. f_equal. apply IH.
  destruct H as [->|H]; [rewrite String.eqb_refl in E; discriminate|exact H].
Qed.
Theorem derived_length : forall d d', derived d d' -> length d' = length d.
Proof.
  intros d d' H. induction H as [|a n d' Der IH]; [reflexivity|]. rewrite <- IH. unfold rename.
  destruct (mem_s a d') eqn:M; [|reflexivity]. apply mem_s_in in M.
  rewrite app_length. cbn [length]. rewrite <- (remove_first_length a d' M). lia.
Qed.
