(* C14 proofs, part 3: order_slots / restore_order, aggregation over the OMS of a path, commit. *)
From Coq Require Import Lia ZifyBool Permutation Sorted.
From Verif Require Import Prelude Model.Spectrum Proofs.SpectrumBase Proofs.Spectrum Proofs.Spectrum2.
Open Scope Z_scope.
Local Arguments Z.mul : simpl never.
Local Arguments Z.add : simpl never.
Local Arguments Z.sub : simpl never.
Local Arguments Z.opp : simpl never.
Local Arguments Z.div : simpl never.
Local Arguments Z.max : simpl never.
Local Arguments Z.min : simpl never.
Local Arguments Z.of_nat : simpl never.
Local Arguments Z.to_nat : simpl never.

(* ------------------------------------------------------------------ insertion sort is a permutation *)
Lemma insert_by_perm {A} (le : A -> A -> bool) x l : Permutation (insert_by le x l) (x :: l).
Proof.
  induction l as [|y t IH]; cbn [insert_by]; [reflexivity|].
  destruct (le y x); [|reflexivity].
  rewrite IH. apply perm_swap.
Qed.

Lemma sort_by_perm_acc {A} (le : A -> A -> bool) l :
  forall acc, Permutation (fold_left (fun acc x => insert_by le x acc) l acc) (acc ++ l).
Proof.
  induction l as [|x t IH]; intros acc; cbn [fold_left].
  - rewrite app_nil_r. reflexivity.
  - rewrite IH. rewrite insert_by_perm. apply Permutation_middle.
Qed.

Lemma sort_by_perm {A} (le : A -> A -> bool) l : Permutation (sort_by le l) l.
Proof. unfold sort_by. apply (sort_by_perm_acc le l []). Qed.

(* ------------------------------------------------------------------ order_slots puts the undefined M last *)
Definition m_none (s : slot_req) : Prop := snd s = None.

Fixpoint nones_last (l : list slot_req) : Prop :=
  match l with
  | [] => True
  | s :: t => (m_none s -> Forall m_none t) /\ nones_last t
  end.

Definition ole (a b : Z * slot_req) : bool := key_le (skey (snd a)) (skey (snd b)).

Lemma ole_none_some a b : m_none (snd a) -> ole a b = true -> m_none (snd b).
Proof.
  unfold m_none, ole, key_le, skey. destruct a as [i [an am]], b as [j [bn bm]]. cbn [fst snd].
  intros ->. destruct bm as [m|]; [|reflexivity]. cbn. discriminate.
Qed.

Lemma ole_some_none a b : ~ m_none (snd a) -> m_none (snd b) -> ole a b = true.
Proof.
  unfold m_none, ole, key_le, skey. destruct a as [i [an am]], b as [j [bn bm]]. cbn [fst snd].
  intros Ha ->. destruct am as [m|]; [reflexivity|]. exfalso. apply Ha. reflexivity.
Qed.

Lemma insert_forall {A} (P : A -> Prop) le x l : P x -> Forall P l -> Forall P (insert_by le x l).
Proof.
  intros Hx Hl. eapply Permutation_Forall; [apply Permutation_sym, insert_by_perm|]. constructor; assumption.
Qed.

Lemma insert_nones_last x l :
  nones_last (map snd l) -> nones_last (map snd (insert_by ole x l)).
Proof.
  induction l as [|y t IH]; intros H; cbn [insert_by map nones_last].
  - split; [intros _; constructor|exact I].
  - cbn [map nones_last] in H. destruct H as (Hy & Ht). destruct (ole y x) eqn:E.
    + cbn [map nones_last]. split; [|apply IH; exact Ht].
      intros Hn. specialize (Hy Hn).
      assert (Hx : m_none (snd x)) by (eapply ole_none_some; eauto).
      rewrite Forall_map. apply insert_forall; [exact Hx|]. rewrite <- Forall_map. exact Hy.
    + cbn [map nones_last]. split; [|split; assumption].
      intros Hx.
      assert (Hyn : m_none (snd y)).
      { destruct (snd (snd y)) as [m|] eqn:Em; [|exact Em]. exfalso.
        assert (ole y x = true) by (apply ole_some_none; [unfold m_none; congruence|exact Hx]). congruence. }
      constructor; [exact Hyn|apply Hy; exact Hyn].
Qed.

Lemma sort_nones_last l : nones_last (map snd (sort_by ole l)).
Proof.
  unfold sort_by. assert (G : forall acc, nones_last (map snd acc) ->
                              nones_last (map snd (fold_left (fun acc x => insert_by ole x acc) l acc))).
  { induction l as [|x t IH]; intros acc H; cbn [fold_left]; [exact H|]. apply IH, insert_nones_last, H. }
  apply G. exact I.
Qed.

Lemma combine_map_snd {A B} : forall (a : list A) (b : list B), length a = length b -> map snd (combine a b) = b.
Proof.
  induction a as [|x t IH]; intros [|y u] H; try discriminate; [reflexivity|].
  cbn [combine map snd]. f_equal. apply IH. injection H as H. exact H.
Qed.

Lemma combine_map_fst {A B} : forall (a : list A) (b : list B), length a = length b -> map fst (combine a b) = a.
Proof.
  induction a as [|x t IH]; intros [|y u] H; try discriminate; [reflexivity|].
  cbn [combine map fst]. f_equal. apply IH. injection H as H. exact H.
Qed.

Lemma enumerate_snd {A} (l : list A) : map snd (enumerate l) = l.
Proof.
  unfold enumerate. apply combine_map_snd. rewrite zrange_length. lia.
Qed.

Lemma order_slots_perm l : Permutation (map snd (order_slots l)) l.
Proof.
  unfold order_slots. rewrite <- (enumerate_snd l) at 2. apply Permutation_map. apply sort_by_perm.
Qed.

Lemma order_slots_nones_last l : nones_last (map snd (order_slots l)).
Proof. unfold order_slots. apply (sort_nones_last (enumerate l)). Qed.

Lemma nones_last_suffix l : nones_last l -> forall sel rest, processed l sel rest ->
  (rest = [] \/ exists s t, rest = s :: t /\ snd s = None) -> Forall m_none rest.
Proof.
  intros H sel rest Hp. induction Hp as [rest|s l n m sel rest Hs Hp IH].
  - intros [->|(s & t & -> & Hs)]; [constructor|].
    cbn [nones_last] in H. destruct H as (H1 & _). constructor; [exact Hs|apply H1; exact Hs].
  - intros Hr. apply IH; [|exact Hr]. cbn [nones_last] in H. apply H.
Qed.

(* ------------------------------------------------------------------ restore_order returns the selection, permuted *)
Definition pick {A} (p : Z * option A) : list A := match snd p with Some v => [v] | None => [] end.

Lemma pick_combine_pad {A} : forall (o : list Z) (k : nat), flat_map (@pick A) (combine o (repeat None k)) = [].
Proof.
  induction o as [|x t IH]; intros [|k]; cbn [repeat combine flat_map]; try reflexivity.
  unfold pick at 1. cbn [snd app]. apply IH.
Qed.

Lemma pick_combine {A} : forall (sel : list A) (o : list Z) k,
  (length sel <= length o)%nat ->
  flat_map pick (combine o (map Some sel ++ repeat None k)) = sel.
Proof.
  induction sel as [|x t IH]; intros o k H; cbn [map app].
  - apply pick_combine_pad.
  - destruct o as [|y u]; [cbn in H; lia|]. cbn [combine flat_map]. unfold pick at 1. cbn [snd app].
    f_equal. apply IH. cbn [length] in H. lia.
Qed.

Lemma restore_order_perm {A} (sel : list A) (o : list Z) k :
  (length sel <= length o)%nat ->
  Permutation (restore_order (map Some sel ++ repeat None k) o) sel.
Proof.
  intros H. unfold restore_order. fold (@pick A).
  rewrite <- (pick_combine sel o k H) at 2.
  apply Permutation_flat_map. apply sort_by_perm.
Qed.

Lemma processed_length l sel rest : processed l sel rest -> length l = (length sel + length rest)%nat.
Proof. induction 1; cbn [length]; lia. Qed.

(* ------------------------------------------------------------------ OMS states of one network *)
Record dims := mkD { d_min : Z; d_max : Z; d_gb : Z }.
Definition WFo (d : dims) (o : oms) : Prop :=
  WFb (bm o) /\ n_min (bm o) = d_min d /\ n_max (bm o) = d_max d /\ gb (bm o) = d_gb d.
Definition WFst (d : dims) (st : state) : Prop := Forall (WFo d) st.
Definition valid_ids (st : state) (ids : list Z) : Prop := Forall (fun i => 0 <= i < Z.of_nat (length st)) ids.
Definition oms_at (st : state) (i : Z) : option oms := nth_error st (Z.to_nat i).

Lemma get_oms_valid st i : 0 <= i < Z.of_nat (length st) ->
  exists o, get_oms st i = Ok o /\ oms_at st i = Some o.
Proof.
  intros H. unfold get_oms, pyidx, oms_at. replace (i <? 0) with false by lia.
  replace ((i <? 0) || (Z.of_nat (length st) <=? i)) with false by lia.
  destruct (nth_error st (Z.to_nat i)) as [o|] eqn:E; [eauto|].
  apply nth_error_None in E. lia.
Qed.

Lemma WFst_at d st i o : WFst d st -> oms_at st i = Some o -> WFo d o.
Proof. intros W H. unfold WFst in W. rewrite Forall_forall in W. apply W. eapply nth_error_In. exact H. Qed.

Lemma WFo_len d o : WFo d o -> Z.of_nat (length (cells (bm o))) = d_max d - d_min d + 1.
Proof. intros ((_ & Hl & _) & <- & <- & _). exact Hl. Qed.

(* aggregation: a cell is FREE in the aggregate iff it is FREE in the accumulator and in every OMS *)
Lemma agg_cells_spec d st : WFst d st ->
  forall ids acc c, valid_ids st ids ->
  Z.of_nat (length acc) = d_max d - d_min d + 1 ->
  agg_cells st ids acc = Ok c ->
  Z.of_nat (length c) = d_max d - d_min d + 1 /\
  forall j, nth_error c j = Some SF <->
            (nth_error acc j = Some SF /\
             forall i o, In i ids -> oms_at st i = Some o -> nth_error (cells (bm o)) j = Some SF).
Proof.
  intros W. induction ids as [|i t IH]; intros acc c Hv Hl H.
  - cbn [agg_cells] in H. injection H as <-. split; [exact Hl|]. intros j. split.
    + intros Hj. split; [exact Hj|]. intros i o [].
    + intros (Hj & _). exact Hj.
  - cbn [agg_cells] in H. inversion Hv as [|? ? Hi Ht]; subst.
    destruct (get_oms_valid st i Hi) as (o & Hg & Ho). rewrite Hg in H. cbn [bind] in H.
    pose proof (WFo_len d o (WFst_at d st i o W Ho)) as Hlo.
    apply IH in H; [|exact Ht|rewrite bitmap_sum_length; lia].
    destruct H as (Hlc & Hc). split; [exact Hlc|]. intros j. rewrite Hc. rewrite bitmap_sum_nth. split.
    + intros (Hs & Hall).
      destruct (nth_error (cells (bm o)) j) as [a|] eqn:Ea; [|discriminate].
      destruct (nth_error acc j) as [b|] eqn:Eb; [|discriminate].
      injection Hs as Hs. apply sum_slot_free in Hs. destruct Hs as (-> & ->).
      split; [reflexivity|]. intros i' o' [<-|Hin] Ho'.
      * rewrite Ho in Ho'. injection Ho' as <-. exact Ea.
      * eapply Hall; eauto.
    + intros (Hacc & Hall). split.
      * rewrite (Hall i o (or_introl eq_refl) Ho), Hacc. reflexivity.
      * intros i' o' Hin Ho'. apply (Hall i' o' (or_intror Hin) Ho').
Qed.

Lemma new_bitmap_wf nmin nmax g c b :
  1 <= g -> new_bitmap nmin nmax g c = Ok b ->
  WFb b /\ n_min b = nmin /\ n_max b = nmax /\ gb b = g /\ cells b = c.
Proof.
  intros Hg H. unfold new_bitmap in H. destruct (Z.of_nat (length c) =? nmax - nmin + 1) eqn:E; [|discriminate].
  injection H as <-. unfold WFb; cbn [idx n_min n_max cells fi_min fi_max gb]. repeat split; try reflexivity; lia.
Qed.

Lemma aggregate_spec d st ids test0 :
  WFst d st -> valid_ids st ids -> aggregate st ids = Ok test0 ->
  ids <> [] /\ WFb test0 /\ n_min test0 = d_min d /\ n_max test0 = d_max d /\ gb test0 = d_gb d /\
  forall k, cell test0 k = Some SF <-> (forall i o, In i ids -> oms_at st i = Some o -> cell (bm o) k = Some SF).
Proof.
  intros W Hv H. unfold aggregate in H. destruct ids as [|i0 t]; [discriminate|].
  inversion Hv as [|? ? Hi Ht]; subst.
  destruct (get_oms_valid st i0 Hi) as (o0 & Hg & Ho). rewrite Hg in H. cbn [bind] in H.
  pose proof (WFst_at d st i0 o0 W Ho) as Wo. pose proof (WFo_len d o0 Wo) as Hlo.
  destruct (agg_cells st t (cells (bm o0))) as [c|e] eqn:Ea; [|discriminate]. cbn [bind] in H.
  apply (agg_cells_spec d st W) in Ea; [|exact Ht|exact Hlo]. destruct Ea as (Hlc & Hc).
  destruct Wo as (Wb & Hmin & Hmax & Hgb).
  apply new_bitmap_wf in H; [|destruct Wb as (_ & _ & _ & _ & ?); lia].
  destruct H as (Wt & Hn & Hx & Hgg & Hcells).
  split; [discriminate|]. split; [exact Wt|]. split; [congruence|]. split; [congruence|]. split; [congruence|].
  intros k. unfold cell, cellz. rewrite Hcells, Hn, Hmin.
  destruct (k <? d_min d) eqn:Ek.
  - split; [discriminate|]. intros Hall. specialize (Hall i0 o0 (or_introl eq_refl) Ho).
    rewrite Hmin, Ek in Hall. exact Hall.
  - rewrite Hc. split.
    + intros (H0 & Hall) i o [<-|Hin] Hio.
      * rewrite Ho in Hio. injection Hio as <-. rewrite Hmin, Ek. exact H0.
      * destruct (WFst_at d st i o W Hio) as (_ & Hm & _). rewrite Hm, Ek. eapply Hall; eauto.
    + intros Hall. split.
      * specialize (Hall i0 o0 (or_introl eq_refl) Ho). rewrite Hmin, Ek in Hall. exact Hall.
      * intros i o Hin Hio. specialize (Hall i o (or_intror Hin) Hio).
        destruct (WFst_at d st i o W Hio) as (_ & Hm & _). rewrite Hm, Ek in Hall. exact Hall.
Qed.

(* feasibility on the aggregate = feasibility on every OMS of the path *)
Lemma feasible_aggregate d st ids test0 n m :
  WFst d st -> valid_ids st ids -> aggregate st ids = Ok test0 ->
  (feasible test0 n m <-> forall i o, In i ids -> oms_at st i = Some o -> feasible (bm o) n m).
Proof.
  intros W Hv H. destruct (aggregate_spec d st ids test0 W Hv H) as (Hne & Wt & Hn & Hx & Hg & Hc).
  destruct Wt as (_ & _ & Hfm & HfM & _).
  assert (Hd : forall i o, In i ids -> oms_at st i = Some o -> fi_min (bm o) = fi_min test0 /\ fi_max (bm o) = fi_max test0).
  { intros i o Hin Hio. destruct (WFst_at d st i o W Hio) as ((_ & _ & A & B & _) & C & D & E). lia. }
  unfold feasible. split.
  - intros (A & B & C) i o Hin Hio. destruct (Hd i o Hin Hio) as (-> & ->).
    split; [exact A|]. split; [exact B|]. intros k Hk. eapply Hc; eauto.
  - intros Hall. destruct ids as [|i0 t]; [contradiction|].
    inversion Hv as [|? ? Hi Ht]; subst. destruct (get_oms_valid st i0 Hi) as (o0 & _ & Ho).
    destruct (Hall i0 o0 (or_introl eq_refl) Ho) as (A & B & _).
    destruct (Hd i0 o0 (or_introl eq_refl) Ho) as (E1 & E2). rewrite E1 in A. rewrite E2 in B.
    split; [exact A|]. split; [exact B|]. intros k Hk. apply Hc. intros i o Hin Hio.
    destruct (Hall i o Hin Hio) as (_ & _ & F). apply F. exact Hk.
Qed.
