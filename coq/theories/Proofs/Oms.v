(* Proofs about Model/Oms.v (property C15). *)
From Coq Require Import QArith Qround Lia ZifyBool Permutation.
From Verif Require Import Prelude Model.Spectrum Model.Oms.
Local Open Scope Z_scope.

(* ================================================================ lists of integers *)
Lemma zrange_length a b : Z.of_nat (length (zrange a b)) = Z.max 0 (b - a).
Proof. unfold zrange. rewrite map_length, seq_length. lia. Qed.

Lemma zrange_nil a b : b <= a -> zrange a b = [].
Proof. intros H. unfold zrange. replace (Z.to_nat (b - a)) with O by lia. reflexivity. Qed.

Lemma zrange_cons a b : a < b -> zrange a b = a :: zrange (a + 1) b.
Proof.
  intros H. unfold zrange.
  replace (Z.to_nat (b - a)) with (S (Z.to_nat (b - (a + 1)))) by lia.
  cbn [seq map]. f_equal. { lia. }
  rewrite <- seq_shift, map_map. apply map_ext. intros k. lia.
Qed.

Lemma zrange_app a b c : a <= b -> b <= c -> zrange a c = zrange a b ++ zrange b c.
Proof.
  intros Hab Hbc. unfold zrange.
  replace (Z.to_nat (c - a)) with (Z.to_nat (b - a) + Z.to_nat (c - b))%nat by lia.
  rewrite seq_app, map_app. f_equal. cbn [plus].
  rewrite <- (Nat.add_0_r (Z.to_nat (b - a))) at 1.
  generalize (Z.to_nat (c - b)) as m. generalize 0%nat as s. intros s m.
  revert s. induction m as [|m IH]; intros s; [reflexivity|].
  cbn [seq map]. f_equal. { lia. }
  specialize (IH (S s)). rewrite <- Nat.add_succ_comm in IH. exact IH.
Qed.

Lemma zrange_snoc a b : a <= b -> zrange a (b + 1) = zrange a b ++ [b].
Proof.
  intros H. rewrite (zrange_app a b (b + 1)) by lia. f_equal.
  rewrite zrange_cons by lia. rewrite zrange_nil by lia. reflexivity.
Qed.

Lemma In_zrange a b n : In n (zrange a b) <-> a <= n < b.
Proof.
  unfold zrange. rewrite in_map_iff. split.
  - intros (k & Hk & Hin). apply in_seq in Hin. lia.
  - intros H. exists (Z.to_nat (n - a)). split; [lia|]. apply in_seq. lia.
Qed.

Lemma zrange_NoDup a b : NoDup (zrange a b).
Proof.
  unfold zrange. apply FinFun.Injective_map_NoDup.
  - intros x y Hxy. lia.
  - apply seq_NoDup.
Qed.

Lemma zindex_from_zrange a b n k :
  zindex_from (zrange a b) n k = if (a <=? n) && (n <? b) then Some (k + (n - a)) else None.
Proof.
  destruct (Z_lt_le_dec a b) as [Hlt|Hge].
  2:{ rewrite zrange_nil by lia. cbn. destruct ((a <=? n) && (n <? b)) eqn:E; [lia|reflexivity]. }
  remember (Z.to_nat (b - a)) as m eqn:Hm. revert a k Hlt Hm.
  induction m as [|m IH]; intros a k Hlt Hm; [lia|].
  rewrite zrange_cons by lia. cbn [zindex_from].
  destruct (a =? n) eqn:Ean.
  - assert (a = n) by lia. subst. replace ((n <=? n) && (n <? b)) with true by lia. f_equal. lia.
  - destruct (Z_lt_le_dec (a + 1) b) as [H1|H1].
    + rewrite (IH (a + 1) (k + 1)) by lia.
      destruct ((a + 1 <=? n) && (n <? b)) eqn:E1; destruct ((a <=? n) && (n <? b)) eqn:E2; try lia.
      * f_equal. lia.
      * reflexivity.
    + rewrite zrange_nil by lia. cbn. destruct ((a <=? n) && (n <? b)) eqn:E2; [lia|reflexivity].
Qed.

Lemma zindex_zrange a b n : zindex (zrange a b) n = if (a <=? n) && (n <? b) then Some (n - a) else None.
Proof. unfold zindex. rewrite zindex_from_zrange. destruct ((a <=? n) && (n <? b)); reflexivity. Qed.

Lemma rep_length {A} (x : A) k : Z.of_nat (length (rep x k)) = Z.max 0 k.
Proof. unfold rep. rewrite repeat_length. lia. Qed.

(* Z-indexed access *)
Definition znth {A} (l : list A) (i : Z) : option A := if i <? 0 then None else nth_error l (Z.to_nat i).

Lemma znth_app_l {A} (l1 l2 : list A) i : 0 <= i < Z.of_nat (length l1) -> znth (l1 ++ l2) i = znth l1 i.
Proof. intros H. unfold znth. destruct (i <? 0) eqn:E; [lia|]. apply nth_error_app1. lia. Qed.

Lemma znth_app_r {A} (l1 l2 : list A) i :
  Z.of_nat (length l1) <= i -> znth (l1 ++ l2) i = znth l2 (i - Z.of_nat (length l1)).
Proof.
  intros H. unfold znth. destruct (i <? 0) eqn:E; [lia|].
  destruct (i - Z.of_nat (length l1) <? 0) eqn:E2; [lia|].
  rewrite nth_error_app2 by lia. f_equal. lia.
Qed.

Lemma znth_rep {A} (x : A) k i : 0 <= i < k -> znth (rep x k) i = Some x.
Proof.
  intros H. unfold znth, rep. destruct (i <? 0) eqn:E; [lia|].
  apply nth_error_repeat. lia.
Qed.

Lemma znth_none {A} (l : list A) i : Z.of_nat (length l) <= i -> znth l i = None.
Proof. intros H. unfold znth. destruct (i <? 0); [reflexivity|]. apply nth_error_None. lia. Qed.

(* ================================================================ int() on exact rationals *)
Lemma qtrunc_nonneg q : (0 <= q)%Q -> qtrunc q = Qfloor q.
Proof.
  destruct q as [n d]. unfold Qle, qtrunc, Qfloor. cbn [Qnum Qden]. intros H.
  apply Z.quot_div_nonneg; lia.
Qed.

Lemma qtrunc_neg q : (q < 0)%Q -> qtrunc q = Qceiling q.
Proof.
  destruct q as [n d]. unfold Qlt, qtrunc, Qceiling, Qfloor, Qopp. cbn [Qnum Qden]. intros H.
  replace n with (- (- n)) at 1 by lia.
  rewrite Z.quot_opp_l by lia. f_equal. apply Z.quot_div_nonneg; lia.
Qed.

Lemma qtrunc_le a b : (a <= b)%Q -> qtrunc a <= qtrunc b.
Proof.
  intros Hab.
  destruct (Qlt_le_dec a 0) as [Ha|Ha]; destruct (Qlt_le_dec b 0) as [Hb|Hb].
  - rewrite !qtrunc_neg by assumption. apply Qceiling_resp_le. exact Hab.
  - rewrite (qtrunc_neg a) by assumption. rewrite (qtrunc_nonneg b) by assumption.
    assert (H1 : Qceiling a <= Qceiling 0) by (apply Qceiling_resp_le, Qlt_le_weak, Ha).
    assert (H2 : Qfloor 0 <= Qfloor b) by (apply Qfloor_resp_le, Hb).
    change (Qceiling 0) with 0 in H1. change (Qfloor 0) with 0 in H2. lia.
  - exfalso. apply (Qlt_irrefl 0). apply Qle_lt_trans with b; [|exact Hb]. apply Qle_trans with a; assumption.
  - rewrite !qtrunc_nonneg by (try assumption; apply Qle_trans with a; assumption).
    apply Qfloor_resp_le. exact Hab.
Qed.

Lemma qtrunc_Z q n : (q == inject_Z n)%Q -> qtrunc q = n.
Proof.
  destruct q as [a d]. unfold Qeq, qtrunc, inject_Z. cbn [Qnum Qden]. intros H.
  replace a with (n * Zpos d) by lia. apply Z.quot_mul. lia.
Qed.

(* ================================================================ frequency <-> slot number *)
Lemma frequency_to_n_on_grid f k grid :
  ~ (grid == 0)%Q -> (f == nvalue_to_frequency k grid)%Q -> frequency_to_n f grid = k.
Proof.
  intros Hg Hf. unfold frequency_to_n. apply qtrunc_Z. rewrite Hf. unfold nvalue_to_frequency. field. exact Hg.
Qed.

Theorem n_freq_roundtrip n grid :
  ~ (grid == 0)%Q -> frequency_to_n (nvalue_to_frequency n grid) grid = n.
Proof. intros Hg. apply frequency_to_n_on_grid; [exact Hg|reflexivity]. Qed.

Lemma frequency_to_n_le f1 f2 grid : (0 < grid)%Q -> (f1 <= f2)%Q -> frequency_to_n f1 grid <= frequency_to_n f2 grid.
Proof.
  intros Hg H. unfold frequency_to_n. apply qtrunc_le. unfold Qdiv.
  apply Qmult_le_compat_r.
  - unfold Qminus. apply Qplus_le_compat; [exact H|apply Qle_refl].
  - apply Qlt_le_weak, Qinv_lt_0_compat, Hg.
Qed.

Lemma nvalue_to_frequency_le a b grid : (0 < grid)%Q -> a <= b -> (nvalue_to_frequency a grid <= nvalue_to_frequency b grid)%Q.
Proof.
  intros Hg H. unfold nvalue_to_frequency. apply Qplus_le_compat; [apply Qle_refl|].
  apply Qmult_le_compat_r; [|apply Qlt_le_weak, Hg]. rewrite <- Zle_Qle. exact H.
Qed.

Lemma nvalue_to_frequency_le_inv a b grid :
  (0 < grid)%Q -> (nvalue_to_frequency a grid <= nvalue_to_frequency b grid)%Q -> a <= b.
Proof.
  intros Hg H. destruct (Z_le_gt_dec a b) as [Hle|Hgt]; [exact Hle|exfalso].
  assert (Hn : frequency_to_n (nvalue_to_frequency a grid) grid <= frequency_to_n (nvalue_to_frequency b grid) grid)
    by (apply frequency_to_n_le; assumption).
  assert (Hg0 : ~ (grid == 0)%Q) by (intros E; rewrite E in Hg; discriminate).
  rewrite !n_freq_roundtrip in Hn by exact Hg0. lia.
Qed.

(* the IEEE-double round trip, finite: every n in [-4000, 4000] on the 6.25 GHz grid (computed, not reasoned) *)
Theorem n_freq_roundtrip_float :
  forall n, -4000 <= n <= 4000 ->
    F.frequency_to_n (F.nvalue_to_frequency n (F.of_Z 6250000000)) (F.of_Z 6250000000) = n.
Proof.
  assert (H : forallb (fun n => F.frequency_to_n (F.nvalue_to_frequency n (F.of_Z 6250000000)) (F.of_Z 6250000000) =? n)
                      (zrange (-4000) 4001) = true) by (vm_compute; reflexivity).
  intros n Hn. rewrite forallb_forall in H. specialize (H n). rewrite In_zrange in H.
  specialize (H ltac:(lia)). lia.
Qed.

Theorem slots_roundtrip n m : slots_to_m (fst (mvalue_to_slots n m)) (snd (mvalue_to_slots n m)) = (n, m).
Proof.
  unfold slots_to_m, mvalue_to_slots. cbn [fst snd]. f_equal.
  - replace (n - m + (n + m - 1) + 1) with (n * 2) by lia. apply Z.quot_mul. lia.
  - replace (n + m - 1 - (n - m) + 1) with (m * 2) by lia. apply Z.quot_mul. lia.
Qed.

Theorem slots_roundtrip_inv a m :
  let b := a + 2 * m - 1 in
  mvalue_to_slots (fst (slots_to_m a b)) (snd (slots_to_m a b)) = (a, b).
Proof.
  cbn zeta. unfold slots_to_m, mvalue_to_slots. cbn [fst snd].
  replace (a + (a + 2 * m - 1) + 1) with ((a + m) * 2) by lia.
  replace (a + 2 * m - 1 - a + 1) with (m * 2) by lia.
  rewrite !Z.quot_mul by lia. f_equal; lia.
Qed.

(* ================================================================ create_oms_bitmap *)
(* bands as slot pairs: each non-empty, strictly after the previous one, the last one not beyond nmax *)
Fixpoint sep (prev : Z) (nb : list (Z * Z)) (nmax : Z) : Prop :=
  match nb with
  | [] => prev <= nmax
  | (lo, hi) :: t => prev < lo /\ lo <= hi /\ sep hi t nmax
  end.

Lemma oms_tail_length nmax nb : forall prev, sep prev nb nmax ->
  Z.of_nat (length (oms_tail nmax prev nb)) = nmax - prev.
Proof.
  induction nb as [|[lo hi] t IH]; intros prev H; cbn [oms_tail sep] in *.
  - rewrite rep_length. lia.
  - destruct H as (H1 & H2 & H3). rewrite !app_length, !Nat2Z.inj_add, !rep_length, (IH hi H3). lia.
Qed.

Lemma in_slots_cons lo hi t n : in_slots ((lo, hi) :: t) n = ((lo <=? n) && (n <=? hi)) || in_slots t n.
Proof. reflexivity. Qed.

Lemma sep_not_in nmax nb : forall prev n, sep prev nb nmax -> n <= prev -> in_slots nb n = false.
Proof.
  induction nb as [|[lo hi] t IH]; intros prev n H Hn; [reflexivity|].
  cbn [sep] in H. destruct H as (H1 & H2 & H3). rewrite in_slots_cons.
  rewrite (IH hi n H3) by lia. lia.
Qed.

Lemma oms_tail_znth nmax nb : forall prev n, sep prev nb nmax -> prev < n <= nmax ->
  znth (oms_tail nmax prev nb) (n - prev - 1) = Some (if in_slots nb n then SF else SU).
Proof.
  induction nb as [|[lo hi] t IH]; intros prev n H Hn; cbn [oms_tail sep] in *.
  - cbn. apply znth_rep. lia.
  - destruct H as (H1 & H2 & H3). rewrite in_slots_cons.
    destruct (Z_lt_le_dec n lo) as [Ha|Ha].
    + rewrite znth_app_l by (rewrite rep_length; lia).
      rewrite znth_rep by lia.
      replace ((lo <=? n) && (n <=? hi)) with false by lia.
      rewrite (sep_not_in nmax t hi n H3) by lia. reflexivity.
    + rewrite znth_app_r by (rewrite rep_length; lia). rewrite rep_length.
      destruct (Z_le_gt_dec n hi) as [Hb|Hb].
      * rewrite znth_app_l by (rewrite rep_length; lia). rewrite znth_rep by lia.
        replace ((lo <=? n) && (n <=? hi)) with true by lia. reflexivity.
      * rewrite znth_app_r by (rewrite rep_length; lia). rewrite rep_length.
        replace ((lo <=? n) && (n <=? hi)) with false by lia. cbn [orb].
        rewrite <- (IH hi n H3) by lia. f_equal. lia.
Qed.

Lemma oms_cells_tail nmin nmax b t : oms_cells nmin nmax (b :: t) = Ok (oms_tail nmax (nmin - 1) (b :: t)).
Proof. destruct b as [lo hi]. cbn [oms_cells oms_tail]. do 3 f_equal. lia. Qed.

Lemma oms_cells_spec nmin nmax nb :
  nb <> [] -> sep (nmin - 1) nb nmax ->
  exists c, oms_cells nmin nmax nb = Ok c /\ Z.of_nat (length c) = nmax - nmin + 1 /\
            forall n, nmin <= n <= nmax -> znth c (n - nmin) = Some (if in_slots nb n then SF else SU).
Proof.
  intros Hne Hs. destruct nb as [|b t]; [congruence|].
  eexists. split; [apply oms_cells_tail|]. split.
  - rewrite (oms_tail_length _ _ _ Hs). lia.
  - intros n Hn. rewrite <- (oms_tail_znth nmax (b :: t) (nmin - 1) n Hs) by lia. f_equal. lia.
Qed.

(* bands in frequency: sorted, pairwise disjoint, inside [f_min, f_max] *)
Fixpoint sorted_from (prev : Q) (common : list band) (f_max : Q) : Prop :=
  match common with
  | [] => (prev <= f_max)%Q
  | (lo, hi) :: t => (prev < lo)%Q /\ (lo <= hi)%Q /\ sorted_from hi t f_max
  end.
Definition sorted_in (f_min f_max : Q) (common : list band) : Prop :=
  match common with
  | [] => False
  | (lo, hi) :: t => (f_min <= lo)%Q /\ (lo <= hi)%Q /\ sorted_from hi t f_max
  end.
(* facing edges of consecutive bands do not fall into the same slot *)
Fixpoint slot_apart (grid : Q) (common : list band) : Prop :=
  match common with
  | b1 :: ((b2 :: _) as t) => frequency_to_n (snd b1) grid < frequency_to_n (fst b2) grid /\ slot_apart grid t
  | _ => True
  end.
Definition on_grid (grid f : Q) : Prop := exists k, (f == nvalue_to_frequency k grid)%Q.

Lemma sep_of_sorted grid f_max t : (0 < grid)%Q -> forall b,
  sorted_from (snd b) t f_max -> slot_apart grid (b :: t) ->
  sep (frequency_to_n (snd b) grid) (map (band_slots grid) t) (frequency_to_n f_max grid).
Proof.
  intros Hg. induction t as [|[lo hi] t IH]; intros b Hs Ha; cbn [map sep sorted_from slot_apart] in *.
  - apply frequency_to_n_le; assumption.
  - destruct Hs as (H1 & H2 & H3). destruct Ha as (Ha1 & Ha2). unfold band_slots at 1. cbn [fst snd] in *.
    split; [exact Ha1|]. split; [apply frequency_to_n_le; assumption|].
    apply (IH (lo, hi)); assumption.
Qed.

Theorem bitmap_len grid f_min f_max common :
  (0 < grid)%Q -> sorted_in f_min f_max common -> slot_apart grid common ->
  exists c, create_oms_bitmap common f_min f_max grid = Ok c /\
            Z.of_nat (length c) = frequency_to_n f_max grid - frequency_to_n f_min grid + 1 /\
            forall n, frequency_to_n f_min grid <= n <= frequency_to_n f_max grid ->
                      znth c (n - frequency_to_n f_min grid) =
                      Some (if in_slots (map (band_slots grid) common) n then SF else SU).
Proof.
  intros Hg Hs Ha. unfold create_oms_bitmap.
  assert (Hg0 : Qeq_bool grid 0 = false).
  { destruct (Qeq_bool grid 0) eqn:E; [|reflexivity]. apply Qeq_bool_eq in E. rewrite E in Hg. discriminate. }
  rewrite Hg0. destruct common as [|[lo hi] t]; [contradiction|].
  apply oms_cells_spec; [discriminate|].
  cbn [sorted_in] in Hs. destruct Hs as (H1 & H2 & H3).
  cbn [map sep]. unfold band_slots at 1. cbn [fst snd].
  split; [|split].
  - assert (frequency_to_n f_min grid <= frequency_to_n lo grid) by (apply frequency_to_n_le; assumption). lia.
  - apply frequency_to_n_le; assumption.
  - apply (sep_of_sorted grid f_max t Hg (lo, hi)); assumption.
Qed.

(* without the slot-level separation the length clause is false: two bands 2 GHz apart inside one slot *)
Theorem bitmap_len_touching_refuted :
  exists grid f_min f_max common c,
    (0 < grid)%Q /\ sorted_in f_min f_max common /\ create_oms_bitmap common f_min f_max grid = Ok c /\
    Z.of_nat (length c) <> frequency_to_n f_max grid - frequency_to_n f_min grid + 1.
Proof.
  exists default_grid, f_ref, (193412500000000 # 1),
         [((193162500000000 # 1), (193226000000000 # 1)); ((193228000000000 # 1), (193350000000000 # 1))].
  eexists. split; [reflexivity|]. split.
  - cbn. repeat split; discriminate.
  - split; [vm_compute; reflexivity|]. vm_compute. discriminate.
Qed.

(* grid-aligned band edges *)
Lemma in_bands_slots grid common n :
  (0 < grid)%Q -> Forall (fun b => on_grid grid (fst b) /\ on_grid grid (snd b)) common ->
  in_slots (map (band_slots grid) common) n = in_bands grid common n.
Proof.
  intros Hg Hall. assert (Hg0 : ~ (grid == 0)%Q) by (intros E; rewrite E in Hg; discriminate).
  induction Hall as [|[lo hi] t [(k1 & Hk1) (k2 & Hk2)] _ IH]; [reflexivity|].
  cbn [map in_slots in_bands existsb] in *. unfold in_slots, in_bands in IH. rewrite IH. f_equal.
  unfold band_slots. cbn [fst snd] in *.
  rewrite (frequency_to_n_on_grid lo k1 grid Hg0 Hk1), (frequency_to_n_on_grid hi k2 grid Hg0 Hk2).
  apply eq_true_iff_eq. rewrite !andb_true_iff, !Qle_bool_iff, !Z.leb_le, Hk1, Hk2.
  split; intros [A B]; split;
    try (apply nvalue_to_frequency_le; assumption);
    try (apply (nvalue_to_frequency_le_inv _ _ grid Hg); assumption).
Qed.

Lemma slot_apart_on_grid grid f_max t : (0 < grid)%Q -> forall b,
  Forall (fun b => on_grid grid (fst b) /\ on_grid grid (snd b)) (b :: t) ->
  sorted_from (snd b) t f_max -> slot_apart grid (b :: t).
Proof.
  intros Hg. assert (Hg0 : ~ (grid == 0)%Q) by (intros E; rewrite E in Hg; discriminate).
  induction t as [|[lo hi] t IH]; intros b Hall Hs; [exact I|].
  cbn [sorted_from] in Hs. destruct Hs as (H1 & H2 & H3).
  inversion Hall as [|? ? [_ (k2 & Hk2)] Hall']; subst.
  inversion Hall' as [|? ? [(k1 & Hk1) _] _]; subst. cbn [fst snd] in *.
  split; [|apply IH; assumption].
  cbn [fst snd].
  rewrite (frequency_to_n_on_grid (snd b) k2 grid Hg0 Hk2), (frequency_to_n_on_grid lo k1 grid Hg0 Hk1).
  destruct (Z_lt_le_dec k2 k1) as [Hlt|Hge]; [exact Hlt|exfalso].
  apply (nvalue_to_frequency_le k1 k2 grid Hg) in Hge. rewrite <- Hk1, <- Hk2 in Hge.
  apply (Qlt_irrefl lo). apply Qle_lt_trans with (snd b); assumption.
Qed.

Theorem bitmap_marks grid f_min f_max common :
  (0 < grid)%Q -> sorted_in f_min f_max common ->
  Forall (fun b => on_grid grid (fst b) /\ on_grid grid (snd b)) common ->
  exists c, create_oms_bitmap common f_min f_max grid = Ok c /\
            Z.of_nat (length c) = frequency_to_n f_max grid - frequency_to_n f_min grid + 1 /\
            forall n, frequency_to_n f_min grid <= n <= frequency_to_n f_max grid ->
                      znth c (n - frequency_to_n f_min grid) = Some (if in_bands grid common n then SF else SU).
Proof.
  intros Hg Hs Hall.
  assert (Ha : slot_apart grid common).
  { destruct common as [|[lo hi] t]; [exact I|]. cbn [sorted_in] in Hs. destruct Hs as (_ & _ & H3).
    apply (slot_apart_on_grid grid f_max t Hg (lo, hi)); assumption. }
  destruct (bitmap_len grid f_min f_max common Hg Hs Ha) as (c & Hc & Hl & Hn).
  exists c. split; [exact Hc|]. split; [exact Hl|].
  intros n Hr. rewrite (Hn n Hr). rewrite (in_bands_slots grid common n Hg Hall). reflexivity.
Qed.

(* ================================================================ Bitmap construction *)
(* a well-formed map: contiguous index (possibly empty), one cell per index *)
Definition bwf (b : bitmap) : Prop :=
  n_min b <= n_max b + 1 /\ idx b = zrange (n_min b) (n_max b + 1) /\
  Z.of_nat (length (cells b)) = n_max b - n_min b + 1.

Lemma Qeq_bool_pos_false g : (0 < g)%Q -> Qeq_bool g 0 = false.
Proof.
  intros Hg. destruct (Qeq_bool g 0) eqn:E; [|reflexivity]. apply Qeq_bool_eq in E. rewrite E in Hg. discriminate.
Qed.

Lemma mk_bitmap_wf f_min f_max grid gbd ex b :
  mk_bitmap f_min f_max grid gbd ex = Ok b ->
  frequency_to_n f_min grid <= frequency_to_n f_max grid + 1 ->
  bwf b /\ n_min b = frequency_to_n f_min grid /\ n_max b = frequency_to_n f_max grid /\
  match ex with Some c => cells b = c | None => True end.
Proof.
  unfold mk_bitmap. destruct (Qeq_bool grid 0); [discriminate|]. intros H Hle.
  destruct ex as [c|].
  - destruct (Nat.eqb (length c) (length (zrange (frequency_to_n f_min grid) (frequency_to_n f_max grid + 1)))) eqn:E;
      [|discriminate].
    injection H as <-. unfold bwf. cbn [n_min n_max idx cells]. apply Nat.eqb_eq in E.
    repeat split; try lia. rewrite E, zrange_length. lia.
  - injection H as <-. unfold bwf. cbn [n_min n_max idx cells]. repeat split; try lia. rewrite rep_length. lia.
Qed.

Theorem mk_bitmap_ok f_min f_max grid gbd :
  (0 < grid)%Q -> (f_min <= f_max)%Q ->
  exists b, mk_bitmap f_min f_max grid gbd None = Ok b /\ bwf b /\ n_min b <= n_max b.
Proof.
  intros Hg Hf. unfold mk_bitmap. rewrite (Qeq_bool_pos_false grid Hg). eexists. split; [reflexivity|].
  assert (frequency_to_n f_min grid <= frequency_to_n f_max grid) by (apply frequency_to_n_le; assumption).
  unfold bwf. cbn [n_min n_max idx cells]. repeat split; try lia. rewrite rep_length. lia.
Qed.

(* ================================================================ align_grids *)
Definition extended (Nmin Nmax : Z) (b : bitmap) : bitmap :=
  mkB Nmin Nmax (fi_min b) (fi_max b) (gb b) (zrange Nmin (Nmax + 1))
      (rep SO (n_min b - Nmin) ++ cells b ++ rep SO (Nmax - n_max b)).

Lemma hd_zrange a b : a < b -> exists t, zrange a b = a :: t.
Proof. intros H. rewrite zrange_cons by lia. eauto. Qed.

Lemma last_zrange a b d : a < b -> List.last (zrange a b) d = b - 1.
Proof.
  intros H. replace b with ((b - 1) + 1) at 1 by lia. rewrite zrange_snoc by lia. apply last_last.
Qed.

Lemma rep_nil {A} (x : A) k : k <= 0 -> rep x k = [].
Proof. intros H. unfold rep. replace (Z.to_nat k) with O by lia. reflexivity. Qed.

Lemma match_cons {A B} (l : list A) (e f : B) : l <> [] -> match l with [] => e | _ :: _ => f end = f.
Proof. destruct l; [congruence|reflexivity]. Qed.

Lemma zrange_nonempty a b : a < b -> zrange a b <> [].
Proof. intros H. rewrite zrange_cons by lia. discriminate. Qed.

Lemma insert_left_wf b k :
  bwf b -> 0 < k ->
  insert_left b (rep SO k) =
  Ok (mkB (n_min b - k) (n_max b) (fi_min b) (fi_max b) (gb b) (zrange (n_min b - k) (n_max b + 1)) (rep SO k ++ cells b)).
Proof.
  intros (Hle & Hidx & Hlen) Hk. unfold insert_left. rewrite rep_length, Hidx.
  replace (n_min b - Z.max 0 k) with (n_min b - k) by lia.
  rewrite <- (zrange_app (n_min b - k) (n_min b) (n_max b + 1)) by lia.
  destruct (hd_zrange (n_min b - k) (n_max b + 1) ltac:(lia)) as (t & Ht). rewrite Ht. reflexivity.
Qed.

Lemma insert_right_wf b k :
  bwf b -> 0 < k ->
  insert_right b (rep SO k) =
  Ok (mkB (n_min b) (n_max b + k) (fi_min b) (fi_max b) (gb b) (zrange (n_min b) (n_max b + k + 1)) (cells b ++ rep SO k)).
Proof.
  intros (Hle & Hidx & Hlen) Hk. unfold insert_right. rewrite rep_length, Hidx.
  replace (n_max b + 1 + Z.max 0 k) with (n_max b + k + 1) by lia.
  rewrite <- (zrange_app (n_min b) (n_max b + 1) (n_max b + k + 1)) by lia.
  rewrite match_cons by (apply zrange_nonempty; lia).
  rewrite last_zrange by lia. do 2 f_equal. lia.
Qed.

Lemma align_one_extended Nmin Nmax b :
  bwf b -> Nmin <= n_min b -> n_max b <= Nmax -> align_one Nmin Nmax b = Ok (extended Nmin Nmax b).
Proof.
  intros Hwf H1 H2. pose proof Hwf as (Hle & Hidx & Hlen). unfold align_one, extended.
  destruct (0 <? n_min b - Nmin) eqn:El.
  - rewrite (insert_left_wf b (n_min b - Nmin) Hwf) by lia. cbn [bind n_max n_min].
    replace (n_min b - (n_min b - Nmin)) with Nmin by lia.
    destruct (0 <? Nmax - n_max b) eqn:Er.
    + rewrite insert_right_wf; [| |lia].
      * cbn [n_min n_max fi_min fi_max gb cells]. replace (n_max b + (Nmax - n_max b)) with Nmax by lia.
        rewrite <- app_assoc. reflexivity.
      * unfold bwf. cbn [n_min n_max idx cells]. repeat split; try lia.
        rewrite app_length, Nat2Z.inj_add, rep_length. lia.
    + assert (Nmax = n_max b) by lia. subst Nmax.
      rewrite (rep_nil SO (n_max b - n_max b)) by lia. rewrite app_nil_r. reflexivity.
  - cbn [bind]. assert (Nmin = n_min b) by lia. subst Nmin. rewrite (rep_nil SO (n_min b - n_min b)) by lia.
    cbn [app].
    destruct (0 <? Nmax - n_max b) eqn:Er.
    + rewrite (insert_right_wf b (Nmax - n_max b) Hwf) by lia.
      replace (n_max b + (Nmax - n_max b)) with Nmax by lia. reflexivity.
    + assert (Nmax = n_max b) by lia. subst Nmax. rewrite (rep_nil SO (n_max b - n_max b)) by lia.
      rewrite app_nil_r, <- Hidx. destruct b; reflexivity.
Qed.

(* what alignment must achieve for one map *)
Definition aligned (Nmin Nmax : Z) (b b' : bitmap) : Prop :=
  n_min b' = Nmin /\ n_max b' = Nmax /\ idx b' = zrange Nmin (Nmax + 1) /\ NoDup (idx b') /\
  Z.of_nat (length (cells b')) = Nmax - Nmin + 1 /\
  fi_min b' = fi_min b /\ fi_max b' = fi_max b /\
  forall n, cell_at b' n =
            if (n_min b <=? n) && (n <=? n_max b) then cell_at b n
            else if (Nmin <=? n) && (n <=? Nmax) then Some SO else None.

Lemma cell_at_wf b n : bwf b ->
  cell_at b n = if (n_min b <=? n) && (n <=? n_max b) then znth (cells b) (n - n_min b) else None.
Proof.
  intros (Hle & Hidx & Hlen). unfold cell_at. rewrite Hidx, zindex_zrange.
  destruct ((n_min b <=? n) && (n <? n_max b + 1)) eqn:E1; destruct ((n_min b <=? n) && (n <=? n_max b)) eqn:E2; try lia.
  - unfold znth. destruct (n - n_min b <? 0) eqn:E3; [lia|reflexivity].
  - reflexivity.
Qed.

Lemma extended_aligned Nmin Nmax b :
  bwf b -> Nmin <= n_min b -> n_max b <= Nmax -> aligned Nmin Nmax b (extended Nmin Nmax b).
Proof.
  intros Hwf H1 H2. pose proof Hwf as (Hle & Hidx & Hlen).
  assert (Hwf' : bwf (extended Nmin Nmax b)).
  { unfold bwf, extended. cbn [n_min n_max idx cells]. repeat split; try lia.
    rewrite !app_length, !Nat2Z.inj_add, !rep_length. lia. }
  unfold aligned. repeat split; try reflexivity.
  - apply zrange_NoDup.
  - destruct Hwf' as (_ & _ & Hl). exact Hl.
  - intros n. rewrite (cell_at_wf _ n Hwf'). rewrite (cell_at_wf b n Hwf).
    unfold extended. cbn [n_min n_max cells].
    destruct ((n_min b <=? n) && (n <=? n_max b)) eqn:Ein.
    + replace ((Nmin <=? n) && (n <=? Nmax)) with true by lia.
      rewrite znth_app_r by (rewrite rep_length; lia). rewrite rep_length.
      rewrite znth_app_l by lia. f_equal. lia.
    + destruct ((Nmin <=? n) && (n <=? Nmax)) eqn:Eout; [|reflexivity].
      destruct (Z_lt_le_dec n (n_min b)) as [Hl|Hl].
      * rewrite znth_app_l by (rewrite rep_length; lia). apply znth_rep. lia.
      * rewrite znth_app_r by (rewrite rep_length; lia). rewrite rep_length.
        rewrite znth_app_r by lia. apply znth_rep. lia.
Qed.

Lemma list_min_le x l : list_min x l <= x /\ forall y, In y l -> list_min x l <= y.
Proof.
  unfold list_min. revert x. induction l as [|a t IH]; intros x; cbn [fold_left].
  - split; [lia|intros y []].
  - destruct (IH (Z.min x a)) as (H1 & H2). split; [lia|].
    intros y [<-|Hy]; [lia|auto].
Qed.

Lemma list_max_ge x l : x <= list_max x l /\ forall y, In y l -> y <= list_max x l.
Proof.
  unfold list_max. revert x. induction l as [|a t IH]; intros x; cbn [fold_left].
  - split; [lia|intros y []].
  - destruct (IH (Z.max x a)) as (H1 & H2). split; [lia|].
    intros y [<-|Hy]; [lia|auto].
Qed.

Lemma list_min_in x l : list_min x l = x \/ In (list_min x l) l.
Proof.
  unfold list_min. revert x. induction l as [|a t IH]; intros x; cbn [fold_left]; [auto|].
  destruct (IH (Z.min x a)) as [H|H]; [|right; right; exact H].
  rewrite H. destruct (Z.min_spec x a) as [[_ E]|[_ E]]; rewrite E; [left; reflexivity|right; left; reflexivity].
Qed.

Lemma list_max_in x l : list_max x l = x \/ In (list_max x l) l.
Proof.
  unfold list_max. revert x. induction l as [|a t IH]; intros x; cbn [fold_left]; [auto|].
  destruct (IH (Z.max x a)) as [H|H]; [|right; right; exact H].
  rewrite H. destruct (Z.max_spec x a) as [[_ E]|[_ E]]; rewrite E; [right; left; reflexivity|left; reflexivity].
Qed.

Lemma mapM_Forall2 {A B} (f : A -> res B) (P : A -> B -> Prop) l :
  (forall x, In x l -> exists y, f x = Ok y /\ P x y) ->
  exists l', mapM f l = Ok l' /\ Forall2 P l l'.
Proof.
  induction l as [|x t IH]; intros H; cbn [mapM].
  - exists []. split; [reflexivity|constructor].
  - destruct (H x (or_introl eq_refl)) as (y & Hy & Py). rewrite Hy. cbn [bind].
    destruct IH as (t' & Ht & Ft); [intros z Hz; apply H; right; exact Hz|].
    rewrite Ht. cbn [bind]. exists (y :: t'). split; [reflexivity|constructor; assumption].
Qed.

(* extent after alignment *)
Definition ext_min (l : list bitmap) : Z := match l with [] => 0 | b :: t => list_min (n_min b) (map n_min t) end.
Definition ext_max (l : list bitmap) : Z := match l with [] => 0 | b :: t => list_max (n_max b) (map n_max t) end.

Lemma ext_min_spec l : l <> [] ->
  (forall b, In b l -> ext_min l <= n_min b) /\ exists b, In b l /\ n_min b = ext_min l.
Proof.
  destruct l as [|b t]; [congruence|]. intros _. cbn [ext_min].
  destruct (list_min_le (n_min b) (map n_min t)) as (H1 & H2). split.
  - intros x [<-|Hx]; [exact H1|]. apply H2, in_map, Hx.
  - destruct (list_min_in (n_min b) (map n_min t)) as [E|E].
    + exists b. split; [left; reflexivity|symmetry; exact E].
    + apply in_map_iff in E. destruct E as (x & Ex & Hx). exists x. split; [right; exact Hx|exact Ex].
Qed.

Lemma ext_max_spec l : l <> [] ->
  (forall b, In b l -> n_max b <= ext_max l) /\ exists b, In b l /\ n_max b = ext_max l.
Proof.
  destruct l as [|b t]; [congruence|]. intros _. cbn [ext_max].
  destruct (list_max_ge (n_max b) (map n_max t)) as (H1 & H2). split.
  - intros x [<-|Hx]; [exact H1|]. apply H2, in_map, Hx.
  - destruct (list_max_in (n_max b) (map n_max t)) as [E|E].
    + exists b. split; [left; reflexivity|symmetry; exact E].
    + apply in_map_iff in E. destruct E as (x & Ex & Hx). exists x. split; [right; exact Hx|exact Ex].
Qed.

(* for ALL non-empty lists of well-formed maps of arbitrary extents *)
Theorem align_spec l :
  l <> [] -> Forall bwf l ->
  exists l', align_grids l = Ok l' /\ Forall2 (aligned (ext_min l) (ext_max l)) l l' /\
             (forall b, In b l -> ext_min l <= n_min b /\ n_max b <= ext_max l) /\
             (exists b, In b l /\ n_min b = ext_min l) /\ (exists b, In b l /\ n_max b = ext_max l).
Proof.
  intros Hne Hwf.
  destruct (ext_min_spec l Hne) as (Hmin & Hmin').
  destruct (ext_max_spec l Hne) as (Hmax & Hmax').
  assert (Hal : align_grids l = mapM (align_one (ext_min l) (ext_max l)) l).
  { destruct l as [|b t]; [congruence|reflexivity]. }
  rewrite Hal.
  destruct (mapM_Forall2 (align_one (ext_min l) (ext_max l)) (aligned (ext_min l) (ext_max l)) l) as (l' & Hl' & HF).
  { intros b Hb. rewrite Forall_forall in Hwf. exists (extended (ext_min l) (ext_max l) b). split.
    - apply align_one_extended; auto.
    - apply extended_aligned; auto. }
  exists l'. repeat split; auto.
Qed.

(* degenerate maps are the reason for the well-formedness premise: with n_max < n_min - 1 the index is not contiguous *)
Theorem align_needs_wf :
  exists l l', align_grids l = Ok l' /\ Forall (fun b => idx b = zrange (n_min b) (n_max b + 1)) l /\
               ~ Forall (fun b => NoDup (idx b) /\ idx b = zrange (n_min b) (n_max b + 1)) l'.
Proof.
  exists [mkB 5 0 0 0 0 [] []; mkB 0 8 0 0 0 (zrange 0 9) (rep SF 9)]. eexists. split; [vm_compute; reflexivity|].
  split.
  - repeat constructor.
  - intros H. inversion H as [|? ? [_ H1] _]; subst. vm_compute in H1. discriminate.
Qed.

(* ================================================================ all maps of one network share one extent *)
Definition oms_maps (f_min f_max : Q) (commons : list (list band)) : res (list bitmap) :=
  let* raw := mapM (fun common => let* c := create_oms_bitmap common f_min f_max default_grid in
                                  mk_bitmap f_min f_max default_grid default_guardband (Some c)) commons in
  align_grids raw.

Lemma mapM_Forall {A B} (f : A -> res B) (P : B -> Prop) l l' :
  mapM f l = Ok l' -> (forall x y, In x l -> f x = Ok y -> P y) -> Forall P l' /\ length l' = length l.
Proof.
  revert l'. induction l as [|x t IH]; intros l' H HP; cbn [mapM] in H.
  - injection H as <-. split; [constructor|reflexivity].
  - destruct (f x) as [y|e] eqn:Ef; [|discriminate]. cbn [bind] in H.
    destruct (mapM f t) as [r|e] eqn:Et; [|discriminate]. cbn [bind] in H. injection H as <-.
    destruct (IH r eq_refl) as (H1 & H2); [intros; eapply HP; [right|]; eassumption|].
    split; [constructor; [eapply HP; [left; reflexivity|exact Ef]|exact H1]|cbn; lia].
Qed.

Lemma align_one_same b : align_one (n_min b) (n_max b) b = Ok b.
Proof.
  unfold align_one. replace (0 <? n_min b - n_min b) with false by lia. cbn [bind].
  replace (0 <? n_max b - n_max b) with false by lia. reflexivity.
Qed.

Lemma mapM_id {A} (f : A -> res A) l : (forall x, In x l -> f x = Ok x) -> mapM f l = Ok l.
Proof.
  induction l as [|x t IH]; intros H; cbn [mapM]; [reflexivity|].
  rewrite (H x (or_introl eq_refl)). cbn [bind]. rewrite IH by (intros; apply H; right; assumption). reflexivity.
Qed.

Lemma list_min_const x l : (forall y, In y l -> y = x) -> list_min x l = x.
Proof.
  intros H. destruct (list_min_in x l) as [E|E]; [exact E|]. apply H. exact E.
Qed.
Lemma list_max_const x l : (forall y, In y l -> y = x) -> list_max x l = x.
Proof.
  intros H. destruct (list_max_in x l) as [E|E]; [exact E|]. apply H. exact E.
Qed.

Theorem same_extent f_min f_max commons l :
  oms_maps f_min f_max commons = Ok l ->
  length l = length commons /\
  Forall (fun b => n_min b = frequency_to_n f_min default_grid /\ n_max b = frequency_to_n f_max default_grid /\
                   idx b = zrange (n_min b) (n_max b + 1) /\ NoDup (idx b) /\
                   length (cells b) = length (idx b)) l.
Proof.
  unfold oms_maps. destruct (mapM _ commons) as [raw|e] eqn:Eraw; [|discriminate]. cbn [bind]. intros Hal.
  set (P := fun b => n_min b = frequency_to_n f_min default_grid /\ n_max b = frequency_to_n f_max default_grid /\
                     idx b = zrange (n_min b) (n_max b + 1) /\ NoDup (idx b) /\ length (cells b) = length (idx b)).
  assert (Hraw : Forall P raw /\ length raw = length commons).
  { apply (mapM_Forall _ P commons raw Eraw). intros common b _ Hb.
    destruct (create_oms_bitmap common f_min f_max default_grid) as [c|e]; [|discriminate]. cbn [bind] in Hb.
    unfold mk_bitmap in Hb. destruct (Qeq_bool default_grid 0); [discriminate|].
    destruct (Nat.eqb _ _) eqn:E; [|discriminate]. injection Hb as <-. unfold P. cbn [n_min n_max idx cells].
    apply Nat.eqb_eq in E. repeat split; auto. apply zrange_NoDup. }
  destruct Hraw as (HP & Hlen).
  assert (l = raw); [|subst; auto].
  destruct raw as [|b t]; [discriminate|]. cbn [align_grids] in Hal.
  rewrite Forall_forall in HP.
  assert (Hb : P b) by (apply HP; left; reflexivity).
  rewrite list_min_const, list_max_const in Hal.
  - rewrite mapM_id in Hal; [congruence|].
    intros x Hx. destruct (HP x Hx) as (E1 & E2 & _). destruct Hb as (E3 & E4 & _).
    rewrite E3, E4, <- E1, <- E2. apply align_one_same.
  - intros y Hy. apply in_map_iff in Hy. destruct Hy as (x & <- & Hx).
    destruct (HP x (or_intror Hx)) as (_ & E2 & _). destruct Hb as (_ & E4 & _). congruence.
  - intros y Hy. apply in_map_iff in Hy. destruct Hy as (x & <- & Hx).
    destruct (HP x (or_intror Hx)) as (E1 & _). destruct Hb as (E3 & _). congruence.
Qed.
