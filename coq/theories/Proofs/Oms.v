(* Proofs about Model/Oms.v (property C15). *)
From Coq Require Import QArith Qround Lia ZifyBool Permutation.
From Verif Require Import Prelude Model.Spectrum Model.Oms.
Local Open Scope Z_scope.

(* ================================================================ lists of integers *)
Lemma zrange_length a b : Z.of_nat (length (zrange a b)) = Z.max 0 (b - a).
Proof. unfold zrange. rewrite map_length, seq_length. lia. Qed.

Lemma zrange_nil a b : b <= a -> zrange a b = [].
Proof. intros H. unfold zrange. replace (Z.to_nat (b - a)) with O by lia. reflexivity. Qed.

Lemma zrange_cons a b : a < b -> zrange a b = a :: zrange (a + 1) b.
Proof.
  intros H. unfold zrange.
  replace (Z.to_nat (b - a)) with (S (Z.to_nat (b - (a + 1)))) by lia.
  cbn [seq map]. f_equal. { lia. }
  rewrite <- seq_shift, map_map. apply map_ext. intros k. lia.
Qed.

Lemma zrange_app a b c : a <= b -> b <= c -> zrange a c = zrange a b ++ zrange b c.
Proof.
  intros Hab Hbc. unfold zrange.
  replace (Z.to_nat (c - a)) with (Z.to_nat (b - a) + Z.to_nat (c - b))%nat by lia.
  rewrite seq_app, map_app. f_equal. cbn [plus].
  rewrite <- (Nat.add_0_r (Z.to_nat (b - a))) at 1.
  generalize (Z.to_nat (c - b)) as m. generalize 0%nat as s. intros s m.
  revert s. induction m as [|m IH]; intros s; [reflexivity|].
  cbn [seq map]. f_equal. { lia. }
  specialize (IH (S s)). rewrite <- Nat.add_succ_comm in IH. exact IH.
Qed.

Lemma zrange_snoc a b : a <= b -> zrange a (b + 1) = zrange a b ++ [b].
Proof.
  intros H. rewrite (zrange_app a b (b + 1)) by lia. f_equal.
  rewrite zrange_cons by lia. rewrite zrange_nil by lia. reflexivity.
Qed.

Lemma In_zrange a b n : In n (zrange a b) <-> a <= n < b.
Proof.
  unfold zrange. rewrite in_map_iff. split.
  - intros (k & Hk & Hin). apply in_seq in Hin. lia.
  - intros H. exists (Z.to_nat (n - a)). split; [lia|]. apply in_seq. lia.
Qed.

Lemma zrange_NoDup a b : NoDup (zrange a b).
Proof.
  unfold zrange. apply FinFun.Injective_map_NoDup.
  - intros x y Hxy. lia.
  - apply seq_NoDup.
Qed.

Lemma zindex_from_zrange a b n k :
  zindex_from (zrange a b) n k = if (a <=? n) && (n <? b) then Some (k + (n - a)) else None.
Proof.
  destruct (Z_lt_le_dec a b) as [Hlt|Hge].
  2:{ rewrite zrange_nil by lia. cbn. destruct ((a <=? n) && (n <? b)) eqn:E; [lia|reflexivity]. }
  remember (Z.to_nat (b - a)) as m eqn:Hm. revert a k Hlt Hm.
  induction m as [|m IH]; intros a k Hlt Hm; [lia|].
  rewrite zrange_cons by lia. cbn [zindex_from].
  destruct (a =? n) eqn:Ean.
  - assert (a = n) by lia. subst. replace ((n <=? n) && (n <? b)) with true by lia. f_equal. lia.
  - destruct (Z_lt_le_dec (a + 1) b) as [H1|H1].
    + rewrite (IH (a + 1) (k + 1)) by lia.
      destruct ((a + 1 <=? n) && (n <? b)) eqn:E1; destruct ((a <=? n) && (n <? b)) eqn:E2; try lia.
      * f_equal. lia.
      * reflexivity.
    + rewrite zrange_nil by lia. cbn. destruct ((a <=? n) && (n <? b)) eqn:E2; [lia|reflexivity].
Qed.

Lemma zindex_zrange a b n : zindex (zrange a b) n = if (a <=? n) && (n <? b) then Some (n - a) else None.
Proof. unfold zindex. rewrite zindex_from_zrange. destruct ((a <=? n) && (n <? b)); reflexivity. Qed.

Lemma rep_length {A} (x : A) k : Z.of_nat (length (rep x k)) = Z.max 0 k.
Proof. unfold rep. rewrite repeat_length. lia. Qed.

(* Z-indexed access *)
Definition znth {A} (l : list A) (i : Z) : option A := if i <? 0 then None else nth_error l (Z.to_nat i).

Lemma znth_app_l {A} (l1 l2 : list A) i : 0 <= i < Z.of_nat (length l1) -> znth (l1 ++ l2) i = znth l1 i.
Proof. intros H. unfold znth. destruct (i <? 0) eqn:E; [lia|]. apply nth_error_app1. lia. Qed.

Lemma znth_app_r {A} (l1 l2 : list A) i :
  Z.of_nat (length l1) <= i -> znth (l1 ++ l2) i = znth l2 (i - Z.of_nat (length l1)).
Proof.
  intros H. unfold znth. destruct (i <? 0) eqn:E; [lia|].
  destruct (i - Z.of_nat (length l1) <? 0) eqn:E2; [lia|].
  rewrite nth_error_app2 by lia. f_equal. lia.
Qed.

Lemma znth_rep {A} (x : A) k i : 0 <= i < k -> znth (rep x k) i = Some x.
Proof.
  intros H. unfold znth, rep. destruct (i <? 0) eqn:E; [lia|].
  apply nth_error_repeat. lia.
Qed.

Lemma znth_none {A} (l : list A) i : Z.of_nat (length l) <= i -> znth l i = None.
Proof. intros H. unfold znth. destruct (i <? 0); [reflexivity|]. apply nth_error_None. lia. Qed.

(* ================================================================ int() on exact rationals *)
Lemma qtrunc_nonneg q : (0 <= q)%Q -> qtrunc q = Qfloor q.
Proof.
  destruct q as [n d]. unfold Qle, qtrunc, Qfloor. cbn [Qnum Qden]. intros H.
  apply Z.quot_div_nonneg; lia.
Qed.

Lemma qtrunc_neg q : (q < 0)%Q -> qtrunc q = Qceiling q.
Proof.
  destruct q as [n d]. unfold Qlt, qtrunc, Qceiling, Qfloor, Qopp. cbn [Qnum Qden]. intros H.
  replace n with (- (- n)) at 1 by lia.
  rewrite Z.quot_opp_l by lia. f_equal. apply Z.quot_div_nonneg; lia.
Qed.

Lemma qtrunc_le a b : (a <= b)%Q -> qtrunc a <= qtrunc b.
Proof.
  intros Hab.
  destruct (Qlt_le_dec a 0) as [Ha|Ha]; destruct (Qlt_le_dec b 0) as [Hb|Hb].
  - rewrite !qtrunc_neg by assumption. apply Qceiling_resp_le. exact Hab.
  - rewrite (qtrunc_neg a) by assumption. rewrite (qtrunc_nonneg b) by assumption.
    assert (H1 : Qceiling a <= Qceiling 0) by (apply Qceiling_resp_le, Qlt_le_weak, Ha).
    assert (H2 : Qfloor 0 <= Qfloor b) by (apply Qfloor_resp_le, Hb).
    change (Qceiling 0) with 0 in H1. change (Qfloor 0) with 0 in H2. lia.
  - exfalso. apply (Qlt_irrefl 0). apply Qle_lt_trans with b; [|exact Hb]. apply Qle_trans with a; assumption.
  - rewrite !qtrunc_nonneg by (try assumption; apply Qle_trans with a; assumption).
    apply Qfloor_resp_le. exact Hab.
Qed.

Lemma qtrunc_Z q n : (q == inject_Z n)%Q -> qtrunc q = n.
Proof.
  destruct q as [a d]. unfold Qeq, qtrunc, inject_Z. cbn [Qnum Qden]. intros H.
  replace a with (n * Zpos d) by lia. apply Z.quot_mul. lia.
Qed.

(* ================================================================ frequency <-> slot number *)
Lemma frequency_to_n_on_grid f k grid :
  ~ (grid == 0)%Q -> (f == nvalue_to_frequency k grid)%Q -> frequency_to_n f grid = k.
Proof.
  intros Hg Hf. unfold frequency_to_n. apply qtrunc_Z. rewrite Hf. unfold nvalue_to_frequency. field. exact Hg.
Qed.

Theorem n_freq_roundtrip n grid :
  ~ (grid == 0)%Q -> frequency_to_n (nvalue_to_frequency n grid) grid = n.
Proof. intros Hg. apply frequency_to_n_on_grid; [exact Hg|reflexivity]. Qed.

Lemma frequency_to_n_le f1 f2 grid : (0 < grid)%Q -> (f1 <= f2)%Q -> frequency_to_n f1 grid <= frequency_to_n f2 grid.
Proof.
  intros Hg H. unfold frequency_to_n. apply qtrunc_le. unfold Qdiv.
  apply Qmult_le_compat_r.
  - unfold Qminus. apply Qplus_le_compat; [exact H|apply Qle_refl].
  - apply Qlt_le_weak, Qinv_lt_0_compat, Hg.
Qed.

Lemma nvalue_to_frequency_le a b grid : (0 < grid)%Q -> a <= b -> (nvalue_to_frequency a grid <= nvalue_to_frequency b grid)%Q.
Proof.
  intros Hg H. unfold nvalue_to_frequency. apply Qplus_le_compat; [apply Qle_refl|].
  apply Qmult_le_compat_r; [|apply Qlt_le_weak, Hg]. rewrite <- Zle_Qle. exact H.
Qed.

Lemma nvalue_to_frequency_le_inv a b grid :
  (0 < grid)%Q -> (nvalue_to_frequency a grid <= nvalue_to_frequency b grid)%Q -> a <= b.
Proof.
  intros Hg H. destruct (Z_le_gt_dec a b) as [Hle|Hgt]; [exact Hle|exfalso].
  assert (Hn : frequency_to_n (nvalue_to_frequency a grid) grid <= frequency_to_n (nvalue_to_frequency b grid) grid)
    by (apply frequency_to_n_le; assumption).
  assert (Hg0 : ~ (grid == 0)%Q) by (intros E; rewrite E in Hg; discriminate).
  rewrite !n_freq_roundtrip in Hn by exact Hg0. lia.
Qed.

(* the IEEE-double round trip, finite: every n in [-4000, 4000] on the 6.25 GHz grid (computed, not reasoned) *)
Theorem n_freq_roundtrip_float :
  forall n, -4000 <= n <= 4000 ->
    F.frequency_to_n (F.nvalue_to_frequency n (F.of_Z 6250000000)) (F.of_Z 6250000000) = n.
Proof.
  assert (H : forallb (fun n => F.frequency_to_n (F.nvalue_to_frequency n (F.of_Z 6250000000)) (F.of_Z 6250000000) =? n)
                      (zrange (-4000) 4001) = true) by (vm_compute; reflexivity).
  intros n Hn. rewrite forallb_forall in H. specialize (H n). rewrite In_zrange in H.
  specialize (H ltac:(lia)). lia.
Qed.

Theorem slots_roundtrip n m : slots_to_m (fst (mvalue_to_slots n m)) (snd (mvalue_to_slots n m)) = (n, m).
Proof.
  unfold slots_to_m, mvalue_to_slots. cbn [fst snd]. f_equal.
  - replace (n - m + (n + m - 1) + 1) with (n * 2) by lia. apply Z.quot_mul. lia.
  - replace (n + m - 1 - (n - m) + 1) with (m * 2) by lia. apply Z.quot_mul. lia.
Qed.

Theorem slots_roundtrip_inv a m :
  let b := a + 2 * m - 1 in
  mvalue_to_slots (fst (slots_to_m a b)) (snd (slots_to_m a b)) = (a, b).
Proof.
  cbn zeta. unfold slots_to_m, mvalue_to_slots. cbn [fst snd].
  replace (a + (a + 2 * m - 1) + 1) with ((a + m) * 2) by lia.
  replace (a + 2 * m - 1 - a + 1) with (m * 2) by lia.
  rewrite !Z.quot_mul by lia. f_equal; lia.
Qed.

(* ================================================================ create_oms_bitmap *)
(* bands as slot pairs: each non-empty, not before the end of the previous one (facing edges may share a slot), the
   last one not beyond nmax *)
Fixpoint sep (prev : Z) (nb : list (Z * Z)) (nmax : Z) : Prop :=
  match nb with
  | [] => prev <= nmax
  | (lo, hi) :: t => prev <= lo /\ lo <= hi /\ sep hi t nmax
  end.

Lemma oms_tail_length nmax nb : forall prev, sep prev nb nmax ->
  Z.of_nat (length (oms_tail nmax prev nb)) = nmax - prev.
Proof.
  induction nb as [|[lo hi] t IH]; intros prev H; cbn [oms_tail sep] in *.
  - rewrite rep_length. lia.
  - destruct H as (H1 & H2 & H3). cbv zeta.
    replace (Z.max hi (Z.max lo (prev + 1) - 1)) with hi by lia.
    rewrite !app_length, !Nat2Z.inj_add, !rep_length, (IH hi H3). lia.
Qed.

Lemma in_slots_cons lo hi t n : in_slots ((lo, hi) :: t) n = ((lo <=? n) && (n <=? hi)) || in_slots t n.
Proof. reflexivity. Qed.

Lemma sep_not_in nmax nb : forall prev n, sep prev nb nmax -> n < prev -> in_slots nb n = false.
Proof.
  induction nb as [|[lo hi] t IH]; intros prev n H Hn; [reflexivity|].
  cbn [sep] in H. destruct H as (H1 & H2 & H3). rewrite in_slots_cons.
  rewrite (IH hi n H3) by lia. lia.
Qed.

(* one cell per slot after prev: FREE iff the slot lies in the slot range of some band - a slot shared by the facing
   edges of two bands is one FREE cell *)
Lemma oms_tail_znth nmax nb : forall prev n, sep prev nb nmax -> prev < n <= nmax ->
  znth (oms_tail nmax prev nb) (n - prev - 1) = Some (if in_slots nb n then SF else SU).
Proof.
  induction nb as [|[lo hi] t IH]; intros prev n H Hn; cbn [oms_tail sep] in *.
  - cbn. apply znth_rep. lia.
  - destruct H as (H1 & H2 & H3). rewrite in_slots_cons. cbv zeta.
    replace (Z.max hi (Z.max lo (prev + 1) - 1)) with hi by lia.
    set (lo' := Z.max lo (prev + 1)).
    destruct (Z_lt_le_dec n lo') as [Ha|Ha].
    + rewrite znth_app_l by (rewrite rep_length; lia).
      rewrite znth_rep by lia.
      replace ((lo <=? n) && (n <=? hi)) with false by lia.
      rewrite (sep_not_in nmax t hi n H3) by lia. reflexivity.
    + rewrite znth_app_r by (rewrite rep_length; lia). rewrite rep_length.
      destruct (Z_le_gt_dec n hi) as [Hb|Hb].
      * rewrite znth_app_l by (rewrite rep_length; lia). rewrite znth_rep by lia.
        replace ((lo <=? n) && (n <=? hi)) with true by lia. reflexivity.
      * rewrite znth_app_r by (rewrite rep_length; lia). rewrite rep_length.
        replace ((lo <=? n) && (n <=? hi)) with false by lia. cbn [orb].
        rewrite <- (IH hi n H3) by lia. f_equal. lia.
Qed.

Lemma oms_cells_tail nmin nmax lo hi t :
  nmin <= lo -> lo <= hi -> oms_cells nmin nmax ((lo, hi) :: t) = Ok (oms_tail nmax (nmin - 1) ((lo, hi) :: t)).
Proof.
  intros H1 H2. cbn [oms_cells oms_tail]. cbv zeta.
  replace (Z.max lo (nmin - 1 + 1)) with lo by lia. replace (Z.max hi (lo - 1)) with hi by lia.
  do 3 f_equal. lia.
Qed.

Lemma oms_cells_spec nmin nmax nb :
  nb <> [] -> sep (nmin - 1) nb nmax -> (forall lo hi t, nb = (lo, hi) :: t -> nmin <= lo) ->
  exists c, oms_cells nmin nmax nb = Ok c /\ Z.of_nat (length c) = nmax - nmin + 1 /\
            forall n, nmin <= n <= nmax -> znth c (n - nmin) = Some (if in_slots nb n then SF else SU).
Proof.
  intros Hne Hs Hfirst. destruct nb as [|[lo hi] t]; [congruence|].
  pose proof (Hfirst lo hi t eq_refl) as Hlo. pose proof Hs as (_ & Hlh & _).
  eexists. split; [apply oms_cells_tail; assumption|]. split.
  - rewrite (oms_tail_length _ _ _ Hs). lia.
  - intros n Hn. rewrite <- (oms_tail_znth nmax ((lo, hi) :: t) (nmin - 1) n Hs) by lia. f_equal. lia.
Qed.

(* bands in frequency: sorted, not overlapping (consecutive bands may touch), inside [f_min, f_max] *)
Fixpoint sorted_from (prev : Q) (common : list band) (f_max : Q) : Prop :=
  match common with
  | [] => (prev <= f_max)%Q
  | (lo, hi) :: t => (prev <= lo)%Q /\ (lo <= hi)%Q /\ sorted_from hi t f_max
  end.
Definition sorted_in (f_min f_max : Q) (common : list band) : Prop :=
  match common with
  | [] => False
  | (lo, hi) :: t => (f_min <= lo)%Q /\ (lo <= hi)%Q /\ sorted_from hi t f_max
  end.
Definition on_grid (grid f : Q) : Prop := exists k, (f == nvalue_to_frequency k grid)%Q.

Lemma sep_of_sorted grid f_max t : (0 < grid)%Q -> forall prev,
  sorted_from prev t f_max ->
  sep (frequency_to_n prev grid) (map (band_slots grid) t) (frequency_to_n f_max grid).
Proof.
  intros Hg. induction t as [|[lo hi] t IH]; intros prev Hs; cbn [map sep sorted_from] in *.
  - apply frequency_to_n_le; assumption.
  - destruct Hs as (H1 & H2 & H3). unfold band_slots at 1. cbn [fst snd].
    split; [apply frequency_to_n_le; assumption|]. split; [apply frequency_to_n_le; assumption|].
    apply IH. exact H3.
Qed.

(* for ALL sorted non-overlapping common bands inside [f_min, f_max] (since 5d131b9c no slot-level separation is
   needed): one cell per slot of n_min..n_max; cell n is FREE iff n lies in the slot range of some band, so a slot
   shared by the facing edges of two bands is FREE once *)
Theorem bitmap_len grid f_min f_max common :
  (0 < grid)%Q -> sorted_in f_min f_max common ->
  exists c, create_oms_bitmap common f_min f_max grid = Ok c /\
            Z.of_nat (length c) = frequency_to_n f_max grid - frequency_to_n f_min grid + 1 /\
            forall n, frequency_to_n f_min grid <= n <= frequency_to_n f_max grid ->
                      znth c (n - frequency_to_n f_min grid) =
                      Some (if in_slots (map (band_slots grid) common) n then SF else SU).
Proof.
  intros Hg Hs. unfold create_oms_bitmap.
  assert (Hg0 : Qeq_bool grid 0 = false).
  { destruct (Qeq_bool grid 0) eqn:E; [|reflexivity]. apply Qeq_bool_eq in E. rewrite E in Hg. discriminate. }
  rewrite Hg0. destruct common as [|[lo hi] t]; [contradiction|].
  cbn [sorted_in] in Hs. destruct Hs as (H1 & H2 & H3).
  assert (Hlo : frequency_to_n f_min grid <= frequency_to_n lo grid) by (apply frequency_to_n_le; assumption).
  apply oms_cells_spec; [discriminate| |].
  - cbn [map sep]. unfold band_slots at 1. cbn [fst snd].
    split; [lia|]. split; [apply frequency_to_n_le; assumption|].
    apply (sep_of_sorted grid f_max t Hg hi). exact H3.
  - intros lo' hi' t' E. cbn [map] in E. unfold band_slots at 1 in E. cbn [fst snd] in E. injection E as <- _ _. exact Hlo.
Qed.

(* grid-aligned band edges *)
Lemma in_bands_slots grid common n :
  (0 < grid)%Q -> Forall (fun b => on_grid grid (fst b) /\ on_grid grid (snd b)) common ->
  in_slots (map (band_slots grid) common) n = in_bands grid common n.
Proof.
  intros Hg Hall. assert (Hg0 : ~ (grid == 0)%Q) by (intros E; rewrite E in Hg; discriminate).
  induction Hall as [|[lo hi] t [(k1 & Hk1) (k2 & Hk2)] _ IH]; [reflexivity|].
  cbn [map in_slots in_bands existsb] in *. unfold in_slots, in_bands in IH. rewrite IH. f_equal.
  unfold band_slots. cbn [fst snd] in *.
  rewrite (frequency_to_n_on_grid lo k1 grid Hg0 Hk1), (frequency_to_n_on_grid hi k2 grid Hg0 Hk2).
  apply eq_true_iff_eq. rewrite !andb_true_iff, !Qle_bool_iff, !Z.leb_le, Hk1, Hk2.
  split; intros [A B]; split;
    try (apply nvalue_to_frequency_le; assumption);
    try (apply (nvalue_to_frequency_le_inv _ _ grid Hg); assumption).
Qed.

Theorem bitmap_marks grid f_min f_max common :
  (0 < grid)%Q -> sorted_in f_min f_max common ->
  Forall (fun b => on_grid grid (fst b) /\ on_grid grid (snd b)) common ->
  exists c, create_oms_bitmap common f_min f_max grid = Ok c /\
            Z.of_nat (length c) = frequency_to_n f_max grid - frequency_to_n f_min grid + 1 /\
            forall n, frequency_to_n f_min grid <= n <= frequency_to_n f_max grid ->
                      znth c (n - frequency_to_n f_min grid) = Some (if in_bands grid common n then SF else SU).
Proof.
  intros Hg Hs Hall.
  destruct (bitmap_len grid f_min f_max common Hg Hs) as (c & Hc & Hl & Hn).
  exists c. split; [exact Hc|]. split; [exact Hl|].
  intros n Hr. rewrite (Hn n Hr). rewrite (in_bands_slots grid common n Hg Hall). reflexivity.
Qed.

(* ================================================================ Bitmap construction *)
(* a well-formed map: contiguous index (possibly empty), one cell per index *)
Definition bwf (b : bitmap) : Prop :=
  n_min b <= n_max b + 1 /\ idx b = zrange (n_min b) (n_max b + 1) /\
  Z.of_nat (length (cells b)) = n_max b - n_min b + 1.

Lemma Qeq_bool_pos_false g : (0 < g)%Q -> Qeq_bool g 0 = false.
Proof.
  intros Hg. destruct (Qeq_bool g 0) eqn:E; [|reflexivity]. apply Qeq_bool_eq in E. rewrite E in Hg. discriminate.
Qed.

Lemma mk_bitmap_wf f_min f_max grid gbd ex b :
  mk_bitmap f_min f_max grid gbd ex = Ok b ->
  frequency_to_n f_min grid <= frequency_to_n f_max grid + 1 ->
  bwf b /\ n_min b = frequency_to_n f_min grid /\ n_max b = frequency_to_n f_max grid /\
  match ex with Some c => cells b = c | None => True end.
Proof.
  unfold mk_bitmap. destruct (Qeq_bool grid 0); [discriminate|]. intros H Hle.
  destruct ex as [c|].
  - destruct (Nat.eqb (length c) (length (zrange (frequency_to_n f_min grid) (frequency_to_n f_max grid + 1)))) eqn:E;
      [|discriminate].
    injection H as <-. unfold bwf. cbn [n_min n_max idx cells]. apply Nat.eqb_eq in E.
    repeat split; try lia. rewrite E, zrange_length. lia.
  - injection H as <-. unfold bwf. cbn [n_min n_max idx cells]. repeat split; try lia. rewrite rep_length. lia.
Qed.

Theorem mk_bitmap_ok f_min f_max grid gbd :
  (0 < grid)%Q -> (f_min <= f_max)%Q ->
  exists b, mk_bitmap f_min f_max grid gbd None = Ok b /\ bwf b /\ n_min b <= n_max b.
Proof.
  intros Hg Hf. unfold mk_bitmap. rewrite (Qeq_bool_pos_false grid Hg). eexists. split; [reflexivity|].
  assert (frequency_to_n f_min grid <= frequency_to_n f_max grid) by (apply frequency_to_n_le; assumption).
  unfold bwf. cbn [n_min n_max idx cells]. repeat split; try lia. rewrite rep_length. lia.
Qed.

(* ================================================================ align_grids *)
Definition extended (Nmin Nmax : Z) (b : bitmap) : bitmap :=
  mkB Nmin Nmax (fi_min b) (fi_max b) (gb b) (zrange Nmin (Nmax + 1))
      (rep SO (n_min b - Nmin) ++ cells b ++ rep SO (Nmax - n_max b)).

Lemma hd_zrange a b : a < b -> exists t, zrange a b = a :: t.
Proof. intros H. rewrite zrange_cons by lia. eauto. Qed.

Lemma last_zrange a b d : a < b -> List.last (zrange a b) d = b - 1.
Proof.
  intros H. replace b with ((b - 1) + 1) at 1 by lia. rewrite zrange_snoc by lia. apply last_last.
Qed.

Lemma rep_nil {A} (x : A) k : k <= 0 -> rep x k = [].
Proof. intros H. unfold rep. replace (Z.to_nat k) with O by lia. reflexivity. Qed.

Lemma match_cons {A B} (l : list A) (e f : B) : l <> [] -> match l with [] => e | _ :: _ => f end = f.
Proof. destruct l; [congruence|reflexivity]. Qed.

Lemma zrange_nonempty a b : a < b -> zrange a b <> [].
Proof. intros H. rewrite zrange_cons by lia. discriminate. Qed.

Lemma insert_left_wf b k :
  bwf b -> 0 < k ->
  insert_left b (rep SO k) =
  Ok (mkB (n_min b - k) (n_max b) (fi_min b) (fi_max b) (gb b) (zrange (n_min b - k) (n_max b + 1)) (rep SO k ++ cells b)).
Proof.
  intros (Hle & Hidx & Hlen) Hk. unfold insert_left. rewrite rep_length, Hidx.
  replace (n_min b - Z.max 0 k) with (n_min b - k) by lia.
  rewrite <- (zrange_app (n_min b - k) (n_min b) (n_max b + 1)) by lia.
  destruct (hd_zrange (n_min b - k) (n_max b + 1) ltac:(lia)) as (t & Ht). rewrite Ht. reflexivity.
Qed.

Lemma insert_right_wf b k :
  bwf b -> 0 < k ->
  insert_right b (rep SO k) =
  Ok (mkB (n_min b) (n_max b + k) (fi_min b) (fi_max b) (gb b) (zrange (n_min b) (n_max b + k + 1)) (cells b ++ rep SO k)).
Proof.
  intros (Hle & Hidx & Hlen) Hk. unfold insert_right. rewrite rep_length, Hidx.
  replace (n_max b + 1 + Z.max 0 k) with (n_max b + k + 1) by lia.
  rewrite <- (zrange_app (n_min b) (n_max b + 1) (n_max b + k + 1)) by lia.
  rewrite match_cons by (apply zrange_nonempty; lia).
  rewrite last_zrange by lia. do 2 f_equal. lia.
Qed.

Lemma align_one_extended Nmin Nmax b :
  bwf b -> Nmin <= n_min b -> n_max b <= Nmax -> align_one Nmin Nmax b = Ok (extended Nmin Nmax b).
Proof.
  intros Hwf H1 H2. pose proof Hwf as (Hle & Hidx & Hlen). unfold align_one, extended.
  destruct (0 <? n_min b - Nmin) eqn:El.
  - rewrite (insert_left_wf b (n_min b - Nmin) Hwf) by lia. cbn [bind n_max n_min].
    replace (n_min b - (n_min b - Nmin)) with Nmin by lia.
    destruct (0 <? Nmax - n_max b) eqn:Er.
    + rewrite insert_right_wf; [| |lia].
      * cbn [n_min n_max fi_min fi_max gb cells]. replace (n_max b + (Nmax - n_max b)) with Nmax by lia.
        rewrite <- app_assoc. reflexivity.
      * unfold bwf. cbn [n_min n_max idx cells]. repeat split; try lia.
        rewrite app_length, Nat2Z.inj_add, rep_length. lia.
    + assert (Nmax = n_max b) by lia. subst Nmax.
      rewrite (rep_nil SO (n_max b - n_max b)) by lia. rewrite app_nil_r. reflexivity.
  - cbn [bind]. assert (Nmin = n_min b) by lia. subst Nmin. rewrite (rep_nil SO (n_min b - n_min b)) by lia.
    cbn [app].
    destruct (0 <? Nmax - n_max b) eqn:Er.
    + rewrite (insert_right_wf b (Nmax - n_max b) Hwf) by lia.
      replace (n_max b + (Nmax - n_max b)) with Nmax by lia. reflexivity.
    + assert (Nmax = n_max b) by lia. subst Nmax. rewrite (rep_nil SO (n_max b - n_max b)) by lia.
      rewrite app_nil_r, <- Hidx. destruct b; reflexivity.
Qed.

(* what alignment must achieve for one map *)
Definition aligned (Nmin Nmax : Z) (b b' : bitmap) : Prop :=
  n_min b' = Nmin /\ n_max b' = Nmax /\ idx b' = zrange Nmin (Nmax + 1) /\ NoDup (idx b') /\
  Z.of_nat (length (cells b')) = Nmax - Nmin + 1 /\
  fi_min b' = fi_min b /\ fi_max b' = fi_max b /\
  forall n, cell_at b' n =
            if (n_min b <=? n) && (n <=? n_max b) then cell_at b n
            else if (Nmin <=? n) && (n <=? Nmax) then Some SO else None.

Lemma cell_at_wf b n : bwf b ->
  cell_at b n = if (n_min b <=? n) && (n <=? n_max b) then znth (cells b) (n - n_min b) else None.
Proof.
  intros (Hle & Hidx & Hlen). unfold cell_at. rewrite Hidx, zindex_zrange.
  destruct ((n_min b <=? n) && (n <? n_max b + 1)) eqn:E1; destruct ((n_min b <=? n) && (n <=? n_max b)) eqn:E2; try lia.
  - unfold znth. destruct (n - n_min b <? 0) eqn:E3; [lia|reflexivity].
  - reflexivity.
Qed.

Lemma extended_aligned Nmin Nmax b :
  bwf b -> Nmin <= n_min b -> n_max b <= Nmax -> aligned Nmin Nmax b (extended Nmin Nmax b).
Proof.
  intros Hwf H1 H2. pose proof Hwf as (Hle & Hidx & Hlen).
  assert (Hwf' : bwf (extended Nmin Nmax b)).
  { unfold bwf, extended. cbn [n_min n_max idx cells]. repeat split; try lia.
    rewrite !app_length, !Nat2Z.inj_add, !rep_length. lia. }
  unfold aligned. repeat split; try reflexivity.
  - apply zrange_NoDup.
  - destruct Hwf' as (_ & _ & Hl). exact Hl.
  - intros n. rewrite (cell_at_wf _ n Hwf'). rewrite (cell_at_wf b n Hwf).
    unfold extended. cbn [n_min n_max cells].
    destruct ((n_min b <=? n) && (n <=? n_max b)) eqn:Ein.
    + replace ((Nmin <=? n) && (n <=? Nmax)) with true by lia.
      rewrite znth_app_r by (rewrite rep_length; lia). rewrite rep_length.
      rewrite znth_app_l by lia. f_equal. lia.
    + destruct ((Nmin <=? n) && (n <=? Nmax)) eqn:Eout; [|reflexivity].
      destruct (Z_lt_le_dec n (n_min b)) as [Hl|Hl].
      * rewrite znth_app_l by (rewrite rep_length; lia). apply znth_rep. lia.
      * rewrite znth_app_r by (rewrite rep_length; lia). rewrite rep_length.
        rewrite znth_app_r by lia. apply znth_rep. lia.
Qed.

Lemma list_min_le x l : list_min x l <= x /\ forall y, In y l -> list_min x l <= y.
Proof.
  unfold list_min. revert x. induction l as [|a t IH]; intros x; cbn [fold_left].
  - split; [lia|intros y []].
  - destruct (IH (Z.min x a)) as (H1 & H2). split; [lia|].
    intros y [<-|Hy]; [lia|auto].
Qed.

Lemma list_max_ge x l : x <= list_max x l /\ forall y, In y l -> y <= list_max x l.
Proof.
  unfold list_max. revert x. induction l as [|a t IH]; intros x; cbn [fold_left].
  - split; [lia|intros y []].
  - destruct (IH (Z.max x a)) as (H1 & H2). split; [lia|].
    intros y [<-|Hy]; [lia|auto].
Qed.

Lemma list_min_in x l : list_min x l = x \/ In (list_min x l) l.
Proof.
  unfold list_min. revert x. induction l as [|a t IH]; intros x; cbn [fold_left]; [auto|].
  destruct (IH (Z.min x a)) as [H|H]; [|right; right; exact H].
  rewrite H. destruct (Z.min_spec x a) as [[_ E]|[_ E]]; rewrite E; [left; reflexivity|right; left; reflexivity].
Qed.

Lemma list_max_in x l : list_max x l = x \/ In (list_max x l) l.
Proof.
  unfold list_max. revert x. induction l as [|a t IH]; intros x; cbn [fold_left]; [auto|].
  destruct (IH (Z.max x a)) as [H|H]; [|right; right; exact H].
  rewrite H. destruct (Z.max_spec x a) as [[_ E]|[_ E]]; rewrite E; [right; left; reflexivity|left; reflexivity].
Qed.

Lemma mapM_Forall2 {A B} (f : A -> res B) (P : A -> B -> Prop) l :
  (forall x, In x l -> exists y, f x = Ok y /\ P x y) ->
  exists l', mapM f l = Ok l' /\ Forall2 P l l'.
Proof.
  induction l as [|x t IH]; intros H; cbn [mapM].
  - exists []. split; [reflexivity|constructor].
  - destruct (H x (or_introl eq_refl)) as (y & Hy & Py). rewrite Hy. cbn [bind].
    destruct IH as (t' & Ht & Ft); [intros z Hz; apply H; right; exact Hz|].
    rewrite Ht. cbn [bind]. exists (y :: t'). split; [reflexivity|constructor; assumption].
Qed.

(* extent after alignment *)
Definition ext_min (l : list bitmap) : Z := match l with [] => 0 | b :: t => list_min (n_min b) (map n_min t) end.
Definition ext_max (l : list bitmap) : Z := match l with [] => 0 | b :: t => list_max (n_max b) (map n_max t) end.

Lemma ext_min_spec l : l <> [] ->
  (forall b, In b l -> ext_min l <= n_min b) /\ exists b, In b l /\ n_min b = ext_min l.
Proof.
  destruct l as [|b t]; [congruence|]. intros _. cbn [ext_min].
  destruct (list_min_le (n_min b) (map n_min t)) as (H1 & H2). split.
  - intros x [<-|Hx]; [exact H1|]. apply H2, in_map, Hx.
  - destruct (list_min_in (n_min b) (map n_min t)) as [E|E].
    + exists b. split; [left; reflexivity|symmetry; exact E].
    + apply in_map_iff in E. destruct E as (x & Ex & Hx). exists x. split; [right; exact Hx|exact Ex].
Qed.

Lemma ext_max_spec l : l <> [] ->
  (forall b, In b l -> n_max b <= ext_max l) /\ exists b, In b l /\ n_max b = ext_max l.
Proof.
  destruct l as [|b t]; [congruence|]. intros _. cbn [ext_max].
  destruct (list_max_ge (n_max b) (map n_max t)) as (H1 & H2). split.
  - intros x [<-|Hx]; [exact H1|]. apply H2, in_map, Hx.
  - destruct (list_max_in (n_max b) (map n_max t)) as [E|E].
    + exists b. split; [left; reflexivity|symmetry; exact E].
    + apply in_map_iff in E. destruct E as (x & Ex & Hx). exists x. split; [right; exact Hx|exact Ex].
Qed.

(* for ALL non-empty lists of well-formed maps of arbitrary extents *)
Theorem align_spec l :
  l <> [] -> Forall bwf l ->
  exists l', align_grids l = Ok l' /\ Forall2 (aligned (ext_min l) (ext_max l)) l l' /\
             (forall b, In b l -> ext_min l <= n_min b /\ n_max b <= ext_max l) /\
             (exists b, In b l /\ n_min b = ext_min l) /\ (exists b, In b l /\ n_max b = ext_max l).
Proof.
  intros Hne Hwf.
  destruct (ext_min_spec l Hne) as (Hmin & Hmin').
  destruct (ext_max_spec l Hne) as (Hmax & Hmax').
  assert (Hal : align_grids l = mapM (align_one (ext_min l) (ext_max l)) l).
  { destruct l as [|b t]; [congruence|reflexivity]. }
  rewrite Hal.
  destruct (mapM_Forall2 (align_one (ext_min l) (ext_max l)) (aligned (ext_min l) (ext_max l)) l) as (l' & Hl' & HF).
  { intros b Hb. rewrite Forall_forall in Hwf. exists (extended (ext_min l) (ext_max l) b). split.
    - apply align_one_extended; auto.
    - apply extended_aligned; auto. }
  exists l'. repeat split; auto.
Qed.

(* degenerate maps are the reason for the well-formedness premise: with n_max < n_min - 1 the index is not contiguous *)
Theorem align_needs_wf :
  exists l l', align_grids l = Ok l' /\ Forall (fun b => idx b = zrange (n_min b) (n_max b + 1)) l /\
               ~ Forall (fun b => NoDup (idx b) /\ idx b = zrange (n_min b) (n_max b + 1)) l'.
Proof.
  exists [mkB 5 0 0 0 0 [] []; mkB 0 8 0 0 0 (zrange 0 9) (rep SF 9)]. eexists. split; [vm_compute; reflexivity|].
  split.
  - repeat constructor.
  - intros H. inversion H as [|? ? [_ H1] _]; subst. vm_compute in H1. discriminate.
Qed.

(* ================================================================ all maps of one network share one extent *)
Definition oms_maps (f_min f_max : Q) (commons : list (list band)) : res (list bitmap) :=
  let* raw := mapM (fun common => let* c := create_oms_bitmap common f_min f_max default_grid in
                                  mk_bitmap f_min f_max default_grid default_guardband (Some c)) commons in
  align_grids raw.

Lemma mapM_Forall {A B} (f : A -> res B) (P : B -> Prop) l l' :
  mapM f l = Ok l' -> (forall x y, In x l -> f x = Ok y -> P y) -> Forall P l' /\ length l' = length l.
Proof.
  revert l'. induction l as [|x t IH]; intros l' H HP; cbn [mapM] in H.
  - injection H as <-. split; [constructor|reflexivity].
  - destruct (f x) as [y|e] eqn:Ef; [|discriminate]. cbn [bind] in H.
    destruct (mapM f t) as [r|e] eqn:Et; [|discriminate]. cbn [bind] in H. injection H as <-.
    destruct (IH r eq_refl) as (H1 & H2); [intros; eapply HP; [right|]; eassumption|].
    split; [constructor; [eapply HP; [left; reflexivity|exact Ef]|exact H1]|cbn; lia].
Qed.

Lemma align_one_same b : align_one (n_min b) (n_max b) b = Ok b.
Proof.
  unfold align_one. replace (0 <? n_min b - n_min b) with false by lia. cbn [bind].
  replace (0 <? n_max b - n_max b) with false by lia. reflexivity.
Qed.

Lemma mapM_id {A} (f : A -> res A) l : (forall x, In x l -> f x = Ok x) -> mapM f l = Ok l.
Proof.
  induction l as [|x t IH]; intros H; cbn [mapM]; [reflexivity|].
  rewrite (H x (or_introl eq_refl)). cbn [bind]. rewrite IH by (intros; apply H; right; assumption). reflexivity.
Qed.

Lemma list_min_const x l : (forall y, In y l -> y = x) -> list_min x l = x.
Proof.
  intros H. destruct (list_min_in x l) as [E|E]; [exact E|]. apply H. exact E.
Qed.
Lemma list_max_const x l : (forall y, In y l -> y = x) -> list_max x l = x.
Proof.
  intros H. destruct (list_max_in x l) as [E|E]; [exact E|]. apply H. exact E.
Qed.

Theorem same_extent f_min f_max commons l :
  oms_maps f_min f_max commons = Ok l ->
  length l = length commons /\
  Forall (fun b => n_min b = frequency_to_n f_min default_grid /\ n_max b = frequency_to_n f_max default_grid /\
                   idx b = zrange (n_min b) (n_max b + 1) /\ NoDup (idx b) /\
                   length (cells b) = length (idx b)) l.
Proof.
  unfold oms_maps. destruct (mapM _ commons) as [raw|e] eqn:Eraw; [|discriminate]. cbn [bind]. intros Hal.
  set (P := fun b => n_min b = frequency_to_n f_min default_grid /\ n_max b = frequency_to_n f_max default_grid /\
                     idx b = zrange (n_min b) (n_max b + 1) /\ NoDup (idx b) /\ length (cells b) = length (idx b)).
  assert (Hraw : Forall P raw /\ length raw = length commons).
  { apply (mapM_Forall _ P commons raw Eraw). intros common b _ Hb.
    destruct (create_oms_bitmap common f_min f_max default_grid) as [c|e]; [|discriminate]. cbn [bind] in Hb.
    unfold mk_bitmap in Hb. destruct (Qeq_bool default_grid 0); [discriminate|].
    destruct (Nat.eqb _ _) eqn:E; [|discriminate]. injection Hb as <-. unfold P. cbn [n_min n_max idx cells].
    apply Nat.eqb_eq in E. repeat split; auto. apply zrange_NoDup. }
  destruct Hraw as (HP & Hlen).
  assert (l = raw); [|subst; auto].
  destruct raw as [|b t]; [discriminate|]. cbn [align_grids] in Hal.
  rewrite Forall_forall in HP.
  assert (Hb : P b) by (apply HP; left; reflexivity).
  rewrite list_min_const, list_max_const in Hal.
  - rewrite mapM_id in Hal; [congruence|].
    intros x Hx. destruct (HP x Hx) as (E1 & E2 & _). destruct Hb as (E3 & E4 & _).
    rewrite E3, E4, <- E1, <- E2. apply align_one_same.
  - intros y Hy. apply in_map_iff in Hy. destruct Hy as (x & <- & Hx).
    destruct (HP x (or_intror Hx)) as (_ & E2 & _). destruct Hb as (_ & E4 & _). congruence.
  - intros y Hy. apply in_map_iff in Hy. destruct Hy as (x & <- & Hx).
    destruct (HP x (or_intror Hx)) as (E1 & _). destruct Hb as (E3 & _). congruence.
Qed.

Lemma align_grids_same nmin nmax raw l :
  Forall (fun b => n_min b = nmin /\ n_max b = nmax) raw -> align_grids raw = Ok l -> l = raw.
Proof.
  intros HP Hal. destruct raw as [|b t]; [discriminate|]. cbn [align_grids] in Hal.
  rewrite Forall_forall in HP.
  destruct (HP b (or_introl eq_refl)) as (E3 & E4).
  rewrite list_min_const, list_max_const in Hal.
  - rewrite mapM_id in Hal; [congruence|].
    intros x Hx. destruct (HP x Hx) as (E1 & E2). rewrite E3, E4, <- E1, <- E2. apply align_one_same.
  - intros y Hy. apply in_map_iff in Hy. destruct Hy as (x & <- & Hx). destruct (HP x (or_intror Hx)). congruence.
  - intros y Hy. apply in_map_iff in Hy. destruct Hy as (x & <- & Hx). destruct (HP x (or_intror Hx)). congruence.
Qed.

(* ================================================================ OMS partition of chain-structured graphs *)
Definition edge (g : graph) (a b : Z) : Prop := exists n, lookup g a = Some n /\ In b (succs n).
Fixpoint path (g : graph) (p : list Z) : Prop :=
  match p with
  | a :: ((b :: _) as t) => edge g a b /\ path g t
  | _ => True
  end.

Definition is_roadm (n : node) : bool := kind_eqb (kind n) KRoadm.

Record chain_wf (g : graph) (d : list line) : Prop := mkCW {
  cw_nodup : NoDup (map uid g);
  cw_trx : forall n, In n g -> kind n = KTrx -> exists s t, succs n = s :: t /\ is_kind g KRoadm s = true;
  cw_starts : map (fun l => (src l, first_hop l)) d = starts_of g (filter is_roadm g);
  cw_lines : Forall (fun l => line_ok_b g l = true) d;
  cw_disjoint : NoDup (flat_map lels d);
  cw_cover : forall n, In n g -> is_line_node n = true -> In (uid n) (flat_map lels d)
}.

Lemma nodup_b_NoDup l : nodup_b l = true -> NoDup l.
Proof.
  induction l as [|x t IH]; intros H; [constructor|].
  cbn [nodup_b] in H. apply andb_true_iff in H. destruct H as (H1 & H2). constructor; [|auto].
  intros Hin. apply negb_true_iff in H1. apply not_true_iff_false in H1. apply H1.
  apply existsb_exists. exists x. split; [exact Hin|lia].
Qed.

Lemma pairs_eqb_eq a b : pairs_eqb a b = true -> a = b.
Proof.
  revert b. induction a as [|[x y] t IH]; intros [|[x' y'] t'] H; cbn [pairs_eqb] in H; try discriminate; [reflexivity|].
  apply andb_true_iff in H. destruct H as (H1 & H2). apply andb_true_iff in H1. destruct H1 as (H0 & H1).
  f_equal; [f_equal; lia|auto].
Qed.

Theorem chain_wf_b_sound g d : chain_wf_b g d = true -> chain_wf g d.
Proof.
  unfold chain_wf_b. intros H.
  apply andb_true_iff in H. destruct H as (H & H6).
  apply andb_true_iff in H. destruct H as (H & H5).
  apply andb_true_iff in H. destruct H as (H & H4).
  apply andb_true_iff in H. destruct H as (H & H3).
  apply andb_true_iff in H. destruct H as (H1 & H2).
  constructor.
  - apply nodup_b_NoDup. exact H1.
  - intros n Hn Hk. rewrite forallb_forall in H2. specialize (H2 n Hn). rewrite Hk in H2. cbn in H2.
    destruct (succs n) as [|s t]; [discriminate|]. eauto.
  - apply pairs_eqb_eq. exact H3.
  - apply Forall_forall. apply forallb_forall. exact H4.
  - apply nodup_b_NoDup. exact H5.
  - intros n Hn Hl. rewrite forallb_forall in H6. specialize (H6 n Hn). rewrite Hl in H6. cbn in H6.
    apply existsb_exists in H6. destruct H6 as (x & Hx & E). replace (uid n) with x by lia. exact Hx.
Qed.

Lemma is_kind_lookup g k u : is_kind g k u = true -> exists n, lookup g u = Some n /\ kind_eqb k (kind n) = true.
Proof.
  unfold is_kind, kind_of. destruct (lookup g u) as [n|]; cbn [option_map]; [|discriminate]. eauto.
Qed.

Lemma kind_eqb_eq a b : kind_eqb a b = true <-> a = b.
Proof. destruct a, b; cbn; split; intros; congruence. Qed.

Lemma kind_eqb_sym a b : kind_eqb a b = kind_eqb b a.
Proof. destruct a, b; reflexivity. Qed.

(* the while loop follows a chain to its ROADM *)
Lemma walk_chain g : forall p x fuel,
  p <> [] -> chain_ok_b g x p = true -> is_kind g KRoadm (List.last p 0) = true -> (length p <= fuel)%nat ->
  walk g fuel x (hd 0 p) = Ok p.
Proof.
  induction p as [|y t IH]; intros x fuel Hne Hc Hr Hf; [congruence|].
  destruct fuel as [|f]; [cbn in Hf; lia|].
  destruct t as [|z t'].
  - cbn [List.last hd] in *. cbn [walk]. apply is_kind_lookup in Hr. destruct Hr as (n & Hn & Hk).
    rewrite Hn. rewrite kind_eqb_sym in Hk. rewrite Hk. reflexivity.
  - cbn [hd]. cbn [chain_ok_b] in Hc. apply andb_true_iff in Hc. destruct Hc as (Hy & Hrest).
    cbn [walk]. destruct (lookup g y) as [n|]; [|discriminate].
    apply andb_true_iff in Hy. destruct Hy as (Hy1 & Hy2). apply andb_true_iff in Hy1. destruct Hy1 as (Hy0 & Hy1).
    apply negb_true_iff in Hy0. rewrite Hy0.
    destruct (succs n) as [|s [|s2 ss]]; try discriminate.
    apply andb_true_iff in Hy2. destruct Hy2 as (Es & Ez).
    assert (s = z) by lia. subst s. cbn [filter]. replace (z =? x) with false by lia. cbn [negb].
    assert (Hw : walk g f y (hd 0 (z :: t')) = Ok (z :: t')).
    { apply IH; [discriminate|exact Hrest| |cbn [length] in *; lia].
      change (List.last (y :: z :: t') 0) with (List.last (z :: t') 0) in Hr. exact Hr. }
    cbn [hd] in Hw. rewrite Hw. reflexivity.
Qed.

Lemma chain_ok_b_lookup g : forall p x u, chain_ok_b g x p = true -> In u (removelast p) ->
  exists n, lookup g u = Some n /\ kind_eqb (kind n) KRoadm = false /\ kind_eqb (kind n) KTrx = false.
Proof.
  induction p as [|y t IH]; intros x u Hc Hin; [destruct Hin|].
  destruct t as [|z t']; [destruct Hin|].
  cbn [chain_ok_b] in Hc. apply andb_true_iff in Hc. destruct Hc as (Hy & Hrest).
  change (removelast (y :: z :: t')) with (y :: removelast (z :: t')) in Hin.
  destruct Hin as [<-|Hin]; [|eapply IH; eassumption].
  destruct (lookup g y) as [n|]; [|discriminate]. exists n. split; [reflexivity|].
  apply andb_true_iff in Hy. destruct Hy as (Hy1 & _). apply andb_true_iff in Hy1. destruct Hy1 as (A & B).
  apply negb_true_iff in A. apply negb_true_iff in B. auto.
Qed.

Lemma chain_ok_b_path g : forall p x, chain_ok_b g x p = true -> path g p.
Proof.
  induction p as [|y t IH]; intros x Hc; [exact I|].
  destruct t as [|z t']; [exact I|].
  cbn [chain_ok_b] in Hc. apply andb_true_iff in Hc. destruct Hc as (Hy & Hrest).
  cbn [path]. split; [|eapply IH; eassumption].
  destruct (lookup g y) as [n|] eqn:En; [|discriminate]. exists n. split; [exact En|].
  apply andb_true_iff in Hy. destruct Hy as (_ & Hy2).
  destruct (succs n) as [|s [|s2 ss]]; try discriminate. left. lia.
Qed.

Lemma lookup_In g u n : lookup g u = Some n -> In n g /\ uid n = u.
Proof.
  induction g as [|m t IH]; cbn [lookup]; [discriminate|].
  destruct (uid m =? u) eqn:E.
  - intros H. injection H as <-. split; [left; reflexivity|lia].
  - intros H. destruct (IH H). split; [right|]; assumption.
Qed.

Lemma lookup_NoDup g n : NoDup (map uid g) -> In n g -> lookup g (uid n) = Some n.
Proof.
  induction g as [|m t IH]; intros Hnd Hin; [destruct Hin|].
  cbn [lookup]. cbn [map] in Hnd. inversion Hnd as [|? ? Hnot Hnd']; subst.
  destruct Hin as [->|Hin].
  - rewrite Z.eqb_refl. reflexivity.
  - destruct (uid m =? uid n) eqn:E; [|auto].
    exfalso. apply Hnot. replace (uid m) with (uid n) by lia. apply in_map. exact Hin.
Qed.

Lemma trx_vertices_nil g l :
  (forall n, In n l -> kind n = KTrx -> exists s t, succs n = s :: t /\ is_kind g KRoadm s = true) ->
  trx_vertices g l = Ok [].
Proof.
  induction l as [|n t IH]; intros H; [reflexivity|]. cbn [trx_vertices].
  destruct (kind_eqb (kind n) KTrx) eqn:Ek.
  - apply kind_eqb_eq in Ek. destruct (H n (or_introl eq_refl) Ek) as (s & ss & Es & Hs). rewrite Es.
    rewrite IH by (intros; apply H; [right|]; assumption). cbn [bind]. rewrite Hs. reflexivity.
  - apply IH. intros; apply H; [right|]; assumption.
Qed.

Lemma removelast_snoc {A} (l : list A) x : removelast (l ++ [x]) = l.
Proof. apply removelast_last. Qed.

Lemma interior_line_path l : interior (line_path l) = lels l.
Proof. unfold interior, line_path. cbn [tl]. apply removelast_last. Qed.

Lemma NoDup_app_l {A} (l1 l2 : list A) : NoDup (l1 ++ l2) -> NoDup l1.
Proof.
  induction l1 as [|a t IH]; intros H; [constructor|]. cbn [app] in H. inversion H as [|? ? Hn Ht]; subst.
  constructor; [|auto]. intros Hin. apply Hn. apply in_or_app. left. exact Hin.
Qed.
Lemma NoDup_app_r {A} (l1 l2 : list A) : NoDup (l1 ++ l2) -> NoDup l2.
Proof.
  induction l1 as [|a t IH]; intros H; [exact H|]. cbn [app] in H. inversion H; subst. auto.
Qed.

Lemma NoDup_flat_map_in {A B} (f : A -> list B) (l : list A) x :
  NoDup (flat_map f l) -> In x l -> NoDup (f x).
Proof.
  induction l as [|a t IH]; intros Hnd Hin; [destruct Hin|]. cbn [flat_map] in Hnd.
  destruct Hin as [->|Hin].
  - eapply NoDup_app_l. exact Hnd.
  - apply IH; [|exact Hin]. eapply NoDup_app_r. exact Hnd.
Qed.

Lemma oms_els_line g d l :
  chain_wf g d -> In l d -> oms_els g (src l, first_hop l) = Ok (line_path l).
Proof.
  intros W Hl. destruct W as [Wnd Wtrx Wst Wl Wdis Wcov].
  rewrite Forall_forall in Wl. specialize (Wl l Hl). unfold line_ok_b in Wl.
  apply andb_true_iff in Wl. destruct Wl as (Hdst & Hchain).
  unfold oms_els. cbn [fst snd].
  replace (first_hop l) with (hd 0 (lels l ++ [dst l])) by (unfold first_hop; destruct (lels l); reflexivity).
  rewrite (walk_chain g (lels l ++ [dst l]) (src l)); [reflexivity| | | |].
  - destruct (lels l); discriminate.
  - exact Hchain.
  - rewrite last_last. exact Hdst.
  - (* fuel: the line elements are distinct vertices of g *)
    assert (Hnd : NoDup (lels l)) by (eapply NoDup_flat_map_in; eassumption).
    assert (Hincl : incl (lels l) (map uid g)).
    { intros u Hu.
      destruct (chain_ok_b_lookup g (lels l ++ [dst l]) (src l) u Hchain) as (n & Hn & _).
      { rewrite removelast_last. exact Hu. }
      apply lookup_In in Hn. destruct Hn as (Hn & <-). apply in_map. exact Hn. }
    pose proof (NoDup_incl_length Hnd Hincl) as Hlen. rewrite map_length in Hlen.
    rewrite app_length. cbn [length]. nia.
Qed.

Lemma mapM_map {A B C} (f : B -> res C) (h : A -> B) (k : A -> C) l :
  (forall x, In x l -> f (h x) = Ok (k x)) -> mapM f (map h l) = Ok (map k l).
Proof.
  induction l as [|x t IH]; intros H; [reflexivity|]. cbn [map mapM].
  rewrite (H x (or_introl eq_refl)). cbn [bind]. rewrite IH by (intros; apply H; right; assumption). reflexivity.
Qed.

Lemma build_oms_els_chain g d : chain_wf g d -> build_oms_els g = Ok (map line_path d).
Proof.
  intros W. unfold build_oms_els, oms_vertices.
  rewrite (trx_vertices_nil g g) by (intros; eapply cw_trx; eassumption). cbn [bind]. rewrite app_nil_r.
  change (filter (fun n => kind_eqb (kind n) KRoadm) g) with (filter is_roadm g).
  rewrite <- (cw_starts g d W).
  apply (mapM_map (oms_els g) (fun l => (src l, first_hop l)) line_path). intros l Hl. eapply oms_els_line; eassumption.
Qed.

Lemma starts_src g vs a b : In (a, b) (starts_of g vs) -> exists n, In n vs /\ uid n = a /\ In b (succs n).
Proof.
  unfold starts_of. rewrite in_flat_map. intros (n & Hn & Hin). apply in_map_iff in Hin.
  destruct Hin as (t & Et & Ht). injection Et as <- <-. apply filter_In in Ht. exists n. tauto.
Qed.

(* every line element in exactly one OMS; each OMS runs ROADM .. next ROADM over line elements, along edges *)
Theorem oms_partition g d :
  chain_wf g d ->
  exists L, build_oms_els g = Ok L /\ L = map line_path d /\
    (forall n, In n g -> is_line_node n = true -> count_occ Z.eq_dec (flat_map interior L) (uid n) = 1%nat) /\
    Forall (fun el => exists a els b, el = a :: els ++ [b] /\
                      is_kind g KRoadm a = true /\ is_kind g KRoadm b = true /\
                      Forall (fun u => is_kind g KRoadm u = false /\ is_kind g KTrx u = false) els /\
                      path g el) L.
Proof.
  intros W. exists (map line_path d). split; [apply build_oms_els_chain; exact W|]. split; [reflexivity|].
  assert (Hint : flat_map interior (map line_path d) = flat_map lels d).
  { rewrite flat_map_concat_map, map_map, <- flat_map_concat_map. apply flat_map_ext. intros l. apply interior_line_path. }
  split.
  - intros n Hn Hl. rewrite Hint. apply NoDup_count_occ'; [apply (cw_disjoint g d W)|apply (cw_cover g d W); assumption].
  - apply Forall_forall. intros el Hel. apply in_map_iff in Hel. destruct Hel as (l & <- & Hl).
    exists (src l), (lels l), (dst l). split; [reflexivity|].
    pose proof (cw_lines g d W) as Wl. rewrite Forall_forall in Wl. specialize (Wl l Hl). unfold line_ok_b in Wl.
    apply andb_true_iff in Wl. destruct Wl as (Hdst & Hchain).
    (* the source is a ROADM of g and its first hop is one of its successors *)
    assert (Hst : In (src l, first_hop l) (starts_of g (filter is_roadm g))).
    { rewrite <- (cw_starts g d W). apply (in_map (fun l => (src l, first_hop l))). exact Hl. }
    apply starts_src in Hst. destruct Hst as (n & Hn & Hu & Hs). apply filter_In in Hn. destruct Hn as (Hn & Hr).
    pose proof (lookup_NoDup g n (cw_nodup g d W) Hn) as Hlk. rewrite Hu in Hlk.
    split; [|split; [exact Hdst|split]].
    + unfold is_kind, kind_of. rewrite Hlk. cbn [option_map]. unfold is_roadm in Hr. rewrite kind_eqb_sym. exact Hr.
    + apply Forall_forall. intros u Hu'.
      destruct (chain_ok_b_lookup g (lels l ++ [dst l]) (src l) u Hchain) as (m & Hm & K1 & K2).
      { rewrite removelast_last. exact Hu'. }
      unfold is_kind, kind_of. rewrite Hm. cbn [option_map]. rewrite (kind_eqb_sym KRoadm), (kind_eqb_sym KTrx). auto.
    + unfold line_path. pose proof (chain_ok_b_path g _ _ Hchain) as Hp.
      assert (Hfh : hd 0 (lels l ++ [dst l]) = first_hop l) by (unfold first_hop; destruct (lels l); reflexivity).
      destruct (lels l ++ [dst l]) as [|z t] eqn:E; [destruct (lels l); discriminate|].
      cbn [path]. split; [|exact Hp]. exists n. split; [exact Hlk|]. cbn [hd] in Hfh. rewrite Hfh. exact Hs.
Qed.

(* ================================================================ reversed_oms *)
Lemma find_index_spec {A} (p : A -> bool) l : forall k,
  match find_index p l k with
  | Some j => k <= j /\ exists x, nth_error l (Z.to_nat (j - k)) = Some x /\ p x = true /\
              forall i y, (i < Z.to_nat (j - k))%nat -> nth_error l i = Some y -> p y = false
  | None => forall x, In x l -> p x = false
  end.
Proof.
  induction l as [|a t IH]; intros k; cbn [find_index]; [intros x []|].
  destruct (p a) eqn:Ea.
  - split; [lia|]. exists a. replace (Z.to_nat (k - k)) with O by lia. split; [reflexivity|]. split; [exact Ea|].
    intros i y Hi. lia.
  - specialize (IH (k + 1)). destruct (find_index p t (k + 1)) as [j|].
    + destruct IH as (Hk & x & Hx & Px & Hfirst). split; [lia|]. exists x.
      replace (Z.to_nat (j - k)) with (S (Z.to_nat (j - (k + 1)))) by lia. split; [exact Hx|]. split; [exact Px|].
      intros [|i] y Hi Hy; cbn [nth_error] in Hy.
      * injection Hy as <-. exact Ea.
      * apply (Hfirst i y); [lia|exact Hy].
    + intros x [<-|Hx]; [exact Ea|auto].
Qed.

Lemma ends_line_path l : ends (line_path l) = Some (src l, dst l).
Proof. unfold ends, line_path. f_equal. f_equal. rewrite app_comm_cons. apply last_last. Qed.

Lemma is_reverse_iff a b : is_reverse a b = true <-> b = (snd a, fst a).
Proof.
  destruct a as [a1 a2], b as [b1 b2]. unfold is_reverse. cbn [fst snd]. rewrite andb_true_iff, !Z.eqb_eq.
  split; [intros [-> ->]; reflexivity|intros H; injection H as -> ->; auto].
Qed.

Definition pair_ends (d : list line) : list (Z * Z) := map (fun l => (src l, dst l)) d.

Lemma reversed_oms_lines d :
  reversed_oms (map line_path d) = Ok (map (fun e => find_index (is_reverse e) (pair_ends d) 0) (pair_ends d)).
Proof.
  unfold reversed_oms.
  rewrite (mapM_map _ line_path (fun l => (src l, dst l)) d); [reflexivity|].
  intros l _. rewrite ends_line_path. reflexivity.
Qed.

(* OMS i (A -> B) is paired with the first OMS running B -> A, and with nothing iff there is none;
   when no two OMS share both ends in the same order (no parallel lines) the pairing is symmetric *)
Theorem reversed_pairing d :
  exists rv, reversed_oms (map line_path d) = Ok rv /\ length rv = length d /\
    (forall i a b, nth_error (pair_ends d) i = Some (a, b) ->
       exists r, nth_error rv i = Some r /\
       match r with
       | Some j => 0 <= j /\ nth_error (pair_ends d) (Z.to_nat j) = Some (b, a) /\
                   forall k, (k < Z.to_nat j)%nat -> nth_error (pair_ends d) k <> Some (b, a)
       | None => ~ In (b, a) (pair_ends d)
       end) /\
    (NoDup (pair_ends d) ->
     forall i j, nth_error rv i = Some (Some (Z.of_nat j)) -> nth_error rv j = Some (Some (Z.of_nat i))).
Proof.
  eexists. split; [apply reversed_oms_lines|].
  set (es := pair_ends d).
  set (F := fun e => find_index (is_reverse e) es 0).
  assert (Hlen : length es = length d) by (unfold es, pair_ends; apply map_length).
  split; [rewrite map_length; exact Hlen|].
  assert (Hspec : forall a b,
            match F (a, b) with
            | Some j => 0 <= j /\ nth_error es (Z.to_nat j) = Some (b, a) /\
                        forall k, (k < Z.to_nat j)%nat -> nth_error es k <> Some (b, a)
            | None => ~ In (b, a) es
            end).
  { intros a b. unfold F. pose proof (find_index_spec (is_reverse (a, b)) es 0) as H.
    destruct (find_index (is_reverse (a, b)) es 0) as [j|].
    - destruct H as (Hj & x & Hx & Px & Hfirst). replace (j - 0) with j in * by lia.
      apply is_reverse_iff in Px. cbn [fst snd] in Px. subst x. split; [exact Hj|]. split; [exact Hx|].
      intros k Hk Hy. specialize (Hfirst k (b, a) Hk Hy).
      assert (is_reverse (a, b) (b, a) = true) by (apply is_reverse_iff; reflexivity). congruence.
    - intros Hin. specialize (H (b, a) Hin).
      assert (is_reverse (a, b) (b, a) = true) by (apply is_reverse_iff; reflexivity). congruence. }
  split.
  - intros i a b He. exists (F (a, b)). split; [rewrite nth_error_map, He; reflexivity|]. apply Hspec.
  - intros Hnd i j Hi. rewrite nth_error_map in Hi |- *.
    destruct (nth_error es i) as [[a b]|] eqn:Ei; [|discriminate]. cbn [option_map] in Hi. injection Hi as Hi.
    pose proof (Hspec a b) as Hab. rewrite Hi in Hab. destruct Hab as (_ & Hj & _).
    rewrite Nat2Z.id in Hj. rewrite Hj. cbn [option_map]. f_equal.
    pose proof (Hspec b a) as Hba. destruct (F (b, a)) as [k|].
    + destruct Hba as (Hk0 & Hk & _). f_equal.
      assert (Z.to_nat k = i); [|lia].
      rewrite NoDup_nth_error in Hnd. apply Hnd; [|congruence].
      apply nth_error_Some. congruence.
    + exfalso. apply Hba. eapply nth_error_In. exact Ei.
Qed.

(* ================================================================ the whole build_oms_list *)
Lemma align_grids_id nmin nmax raw :
  raw <> [] -> Forall (fun b => n_min b = nmin /\ n_max b = nmax) raw -> align_grids raw = Ok raw.
Proof.
  intros Hne HP. destruct raw as [|b t]; [congruence|]. cbn [align_grids].
  rewrite Forall_forall in HP. destruct (HP b (or_introl eq_refl)) as (E3 & E4).
  rewrite list_min_const, list_max_const.
  - apply mapM_id. intros x Hx. destruct (HP x Hx) as (E1 & E2). rewrite E3, E4, <- E1, <- E2. apply align_one_same.
  - intros y Hy. apply in_map_iff in Hy. destruct Hy as (x & <- & Hx). destruct (HP x (or_intror Hx)). congruence.
  - intros y Hy. apply in_map_iff in Hy. destruct Hy as (x & <- & Hx). destruct (HP x (or_intror Hx)). congruence.
Qed.

Lemma mapM_map_comp {A B C} (f : B -> res C) (h : A -> B) l : mapM f (map h l) = mapM (fun x => f (h x)) l.
Proof. induction l as [|x t IH]; [reflexivity|]. cbn [map mapM]. rewrite IH. reflexivity. Qed.

Lemma combine_fst_snd {A B} (l : list (A * B)) : combine (map fst l) (map snd l) = l.
Proof. induction l as [|[a b] t IH]; [reflexivity|]. cbn [map combine fst snd]. rewrite IH. reflexivity. Qed.

Lemma Forall2_length' {A B} (R : A -> B -> Prop) l l' : Forall2 R l l' -> length l = length l'.
Proof. induction 1; cbn; congruence. Qed.

Lemma map_combine_l {A B C} (f : A -> C) (l : list A) (l' : list B) :
  length l = length l' -> map (fun x => f (fst x)) (combine l l') = map f l.
Proof.
  revert l'. induction l as [|a t IH]; intros [|b t'] H; try discriminate; [reflexivity|].
  cbn [combine map fst]. rewrite IH by (cbn in H; lia). reflexivity.
Qed.
Lemma map_combine_r {A B C} (f : B -> C) (l : list A) (l' : list B) :
  length l = length l' -> map (fun x => f (snd x)) (combine l l') = map f l'.
Proof.
  revert l'. induction l as [|a t IH]; intros [|b t'] H; try discriminate; [reflexivity|].
  cbn [combine map snd]. rewrite IH by (cbn in H; lia). reflexivity.
Qed.

Lemma Forall2_map_eq {A B C} (R : A -> B -> Prop) (f : B -> C) (h : A -> C) l l' :
  Forall2 R l l' -> (forall a b, R a b -> f b = h a) -> map f l' = map h l.
Proof. intros HF H. induction HF as [|a b l l' Hab _ IH]; [reflexivity|]. cbn [map]. rewrite IH, (H a b Hab). reflexivity. Qed.

Lemma Forall2_map_r {A B C} (R : A -> B -> Prop) (S : A -> C -> Prop) (f : B -> C) l l' :
  Forall2 R l l' -> (forall a b, R a b -> S a (f b)) -> Forall2 S l (map f l').
Proof. intros HF H. induction HF as [|a b l l' Hab _ IH]; [constructor|]. cbn [map]. constructor; auto. Qed.

Lemma Forall2_Forall_r {A B} (R : A -> B -> Prop) (P : B -> Prop) l l' :
  Forall2 R l l' -> (forall a b, R a b -> P b) -> Forall P l'.
Proof. intros HF H. induction HF as [|a b l l' Hab _ IH]; constructor; eauto. Qed.

(* the usable-slot layout the map of an OMS must show *)
Definition map_ok (g : graph) (si : band) (fmin fmax : Q) (l : line) (b : bitmap) : Prop :=
  let nmin := frequency_to_n fmin default_grid in
  let nmax := frequency_to_n fmax default_grid in
  n_min b = nmin /\ n_max b = nmax /\ idx b = zrange nmin (nmax + 1) /\ NoDup (idx b) /\
  Z.of_nat (length (cells b)) = nmax - nmin + 1 /\
  forall n, nmin <= n <= nmax ->
    cell_at b n = Some (if in_slots (map (band_slots default_grid) (elements_common_range g (line_path l) si)) n
                        then SF else SU).

Definition common_ok (g : graph) (si : band) (fmin fmax : Q) (els : list Z) : Prop :=
  sorted_in fmin fmax (elements_common_range g els si).

Lemma oms_bitmap_ok g si fmin fmax l :
  common_ok g si fmin fmax (line_path l) ->
  exists b, oms_bitmap g si fmin fmax (line_path l) = Ok b /\ map_ok g si fmin fmax l b.
Proof.
  intros Hs. unfold oms_bitmap.
  destruct (bitmap_len default_grid fmin fmax _ ltac:(reflexivity) Hs) as (c & Hc & Hl & Hn).
  rewrite Hc. cbn [bind]. unfold mk_bitmap. change (Qeq_bool default_grid 0) with false.
  assert (Hlen : Nat.eqb (length c)
                   (length (zrange (frequency_to_n fmin default_grid) (frequency_to_n fmax default_grid + 1))) = true).
  { apply Nat.eqb_eq. apply Nat2Z.inj. rewrite zrange_length. lia. }
  cbv zeta. rewrite Hlen. eexists. split; [reflexivity|].
  set (nmin := frequency_to_n fmin default_grid) in *. set (nmax := frequency_to_n fmax default_grid) in *.
  unfold map_ok. cbn [n_min n_max idx cells]. fold nmin nmax.
  split; [reflexivity|]. split; [reflexivity|]. split; [reflexivity|]. split; [apply zrange_NoDup|]. split; [exact Hl|].
  intros n Hr. rewrite cell_at_wf.
  - cbn [n_min n_max cells]. replace ((nmin <=? n) && (n <=? nmax)) with true by lia. apply Hn. exact Hr.
  - unfold bwf. cbn [n_min n_max idx cells]. repeat split; lia.
Qed.

Theorem build_oms_list_ok g si d fmin fmax :
  chain_wf g d -> d <> [] -> find_network_freq_range g = Ok (fmin, fmax) ->
  Forall (fun l => common_ok g si fmin fmax (line_path l)) d ->
  exists r rv, build_oms_list g si = Ok r /\
    map el_ids r = map line_path d /\
    reversed_oms (map line_path d) = Ok rv /\ map rev_id r = rv /\
    Forall2 (map_ok g si fmin fmax) d (map smap r).
Proof.
  intros W Hne Hfr Hco. unfold build_oms_list, oms_vertices.
  rewrite (trx_vertices_nil g g) by (intros; eapply cw_trx; eassumption). cbn [bind]. rewrite app_nil_r.
  rewrite Hfr. cbn [bind fst snd].
  change (filter (fun n => kind_eqb (kind n) KRoadm) g) with (filter is_roadm g).
  rewrite <- (cw_starts g d W). rewrite mapM_map_comp.
  destruct (mapM_Forall2
              (fun l => let* el := oms_els g (src l, first_hop l) in
                        let* b := oms_bitmap g si fmin fmax el in Ok (el, b))
              (fun l x => fst x = line_path l /\ map_ok g si fmin fmax l (snd x)) d) as (raw & Hraw & HF).
  { intros l Hl. rewrite (oms_els_line g d l W Hl). cbn [bind].
    rewrite Forall_forall in Hco. destruct (oms_bitmap_ok g si fmin fmax l (Hco l Hl)) as (b & Hb & Hok).
    rewrite Hb. cbn [bind]. exists (line_path l, b). cbn [fst snd]. auto. }
  rewrite Hraw. cbn [bind].
  assert (Hfst : map fst raw = map line_path d).
  { apply (Forall2_map_eq _ fst line_path d raw HF). intros a b [E _]. exact E. }
  assert (Hmaps : Forall2 (map_ok g si fmin fmax) d (map snd raw)).
  { apply (Forall2_map_r _ (map_ok g si fmin fmax) snd d raw HF). intros a b [_ M]. exact M. }
  assert (Hlenraw : length raw = length d) by (symmetry; eapply Forall2_length'; exact HF).
  rewrite (align_grids_id (frequency_to_n fmin default_grid) (frequency_to_n fmax default_grid)).
  2:{ destruct raw; [destruct d; [congruence|discriminate]|discriminate]. }
  2:{ apply (Forall2_Forall_r _ _ d (map snd raw) Hmaps). intros a b (A & B & _). auto. }
  cbn [bind]. rewrite Hfst. destruct (reversed_pairing d) as (rv & Hrv & Hlrv & _). rewrite Hrv. cbn [bind].
  eexists. exists rv. split; [reflexivity|].
  rewrite <- Hfst, combine_fst_snd.
  assert (Hl2 : length raw = length rv) by lia.
  split; [|split; [reflexivity|split]].
  - rewrite map_map. cbn [el_ids]. rewrite (map_combine_l (fun x => fst x) raw rv Hl2). reflexivity.
  - rewrite map_map. cbn [rev_id]. rewrite (map_combine_r (fun x => x) raw rv Hl2). apply map_id.
  - rewrite map_map. cbn [smap]. rewrite (map_combine_l (fun x => snd x) raw rv Hl2). exact Hmaps.
Qed.

(* "the OMS list can be built" fails in the model exactly as in the code when the amplifiers of one OMS share no
   band: a chain-structured network, C-band booster and L-band pre-amplifier on the line 1 -> 0 *)
Theorem build_empty_common_refuted :
  exists g si d, chain_wf g d /\ build_oms_list g si = Err "IndexError:common_range".
Proof.
  exists [mkN 0 KRoadm [2] []; mkN 1 KRoadm [3] [];
          mkN 2 KAmp [1] [((191300000000000 # 1), (196100000000000 # 1))];
          mkN 3 KAmp [4] [((191300000000000 # 1), (196100000000000 # 1))];
          mkN 4 KAmp [0] [((186000000000000 # 1), (190000000000000 # 1))]],
         ((191300000000000 # 1), (195100000000000 # 1)),
         [mkL 0 [2] 1; mkL 1 [3; 4] 0].
  split; [apply chain_wf_b_sound; vm_compute; reflexivity|vm_compute; reflexivity].
Qed.

(* ================================================================ the hypotheses are decidable: reflection *)
Lemma Qltb_lt a b : Qltb a b = true -> (a < b)%Q.
Proof.
  unfold Qltb. intros H. apply negb_true_iff in H. apply Qnot_le_lt. intros Hle. apply Qle_bool_iff in Hle. congruence.
Qed.

Lemma sorted_from_b_sound f_max common : forall prev, sorted_from_b prev common f_max = true -> sorted_from prev common f_max.
Proof.
  induction common as [|[lo hi] t IH]; intros prev H; cbn [sorted_from_b sorted_from] in *.
  - apply Qle_bool_iff. exact H.
  - apply andb_true_iff in H. destruct H as (H & H3). apply andb_true_iff in H. destruct H as (H1 & H2).
    split; [apply Qle_bool_iff; exact H1|]. split; [apply Qle_bool_iff; exact H2|auto].
Qed.

Lemma sorted_in_b_sound f_min f_max common : sorted_in_b f_min f_max common = true -> sorted_in f_min f_max common.
Proof.
  destruct common as [|[lo hi] t]; cbn [sorted_in_b sorted_in]; [discriminate|]. intros H.
  apply andb_true_iff in H. destruct H as (H & H3). apply andb_true_iff in H. destruct H as (H1 & H2).
  split; [apply Qle_bool_iff; exact H1|]. split; [apply Qle_bool_iff; exact H2|apply sorted_from_b_sound; exact H3].
Qed.

Theorem net_hyps_b_sound g si d :
  net_hyps_b g si d = true ->
  exists fmin fmax, chain_wf g d /\ d <> [] /\ find_network_freq_range g = Ok (fmin, fmax) /\
                    Forall (fun l => common_ok g si fmin fmax (line_path l)) d.
Proof.
  unfold net_hyps_b. intros H. apply andb_true_iff in H. destruct H as (H & H3).
  apply andb_true_iff in H. destruct H as (H1 & H2).
  destruct (find_network_freq_range g) as [[fmin fmax]|e]; [|discriminate]. exists fmin, fmax.
  split; [apply chain_wf_b_sound; exact H1|]. split.
  - intros ->. discriminate.
  - split; [reflexivity|]. apply Forall_forall. intros l Hl. rewrite forallb_forall in H3. specialize (H3 l Hl).
    unfold common_ok_b in H3. apply sorted_in_b_sound. exact H3.
Qed.

(* ================================================================ find_common_range, pointwise *)
(* frequency f lies in (resp. strictly inside) one of the bands *)
Definition inb (f : Q) (l : list band) : Prop := exists b, In b l /\ (fst b <= f)%Q /\ (f <= snd b)%Q.
Definition sinb (f : Q) (l : list band) : Prop := exists b, In b l /\ (fst b < f)%Q /\ (f < snd b)%Q.

Lemma Qltb_true a b : Qltb a b = true <-> (a < b)%Q.
Proof.
  unfold Qltb. rewrite negb_true_iff. split.
  - intros H. apply Qnot_le_lt. intros Hle. apply Qle_bool_iff in Hle. congruence.
  - intros H. destruct (Qle_bool b a) eqn:E; [|reflexivity]. apply Qle_bool_iff in E.
    exfalso. apply (Qlt_irrefl a). apply Qlt_le_trans with b; assumption.
Qed.

Lemma Qltb_false a b : Qltb a b = false <-> (b <= a)%Q.
Proof.
  unfold Qltb. rewrite negb_false_iff. apply Qle_bool_iff.
Qed.

Lemma qmax_le a b f : (qmax a b <= f)%Q <-> (a <= f)%Q /\ (b <= f)%Q.
Proof.
  unfold qmax. destruct (Qltb a b) eqn:E.
  - apply Qltb_true in E. split; [intros H; split; [apply Qle_trans with b; [apply Qlt_le_weak|]|]; assumption|tauto].
  - apply Qltb_false in E. split; [intros H; split; [|apply Qle_trans with a]; assumption|tauto].
Qed.

Lemma qmax_lt a b f : (qmax a b < f)%Q <-> (a < f)%Q /\ (b < f)%Q.
Proof.
  unfold qmax. destruct (Qltb a b) eqn:E.
  - apply Qltb_true in E. split; [intros H; split; [apply Qlt_trans with b|]; assumption|tauto].
  - apply Qltb_false in E. split; [intros H; split; [|apply Qle_lt_trans with a]; assumption|tauto].
Qed.

Lemma qmin_ge a b f : (f <= qmin a b)%Q <-> (f <= a)%Q /\ (f <= b)%Q.
Proof.
  unfold qmin. destruct (Qltb b a) eqn:E.
  - apply Qltb_true in E. split; [intros H; split; [apply Qle_trans with b; [|apply Qlt_le_weak]|]; assumption|tauto].
  - apply Qltb_false in E. split; [intros H; split; [|apply Qle_trans with a]; assumption|tauto].
Qed.

Lemma qmin_gt a b f : (f < qmin a b)%Q <-> (f < a)%Q /\ (f < b)%Q.
Proof.
  unfold qmin. destruct (Qltb b a) eqn:E.
  - apply Qltb_true in E. split; [intros H; split; [apply Qlt_trans with b|]; assumption|tauto].
  - apply Qltb_false in E. split; [intros H; split; [|apply Qlt_le_trans with a]; assumption|tauto].
Qed.

Lemma In_intersect x c b :
  In x (intersect c b) <->
  exists first second, In first c /\ In second b /\
    x = (qmax (fst first) (fst second), qmin (snd first) (snd second)) /\
    Qltb (qmax (fst first) (fst second)) (qmin (snd first) (snd second)) = true.
Proof.
  unfold intersect. rewrite in_flat_map. split.
  - intros (first & Hf & Hx). apply in_flat_map in Hx. destruct Hx as (second & Hs & Hx).
    destruct (Qltb _ _) eqn:E; [|destruct Hx]. destruct Hx as [<-|[]]. exists first, second. auto.
  - intros (first & second & Hf & Hs & -> & E). exists first. split; [exact Hf|]. apply in_flat_map.
    exists second. split; [exact Hs|]. rewrite E. left. reflexivity.
Qed.

Lemma inb_intersect f c b : inb f (intersect c b) -> inb f c /\ inb f b.
Proof.
  intros (x & Hx & H1 & H2). apply In_intersect in Hx. destruct Hx as (first & second & Hf & Hs & -> & _).
  cbn [fst snd] in *. apply qmax_le in H1. apply qmin_ge in H2.
  split; [exists first|exists second]; tauto.
Qed.

Lemma sinb_intersect f c b : sinb f c -> sinb f b -> sinb f (intersect c b).
Proof.
  intros (first & Hf & A1 & A2) (second & Hs & B1 & B2).
  exists (qmax (fst first) (fst second), qmin (snd first) (snd second)). cbn [fst snd].
  assert (L : (qmax (fst first) (fst second) < f)%Q) by (apply qmax_lt; tauto).
  assert (R : (f < qmin (snd first) (snd second))%Q) by (apply qmin_gt; tauto).
  split; [|tauto]. apply In_intersect. exists first, second. repeat split; try assumption.
  apply Qltb_true. apply Qlt_trans with f; assumption.
Qed.

Lemma fold_intersect_sound f u : forall c, inb f (fold_left intersect u c) -> inb f c /\ forall a, In a u -> inb f a.
Proof.
  induction u as [|b t IH]; intros c H; cbn [fold_left] in H; [split; [exact H|intros a []]|].
  destruct (IH _ H) as (H1 & H2). apply inb_intersect in H1. destruct H1 as (Hc & Hb).
  split; [exact Hc|]. intros a [<-|Ha]; auto.
Qed.

Lemma fold_intersect_complete f u : forall c, sinb f c -> (forall a, In a u -> sinb f a) -> sinb f (fold_left intersect u c).
Proof.
  induction u as [|b t IH]; intros c Hc Hu; cbn [fold_left]; [exact Hc|].
  apply IH; [apply sinb_intersect; [exact Hc|apply Hu; left; reflexivity]|intros a Ha; apply Hu; right; exact Ha].
Qed.

(* sorted(key=...) is a permutation *)
Lemma In_insert_by {A} (le : A -> A -> bool) x l y : In y (insert_by le x l) <-> y = x \/ In y l.
Proof.
  induction l as [|a t IH]; cbn [insert_by].
  - cbn. intuition.
  - destruct (le a x); cbn [In]; [rewrite IH|]; intuition.
Qed.

Lemma In_sort_by {A} (le : A -> A -> bool) l y : In y (sort_by le l) <-> In y l.
Proof.
  unfold sort_by.
  assert (H : forall acc, In y (fold_left (fun acc x => insert_by le x acc) l acc) <-> In y l \/ In y acc).
  { induction l as [|a t IH]; intros acc; cbn [fold_left]; [cbn; tauto|].
    rewrite IH, In_insert_by. cbn [In]. intuition. }
  rewrite H. cbn. tauto.
Qed.

Lemma inb_sort f l : inb f (sort_bands l) <-> inb f l.
Proof. unfold inb, sort_bands. split; intros (b & Hb & H); exists b; (split; [apply In_sort_by in Hb || apply In_sort_by; exact Hb|exact H]). Qed.
Lemma sinb_sort f l : sinb f (sort_bands l) <-> sinb f l.
Proof. unfold sinb, sort_bands. split; intros (b & Hb & H); exists b; (split; [apply In_sort_by in Hb || apply In_sort_by; exact Hb|exact H]). Qed.

(* remove_duplicates keeps a representative (equal band for band) of every amplifier *)
Lemma bands_eqb_refl a : bands_eqb a a = true.
Proof.
  induction a as [|[lo hi] t IH]; [reflexivity|]. cbn [bands_eqb]. rewrite IH. unfold band_eqb. cbn [fst snd].
  rewrite !Qeq_bool_refl. reflexivity.
Qed.

Lemma bands_eqb_inb f a : forall a', bands_eqb a a' = true -> inb f a -> inb f a'.
Proof.
  induction a as [|x t IH]; intros [|x' t'] E; cbn [bands_eqb] in E; try discriminate; [intros (b & [] & _)|].
  apply andb_true_iff in E. destruct E as (E1 & E2). unfold band_eqb in E1. apply andb_true_iff in E1.
  destruct E1 as (Ea & Eb). apply Qeq_bool_eq in Ea. apply Qeq_bool_eq in Eb.
  intros (b & [<-|Hb] & H1 & H2).
  - exists x'. split; [left; reflexivity|]. rewrite <- Ea, <- Eb. tauto.
  - destruct (IH t' E2) as (b' & Hb' & H'); [exists b; tauto|]. exists b'. split; [right; exact Hb'|exact H'].
Qed.

Lemma dedupe_incl l : forall seen a, In a (dedupe l seen) -> In a l.
Proof.
  induction l as [|x t IH]; intros seen a H; cbn [dedupe] in H; [destruct H|].
  destruct (existsb (bands_eqb x) seen).
  - right. eapply IH. exact H.
  - destruct H as [<-|H]; [left; reflexivity|right; eapply IH; exact H].
Qed.

Lemma dedupe_repr l : forall seen a, In a l -> exists a', In a' (seen ++ dedupe l seen) /\ bands_eqb a a' = true.
Proof.
  induction l as [|x t IH]; intros seen a Ha; [destruct Ha|]. cbn [dedupe].
  destruct (existsb (bands_eqb x) seen) eqn:E.
  - destruct Ha as [<-|Ha]; [|apply IH; exact Ha].
    apply existsb_exists in E. destruct E as (a' & Ha' & Eq). exists a'. split; [apply in_or_app; left; exact Ha'|exact Eq].
  - destruct Ha as [<-|Ha].
    + exists x. split; [apply in_or_app; right; left; reflexivity|apply bands_eqb_refl].
    + destruct (IH (seen ++ [x]) a Ha) as (a' & Ha' & Eq). exists a'. split; [|exact Eq].
      rewrite <- app_assoc in Ha'. exact Ha'.
Qed.

(* a frequency inside a common band lies inside a band of every amplifier; a frequency strictly inside a band of
   every amplifier lies strictly inside a common band (band edges shared by two amplifiers are dropped by the
   strict test f_min < f_max of the code) *)
Theorem find_common_range_sound amps si f :
  amps <> [] -> inb f (find_common_range amps si) -> forall amp, In amp amps -> inb f amp.
Proof.
  intros Hne H amp Hamp. unfold find_common_range in H.
  destruct (dedupe (map sort_bands amps) []) as [|c0 t] eqn:Eu.
  { exfalso. destruct (dedupe_repr (map sort_bands amps) [] (sort_bands amp)) as (a' & Ha' & _);
      [apply in_map; exact Hamp|]. rewrite Eu in Ha'. destruct Ha'. }
  apply (proj1 (inb_sort _ _)) in H. apply fold_intersect_sound in H. destruct H as (_ & H).
  destruct (dedupe_repr (map sort_bands amps) [] (sort_bands amp)) as (a' & Ha' & Eq); [apply in_map; exact Hamp|].
  cbn [app] in Ha'. rewrite Eu in Ha'. apply (proj1 (inb_sort f amp)).
  apply (bands_eqb_inb f a' (sort_bands amp)); [|apply H; exact Ha'].
  (* symmetry of the representative relation, pointwise *)
  clear - Eq. revert a' Eq. induction (sort_bands amp) as [|x t IH]; intros [|x' t'] E; cbn [bands_eqb] in *; try discriminate; [reflexivity|].
  apply andb_true_iff in E. destruct E as (E1 & E2). rewrite (IH t' E2). unfold band_eqb in *.
  apply andb_true_iff in E1. destruct E1 as (Ea & Eb). apply Qeq_bool_eq in Ea. apply Qeq_bool_eq in Eb.
  rewrite (proj2 (Qeq_bool_iff _ _) (Qeq_sym _ _ Ea)), (proj2 (Qeq_bool_iff _ _) (Qeq_sym _ _ Eb)). reflexivity.
Qed.

Theorem find_common_range_complete amps si f :
  amps <> [] -> (forall amp, In amp amps -> sinb f amp) -> sinb f (find_common_range amps si).
Proof.
  intros Hne H. unfold find_common_range.
  destruct (dedupe (map sort_bands amps) []) as [|c0 t] eqn:Eu.
  { exfalso. destruct amps as [|amp amps']; [congruence|].
    destruct (dedupe_repr (map sort_bands (amp :: amps')) [] (sort_bands amp)) as (a' & Ha' & _); [left; reflexivity|].
    rewrite Eu in Ha'. destruct Ha'. }
  assert (Hu : forall a, In a (c0 :: t) -> sinb f a).
  { intros a Ha. rewrite <- Eu in Ha. apply dedupe_incl in Ha. apply in_map_iff in Ha. destruct Ha as (amp & <- & Hamp).
    apply (proj2 (sinb_sort f amp)). apply H. exact Hamp. }
  apply (proj2 (sinb_sort f _)). apply fold_intersect_complete; [apply Hu; left; reflexivity|exact Hu].
Qed.

(* no amplifier on the OMS: the SI band *)
Theorem find_common_range_default si : find_common_range [] si = [si].
Proof. reflexivity. Qed.

(* ================================================================ FREE <-> inside the amplifiers' common band *)
Definition oms_amps (g : graph) (els : list Z) : list (list band) :=
  flat_map (fun u => match lookup g u with
                     | Some n => if kind_eqb (kind n) KAmp then [abands n] else []
                     | None => [] end) els.

Lemma in_bands_inb grid common n : in_bands grid common n = true <-> inb (nvalue_to_frequency n grid) common.
Proof.
  unfold in_bands, inb. rewrite existsb_exists. split; intros (b & Hb & H); exists b; (split; [exact Hb|]).
  - apply andb_true_iff in H. rewrite !Qle_bool_iff in H. exact H.
  - apply andb_true_iff. rewrite !Qle_bool_iff. exact H.
Qed.

Lemma sinb_inb f l : sinb f l -> inb f l.
Proof. intros (b & Hb & H1 & H2). exists b. split; [exact Hb|]. split; apply Qlt_le_weak; assumption. Qed.

(* on an OMS with amplifiers whose common band edges are on the grid: every cell of the map is FREE or UNUSABLE;
   FREE implies that the slot's nominal frequency lies in a band of every amplifier of the OMS, and a slot whose
   frequency lies strictly inside a band of every amplifier is FREE *)
Theorem free_iff_common g si fmin fmax l b n :
  map_ok g si fmin fmax l b ->
  oms_amps g (line_path l) <> [] ->
  Forall (fun c => on_grid default_grid (fst c) /\ on_grid default_grid (snd c)) (elements_common_range g (line_path l) si) ->
  frequency_to_n fmin default_grid <= n <= frequency_to_n fmax default_grid ->
  let f := nvalue_to_frequency n default_grid in
  (cell_at b n = Some SF \/ cell_at b n = Some SU) /\
  (cell_at b n = Some SF -> forall amp, In amp (oms_amps g (line_path l)) -> inb f amp) /\
  ((forall amp, In amp (oms_amps g (line_path l)) -> sinb f amp) -> cell_at b n = Some SF).
Proof.
  intros (_ & _ & _ & _ & _ & Hcell) Hne Hgrid Hn f. specialize (Hcell n Hn).
  rewrite (in_bands_slots default_grid _ n ltac:(reflexivity) Hgrid) in Hcell.
  change (elements_common_range g (line_path l) si) with (find_common_range (oms_amps g (line_path l)) si) in *.
  destruct (in_bands default_grid (find_common_range (oms_amps g (line_path l)) si) n) eqn:E.
  - split; [left; exact Hcell|]. split; [|intros _; exact Hcell].
    intros _. apply in_bands_inb in E. apply (find_common_range_sound _ si _ Hne E).
  - split; [right; exact Hcell|]. split; [rewrite Hcell; discriminate|].
    intros H. exfalso. apply (find_common_range_complete _ si f Hne) in H. apply sinb_inb in H.
    apply in_bands_inb in H. fold f in H. congruence.
Qed.

(* ================================================================ two more places where the faithful model fails *)
(* a transceiver sitting directly on a line (R0 -> f2 -> T1 -> f3 -> R0): the walk from the ROADM runs through the
   transceiver, a second OMS starts at the transceiver, and element 3 lies in the interior of both *)
Theorem partition_trx_on_line_refuted :
  exists g L u, NoDup (map uid g) /\ build_oms_els g = Ok L /\
                count_occ Z.eq_dec (flat_map interior L) u = 2%nat.
Proof.
  exists [mkN 0 KRoadm [2] []; mkN 1 KTrx [3] []; mkN 2 KOther [1] []; mkN 3 KOther [0] []].
  eexists. exists 3. split; [|split; [vm_compute; reflexivity|vm_compute; reflexivity]].
  apply nodup_b_NoDup. reflexivity.
Qed.

(* an OMS without amplifier takes the SI band; when that band exceeds the range of all amplifiers of the network the
   map has more cells than slots and Bitmap raises: a chain-structured network on which build_oms_list fails *)
Theorem build_si_outside_refuted :
  exists g si d, chain_wf g d /\ build_oms_list g si = Err "SpectrumError:bitmap_len".
Proof.
  exists [mkN 0 KRoadm [2] []; mkN 1 KRoadm [3] [];
          mkN 2 KAmp [1] [((192250000000000 # 1), (196150000000000 # 1))];
          mkN 3 KOther [0] []],
         ((191300000000000 # 1), (195100000000000 # 1)),
         [mkL 0 [2] 1; mkL 1 [3] 0].
  split; [apply chain_wf_b_sound; vm_compute; reflexivity|vm_compute; reflexivity].
Qed.

(* ================================================================ the common range is sorted and non-overlapping *)
(* two bands do not overlap (they may touch) *)
Definition dj (a b : band) : Prop := (snd a <= fst b)%Q \/ (snd b <= fst a)%Q.
(* pairwise, by position *)
Fixpoint pdisj (l : list band) : Prop :=
  match l with [] => True | a :: t => Forall (dj a) t /\ pdisj t end.
(* x lies within a *)
Definition sub (x a : band) : Prop := (fst a <= fst x)%Q /\ (snd x <= snd a)%Q.
Definition strict (x : band) : Prop := (fst x < snd x)%Q.

Lemma dj_sym a b : dj a b -> dj b a.
Proof. unfold dj. tauto. Qed.

Lemma dj_sub a b x y : dj a b -> sub x a -> sub y b -> dj x y.
Proof.
  unfold dj, sub. intros [H|H] (A1 & A2) (B1 & B2).
  - left. apply Qle_trans with (snd a); [exact A2|]. apply Qle_trans with (fst b); assumption.
  - right. apply Qle_trans with (snd b); [exact B2|]. apply Qle_trans with (fst a); assumption.
Qed.

Lemma sub_refl a : sub a a.
Proof. split; apply Qle_refl. Qed.
Lemma sub_trans x y z : sub x y -> sub y z -> sub x z.
Proof. intros (A1 & A2) (B1 & B2). split; eapply Qle_trans; eassumption. Qed.

Lemma pdisj_app l1 l2 :
  pdisj (l1 ++ l2) <-> pdisj l1 /\ pdisj l2 /\ forall a b, In a l1 -> In b l2 -> dj a b.
Proof.
  induction l1 as [|x t IH]; cbn [app pdisj].
  - split; [intros H; repeat split; auto; intros a b []|tauto].
  - rewrite IH, Forall_app, !Forall_forall. split.
    + intros ((H1 & H2) & H3 & H4 & H5). repeat split; auto.
      intros a b [<-|Ha] Hb; auto.
    + intros ((H1 & H2) & H3 & H4). repeat split; auto.
      * intros b Hb. apply H4; [left; reflexivity|exact Hb].
      * intros a b Ha Hb. apply H4; [right; exact Ha|exact Hb].
Qed.

(* one band against a list: the pieces lie within the band and within pairwise different bands of the list *)
Definition inner (first : band) (bands : list band) : list band :=
  flat_map (fun second =>
     let lo := qmax (fst first) (fst second) in
     let hi := qmin (snd first) (snd second) in
     if Qltb lo hi then [(lo, hi)] else []) bands.

Lemma intersect_cons f c b : intersect (f :: c) b = inner f b ++ intersect c b.
Proof. reflexivity. Qed.

Lemma qmax_ge_l a b : (a <= qmax a b)%Q.
Proof. apply (proj1 (qmax_le a b (qmax a b))). apply Qle_refl. Qed.
Lemma qmax_ge_r a b : (b <= qmax a b)%Q.
Proof. apply (proj1 (qmax_le a b (qmax a b))). apply Qle_refl. Qed.
Lemma qmin_le_l a b : (qmin a b <= a)%Q.
Proof. apply (proj1 (qmin_ge a b (qmin a b))). apply Qle_refl. Qed.
Lemma qmin_le_r a b : (qmin a b <= b)%Q.
Proof. apply (proj1 (qmin_ge a b (qmin a b))). apply Qle_refl. Qed.

Lemma In_inner x f b : In x (inner f b) -> strict x /\ sub x f /\ exists s, In s b /\ sub x s.
Proof.
  unfold inner. rewrite in_flat_map. intros (s & Hs & Hx).
  destruct (Qltb _ _) eqn:E; [|destruct Hx]. destruct Hx as [<-|[]]. apply Qltb_true in E.
  split; [exact E|]. split.
  - split; cbn [fst snd]; [apply qmax_ge_l|apply qmin_le_l].
  - exists s. split; [exact Hs|]. split; cbn [fst snd]; [apply qmax_ge_r|apply qmin_le_r].
Qed.

Lemma pdisj_inner f b : pdisj b -> pdisj (inner f b).
Proof.
  induction b as [|s t IH]; intros H; [exact I|]. cbn [pdisj] in H. destruct H as (H1 & H2).
  change (inner f (s :: t)) with
    ((if Qltb (qmax (fst f) (fst s)) (qmin (snd f) (snd s)) then [(qmax (fst f) (fst s), qmin (snd f) (snd s))] else [])
     ++ inner f t).
  apply pdisj_app. split; [destruct (Qltb _ _); cbn; auto|]. split; [apply IH; exact H2|].
  intros a b' Ha Hb. destruct (Qltb _ _); [|destruct Ha]. destruct Ha as [<-|[]].
  apply In_inner in Hb. destruct Hb as (_ & _ & s' & Hs' & Hsub).
  rewrite Forall_forall in H1. apply (dj_sub s s'); [apply H1; exact Hs'| |exact Hsub].
  split; cbn [fst snd]; [apply qmax_ge_r|apply qmin_le_r].
Qed.

Lemma In_intersect_sub x c b : In x (intersect c b) -> strict x /\ (exists f, In f c /\ sub x f) /\ exists s, In s b /\ sub x s.
Proof.
  induction c as [|f t IH]; [intros []|]. rewrite intersect_cons, in_app_iff. intros [H|H].
  - apply In_inner in H. destruct H as (H1 & H2 & H3). split; [exact H1|]. split; [exists f; split; [left; reflexivity|exact H2]|exact H3].
  - destruct (IH H) as (H1 & (f' & Hf' & Hs) & H3). split; [exact H1|]. split; [exists f'; split; [right; exact Hf'|exact Hs]|exact H3].
Qed.

Lemma pdisj_intersect c b : pdisj c -> pdisj b -> pdisj (intersect c b).
Proof.
  induction c as [|f t IH]; intros Hc Hb; [exact I|]. cbn [pdisj] in Hc. destruct Hc as (H1 & H2).
  rewrite intersect_cons. apply pdisj_app. split; [apply pdisj_inner; exact Hb|]. split; [apply IH; assumption|].
  intros x y Hx Hy. apply In_inner in Hx. destruct Hx as (_ & Hxf & _).
  apply In_intersect_sub in Hy. destruct Hy as (_ & (f' & Hf' & Hyf) & _).
  rewrite Forall_forall in H1. apply (dj_sub f f'); auto.
Qed.

(* after the whole fold: pairwise non-overlapping, every piece within a band of the start list; strict once a step
   has been taken *)
Lemma fold_intersect_props u : forall c,
  pdisj c -> (forall a, In a u -> pdisj a) ->
  pdisj (fold_left intersect u c) /\
  (forall x, In x (fold_left intersect u c) -> exists f, In f c /\ sub x f) /\
  (u <> [] -> forall x, In x (fold_left intersect u c) -> strict x).
Proof.
  induction u as [|b t IH]; intros c Hc Hu; cbn [fold_left].
  - split; [exact Hc|]. split; [intros x Hx; exists x; split; [exact Hx|apply sub_refl]|congruence].
  - destruct (IH (intersect c b)) as (P1 & P2 & P3).
    { apply pdisj_intersect; [exact Hc|apply Hu; left; reflexivity]. }
    { intros a Ha. apply Hu. right. exact Ha. }
    split; [exact P1|]. split.
    + intros x Hx. destruct (P2 x Hx) as (f & Hf & Hs). apply In_intersect_sub in Hf.
      destruct Hf as (_ & (f' & Hf' & Hs') & _). exists f'. split; [exact Hf'|eapply sub_trans; eassumption].
    + intros _ x Hx. destruct t as [|b2 t2].
      * cbn [fold_left] in Hx. apply In_intersect_sub in Hx. tauto.
      * apply P3; [discriminate|exact Hx].
Qed.

(* sorted(key = f_min): a permutation that keeps pairwise properties and orders the lower edges *)
Fixpoint ssorted (l : list band) : Prop :=
  match l with [] => True | a :: t => Forall (fun b => (fst a <= fst b)%Q) t /\ ssorted t end.
Definition ble (a b : band) : bool := Qle_bool (fst a) (fst b).

Lemma Forall_insert_by {A} (P : A -> Prop) (le : A -> A -> bool) x l :
  Forall P (insert_by le x l) <-> P x /\ Forall P l.
Proof.
  rewrite !Forall_forall. split.
  - intros H. split; [apply H, In_insert_by; left; reflexivity|intros y Hy; apply H, In_insert_by; right; exact Hy].
  - intros (Hx & Hl) y Hy. apply In_insert_by in Hy. destruct Hy as [->|Hy]; auto.
Qed.

Lemma pdisj_insert x l : Forall (dj x) l -> pdisj l -> pdisj (insert_by ble x l).
Proof.
  induction l as [|y t IH]; intros Hx Hl; cbn [insert_by pdisj]; [auto|].
  cbn [pdisj] in Hl. destruct Hl as (Hy & Ht). inversion Hx as [|? ? Hxy Hxt]; subst.
  destruct (ble y x); cbn [pdisj].
  - split; [apply Forall_insert_by; split; [apply dj_sym; exact Hxy|exact Hy]|apply IH; assumption].
  - split; [constructor; assumption|split; assumption].
Qed.

Lemma ssorted_insert x l : ssorted l -> ssorted (insert_by ble x l).
Proof.
  induction l as [|y t IH]; intros Hl; cbn [insert_by ssorted]; [auto|].
  cbn [ssorted] in Hl. destruct Hl as (Hy & Ht).
  destruct (ble y x) eqn:E; cbn [ssorted].
  - split; [apply Forall_insert_by; split; [apply Qle_bool_iff; exact E|exact Hy]|apply IH; exact Ht].
  - assert (Hxy : (fst x <= fst y)%Q).
    { unfold ble in E. apply Qlt_le_weak. apply Qnot_le_lt. intros H. apply Qle_bool_iff in H. congruence. }
    split; [|split; assumption]. constructor; [exact Hxy|].
    rewrite Forall_forall in *. intros b Hb. apply Qle_trans with (fst y); [exact Hxy|apply Hy; exact Hb].
Qed.

Lemma sort_bands_props l : pdisj l -> pdisj (sort_bands l) /\ ssorted (sort_bands l).
Proof.
  unfold sort_bands, sort_by. change (fun a b : Q * Q => Qle_bool (fst a) (fst b)) with ble.
  assert (H : forall acc, pdisj acc -> ssorted acc -> pdisj l -> (forall a b, In a acc -> In b l -> dj a b) ->
            pdisj (fold_left (fun acc x => insert_by ble x acc) l acc) /\
            ssorted (fold_left (fun acc x => insert_by ble x acc) l acc)).
  { induction l as [|x t IH]; intros acc Ha Hs Hl Hc; cbn [fold_left]; [auto|].
    cbn [pdisj] in Hl. destruct Hl as (Hx & Ht). apply IH.
    - apply pdisj_insert; [|exact Ha]. apply Forall_forall. intros a Ha'. apply dj_sym. apply Hc; [exact Ha'|left; reflexivity].
    - apply ssorted_insert. exact Hs.
    - exact Ht.
    - intros a b Ha' Hb. apply In_insert_by in Ha'. destruct Ha' as [->|Ha'].
      + rewrite Forall_forall in Hx. apply Hx. exact Hb.
      + apply Hc; [exact Ha'|right; exact Hb]. }
  intros Hl. apply H; cbn; auto. intros a b [].
Qed.

(* sorted by lower edge + pairwise non-overlapping + strict  =>  each band ends before the next begins *)
Lemma chain_of_sorted l : forall prev f_max,
  ssorted l -> pdisj l -> Forall strict l ->
  Forall (fun b => (prev <= fst b)%Q /\ (snd b <= f_max)%Q) l -> (prev <= f_max)%Q ->
  sorted_from prev l f_max.
Proof.
  induction l as [|[lo hi] t IH]; intros prev f_max Hs Hd Hst Hin Hpf; cbn [sorted_from]; [exact Hpf|].
  cbn [ssorted pdisj] in *. destruct Hs as (Hs1 & Hs2). destruct Hd as (Hd1 & Hd2).
  inversion Hst as [|? ? Hlh Hst']; subst. inversion Hin as [|? ? (Hp & Hf) Hin']; subst. cbn [fst snd] in *.
  split; [exact Hp|]. split; [apply Qlt_le_weak; exact Hlh|].
  apply IH; [exact Hs2|exact Hd2|exact Hst'| |exact Hf].
  rewrite Forall_forall in *. intros b Hb. destruct (Hin' b Hb) as (_ & Hbf). split; [|exact Hbf].
  destruct (Hd1 b Hb) as [H|H]; cbn [fst snd] in H; [exact H|].
  (* b ends before (lo,hi) begins although it starts after it: b would be empty *)
  exfalso. specialize (Hs1 b Hb). specialize (Hst' b Hb). cbn [fst] in Hs1. unfold strict in Hst'.
  apply (Qlt_irrefl (fst b)). apply Qlt_le_trans with (snd b); [exact Hst'|]. apply Qle_trans with lo; assumption.
Qed.

(* the result: every amplifier's own bands pairwise non-overlapping, all of them inside [f_min, f_max], and a
   non-empty outcome  =>  the common range is sorted, non-overlapping and inside [f_min, f_max] *)
Theorem find_common_range_sorted amps si f_min f_max :
  amps <> [] ->
  (forall amp, In amp amps -> pdisj amp) ->
  (forall amp b, In amp amps -> In b amp -> (f_min <= fst b)%Q /\ (snd b <= f_max)%Q) ->
  find_common_range amps si <> [] ->
  sorted_in f_min f_max (find_common_range amps si).
Proof.
  intros Hne Hpd Hin Hout. unfold find_common_range in *.
  destruct (dedupe (map sort_bands amps) []) as [|c0 t] eqn:Eu.
  { exfalso. destruct amps as [|amp amps']; [congruence|].
    destruct (dedupe_repr (map sort_bands (amp :: amps')) [] (sort_bands amp)) as (a' & Ha' & _); [left; reflexivity|].
    rewrite Eu in Ha'. destruct Ha'. }
  assert (Hu : forall a, In a (c0 :: t) -> exists amp, In amp amps /\ a = sort_bands amp).
  { intros a Ha. rewrite <- Eu in Ha. apply dedupe_incl in Ha. apply in_map_iff in Ha. destruct Ha as (amp & <- & Hamp). eauto. }
  assert (Hupd : forall a, In a (c0 :: t) -> pdisj a).
  { intros a Ha. destruct (Hu a Ha) as (amp & Hamp & ->). apply sort_bands_props. apply Hpd. exact Hamp. }
  destruct (fold_intersect_props (c0 :: t) c0) as (P1 & P2 & P3); [apply Hupd; left; reflexivity|exact Hupd|].
  set (r := fold_left intersect (c0 :: t) c0) in *.
  destruct (sort_bands_props r P1) as (S1 & S2).
  assert (Hstrict : Forall strict (sort_bands r)).
  { apply Forall_forall. intros x Hx. apply In_sort_by in Hx. apply P3; [discriminate|exact Hx]. }
  assert (Hwithin : Forall (fun b => (f_min <= fst b)%Q /\ (snd b <= f_max)%Q) (sort_bands r)).
  { apply Forall_forall. intros x Hx. apply In_sort_by in Hx. destruct (P2 x Hx) as (f & Hf & (A1 & A2)).
    destruct (Hu c0 (or_introl eq_refl)) as (amp & Hamp & E0). rewrite E0 in Hf. apply In_sort_by in Hf.
    destruct (Hin amp f Hamp Hf) as (B1 & B2). split; eapply Qle_trans; eassumption. }
  destruct (sort_bands r) as [|[lo hi] rest] eqn:Er; [congruence|].
  cbn [sorted_in]. inversion Hwithin as [|? ? (W1 & W2) Hw']; subst. inversion Hstrict as [|? ? Hlh Hst']; subst.
  cbn [fst snd] in *. split; [exact W1|]. split; [apply Qlt_le_weak; exact Hlh|].
  cbn [ssorted pdisj] in S1, S2. destruct S1 as (D1 & D2). destruct S2 as (O1 & O2).
  apply chain_of_sorted; [exact O2|exact D2|exact Hst'| |exact W2].
  rewrite Forall_forall in *. intros b Hb. destruct (Hw' b Hb) as (_ & Hbf). split; [|exact Hbf].
  destruct (D1 b Hb) as [H|H]; cbn [fst snd] in H; [exact H|].
  exfalso. specialize (O1 b Hb). specialize (Hst' b Hb). cbn [fst] in O1. unfold strict in Hst'.
  apply (Qlt_irrefl (fst b)). apply Qlt_le_trans with (snd b); [exact Hst'|]. apply Qle_trans with lo; assumption.
Qed.

(* ================================================================ remove_duplicates cannot influence the map *)
(* every piece of c is a proper interval within some band of b *)
Definition refines (c b : list band) : Prop := forall f, In f c -> strict f /\ exists s, In s b /\ sub f s.

Lemma piece_empty f s s0 : sub f s0 -> dj s0 s ->
  Qltb (qmax (fst f) (fst s)) (qmin (snd f) (snd s)) = false.
Proof.
  intros (A1 & A2) Hd. apply Qltb_false. destruct Hd as [H|H].
  - apply Qle_trans with (snd f); [apply qmin_le_l|]. apply Qle_trans with (snd s0); [exact A2|].
    apply Qle_trans with (fst s); [exact H|apply qmax_ge_r].
  - apply Qle_trans with (snd s); [apply qmin_le_r|]. apply Qle_trans with (fst s0); [exact H|].
    apply Qle_trans with (fst f); [exact A1|apply qmax_ge_l].
Qed.

Lemma piece_self f s : strict f -> sub f s ->
  (if Qltb (qmax (fst f) (fst s)) (qmin (snd f) (snd s)) then [(qmax (fst f) (fst s), qmin (snd f) (snd s))] else []) = [f].
Proof.
  intros Hst (A1 & A2).
  assert (E1 : qmax (fst f) (fst s) = fst f).
  { unfold qmax. destruct (Qltb (fst f) (fst s)) eqn:E; [|reflexivity]. apply Qltb_true in E.
    exfalso. apply (Qlt_irrefl (fst f)). apply Qlt_le_trans with (fst s); assumption. }
  assert (E2 : qmin (snd f) (snd s) = snd f).
  { unfold qmin. destruct (Qltb (snd s) (snd f)) eqn:E; [|reflexivity]. apply Qltb_true in E.
    exfalso. apply (Qlt_irrefl (snd s)). apply Qlt_le_trans with (snd f); assumption. }
  rewrite E1, E2. rewrite (proj2 (Qltb_true _ _) Hst). destruct f; reflexivity.
Qed.

Lemma inner_nil f s0 b : sub f s0 -> Forall (dj s0) b -> inner f b = [].
Proof.
  intros Hs H. induction H as [|s t Hd _ IH]; [reflexivity|].
  change (inner f (s :: t)) with
    ((if Qltb (qmax (fst f) (fst s)) (qmin (snd f) (snd s)) then [(qmax (fst f) (fst s), qmin (snd f) (snd s))] else [])
     ++ inner f t).
  rewrite (piece_empty f s s0 Hs Hd), IH. reflexivity.
Qed.

Lemma inner_single f b : strict f -> pdisj b -> (exists s, In s b /\ sub f s) -> inner f b = [f].
Proof.
  intros Hst. induction b as [|s0 t IH]; intros Hp (s & Hs & Hsub); [destruct Hs|].
  cbn [pdisj] in Hp. destruct Hp as (Hd & Hp).
  change (inner f (s0 :: t)) with
    ((if Qltb (qmax (fst f) (fst s0)) (qmin (snd f) (snd s0)) then [(qmax (fst f) (fst s0), qmin (snd f) (snd s0))] else [])
     ++ inner f t).
  destruct Hs as [<-|Hs].
  - rewrite (piece_self f s0 Hst Hsub), (inner_nil f s0 t Hsub Hd). reflexivity.
  - rewrite Forall_forall in Hd. rewrite (piece_empty f s0 s Hsub (dj_sym _ _ (Hd s Hs))).
    rewrite IH; [reflexivity|exact Hp|eauto].
Qed.

Lemma intersect_id c b : pdisj b -> refines c b -> intersect c b = c.
Proof.
  intros Hp. induction c as [|f t IH]; intros Hr; [reflexivity|].
  rewrite intersect_cons. destruct (Hr f (or_introl eq_refl)) as (Hst & Hex).
  rewrite (inner_single f b Hst Hp Hex). cbn [app]. f_equal. apply IH. intros x Hx. apply Hr. right. exact Hx.
Qed.

Lemma refines_intersect_r c b : refines (intersect c b) b.
Proof. intros x Hx. apply In_intersect_sub in Hx. tauto. Qed.

Lemma refines_intersect_l c b b2 : refines c b -> refines (intersect c b2) b.
Proof.
  intros Hr x Hx. apply In_intersect_sub in Hx. destruct Hx as (Hst & (f & Hf & Hs) & _).
  split; [exact Hst|]. destruct (Hr f Hf) as (_ & s & Hs' & Hsub). exists s. split; [exact Hs'|eapply sub_trans; eassumption].
Qed.

Lemma bands_eqb_sym a : forall a', bands_eqb a a' = true -> bands_eqb a' a = true.
Proof.
  induction a as [|x t IH]; intros [|x' t'] E; cbn [bands_eqb] in *; try discriminate; [reflexivity|].
  apply andb_true_iff in E. destruct E as (E1 & E2). rewrite (IH t' E2). unfold band_eqb in *.
  apply andb_true_iff in E1. destruct E1 as (Ea & Eb). apply Qeq_bool_eq in Ea. apply Qeq_bool_eq in Eb.
  rewrite (proj2 (Qeq_bool_iff _ _) (Qeq_sym _ _ Ea)), (proj2 (Qeq_bool_iff _ _) (Qeq_sym _ _ Eb)). reflexivity.
Qed.

Lemma bands_eqb_In a : forall a' s, bands_eqb a a' = true -> In s a ->
  exists s', In s' a' /\ (fst s == fst s')%Q /\ (snd s == snd s')%Q.
Proof.
  induction a as [|x t IH]; intros [|x' t'] s E Hs; cbn [bands_eqb] in E; try discriminate; [destruct Hs|].
  apply andb_true_iff in E. destruct E as (E1 & E2). unfold band_eqb in E1. apply andb_true_iff in E1.
  destruct E1 as (Ea & Eb). apply Qeq_bool_eq in Ea. apply Qeq_bool_eq in Eb.
  destruct Hs as [<-|Hs].
  - exists x'. split; [left; reflexivity|auto].
  - destruct (IH t' s E2 Hs) as (s' & Hs' & H). exists s'. split; [right; exact Hs'|exact H].
Qed.

Lemma refines_eqb c b b' : bands_eqb b b' = true -> refines c b -> refines c b'.
Proof.
  intros E Hr f Hf. destruct (Hr f Hf) as (Hst & s & Hs & (A1 & A2)). split; [exact Hst|].
  destruct (bands_eqb_In b b' s E Hs) as (s' & Hs' & E1 & E2). exists s'. split; [exact Hs'|].
  split; [rewrite <- E1; exact A1|rewrite <- E2; exact A2].
Qed.

(* remove_duplicates with ANY equality test that is at least as fine as band-for-band equality of (f_min, f_max) *)
Fixpoint gdedupe {A} (eqt : A -> A -> bool) (l seen : list A) : list A :=
  match l with
  | [] => []
  | a :: t => if existsb (eqt a) seen then gdedupe eqt t seen else a :: gdedupe eqt t (seen ++ [a])
  end.

Lemma dedupe_gdedupe l : forall seen, dedupe l seen = gdedupe bands_eqb l seen.
Proof. induction l as [|a t IH]; intros seen; cbn [dedupe gdedupe]; [reflexivity|]. rewrite !IH. reflexivity. Qed.
Lemma dedupe_sp_gdedupe l : forall seen, dedupe_sp l seen = gdedupe sbands_eqb l seen.
Proof. induction l as [|a t IH]; intros seen; cbn [dedupe_sp gdedupe]; [reflexivity|]. rewrite !IH. reflexivity. Qed.

Lemma gdedupe_fold {A} (eqt : A -> A -> bool) (proj : A -> list band) :
  (forall a s, eqt a s = true -> bands_eqb (proj a) (proj s) = true) ->
  forall l seen c,
    (forall a, In a l -> pdisj (proj a)) ->
    (forall s, In s seen -> refines c (proj s)) ->
    fold_left intersect (map proj (gdedupe eqt l seen)) c = fold_left intersect (map proj l) c.
Proof.
  intros Heq. induction l as [|a t IH]; intros seen c Hp Hs; [reflexivity|]. cbn [gdedupe map fold_left].
  destruct (existsb (eqt a) seen) eqn:E.
  - apply existsb_exists in E. destruct E as (s & Hin & Hes).
    rewrite (intersect_id c (proj a)).
    + apply IH; [intros; apply Hp; right; assumption|exact Hs].
    + apply Hp. left. reflexivity.
    + apply (refines_eqb c (proj s) (proj a)); [apply bands_eqb_sym, Heq, Hes|apply Hs, Hin].
  - cbn [map fold_left]. apply IH; [intros; apply Hp; right; assumption|].
    intros s Hin. apply in_app_iff in Hin. destruct Hin as [Hin|[<-|[]]].
    + apply refines_intersect_l. apply Hs. exact Hin.
    + apply refines_intersect_r.
Qed.

(* the whole function with any such test = the fold over ALL sorted amplifiers, no duplicate removed *)
Definition fcr_all (L : list (list band)) (si : band) : list band :=
  match L with [] => [si] | c0 :: _ => sort_bands (fold_left intersect L c0) end.

Lemma gdedupe_fcr {A} (eqt : A -> A -> bool) (proj : A -> list band) (L : list A) si :
  (forall a s, eqt a s = true -> bands_eqb (proj a) (proj s) = true) ->
  (forall a, In a L -> pdisj (proj a)) ->
  match gdedupe eqt L [] with
  | [] => [si]
  | c0 :: t => sort_bands (fold_left intersect (map proj (c0 :: t)) (proj c0))
  end = fcr_all (map proj L) si.
Proof.
  intros Heq Hp. destruct L as [|c0 L']; [reflexivity|]. cbn [gdedupe existsb app map fcr_all fold_left].
  f_equal. apply (gdedupe_fold eqt proj Heq L' [c0] (intersect (proj c0) (proj c0))).
  - intros a Ha. apply Hp. right. exact Ha.
  - intros s [<-|[]]. apply refines_intersect_r.
Qed.

Lemma sbands_eqb_bands a : forall s, sbands_eqb a s = true -> bands_eqb (map sb_band a) (map sb_band s) = true.
Proof.
  induction a as [|x t IH]; intros [|y t'] E; cbn [sbands_eqb] in E; try discriminate; [reflexivity|].
  apply andb_true_iff in E. destruct E as (E1 & E2). unfold sband_eqb in E1. apply andb_true_iff in E1.
  destruct E1 as (E1 & _). cbn [map bands_eqb]. rewrite E1, (IH t' E2). reflexivity.
Qed.

Lemma map_insert_by {A B} (f : A -> B) (le : A -> A -> bool) (le' : B -> B -> bool) x l :
  (forall a b, le a b = le' (f a) (f b)) -> map f (insert_by le x l) = insert_by le' (f x) (map f l).
Proof.
  intros H. induction l as [|y t IH]; [reflexivity|]. cbn [insert_by map]. rewrite <- H.
  destruct (le y x); cbn [map]; [rewrite IH|]; reflexivity.
Qed.

Lemma map_sort_by {A B} (f : A -> B) (le : A -> A -> bool) (le' : B -> B -> bool) l :
  (forall a b, le a b = le' (f a) (f b)) -> map f (sort_by le l) = sort_by le' (map f l).
Proof.
  intros H. unfold sort_by.
  assert (G : forall acc, map f (fold_left (fun acc x => insert_by le x acc) l acc) =
                          fold_left (fun acc x => insert_by le' x acc) (map f l) (map f acc)).
  { induction l as [|x t IH]; intros acc; [reflexivity|]. cbn [fold_left map]. rewrite IH.
    rewrite (map_insert_by f le le' x acc H). reflexivity. }
  apply (G []).
Qed.

(* spacing (or any other key remove_duplicates looks at) cannot influence the spectrum map: with amplifiers whose
   own bands do not overlap, the spacing-aware function returns exactly what the (f_min, f_max)-only model returns *)
Theorem spacing_irrelevant amps si :
  (forall amp, In amp amps -> pdisj (map sb_band amp)) ->
  find_common_range_sp amps si = find_common_range (map (map sb_band) amps) si.
Proof.
  intros Hp.
  assert (Hsort : forall a, map sb_band (sort_sbands a) = sort_bands (map sb_band a)).
  { intros a. unfold sort_sbands, sort_bands. apply map_sort_by. intros x y. reflexivity. }
  assert (HL : map (map sb_band) (map sort_sbands amps) = map sort_bands (map (map sb_band) amps)).
  { rewrite !map_map. apply map_ext. exact Hsort. }
  unfold find_common_range_sp, find_common_range.
  rewrite dedupe_sp_gdedupe, dedupe_gdedupe.
  rewrite (gdedupe_fcr sbands_eqb (map sb_band) (map sort_sbands amps) si sbands_eqb_bands).
  2:{ intros a Ha. apply in_map_iff in Ha. destruct Ha as (amp & <- & Hamp). rewrite Hsort.
      apply sort_bands_props. apply Hp. exact Hamp. }
  pose proof (gdedupe_fcr bands_eqb (fun x => x) (map sort_bands (map (map sb_band) amps)) si (fun a s H => H)) as G.
  rewrite map_id in G. rewrite HL.
  rewrite <- G.
  - destruct (gdedupe bands_eqb (map sort_bands (map (map sb_band) amps)) []) as [|c0 t]; [reflexivity|].
    rewrite map_id. reflexivity.
  - intros a Ha. apply in_map_iff in Ha. destruct Ha as (amp & <- & Hamp). apply sort_bands_props.
    apply in_map_iff in Hamp. destruct Hamp as (amp0 & <- & Hamp0). apply Hp. exact Hamp0.
Qed.

(* ================================================================ local graph conditions => chain structure *)
Lemma walk_hd g f x y p : walk g f x y = Ok p -> exists t, p = y :: t.
Proof.
  destruct f as [|f]; cbn [walk]; [discriminate|].
  destruct (lookup g y) as [n|]; [|discriminate].
  destruct (kind_eqb (kind n) KRoadm).
  - intros H. injection H as <-. eauto.
  - destruct (filter _ (succs n)) as [|nx l]; [discriminate|].
    destruct (walk g f y nx) as [r|e]; [|discriminate]. cbn [bind]. intros H. injection H as <-. eauto.
Qed.

Lemma is_line_uid_lookup g u : is_line_uid g u = true -> exists n, lookup g u = Some n /\ is_line_node n = true.
Proof. unfold is_line_uid. destruct (lookup g u) as [n|]; [eauto|discriminate]. Qed.

Definition nodes_local (g : graph) : Prop := forall n, In n g -> node_local_b g n = true.

Lemma line_node_succ g n : nodes_local g -> In n g -> is_line_node n = true ->
  exists s, succs n = [s] /\ (is_kind g KRoadm s = true \/ is_line_uid g s = true).
Proof.
  intros HL Hn Hl. specialize (HL n Hn). unfold node_local_b in HL. unfold is_line_node in Hl.
  destruct (kind n); cbn in Hl; try discriminate;
    (destruct (succs n) as [|s [|s2 l]]; try discriminate; exists s; split; [reflexivity|]; apply orb_true_iff in HL; exact HL).
Qed.

(* a successful walk from x into a line element or a ROADM is a chain ending at a ROADM *)
Lemma walk_chain_ok g : nodes_local g -> forall f x y p,
  walk g f x y = Ok p -> (is_kind g KRoadm y = true \/ is_line_uid g y = true) ->
  chain_ok_b g x p = true /\ is_kind g KRoadm (List.last p 0) = true.
Proof.
  intros HL. induction f as [|f IH]; intros x y p Hw Hy; cbn [walk] in Hw; [discriminate|].
  destruct (lookup g y) as [n|] eqn:En; [|discriminate].
  destruct (kind_eqb (kind n) KRoadm) eqn:Ek.
  - injection Hw as <-. split; [reflexivity|]. cbn [List.last]. unfold is_kind, kind_of. rewrite En. cbn [option_map].
    rewrite kind_eqb_sym. exact Ek.
  - assert (Hline : is_line_node n = true).
    { destruct Hy as [Hy|Hy].
      - unfold is_kind, kind_of in Hy. rewrite En in Hy. cbn [option_map] in Hy. rewrite kind_eqb_sym in Hy. congruence.
      - unfold is_line_uid in Hy. rewrite En in Hy. exact Hy. }
    destruct (lookup_In g y n En) as (Hn & Hu).
    destruct (line_node_succ g n HL Hn Hline) as (s & Es & Hs). rewrite Es in Hw. cbn [filter] in Hw.
    destruct (s =? x) eqn:Esx; cbn [negb] in Hw; [discriminate|].
    destruct (walk g f y s) as [r|e] eqn:Er; [|discriminate]. cbn [bind] in Hw. injection Hw as <-.
    destruct (IH y s r Er Hs) as (Hc & Hlast). destruct (walk_hd g f y s r Er) as (t & ->).
    split.
    + cbn [chain_ok_b]. rewrite En, Es. unfold is_line_node in Hline. apply andb_true_iff in Hline.
      destruct Hline as (A & B). rewrite A, B, Z.eqb_refl, Esx. cbn. exact Hc.
    + exact Hlast.
Qed.

Lemma starts_in g vs a b : In (a, b) (starts_of g vs) ->
  exists n, In n vs /\ uid n = a /\ In b (succs n) /\ is_kind g KTrx b = false.
Proof.
  unfold starts_of. rewrite in_flat_map. intros (n & Hn & Hin). apply in_map_iff in Hin.
  destruct Hin as (t & Et & Ht). injection Et as <- <-. apply filter_In in Ht. destruct Ht as (Ht & Hk).
  exists n. repeat split; auto. apply negb_true_iff in Hk. exact Hk.
Qed.

Lemma walk_target_kind g f x y p : walk g f x y = Ok p -> is_kind g KTrx y = false ->
  is_kind g KRoadm y = true \/ is_line_uid g y = true.
Proof.
  destruct f as [|f]; cbn [walk]; [discriminate|]. unfold is_kind, kind_of, is_line_uid, is_line_node.
  destruct (lookup g y) as [n|]; [|discriminate]. cbn [option_map]. intros _ Ht.
  rewrite (kind_eqb_sym KTrx) in Ht. rewrite (kind_eqb_sym KRoadm).
  destruct (kind_eqb (kind n) KRoadm); [left; reflexivity|right]. rewrite Ht. reflexivity.
Qed.

(* ---- edges into line elements, root paths *)
Definition edgeL (g : graph) (a u : Z) : Prop :=
  exists n, In n g /\ uid n = a /\ In u (succs n) /\ is_line_uid g u = true.
Definition has_roadm (g : graph) (a : Z) : Prop := exists n, In n g /\ uid n = a /\ is_roadm n = true.
Definition has_line (g : graph) (a : Z) : Prop := exists n, In n g /\ uid n = a /\ is_line_node n = true.

Inductive rpn (g : graph) (r t : Z) : Z -> nat -> Prop :=
  | rp0 : edgeL g r t -> has_roadm g r -> rpn g r t t 0
  | rpS u v k : rpn g r t u k -> edgeL g u v -> has_line g u -> rpn g r t v (S k).

Lemma NoDup_app_disj {A} (l1 l2 : list A) x : NoDup (l1 ++ l2) -> In x l1 -> In x l2 -> False.
Proof.
  induction l1 as [|a t IH]; intros H H1 H2; [destruct H1|]. cbn [app] in H. inversion H as [|? ? Hn Ht]; subst.
  destruct H1 as [->|H1]; [apply Hn, in_or_app; right; exact H2|eauto].
Qed.

Lemma NoDup_flat_map_inj {A B} (f : A -> list B) l x y u :
  NoDup (flat_map f l) -> In x l -> In y l -> In u (f x) -> In u (f y) -> x = y \/ False.
Proof.
  induction l as [|a t IH]; intros Hnd Hx Hy Hux Huy; [destruct Hx|]. cbn [flat_map] in Hnd.
  destruct Hx as [->|Hx]; destruct Hy as [->|Hy]; auto.
  - right. apply (NoDup_app_disj _ _ u Hnd Hux). apply in_flat_map. eauto.
  - right. apply (NoDup_app_disj _ _ u Hnd Huy). apply in_flat_map. eauto.
  - apply IH; auto. eapply NoDup_app_r. exact Hnd.
Qed.

Lemma edge_fun g a a' u : NoDup (line_targets g) -> edgeL g a u -> edgeL g a' u -> a = a'.
Proof.
  intros Hnd (n & Hn & <- & Hu & Hl) (n' & Hn' & <- & Hu' & _).
  destruct (NoDup_flat_map_inj (fun n => filter (is_line_uid g) (succs n)) g n n' u Hnd Hn Hn') as [->|[]];
    [apply filter_In; auto|apply filter_In; auto|reflexivity].
Qed.

Lemma kind_clash g a : NoDup (map uid g) -> has_roadm g a -> has_line g a -> False.
Proof.
  intros Hnd (n & Hn & Hu & Hr) (n' & Hn' & Hu' & Hl).
  pose proof (lookup_NoDup g n Hnd Hn) as L1. pose proof (lookup_NoDup g n' Hnd Hn') as L2.
  rewrite Hu in L1. rewrite Hu' in L2. rewrite L1 in L2. injection L2 as <-.
  unfold is_roadm in Hr. unfold is_line_node in Hl. rewrite Hr in Hl. discriminate.
Qed.

Lemma rpn_inv g r t u k : rpn g r t u k ->
  (u = t /\ k = 0%nat /\ edgeL g r t /\ has_roadm g r) \/
  (exists w k0, k = S k0 /\ rpn g r t w k0 /\ edgeL g w u /\ has_line g w).
Proof. intros H. destruct H as [He Hr|w v k H He Hl]; [left; auto|right; exists w, k; auto]. Qed.

Lemma rpn_unique g r t r' t' u k k' :
  NoDup (map uid g) -> NoDup (line_targets g) ->
  rpn g r t u k -> rpn g r' t' u k' -> t = t' /\ k = k'.
Proof.
  intros Hn Ht H. revert r' t' k'. induction H as [He Hr|w v k H IH He Hl]; intros r' t' k' H'.
  - apply rpn_inv in H'. destruct H' as [(E1 & E2 & _)|(w' & k0 & _ & _ & He' & Hl')]; [subst; auto|].
    exfalso. rewrite <- (edge_fun g r w' t Ht He He') in Hl'. eapply kind_clash; eassumption.
  - apply rpn_inv in H'. destruct H' as [(E1 & E2 & He' & Hr')|(w' & k0 & Ek & H'' & He' & Hl')].
    + exfalso. subst v. rewrite (edge_fun g w r' t' Ht He He') in Hl. eapply kind_clash; eassumption.
    + rewrite <- (edge_fun g w w' v Ht He He') in H''. destruct (IH _ _ _ H'') as (E1 & E2). subst. auto.
Qed.

(* the interior of a chain, position by position *)
Lemma chain_rpn g r t : forall p x k,
  chain_ok_b g x p = true ->
  (forall y rest, p = y :: rest -> rest <> [] -> rpn g r t y k) ->
  forall i u, nth_error (removelast p) i = Some u -> rpn g r t u (k + i).
Proof.
  induction p as [|y q IH]; intros x k Hc Hbase i u Hi; [destruct i; discriminate|].
  destruct q as [|z q']; [destruct i; discriminate|].
  change (removelast (y :: z :: q')) with (y :: removelast (z :: q')) in Hi.
  destruct i as [|i]; cbn [nth_error] in Hi.
  - injection Hi as <-. rewrite Nat.add_0_r. apply (Hbase y (z :: q')); [reflexivity|discriminate].
  - replace (k + S i)%nat with (S k + i)%nat by lia.
    cbn [chain_ok_b] in Hc. apply andb_true_iff in Hc. destruct Hc as (Hy & Hrest).
    apply (IH y (S k) Hrest); [|exact Hi].
    intros y' rest E Hne. injection E as <- <-.
    destruct (lookup g y) as [n|] eqn:En; [|discriminate].
    apply andb_true_iff in Hy. destruct Hy as (Hk & Hs). apply andb_true_iff in Hk. destruct Hk as (K1 & K2).
    destruct (succs n) as [|s [|s2 ss]] eqn:Es; try discriminate.
    apply andb_true_iff in Hs. destruct Hs as (Esz & _). assert (s = z) by lia. subst s.
    destruct (lookup_In g y n En) as (Hn & Hu).
    apply (rpS g r t y z k).
    + apply (Hbase y (z :: q')); [reflexivity|discriminate].
    + exists n. repeat split; auto; [rewrite Es; left; reflexivity|].
      (* z is itself an interior element: a line element *)
      destruct q' as [|w rest']; [congruence|]. cbn [chain_ok_b] in Hrest.
      apply andb_true_iff in Hrest. destruct Hrest as (Hz & _). unfold is_line_uid, is_line_node.
      destruct (lookup g z) as [nz|]; [|discriminate]. apply andb_true_iff in Hz. destruct Hz as (Hz & _). exact Hz.
    + exists n. repeat split; auto. unfold is_line_node. rewrite K1, K2. reflexivity.
Qed.

(* ---- list lemmas *)
Lemma NoDup_app_intro {A} (l1 l2 : list A) :
  NoDup l1 -> NoDup l2 -> (forall x, In x l1 -> In x l2 -> False) -> NoDup (l1 ++ l2).
Proof.
  induction l1 as [|a t IH]; intros H1 H2 Hd; [exact H2|]. inversion H1 as [|? ? Hn Ht]; subst. cbn [app]. constructor.
  - intros Hin. apply in_app_iff in Hin. destruct Hin as [Hin|Hin]; [auto|apply (Hd a); [left; reflexivity|exact Hin]].
  - apply IH; auto. intros x Hx. apply Hd. right. exact Hx.
Qed.

Lemma NoDup_flat_map_keyed {A B K} (f : A -> list B) (key : A -> K) l :
  NoDup (map key l) -> (forall x, In x l -> NoDup (f x)) ->
  (forall x y u, In x l -> In y l -> In u (f x) -> In u (f y) -> key x = key y) ->
  NoDup (flat_map f l).
Proof.
  induction l as [|a t IH]; intros Hk Hf Hc; [constructor|]. cbn [map] in Hk. inversion Hk as [|? ? Hn Ht]; subst.
  cbn [flat_map]. apply NoDup_app_intro.
  - apply Hf. left. reflexivity.
  - apply IH; auto.
    + intros x Hx. apply Hf. right. exact Hx.
    + intros x y u Hx Hy. apply Hc; right; assumption.
  - intros u Hu Hu'. apply in_flat_map in Hu'. destruct Hu' as (y & Hy & Huy).
    apply Hn. rewrite (Hc a y u (or_introl eq_refl) (or_intror Hy) Hu Huy). apply in_map. exact Hy.
Qed.

Lemma flat_map_filter_nonempty {A B} (f : A -> list B) l :
  flat_map f l = flat_map f (filter (fun x => match f x with [] => false | _ => true end) l).
Proof.
  induction l as [|a t IH]; [reflexivity|]. cbn [flat_map filter]. destruct (f a) eqn:E.
  - cbn [app]. exact IH.
  - cbn [flat_map]. rewrite E, IH. reflexivity.
Qed.

Lemma filter_flat_map {A B} (q : B -> bool) (h : A -> list B) l :
  filter q (flat_map h l) = flat_map (fun n => filter q (h n)) l.
Proof. induction l as [|a t IH]; [reflexivity|]. cbn [flat_map]. rewrite filter_app, IH. reflexivity. Qed.

Lemma NoDup_flat_map_sub {A B} (F F' : A -> list B) (q : A -> bool) l :
  (forall n, incl (F' n) (F n)) -> (forall n, NoDup (F n) -> NoDup (F' n)) ->
  NoDup (flat_map F l) -> NoDup (flat_map F' (filter q l)).
Proof.
  intros Hi Hn. induction l as [|a t IH]; intros H; [constructor|]. cbn [flat_map] in H. cbn [filter].
  pose proof (NoDup_app_l _ _ H) as H1. pose proof (NoDup_app_r _ _ H) as H2.
  destruct (q a); [|apply IH; exact H2]. cbn [flat_map]. apply NoDup_app_intro; [apply Hn; exact H1|apply IH; exact H2|].
  intros x Hx Hx'. apply (NoDup_app_disj _ _ x H); [apply Hi; exact Hx|].
  apply in_flat_map in Hx'. destruct Hx' as (y & Hy & Hxy). apply filter_In in Hy. apply in_flat_map. exists y.
  split; [tauto|apply Hi; exact Hxy].
Qed.

Lemma map_snd_starts g vs : map snd (starts_of g vs) = flat_map (fun n => filter (fun t => negb (is_kind g KTrx t)) (succs n)) vs.
Proof.
  unfold starts_of. induction vs as [|n t IH]; [reflexivity|]. cbn [flat_map]. rewrite map_app, IH. f_equal.
  rewrite map_map. cbn [snd]. apply map_id.
Qed.

Lemma filter_comm {A} (p q : A -> bool) l : filter p (filter q l) = filter q (filter p l).
Proof.
  induction l as [|a t IH]; [reflexivity|]. cbn [filter].
  destruct (q a) eqn:Eq; destruct (p a) eqn:Ep; cbn [filter]; rewrite ?Eq, ?Ep, IH; reflexivity.
Qed.

Lemma line_start_targets_NoDup g :
  NoDup (line_targets g) -> NoDup (filter (is_line_uid g) (map snd (roadm_starts g))).
Proof.
  intros H. unfold roadm_starts. rewrite map_snd_starts, filter_flat_map.
  apply (NoDup_flat_map_sub (fun n => filter (is_line_uid g) (succs n))); [| |exact H].
  - intros n x Hx. apply filter_In in Hx. destruct Hx as (Hx & Hl). apply filter_In in Hx. apply filter_In. tauto.
  - intros n Hn. rewrite filter_comm. apply NoDup_filter. exact Hn.
Qed.

Lemma Forall2_In_l {A B} (R : A -> B -> Prop) l l' x : Forall2 R l l' -> In x l -> exists y, In y l' /\ R x y.
Proof.
  induction 1 as [|a b l l' Hab _ IH]; intros Hx; [destruct Hx|]. destruct Hx as [<-|Hx].
  - exists b. split; [left; reflexivity|exact Hab].
  - destruct (IH Hx) as (y & Hy & Hr). exists y. split; [right; exact Hy|exact Hr].
Qed.
Lemma Forall2_In_r {A B} (R : A -> B -> Prop) l l' y : Forall2 R l l' -> In y l' -> exists x, In x l /\ R x y.
Proof.
  induction 1 as [|a b l l' Hab _ IH]; intros Hy; [destruct Hy|]. destruct Hy as [<-|Hy].
  - exists a. split; [left; reflexivity|exact Hab].
  - destruct (IH Hy) as (x & Hx & Hr). exists x. split; [right; exact Hx|exact Hr].
Qed.

(* ---- the decomposition *)
Definition walked (g : graph) (st : Z * Z) (l : line) : Prop :=
  exists p, walk_of g st = Ok p /\ l = line_of_walk st p.

Lemma nodup_b_true_iff l : NoDup l -> nodup_b l = true.
Proof.
  induction 1 as [|x t Hn _ IH]; [reflexivity|]. cbn [nodup_b]. rewrite IH, andb_true_r. apply negb_true_iff.
  destruct (existsb (Z.eqb x) t) eqn:E; [|reflexivity]. apply existsb_exists in E. destruct E as (y & Hy & Ey).
  assert (x = y) by lia. subst. contradiction.
Qed.

Record walk_facts (g : graph) (st : Z * Z) (p : list Z) : Prop := mkWF {
  wf_hd : exists rest, p = snd st :: rest;
  wf_chain : chain_ok_b g (fst st) p = true;
  wf_last : is_kind g KRoadm (List.last p 0) = true;
  wf_src : exists n, In n g /\ uid n = fst st /\ is_roadm n = true /\ In (snd st) (succs n)
}.

Lemma walk_of_facts g st p :
  nodes_local g -> In st (roadm_starts g) -> walk_of g st = Ok p -> walk_facts g st p.
Proof.
  intros HL Hst Hw. destruct st as [r t]. unfold roadm_starts in Hst. apply starts_in in Hst.
  destruct Hst as (n & Hn & Hu & Ht & Hk). apply filter_In in Hn. destruct Hn as (Hn & Hr).
  unfold walk_of in Hw. cbn [fst snd] in *.
  pose proof (walk_target_kind g _ r t p Hw Hk) as Hkind.
  destruct (walk_chain_ok g HL _ r t p Hw Hkind) as (Hc & Hlast).
  constructor; cbn [fst snd]; auto.
  - eapply walk_hd. exact Hw.
  - exists n. auto.
Qed.

Lemma removelast_app_last {A} (p : list A) d : p <> [] -> removelast p ++ [List.last p d] = p.
Proof. intros H. symmetry. apply app_removelast_last. exact H. Qed.

Theorem local_wf_sound g :
  local_wf_b g = true -> exists d, lines_of g = Ok d /\ chain_wf g d.
Proof.
  unfold local_wf_b. intros H.
  apply andb_true_iff in H. destruct H as (H & H5).
  apply andb_true_iff in H. destruct H as (H & H4).
  apply andb_true_iff in H. destruct H as (H & H3).
  apply andb_true_iff in H. destruct H as (H1 & H2).
  pose proof (nodup_b_NoDup _ H1) as Huid. pose proof (nodup_b_NoDup _ H3) as Htgt.
  assert (HL : nodes_local g) by (intros n Hn; rewrite forallb_forall in H2; apply H2; exact Hn).
  rewrite forallb_forall in H4.
  (* the lines *)
  destruct (mapM_Forall2 (fun st => let* p := walk_of g st in Ok (line_of_walk st p)) (walked g) (roadm_starts g))
    as (d & Hd & HF).
  { intros st Hst. specialize (H4 st Hst). destruct (walk_of g st) as [p|e] eqn:Ep; [|discriminate].
    cbn [bind]. exists (line_of_walk st p). split; [reflexivity|]. exists p. auto. }
  exists d. split; [exact Hd|].
  assert (Hfacts : forall l, In l d -> exists st p, In st (roadm_starts g) /\ walk_of g st = Ok p /\
                     l = line_of_walk st p /\ walk_facts g st p).
  { intros l Hl. destruct (Forall2_In_r _ _ _ l HF Hl) as (st & Hst & p & Hp & ->).
    exists st, p. split; [exact Hst|]. split; [exact Hp|]. split; [reflexivity|]. apply walk_of_facts; auto. }
  constructor.
  - exact Huid.
  - intros n Hn Hk. specialize (HL n Hn). unfold node_local_b in HL. rewrite Hk in HL.
    destruct (succs n) as [|s t]; [discriminate|]. exists s, t. split; [reflexivity|].
    cbn [forallb] in HL. apply andb_true_iff in HL. tauto.
  - (* starts *)
    change (filter is_roadm g) with (filter (fun n => kind_eqb (kind n) KRoadm) g). fold (roadm_starts g).
    assert (G : forall ss dd, Forall2 (walked g) ss dd -> (forall st, In st ss -> In st (roadm_starts g)) ->
                map (fun l => (src l, first_hop l)) dd = ss).
    { induction 1 as [|st l ss dd (p & Hp & ->) _ IH]; intros Hin; [reflexivity|]. cbn [map].
      rewrite IH by (intros; apply Hin; right; assumption). f_equal.
      destruct (walk_of_facts g st p HL (Hin st (or_introl eq_refl)) Hp) as [(rest & ->) _ _ _].
      destruct st as [r t]. unfold line_of_walk, first_hop. cbn [src lels dst fst snd]. f_equal.
      destruct rest; reflexivity. }
    apply G; auto.
  - (* every line is a chain ending at a ROADM *)
    apply Forall_forall. intros l Hl. destruct (Hfacts l Hl) as (st & p & Hst & Hp & -> & [(rest & E) Hc Hlast _]).
    unfold line_ok_b, line_of_walk. cbn [src lels dst]. rewrite Hlast. cbn [andb].
    rewrite removelast_app_last by (rewrite E; discriminate). exact Hc.
  - (* no line element on two lines, or twice on one *)
    rewrite flat_map_filter_nonempty.
    set (d' := filter (fun x => match lels x with [] => false | _ => true end) d).
    assert (Hd' : forall l, In l d' -> In l d /\ lels l <> []).
    { intros l Hl. apply filter_In in Hl. destruct Hl as (Hl & E). split; [exact Hl|]. destruct (lels l); [discriminate|discriminate]. }
    assert (Hrp : forall l, In l d -> forall i u, nth_error (lels l) i = Some u -> rpn g (src l) (first_hop l) u i).
    { intros l Hl i u Hi. destruct (Hfacts l Hl) as (st & p & Hst & Hp & -> & [(rest & E) Hc Hlast (n & Hn & Hu & Hr & Hsucc)]).
      destruct st as [r t]. cbn [fst snd] in *. unfold line_of_walk, first_hop in *. cbn [src lels dst] in *.
      assert (Efh : hd (List.last p 0) (removelast p) = t) by (rewrite E; destruct rest; reflexivity).
      rewrite Efh. apply (chain_rpn g r t p r 0 Hc); [|exact Hi].
      intros y rest' E' Hne. rewrite E in E'. injection E' as <- <-. apply rp0.
      - exists n. repeat split; auto. rewrite E in Hc. destruct rest as [|z q]; [congruence|].
        cbn [chain_ok_b] in Hc. apply andb_true_iff in Hc. destruct Hc as (Hy & _). unfold is_line_uid, is_line_node.
        destruct (lookup g t) as [ny|]; [|discriminate]. apply andb_true_iff in Hy. tauto.
      - exists n. auto. }
    apply (NoDup_flat_map_keyed lels first_hop).
    + (* first hops of the lines with an interior are distinct *)
      assert (G : forall ss dd, Forall2 (walked g) ss dd -> (forall st, In st ss -> In st (roadm_starts g)) ->
                  map first_hop (filter (fun x => match lels x with [] => false | _ => true end) dd) =
                  filter (is_line_uid g) (map snd ss)).
      { induction 1 as [|st l ss dd (p & Hp & ->) _ IH]; intros Hin; [reflexivity|]. cbn [map filter].
        destruct (walk_of_facts g st p HL (Hin st (or_introl eq_refl)) Hp) as [(rest & E) Hc Hlast _].
        destruct st as [r t]. cbn [fst snd] in *. unfold line_of_walk at 1 2. cbn [lels].
        rewrite E. destruct rest as [|z q].
        - (* the first hop is the ROADM itself *)
          cbn [removelast]. rewrite E in Hlast. cbn [List.last] in Hlast. apply is_kind_lookup in Hlast.
          destruct Hlast as (nt & Ent & Ekt). unfold is_line_uid at 1. rewrite Ent. unfold is_line_node.
          rewrite kind_eqb_sym in Ekt. rewrite Ekt. cbn [negb andb]. apply IH. intros; apply Hin; right; assumption.
        - change (removelast (t :: z :: q)) with (t :: removelast (z :: q)).
          rewrite E in Hc. cbn [chain_ok_b] in Hc. apply andb_true_iff in Hc. destruct Hc as (Hy & _).
          unfold is_line_uid at 1. unfold is_line_node. destruct (lookup g t) as [nt|]; [|discriminate].
          apply andb_true_iff in Hy. destruct Hy as (Hy & _). rewrite Hy. cbn [map]. f_equal.
          apply IH. intros; apply Hin; right; assumption. }
      fold d'. unfold d'. rewrite (G _ _ HF (fun st H => H)). apply line_start_targets_NoDup. exact Htgt.
    + intros l Hl. destruct (Hd' l Hl) as (Hld & _). apply NoDup_nth_error. intros i j Hi Hij.
      destruct (nth_error (lels l) i) as [u|] eqn:Ei; [|apply nth_error_None in Ei; lia].
      symmetry in Hij. pose proof (Hrp l Hld i u Ei) as R1. pose proof (Hrp l Hld j u Hij) as R2.
      destruct (rpn_unique g _ _ _ _ u i j Huid Htgt R1 R2). assumption.
    + intros x y u Hx Hy Hux Huy. destruct (Hd' x Hx) as (Hxd & _). destruct (Hd' y Hy) as (Hyd & _).
      apply In_nth_error in Hux. destruct Hux as (i & Hi). apply In_nth_error in Huy. destruct Huy as (j & Hj).
      pose proof (Hrp x Hxd i u Hi) as R1. pose proof (Hrp y Hyd j u Hj) as R2.
      destruct (rpn_unique g _ _ _ _ u i j Huid Htgt R1 R2). assumption.
  - (* every line element lies on a line *)
    intros n Hn Hl. rewrite forallb_forall in H5. specialize (H5 n Hn). rewrite Hl in H5. cbn [negb orb] in H5.
    apply existsb_exists in H5. destruct H5 as (st & Hst & Hw). destruct (walk_of g st) as [p|e] eqn:Ep; [|discriminate].
    apply existsb_exists in Hw. destruct Hw as (x & Hx & Ex). assert (uid n = x) by lia. subst x.
    destruct (Forall2_In_l _ _ _ st HF Hst) as (l & Hld & p' & Hp' & ->). rewrite Ep in Hp'. injection Hp' as <-.
    apply in_flat_map. exists (line_of_walk st p). split; [exact Hld|exact Hx].
Qed.

(* ================================================================ from the amplifier bands to the OMS list *)
Definition amps_ok (g : graph) : Prop := forall n, In n g -> kind n = KAmp -> pdisj (abands n).

Lemma dj_b_sound a b : dj_b a b = true -> dj a b.
Proof. unfold dj_b, dj. rewrite orb_true_iff, !Qle_bool_iff. tauto. Qed.

Lemma pdisj_b_sound l : pdisj_b l = true -> pdisj l.
Proof.
  induction l as [|a t IH]; intros H; [exact I|]. cbn [pdisj_b] in H. apply andb_true_iff in H. destruct H as (H1 & H2).
  split; [|auto]. apply Forall_forall. intros b Hb. rewrite forallb_forall in H1. apply dj_b_sound, H1, Hb.
Qed.

Lemma amps_ok_b_sound g : amps_ok_b g = true -> amps_ok g.
Proof.
  unfold amps_ok_b, amps_ok. intros H n Hn Hk. rewrite forallb_forall in H. specialize (H n Hn). rewrite Hk in H.
  cbn in H. apply pdisj_b_sound. exact H.
Qed.

Lemma fold_qmin_le l : forall x, (fold_left qmin l x <= x)%Q /\ forall y, In y l -> (fold_left qmin l x <= y)%Q.
Proof.
  induction l as [|a t IH]; intros x; cbn [fold_left]; [split; [apply Qle_refl|intros y []]|].
  destruct (IH (qmin x a)) as (H1 & H2). split.
  - apply Qle_trans with (qmin x a); [exact H1|apply qmin_le_l].
  - intros y [<-|Hy]; [apply Qle_trans with (qmin x a); [exact H1|apply qmin_le_r]|auto].
Qed.

Lemma fold_qmax_ge l : forall x, (x <= fold_left qmax l x)%Q /\ forall y, In y l -> (y <= fold_left qmax l x)%Q.
Proof.
  induction l as [|a t IH]; intros x; cbn [fold_left]; [split; [apply Qle_refl|intros y []]|].
  destruct (IH (qmax x a)) as (H1 & H2). split.
  - apply Qle_trans with (qmax x a); [apply qmax_ge_l|exact H1].
  - intros y [<-|Hy]; [apply Qle_trans with (qmax x a); [apply qmax_ge_r|exact H1]|auto].
Qed.

(* find_network_freq_range covers every band of every amplifier *)
Lemma network_range_covers g fmin fmax :
  find_network_freq_range g = Ok (fmin, fmax) ->
  forall n b, In n g -> kind n = KAmp -> In b (abands n) -> (fmin <= fst b)%Q /\ (snd b <= fmax)%Q.
Proof.
  unfold find_network_freq_range. intros H n b Hn Hk Hb.
  assert (Hin : In b (all_amp_bands g)).
  { unfold all_amp_bands. apply in_flat_map. exists n. split; [exact Hn|]. rewrite Hk. cbn. exact Hb. }
  destruct (all_amp_bands g) as [|b0 t]; [discriminate|]. injection H as <- <-.
  destruct (fold_qmin_le (map fst t) (fst b0)) as (A1 & A2). destruct (fold_qmax_ge (map snd t) (snd b0)) as (B1 & B2).
  destruct Hin as [<-|Hin]; [auto|]. split; [apply A2, in_map, Hin|apply B2, in_map, Hin].
Qed.

Lemma oms_amp_bands_in g els amp : In amp (oms_amp_bands g els) -> exists n, In n g /\ kind n = KAmp /\ amp = abands n.
Proof.
  unfold oms_amp_bands. rewrite in_flat_map. intros (u & _ & H). destruct (lookup g u) as [n|] eqn:En; [|destruct H].
  destruct (kind_eqb (kind n) KAmp) eqn:Ek; [|destruct H]. destruct H as [<-|[]].
  exists n. split; [apply (lookup_In g u n En)|]. split; [apply kind_eqb_eq; exact Ek|reflexivity].
Qed.

(* the hypothesis of build_oms_list_ok no longer checked on the outcome of find_common_range but derived from the
   amplifier bands; what must be excluded is exactly what the open findings are about *)
Theorem common_ok_from_bands g si fmin fmax els :
  find_network_freq_range g = Ok (fmin, fmax) -> amps_ok g ->
  elements_common_range g els si <> [] ->
  (oms_amp_bands g els = [] -> (fmin <= fst si)%Q /\ (fst si <= snd si)%Q /\ (snd si <= fmax)%Q) ->
  common_ok g si fmin fmax els.
Proof.
  intros Hfr Hok Hne Hsi. unfold common_ok.
  change (elements_common_range g els si) with (find_common_range (oms_amp_bands g els) si) in *.
  destruct (oms_amp_bands g els) as [|a0 rest] eqn:Ea.
  - destruct (Hsi eq_refl) as (A & B & C). cbn. destruct si as [lo hi]. cbn [fst snd] in *. auto.
  - rewrite <- Ea in *. apply find_common_range_sorted; auto.
    + rewrite Ea. discriminate.
    + intros amp Hamp. apply oms_amp_bands_in in Hamp. destruct Hamp as (n & Hn & Hk & ->). apply Hok; assumption.
    + intros amp b Hamp Hb. apply oms_amp_bands_in in Hamp. destruct Hamp as (n & Hn & Hk & ->).
      eapply network_range_covers; eassumption.
Qed.

Definition line_bands_ok (g : graph) (si : band) (fmin fmax : Q) (l : line) : Prop :=
  elements_common_range g (line_path l) si <> [] /\
  (oms_amp_bands g (line_path l) = [] -> (fmin <= fst si)%Q /\ (fst si <= snd si)%Q /\ (snd si <= fmax)%Q).

Theorem build_oms_list_ok_bands g si d fmin fmax :
  chain_wf g d -> d <> [] -> find_network_freq_range g = Ok (fmin, fmax) -> amps_ok g ->
  Forall (line_bands_ok g si fmin fmax) d ->
  exists r rv, build_oms_list g si = Ok r /\
    map el_ids r = map line_path d /\
    reversed_oms (map line_path d) = Ok rv /\ map rev_id r = rv /\
    Forall2 (map_ok g si fmin fmax) d (map smap r).
Proof.
  intros W Hne Hfr Hok Hl. apply build_oms_list_ok; auto.
  apply Forall_forall. intros l Hin. rewrite Forall_forall in Hl. destruct (Hl l Hin) as (A & B).
  apply common_ok_from_bands; auto.
Qed.

(* ---- everything from local conditions *)
Theorem oms_partition_local g :
  local_wf_b g = true ->
  exists d L, lines_of g = Ok d /\ build_oms_els g = Ok L /\ L = map line_path d /\
    (forall n, In n g -> is_line_node n = true -> count_occ Z.eq_dec (flat_map interior L) (uid n) = 1%nat) /\
    Forall (fun el => exists a els b, el = a :: els ++ [b] /\
                      is_kind g KRoadm a = true /\ is_kind g KRoadm b = true /\
                      Forall (fun u => is_kind g KRoadm u = false /\ is_kind g KTrx u = false) els /\
                      path g el) L.
Proof.
  intros H. destruct (local_wf_sound g H) as (d & Hd & W). destruct (oms_partition g d W) as (L & H1 & H2 & H3 & H4).
  exists d, L. auto.
Qed.

Theorem build_oms_list_local g si :
  net_local_hyps_b g si = true ->
  exists d fmin fmax r rv,
    lines_of g = Ok d /\ chain_wf g d /\ find_network_freq_range g = Ok (fmin, fmax) /\
    build_oms_list g si = Ok r /\
    map el_ids r = map line_path d /\
    reversed_oms (map line_path d) = Ok rv /\ map rev_id r = rv /\
    Forall2 (map_ok g si fmin fmax) d (map smap r).
Proof.
  unfold net_local_hyps_b. intros H. apply andb_true_iff in H. destruct H as (H & H3).
  apply andb_true_iff in H. destruct H as (H1 & H2).
  destruct (local_wf_sound g H1) as (d & Hd & W). rewrite Hd in H3.
  destruct (find_network_freq_range g) as [[fmin fmax]|e] eqn:Hfr; [|discriminate].
  apply andb_true_iff in H3. destruct H3 as (Hlen & Hlines).
  assert (Hne : d <> []) by (intros ->; discriminate).
  destruct (build_oms_list_ok_bands g si d fmin fmax W Hne Hfr (amps_ok_b_sound g H2)) as (r & rv & R1 & R2 & R3 & R4 & R5).
  { apply Forall_forall. intros l Hl. rewrite forallb_forall in Hlines. specialize (Hlines l Hl).
    apply andb_true_iff in Hlines. destruct Hlines as (A & B). split.
    - intros E. rewrite E in A. discriminate.
    - intros E. rewrite E in B. apply andb_true_iff in B. destruct B as (B & B3). apply andb_true_iff in B.
      destruct B as (B1 & B2). rewrite !Qle_bool_iff in *. auto. }
  exists d, fmin, fmax, r, rv. split; [exact Hd|]. split; [exact W|]. split; [reflexivity|].
  split; [exact R1|]. split; [exact R2|]. split; [exact R3|]. split; [exact R4|exact R5].
Qed.

Lemma oms_amps_eq g els : oms_amps g els = oms_amp_bands g els.
Proof. reflexivity. Qed.
