(* The definitions translated from /repo's source on every run (Gen/SpectrumGen.v) are the hand-written model.
   A semantic edit of one of these source functions changes the generated term and breaks a lemma below. *)
From Coq Require Import Lia ZifyBool.
From Verif Require Import Prelude Model.Spectrum Model.Oms Gen.SpectrumGen.
From Verif Require Import Proofs.SpectrumBase Proofs.Spectrum Proofs.Spectrum2 Proofs.Spectrum3 Proofs.Spectrum4 Proofs.Spectrum5.
Open Scope Z_scope.

Lemma gen_mvalue_to_slots n m : g_mvalue_to_slots n m = (n - m, n + m - 1).
Proof. reflexivity. Qed.

Lemma gen_mvalue_to_slots_model n m : g_mvalue_to_slots n m = Oms.mvalue_to_slots n m.
Proof. reflexivity. Qed.

Lemma gen_slots_to_m a b : g_slots_to_m a b = Oms.slots_to_m a b.
Proof. reflexivity. Qed.

Lemma gen_bitmap_sum : forall l1 l2, g_bitmap_sum l1 l2 = bitmap_sum l1 l2.
Proof.
  unfold g_bitmap_sum. induction l1 as [|a t IH]; intros [|b t2]; cbn [combine map bitmap_sum]; try reflexivity.
  rewrite IH. f_equal. destruct a, b; reflexivity.
Qed.

(* select_candidate: first candidate for first_fit, last for last_fit, "none" when there is no candidate; the
   ServiceError branch is unreachable for the two policies *)
Lemma gen_select_candidate c p :
  g_select_candidate c p = Ok (match p with FirstFit => hd_error c | LastFit => hd_error (rev c) end).
Proof.
  unfold g_select_candidate. destruct p, c as [|x t]; cbn; reflexivity.
Qed.

(* OMS.assign_spectrum: same guards in the same order, same cells written (error details aside) *)
Definition same_result {A} (r1 r2 : res A) : Prop :=
  match r1, r2 with Ok x, Ok y => x = y | Err _, Err _ => True | _, _ => False end.

Lemma gen_assign_spectrum b n m : same_result (g_assign_spectrum b n m) (assign b n m).
Proof.
  unfold g_assign_spectrum, assign, g_mvalue_to_slots, same_result.
  destruct (m <=? 0); [exact I|].
  destruct (fi_max b <? n); [exact I|].
  destruct (n <? fi_min b); [exact I|].
  destruct (n_max b <? n + m - 1); [exact I|].
  destruct (n - m <=? n_min b); [exact I|].
  destruct (geti b (n - m)) as [a|e]; cbn [bind]; [|exact I].
  destruct (geti b (n + m - 1)) as [z|e]; cbn [bind]; [|exact I].
  reflexivity.
Qed.

(* compute_spectrum_slot_vs_bandwidth, as pth_assign_spectrum calls it *)
Lemma gen_compute_slots rq :
  g_compute_spectrum_slot_vs_bandwidth (bandwidth rq) (spacing rq) (bit_rate rq) slot_width = (rq_nb_wl rq, rq_required rq) /\
  snd (g_compute_spectrum_slot_vs_bandwidth (bit_rate rq) (spacing rq) (bit_rate rq) slot_width) = rq_pcm rq.
Proof.
  unfold g_compute_spectrum_slot_vs_bandwidth, rq_nb_wl, rq_required, rq_pcm. split; reflexivity.
Qed.

(* compute_n_m: the decision taken for one (N, M) of the request, as translated from the if/elif chain of its loop body *)
Lemma gen_cnm_step test req rem pcm p s : g_cnm_step test req rem pcm p s = cnm_step test rem pcm p s.
Proof. destruct s as [[n|] [m|]]; reflexivity. Qed.

(* pth_assign_spectrum, one request: the skip / NOT_ENOUGH_RESERVED_SPECTRUM / NO_SPECTRUM / commit decisions *)
Lemma gen_pth_assign_one p st rq : g_pth_assign_one p st rq = pth_assign_one p st rq.
Proof. reflexivity. Qed.

(* determine_slot_numbers: the condition of its growing loop; spectrum_selection with a free N: the condition of the
   candidate comprehension and the centre of a candidate (Python's short-circuit `and`, partial list lookups) *)
Lemma gen_dsn_cond b c i req : g_dsn_cond b c i req = dsn_cond b c i req.
Proof. reflexivity. Qed.

Lemma gen_cand_ok b m i : g_cand_ok b m i = cand_ok b m i.
Proof. reflexivity. Qed.

Lemma gen_cand_centre b m i : g_cand_centre b m i = (let* v := idx_at b i in Ok (v + m)).
Proof. reflexivity. Qed.
