(* C10 — lemmas about the amplifier selection model (Model/Select.v). *)
From Coq Require Import QArith Qminmax Lqa Lia.
From Verif Require Import Prelude Model.Select.
Open Scope Q_scope.

(* ------------------------------------------------------------------ booleans *)
Lemma qltb_true : forall x y, qltb x y = true <-> x < y.
Proof.
  intros x y. unfold qltb. rewrite negb_true_iff. split.
  - intros H. apply Qnot_le_lt. intros Hle. apply Qle_bool_iff in Hle. congruence.
  - intros H. destruct (Qle_bool y x) eqn:E; [| reflexivity].
    apply Qle_bool_iff in E. exfalso. apply (Qlt_not_le _ _ H E).
Qed.

Lemma qltb_false : forall x y, qltb x y = false <-> y <= x.
Proof.
  intros x y. unfold qltb. rewrite negb_false_iff. apply Qle_bool_iff.
Qed.

Lemma smem_In : forall s l, smem s l = true <-> In s l.
Proof.
  intros s l. induction l as [| x t IH]; cbn.
  - split; [discriminate | tauto].
  - rewrite orb_true_iff, IH, String.eqb_eq. tauto.
Qed.

Lemma isnil_true : forall A (l : list A), isnil l = true <-> l = [].
Proof. intros A l. destruct l; cbn; split; congruence. Qed.

Lemma filter_nil_none : forall A (f : A -> bool) l, filter f l = [] -> forall a, In a l -> f a = false.
Proof.
  intros A f l H a Ha. destruct (f a) eqn:E; [| reflexivity].
  assert (Hin : In a (filter f l)) by (apply filter_In; auto). rewrite H in Hin. destruct Hin.
Qed.

(* ------------------------------------------------------------------ min(key=nf) *)
Lemma first_min_spec : forall nf t h,
  let s := first_min nf h t in
  In s (h :: t) /\ forall a, In a (h :: t) -> nf s <= nf a.
Proof.
  intros nf t. induction t as [| x t IH]; intros h; cbn [first_min].
  - split; [left; reflexivity |]. intros a [<- | []]. apply Qle_refl.
  - destruct (qltb (nf x) (nf h)) eqn:E.
    + apply qltb_true in E. destruct (IH x) as [Hin Hmin]. split.
      * destruct Hin as [<- | Hin]; [right; left; reflexivity | right; right; exact Hin].
      * intros a [<- | [<- | Ha]].
        -- apply Qle_trans with (nf x); [apply Hmin; left; reflexivity | apply Qlt_le_weak; exact E].
        -- apply Hmin; left; reflexivity.
        -- apply Hmin; right; exact Ha.
    + apply qltb_false in E. destruct (IH h) as [Hin Hmin]. split.
      * destruct Hin as [<- | Hin]; [left; reflexivity | right; right; exact Hin].
      * intros a [<- | [<- | Ha]].
        -- apply Hmin; left; reflexivity.
        -- apply Qle_trans with (nf h); [apply Hmin; left; reflexivity | exact E].
        -- apply Hmin; right; exact Ha.
Qed.

(* the chosen element is the FIRST one of minimal key: everything before it is strictly worse *)
Lemma first_min_first : forall nf t h,
  exists l1 l2, h :: t = l1 ++ first_min nf h t :: l2 /\ Forall (fun a => nf (first_min nf h t) < nf a) l1.
Proof.
  intros nf t. induction t as [| x t IH]; intros h; cbn [first_min].
  - exists [], []. split; [reflexivity | constructor].
  - destruct (qltb (nf x) (nf h)) eqn:E.
    + apply qltb_true in E. destruct (IH x) as (l1 & l2 & Heq & Hall).
      exists (h :: l1), l2. split; [cbn; rewrite Heq; reflexivity |].
      constructor; [| exact Hall].
      destruct (first_min_spec nf t x) as [_ Hmin].
      apply Qle_lt_trans with (nf x); [apply Hmin; left; reflexivity | exact E].
    + apply qltb_false in E. destruct (IH h) as (l1 & l2 & Heq & Hall).
      remember (first_min nf h t) as s eqn:Es. clear Es.
      destruct l1 as [| y l1].
      * cbn [app] in Heq. injection Heq as H1 H2. exists [], (x :: l2). split; [| constructor].
        cbn [app]. congruence.
      * cbn [app] in Heq. injection Heq as H1 H2. subst y.
        exists (h :: x :: l1), l2. split; [cbn [app]; congruence |].
        inversion Hall as [| ? ? Hh Hrest]. subst.
        constructor; [exact Hh |]. constructor; [| exact Hrest].
        apply Qlt_le_trans with (nf h); assumption.
Qed.

(* ------------------------------------------------------------------ max(key=power).power *)
Lemma max_pow_spec : forall pw t h,
  (forall a, In a (h :: t) -> pw a <= max_pow pw h t) /\ (exists a, In a (h :: t) /\ pw a == max_pow pw h t).
Proof.
  intros pw t. unfold max_pow.
  assert (G : forall t m,
    m <= fold_left (fun m a => Qmax m (pw a)) t m /\
    (forall a, In a t -> pw a <= fold_left (fun m a => Qmax m (pw a)) t m) /\
    (fold_left (fun m a => Qmax m (pw a)) t m == m \/
     exists a, In a t /\ pw a == fold_left (fun m a => Qmax m (pw a)) t m)).
  { clear t. induction t as [| x t IH]; intros m; cbn [fold_left].
    - split; [apply Qle_refl |]. split; [intros a [] | left; reflexivity].
    - destruct (IH (Qmax m (pw x))) as (H1 & H2 & H3). split; [| split].
      + apply Qle_trans with (Qmax m (pw x)); [apply Q.le_max_l | exact H1].
      + intros a [<- | Ha]; [| apply H2; exact Ha].
        apply Qle_trans with (Qmax m (pw x)); [apply Q.le_max_r | exact H1].
      + destruct H3 as [H3 | (a & Ha & H3)].
        * destruct (Q.max_spec m (pw x)) as [[Hlt Hm] | [Hle Hm]].
          -- right. exists x. split; [left; reflexivity |]. rewrite H3, Hm. reflexivity.
          -- left. rewrite H3, Hm. reflexivity.
        * right. exists a. split; [right; exact Ha | exact H3]. }
  intros h. destruct (G t (pw h)) as (H1 & H2 & H3). split.
  - intros a [<- | Ha]; [exact H1 | apply H2; exact Ha].
  - destruct H3 as [H3 | (a & Ha & H3)].
    + exists h. split; [left; reflexivity | symmetry; exact H3].
    + exists a. split; [right; exact Ha | exact H3].
Qed.

(* ------------------------------------------------------------------ the candidate list *)
Lemma amp_list_In : forall ra lib a,
  In a (amp_list ra lib) <-> In a lib /\ (a_raman a = true -> ra = true).
Proof.
  intros ra lib a. unfold amp_list, edfa_list, raman_list. rewrite in_app_iff, filter_In. split.
  - intros [[Hin Hr] | H].
    + split; [exact Hin |]. intros E. rewrite E in Hr. discriminate.
    + destruct ra; [| destruct H]. apply filter_In in H. tauto.
  - intros [Hin Hr]. destruct (a_raman a) eqn:E.
    + right. rewrite (Hr eq_refl). apply filter_In. auto.
    + left. auto.
Qed.

(* the pool among which the power test chooses: the candidates above their (extended) minimum gain if there are any,
   otherwise every EDFA of the library (input padding is assumed), Raman amplifiers excluded *)
Definition gain_ok (gain : Q) (a : amp) : bool := qltb 0 (gain_margin gain a).
Definition pool (ra : bool) (gain : Q) (lib : list amp) : list amp :=
  match filter (gain_ok gain) (amp_list ra lib) with [] => edfa_list lib | g => g end.

Lemma acc_gain_pool : forall ra gain lib,
  match acc_gain ra gain lib with
  | Ok g => g = pool ra gain lib /\ g <> []
  | Err _ => pool ra gain lib = []
  end.
Proof.
  intros ra gain lib. unfold acc_gain, pool. fold (gain_ok gain).
  destruct (filter (gain_ok gain) (amp_list ra lib)) as [| x g] eqn:E.
  - destruct (edfa_list lib) as [| y el]; [reflexivity | split; [reflexivity | discriminate]].
  - split; [reflexivity | discriminate].
Qed.

Lemma acc_power_spec : forall ext gain pt l a,
  let pw := pow_margin ext gain pt in
  In a (acc_power ext gain pt l) <->
  In a l /\ ((0 < pw a) \/
             ((forall b, In b l -> pw b <= 0) /\
              exists pm, (forall b, In b l -> pw b <= pm) /\ (exists b, In b l /\ pw b == pm) /\ pm - (3 # 10) < pw a)).
Proof.
  intros ext gain pt l a pw. unfold acc_power. fold pw.
  destruct (filter (fun a0 => qltb 0 (pw a0)) l) as [| x l'] eqn:E.
  - assert (Hnone : forall b, In b l -> pw b <= 0).
    { intros b Hb. apply qltb_false. exact (filter_nil_none _ _ _ E b Hb). }
    destruct l as [| h t].
    + split; [intros [] | intros [[] _]].
    + destruct (max_pow_spec pw t h) as [Hub Hwit]. rewrite filter_In, qltb_true. split.
      * intros [Hin Hw]. split; [exact Hin |]. right. split; [exact Hnone |].
        exists (max_pow pw h t). split; [exact Hub |]. split; [exact Hwit | lra].
      * intros [Hin [Hpos | (_ & pm & Hub' & (b & Hb & Hbeq) & Hw)]].
        -- exfalso. specialize (Hnone a Hin). lra.
        -- split; [exact Hin |].
           assert (Hle : max_pow pw h t <= pm).
           { destruct Hwit as (c & Hc & Hceq). rewrite <- Hceq. apply Hub'. exact Hc. }
           lra.
  - rewrite <- E, filter_In, qltb_true. split.
    + intros [Hin Hp]. split; [exact Hin | left; exact Hp].
    + intros [Hin [Hp | (Hnone & _)]]; [split; assumption |].
      exfalso. assert (Hx : In x (filter (fun a0 => qltb 0 (pw a0)) l)) by (rewrite E; left; reflexivity).
      apply filter_In in Hx. destruct Hx as [Hx Hxp]. apply qltb_true in Hxp. specialize (Hnone x Hx). lra.
Qed.

Lemma acc_power_nonempty : forall ext gain pt l, l <> [] -> acc_power ext gain pt l <> [].
Proof.
  intros ext gain pt l Hl. set (pw := pow_margin ext gain pt).
  destruct l as [| h t]; [congruence |].
  destruct (max_pow_spec pw t h) as [Hub (b & Hb & Hbeq)].
  destruct (Qlt_le_dec 0 (pw b)) as [Hp | Hn].
  - intros H. assert (Hin : In b (acc_power ext gain pt (h :: t))).
    { apply acc_power_spec. split; [exact Hb | left; exact Hp]. }
    rewrite H in Hin. destruct Hin.
  - intros H. assert (Hin : In b (acc_power ext gain pt (h :: t))).
    { apply acc_power_spec. split; [exact Hb |]. right. split.
      - intros c Hc. fold pw. specialize (Hub c Hc). lra.
      - exists (max_pow pw h t). split; [exact Hub |]. split; [exists b; auto |]. fold pw. lra. }
    rewrite H in Hin. destruct Hin.
Qed.

(* ------------------------------------------------------------------ select_edfa: complete description *)
Theorem select_spec : forall ra gain pt ext nf lib,
  let pw := pow_margin ext gain pt in
  let pl := pool ra gain lib in
  match select_edfa ra gain pt ext nf lib with
  | Err _ => pl = []
  | Ok (s, red) =>
      In s pl /\ red = Qmin (pw s) 0 /\
      In s (acc_power ext gain pt pl) /\
      (forall a, In a (acc_power ext gain pt pl) -> nf s <= nf a) /\
      (exists l1 l2, acc_power ext gain pt pl = l1 ++ s :: l2 /\ Forall (fun a => nf s < nf a) l1)
  end.
Proof.
  intros ra gain pt ext nf lib pw pl. unfold select_edfa.
  pose proof (acc_gain_pool ra gain lib) as HG. fold pl in HG.
  destruct (acc_gain ra gain lib) as [g | e]; cbn [bind]; [| exact HG].
  destruct HG as [-> Hne].
  pose proof (acc_power_nonempty ext gain pt pl Hne) as Hne2.
  destruct (acc_power ext gain pt pl) as [| h t] eqn:E; [congruence |].
  destruct (first_min_spec nf t h) as [Hin Hmin].
  destruct (first_min_first nf t h) as (l1 & l2 & Heq & Hall).
  set (s := first_min nf h t) in *.
  assert (Hs : In s (acc_power ext gain pt pl)) by (rewrite E; exact Hin).
  split; [| split; [reflexivity | split; [rewrite <- E; exact Hs | split]]].
  - apply acc_power_spec in Hs. tauto.
  - exact Hmin.
  - exists l1, l2. split; assumption.
Qed.

(* ------------------------------------------------------------------ capable candidates *)
Definition capable (ra : bool) (ext gain pt : Q) (a : amp) : Prop :=
  (a_raman a = true -> ra = true) /\ 0 < gain_margin gain a /\ 0 < pow_margin ext gain pt a.

Lemma capable_in_pool : forall ra ext gain pt lib a,
  In a lib -> capable ra ext gain pt a ->
  pool ra gain lib = filter (gain_ok gain) (amp_list ra lib) /\ In a (pool ra gain lib).
Proof.
  intros ra ext gain pt lib a Hin (Hr & Hg & Hp).
  assert (Ha : In a (filter (gain_ok gain) (amp_list ra lib))).
  { apply filter_In. split; [apply amp_list_In; auto | apply qltb_true; exact Hg]. }
  unfold pool. destruct (filter (gain_ok gain) (amp_list ra lib)) as [| x g] eqn:E; [destruct Ha |].
  split; [reflexivity | exact Ha].
Qed.

Theorem select_capable : forall ra gain pt ext nf lib,
  (exists a, In a lib /\ capable ra ext gain pt a) ->
  exists s red, select_edfa ra gain pt ext nf lib = Ok (s, red) /\
    In s lib /\ capable ra ext gain pt s /\ red == 0 /\
    (forall a, In a lib -> capable ra ext gain pt a -> nf s <= nf a).
Proof.
  intros ra gain pt ext nf lib (a & Ha & Hc).
  destruct (capable_in_pool ra ext gain pt lib a Ha Hc) as [Hpool Hain].
  pose proof (select_spec ra gain pt ext nf lib) as HS. cbv zeta in HS.
  destruct (select_edfa ra gain pt ext nf lib) as [[s red] | e].
  2:{ rewrite HS in Hain. destruct Hain. }
  destruct HS as (Hs & Hred & Hsacc & Hmin & _).
  exists s, red. split; [reflexivity |].
  (* somebody in the pool has the power, so the chosen one has it too *)
  assert (Hpos : forall b, In b (acc_power ext gain pt (pool ra gain lib)) -> 0 < pow_margin ext gain pt b).
  { intros b Hb. apply acc_power_spec in Hb. destruct Hb as [_ [Hp | (Hnone & _)]]; [exact Hp |].
    destruct Hc as (_ & _ & Hap). specialize (Hnone a Hain). lra. }
  assert (Hsl : In s (amp_list ra lib) /\ 0 < gain_margin gain s).
  { rewrite Hpool in Hs. apply filter_In in Hs. destruct Hs as [H1 H2]. apply qltb_true in H2. auto. }
  destruct Hsl as [Hsl Hsg]. apply amp_list_In in Hsl. destruct Hsl as [Hslib Hsr].
  split; [exact Hslib |]. split; [repeat split; auto |]. split.
  - rewrite Hred. specialize (Hpos s Hsacc). rewrite Q.min_r by lra. reflexivity.
  - intros b Hb Hcb. apply Hmin. apply acc_power_spec.
    destruct (capable_in_pool ra ext gain pt lib b Hb Hcb) as [_ Hbin].
    split; [exact Hbin | left; apply Hcb].
Qed.

(* what the code does when no candidate is capable (and in general): stated on the pool *)
Theorem select_fallback : forall ra gain pt ext nf lib s red,
  select_edfa ra gain pt ext nf lib = Ok (s, red) ->
  let pw := pow_margin ext gain pt in
  let pl := pool ra gain lib in
  In s pl /\ red = Qmin (pw s) 0 /\
  ((exists a, In a pl /\ 0 < pw a) ->
     0 < pw s /\ forall a, In a pl -> 0 < pw a -> nf s <= nf a) /\
  ((forall a, In a pl -> pw a <= 0) ->
     exists pm, (forall a, In a pl -> pw a <= pm) /\ (exists a, In a pl /\ pw a == pm) /\
                pm - (3 # 10) < pw s /\
                forall a, In a pl -> pm - (3 # 10) < pw a -> nf s <= nf a).
Proof.
  intros ra gain pt ext nf lib s red Hsel pw pl.
  pose proof (select_spec ra gain pt ext nf lib) as HS. cbv zeta in HS. rewrite Hsel in HS.
  fold pw pl in HS. destruct HS as (Hs & Hred & Hsacc & Hmin & _).
  split; [exact Hs |]. split; [exact Hred |]. split.
  - intros (a & Ha & Hpa).
    assert (Hps : 0 < pw s).
    { apply acc_power_spec in Hsacc. destruct Hsacc as [_ [Hp | (Hnone & _)]]; [exact Hp |].
      specialize (Hnone a Ha). fold pw in Hnone. lra. }
    split; [exact Hps |]. intros b Hb Hpb. apply Hmin. apply acc_power_spec. split; [exact Hb | left; exact Hpb].
  - intros Hnone.
    apply acc_power_spec in Hsacc. destruct Hsacc as [_ [Hp | (_ & pm & Hub & Hwit & Hw)]].
    { specialize (Hnone s Hs). fold pw in Hp. lra. }
    exists pm. split; [exact Hub |]. split; [exact Hwit |]. split; [exact Hw |].
    intros b Hb Hwb. apply Hmin. apply acc_power_spec. split; [exact Hb |]. right.
    split; [exact Hnone |]. exists pm. auto.
Qed.

Theorem select_error : forall ra gain pt ext nf lib e,
  select_edfa ra gain pt ext nf lib = Err e ->
  edfa_list lib = [] /\ forall a, In a (amp_list ra lib) -> gain_margin gain a <= 0.
Proof.
  intros ra gain pt ext nf lib e Hsel.
  pose proof (select_spec ra gain pt ext nf lib) as HS. cbv zeta in HS. rewrite Hsel in HS.
  unfold pool in HS. destruct (filter (gain_ok gain) (amp_list ra lib)) as [| x g] eqn:E; [| discriminate].
  split; [exact HS |]. intros a Ha. apply qltb_false. exact (filter_nil_none _ _ _ E a Ha).
Qed.

(* ------------------------------------------------------------------ restrictions *)
Theorem restr_precedence : forall nd prev next,
  let r := restr_list nd prev next in
  (n_vlist nd <> [] -> r = n_vlist nd) /\
  (n_vlist nd = [] ->
     (forall b p, prev = NRoadm b p -> b <> [] -> r = b) /\
     ((forall b p, prev = NRoadm b p -> b = []) ->
        (forall b p, next = NRoadm b p -> p <> [] -> r = p) /\
        ((forall b p, next = NRoadm b p -> p = []) -> r = []))).
Proof.
  intros nd prev next r. subst r. unfold restr_list. split.
  - destruct (n_vlist nd); [congruence | reflexivity].
  - intros ->. split.
    + intros b p -> Hb. destruct b; [congruence | reflexivity].
    + intros Hprev. assert (Hp : match prev with NRoadm (b :: bl) _ => False | _ => True end).
      { destruct prev as [b p | |]; auto. specialize (Hprev b p eq_refl). subst b. exact I. }
      split.
      * intros b p -> Hp'. destruct prev as [[| b0 bl] p0 | |]; try destruct Hp; destruct p; congruence.
      * intros Hnext. destruct prev as [[| b0 bl] p0 | |]; try destruct Hp;
          destruct next as [b p | |]; try reflexivity; rewrite (Hnext b p eq_refl); reflexivity.
Qed.

(* an entry of the library that auto-design may use for this node *)
Definition permitted (nd : anode) (prev next : neigh) (bmin bmax : Q) (a : amp) : Prop :=
  a_multi a = false /\ a_fmin a <= bmin /\ bmax <= a_fmax a /\
  let r := restr_list nd prev next in (r <> [] -> In (a_name a) r) /\ (r = [] -> a_allowed a = true).

Definition permb (r : list string) (bmin bmax : Q) (a : amp) : bool :=
  negb (a_multi a) && covers a bmin bmax && (smem (a_name a) r || (isnil r && a_allowed a)).

Lemma permb_permitted : forall nd prev next bmin bmax a,
  permb (restr_list nd prev next) bmin bmax a = true <-> permitted nd prev next bmin bmax a.
Proof.
  intros nd prev next bmin bmax a. unfold permb, permitted, covers. cbv zeta.
  set (r := restr_list nd prev next).
  rewrite !andb_true_iff, orb_true_iff, andb_true_iff, negb_true_iff, !Qle_bool_iff, smem_In, isnil_true.
  split.
  - intros [[Hm [Hf1 Hf2]] H]. repeat split; auto.
    + intros Hr. destruct H as [H | [H _]]; [exact H | congruence].
    + intros Hr. destruct H as [H | [_ H]]; [rewrite Hr in H; destruct H | exact H].
  - intros (Hm & Hf1 & Hf2 & H1 & H2). repeat split; auto.
    destruct r as [| x r']; [right; split; [reflexivity | apply H2; reflexivity] | left; apply H1; discriminate].
Qed.

Lemma nodup_name_inj : forall lib a b,
  NoDup (map a_name lib) -> In a lib -> In b lib -> a_name a = a_name b -> a = b.
Proof.
  intros lib. induction lib as [| x l IH]; intros a b Hnd Ha Hb Hn; [destruct Ha |].
  cbn in Hnd. inversion Hnd as [| ? ? Hnot Hnd']; subst.
  destruct Ha as [<- | Ha], Hb as [<- | Hb].
  - reflexivity.
  - exfalso. apply Hnot. rewrite Hn. apply in_map. exact Hb.
  - exfalso. apply Hnot. rewrite <- Hn. apply in_map. exact Ha.
  - apply IH; assumption.
Qed.

Lemma restrict_lib_permitted : forall nd prev next bmin bmax lib a,
  NoDup (map a_name lib) -> n_variety nd = ""%string ->
  (In a (restrict_lib (node_restrictions nd prev next bmin bmax lib) lib) <->
   In a lib /\ permitted nd prev next bmin bmax a).
Proof.
  intros nd prev next bmin bmax lib a Hnd Hv. unfold restrict_lib, node_restrictions.
  rewrite Hv. cbn [String.eqb negb]. fold (permb (restr_list nd prev next) bmin bmax).
  rewrite filter_In, andb_true_iff, negb_true_iff, smem_In, in_map_iff. split.
  - intros (Hin & Hm & (b & Hname & Hb)). apply filter_In in Hb. destruct Hb as [Hb Hpb].
    assert (b = a) by (apply (nodup_name_inj lib); auto). subst b.
    split; [exact Hin | apply permb_permitted; exact Hpb].
  - intros [Hin Hp]. split; [exact Hin |]. split; [apply Hp |].
    exists a. split; [reflexivity |]. apply filter_In. split; [exact Hin | apply permb_permitted; exact Hp].
Qed.

Lemma all_lt_spec : forall l x, all_lt l x = true <-> Forall (fun y => y < x) l.
Proof.
  intros l x. induction l as [| y t IH]; cbn.
  - split; [constructor | reflexivity].
  - rewrite andb_true_iff, qltb_true, IH. split.
    + intros [H1 H2]. constructor; assumption.
    + intros H. inversion H; auto.
Qed.

Theorem raman_allowed_spec : forall prev maxl,
  raman_allowed prev maxl = true <->
  exists lcs, prev = NFiber lcs /\ Forall (fun lc => lc < maxl) lcs.
Proof.
  intros prev maxl. unfold raman_allowed. destruct prev as [b p | lcs |].
  - split; [discriminate | intros (l & H & _); discriminate].
  - rewrite all_lt_spec. split.
    + intros H. exists lcs. auto.
    + intros (l & H & Hall). inversion H. subst. exact Hall.
  - split; [discriminate | intros (l & H & _); discriminate].
Qed.

(* ------------------------------------------------------------------ auto_select *)
Theorem auto_select_spec : forall nd prev next bmin bmax maxl gain pt ext nf lib s red,
  NoDup (map a_name lib) -> n_variety nd = ""%string ->
  auto_select nd prev next bmin bmax maxl gain pt ext nf lib = Ok (s, red) ->
  In s lib /\ permitted nd prev next bmin bmax s /\ (a_raman s = true -> raman_allowed prev maxl = true) /\
  select_edfa (raman_allowed prev maxl) gain pt ext nf
              (restrict_lib (node_restrictions nd prev next bmin bmax lib) lib) = Ok (s, red).
Proof.
  intros nd prev next bmin bmax maxl gain pt ext nf lib s red Hnd Hv Hsel. unfold auto_select in Hsel.
  set (r := node_restrictions nd prev next bmin bmax lib) in *.
  assert (Hsel' : select_edfa (raman_allowed prev maxl) gain pt ext nf (restrict_lib r lib) = Ok (s, red)).
  { destruct r; [discriminate | exact Hsel]. }
  pose proof (select_spec (raman_allowed prev maxl) gain pt ext nf (restrict_lib r lib)) as HS.
  cbv zeta in HS. rewrite Hsel' in HS. destruct HS as (Hs & _).
  assert (Hal : In s (amp_list (raman_allowed prev maxl) (restrict_lib r lib))).
  { unfold pool in Hs.
    destruct (filter (gain_ok gain) (amp_list (raman_allowed prev maxl) (restrict_lib r lib))) as [| x g] eqn:E.
    - apply amp_list_In. split.
      + unfold edfa_list in Hs. apply filter_In in Hs. tauto.
      + unfold edfa_list in Hs. apply filter_In in Hs. destruct Hs as [_ Hs]. intros E2. rewrite E2 in Hs. discriminate.
    - rewrite <- E in Hs. apply filter_In in Hs. tauto. }
  apply amp_list_In in Hal. destruct Hal as [Hin Hr].
  apply (restrict_lib_permitted nd prev next bmin bmax lib s Hnd Hv) in Hin. destruct Hin as [Hin Hp].
  repeat split; auto; apply Hp.
Qed.

Theorem auto_select_capable : forall nd prev next bmin bmax maxl gain pt ext nf lib,
  NoDup (map a_name lib) -> n_variety nd = ""%string ->
  let ra := raman_allowed prev maxl in
  (exists a, In a lib /\ permitted nd prev next bmin bmax a /\ capable ra ext gain pt a) ->
  exists s red, auto_select nd prev next bmin bmax maxl gain pt ext nf lib = Ok (s, red) /\
    In s lib /\ permitted nd prev next bmin bmax s /\ capable ra ext gain pt s /\ red == 0 /\
    (forall a, In a lib -> permitted nd prev next bmin bmax a -> capable ra ext gain pt a -> nf s <= nf a).
Proof.
  intros nd prev next bmin bmax maxl gain pt ext nf lib Hnd Hv ra (a & Ha & Hp & Hc).
  set (r := node_restrictions nd prev next bmin bmax lib).
  assert (Har : In a (restrict_lib r lib)) by (apply restrict_lib_permitted; auto).
  destruct (select_capable ra gain pt ext nf (restrict_lib r lib)) as (s & red & Hsel & Hs & Hcs & Hred & Hmin).
  { exists a. auto. }
  exists s, red. apply (restrict_lib_permitted nd prev next bmin bmax lib s Hnd Hv) in Hs. destruct Hs as [Hs Hps].
  split.
  - unfold auto_select. fold r. destruct r as [| x r'] eqn:E; [| exact Hsel].
    unfold restrict_lib in Har. apply filter_In in Har. destruct Har as [_ Har].
    apply andb_true_iff in Har. destruct Har as [_ Har]. cbn in Har. discriminate.
  - repeat split; auto; try apply Hps; try apply Hcs.
    intros b Hb Hpb Hcb. apply Hmin; [apply restrict_lib_permitted; auto | exact Hcb].
Qed.

(* ------------------------------------------------------------------ the property clauses, one by one *)
Theorem sel_permitted : forall nd prev next bmin bmax maxl gain pt ext nf lib s red,
  NoDup (map a_name lib) -> n_variety nd = ""%string ->
  auto_select nd prev next bmin bmax maxl gain pt ext nf lib = Ok (s, red) ->
  In s lib /\ permitted nd prev next bmin bmax s.
Proof.
  intros nd prev next bmin bmax maxl gain pt ext nf lib s red Hnd Hv Hsel.
  destruct (auto_select_spec _ _ _ _ _ _ _ _ _ _ _ _ _ Hnd Hv Hsel) as (H1 & H2 & _). auto.
Qed.

Theorem sel_band : forall nd prev next bmin bmax maxl gain pt ext nf lib s red,
  NoDup (map a_name lib) -> n_variety nd = ""%string ->
  auto_select nd prev next bmin bmax maxl gain pt ext nf lib = Ok (s, red) ->
  a_multi s = false /\ a_fmin s <= bmin /\ bmax <= a_fmax s.
Proof.
  intros nd prev next bmin bmax maxl gain pt ext nf lib s red Hnd Hv Hsel.
  destruct (auto_select_spec _ _ _ _ _ _ _ _ _ _ _ _ _ Hnd Hv Hsel) as (_ & (H1 & H2 & H3 & _) & _). auto.
Qed.

Theorem sel_raman_only_if_allowed : forall nd prev next bmin bmax maxl gain pt ext nf lib s red,
  NoDup (map a_name lib) -> n_variety nd = ""%string ->
  auto_select nd prev next bmin bmax maxl gain pt ext nf lib = Ok (s, red) ->
  a_raman s = true ->
  exists lcs, prev = NFiber lcs /\ Forall (fun lc => lc < maxl) lcs.
Proof.
  intros nd prev next bmin bmax maxl gain pt ext nf lib s red Hnd Hv Hsel Hr.
  destruct (auto_select_spec _ _ _ _ _ _ _ _ _ _ _ _ _ Hnd Hv Hsel) as (_ & _ & H & _).
  apply raman_allowed_spec. apply H. exact Hr.
Qed.

(* an imposed type_variety takes precedence over every restriction *)
Theorem imposed_variety : forall nd prev next bmin bmax lib,
  n_variety nd <> ""%string -> node_restrictions nd prev next bmin bmax lib = [n_variety nd].
Proof.
  intros nd prev next bmin bmax lib H. unfold node_restrictions.
  destruct (String.eqb (n_variety nd) "") eqn:E; [apply String.eqb_eq in E; congruence | reflexivity].
Qed.

(* tie-break: among the candidates the power test retains, the chosen one is the first of minimal NF *)
Theorem sel_first_minimum : forall ra gain pt ext nf lib s red,
  select_edfa ra gain pt ext nf lib = Ok (s, red) ->
  exists l1 l2, acc_power ext gain pt (pool ra gain lib) = l1 ++ s :: l2 /\
                Forall (fun a => nf s < nf a) l1 /\ Forall (fun a => nf s <= nf a) l2.
Proof.
  intros ra gain pt ext nf lib s red Hsel.
  pose proof (select_spec ra gain pt ext nf lib) as HS. cbv zeta in HS. rewrite Hsel in HS.
  destruct HS as (_ & _ & _ & Hmin & (l1 & l2 & Heq & Hall)).
  exists l1, l2. split; [exact Heq |]. split; [exact Hall |].
  apply Forall_forall. intros a Ha. apply Hmin. rewrite Heq. apply in_or_app. right. right. exact Ha.
Qed.

(* the library order seen by min(): EDFAs in library order, then (if allowed) Raman amplifiers in library order *)
Theorem acc_power_order : forall ext gain pt l,
  exists f, acc_power ext gain pt l = filter f l.
Proof.
  intros ext gain pt l. unfold acc_power.
  destruct (filter (fun a => qltb 0 (pow_margin ext gain pt a)) l) as [| x l'] eqn:E.
  - destruct l as [| h t]; [exists (fun _ => true); reflexivity |]. eexists. reflexivity.
  - rewrite <- E. eexists. reflexivity.
Qed.

Lemma pool_subset : forall ra gain lib s, In s (pool ra gain lib) -> In s lib.
Proof.
  intros ra gain lib s H. unfold pool in H.
  destruct (filter (gain_ok gain) (amp_list ra lib)) as [| x g] eqn:E.
  - unfold edfa_list in H. apply filter_In in H. tauto.
  - rewrite <- E in H. apply filter_In in H. destruct H as [H _]. apply amp_list_In in H. tauto.
Qed.

(* ------------------------------------------------------------------ multiband amplifiers *)
Lemma lookup_amp_name : forall n lib a, lookup_amp n lib = Some a -> In a lib /\ a_name a = n.
Proof.
  intros n lib a. induction lib as [| x l IH]; cbn; [discriminate |].
  destruct (String.eqb (a_name x) n) eqn:E.
  - intros H. injection H as <-. apply String.eqb_eq in E. auto.
  - intros H. destruct (IH H). auto.
Qed.

Lemma lookup_group_In : forall gs g, NoDup (map g_name gs) -> In g gs -> lookup_group (g_name g) gs = Some g.
Proof.
  induction gs as [| x l IH]; intros g Hnd Hin; [destruct Hin |].
  cbn in Hnd. inversion Hnd as [| ? ? Hnot Hnd']; subst. cbn [lookup_group].
  destruct Hin as [-> | Hin].
  - rewrite String.eqb_refl. reflexivity.
  - destruct (String.eqb (g_name x) (g_name g)) eqn:E.
    + apply String.eqb_eq in E. exfalso. apply Hnot. rewrite E. apply in_map. exact Hin.
    + apply IH; assumption.
Qed.

Lemma dedup_acc_In : forall l seen x, In x (dedup_acc seen l) <-> In x l /\ ~ In x seen.
Proof.
  induction l as [| y t IH]; intros seen x; cbn [dedup_acc].
  - split; [intros [] | intros [[] _]].
  - destruct (smem y seen) eqn:E.
    + rewrite IH. apply smem_In in E. split.
      * intros [H1 H2]. split; [right; exact H1 | exact H2].
      * intros [[-> | H1] H2]; [contradiction | split; assumption].
    + assert (Hn : ~ In y seen) by (intros H; apply smem_In in H; congruence).
      cbn [In]. rewrite IH. cbn [In]. split.
      * intros [<- | [H1 H2]]; [split; [left; reflexivity | exact Hn] |].
        split; [right; exact H1 | intros H; apply H2; right; exact H].
      * intros [[-> | H1] H2]; [left; reflexivity |].
        destruct (string_dec y x) as [-> | Hne]; [left; reflexivity |].
        right. split; [exact H1 |]. intros [H | H]; [congruence | contradiction].
Qed.

Lemma dedup_In : forall l x, In x (dedup l) <-> In x l.
Proof. intros l x. unfold dedup. rewrite dedup_acc_In. cbn. tauto. Qed.

(* the permitted multiband models *)
Theorem multi_restrictions_spec : forall nd prev next bands lib groups m,
  n_variety nd = ""%string ->
  (In m (multi_restrictions nd prev next bands lib groups) <->
   exists g, In g groups /\ g_name g = m /\
     (let r := restr_list nd prev next in (r <> [] -> In m r) /\ (r = [] -> g_allowed g = true)) /\
     Forall (fun t => exists b a, In b bands /\ lookup_amp t lib = Some a /\ covers a (fst b) (snd b) = true) (g_members g)).
Proof.
  intros nd prev next bands lib groups m Hv. unfold multi_restrictions. rewrite Hv. cbn [String.eqb negb].
  set (r := restr_list nd prev next). rewrite in_map_iff. cbv zeta.
  assert (Hcov : forall t, covers_any lib bands t = true <->
                           exists b a, In b bands /\ lookup_amp t lib = Some a /\ covers a (fst b) (snd b) = true).
  { intros t. unfold covers_any. rewrite existsb_exists. split.
    - intros (b & Hb & Hc). unfold covers_name in Hc. destruct (lookup_amp t lib) as [a |] eqn:E; [| discriminate].
      exists b, a. auto.
    - intros (b & a & Hb & Ha & Hc). exists b. split; [exact Hb |]. unfold covers_name. rewrite Ha. exact Hc. }
  split.
  - intros (g & Hn & Hg). apply filter_In in Hg. destruct Hg as [Hin Hf]. apply andb_true_iff in Hf.
    destruct Hf as [Hr Hm]. exists g. split; [exact Hin |]. split; [exact Hn |]. split.
    + apply orb_true_iff in Hr. rewrite smem_In, andb_true_iff, isnil_true in Hr. subst m. split.
      * intros Hne. destruct Hr as [H | [H _]]; [exact H | contradiction].
      * intros He. destruct Hr as [H | [_ H]]; [rewrite He in H; destruct H | exact H].
    + rewrite forallb_forall in Hm. apply Forall_forall. intros t Ht. apply Hcov. apply Hm. exact Ht.
  - intros (g & Hin & Hn & [H1 H2] & Hm). exists g. split; [exact Hn |]. apply filter_In. split; [exact Hin |].
    apply andb_true_iff. split.
    + apply orb_true_iff. rewrite smem_In, andb_true_iff, isnil_true. subst m.
      destruct r as [| x r']; [right; split; [reflexivity | apply H2; reflexivity] | left; apply H1; discriminate].
    + apply forallb_forall. intros t Ht. apply Hcov. rewrite Forall_forall in Hm. apply Hm. exact Ht.
Qed.

(* multiband model g offers, for the band, a single-band entry that covers it and is capable *)
Definition band_ok (lib : list amp) (g : mgroup) (ra : bool) (ext : Q) (b : Q * Q * Q * Q) : Prop :=
  let '(bmin, bmax, gain, pt) := b in
  exists t a, In t (g_members g) /\ lookup_amp t lib = Some a /\ covers a bmin bmax = true /\ a_multi a = false /\
              capable ra ext gain pt a.

Lemma capable_survives : forall ext gain pt cands a,
  In a cands -> capable true ext gain pt a ->
  exists acc, acc_gain true gain cands = Ok acc /\ In a (acc_power ext gain pt acc).
Proof.
  intros ext gain pt cands a Hin Hc.
  destruct (capable_in_pool true ext gain pt cands a Hin Hc) as [_ Hp].
  pose proof (acc_gain_pool true gain cands) as HG.
  destruct (acc_gain true gain cands) as [acc | e].
  - destruct HG as [-> _]. exists (pool true gain cands). split; [reflexivity |].
    apply acc_power_spec. split; [exact Hp | left; apply Hc].
  - rewrite HG in Hp. destruct Hp.
Qed.

(* a permitted model that is capable in every band survives the preselection *)
Theorem preselect_keeps : forall lib groups ext g bts restr0 sel,
  NoDup (map g_name groups) -> In g groups -> In (g_name g) restr0 -> In (g_name g) sel ->
  Forall (band_ok lib g true ext) bts ->
  exists sel', preselect lib groups ext restr0 sel bts = Ok sel' /\ In (g_name g) sel'.
Proof.
  intros lib groups ext g bts restr0. induction bts as [| [[[bmin bmax] gain] pt] rest IH]; intros sel Hnd Hg Hr0 Hs Hall.
  - exists sel. split; [reflexivity | exact Hs].
  - inversion Hall as [| ? ? Hb Hrest]; subst. cbn [band_ok] in Hb.
    destruct Hb as (t & a & Ht & Ha & Hcov & Hm & Hc).
    destruct (lookup_amp_name _ _ _ Ha) as [Hain Hname].
    assert (Hcand : In a (band_cands lib groups sel bmin bmax)).
    { unfold band_cands. apply in_flat_map. exists t. split.
      - apply dedup_In. unfold members_of. apply in_flat_map. exists (g_name g). split; [exact Hs |].
        rewrite (lookup_group_In groups g Hnd Hg). exact Ht.
      - rewrite Ha, Hcov. left. reflexivity. }
    destruct (capable_survives ext gain pt _ a Hcand Hc) as (acc & Hacc & Hpow).
    cbn [preselect]. rewrite Hacc. cbn [bind]. apply IH; auto.
    apply filter_In. split; [exact Hr0 |]. apply smem_In.
    apply in_flat_map. exists (a_name a). split; [apply in_map; exact Hpow |].
    unfold groups_of. apply in_map. apply filter_In. split; [exact Hg |]. apply smem_In. rewrite Hname. exact Ht.
Qed.

Lemma lookup_group_name : forall n gs g, lookup_group n gs = Some g -> In g gs /\ g_name g = n.
Proof.
  intros n gs g. induction gs as [| x l IH]; cbn; [discriminate |].
  destruct (String.eqb (g_name x) n) eqn:E.
  - intros H. injection H as <-. apply String.eqb_eq in E. auto.
  - intros H. destruct (IH H). auto.
Qed.

(* the preselection stays within the permitted models restr0 and, once a band has been processed, is not empty *)
Lemma preselect_within : forall lib groups ext restr0 bts sel sel',
  (forall m, In m sel -> In m restr0) ->
  preselect lib groups ext restr0 sel bts = Ok sel' ->
  (forall m, In m sel' -> In m restr0) /\ (bts <> [] -> sel' <> []).
Proof.
  intros lib groups ext restr0 bts. induction bts as [| [[[bmin bmax] gain] pt] rest IH]; intros sel sel' Hsub H.
  - cbn in H. injection H as <-. split; [exact Hsub | congruence].
  - cbn [preselect] in H.
    pose proof (acc_gain_pool true gain (band_cands lib groups sel bmin bmax)) as HG.
    destruct (acc_gain true gain (band_cands lib groups sel bmin bmax)) as [acc | e]; cbn [bind] in H; [| discriminate].
    destruct HG as [Hacc Hne].
    set (sel1 := filter (fun m => smem m (flat_map (groups_of groups) (map a_name (acc_power ext gain pt acc)))) restr0) in *.
    assert (Hsub1 : forall m, In m sel1 -> In m restr0) by (intros m Hm; apply filter_In in Hm; tauto).
    destruct (IH sel1 sel' Hsub1 H) as [H1 H2]. split; [exact H1 |]. intros _.
    destruct rest as [| b rest']; [| apply H2; discriminate].
    cbn in H. injection H as <-.
    (* some amplifier passed the filters; it is a member of a model of sel, which is permitted *)
    pose proof (acc_power_nonempty ext gain pt acc Hne) as Hpne.
    destruct (acc_power ext gain pt acc) as [| a0 l0] eqn:EP; [congruence |].
    assert (Ha0 : In a0 (band_cands lib groups sel bmin bmax)).
    { assert (X : In a0 (acc_power ext gain pt acc)) by (rewrite EP; left; reflexivity).
      apply acc_power_spec in X. destruct X as [X _]. rewrite Hacc in X. apply pool_subset in X. exact X. }
    unfold band_cands in Ha0. apply in_flat_map in Ha0. destruct Ha0 as (t & Ht & Ha0).
    destruct (lookup_amp t lib) as [a |] eqn:El; [| destruct Ha0].
    destruct (covers a bmin bmax); [| destruct Ha0]. destruct Ha0 as [<- | []].
    destruct (lookup_amp_name _ _ _ El) as [_ Hname].
    apply (proj1 (dedup_In _ _)) in Ht. unfold members_of in Ht. apply in_flat_map in Ht. destruct Ht as (m & Hm & Ht).
    destruct (lookup_group m groups) as [g |] eqn:Eg; [| destruct Ht].
    destruct (lookup_group_name _ _ _ Eg) as [Hgin Hgn].
    intros Hempty.
    assert (Hin : In m sel1).
    { apply filter_In. split; [apply Hsub; exact Hm |]. apply smem_In. apply in_flat_map.
      exists (a_name a). split; [left; reflexivity |]. unfold groups_of. rewrite <- Hgn. apply in_map.
      apply filter_In. split; [exact Hgin |]. apply smem_In. rewrite Hname. exact Ht. }
    rewrite Hempty in Hin. destruct Hin.
Qed.

(* once restrictions_edfa lists a capable entry for the band, the band's choice is capable and at least as quiet *)
Theorem band_select_capable : forall lib redfa prev maxl bmin bmax gain pt ext nf t a,
  In t redfa -> lookup_amp t lib = Some a -> covers a bmin bmax = true -> a_multi a = false ->
  capable (raman_allowed prev maxl) ext gain pt a ->
  exists s red, band_select lib redfa prev maxl bmin bmax gain pt ext nf = Ok (s, red) /\
    In s lib /\ capable (raman_allowed prev maxl) ext gain pt s /\ red == 0 /\ nf s <= nf a.
Proof.
  intros lib redfa prev maxl bmin bmax gain pt ext nf t a Ht Ha Hcov Hm Hc.
  destruct (lookup_amp_name _ _ _ Ha) as [Hain Hname]. unfold band_select.
  set (r := filter (covers_name lib bmin bmax) redfa).
  set (eq := filter (fun x => negb (a_multi x) && (isnil r || smem (a_name x) r)) lib).
  assert (Hr : In t r).
  { apply filter_In. split; [exact Ht |]. unfold covers_name. rewrite Ha. exact Hcov. }
  assert (Heq : In a eq).
  { apply filter_In. split; [exact Hain |]. rewrite Hm. cbn [negb andb]. apply orb_true_iff. right.
    apply smem_In. rewrite Hname. exact Hr. }
  destruct (select_capable (raman_allowed prev maxl) gain pt ext nf eq) as (s & red & Hsel & Hs & Hcs & Hred & Hmin).
  { exists a. auto. }
  exists s, red. split; [exact Hsel |]. split; [apply filter_In in Hs; tauto |]. split; [exact Hcs |].
  split; [exact Hred | apply Hmin; assumption].
Qed.

(* the multiband clause: a permitted multiband model capable in every band makes auto-design choose, in every band,
   a capable entry no noisier than that model's entry for the band *)
Theorem multi_capable : forall nd prev next lib groups maxl ext bts g,
  NoDup (map g_name groups) -> n_variety nd = ""%string -> In g groups ->
  In (g_name g) (multi_restrictions nd prev next (map (fun b => (fst (fst (fst b)), snd (fst (fst b)))) bts) lib groups) ->
  Forall (band_ok lib g (raman_allowed prev maxl) ext) bts ->
  exists mr redfa, multi_redfa nd prev next lib groups ext bts = Ok (mr, redfa) /\
    Forall (fun b => let '(bmin, bmax, gain, pt) := b in
              forall nf, exists t a s red,
                In t (g_members g) /\ lookup_amp t lib = Some a /\ covers a bmin bmax = true /\
                band_select lib redfa prev maxl bmin bmax gain pt ext nf = Ok (s, red) /\
                capable (raman_allowed prev maxl) ext gain pt s /\ red == 0 /\ nf s <= nf a) bts.
Proof.
  intros nd prev next lib groups maxl ext bts g Hnd Hv Hg Hperm Hall.
  assert (Hall' : Forall (band_ok lib g true ext) bts).
  { eapply Forall_impl; [| exact Hall]. intros [[[bmin bmax] gain] pt] (t & a & H1 & H2 & H3 & H4 & (_ & H5 & H6)).
    exists t, a. repeat split; auto. }
  destruct (preselect_keeps lib groups ext g bts _ _ Hnd Hg Hperm Hperm Hall') as (sel' & Hsel & Hin).
  unfold multi_redfa. rewrite Hv. cbn [String.eqb negb]. rewrite Hsel. cbn [bind].
  eexists. eexists. split; [reflexivity |].
  apply Forall_forall. intros [[[bmin bmax] gain] pt] Hb nf.
  rewrite Forall_forall in Hall. specialize (Hall _ Hb). cbn [band_ok] in Hall.
  destruct Hall as (t & a & Ht & Ha & Hcov & Hm & Hc).
  assert (Hred : In t (members_of groups sel')).
  { unfold members_of. apply in_flat_map. exists (g_name g). split; [exact Hin |].
    rewrite (lookup_group_In groups g Hnd Hg). exact Ht. }
  destruct (band_select_capable lib _ prev maxl bmin bmax gain pt ext nf t a Hred Ha Hcov Hm Hc)
    as (s & red & Hs & _ & Hcs & Hr0 & Hnf).
  exists t, a, s, red. repeat split; auto; apply Hcs.
Qed.

(* every band's choice belongs to a permitted multiband model, provided every permitted model has an entry for the
   band (otherwise restrictions_edfa offers nothing for the band and set_one_amplifier falls back to the whole library) *)
Theorem multi_pick_permitted : forall nd prev next lib groups maxl ext bts mr redfa bmin bmax gain pt nf s red,
  n_variety nd = ""%string -> In (bmin, bmax, gain, pt) bts ->
  multi_redfa nd prev next lib groups ext bts = Ok (mr, redfa) ->
  (forall g, In g groups -> In (g_name g) mr -> exists t, In t (g_members g) /\ covers_name lib bmin bmax t = true) ->
  band_select lib redfa prev maxl bmin bmax gain pt ext nf = Ok (s, red) ->
  exists g, In g groups /\ In (g_name g) mr /\ In (a_name s) (g_members g).
Proof.
  intros nd prev next lib groups maxl ext bts mr redfa bmin bmax gain pt nf s red Hv Hb Hred Hcov Hsel.
  unfold multi_redfa in Hred. rewrite Hv in Hred. cbn [String.eqb negb] in Hred.
  set (mr0 := multi_restrictions nd prev next (map (fun b => (fst (fst (fst b)), snd (fst (fst b)))) bts) lib groups) in *.
  destruct (preselect lib groups ext mr0 mr0 bts) as [sel' | e] eqn:EP; cbn [bind] in Hred; [| discriminate].
  injection Hred as <- <-.
  destruct (preselect_within _ _ _ _ _ _ _ (fun m H => H) EP) as [Hsub Hne].
  assert (Hne' : sel' <> []) by (apply Hne; intros E; rewrite E in Hb; destruct Hb).
  (* the band's restriction list is not empty *)
  assert (Hr : filter (covers_name lib bmin bmax) (members_of groups sel') <> []).
  { destruct sel' as [| m0 rest]; [congruence |].
    assert (Hm0 : In m0 mr0) by (apply Hsub; left; reflexivity).
    unfold mr0, multi_restrictions in Hm0. rewrite Hv in Hm0. cbn [String.eqb negb] in Hm0.
    apply in_map_iff in Hm0. destruct Hm0 as (g0 & Hn0 & Hg0). apply filter_In in Hg0. destruct Hg0 as [Hg0 _].
    destruct (Hcov g0 Hg0) as (t & Ht & Hc).
    { rewrite Hn0. apply Hsub. left. reflexivity. }
    intros E. assert (X : In t (filter (covers_name lib bmin bmax) (members_of groups (m0 :: rest)))).
    { apply filter_In. split; [| exact Hc]. unfold members_of. cbn [flat_map]. apply in_or_app. left.
      subst m0. destruct (lookup_group (g_name g0) groups) as [g1 |] eqn:E1.
      - (* the first model of the library carrying that name: its members are what the code reads *)
        destruct (lookup_group_name _ _ _ E1) as [Hg1 Hn1].
        destruct (Hcov g1 Hg1) as (t1 & Ht1 & Hc1); [rewrite Hn1; apply Hsub; left; reflexivity |].
        exfalso. assert (Y : In t1 (filter (covers_name lib bmin bmax) (members_of groups (g_name g0 :: rest)))).
        { apply filter_In. split; [| exact Hc1]. unfold members_of. cbn [flat_map]. rewrite E1.
          apply in_or_app. left. exact Ht1. }
        rewrite E in Y. destruct Y.
      - exfalso. clear - Hg0 E1. induction groups as [| x l IH]; [destruct Hg0 |].
        cbn in E1. destruct (String.eqb (g_name x) (g_name g0)) eqn:E; [discriminate |].
        destruct Hg0 as [-> | H]; [rewrite String.eqb_refl in E; discriminate | apply IH; assumption]. }
    rewrite E in X. destruct X. }
  unfold band_select in Hsel.
  set (r := filter (covers_name lib bmin bmax) (members_of groups sel')) in *.
  pose proof (select_spec (raman_allowed prev maxl) gain pt ext nf
                (filter (fun a => negb (a_multi a) && (isnil r || smem (a_name a) r)) lib)) as HS.
  cbv zeta in HS. rewrite Hsel in HS. destruct HS as (Hs & _). apply pool_subset in Hs.
  apply filter_In in Hs. destruct Hs as [_ Hs]. apply andb_true_iff in Hs. destruct Hs as [_ Hs].
  apply orb_true_iff in Hs. destruct Hs as [Hs | Hs]; [apply isnil_true in Hs; contradiction |].
  apply smem_In in Hs. unfold r in Hs. apply filter_In in Hs. destruct Hs as [Hs _].
  unfold members_of in Hs. apply in_flat_map in Hs. destruct Hs as (m & Hm & Hs).
  destruct (lookup_group m groups) as [g |] eqn:Eg; [| destruct Hs].
  destruct (lookup_group_name _ _ _ Eg) as [Hgin Hgn].
  exists g. split; [exact Hgin |]. split; [rewrite Hgn; apply Hsub; exact Hm | exact Hs].
Qed.

(* the designed type_variety (find_type_variety: first common model of the WHOLE library) is one of the models the
   band choices have in common; when the permitted models are the only ones listing their entries it is permitted *)
Theorem common_groups_spec : forall groups chosen m,
  In m (common_groups groups chosen) <->
  exists g, In g groups /\ g_name g = m /\ forall t, In t chosen -> In t (g_members g).
Proof.
  intros groups chosen m. unfold common_groups. rewrite in_map_iff. split.
  - intros (g & Hn & Hg). apply filter_In in Hg. destruct Hg as [Hin Hf]. rewrite forallb_forall in Hf.
    exists g. split; [exact Hin |]. split; [exact Hn |]. intros t Ht. apply smem_In. apply Hf. exact Ht.
  - intros (g & Hin & Hn & Hall). exists g. split; [exact Hn |]. apply filter_In. split; [exact Hin |].
    apply forallb_forall. intros t Ht. apply smem_In. apply Hall. exact Ht.
Qed.

Definition w_mlib : list amp :=
  [mkAmp "c_good" false false true 191250 196150 15 25 21 false; mkAmp "c_ok" false false true 191250 196150 15 25 21 false;
   mkAmp "l0" false false true 186550 190050 15 25 21 false].
Definition w_groups : list mgroup := [mkG "mA" true ["c_ok"; "l0"]%string; mkG "mB" false ["c_good"; "l0"]%string].
Definition w_nf (a : amp) : Q := if String.eqb (a_name a) "c_good" then 5 else 7.

(* full statement "the designed type_variety is a permitted multiband model" is false of the faithful model:
   find_type_variety looks for the common model in the whole library, so a model that is not permitted but lists the
   same entries as the permitted one can give its name to the node (finding F-multiband-type) *)
Definition w_groups2 : list mgroup := [mkG "mX" false ["c_ok"; "l0"]%string; mkG "mA" true ["l0"; "c_ok"]%string].

Theorem multi_type_permitted_refuted :
  exists nd prev next bands lib groups chosen m g,
    n_variety nd = ""%string /\
    In g groups /\ In (g_name g) (multi_restrictions nd prev next bands lib groups) /\
    (forall t, In t chosen -> In t (g_members g)) /\
    In m (common_groups groups chosen) /\ ~ In m (multi_restrictions nd prev next bands lib groups).
Proof.
  exists (mkNode "" []), NOther, NOther, [(187000, 190000); (191300, 196000)], w_mlib, w_groups2,
         ["l0"; "c_ok"]%string, "mX"%string, (mkG "mA" true ["l0"; "c_ok"]%string).
  split; [reflexivity |]. split; [right; left; reflexivity |]. split; [vm_compute; tauto |].
  split; [intros t Ht; exact Ht |]. split; [vm_compute; tauto |].
  vm_compute. intros [H | []]. discriminate H.
Qed.
