(* C20 — lemmas about Model/Sheet.v, part 8: which errors the converter can raise at all.  The KeyError /
   StopIteration places of convert.py (nodes_by_city[...], next(...) in fiber_link) are unreachable once the sanity
   rules hold, and so is the IndexError of eqpt_connection_by_city (line sites have exactly two links); what remains
   beside the ten rules is the arithmetic error of a PMD value on a fibre of length <= 0. *)
From Coq Require Import QArith Lia.
From Verif Require Import Prelude Model.Sheet Proofs.Sheet Proofs.Sheet2 Proofs.Sheet3 Proofs.Sheet7.
Open Scope Z_scope.

Lemma mapM_err : forall {A B} (f : A -> res B) l e, mapM f l = Err e -> exists x, In x l /\ f x = Err e.
Proof.
  intros A B f. induction l as [|x t IH]; cbn [mapM]; intros e H; [discriminate|].
  destruct (f x) as [y|e'] eqn:E; cbn [bind] in H.
  - destruct (mapM f t) as [r|e''] eqn:E'; cbn [bind] in H; [discriminate|]. inversion H; subst.
    destruct (IH e eq_refl) as [z [Hz Hf]]. exists z. split; [right; exact Hz | exact Hf].
  - inversion H; subst. exists x. split; [left; reflexivity | exact E].
Qed.

Lemma lookup_ok : forall c ns, In c (cities ns) -> exists n, lookup_node c ns = Ok n.
Proof.
  intros c ns H. unfold lookup_node. destruct (find_node c ns) as [n|] eqn:E; [exists n; reflexivity|].
  exfalso. exact (find_node_None c ns E H).
Qed.

Lemma find_not_none : forall {A} (p : A -> bool) l x, In x l -> p x = true -> find p l <> None.
Proof. intros A p l x Hx Hp H. pose proof (find_none p l H x Hx). congruence. Qed.

Lemma fiber_link_defined_out : forall c ls l, In l (links_of c ls) -> exists u, fiber_link c (other_city c l) ls = Ok u.
Proof.
  intros c ls l H. unfold fiber_link.
  destruct (find _ (links_of c ls)) as [li|] eqn:E; [eexists; reflexivity|]. exfalso.
  apply (find_not_none _ _ l H) in E; [exact E|].
  apply links_of_In in H. destruct H as [_ C]. unfold other_city, in2, incident in *.
  destruct (seqb (l_from l) c) eqn:S.
  - rewrite seqb_refl, orb_true_r. reflexivity.
  - destruct C as [C|C]; [apply seqb_neq in S; contradiction|]. rewrite seqb_refl, orb_true_r.
    rewrite C, seqb_refl. reflexivity.
Qed.
Lemma fiber_link_defined_in : forall c ls l, In l (links_of c ls) -> exists u, fiber_link (other_city c l) c ls = Ok u.
Proof.
  intros c ls l H. unfold fiber_link.
  destruct (find _ (links_of (other_city c l) ls)) as [li|] eqn:E; [eexists; reflexivity|]. exfalso.
  apply links_of_In in H. destruct H as [I C].
  assert (Il : In l (links_of (other_city c l) ls)).
  { apply links_of_In. split; [exact I|]. unfold other_city, incident. destruct (seqb (l_from l) c); [right | left]; reflexivity. }
  apply (find_not_none _ _ l Il) in E; [exact E|].
  unfold other_city, in2, incident in *. destruct (seqb (l_from l) c) eqn:S.
  - apply seqb_eq in S. rewrite S, seqb_refl, orb_true_r. reflexivity.
  - destruct C as [C|C]; [apply seqb_neq in S; contradiction|]. rewrite seqb_refl. rewrite C, seqb_refl, orb_true_r. reflexivity.
Qed.

Definition build_errors : list string :=
  ["IndexError:site_degree"; "ZeroDivisionError:pmd"; "ValueError:pmd"; "ValueError:impairment_id";
   "NetworkTopologyError:impairment_mismatch"]%string.

Lemma roadm_el_errors : forall rs n e, roadm_el rs n = Err e ->
  e = "ValueError:impairment_id"%string \/ e = "NetworkTopologyError:impairment_mismatch"%string.
Proof.
  intros rs n e H. unfold roadm_el in H.
  destruct (mapM _ (roadms_of (n_city n) rs)) as [imps|e'] eqn:M; cbn [bind] in H; [discriminate|]. inversion H; subst e'.
  apply mapM_err in M. destruct M as [r [_ Hr]]. unfold row_impairments in Hr.
  destruct (ostr_o (rr_from_deg r)) as [fd|]; [|discriminate].
  destruct (transform_data (rr_imp r)) as [ids|e'] eqn:T; cbn [bind] in Hr.
  - destruct ids as [ids|]; [|discriminate]. destruct (Nat.eqb _ _); [discriminate|]. inversion Hr. auto.
  - inversion Hr; subst e'. unfold transform_data in T. destruct (rr_imp r) as [|s|q]; try discriminate.
    destruct (seqb s ""); [discriminate|].
    destruct (mapM _ (split bar s)) as [l|e'] eqn:M; cbn [bind] in T; [discriminate|]. inversion T; subst e'.
    apply mapM_err in M. destruct M as [x [_ Hx]]. destruct (parse_int x); [discriminate|]. inversion Hx. auto.
Qed.

Lemma ecc_errors : forall ns ls es n e, In n ns -> NoDup (cities ns) ->
  eqpt_connection_by_city (n_city n) ns ls es = Err e ->
  e = "IndexError:site_degree"%string /\ n_type n <> TRoadm /\ (length (links_of (n_city n) ls) < 2)%nat.
Proof.
  intros ns ls es n e Hn Hnd H. unfold eqpt_connection_by_city, lookup_node in H.
  rewrite (find_node_In ns n Hnd Hn) in H. cbn [bind] in H. set (c := n_city n) in *.
  assert (Hline : forall t,
            match fiber_dest_from_source c ls with
            | o0 :: o1 :: _ =>
                let* f0 := fiber_link o0 c ls in
                let* t0 := fiber_link c o1 ls in
                let* f1 := fiber_link o1 c ls in
                let* t1 := fiber_link c o0 ls in
                Ok (connect_eqpt f0 (eqpt_in_city_to_city c o0 es t West) t0 ++
                    connect_eqpt f1 (eqpt_in_city_to_city c o0 es t East) t1)
            | _ => Err "IndexError:site_degree"%string
            end = Err e -> e = "IndexError:site_degree"%string /\ (length (links_of c ls) < 2)%nat).
  { intros t Hx. unfold fiber_dest_from_source in Hx.
    destruct (links_of c ls) as [|l0 [|l1 r]] eqn:L; cbn [map] in Hx.
    - inversion Hx. split; [reflexivity | cbn; lia].
    - inversion Hx. split; [reflexivity | cbn; lia].
    - exfalso.
      assert (I0 : In l0 (links_of c ls)) by (rewrite L; left; reflexivity).
      assert (I1 : In l1 (links_of c ls)) by (rewrite L; right; left; reflexivity).
      destruct (fiber_link_defined_in c ls l0 I0) as [u1 E1]. destruct (fiber_link_defined_out c ls l1 I1) as [u2 E2].
      destruct (fiber_link_defined_in c ls l1 I1) as [u3 E3]. destruct (fiber_link_defined_out c ls l0 I0) as [u4 E4].
      rewrite E1 in Hx; cbn [bind] in Hx. rewrite E2 in Hx; cbn [bind] in Hx.
      rewrite E3 in Hx; cbn [bind] in Hx. rewrite E4 in Hx; cbn [bind] in Hx. discriminate. }
  destruct (n_type n) eqn:T.
  - exfalso. unfold fiber_dest_from_source in H. rewrite mapM_map in H.
    destruct (mapM _ (links_of c ls)) as [r|e'] eqn:M; cbn [bind] in H; [discriminate|].
    apply mapM_err in M. destruct M as [l [Il Hl]].
    destruct (fiber_link_defined_out c ls l Il) as [u1 E1]. destruct (fiber_link_defined_in c ls l Il) as [u2 E2].
    rewrite E1 in Hl; cbn [bind] in Hl. rewrite E2 in Hl; cbn [bind] in Hl. discriminate.
  - destruct (Hline TIla H) as [A B]. split; [exact A|]. split; [discriminate | exact B].
  - destruct (Hline TFused H) as [A B]. split; [exact A|]. split; [discriminate | exact B].
Qed.

Lemma pmd_check_errors : forall s e, pmd_check s = Err e -> e = "ZeroDivisionError:pmd"%string \/ e = "ValueError:pmd"%string.
Proof.
  intros s e H. unfold pmd_check in H. destruct (s_pmd s) as [p|]; [|discriminate].
  destruct (Qeq_bool p 0); [discriminate|]. destruct (Qeq_bool (s_dist s) 0); [inversion H; auto|].
  destruct (Qle_bool (s_dist s) 0); [inversion H; auto | discriminate].
Qed.

Lemma build_errors_spec : forall ns ls es rs e, NoDup (cities ns) ->
  (forall l, In l ls -> In (l_from l) (cities ns) /\ In (l_to l) (cities ns)) ->
  (forall q, In q es -> In (e_from q) (cities ns)) ->
  build ns ls es rs = Err e ->
  In e build_errors /\
  (e = "IndexError:site_degree"%string ->
   exists n, In n ns /\ n_type n <> TRoadm /\ (length (links_of (n_city n) ls) < 2)%nat).
Proof.
  intros ns ls es rs e Hnd Hl He H. unfold build in H.
  assert (Hfib : forall d r, mapM (fiber_el ns d) ls = Err r -> r = "ZeroDivisionError:pmd"%string \/ r = "ValueError:pmd"%string).
  { intros d r M. apply mapM_err in M. destruct M as [l [Il Hf]]. unfold fiber_el in Hf.
    destruct (Hl l Il) as [C1 C2]. destruct (lookup_ok _ _ C1) as [a Ea]. destruct (lookup_ok _ _ C2) as [b Eb].
    rewrite Ea in Hf; cbn [bind] in Hf. rewrite Eb in Hf; cbn [bind] in Hf.
    destruct (pmd_check _) as [[]|r'] eqn:P; cbn [bind] in Hf; [destruct d; discriminate|].
    inversion Hf; subst. apply (pmd_check_errors _ _ P). }
  assert (Heq : forall d r, mapM (eqpt_el ns d) es = Err r -> False).
  { intros d r M. apply mapM_err in M. destruct M as [q [Iq Hf]]. unfold eqpt_el in Hf.
    destruct (lookup_ok _ _ (He q Iq)) as [a Ea]. rewrite Ea in Hf; cbn [bind] in Hf. discriminate. }
  assert (Hpmd : forall r, r = "ZeroDivisionError:pmd"%string \/ r = "ValueError:pmd"%string ->
                 In r build_errors /\ (r = "IndexError:site_degree"%string -> exists n, In n ns /\ n_type n <> TRoadm /\
                                       (length (links_of (n_city n) ls) < 2)%nat)).
  { intros r [E | E]; subst r; (split; [cbn; tauto | discriminate]). }
  destruct (mapM (roadm_el rs) (filter (is_t TRoadm) ns)) as [re|r] eqn:E0; cbn [bind] in H.
  2:{ inversion H; subst r. apply mapM_err in E0. destruct E0 as [m [_ Hm]].
      destruct (roadm_el_errors _ _ _ Hm) as [-> | ->]; (split; [cbn; tauto | discriminate]). }
  destruct (mapM (fiber_el ns East) ls) as [ef|r] eqn:E1; cbn [bind] in H; [|inversion H; subst; apply Hpmd; eapply Hfib; exact E1].
  destruct (mapM (fiber_el ns West) ls) as [wf|r] eqn:E2; cbn [bind] in H; [|inversion H; subst; apply Hpmd; eapply Hfib; exact E2].
  destruct (mapM (eqpt_el ns East) es) as [ee|r] eqn:E3; cbn [bind] in H; [|exfalso; eapply Heq; exact E3].
  destruct (mapM (eqpt_el ns West) es) as [we|r] eqn:E4; cbn [bind] in H; [|exfalso; eapply Heq; exact E4].
  destruct (mapM _ ns) as [cx|r] eqn:E5; cbn [bind] in H; [discriminate|]. inversion H; subst r.
  apply mapM_err in E5. destruct E5 as [n [Hn Hc]]. destruct (ecc_errors ns ls es n e Hn Hnd Hc) as [A [B C]].
  split; [rewrite A; cbn; tauto|]. intros _. exists n. auto.
Qed.

(* every rejection of the model is one of the ten sanity rules, the documented error of a Roadms row whose 'from
   degrees' and impairment ids differ in number, a non-integer impairment id, or the arithmetic error of a PMD
   value on a non-positive length; in particular the IndexError of eqpt_connection_by_city is unreachable *)
Definition other_errors : list string :=
  ["NetworkTopologyError:impairment_mismatch"; "ValueError:impairment_id"; "ZeroDivisionError:pmd"; "ValueError:pmd"]%string.
Theorem convert_errors : forall w e, convert w = Err e ->
  (exists r, In r rules /\ e = topo_err r) \/ In e other_errors.
Proof.
  intros w e H. rewrite convert_unfold in H.
  destruct (checks_cases (nodes_of w) (links_of_w w) (eqpts_of_w w)) as [[r [Hr He]]|[S [H1 H2]]];
    unfold nodes_of, links_of_w, eqpts_of_w in *.
  - rewrite He in H. cbn [bind] in H. inversion H. left. exists r. auto.
  - rewrite H1 in H. cbn [bind] in H. rewrite H2 in H. cbn [bind] in H. right.
    destruct S as [S0 S1 S2 S3 S4 S5 S6 S7 S8 S9].
    assert (AB := fun a b c => build_errors_spec _ _ _ _ e a b c H).
    destruct AB as [A B].
    + rewrite cities_correct. exact S1.
    + intros l Il. rewrite cities_correct. apply S2. exact Il.
    + intros q Iq. rewrite cities_correct. apply (S5 q Iq).
    + cbn [build_errors In] in A. cbn [other_errors In].
      destruct A as [A|[A|[A|[A|[A|[]]]]]]; [|tauto|tauto|tauto|tauto].
      exfalso. destruct (B (eq_sym A)) as [m [Hm [T L]]].
      apply in_map_iff in Hm. destruct Hm as [n [Em In_]]. subst m. rewrite correct_type_city in L.
      unfold correct_type in T.
      destruct (ntype_eqb (n_type n) TIla) eqn:Ti; cbn [andb] in T.
      * destruct (Nat.eqb (length (links_of (n_city n) (map mk_link (w_links w)))) 2) eqn:E2; cbn [negb] in T.
        -- apply Nat.eqb_eq in E2. lia.
        -- cbn in T. congruence.
      * destruct (n_type n) eqn:Tn; [congruence | discriminate |].
        pose proof (S9 n In_ Tn). lia.
Qed.
