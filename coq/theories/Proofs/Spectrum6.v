(* C14 proofs, part 6: totality — on well-formed states and requests the assignment never raises
   (no SpectrumError / ValueError / IndexError, and the fuel of the model's loops always suffices). *)
From Coq Require Import Lia ZifyBool Permutation Sorted.
From Verif Require Import Prelude Model.Spectrum Proofs.SpectrumBase Proofs.Spectrum Proofs.Spectrum2
     Proofs.Spectrum3 Proofs.Spectrum4 Proofs.Spectrum5.
Open Scope Z_scope.
Local Arguments Z.mul : simpl never.
Local Arguments Z.add : simpl never.
Local Arguments Z.sub : simpl never.
Local Arguments Z.opp : simpl never.
Local Arguments Z.div : simpl never.
Local Arguments Z.max : simpl never.
Local Arguments Z.min : simpl never.
Local Arguments Z.of_nat : simpl never.
Local Arguments Z.to_nat : simpl never.

Lemma dsn_cond_total b c i req : WFb b -> 0 < i -> 0 <= c -> exists r, dsn_cond b c i req = Ok r.
Proof.
  intros W Hi Hc. pose proof W as (Hx & Hl & Hfm & HfM & Hg). unfold dsn_cond.
  destruct (slice_all_free (cells b) (c - i) (c + i) (2 * i)) eqn:Es; [|eauto].
  replace (c + i) with (c - i + 2 * i) in Es by lia.
  apply slice_all_free_spec in Es; [|lia|lia]. destruct Es as (H0 & Hlen & Hf).
  rewrite idx_at_wf by (auto; lia). cbn [bind].
  destruct (fi_min b <=? n_min b + (c - i)); [|eauto].
  rewrite idx_at_wf by (auto; lia). cbn [bind].
  destruct (n_min b + (c + i - 1) <=? fi_max b); eauto.
Qed.

Lemma dsn_cond_le b c i req : dsn_cond b c i req = Ok true -> i <= req.
Proof.
  unfold dsn_cond. destruct (slice_all_free _ _ _ _); [|discriminate].
  destruct (idx_at b (c - i)) as [lo|]; [|discriminate]. cbn [bind].
  destruct (fi_min b <=? lo); [|discriminate].
  destruct (idx_at b (c + i - 1)) as [hi|]; [|discriminate]. cbn [bind].
  destruct (hi <=? fi_max b); [|discriminate]. intros H. injection H as H. lia.
Qed.

Lemma dsn_loop_total b c req pcm : WFb b -> 0 < pcm -> 0 <= c ->
  forall fuel i, 0 < i -> (1 <= fuel)%nat -> (i <= req -> (req - i) / pcm + 2 <= Z.of_nat fuel) ->
  exists r, dsn_loop b c req pcm i fuel = Ok r.
Proof.
  intros W Hp Hc. induction fuel as [|f IH]; intros i Hi Hf Hfuel; [lia|].
  cbn [dsn_loop]. destruct (dsn_cond_total b c i req W Hi Hc) as (ok & Hok). rewrite Hok. cbn [bind].
  destruct ok; [|eauto].
  apply dsn_cond_le in Hok. specialize (Hfuel Hok).
  assert (Hq : 0 <= (req - i) / pcm) by (apply Z.div_pos; lia).
  apply IH; [lia|lia|]. intros Hle.
  replace (req - (i + pcm)) with ((req - i) + (-1) * pcm) by lia.
  rewrite Z.div_add by lia. lia.
Qed.

Lemma determine_total b n req pcm : WFb b -> 0 < pcm -> exists r, determine_slot_numbers b n req pcm = Ok r.
Proof.
  intros W Hp. pose proof W as (Hx & Hl & Hfm & HfM & Hg). unfold determine_slot_numbers.
  rewrite Hx, mem_z_zrange.
  destruct ((n_min b <=? n) && (n <? n_max b + 1)) eqn:Em; cbn [negb]; [|eauto].
  rewrite geti_wf by (auto; lia). cbn [bind].
  replace (pcm <=? 0) with false by lia.
  apply dsn_loop_total; try lia; [exact W|].
  intros Hle. assert (0 <= req / pcm) by (apply Z.div_pos; lia).
  replace (req - pcm) with (req + (-1) * pcm) by lia. rewrite Z.div_add by lia. lia.
Qed.

Lemma cands_from_total b m : WFb b -> 0 < m ->
  forall fuel i, 0 <= i -> i + Z.of_nat fuel <= Z.of_nat (length (cells b)) -> exists l, cands_from b m i fuel = Ok l.
Proof.
  intros W Hm. induction fuel as [|f IH]; intros i Hi Hlen; cbn [cands_from]; [eauto|].
  destruct (cand_total b m i W Hm Hi) as (ok & Hok). rewrite Hok. cbn [bind].
  destruct (IH (i + 1)) as (rest & Hr); [lia|lia|]. rewrite Hr. cbn [bind].
  destruct ok; [|eauto]. rewrite idx_at_wf by (auto; lia). cbn [bind]. eauto.
Qed.

Lemma select_free_total b m p : WFb b -> 0 < m -> exists r, select_free b m p = Ok r.
Proof.
  intros W Hm. unfold select_free.
  destruct (cands_from_total b m W Hm (length (cells b)) 0) as (l & Hl); [lia|lia|].
  rewrite Hl. cbn [bind]. destruct p; eauto.
Qed.

Definition slot_pos (s : slot_req) : Prop := match snd s with Some m => 0 < m | None => True end.

Lemma cnm_step_total test rem pcm p s :
  WFb test -> 0 < pcm -> slot_pos s -> exists r, cnm_step test rem pcm p s = Ok r.
Proof.
  intros W Hp Hs. unfold cnm_step, slot_pos in *. destruct s as [[sn|] [sm|]]; cbn [snd] in Hs.
  - destruct (determine_total test sn sm sm W Hs) as (av & Ha). rewrite Ha. cbn [bind]. destruct (av =? 0); eauto.
  - destruct (determine_total test sn rem pcm W Hp) as (m' & Ha). rewrite Ha. cbn [bind].
    destruct ((m' =? 0) || (rem <=? 0)); eauto.
  - destruct (select_free_total test sm p W Hs) as (c & Hc). rewrite Hc. cbn [bind]. destruct c; eauto.
  - destruct (rem <=? 0) eqn:Er; [eauto|].
    destruct (select_free_total test rem p W ltac:(lia)) as (c & Hc). rewrite Hc. cbn [bind]. destruct c; eauto.
Qed.

(* a Continue step always proposes a positive, feasible (n, m) when user M values are positive *)
Lemma cnm_step_pos test rem pcm p s n m :
  WFb test -> 0 < pcm -> slot_pos s -> cnm_step test rem pcm p s = Ok (Continue n m) -> 0 < m.
Proof.
  intros W Hp Hs H. unfold cnm_step, slot_pos in *. destruct s as [[sn|] [sm|]]; cbn [snd] in Hs.
  - destruct (determine_slot_numbers test sn sm sm); [|discriminate]. cbn [bind] in H.
    destruct (_ =? 0); [discriminate|]. injection H as <- <-. exact Hs.
  - destruct (determine_slot_numbers test sn rem pcm) as [m'|] eqn:Ed; [|discriminate]. cbn [bind] in H.
    destruct ((m' =? 0) || (rem <=? 0)) eqn:E; [discriminate|]. injection H as <- <-.
    apply determine_spec in Ed; [|exact W]. lia.
  - destruct (select_free test sm p) as [[c|]|]; try discriminate. cbn [bind] in H. injection H as <- <-. exact Hs.
  - destruct (rem <=? 0) eqn:Er; [discriminate|].
    destruct (select_free test rem p) as [[c|]|]; try discriminate. cbn [bind] in H. injection H as <- <-. lia.
Qed.

Lemma cnm_loop_total p pcm : 0 < pcm ->
  forall l test rem sel, WFb test -> Forall slot_pos l -> exists r, cnm_loop test rem pcm p l sel = Ok r.
Proof.
  intros Hp. induction l as [|s t IH]; intros test rem sel W Hs; cbn [cnm_loop]; [eauto|].
  inversion Hs as [|? ? Hs1 Hst]; subst.
  destruct (cnm_step_total test rem pcm p s W Hp Hs1) as (r & Hr). rewrite Hr. cbn [bind].
  destruct r as [n m| |]; [|eauto|eauto].
  pose proof (cnm_step_pos test rem pcm p s n m W Hp Hs1 Hr) as Hm.
  destruct (cnm_step_continue test rem pcm p s n m W Hm Hr) as ((Hlo & Hhi & _) & _).
  destruct (assign_defined test n m W Hm Hlo Hhi) as (t1 & Ha). rewrite Ha. cbn [bind].
  apply IH; [|exact Hst]. apply (assign_spec test n m t1 W Ha).
Qed.

Lemma agg_cells_total d st : WFst d st -> forall ids acc, valid_ids st ids -> exists c, agg_cells st ids acc = Ok c.
Proof.
  intros W. induction ids as [|i t IH]; intros acc Hv; cbn [agg_cells]; [eauto|].
  inversion Hv as [|? ? Hi Ht]; subst. destruct (get_oms_valid st i Hi) as (o & Hg & _). rewrite Hg. cbn [bind].
  apply IH. exact Ht.
Qed.

Lemma aggregate_total d st ids : WFst d st -> valid_ids st ids -> ids <> [] -> exists t, aggregate st ids = Ok t.
Proof.
  intros W Hv Hne. unfold aggregate. destruct ids as [|i0 t]; [contradiction|].
  inversion Hv as [|? ? Hi Ht]; subst. destruct (get_oms_valid st i0 Hi) as (o0 & Hg & Ho). rewrite Hg. cbn [bind].
  destruct (agg_cells_total d st W t (cells (bm o0)) Ht) as (c & Hc). rewrite Hc. cbn [bind].
  pose proof (WFst_at d st i0 o0 W Ho) as Wo.
  apply (agg_cells_spec d st W) in Hc; [|exact Ht|apply (WFo_len d o0 Wo)]. destruct Hc as (Hlc & _).
  destruct Wo as (Wb & Hmin & Hmax & Hgb). unfold new_bitmap. rewrite Hmin, Hmax.
  replace (Z.of_nat (length c) =? d_max d - d_min d + 1) with true by lia. eauto.
Qed.

Lemma sort_by_forall {A} (P : A -> Prop) le l : Forall P l -> Forall P (sort_by le l).
Proof. intros H. eapply Permutation_Forall; [apply Permutation_sym, sort_by_perm|exact H]. Qed.

Theorem pth_assign_one_total d p st rq :
  WFst d st -> valid_ids st (path_oms rq) -> path_oms rq <> [] ->
  0 < rq_pcm rq -> Forall slot_pos (slots rq) ->
  exists r, pth_assign_one p st rq = Ok r.
Proof.
  intros W Hv Hne Hp Hs. unfold pth_assign_one.
  destruct (pre_blocked rq); [eauto|].
  fold (rq_nb_wl rq). fold (rq_pcm rq). fold (rq_required rq).
  match goal with |- exists r, (if ?c then _ else _) = _ => destruct c end; [eauto|].
  unfold compute_n_m.
  destruct (aggregate_total d st _ W Hv Hne) as (test0 & Hag). rewrite Hag. cbn [bind].
  destruct (aggregate_spec d st _ test0 W Hv Hag) as (_ & Wt & Hn & Hx & Hg & _).
  set (ordered := order_slots (slots rq)).
  assert (Hso : Forall slot_pos (map snd ordered)).
  { eapply Permutation_Forall; [apply Permutation_sym, order_slots_perm|exact Hs]. }
  destruct (cnm_loop_total p (rq_pcm rq) Hp (map snd ordered) test0 (rq_required rq) [] Wt Hso) as (r & Hr).
  rewrite Hr. cbn [bind]. destruct r as [[[sel rem] tfin]|]; cbn [bind].
  2:{ destruct (0 <? rq_required rq); [eauto|]. cbn [commit].
      destruct (commit_defined d (rid rq) (rq_nb_wl rq) [] (path_oms rq) st W Hv ltac:(constructor)) as (st' & Hc).
      cbn [map] in Hc. rewrite Hc. cbn [bind]. eauto. }
  destruct (0 <? rem); [eauto|].
  destruct (cnm_loop_spec test0 p (rq_pcm rq) _ test0 _ [] sel rem tfin (sel_inv_init test0 Wt) Hr)
    as (I & done & rest & Hsel & Hrem & Hproc & Hrest).
  cbn [app] in Hsel. subst done.
  pose proof (processed_length _ _ _ Hproc) as Hlen. rewrite map_length in Hlen.
  set (restored := restore_order (map Some sel ++ repeat None (length ordered - length sel)) (map fst ordered)).
  assert (Hperm : Permutation restored sel) by (apply restore_order_perm; rewrite map_length; lia).
  destruct I as [_ _ _ _ Ff]. destruct Wt as (_ & _ & Hfm & HfM & _).
  destruct (commit_defined d (rid rq) (rq_nb_wl rq) restored (path_oms rq) st W Hv) as (st' & Hc).
  { eapply Permutation_Forall; [apply Permutation_sym; exact Hperm|].
    eapply Forall_impl; [|exact Ff]. intros nm (Hm & Hlo & Hhi & _). split; [exact Hm|]. lia. }
  rewrite Hc. cbn [bind]. eauto.
Qed.
