(* C13 — translator tie: every definition generated from /repo's source (Gen/VerdictGen.v, harness/pygen_c13.py) is the
   hand-written model (Model/Verdict.v). *)
From Coq Require Import QArith Lia.
From Verif Require Import Prelude Model.Verdict Gen.VerdictGen Proofs.Verdict.
Open Scope Q_scope.

(* ---- compute_path_with_disjunction: fixed-mode verdict, both directions ---- *)
Lemma gen_fixed_blocked_fwd : forall osnr margin worst,
  g_fixed_blocked_fwd osnr margin worst = blocked_fixed (osnr + margin) (met_round2 worst).
Proof. reflexivity. Qed.
Lemma gen_fixed_blocked_rev : forall osnr margin worst,
  g_fixed_blocked_rev osnr margin worst = blocked_fixed (osnr + margin) (met_round2 worst).
Proof. reflexivity. Qed.
Lemma gen_fixed_reasons : g_fixed_reason_fwd = MODE_NOT_FEASIBLE /\ g_fixed_reason_rev = MODE_NOT_FEASIBLE.
Proof. split; reflexivity. Qed.
(* the decision on the metrics of the two directions (metric T f = Ok (met_round2 worst), worst = the minimum) *)
Lemma gen_decide_fixed : forall osnr margin fwd rev,
  g_decide_fixed osnr margin fwd rev = decide_fixed (osnr + margin) (met_round2 fwd) (option_map met_round2 rev).
Proof. intros osnr margin fwd [r|]; reflexivity. Qed.
Lemma metric_is_round2_of_min : forall T f m, metric T f = Ok m ->
  exists l worst, chan_mets T (f_g01 f) (f_cd f) (f_pmd f) (f_pdl f) = Ok l /\ min_mets l = Ok worst /\ m = met_round2 worst.
Proof.
  intros T f m H. unfold metric in H.
  destruct (chan_mets T (f_g01 f) (f_cd f) (f_pmd f) (f_pdl f)) as [l|e]; cbn in H; [|discriminate].
  destruct (min_mets l) as [w|e] eqn:E; cbn in H; [|discriminate]. inversion H. eauto.
Qed.
Lemma gen_blocking_lists :
  g_blocking_nomode = ["NO_FEASIBLE_MODE"; "MODE_NOT_FEASIBLE"]%string /\
  g_blocking_nopath = ["NO_PATH"; "NO_PATH_WITH_CONSTRAINT"; "NO_FEASIBLE_BAUDRATE_WITH_SPACING"; "NO_COMPUTED_SNR"]%string.
Proof. split; reflexivity. Qed.

(* ---- propagate_and_optimize_mode ---- *)
Lemma gen_fits : forall sp m, g_fits sp m = fits sp m.
Proof. reflexivity. Qed.
Lemma gen_iters : forall lib sp, g_iters lib sp = iters lib sp.
Proof. reflexivity. Qed.
Lemma gen_key : forall a b, g_key_gtb a b = key_gtb a b.
Proof. reflexivity. Qed.
Lemma gen_ins_mode : forall x l, g_ins_mode x l = ins_mode x l.
Proof. induction l as [|y t IH]; cbn; [reflexivity|]. rewrite IH. reflexivity. Qed.
Lemma gen_modes_of : forall lib sp it, g_modes_of lib sp it = modes_of lib sp it.
Proof.
  intros lib sp it. unfold g_modes_of, modes_of, sort_modes.
  change (filter (g_mode_filter sp it) lib) with
    (filter (fun m => Qeq_bool (m_baud m) (fst it) && Qeq_bool (m_off m) (snd it) && fits sp m) lib).
  induction (filter (fun m => Qeq_bool (m_baud m) (fst it) && Qeq_bool (m_off m) (snd it) && fits sp m) lib) as [|x t IH];
    cbn; [reflexivity|]. rewrite IH. apply gen_ins_mode.
Qed.
(* STRICT `>` for the automatic selection, where the fixed-mode test blocks on `<` *)
Lemma gen_accept : forall margin m worst, g_accept margin m worst = passes_auto (m_osnr m + margin) (met_round2 worst).
Proof. reflexivity. Qed.
Lemma gen_eval1 : forall margin P it m f worst,
  P it m = Some f -> metric (m_tab m) f = Ok (met_round2 worst) ->
  eval1 margin P it m = if g_accept margin m worst then Pass else Fail.
Proof. intros margin P it m f worst H1 H2. unfold eval1. rewrite H1, H2. reflexivity. Qed.
Lemma gen_reasons :
  reason_of NoComputedSnr = Some g_reason_nosnr /\ reason_of NoBaudrate = Some g_reason_nobaud /\
  forall it m, reason_of (NoFeasibleMode it m) = Some g_reason_nomode.
Proof. repeat split. Qed.

(* ---- Transceiver._calc_penalty ---- *)
Lemma interp_seg_gen_inf : forall x l, interp_seg_gen (Some PInf) x l = interp_seg x l.
Proof.
  intros x. induction l as [|[x0 y0] t IH]; [reflexivity|]. cbn [interp_seg_gen interp_seg].
  destruct t as [|[x1 y1] t']; [reflexivity|]. destruct (Qlt_bool x x1); [reflexivity | exact IH].
Qed.
Lemma gen_calc_penalty : forall x tab, g_calc_penalty x tab = interp x tab.
Proof.
  intros x [|[x0 y0] t]; [reflexivity|]. unfold g_calc_penalty, interp_gen, interp.
  destruct (Qlt_bool x x0); [reflexivity | apply interp_seg_gen_inf].
Qed.

(* ---- snr_sum / Transceiver.update_snr ---- *)
Lemma gen_snr_sum : forall x bw added, g_snr_sum x bw added ref_bw = snr_sum x bw added.
Proof. reflexivity. Qed.
Lemma gen_contribution : forall s, g_contribution s = s.
Proof. reflexivity. Qed.
Lemma gen_update1 : forall added c, g_update1 added c = update1 added c.
Proof. reflexivity. Qed.

(* ---- Roadm.set_roadm_paths ---- *)
Lemma gen_add_drop_stage : forall ad, g_add_drop_stage ad = add_drop_stage ad.
Proof. reflexivity. Qed.
(* add + drop together are worth exactly 1/add_drop_osnr *)
Lemma add_drop_total : forall ad, add_drop_stage ad + add_drop_stage ad == ad.
Proof. intros ad. unfold add_drop_stage. field. Qed.

(* ---- json_io.Transceiver.__init__ ---- *)
Lemma gen_normalise : forall raw, g_normalise raw = normalise raw.
Proof. reflexivity. Qed.
