(* C08 translator tie: every definition generated from gnpy/core/network.py (Gen/ChainGen.v, regenerated on every run by
   harness/pygen_c08.py) equals the corresponding part of the hand-written model (Model/Chain.v). *)
From Coq Require Import QArith Qround Lia.
From Verif Require Import Prelude Model.Chain Gen.ChainGen.
Open Scope Z_scope.

(* ------------------------------------------------------------------ calculate_new_length, the Span bounds *)
Theorem gen_calc_len : forall L mn mx tg, g_calc_len L mn mx tg = calc_len L mn mx tg.
Proof.
  intros L mn mx tg. unfold g_calc_len, calc_len, qdivz, in_bounds.
  destruct (Qltb L (qz mx)); [reflexivity|].
  destruct (Qfloor (L / qz tg) + 1 =? 0); destruct (Qfloor (L / qz tg) =? 0); reflexivity.
Qed.

Theorem gen_bounds : forall c, g_min_length c = c_min c /\ g_target_length c = c_target c.
Proof. intros c. split; reflexivity. Qed.

(* ------------------------------------------------------------------ split_fiber *)
Lemma zrange_shift : forall (A : Type) (F : Z -> A) n,
  map F (zrange 1 (n + 1)) = map (fun s => F (s + 1)) (zrange 0 n).
Proof.
  intros A F n. unfold zrange. rewrite !map_map.
  replace (Z.to_nat (n + 1 - 1)) with (Z.to_nat (n - 0)) by (f_equal; lia).
  apply map_ext. intros k. f_equal. lia.
Qed.

(* split_fib with what the source says: calculate_new_length, the "single span" test, the spans numbered from 0 with
   their uids; every span is a plain Fiber carrying the parameters of the original (template SPLIT) *)
Theorem gen_split_fib : forall c f,
  split_fib c f =
  let* ln := g_calc_len (f_len f) (g_min_length c) (c_max c) (g_target_length c) in
  let '(len, n) := ln in
  if g_split_single n then Ok [Fib f]
  else if lumped_inside f len then
    Ok (map (fun span => Fib (mkFib (g_split_uid (f_name f) span n) false len (f_lc f) (f_cin f) (f_cout f) (f_att f)
                                    (f_lumped f))) (zrange 0 n))
  else Err "NetworkTopologyError:lumped loss outside the new span".
Proof.
  intros c f. unfold split_fib. rewrite gen_calc_len.
  destruct (gen_bounds c) as [-> ->].
  destruct (calc_len (f_len f) (c_min c) (c_max c) (c_target c)) as [[len n]|e]; [|reflexivity].
  cbn [bind]. unfold g_split_single. destruct (n =? 1); [reflexivity|].
  destruct (lumped_inside f len); [|reflexivity].
  f_equal. unfold sub_span. rewrite zrange_shift. reflexivity.
Qed.

(* ------------------------------------------------------------------ amplifier insertion *)
Definition kind_of (e : elem) : nkind :=
  match e with
  | Fib f => if f_raman f then KRaman else KFiber
  | Fus _ _ => KFused
  | Amp a => if a_multi a then KMulti else KEdfa
  end.
Definition kind_end (k : ekind) : nkind := match k with Roadm => KRoadm | Trx => KTrx end.

(* the successor of the source ROADM: the first element of the line, or the far end of an empty line *)
Definition succ_kind (l : line) : nkind := match l_els l with e :: _ => kind_of e | [] => kind_end (l_dk l) end.
Definition succ_name (l : line) : string := match l_els l with e :: _ => el_name e | [] => l_dst l end.
(* the predecessor of the destination ROADM *)
Definition pred_kind (l : line) : nkind :=
  match l_els l with [] => kind_end (l_sk l) | _ => kind_of (last (l_els l) dflt) end.
Definition pred_name (l : line) : string :=
  match l_els l with [] => l_src l | _ => el_name (last (l_els l) dflt) end.

Theorem gen_booster : forall l, l_sk l = Roadm ->
  add_booster l =
  if g_booster_wanted (succ_kind l) then
    let* _ := kind_check (l_els l) in
    Ok (with_els l (new_amp (g_booster_uid (l_src l) (succ_name l))
                            (g_booster_multi (has_kind true (l_els l)) (has_kind false (l_els l)) (l_bands l)) :: l_els l))
  else Ok l.
Proof.
  intros [sk src bands dk dst df els] H. cbn in H. subst sk.
  unfold add_booster, succ_kind, succ_name. cbn [l_sk l_els l_dk l_src l_dst l_bands l_dst_first].
  destruct els as [|[f|n q|a] t].
  - destruct dk; reflexivity.
  - cbn [kind_of]. destruct (f_raman f); reflexivity.
  - reflexivity.
  - cbn [kind_of]. destruct (a_multi a); reflexivity.
Qed.

Theorem gen_preamp : forall l, l_dk l = Roadm ->
  add_preamp l =
  if g_preamp_wanted (pred_kind l) then
    let* _ := kind_check (l_els l) in
    Ok (with_els l (l_els l ++ [new_amp (g_preamp_uid (l_dst l) (pred_name l))
                                        (g_preamp_multi (has_kind true (l_els l)) (has_kind false (l_els l)))]))
  else Ok l.
Proof.
  intros [sk src bands dk dst df els] H. cbn in H. subst dk.
  unfold add_preamp, pred_kind, pred_name. cbn [l_sk l_els l_dk l_src l_dst l_bands l_dst_first].
  destruct els as [|e t].
  - destruct sk; reflexivity.
  - destruct (last (e :: t) dflt) as [f|n q|a]; cbn [kind_of].
    + destruct (f_raman f); reflexivity.
    + reflexivity.
    + destruct (a_multi a); reflexivity.
Qed.

(* the successor of a fibre inside the line; after the last element comes the far end (a ROADM or a transceiver) *)
Definition next_kind (kend : nkind) (t : list elem) : nkind := match t with x :: _ => kind_of x | [] => kend end.

Theorem gen_inline : forall kend e t, kend = KRoadm \/ kend = KTrx ->
  add_inline (e :: t) =
  let* t' := add_inline t in
  if is_fib e && g_inline_wanted (next_kind kend t) then
    let* _ := kind_check t in
    Ok (e :: new_amp (g_inline_uid (el_name e)) (g_inline_multi (has_kind true t) (has_kind false t)) :: t')
  else Ok (e :: t').
Proof.
  intros kend e t Hk. cbn [add_inline]. destruct (add_inline t) as [t'|err]; [|reflexivity]. cbn [bind].
  destruct e as [f|n q|a]; cbn [is_fib andb]; try reflexivity.
  destruct t as [|[g|n q|a] r]; cbn [next_kind kind_of].
  - destruct Hk; subst kend; reflexivity.
  - destruct (f_raman g); reflexivity.
  - reflexivity.
  - destruct (a_multi a); reflexivity.
Qed.

(* ------------------------------------------------------------------ add_connector_loss *)
Theorem gen_conn_fib : forall c f k,
  conn_fib c f (isinst k KFused) =
  mkFib (f_name f) (f_raman f) (f_len f) (f_lc f) (Some (g_conn_in c (f_cin f))) (Some (g_conn_out c (f_cout f) k))
        (f_att f) (f_lumped f).
Proof. intros c f k. unfold conn_fib, g_conn_in, g_conn_out. destruct (isinst k KFused); reflexivity. Qed.

Theorem gen_next_is_fus : forall kend t, kend = KRoadm \/ kend = KTrx ->
  next_is_fus t = isinst (next_kind kend t) KFused.
Proof.
  intros kend [|[f|n q|a] r] Hk; cbn.
  - destruct Hk; subst; reflexivity.
  - destruct (f_raman f); reflexivity.
  - reflexivity.
  - destruct (a_multi a); reflexivity.
Qed.

(* ------------------------------------------------------------------ add_fiber_padding *)
Theorem gen_pad_needed : forall c sl, g_pad_needed (c_pad c) sl = Qltb sl (c_pad c).
Proof. reflexivity. Qed.

Theorem gen_pad_att : forall att pad sl, (g_pad_att att pad sl == att + g_pad_incr pad sl)%Q.
Proof. intros. unfold g_pad_att, g_pad_incr. ring. Qed.

(* a span that starts with a fibre and ends with a non-Raman fibre: padded iff the source's test says so, by the
   source's increment, at the first fibre *)
Theorem gen_pad_run : forall c g t f, last (Fib g :: t) dflt = Fib f -> f_raman f = false ->
  pad_run c (Fib g :: t) =
  Ok (if g_pad_needed (c_pad c) (span_sl c (Fib g :: t))
      then bump (Fib g) (g_pad_incr (c_pad c) (span_sl c (Fib g :: t))) :: t
      else Fib g :: t).
Proof.
  intros c g t f Hl Hr. unfold pad_run. rewrite Hl, Hr. rewrite gen_pad_needed.
  destruct (Qltb (span_sl c (Fib g :: t)) (c_pad c)); reflexivity.
Qed.

(* ------------------------------------------------------------------ prev_node_generator / next_node_generator *)
(* two neighbours x -> y of a line are in one span (no break between them) exactly when the backward walk from y steps
   on x and the forward walk from x steps on y *)
Theorem gen_span_link : forall x y, g_prev_link x y = negb (brk x y) /\ g_next_link y x = negb (brk x y).
Proof. intros [f|n q|a] [g|m r|b]; split; reflexivity. Qed.
