(* C18 — lemmas about the model of Model/Yang.v. *)
From Verif Require Import Prelude Model.YangPrecision Model.Yang.
From Coq Require Import Lia ZifyBool.
Open Scope Z_scope.

(* ------------------------------------------------------------------ dict primitives *)
Lemma jget_jset_same : forall k v o, jget k (jset k v o) = Some v.
Proof.
  intros k v o; induction o as [|[k' v'] t IH]; cbn.
  - now rewrite String.eqb_refl.
  - destruct (String.eqb k k') eqn:E; cbn; rewrite E; [reflexivity|exact IH].
Qed.

Lemma jget_jset_other : forall k k' v o, String.eqb k k' = false -> jget k (jset k' v o) = jget k o.
Proof.
  intros k k' v o Hne; induction o as [|[k2 v2] t IH]; cbn.
  - now rewrite Hne.
  - destruct (String.eqb k' k2) eqn:E; cbn.
    + apply String.eqb_eq in E; subst k2. now rewrite Hne.
    + destruct (String.eqb k k2); [reflexivity|exact IH].
Qed.

Lemma jget_jdel_other : forall k k' o, String.eqb k k' = false -> jget k (jdel k' o) = jget k o.
Proof.
  intros k k' o Hne; induction o as [|[k2 v2] t IH]; cbn; [reflexivity|].
  destruct (String.eqb k' k2) eqn:E; cbn.
  - apply String.eqb_eq in E; subst k2. now rewrite Hne.
  - destruct (String.eqb k k2); [reflexivity|exact IH].
Qed.

Lemma jget_jdel_same : forall k o, jget k (jdel k o) = None.
Proof.
  intros k o; induction o as [|[k2 v2] t IH]; cbn; [reflexivity|].
  destruct (String.eqb k k2) eqn:E; cbn; [exact IH|now rewrite E].
Qed.

(* ------------------------------------------------------------------ induction over JSON values *)
Section JsonInd.
  Context (P : json -> Prop).
  Context (HNull : P JNull) (HBool : forall b, P (JBool b)) (HNum : forall m d, P (JNum m d))
           (HStr : forall s, P (JStr s))
           (HArr : forall l, Forall P l -> P (JArr l))
           (HObj : forall o, Forall (fun kv => P (snd kv)) o -> P (JObj o)).
  Fixpoint json_ind' (j : json) : P j :=
    match j with
    | JNull => HNull
    | JBool b => HBool b
    | JNum m d => HNum m d
    | JStr s => HStr s
    | JArr l => HArr l ((fix go (l : list json) : Forall P l :=
                           match l with [] => Forall_nil _ | x :: t => Forall_cons x (json_ind' x) (go t) end) l)
    | JObj o => HObj o ((fix go (o : list (string * json)) : Forall (fun kv => P (snd kv)) o :=
                           match o with [] => Forall_nil _ | kv :: t => Forall_cons kv (json_ind' (snd kv)) (go t) end) o)
    end.
End JsonInd.

(* ------------------------------------------------------------------ None <-> [None] *)
(* a legacy document in which no list is the singleton [null] *)
Fixpoint legacy_nulls_ok (j : json) : bool :=
  match j with
  | JArr l => match l with [JNull] => false | _ => forallb legacy_nulls_ok l end
  | JObj o => forallb (fun kv => legacy_nulls_ok (snd kv)) o
  | _ => true
  end.
(* a YANG document: null occurs only as the single element of a list, and never as [[null]] *)
Fixpoint yang_nulls_ok (j : json) : bool :=
  match j with
  | JNull => false
  | JArr l => match l with
              | [JNull] => true
              | [JArr [JNull]] => false
              | _ => forallb yang_nulls_ok l
              end
  | JObj o => forallb (fun kv => yang_nulls_ok (snd kv)) o
  | _ => true
  end.

Lemma map_id_Forall : forall {A} (f : A -> A) l, Forall (fun x => f x = x) l -> map f l = l.
Proof. intros A f l H; induction H; cbn; [reflexivity|congruence]. Qed.

Lemma map_kv_id_Forall : forall (f : json -> json) (o : obj),
  Forall (fun kv => f (snd kv) = snd kv) o -> map (fun kv => (fst kv, f (snd kv))) o = o.
Proof. intros f o H; induction H as [|[k v] t Hx Ht IH]; cbn in *; [reflexivity|congruence]. Qed.

Lemma map_kv_id_Forall' : forall (o : obj) (f : string -> json -> json),
  Forall (fun kv => f (fst kv) (snd kv) = snd kv) o -> map (fun kv => (fst kv, f (fst kv) (snd kv))) o = o.
Proof. intros o f H; induction H as [|[k v] t Hx Ht IH]; cbn in *; [reflexivity|congruence]. Qed.

Lemma n2e_arr : forall l, l <> [JNull] -> none_to_empty (JArr l) = JArr (map none_to_empty l).
Proof. intros [|x [|y t]] H; try reflexivity; destruct x; try reflexivity; now elim H. Qed.
Lemma e2n_arr : forall l, l <> [JNull] -> empty_to_none (JArr l) = JArr (map empty_to_none l).
Proof. intros [|x [|y t]] H; try reflexivity; destruct x; try reflexivity; now elim H. Qed.
Lemma legacy_nulls_arr : forall l, l <> [JNull] -> legacy_nulls_ok (JArr l) = forallb legacy_nulls_ok l.
Proof. intros [|x [|y t]] H; try reflexivity; destruct x; try reflexivity; now elim H. Qed.
Lemma yang_nulls_arr : forall l, l <> [JNull] -> l <> [JArr [JNull]] ->
  yang_nulls_ok (JArr l) = forallb yang_nulls_ok l.
Proof.
  intros [|x [|y t]] H H2; try reflexivity; destruct x; try reflexivity; try (now elim H).
  all: destruct l as [|a [|b r]]; try reflexivity; destruct a; try reflexivity; now elim H2.
Qed.

Lemma n2e_not_single_null : forall l, l <> [JNull] -> map none_to_empty l <> [JNull].
Proof.
  intros [|x [|y t]] H; cbn; try discriminate.
  destruct x; cbn; try discriminate.
  destruct l as [|a [|b r]]; try discriminate; destruct a; discriminate.
Qed.

Theorem e2n_n2e : forall j, legacy_nulls_ok j = true -> empty_to_none (none_to_empty j) = j.
Proof.
  induction j as [| | | |l IH|o IH] using json_ind'; intros W; try reflexivity.
  - (* array *)
    assert (Hl : l <> [JNull]) by (intro; subst; cbn in W; discriminate).
    rewrite legacy_nulls_arr in W by exact Hl.
    rewrite n2e_arr by exact Hl.
    rewrite e2n_arr by (apply n2e_not_single_null; exact Hl).
    rewrite map_map. f_equal. apply map_id_Forall.
    rewrite forallb_forall in W. rewrite Forall_forall in *. intros x Hx. apply IH; auto.
  - (* object *)
    cbn in *. rewrite map_map. cbn. f_equal.
    apply (map_kv_id_Forall (fun v => empty_to_none (none_to_empty v))).
    rewrite forallb_forall in W. rewrite Forall_forall in *. intros kv Hkv. apply IH; auto.
Qed.

Lemma e2n_not_single_null : forall l,
  l <> [JNull] -> l <> [JArr [JNull]] -> forallb yang_nulls_ok l = true -> map empty_to_none l <> [JNull].
Proof.
  intros [|x [|y t]] H1 H2 W; cbn; try discriminate.
  cbn in W. rewrite andb_true_r in W.
  destruct x; cbn; try discriminate.
  destruct l as [|a [|b r]]; try discriminate; destruct a; try discriminate. now elim H2.
Qed.

Lemma single_null_dec : forall l : list json, {l = [JNull]} + {l <> [JNull]}.
Proof.
  intros [|x [|y t]]; try (right; discriminate).
  destruct x; try (right; discriminate). now left.
Defined.

Theorem n2e_e2n : forall y, yang_nulls_ok y = true -> none_to_empty (empty_to_none y) = y.
Proof.
  induction y as [| | | |l IH|o IH] using json_ind'; intros W; try reflexivity; try discriminate.
  - destruct (single_null_dec l) as [E|Hl]; [subst; reflexivity|].
    assert (H2 : l <> [JArr [JNull]]) by (intro; subst; cbn in W; discriminate).
    rewrite yang_nulls_arr in W by assumption.
    rewrite e2n_arr by exact Hl.
    rewrite n2e_arr by (apply e2n_not_single_null; assumption).
    rewrite map_map. f_equal. apply map_id_Forall.
    rewrite forallb_forall in W. rewrite Forall_forall in *. intros x Hx. apply IH; auto.
  - cbn in *. rewrite map_map. cbn. f_equal.
    apply (map_kv_id_Forall (fun v => none_to_empty (empty_to_none v))).
    rewrite forallb_forall in W. rewrite Forall_forall in *. intros kv Hkv. apply IH; auto.
Qed.

(* ------------------------------------------------------------------ other_name expansion *)
(* the entry a name must map to: the declared entry without its alias list, reporting that name *)
Definition alias_entry (e : obj) (n : string) : obj := jdel "other_name" (jset "type_variety" (JStr n) e).

Lemma lookup_last_notin : forall (f : string -> obj) names n,
  ~ In n names -> lookup_last n (map (fun x => (x, f x)) names) = None.
Proof.
  intros f names n; induction names as [|a t IH]; intros H; [reflexivity|].
  cbn. rewrite IH by (intro; apply H; now right).
  destruct (String.eqb n a) eqn:E; [|reflexivity].
  apply String.eqb_eq in E. exfalso. apply H. now left.
Qed.

Lemma lookup_last_map : forall (f : string -> obj) names n,
  In n names -> lookup_last n (map (fun x => (x, f x)) names) = Some (f n).
Proof.
  intros f names n; induction names as [|a t IH]; intros H; [contradiction|].
  cbn. destruct (in_dec string_dec n t) as [Ht|Ht].
  - now rewrite IH.
  - destruct H as [->|H]; [|contradiction].
    rewrite lookup_last_notin by exact Ht. now rewrite String.eqb_refl.
Qed.

Theorem alias_spec_edfa : forall e names l,
  jhas "other_name" e = true -> alias_names e = Ok names -> expand_edfa e = Ok l ->
  forall n, In n names ->
    lookup_last n l = Some (alias_entry e n)
    /\ jget "type_variety" (alias_entry e n) = Some (JStr n)
    /\ jget "other_name" (alias_entry e n) = None
    /\ (forall k, String.eqb k "type_variety" = false -> String.eqb k "other_name" = false ->
                  jget k (alias_entry e n) = jget k e).
Proof.
  intros e names l Hh Hn Hx n Hin. unfold expand_edfa in Hx. rewrite Hh, Hn in Hx. cbn in Hx.
  injection Hx as <-. unfold alias_entry. repeat split.
  - exact (lookup_last_map (fun n => jdel "other_name" (jset "type_variety" (JStr n) e)) names n Hin).
  - rewrite jget_jdel_other by reflexivity. apply jget_jset_same.
  - apply jget_jdel_same.
  - intros k H1 H2. rewrite jget_jdel_other by exact H2. apply jget_jset_other; exact H1.
Qed.

Lemma jset_jdel_comm : forall k k' v o, String.eqb k k' = false ->
  jset k v (jdel k' o) = jdel k' (jset k v o).
Proof.
  intros k k' v o Hne. assert (Hne' : String.eqb k' k = false) by (rewrite String.eqb_sym; exact Hne).
  induction o as [|[k2 v2] t IH]; cbn.
  - now rewrite Hne'.
  - destruct (String.eqb k' k2) eqn:E1; destruct (String.eqb k k2) eqn:E2; cbn; rewrite ?E1, ?E2; cbn.
    + apply String.eqb_eq in E1, E2. subst. now rewrite String.eqb_refl in Hne.
    + exact IH.
    + rewrite E1. reflexivity.
    + rewrite E1, IH. reflexivity.
Qed.

(* the Transceiver branch (after the fix of F5) builds the same entries as the Edfa branch *)
Lemma expand_trx_eq : forall e, expand_trx e = expand_edfa e.
Proof.
  intros e. unfold expand_trx, expand_edfa. destruct (jhas "other_name" e); [|reflexivity].
  destruct (alias_names e) as [names|]; [|reflexivity]. cbn [bind]. f_equal.
  apply map_ext. intros n. f_equal. now apply jset_jdel_comm.
Qed.

Theorem alias_spec_trx : forall e names l,
  jhas "other_name" e = true -> alias_names e = Ok names -> expand_trx e = Ok l ->
  forall n, In n names ->
    lookup_last n l = Some (alias_entry e n)
    /\ jget "type_variety" (alias_entry e n) = Some (JStr n)
    /\ jget "other_name" (alias_entry e n) = None
    /\ (forall k, String.eqb k "type_variety" = false -> String.eqb k "other_name" = false ->
                  jget k (alias_entry e n) = jget k e).
Proof. intros e names l Hh Hn Hx. rewrite expand_trx_eq in Hx. exact (alias_spec_edfa e names l Hh Hn Hx). Qed.

(* ------------------------------------------------------------------ decimal text: printing and parsing *)
Lemma pow10_pos : forall n, 0 < pow10 n.
Proof. intros n; unfold pow10; apply Z.pow_pos_nonneg; lia. Qed.

Lemma pow10_S : forall n, pow10 (S n) = 10 * pow10 n.
Proof. intros n; unfold pow10. rewrite Nat2Z.inj_succ, Z.pow_succ_r by lia. reflexivity. Qed.

Lemma pow10_add : forall a b, pow10 (a + b) = pow10 a * pow10 b.
Proof. intros a b; unfold pow10. rewrite Nat2Z.inj_add, Z.pow_add_r by lia. reflexivity. Qed.

Definition is_digit (c : ascii) : Prop := exists v, digit_val c = Some v /\ 0 <= v <= 9.

Lemma digit_cases : forall d, 0 <= d <= 9 ->
  d = 0 \/ d = 1 \/ d = 2 \/ d = 3 \/ d = 4 \/ d = 5 \/ d = 6 \/ d = 7 \/ d = 8 \/ d = 9.
Proof. intros; lia. Qed.

Lemma digit_val_char : forall d, 0 <= d <= 9 -> digit_val (digit_char d) = Some d.
Proof.
  intros d H. destruct (digit_cases d H) as [->|[->|[->|[->|[->|[->|[->|[->|[->| ->]]]]]]]]]; reflexivity.
Qed.

Lemma digit_char_not_special : forall d, 0 <= d <= 9 ->
  Ascii.eqb (digit_char d) dot = false /\ Ascii.eqb (digit_char d) minus = false /\ Ascii.eqb (digit_char d) plus = false.
Proof.
  intros d H. destruct (digit_cases d H) as [->|[->|[->|[->|[->|[->|[->|[->|[->| ->]]]]]]]]]; repeat split; reflexivity.
Qed.

Definition digit_like (c : ascii) : Prop :=
  (exists v, digit_val c = Some v) /\ Ascii.eqb c dot = false /\ Ascii.eqb c minus = false /\ Ascii.eqb c plus = false.

Lemma digit_char_like : forall d, 0 <= d <= 9 -> digit_like (digit_char d).
Proof.
  intros d H. split; [exists d; now apply digit_val_char|now apply digit_char_not_special].
Qed.

Lemma mod10_range : forall n, 0 <= n mod 10 <= 9.
Proof. intros n; pose proof (Z.mod_pos_bound n 10); lia. Qed.

Lemma digs_like : forall k n, Forall digit_like (digs k n).
Proof.
  induction k as [|k IH]; intros n; cbn; [constructor|].
  apply Forall_app; split; [apply IH|]. constructor; [|constructor]. apply digit_char_like, mod10_range.
Qed.

Lemma digs_length : forall k n, length (digs k n) = k.
Proof. induction k as [|k IH]; intros n; cbn; [reflexivity|]. rewrite app_length, IH; cbn; lia. Qed.

Lemma val_acc_app : forall a b acc,
  val_acc acc (a ++ b) = match val_acc acc a with Some v => val_acc v b | None => None end.
Proof.
  induction a as [|c t IH]; intros b acc; cbn; [reflexivity|].
  destruct (digit_val c); [apply IH|reflexivity].
Qed.

Lemma val_acc_digs : forall k n acc, val_acc acc (digs k n) = Some (acc * pow10 k + n mod pow10 k).
Proof.
  induction k as [|k IH]; intros n acc.
  - cbn. unfold pow10; cbn. rewrite Z.mod_1_r. f_equal; lia.
  - cbn [digs]. rewrite val_acc_app, IH. cbn [val_acc]. rewrite digit_val_char by apply mod10_range.
    f_equal. rewrite pow10_S.
    rewrite (Z.rem_mul_r n 10 (pow10 k)) by (try lia; apply pow10_pos). ring.
Qed.

Lemma ndigits_fuel_bound : forall f n, 0 <= n -> n < pow10 (S f) -> n < pow10 (ndigits_fuel f n).
Proof.
  induction f as [|f IH]; intros n H0 H; cbn [ndigits_fuel]; [exact H|].
  destruct (n <? 10) eqn:E; [unfold pow10; cbn; lia|].
  assert (Hq : n / 10 < pow10 (S f)).
  { rewrite (pow10_S (S f)) in H. apply Z.div_lt_upper_bound; lia. }
  specialize (IH (n / 10) ltac:(apply Z.div_pos; lia) Hq).
  rewrite pow10_S. pose proof (Z.div_mod n 10 ltac:(lia)). pose proof (mod10_range n). lia.
Qed.

Lemma ndigits_bound : forall n, 0 <= n -> n < pow10 (ndigits n).
Proof.
  intros n H. unfold ndigits. apply ndigits_fuel_bound; [exact H|].
  destruct (Z.eq_dec n 0) as [->|Hn]; [unfold pow10; cbn; lia|].
  assert (Hl : 0 <= Z.log2 n) by apply Z.log2_nonneg.
  pose proof (Z.log2_spec n ltac:(lia)) as [_ Hs].
  unfold pow10. rewrite Nat2Z.inj_succ, Z2Nat.id by lia.
  eapply Z.lt_le_trans; [exact Hs|].
  apply Z.pow_le_mono_l; lia.
Qed.

Lemma ndigits_pos : forall n, (1 <= ndigits n)%nat.
Proof.
  intros n; unfold ndigits. destruct (Z.to_nat (Z.log2 n)); cbn; [lia|]. destruct (n <? 10); lia.
Qed.

Lemma val_nat_str : forall n acc, 0 <= n -> val_acc acc (nat_str n) = Some (acc * pow10 (ndigits n) + n).
Proof.
  intros n acc H. unfold nat_str. rewrite val_acc_digs. f_equal. f_equal.
  apply Z.mod_small. split; [exact H|now apply ndigits_bound].
Qed.

Lemma split_dot_like : forall l r, Forall digit_like l ->
  split_dot (l ++ r) = (l ++ fst (split_dot r), snd (split_dot r)).
Proof.
  induction l as [|c t IH]; intros r H; cbn.
  - now destruct (split_dot r).
  - inversion H as [|? ? Hc Ht]; subst. destruct Hc as [_ [Hd _]]. rewrite Hd.
    rewrite (IH r Ht). reflexivity.
Qed.

Lemma strip_sign_like : forall l r, Forall digit_like l -> l <> [] -> strip_sign (l ++ r) = (false, l ++ r).
Proof.
  intros [|c t] r H Hn; [now elim Hn|]. cbn. inversion H as [|? ? Hc Ht]; subst.
  destruct Hc as [_ [_ [Hm Hp]]]. now rewrite Hm, Hp.
Qed.

Lemma nat_str_like : forall n, Forall digit_like (nat_str n).
Proof. intros; apply digs_like. Qed.
Lemma nat_str_nonempty : forall n, nat_str n <> [].
Proof.
  intros n H. apply (f_equal (@length _)) in H. unfold nat_str in H. rewrite digs_length in H.
  pose proof (ndigits_pos n). cbn in H. lia.
Qed.

Lemma strip_sign_signed : forall neg l r, Forall digit_like l -> l <> [] ->
  strip_sign (sign_str neg ++ l ++ r) = (neg, l ++ r).
Proof.
  intros [|] l r H Hn; cbn [sign_str app].
  - cbn. reflexivity.
  - now apply strip_sign_like.
Qed.

(* float(s) on the text the formatter produces *)
Lemma py_float_fixed : forall neg a d, 0 <= a ->
  py_float (string_of_list_ascii (fixed_str neg a d)) = Ok (norm_float (if neg then - a else a) d).
Proof.
  intros neg a d Ha. unfold py_float, fixed_str.
  rewrite list_ascii_of_string_of_list_ascii.
  rewrite strip_sign_signed by (apply nat_str_like || apply nat_str_nonempty).
  rewrite split_dot_like by apply nat_str_like.
  cbn [split_dot]. rewrite Ascii.eqb_refl. cbn [fst snd]. rewrite app_nil_r.
  assert (Hne : nat_str (a / pow10 d) ++ digs d (a mod pow10 d) <> []).
  { intro H. apply app_eq_nil in H. destruct H as [H _]. now apply nat_str_nonempty in H. }
  destruct (nat_str (a / pow10 d) ++ digs d (a mod pow10 d)) eqn:E; [now elim Hne|]. rewrite <- E.
  rewrite val_acc_app, val_nat_str by (apply Z.div_pos; [lia|apply pow10_pos]).
  rewrite val_acc_digs, digs_length. f_equal. f_equal.
  pose proof (pow10_pos d). pose proof (pow10_pos (ndigits (a / pow10 d))).
  rewrite Z.mod_mod by lia. rewrite Z.mul_0_l, Z.add_0_l.
  assert (a / pow10 d * pow10 d + a mod pow10 d = a) as -> by (pose proof (Z.div_mod a (pow10 d)); lia).
  reflexivity.
Qed.

(* ---- trailing zeros ---- *)
Lemma strip0_SS : forall a p,
  strip0 a (S (S p)) = if a mod 10 =? 0 then strip0 (a / 10) (S p) else (a, S (S p)).
Proof. reflexivity. Qed.

Lemma strip0_pad : forall k a d, (1 <= d)%nat -> strip0 (a * pow10 k) (d + k) = strip0 a d.
Proof.
  induction k as [|k IH]; intros a d Hd.
  - unfold pow10; cbn. rewrite Z.mul_1_r, Nat.add_0_r. reflexivity.
  - replace (d + S k)%nat with (S (d + k)) by lia.
    destruct (d + k)%nat as [|p] eqn:E; [lia|].
    rewrite strip0_SS, pow10_S.
    replace (a * (10 * pow10 k)) with (a * pow10 k * 10) by ring.
    rewrite Z.mod_mul, Z.div_mul by lia. cbn [Z.eqb]. rewrite <- E. now apply IH.
Qed.

Lemma strip0_spec : forall d a a' d', strip0 a d = (a', d') ->
  (d' <= d)%nat /\ ((1 <= d)%nat -> (1 <= d')%nat) /\ a = a' * pow10 (d - d') /\ strip0 a' d' = (a', d').
Proof.
  induction d as [|d IH]; intros a a' d' H.
  - cbn in H. injection H as <- <-. repeat split; try lia. unfold pow10; cbn; lia.
  - destruct d as [|p].
    + cbn in H. injection H as <- <-. repeat split; try lia. unfold pow10; cbn; lia.
    + rewrite strip0_SS in H. destruct (a mod 10 =? 0) eqn:E.
      * destruct (IH _ _ _ H) as (H1 & H2 & H3 & H4). repeat split; try lia; [|exact H4].
        specialize (H2 ltac:(lia)).
        replace (S (S p) - d')%nat with (S (S p - d')) by lia. rewrite pow10_S.
        pose proof (Z.div_mod a 10 ltac:(lia)). lia.
      * injection H as <- <-. repeat split; try lia.
        -- rewrite Nat.sub_diag. unfold pow10; cbn; lia.
        -- rewrite strip0_SS, E. reflexivity.
Qed.

(* a float as the model represents it *)
Definition wf_float (m : Z) (d : nat) : Prop := (1 <= d)%nat /\ strip0 (Z.abs m) d = (Z.abs m, d).

Lemma norm_float_wf : forall m d, wf_float m d -> norm_float m d = JNum m d.
Proof.
  intros m d [Hd Hs]. unfold norm_float. destruct d as [|p]; [lia|]. rewrite Hs.
  destruct (m <? 0) eqn:E; f_equal; lia.
Qed.

Lemma norm_float_is_wf : forall m d m' d', (1 <= d)%nat -> norm_float m d = JNum m' d' ->
  wf_float m' d' /\ (d' <= d)%nat.
Proof.
  intros m d m' d' Hd H. unfold norm_float in H. destruct d as [|p]; [lia|].
  destruct (strip0 (Z.abs m) (S p)) as [a dd] eqn:E.
  destruct (strip0_spec _ _ _ _ E) as (H1 & H2 & H3 & H4).
  assert (Ha : 0 <= a).
  { pose proof (pow10_pos (S p - dd)). pose proof (Z.abs_nonneg m). nia. }
  injection H as <- <-. split; [|exact H1]. split; [apply H2; lia|].
  destruct (m <? 0); [rewrite Z.abs_opp|]; rewrite Z.abs_eq by exact Ha; exact H4.
Qed.

(* ---- the value a number has after one conversion to text with fd fraction digits and back ---- *)
Definition quant_pair (fd : nat) (m : Z) (d : nat) : Z * nat :=
  if (d =? 0)%nat || repr_has_e m d || (Z.of_nat fd <? 17) then (round_he (Z.abs m) d fd, fd)
  else trunc_to (Z.abs m) d fd.
Definition quant (fd : nat) (m : Z) (d : nat) : json :=
  let '(a1, d1) := quant_pair fd m d in norm_float (if m <? 0 then - a1 else a1) d1.

Lemma round_he_nonneg : forall a d fd, 0 <= a -> 0 <= round_he a d fd.
Proof.
  intros a d fd H. unfold round_he. destruct (d <=? fd)%nat.
  - pose proof (pow10_pos (fd - d)). nia.
  - pose proof (pow10_pos (d - fd)) as Hp.
    assert (0 <= a / pow10 (d - fd)) by (apply Z.div_pos; lia).
    destruct (2 * (a mod pow10 (d - fd)) <? pow10 (d - fd)); [lia|].
    destruct (pow10 (d - fd) <? 2 * (a mod pow10 (d - fd))); [lia|].
    destruct (Z.even (a / pow10 (d - fd))); lia.
Qed.

(* round_he is a nearest rounding: the error is at most half a unit of the last kept digit *)
Lemma round_he_nearest : forall a d fd, 0 <= a -> (fd < d)%nat ->
  2 * Z.abs (round_he a d fd * pow10 (d - fd) - a) <= pow10 (d - fd).
Proof.
  intros a d fd H Hlt. unfold round_he. destruct (d <=? fd)%nat eqn:E; [apply Nat.leb_le in E; lia|].
  pose proof (pow10_pos (d - fd)) as Hp. set (p := pow10 (d - fd)) in *.
  pose proof (Z.div_mod a p ltac:(lia)) as Hdm. pose proof (Z.mod_pos_bound a p Hp) as Hb.
  destruct (2 * (a mod p) <? p) eqn:E1; [lia|].
  destruct (p <? 2 * (a mod p)) eqn:E2; [lia|].
  destruct (Z.even (a / p)); lia.
Qed.

Lemma quant_pair_nonneg : forall fd m d, 0 <= fst (quant_pair fd m d).
Proof.
  intros fd m d. unfold quant_pair.
  destruct ((d =? 0)%nat || repr_has_e m d || (Z.of_nat fd <? 17)); cbn [fst].
  - apply round_he_nonneg, Z.abs_nonneg.
  - unfold trunc_to. destruct (d <=? fd)%nat; cbn [fst]; [apply Z.abs_nonneg|].
    apply Z.div_pos; [apply Z.abs_nonneg|apply pow10_pos].
Qed.

Lemma quant_pair_digits : forall fd m d, (1 <= fd)%nat ->
  (1 <= snd (quant_pair fd m d) <= fd)%nat.
Proof.
  intros fd m d Hf. unfold quant_pair.
  destruct ((d =? 0)%nat || repr_has_e m d || (Z.of_nat fd <? 17)) eqn:Eb; cbn [snd]; [lia|].
  assert (Hd : (1 <= d)%nat) by (destruct d; [cbn in Eb; discriminate|lia]).
  unfold trunc_to. destruct (d <=? fd)%nat eqn:E; cbn [snd]; [apply Nat.leb_le in E; lia|lia].
Qed.

Lemma sign_abs : forall m, (if m <? 0 then - Z.abs m else Z.abs m) = m.
Proof. intros m; destruct (m <? 0) eqn:E; lia. Qed.

Lemma norm_float_pad : forall m d k, wf_float m d -> norm_float (m * pow10 k) (d + k) = JNum m d.
Proof.
  intros m d k [Hd Hs]. unfold norm_float. destruct (d + k)%nat as [|p] eqn:E; [lia|]. rewrite <- E.
  pose proof (pow10_pos k) as Hp.
  rewrite Z.abs_mul, (Z.abs_eq (pow10 k)) by lia. rewrite strip0_pad, Hs by exact Hd.
  assert ((m * pow10 k <? 0) = (m <? 0)) as -> by (destruct (m <? 0) eqn:Em; nia).
  f_equal. apply sign_abs.
Qed.

(* a float with at most fd digits is not changed *)
Lemma quant_exact : forall fd m d, wf_float m d -> (d <= fd)%nat -> quant fd m d = JNum m d.
Proof.
  intros fd m d W Hle. unfold quant, quant_pair.
  destruct ((d =? 0)%nat || repr_has_e m d || (Z.of_nat fd <? 17)).
  - unfold round_he. apply Nat.leb_le in Hle. rewrite Hle. apply Nat.leb_le in Hle.
    assert ((if m <? 0 then - (Z.abs m * pow10 (fd - d)) else Z.abs m * pow10 (fd - d)) = m * pow10 (fd - d)) as ->
      by (destruct (m <? 0) eqn:E; nia).
    replace fd with (d + (fd - d))%nat at 2 by lia. now apply norm_float_pad.
  - unfold trunc_to. apply Nat.leb_le in Hle. rewrite Hle. rewrite sign_abs. now apply norm_float_wf.
Qed.

Lemma quant_is_wf : forall fd m d m' d', (1 <= fd)%nat -> quant fd m d = JNum m' d' ->
  wf_float m' d' /\ (d' <= fd)%nat.
Proof.
  intros fd m d m' d' Hf H. unfold quant in H.
  pose proof (quant_pair_digits fd m d Hf) as Hq.
  destruct (quant_pair fd m d) as [a1 d1]. cbn [snd] in Hq.
  destruct (norm_float_is_wf _ _ _ _ (proj1 Hq) H) as [W Hle]. split; [exact W|lia].
Qed.

(* rounded once: converting the converted value again changes nothing *)
Lemma quant_idempotent : forall fd m d m' d', (1 <= fd)%nat -> quant fd m d = JNum m' d' ->
  quant fd m' d' = JNum m' d'.
Proof. intros fd m d m' d' Hf H. destruct (quant_is_wf _ _ _ _ _ Hf H). now apply quant_exact. Qed.

Lemma quant_is_num : forall fd m d, exists m' d', quant fd m d = JNum m' d'.
Proof.
  intros fd m d. unfold quant. destruct (quant_pair fd m d) as [a1 d1]. unfold norm_float.
  destruct d1; [eauto|]. destruct (strip0 _ _); eauto.
Qed.

(* ---- str(PrettyFloat(x, fd)) followed by float() ---- *)
Lemma pretty_parse : forall fd m d, (1 <= fd <= 18)%nat ->
  exists s, pretty (Z.of_nat fd) m d = Ok s /\ py_float (string_of_list_ascii s) = Ok (quant fd m d).
Proof.
  intros fd m d Hf. unfold pretty.
  assert (E0 : (Z.of_nat fd <? 0) || (18 <? Z.of_nat fd) = false) by lia. rewrite E0.
  rewrite Nat2Z.id. unfold quant, quant_pair.
  destruct ((d =? 0)%nat || repr_has_e m d || (Z.of_nat fd <? 17)) eqn:Eb.
  - destruct fd as [|q]; [lia|].
    destruct (strip0 (round_he (Z.abs m) d (S q)) (S q)) as [a' d'] eqn:Es.
    eexists; split; [reflexivity|].
    pose proof (round_he_nonneg (Z.abs m) d (S q) (Z.abs_nonneg m)) as Hr.
    destruct (strip0_spec _ _ _ _ Es) as (H1 & H2 & H3 & H4).
    assert (Ha' : 0 <= a') by (pose proof (pow10_pos (S q - d')); nia).
    rewrite py_float_fixed by exact Ha'.
    (* both sides are norm_float of the same magnitude with the same sign test *)
    unfold norm_float at 2.
    assert (Habs : Z.abs (if m <? 0 then - round_he (Z.abs m) d (S q) else round_he (Z.abs m) d (S q))
                   = round_he (Z.abs m) d (S q)) by (destruct (m <? 0); lia).
    rewrite Habs, Es.
    specialize (H2 ltac:(lia)).
    assert (W : wf_float (if m <? 0 then - a' else a') d').
    { split; [exact H2|]. destruct (m <? 0); [rewrite Z.abs_opp|]; rewrite Z.abs_eq by exact Ha'; exact H4. }
    rewrite (norm_float_wf _ _ W). f_equal.
    destruct (m <? 0) eqn:Em;
      [|assert ((round_he (Z.abs m) d (S q) <? 0) = false) as -> by lia; reflexivity].
    destruct (Z.eq_dec a' 0) as [->|Hn0].
    + assert (round_he (Z.abs m) d (S q) = 0) as -> by lia. reflexivity.
    + assert (0 < round_he (Z.abs m) d (S q)) by (pose proof (pow10_pos (S q - d')); nia).
      assert ((- round_he (Z.abs m) d (S q) <? 0) = true) as -> by lia.
      assert ((- a' <? 0) = true) by lia. reflexivity.
  - destruct (trunc_to (Z.abs m) d fd) as [a1 d1] eqn:Et.
    destruct (strip0 a1 d1) as [a' d'] eqn:Es.
    eexists; split; [reflexivity|].
    assert (Hd : (1 <= d)%nat).
    { destruct d; [cbn in Eb; discriminate|lia]. }
    assert (Ha1 : 0 <= a1 /\ (1 <= d1)%nat).
    { unfold trunc_to in Et. destruct (d <=? fd)%nat; injection Et as <- <-.
      - split; [apply Z.abs_nonneg|lia].
      - split; [apply Z.div_pos; [apply Z.abs_nonneg|apply pow10_pos]|lia]. }
    destruct (strip0_spec _ _ _ _ Es) as (H1 & H2 & H3 & H4).
    assert (Ha' : 0 <= a') by (pose proof (pow10_pos (d1 - d')); nia).
    rewrite py_float_fixed by exact Ha'.
    unfold norm_float at 2. destruct d1 as [|p1]; [lia|].
    assert (Habs : Z.abs (if m <? 0 then - a1 else a1) = a1) by (destruct (m <? 0); lia).
    rewrite Habs, Es.
    specialize (H2 ltac:(lia)).
    assert (W : wf_float (if m <? 0 then - a' else a') d').
    { split; [exact H2|]. destruct (m <? 0); [rewrite Z.abs_opp|]; rewrite Z.abs_eq by exact Ha'; exact H4. }
    rewrite (norm_float_wf _ _ W). f_equal.
    destruct (m <? 0) eqn:Em; [|assert ((a1 <? 0) = false) as -> by lia; reflexivity].
    destruct (Z.eq_dec a' 0) as [->|Hn0].
    + assert (a1 = 0) as -> by lia. reflexivity.
    + assert (0 < a1) by (pose proof (pow10_pos (S p1 - d')); nia).
      assert ((- a1 <? 0) = true) as -> by lia.
      assert ((- a' <? 0) = true) by lia. reflexivity.
Qed.

(* ------------------------------------------------------------------ convert_dict / convert_back on documents *)
Lemma mapM_chain : forall {A B C} (f : A -> res B) (g : B -> res C) (q : A -> C) l,
  Forall (fun x => exists y, f x = Ok y /\ g y = Ok (q x)) l ->
  exists l', mapM f l = Ok l' /\ mapM g l' = Ok (map q l).
Proof.
  intros A B C f g q l H; induction H as [|x t (y & Hf & Hg) Ht (t' & IH1 & IH2)].
  - exists []. split; reflexivity.
  - exists (y :: t'). split; cbn.
    + fold (mapM f). rewrite Hf. cbn. rewrite IH1. reflexivity.
    + fold (mapM g). rewrite Hg. cbn. rewrite IH2. reflexivity.
Qed.

Arguments prec k : simpl never.
Arguments prec_d k : simpl never.

Definition dflt (c : option Z) : Z := match c with Some f => f | None => 2 end.
Lemma prec_d_dflt : forall k, prec_d k = dflt (prec k).
Proof. reflexivity. Qed.

(* what convert_back does to one element of a list *)
Definition cb_elem (c : option Z) (x : json) : res json :=
  match x with
  | JStr s => if in_none_m1 c then Ok x else py_float s
  | _ => convert_back_fd c x
  end.

Lemma cb_arr_eq : forall c l, convert_back_fd c (JArr l) = let* l' := mapM (cb_elem c) l in Ok (JArr l').
Proof. reflexivity. Qed.
Lemma cb_obj_eq : forall c o, convert_back_fd c (JObj o) =
  let* o' := mapM (fun kv => let* v' := convert_back_fd (prec (fst kv)) (snd kv) in Ok (fst kv, v')) o in Ok (JObj o').
Proof. reflexivity. Qed.
Lemma cd_arr_eq : forall fd l, convert_dict_fd fd (JArr l) = let* l' := mapM (convert_dict_fd fd) l in Ok (JArr l').
Proof. reflexivity. Qed.
Lemma cd_obj_eq : forall fd o, convert_dict_fd fd (JObj o) =
  let* o' := mapM (fun kv => let* v' := convert_dict_fd (prec_d (fst kv)) (snd kv) in Ok (fst kv, v')) o in Ok (JObj o').
Proof. reflexivity. Qed.

(* documents whose numbers sit in leaves that declare a precision: an int in an integer leaf (0 digits),
   any number in a decimal leaf (1..18 digits); strings only in string-typed or undeclared leaves *)
Definition num_loose (c : option Z) (d : nat) : bool :=
  match c with
  | None => false
  | Some f => if f =? 0 then (d =? 0)%nat else (0 <? f) && (f <=? 18)
  end.
Fixpoint doc_loose (c : option Z) (j : json) : bool :=
  match j with
  | JNum m d => num_loose c d
  | JStr _ => in_none_m1 c
  | JArr l => forallb (doc_loose c) l
  | JObj o => forallb (fun kv => doc_loose (prec (fst kv)) (snd kv)) o
  | _ => true
  end.
(* ... and whose floats have at most the declared number of digits *)
Definition wf_float_b (m : Z) (d : nat) : bool :=
  (1 <=? d)%nat && (let '(a, d') := strip0 (Z.abs m) d in (a =? Z.abs m) && (d' =? d)%nat).
Definition num_ok (c : option Z) (m : Z) (d : nat) : bool :=
  match c with
  | None => false
  | Some f => if f =? 0 then (d =? 0)%nat
              else (0 <? f) && (f <=? 18) && wf_float_b m d && (Z.of_nat d <=? f)
  end.
Fixpoint doc_ok (c : option Z) (j : json) : bool :=
  match j with
  | JNum m d => num_ok c m d
  | JStr _ => in_none_m1 c
  | JArr l => forallb (doc_ok c) l
  | JObj o => forallb (fun kv => doc_ok (prec (fst kv)) (snd kv)) o
  | _ => true
  end.

Lemma wf_float_b_spec : forall m d, wf_float_b m d = true <-> wf_float m d.
Proof.
  intros m d. unfold wf_float_b, wf_float. destruct (strip0 (Z.abs m) d) as [a d'] eqn:E. split.
  - intros H. apply andb_true_iff in H as [H1 H2]. apply andb_true_iff in H2 as [H2 H3].
    apply Nat.leb_le in H1. apply Z.eqb_eq in H2. apply Nat.eqb_eq in H3. subst. auto.
  - intros [H1 H2]. injection H2 as -> ->. apply Nat.leb_le in H1. rewrite H1, Z.eqb_refl, Nat.eqb_refl. reflexivity.
Qed.

(* the document after legacy -> text -> legacy: every number of a decimal leaf brought to the declared digits *)
Fixpoint quant_doc (c : option Z) (j : json) : json :=
  match j with
  | JNum m d => match c with
                | Some f => if 0 <? f then quant (Z.to_nat f) m d else j
                | None => j
                end
  | JArr l => JArr (map (quant_doc c) l)
  | JObj o => JObj (map (fun kv => (fst kv, quant_doc (prec (fst kv)) (snd kv))) o)
  | _ => j
  end.

Lemma cb_of_num : forall c m d, convert_back_fd c (JNum m d) = Ok (JNum m d).
Proof. reflexivity. Qed.

Lemma cd_cb_main : forall x c, doc_loose c x = true ->
  exists y, convert_dict_fd (dflt c) x = Ok y /\ convert_back_fd c y = Ok (quant_doc c x)
            /\ cb_elem c y = Ok (quant_doc c x).
Proof.
  induction x as [| | | |l IH|o IH] using json_ind'; intros c W.
  - exists JNull. repeat split; reflexivity.
  - exists (JBool b). repeat split; reflexivity.
  - (* number *)
    cbn in W. unfold num_loose in W. destruct c as [f|]; [|discriminate]. cbn [dflt quant_doc].
    destruct (f =? 0) eqn:Ef.
    + apply Z.eqb_eq in Ef. subst f. apply Nat.eqb_eq in W. subst d.
      exists (JNum m 0). repeat split; reflexivity.
    + apply andb_true_iff in W as [W1 W2].
      assert (Hf : (1 <= Z.to_nat f <= 18)%nat) by lia.
      destruct (pretty_parse (Z.to_nat f) m d Hf) as (s & Hs & Hp).
      rewrite Z2Nat.id in Hs by lia.
      assert (Hc : convert_dict_fd f (JNum m d) = Ok (JStr (string_of_list_ascii s))).
      { cbn. unfold cnum. destruct d; rewrite ?W1, Hs; reflexivity. }
      exists (JStr (string_of_list_ascii s)). rewrite W1. repeat split; [exact Hc| |].
      * cbn. rewrite W1. exact Hp.
      * unfold cb_elem, in_none_m1. assert ((f =? -1) = false) as -> by lia. exact Hp.
  - (* string *)
    cbn in W. exists (JStr s). repeat split; try reflexivity.
    + destruct c as [f|]; [|reflexivity]. cbn in W. cbn.
      assert ((0 <? f) = false) as -> by lia. assert ((f <? 0) = true) as -> by lia. reflexivity.
    + cbn. rewrite W. reflexivity.
  - (* array *)
    cbn in W.
    assert (Hall : Forall (fun x => exists y, convert_dict_fd (dflt c) x = Ok y /\ cb_elem c y = Ok (quant_doc c x)) l).
    { rewrite forallb_forall in W. rewrite Forall_forall in *. intros x Hx.
      destruct (IH x Hx c (W x Hx)) as (y & H1 & _ & H3). eauto. }
    destruct (mapM_chain _ _ _ _ Hall) as (l' & H1 & H2).
    exists (JArr l'). rewrite cd_arr_eq, H1. cbn [bind quant_doc]. split; [reflexivity|].
    assert (Hb : convert_back_fd c (JArr l') = Ok (JArr (map (quant_doc c) l))) by (rewrite cb_arr_eq, H2; reflexivity).
    split; [exact Hb|exact Hb].
  - (* object *)
    cbn in W.
    assert (Hall : Forall (fun kv => exists kv',
                (let* v' := convert_dict_fd (prec_d (fst kv)) (snd kv) in Ok (fst kv, v')) = Ok kv' /\
                (let* v' := convert_back_fd (prec (fst kv')) (snd kv') in Ok (fst kv', v'))
                  = Ok ((fun kv => (fst kv, quant_doc (prec (fst kv)) (snd kv))) kv)) o).
    { rewrite forallb_forall in W. rewrite Forall_forall in *. intros kv Hkv.
      destruct (IH kv Hkv (prec (fst kv)) (W kv Hkv)) as (y & H1 & H2 & _).
      exists (fst kv, y). rewrite prec_d_dflt, H1. cbn [fst snd bind]. rewrite H2. split; reflexivity. }
    destruct (mapM_chain _ _ _ _ Hall) as (o' & H1 & H2).
    exists (JObj o'). rewrite cd_obj_eq, H1. cbn [bind quant_doc]. split; [reflexivity|].
    assert (Hb : convert_back_fd c (JObj o') =
                 Ok (JObj (map (fun kv => (fst kv, quant_doc (prec (fst kv)) (snd kv))) o)))
      by (rewrite cb_obj_eq, H2; reflexivity).
    split; exact Hb.
Qed.

Lemma doc_ok_loose : forall x c, doc_ok c x = true -> doc_loose c x = true.
Proof.
  induction x as [| | | |l IH|o IH] using json_ind'; intros c W; try exact W; try reflexivity.
  - cbn in *. unfold num_ok in W. unfold num_loose. destruct c as [f|]; [|discriminate].
    destruct (f =? 0); [exact W|]. apply andb_true_iff in W as [W _]. apply andb_true_iff in W as [W _]. exact W.
  - cbn in *. rewrite forallb_forall in *. rewrite Forall_forall in IH. intros x Hx. apply IH; auto.
  - cbn in *. rewrite forallb_forall in *. rewrite Forall_forall in IH. intros kv Hkv. apply IH; auto.
Qed.

Lemma quant_doc_exact : forall x c, doc_ok c x = true -> quant_doc c x = x.
Proof.
  induction x as [| | | |l IH|o IH] using json_ind'; intros c W; try reflexivity.
  - cbn in *. unfold num_ok in W. destruct c as [f|]; [|reflexivity].
    destruct (0 <? f) eqn:E0; [|reflexivity].
    assert ((f =? 0) = false) as Ef by lia. rewrite Ef in W.
    apply andb_true_iff in W as [W W4]. apply andb_true_iff in W as [W W3]. apply andb_true_iff in W as [W1 W2].
    apply wf_float_b_spec in W3. apply quant_exact; [exact W3|lia].
  - cbn in *. f_equal. apply map_id_Forall. rewrite forallb_forall in W. rewrite Forall_forall in *.
    intros x Hx. apply IH; auto.
  - cbn in *. f_equal. apply (map_kv_id_Forall' o (fun k v => quant_doc (prec k) v)).
    rewrite forallb_forall in W. rewrite Forall_forall in *. intros kv Hkv. apply IH; auto.
Qed.

Lemma quant_doc_ok : forall x c, doc_loose c x = true -> doc_ok c (quant_doc c x) = true.
Proof.
  induction x as [| | | |l IH|o IH] using json_ind'; intros c W; try exact W; try reflexivity.
  - cbn in *. unfold num_loose in W. destruct c as [f|]; [|discriminate].
    destruct (f =? 0) eqn:Ef.
    + assert ((0 <? f) = false) as -> by lia. cbn. now rewrite Ef.
    + apply andb_true_iff in W as [W1 W2]. rewrite W1.
      destruct (quant_is_num (Z.to_nat f) m d) as (m' & d' & Hq). rewrite Hq.
      assert (Hf1 : (1 <= Z.to_nat f)%nat) by lia.
      destruct (quant_is_wf _ _ _ _ _ Hf1 Hq) as [Wf Hd].
      cbn. rewrite Ef, W1, W2. apply wf_float_b_spec in Wf. rewrite Wf. cbn. lia.
  - cbn in *. rewrite forallb_forall in *. rewrite Forall_forall in IH. intros x Hx.
    apply in_map_iff in Hx as (x0 & <- & Hx0). apply IH; auto.
  - cbn in *. rewrite forallb_forall in *. rewrite Forall_forall in IH. intros kv Hkv.
    apply in_map_iff in Hkv as (kv0 & <- & Hkv0). cbn [fst snd]. apply IH; auto.
Qed.

(* back (forth d) = d : every value already within its declared precision survives unchanged *)
Theorem cback_cdict_exact : forall x, doc_ok None x = true ->
  exists y, convert_dict x = Ok y /\ convert_back y = Ok x.
Proof.
  intros x W. destruct (cd_cb_main x None (doc_ok_loose _ _ W)) as (y & H1 & H2 & _).
  exists y. split; [exact H1|]. unfold convert_back. rewrite H2, quant_doc_exact by exact W. reflexivity.
Qed.

(* more digits than declared: rounded once — the result is within the declared precision, and a second
   conversion there and back leaves it unchanged *)
Theorem cback_cdict_rounds_once : forall x, doc_loose None x = true ->
  exists y x', convert_dict x = Ok y /\ convert_back y = Ok x' /\ x' = quant_doc None x /\ doc_ok None x' = true /\
               exists y', convert_dict x' = Ok y' /\ convert_back y' = Ok x'.
Proof.
  intros x W. destruct (cd_cb_main x None W) as (y & H1 & H2 & _).
  exists y, (quant_doc None x). repeat split; try assumption.
  - now apply quant_doc_ok.
  - apply cback_cdict_exact. now apply quant_doc_ok.
Qed.

(* hence the conversion to text is idempotent *)
Corollary cdict_idempotent : forall x, doc_ok None x = true ->
  exists y x', convert_dict x = Ok y /\ convert_back y = Ok x' /\ convert_dict x' = Ok y.
Proof.
  intros x W. destruct (cback_cdict_exact x W) as (y & H1 & H2). exists y, x. auto.
Qed.

(* ------------------------------------------------------------------ more dict lemmas *)
Definition keys (o : obj) : list string := map fst o.

Lemma jget_none_notin : forall k o, jget k o = None <-> ~ In k (keys o).
Proof.
  intros k o; induction o as [|[k' v] t IH]; cbn; [tauto|].
  destruct (String.eqb k k') eqn:E.
  - apply String.eqb_eq in E. subst. split; [discriminate|intros H; elim H; now left].
  - apply String.eqb_neq in E. rewrite IH. split; [intros H [H1|H1]; [congruence|auto]|intros H H1; apply H; now right].
Qed.

Lemma jdel_notin : forall k o, jget k o = None -> jdel k o = o.
Proof.
  intros k o; induction o as [|[k' v] t IH]; cbn; [reflexivity|].
  destruct (String.eqb k k'); [discriminate|]. intros H. now rewrite IH.
Qed.

Lemma jset_notin : forall k v o, jget k o = None -> jset k v o = o ++ [(k, v)].
Proof.
  intros k v o; induction o as [|[k' v'] t IH]; cbn; [reflexivity|].
  destruct (String.eqb k k'); [discriminate|]. intros H. now rewrite IH.
Qed.

Lemma jget_app : forall k a b, jget k (a ++ b) = match jget k a with Some v => Some v | None => jget k b end.
Proof.
  intros k a b; induction a as [|[k' v] t IH]; cbn; [reflexivity|].
  destruct (String.eqb k k'); [reflexivity|exact IH].
Qed.

Lemma jdel_app : forall k a b, jdel k (a ++ b) = jdel k a ++ jdel k b.
Proof.
  intros k a b; induction a as [|[k' v] t IH]; cbn; [reflexivity|].
  destruct (String.eqb k k'); [exact IH|cbn; now rewrite IH].
Qed.

Lemma jget_last : forall k v a, jget k a = None -> jget k (a ++ [(k, v)]) = Some v.
Proof. intros k v a H. rewrite jget_app, H. cbn. now rewrite String.eqb_refl. Qed.

Lemma jdel_last : forall k v a, jget k a = None -> jdel k (a ++ [(k, v)]) = a.
Proof.
  intros k v a H. rewrite jdel_app, (jdel_notin _ _ H). cbn. rewrite String.eqb_refl. apply app_nil_r.
Qed.

Lemma jset_app_notin : forall k v a b, jget k a = None -> jset k v (a ++ b) = a ++ jset k v b.
Proof.
  intros k v a b; induction a as [|[k' v'] t IH]; cbn; [reflexivity|].
  destruct (String.eqb k k'); [discriminate|]. intros H. now rewrite IH.
Qed.

Lemma jset_comm : forall k1 k2 v1 v2 o, String.eqb k1 k2 = false -> jget k1 o <> None -> jget k2 o <> None ->
  jset k1 v1 (jset k2 v2 o) = jset k2 v2 (jset k1 v1 o).
Proof.
  intros k1 k2 v1 v2 o Hne. assert (Hne' : String.eqb k2 k1 = false) by (rewrite String.eqb_sym; exact Hne).
  induction o as [|[k v] t IH]; cbn; intros H1 H2; [now elim H1|].
  destruct (String.eqb k1 k) eqn:E1; destruct (String.eqb k2 k) eqn:E2; cbn; rewrite ?E1, ?E2; cbn; rewrite ?E1, ?E2.
  - apply String.eqb_eq in E1, E2. subst. now rewrite String.eqb_refl in Hne.
  - reflexivity.
  - reflexivity.
  - f_equal. now apply IH.
Qed.

(* ------------------------------------------------------------------ design bands: ROADM params *)
Definition db_entry (dv : string * json) : json := JObj [(K_degree, JStr (fst dv)); (K_db, snd dv)].

Lemma fold_back_db_err : forall l e, fold_left back_db_step l (Err e) = Err e.
Proof. induction l as [|x t IH]; intros e; cbn; [reflexivity|apply IH]. Qed.

Lemma fold_back_db : forall items pre, NoDup (keys (pre ++ items)) ->
  fold_left back_db_step (map db_entry items) (Ok pre) = Ok (pre ++ items).
Proof.
  induction items as [|[du v] t IH]; intros pre H; cbn [map fold_left].
  - now rewrite app_nil_r.
  - assert (Hn : jget du pre = None).
    { apply jget_none_notin. unfold keys in *. rewrite map_app in H. cbn in H.
      apply NoDup_remove_2 in H. intro Hin. apply H. apply in_or_app. now left. }
    cbn. rewrite (jset_notin _ _ _ Hn).
    replace (pre ++ (du, v) :: t) with ((pre ++ [(du, v)]) ++ t) by (rewrite <- app_assoc; reflexivity).
    apply IH. rewrite <- app_assoc. exact H.
Qed.

(* params = others ++ [per_degree_design_bands: {degree: bands}] with at least one degree, distinct degrees *)
Theorem design_band_roundtrip : forall others items,
  jget K_pddb others = None -> jget K_pddbt others = None -> items <> [] -> NoDup (keys items) ->
  let p := others ++ [(K_pddb, JObj items)] in
  exists p', design_band_params p = Ok p' /\ back_design_band_params p' = Ok p.
Proof.
  intros others items H1 H2 Hne Hnd p. subst p.
  unfold design_band_params. rewrite (jget_last _ _ _ H1), (jdel_last _ _ _ H1).
  assert (Ht : truthy (JObj items) = true) by (destruct items; [now elim Hne|reflexivity]).
  rewrite Ht. eexists; split; [reflexivity|].
  rewrite (jset_notin _ _ _ H2). unfold back_design_band_params.
  rewrite (jget_last _ _ _ H2), (jdel_last _ _ _ H2).
  assert (Ht2 : truthy (JArr (map (fun dv => JObj [(K_degree, JStr (fst dv)); (K_db, snd dv)]) items)) = true)
    by (destruct items; [now elim Hne|reflexivity]).
  rewrite Ht2. cbn [as_arr bind].
  change (map (fun dv => JObj [(K_degree, JStr (fst dv)); (K_db, snd dv)]) items) with (map db_entry items).
  rewrite (fold_back_db items []) by exact Hnd. cbn [bind app].
  destruct items; [now elim Hne|]. now rewrite (jset_notin _ _ _ H1).
Qed.

(* ------------------------------------------------------------------ per-frequency loss: fibre params *)
Lemma mapM_nil : forall {A B} (f : A -> res B), mapM f [] = Ok [].
Proof. reflexivity. Qed.

Lemma mapM_cons : forall {A B} (f : A -> res B) x t,
  mapM f (x :: t) = let* y := f x in let* t' := mapM f t in Ok (y :: t').
Proof. reflexivity. Qed.

Lemma pluck_zip2_fst : forall k1 k2 a b, length a = length b -> pluck k1 (zip2 k1 k2 a b) = Ok a.
Proof.
  intros k1 k2 a; induction a as [|x t IH]; intros [|y u] H; try discriminate; [reflexivity|].
  cbn in H. injection H as H. specialize (IH u H). unfold pluck in *. cbn [zip2]. rewrite mapM_cons, IH.
  cbn [as_obj bind]. unfold jreq. cbn [jget]. rewrite String.eqb_refl. reflexivity.
Qed.

Lemma pluck_zip2_snd : forall k1 k2 a b, String.eqb k2 k1 = false -> length a = length b ->
  pluck k2 (zip2 k1 k2 a b) = Ok b.
Proof.
  intros k1 k2 a; induction a as [|x t IH]; intros [|y u] Hk H; try discriminate; [reflexivity|].
  cbn in H. injection H as H. specialize (IH u Hk H). unfold pluck in *. cbn [zip2]. rewrite mapM_cons, IH.
  cbn [as_obj bind]. unfold jreq. cbn [jget]. rewrite Hk, String.eqb_refl. reflexivity.
Qed.

Lemma zip2_nonempty : forall k1 k2 a b, length a = length b -> b <> [] -> zip2 k1 k2 a b <> [].
Proof. intros k1 k2 [|x t] [|y u] H Hn; try discriminate. now elim Hn. Qed.

Theorem loss_coef_roundtrip : forall others fl vl,
  jget K_loss others = None -> jget K_losspf others = None -> length fl = length vl -> vl <> [] ->
  let p := others ++ [(K_loss, JObj [("frequency"%string, JArr fl); ("value"%string, JArr vl)])] in
  exists p', loss_params p = Ok p' /\ back_loss_params p' = Ok p.
Proof.
  intros others fl vl H1 H2 Hlen Hne p. subst p.
  destruct vl as [|v0 vt]; [now elim Hne|]. destruct fl as [|f0 ft]; [discriminate|].
  unfold loss_params. rewrite (jget_last _ _ _ H1), (jdel_last _ _ _ H1).
  cbn [jget String.eqb Ascii.eqb Bool.eqb truthy as_iter bind].
  eexists; split; [reflexivity|].
  rewrite (jset_notin _ _ _ H2). unfold back_loss_params.
  rewrite (jget_last _ _ _ H2), (jdel_last _ _ _ H2).
  cbn [zip2 truthy as_arr bind].
  change (JObj [("frequency"%string, f0); ("loss_coef_value"%string, v0)] :: zip2 "frequency" "loss_coef_value" ft vt)
    with (zip2 "frequency" "loss_coef_value" (f0 :: ft) (v0 :: vt)).
  rewrite (pluck_zip2_fst _ _ _ _ Hlen). cbn [bind].
  rewrite (pluck_zip2_snd "frequency" "loss_coef_value" _ _ eq_refl Hlen). cbn [bind].
  now rewrite (jset_notin _ _ _ H1).
Qed.

(* ------------------------------------------------------------------ Raman coefficient: fibre params *)
Theorem raman_coef_roundtrip : forall others rf gl fl,
  jget K_raman others = None -> length fl = length gl -> fl <> [] ->
  let p := others ++ [(K_raman, JObj [("reference_frequency"%string, rf); ("g0"%string, JArr gl);
                                      ("frequency_offset"%string, JArr fl)])] in
  exists p', raman_params p = Ok p' /\ back_raman_params p' = Ok p.
Proof.
  intros others rf gl fl H1 Hlen Hne p. subst p.
  destruct fl as [|f0 ft]; [now elim Hne|]. destruct gl as [|g0 gt]; [discriminate|].
  unfold raman_params. rewrite (jget_last _ _ _ H1), (jdel_last _ _ _ H1).
  cbn [key_in jhas jget String.eqb Ascii.eqb Bool.eqb bind as_obj opt_list truthy jreq as_iter].
  eexists; split; [reflexivity|].
  rewrite (jset_notin _ _ _ H1). unfold back_raman_params.
  rewrite (jget_last _ _ _ H1), (jdel_last _ _ _ H1).
  cbn [key_in jhas jget String.eqb Ascii.eqb Bool.eqb bind as_obj jreq as_arr zip2].
  change (JObj [("frequency_offset"%string, f0); ("g0"%string, g0)] :: zip2 "frequency_offset" "g0" ft gt)
    with (zip2 "frequency_offset" "g0" (f0 :: ft) (g0 :: gt)).
  rewrite (pluck_zip2_snd "frequency_offset" "g0" _ _ eq_refl Hlen). cbn [bind].
  rewrite (pluck_zip2_fst _ _ _ _ Hlen). cbn [bind].
  now rewrite (jset_notin _ _ _ H1).
Qed.

(* ------------------------------------------------------------------ nf_coef / nf_fit_coeff *)
Definition coef_pairs (i : Z) (l : list json) : list (json * json) :=
  map (fun it => (match it with JObj ((_, k) :: _) => k | _ => JNull end, it)) (enum_coef i l).

Lemma sort_enum : forall l i, sort_by (coef_pairs i l) = Ok (coef_pairs i l).
Proof.
  induction l as [|c t IH]; intros i; [reflexivity|].
  unfold coef_pairs in *. cbn [enum_coef map sort_by]. rewrite (IH (i + 1)). cbn [bind].
  destruct t as [|c2 t2]; [reflexivity|].
  cbn [enum_coef map insert_by fst num_lt bind]. unfold pow10; cbn [Z.of_nat Z.pow].
  assert (((i + 1) * 1 <? i * 1) = false) as -> by lia. reflexivity.
Qed.

Lemma enum_pairs_mapM : forall l i,
  mapM (fun it => let* o := as_obj it in let* k := jreq "coef_order" o in Ok (k, it)) (enum_coef i l)
  = Ok (coef_pairs i l).
Proof.
  induction l as [|c t IH]; intros i; [reflexivity|].
  cbn [enum_coef]. rewrite mapM_cons, (IH (i + 1)). reflexivity.
Qed.

Lemma enum_values_mapM : forall l i,
  mapM (fun p => let* o := as_obj (snd p) in jreq "nf_coef" o) (coef_pairs i l) = Ok l.
Proof.
  induction l as [|c t IH]; intros i; [reflexivity|].
  unfold coef_pairs in *. cbn [enum_coef map]. rewrite mapM_cons, (IH (i + 1)). reflexivity.
Qed.

Theorem nf_coef_roundtrip : forall key others c0 ct,
  jget key others = None -> is_dict c0 = false ->
  let e := others ++ [(key, JArr (c0 :: ct))] in
  exists e', nf_forth key e = Ok e' /\ nf_back key e' = Ok e.
Proof.
  intros key others c0 ct H1 Hd e. subst e.
  unfold nf_forth. rewrite (jget_last _ _ _ H1), (jdel_last _ _ _ H1). cbn [as_arr bind nth_req nth_error].
  rewrite Hd. eexists; split; [reflexivity|].
  rewrite (jset_notin _ _ _ H1). unfold nf_back.
  rewrite (jget_last _ _ _ H1), (jdel_last _ _ _ H1). cbn [as_arr bind].
  cbn [enum_coef nth_req nth_error bind is_dict].
  change (JObj [("coef_order"%string, JNum 0 0); ("nf_coef"%string, c0)] :: enum_coef (0 + 1) ct)
    with (enum_coef 0 (c0 :: ct)).
  rewrite enum_pairs_mapM. cbn [bind]. rewrite sort_enum. cbn [bind]. rewrite enum_values_mapM. cbn [bind].
  now rewrite (jset_notin _ _ _ H1).
Qed.

(* ------------------------------------------------------------------ Span / SI power range *)
Definition range_dict (a b c : json) : json :=
  JObj [("min_value"%string, a); ("max_value"%string, b); ("step"%string, c)].

Lemma range_entry_forth : forall lk dk others a b c,
  String.eqb lk dk = false -> jget lk others = None -> jget dk others = None ->
  range_entry lk dk (others ++ [(lk, JArr [a; b; c])]) = Ok (others ++ [(dk, range_dict a b c)]).
Proof.
  intros lk dk others a b c Hne H1 H2. unfold range_entry, jhas.
  assert (Hk : String.eqb dk lk = false) by (rewrite String.eqb_sym; exact Hne).
  rewrite jget_app, H2. cbn [jget]. rewrite Hk.
  rewrite (jget_last _ _ _ H1). cbn [as_arr bind nth_req nth_error].
  rewrite jset_notin by (rewrite jget_app, H2; cbn; now rewrite Hk).
  rewrite !jdel_app, (jdel_notin _ _ H1). cbn [jdel]. rewrite String.eqb_refl, Hne. now rewrite app_nil_r.
Qed.

Lemma back_range_entry_ok : forall lk dk others a b c,
  String.eqb lk dk = false -> jget lk others = None -> jget dk others = None ->
  back_range_entry lk dk (JObj (others ++ [(dk, range_dict a b c)])) = Ok (JObj (others ++ [(lk, JArr [a; b; c])])).
Proof.
  intros lk dk others a b c Hne H1 H2. unfold back_range_entry. cbn [key_in bind]. unfold jhas.
  rewrite (jget_last _ _ _ H2). cbn [as_obj bind]. unfold jreq. rewrite (jget_last _ _ _ H2).
  cbn [bind as_obj range_dict jget String.eqb Ascii.eqb Bool.eqb].
  rewrite (jdel_last _ _ _ H2), (jset_notin _ _ _ H1). reflexivity.
Qed.

(* an entry that carries its range as a list, last key *)
Definition range_entry_ok (lk dk : string) (e : json) : Prop :=
  exists others a b c, e = JObj (others ++ [(lk, JArr [a; b; c])]) /\ jget lk others = None /\ jget dk others = None.

Lemma jset_jset : forall k v1 v2 o, jset k v2 (jset k v1 o) = jset k v2 o.
Proof.
  intros k v1 v2 o; induction o as [|[k' v'] t IH]; cbn.
  - now rewrite String.eqb_refl.
  - destruct (String.eqb k k') eqn:E; cbn; rewrite E; [reflexivity|now rewrite IH].
Qed.

(* any number of entries under one key *)
Lemma range_roundtrip_key : forall key lk dk doc es,
  String.eqb lk dk = false -> jget key doc = Some (JArr es) -> Forall (range_entry_ok lk dk) es ->
  exists es', on_entries key (range_entry lk dk) doc = Ok (jset key (JArr es') doc) /\
              back_range_all key lk dk (jset key (JArr es') doc) = Ok doc.
Proof.
  intros key lk dk doc es Hne Hk HF.
  assert (Hall : Forall (fun e => exists e', (let* eo := as_obj e in let* eo' := range_entry lk dk eo in Ok (JObj eo')) = Ok e'
                                            /\ back_range_entry lk dk e' = Ok ((fun x => x) e)) es).
  { rewrite Forall_forall in *. intros e He. destruct (HF e He) as (others & a & b & c & -> & H1 & H2).
    exists (JObj (others ++ [(dk, range_dict a b c)])). cbn [as_obj bind].
    rewrite (range_entry_forth _ _ _ _ _ _ Hne H1 H2). split; [reflexivity|].
    now apply back_range_entry_ok. }
  destruct (mapM_chain _ _ _ _ Hall) as (es' & M1 & M2). rewrite map_id in M2.
  exists es'. split.
  - unfold on_entries. rewrite Hk. cbn [as_arr bind]. rewrite M1. reflexivity.
  - unfold back_range_all. rewrite jget_jset_same. cbn [as_arr bind]. rewrite M2. cbn [bind].
    now rewrite jset_jset, (jset_same _ _ _ Hk).
Qed.

(* the whole pair on a library: every Span entry and every SI entry *)
Theorem range_roundtrip : forall doc spans sis,
  jget "Span" doc = Some (JArr spans) -> jget "SI" doc = Some (JArr sis) ->
  Forall (range_entry_ok "delta_power_range_db" "delta_power_range_dict_db") spans ->
  Forall (range_entry_ok "power_range_db" "power_range_dict_db") sis ->
  exists doc', convert_delta_power_range doc = Ok doc' /\ convert_back_delta_power_range doc' = Ok doc.
Proof.
  intros doc spans sis Hs Hi Fs Fi.
  destruct (range_roundtrip_key "Span" _ _ doc spans eq_refl Hs Fs) as (sp' & A1 & A2).
  set (d1 := jset "Span" (JArr sp') doc) in *.
  assert (Hi1 : jget "SI" d1 = Some (JArr sis)) by (unfold d1; rewrite jget_jset_other by reflexivity; exact Hi).
  destruct (range_roundtrip_key "SI" _ _ d1 sis eq_refl Hi1 Fi) as (si' & B1 & B2).
  set (d2 := jset "SI" (JArr si') d1) in *.
  exists d2. unfold convert_delta_power_range, convert_back_delta_power_range. rewrite A1. cbn [bind]. split; [exact B1|].
  (* back: Span first, on d2 *)
  assert (Hs2 : jget "Span" d2 = Some (JArr sp')).
  { unfold d2. rewrite jget_jset_other by reflexivity. unfold d1. apply jget_jset_same. }
  assert (Hall : mapM (back_range_entry "delta_power_range_db" "delta_power_range_dict_db") sp' = Ok spans).
  { unfold back_range_all in A2. unfold d1 in A2. rewrite jget_jset_same in A2. cbn [as_arr bind] in A2.
    destruct (mapM _ sp') as [x|] eqn:E; [|discriminate]. cbn [bind] in A2. injection A2 as A2.
    rewrite jset_jset in A2. f_equal.
    assert (G : jget "Span" (jset "Span" (JArr x) doc) = jget "Span" doc) by now rewrite A2.
    rewrite jget_jset_same, Hs in G. now injection G. }
  unfold back_range_all at 1. rewrite Hs2. cbn [as_arr bind]. rewrite Hall. cbn [bind].
  (* jset Span spans d2 = jset SI si' doc *)
  assert (E : jset "Span" (JArr spans) d2 = jset "SI" (JArr si') doc).
  { unfold d2, d1. rewrite jset_comm by reflexivity. rewrite jset_jset, (jset_same _ _ _ Hs). reflexivity. }
  rewrite E.
  unfold back_range_all in B2. unfold d2 in B2. rewrite jget_jset_same in B2. cbn [as_arr bind] in B2.
  destruct (mapM (back_range_entry "power_range_db" "power_range_dict_db") si') as [y|] eqn:E2; [|discriminate].
  cbn [bind] in B2. injection B2 as B2. rewrite jset_jset in B2.
  assert (Hy : y = sis).
  { assert (G : jget "SI" (jset "SI" (JArr y) d1) = jget "SI" d1) by now rewrite B2.
    rewrite jget_jset_same, Hi1 in G. now injection G. }
  subst y. unfold back_range_all. rewrite jget_jset_same. cbn [as_arr bind]. rewrite E2. cbn [bind].
  now rewrite jset_jset, (jset_same _ _ _ Hi).
Qed.

(* F16: RamanFiber raman_efficiency does not come back under its own name *)
Definition raman_eff_doc : obj :=
  [("RamanFiber"%string, JArr [JObj [("type_variety"%string, JStr "SSMF");
      ("raman_efficiency"%string, JObj [("cr"%string, JArr [JNum 0 1; JNum 1 5]);
                                        ("frequency_offset"%string, JArr [JNum 0 1; JNum 10000000000000 1])])]])].

Theorem raman_efficiency_refuted :
  exists doc doc' doc'', convert_raman_efficiency doc = Ok doc' /\ convert_back_raman_efficiency doc' = Ok doc''
                         /\ doc'' <> doc /\
                         (* and the forward conversion of the result differs: not idempotent *)
                         convert_raman_efficiency doc'' <> Ok doc'.
Proof.
  exists raman_eff_doc. eexists. eexists. split; [vm_compute; reflexivity|]. split; [vm_compute; reflexivity|].
  split; [discriminate|]. vm_compute. discriminate.
Qed.

(* ------------------------------------------------------------------ per-degree power targets: ROADM params *)
Definition blk (e : string) (o : option obj) : obj := match o with Some items => [(e, JObj items)] | None => [] end.
Definition ents (e : string) (o : option obj) : list json :=
  match o with Some items => degree_entries e items | None => [] end.
Definition items_ok (o : option obj) : Prop :=
  match o with Some items => items <> [] /\ NoDup (keys items) | None => True end.

Lemma degree_step_blk : forall E a b o nt,
  jget E a = None -> jget E b = None -> items_ok o ->
  degree_step (Ok ((a ++ blk E o ++ b : obj), nt)) E = Ok ((a ++ b : obj), nt ++ ents E o).
Proof.
  intros E a b o nt Ha Hb Ho. unfold degree_step. cbn [bind].
  destruct o as [items|]; cbn [blk ents app].
  - destruct Ho as [Hne _].
    rewrite jget_app, Ha. cbn [jget]. rewrite String.eqb_refl.
    assert (Ht : truthy (JObj items) = true) by (destruct items; [now elim Hne|reflexivity]). rewrite Ht.
    rewrite jdel_app, (jdel_notin _ _ Ha). cbn [jdel]. rewrite String.eqb_refl, (jdel_notin _ _ Hb). reflexivity.
  - rewrite jget_app, Ha, Hb. now rewrite app_nil_r.
Qed.

Definition E1 := "per_degree_pch_out_db"%string.
Definition E2 := "per_degree_psd_out_mWperGHz"%string.
Definition E3 := "per_degree_psd_out_mWperSlotWidth"%string.

Lemma jget_blk_other : forall E E' o, String.eqb E E' = false -> jget E (blk E' o) = None.
Proof. intros E E' [items|] H; cbn; [now rewrite H|reflexivity]. Qed.

(* one power target entry written back into the params *)
Definition upsert (E du : string) (v : json) (q : obj) : res obj :=
  match jget E q with
  | None => Ok (jset E (JObj [(du, v)]) q)
  | Some (JObj d) => Ok (jset E (JObj (jset du v d)) q)
  | Some _ => Err "TypeError:item assignment"%string
  end.

Lemma back_target_entry : forall E, In E eq_types -> forall q du v,
  back_target (Ok q) (JObj [(K_degree, JStr du); (E, v)]) = upsert E du v q.
Proof.
  intros E HE q du v. unfold upsert.
  destruct HE as [<-|[<-|[<-|[]]]]; unfold back_target; cbn [bind as_obj jreq jget K_degree String.eqb Ascii.eqb Bool.eqb as_key];
    unfold eq_types; cbn [fold_left]; unfold back_target_step;
    cbn [bind jget K_degree String.eqb Ascii.eqb Bool.eqb];
    match goal with |- context [jget ?e q] => destruct (jget e q) as [[| | | | |d]|] end; reflexivity.
Qed.

Lemma fold_back_target_err : forall l e, fold_left back_target l (Err e) = Err e.
Proof. induction l as [|x t IH]; intros e; cbn; [reflexivity|apply IH]. Qed.

Lemma fold_upsert_more : forall E, In E eq_types -> forall items a pre,
  jget E a = None -> NoDup (keys (pre ++ items)) ->
  fold_left back_target (degree_entries E items) (Ok (a ++ [(E, JObj pre)])) = Ok (a ++ [(E, JObj (pre ++ items))]).
Proof.
  intros E HE items; induction items as [|[du v] t IH]; intros a pre Ha Hnd; cbn [degree_entries map fold_left].
  - now rewrite app_nil_r.
  - cbn [fst snd]. rewrite (back_target_entry E HE). unfold upsert. rewrite (jget_last _ _ _ Ha).
    assert (Hn : jget du pre = None).
    { apply jget_none_notin. unfold keys in *. rewrite map_app in Hnd. cbn in Hnd.
      apply NoDup_remove_2 in Hnd. intro Hin. apply Hnd. apply in_or_app. now left. }
    rewrite (jset_notin _ _ _ Hn), jset_app_notin by exact Ha. cbn [jset]. rewrite String.eqb_refl.
    change (map (fun dv => JObj [(K_degree, JStr (fst dv)); (E, snd dv)]) t) with (degree_entries E t).
    etransitivity; [apply (IH a (pre ++ [(du, v)]) Ha); rewrite <- app_assoc; exact Hnd|].
    now rewrite <- app_assoc.
Qed.

Lemma fold_upsert_block : forall E, In E eq_types -> forall o a,
  jget E a = None -> items_ok o ->
  fold_left back_target (ents E o) (Ok a) = Ok (a ++ blk E o : obj).
Proof.
  intros E HE [items|] a Ha Ho; cbn [ents blk]; [|now rewrite app_nil_r].
  destruct Ho as [Hne Hnd]. destruct items as [|[du v] t]; [now elim Hne|].
  cbn [degree_entries map fold_left fst snd]. rewrite (back_target_entry E HE). unfold upsert. rewrite Ha.
  rewrite (jset_notin _ _ _ Ha).
  change (map (fun dv => JObj [(K_degree, JStr (fst dv)); (E, snd dv)]) t) with (degree_entries E t).
  exact (fold_upsert_more E HE t a [(du, v)] Ha Hnd).
Qed.

(* params = others ++ [pch targets] ++ [psd targets] ++ [psw targets] (each optional, non-empty, distinct degrees) *)
Theorem degree_roundtrip : forall others o1 o2 o3,
  jget E1 others = None -> jget E2 others = None -> jget E3 others = None -> jget K_pdt others = None ->
  items_ok o1 -> items_ok o2 -> items_ok o3 ->
  let p := others ++ blk E1 o1 ++ blk E2 o2 ++ blk E3 o3 in
  exists p', degree_params p = Ok p' /\ back_degree_params p' = Ok p.
Proof.
  intros others o1 o2 o3 H1 H2 H3 H4 K1 K2 K3 p. subst p.
  unfold degree_params, eq_types. cbn [fold_left]. fold E1 E2 E3.
  rewrite (degree_step_blk E1 others (blk E2 o2 ++ blk E3 o3) o1 [] H1)
    by (try exact K1; rewrite jget_app, !jget_blk_other by reflexivity; reflexivity).
  rewrite (degree_step_blk E2 others (blk E3 o3) o2 _ H2) by (try exact K2; now rewrite jget_blk_other).
  replace (others ++ blk E3 o3) with (others ++ blk E3 o3 ++ []) by now rewrite app_nil_r.
  rewrite (degree_step_blk E3 others [] o3 _ H3) by (try exact K3; reflexivity).
  cbn [bind app]. rewrite app_nil_r, <- (app_assoc (ents E1 o1)).
  destruct (ents E1 o1 ++ ents E2 o2 ++ ents E3 o3) as [|t0 tr] eqn:En.
  - (* no target at all *)
    exists others. split; [reflexivity|].
    assert (o1 = None /\ o2 = None /\ o3 = None) as (-> & -> & ->).
    { destruct o1 as [[|? ?]|]; [destruct K1; congruence|discriminate|].
      destruct o2 as [[|? ?]|]; [destruct K2; congruence|discriminate|].
      destruct o3 as [[|? ?]|]; [destruct K3; congruence|discriminate|]. auto. }
    cbn [blk app]. rewrite app_nil_r. unfold back_degree_params. now rewrite H4.
  - eexists; split; [reflexivity|]. rewrite <- En.
    rewrite (jset_notin _ _ _ H4). unfold back_degree_params. rewrite (jget_last _ _ _ H4), (jdel_last _ _ _ H4).
    assert (Ht : truthy (JArr (ents E1 o1 ++ ents E2 o2 ++ ents E3 o3)) = true) by now rewrite En.
    rewrite Ht. cbn [as_arr bind].
    assert (In1 : In E1 eq_types) by (now left).
    assert (In2 : In E2 eq_types) by (right; now left).
    assert (In3 : In E3 eq_types) by (right; right; now left).
    rewrite !fold_left_app.
    rewrite (fold_upsert_block E1 In1 o1 others H1 K1).
    rewrite (fold_upsert_block E2 In2 o2 _) by (try exact K2; rewrite jget_app, H2; now apply jget_blk_other).
    rewrite (fold_upsert_block E3 In3 o3 _)
      by (try exact K3; rewrite !jget_app, H3, !jget_blk_other by reflexivity; reflexivity).
    now rewrite <- !app_assoc.
Qed.

(* ------------------------------------------------------------------ the generic layer of yang_to_legacy o legacy_to_yang *)
Lemma mapM_map_commute : forall {A B} (f : A -> res B) (h : A -> A) (h' : B -> B) l l',
  Forall (fun x => forall z, f x = Ok z -> f (h x) = Ok (h' z)) l ->
  mapM f l = Ok l' -> mapM f (map h l) = Ok (map h' l').
Proof.
  intros A B f h h' l; induction l as [|x t IH]; intros l' HF H.
  - cbn in H. injection H as <-. reflexivity.
  - inversion HF as [|? ? Hx Ht]; subst. rewrite mapM_cons in H.
    destruct (f x) as [y|] eqn:Ey; [|discriminate]. cbn [bind] in H.
    destruct (mapM f t) as [t'|] eqn:Et; [|discriminate]. cbn [bind] in H. injection H as <-.
    cbn [map]. rewrite mapM_cons, (Hx y eq_refl). cbn [bind]. rewrite (IH t' Ht eq_refl). reflexivity.
Qed.

Lemma py_float_scalar : forall s z, py_float s = Ok z -> empty_to_none z = z.
Proof.
  intros s z H. unfold py_float in H.
  destruct (strip_sign (list_ascii_of_string s)) as [neg body].
  destruct (split_dot body) as [ip fp].
  destruct (ip ++ match fp with Some f => f | None => [] end) as [|c t]; [discriminate|].
  destruct (val_acc 0 (c :: t)); [|discriminate]. injection H as <-.
  unfold norm_float. destruct (length _); [reflexivity|]. destruct (strip0 _ _); reflexivity.
Qed.
Lemma py_int_scalar : forall s z, py_int s = Ok z -> empty_to_none z = z.
Proof.
  intros s z H. unfold py_int in H.
  destruct (strip_sign (list_ascii_of_string s)) as [neg body].
  destruct body as [|c t]; [discriminate|]. destruct (val_acc 0 (c :: t)); [|discriminate].
  injection H as <-. reflexivity.
Qed.

Lemma cb_elem_null : forall c x, cb_elem c x = Ok JNull -> x = JNull.
Proof.
  intros c x H. destruct x as [| | | s | l | o]; try reflexivity; try discriminate.
  - cbn in H. destruct (in_none_m1 c); [discriminate|].
    pose proof (py_float_scalar s JNull H) as _. unfold py_float in H.
    destruct (strip_sign _) as [neg body]. destruct (split_dot body) as [ip fp].
    destruct (ip ++ _); [discriminate|]. destruct (val_acc _ _); [|discriminate]. injection H as H.
    unfold norm_float in H. destruct (length _); [discriminate|]. destruct (strip0 _ _); discriminate.
  - unfold cb_elem in H. rewrite (cb_arr_eq c l) in H. destruct (mapM (cb_elem c) l); discriminate.
  - unfold cb_elem in H. rewrite cb_obj_eq in H. destruct (mapM _ o); discriminate.
Qed.

Lemma cb_e2n : forall y,
  (forall c z, convert_back_fd c y = Ok z -> convert_back_fd c (empty_to_none y) = Ok (empty_to_none z)) /\
  (forall c z, cb_elem c y = Ok z -> cb_elem c (empty_to_none y) = Ok (empty_to_none z)).
Proof.
  induction y as [| | | s |l IH|o IH] using json_ind'.
  - split; intros c z H; cbn in *; injection H as <-; reflexivity.
  - split; intros c z H; cbn in *; injection H as <-; reflexivity.
  - split; intros c z H; cbn in *; injection H as <-; reflexivity.
  - split; intros c z H.
    + cbn [empty_to_none]. rewrite H. f_equal. symmetry. cbn in H. destruct c as [f|]; [|injection H as <-; reflexivity].
      destruct (0 <? f); [exact (py_float_scalar _ _ H)|]. destruct (f <? 0); [injection H as <-; reflexivity|].
      exact (py_int_scalar _ _ H).
    + cbn [empty_to_none]. rewrite H. f_equal. symmetry. cbn in H.
      destruct (in_none_m1 c); [injection H as <-; reflexivity|exact (py_float_scalar _ _ H)].
  - (* arrays *)
    assert (Main : forall c z, convert_back_fd c (JArr l) = Ok z ->
                               convert_back_fd c (empty_to_none (JArr l)) = Ok (empty_to_none z)).
    { intros c z H. destruct (single_null_dec l) as [->|Hl].
      - cbn in H. injection H as <-. reflexivity.
      - rewrite cb_arr_eq in H. destruct (mapM (cb_elem c) l) as [l'|] eqn:El; [|discriminate].
        cbn [bind] in H. injection H as <-.
        rewrite e2n_arr by exact Hl. rewrite cb_arr_eq.
        assert (HF : Forall (fun x => forall z, cb_elem c x = Ok z -> cb_elem c (empty_to_none x) = Ok (empty_to_none z)) l).
        { rewrite Forall_forall in *. intros x Hx z Hz. exact (proj2 (IH x Hx) c z Hz). }
        rewrite (mapM_map_commute _ _ _ _ _ HF El). cbn [bind]. f_equal. symmetry. apply e2n_arr.
        (* l' is not [null] *)
        intro Hc. subst l'. destruct l as [|x [|y t]].
        + cbn in El. discriminate.
        + rewrite mapM_cons in El. destruct (cb_elem c x) as [x'|] eqn:Ex; [|discriminate].
          cbn in El. injection El as ->. apply cb_elem_null in Ex. subst. now elim Hl.
        + rewrite !mapM_cons in El. destruct (cb_elem c x); [|discriminate]. cbn [bind] in El.
          destruct (cb_elem c y); [|discriminate]. cbn [bind] in El.
          destruct (mapM (cb_elem c) t); [|discriminate]. discriminate. }
    split; [exact Main|]. intros c z H. destruct (single_null_dec l) as [->|Hl].
    + cbn in H. injection H as <-. reflexivity.
    + rewrite e2n_arr by exact Hl. change (cb_elem c (JArr (map empty_to_none l))) with (convert_back_fd c (JArr (map empty_to_none l))).
      rewrite <- (e2n_arr l Hl). apply Main. exact H.
  - (* objects *)
    assert (Main : forall c z, convert_back_fd c (JObj o) = Ok z ->
                               convert_back_fd c (empty_to_none (JObj o)) = Ok (empty_to_none z)).
    { intros c z H. rewrite cb_obj_eq in H.
      destruct (mapM (fun kv => let* v' := convert_back_fd (prec (fst kv)) (snd kv) in Ok (fst kv, v')) o) as [o'|] eqn:Eo;
        [|discriminate].
      cbn [bind] in H. injection H as <-. cbn [empty_to_none]. rewrite cb_obj_eq.
      assert (HF : Forall (fun kv => forall z,
                   (let* v' := convert_back_fd (prec (fst kv)) (snd kv) in Ok (fst kv, v')) = Ok z ->
                   (let* v' := convert_back_fd (prec (fst ((fun kv => (fst kv, empty_to_none (snd kv))) kv)))
                                 (snd ((fun kv => (fst kv, empty_to_none (snd kv))) kv)) in
                    Ok (fst ((fun kv => (fst kv, empty_to_none (snd kv))) kv), v'))
                   = Ok ((fun kv => (fst kv, empty_to_none (snd kv))) z)) o).
      { rewrite Forall_forall in *. intros kv Hkv z Hz. cbn [fst snd].
        destruct (convert_back_fd (prec (fst kv)) (snd kv)) as [v'|] eqn:Ev; [|discriminate].
        cbn [bind] in Hz. injection Hz as <-. rewrite (proj1 (IH kv Hkv) _ _ Ev). reflexivity. }
      rewrite (mapM_map_commute _ _ _ _ _ HF Eo). reflexivity. }
    split; [exact Main|exact Main].
Qed.

Lemma doc_ok_n2e : forall x c, doc_ok c x = true -> doc_ok c (none_to_empty x) = true.
Proof.
  induction x as [| | | |l IH|o IH] using json_ind'; intros c W; try exact W; try reflexivity.
  - destruct (single_null_dec l) as [->|Hl]; [reflexivity|]. rewrite n2e_arr by exact Hl.
    cbn in *. rewrite forallb_forall in *. rewrite Forall_forall in IH. intros x Hx.
    apply in_map_iff in Hx as (x0 & <- & Hx0). apply IH; auto.
  - cbn in *. rewrite forallb_forall in *. rewrite Forall_forall in IH. intros kv Hkv.
    apply in_map_iff in Hkv as (kv0 & <- & Hkv0). cbn [fst snd]. apply IH; auto.
Qed.

(* legacy value -> none_to_empty -> convert_dict -> (YANG text) -> empty_to_none -> convert_back -> same value *)
Theorem generic_roundtrip : forall d c, legacy_nulls_ok d = true -> doc_ok c d = true ->
  exists y, convert_dict_fd (dflt c) (none_to_empty d) = Ok y /\
            convert_back_fd c (empty_to_none y) = Ok d.
Proof.
  intros d c Hn W. pose proof (doc_ok_n2e d c W) as W'.
  destruct (cd_cb_main _ c (doc_ok_loose _ _ W')) as (y & H1 & H2 & _).
  exists y. split; [exact H1|].
  rewrite (proj1 (cb_e2n y) c _ H2), quant_doc_exact by exact W'. now rewrite e2n_n2e.
Qed.

(* ------------------------------------------------------------------ whole documents: sim-params and spectrum *)
Lemma jget_map_val : forall (f : json -> json) k o,
  jget k (map (fun kv => (fst kv, f (snd kv))) o) = option_map f (jget k o).
Proof.
  intros f k o; induction o as [|[k' v] t IH]; cbn; [reflexivity|].
  destruct (String.eqb k k'); [reflexivity|exact IH].
Qed.
Lemma jhas_map_val : forall (f : json -> json) k o, jhas k (map (fun kv => (fst kv, f (snd kv))) o) = jhas k o.
Proof. intros f k o. unfold jhas. rewrite jget_map_val. now destruct (jget k o). Qed.
Lemma any_key_map_val : forall (f : json -> json) ks o,
  any_key ks (map (fun kv => (fst kv, f (snd kv))) o) = any_key ks o.
Proof.
  intros f ks o. unfold any_key. induction ks as [|k t IH]; cbn; [reflexivity|]. now rewrite jhas_map_val, IH.
Qed.

(* a legacy simulation-parameter document: none of the keys that select an earlier branch of the dispatch *)
Definition is_sim_params (o : obj) : bool :=
  negb (jhas K_elements o) && negb (jhas TOPO_NMSP o) && negb (any_key EQPT_TYPES o) && negb (jhas EQPT_NMSP o)
  && negb (jhas "path-request" o) && negb (jhas SERV_NMSP o) && negb (any_key EDFA_CONFIG_KEYS o)
  && negb (jhas EDFA_CONFIG_NMSP o) && negb (jhas "spectrum" o) && any_key SIM_PARAMS_KEYS o.

Theorem y2l_l2y_sim_params : forall o,
  is_sim_params o = true -> legacy_nulls_ok (JObj o) = true -> doc_ok (prec SIM_PARAMS_NMSP) (JObj o) = true ->
  exists y, legacy_to_yang (JObj o) = Ok y /\ yang_to_legacy y = Ok (JObj o).
Proof.
  intros o Hs Hn W. unfold is_sim_params in Hs.
  repeat (apply andb_true_iff in Hs as [Hs ?]).
  repeat match goal with H : negb _ = true |- _ => apply negb_true_iff in H end.
  destruct (generic_roundtrip (JObj o) (prec SIM_PARAMS_NMSP) Hn W) as (y0 & G1 & G2).
  exists (JObj [(SIM_PARAMS_NMSP, y0)]). split.
  - unfold legacy_to_yang. cbn [none_to_empty as_obj bind].
    rewrite !jhas_map_val, !any_key_map_val.
    repeat match goal with H : _ = false |- _ => rewrite H end.
    match goal with H : any_key SIM_PARAMS_KEYS o = true |- _ => rewrite H end.
    cbn [bind]. unfold convert_dict. rewrite cd_obj_eq, mapM_cons, mapM_nil. cbn [fst snd].
    rewrite prec_d_dflt. cbn [none_to_empty] in G1. rewrite G1. reflexivity.
  - unfold yang_to_legacy, convert_back. cbn [empty_to_none map fst snd]. rewrite cb_obj_eq, mapM_cons, mapM_nil.
    cbn [fst snd]. rewrite G2. cbn [bind as_obj]. reflexivity.
Qed.

Theorem y2l_l2y_spectrum : forall v,
  legacy_nulls_ok v = true -> doc_ok (prec SPECTRUM_NMSP) v = true ->
  let d := JObj [("spectrum"%string, v)] in
  exists y, legacy_to_yang d = Ok y /\ yang_to_legacy y = Ok d.
Proof.
  intros v Hn W d. subst d.
  destruct (generic_roundtrip v (prec SPECTRUM_NMSP) Hn W) as (y0 & G1 & G2).
  exists (JObj [(SPECTRUM_NMSP, y0)]). split.
  - unfold legacy_to_yang. cbn [none_to_empty map fst snd as_obj bind]. cbn [jhas jget any_key existsb
      K_elements TOPO_NMSP EQPT_TYPES EQPT_NMSP SERV_NMSP EDFA_CONFIG_KEYS EDFA_CONFIG_NMSP String.eqb Ascii.eqb Bool.eqb orb].
    cbn [jreq jget String.eqb Ascii.eqb Bool.eqb bind].
    unfold convert_dict. rewrite cd_obj_eq, mapM_cons, mapM_nil. cbn [fst snd].
    rewrite prec_d_dflt, G1. reflexivity.
  - unfold yang_to_legacy, convert_back. cbn [empty_to_none map fst snd]. rewrite cb_obj_eq, mapM_cons, mapM_nil.
    cbn [fst snd]. rewrite G2. cbn [bind as_obj]. reflexivity.
Qed.

(* l2y (y2l (l2y d)) = l2y d and y2l (l2y (y2l y)) = y2l y, from a round trip *)
Lemma idempotent_of_roundtrip : forall d,
  (exists y, legacy_to_yang d = Ok y /\ yang_to_legacy y = Ok d) ->
  exists y l, legacy_to_yang d = Ok y /\ yang_to_legacy y = Ok l /\ legacy_to_yang l = Ok y /\
              (exists y', legacy_to_yang l = Ok y' /\ yang_to_legacy y' = Ok l).
Proof. intros d (y & H1 & H2). exists y, d. repeat split; try assumption. exists y. auto. Qed.

(* ------------------------------------------------------------------ whole documents: services *)
Lemma jset_same : forall k v o, jget k o = Some v -> jset k v o = o.
Proof.
  intros k v o; induction o as [|[k' v'] t IH]; cbn; [discriminate|].
  destruct (String.eqb k k') eqn:E.
  - intros H. injection H as <-. reflexivity.
  - intros H. now rewrite IH.
Qed.

Lemma mapM_id : forall {A} (f : A -> res A) l, Forall (fun x => f x = Ok x) l -> mapM f l = Ok l.
Proof.
  intros A f l H; induction H as [|x t Hx Ht IH]; [reflexivity|]. rewrite mapM_cons, Hx. cbn [bind]. now rewrite IH.
Qed.

Lemma upd_sub_id : forall key g e po, jget key e = Some (JObj po) -> g po = Ok po -> upd_sub key g e = Ok e.
Proof.
  intros key g e po H Hg. unfold upd_sub, jreq. rewrite H. cbn [bind as_obj]. rewrite Hg. cbn [bind].
  now rewrite (jset_same _ _ _ H).
Qed.

(* a route object whose list key `index` already comes first (or that has none) *)
Definition route_item_ok (it : json) : bool :=
  match it with
  | JObj ((k, v) :: t) =>
      if String.eqb k "index" then negb (jhas "index" t) && match v with JNull => false | _ => true end
      else negb (jhas "index" ((k, v) :: t))
  | JObj [] => true
  | _ => false
  end.
Lemma reorder_item_id : forall it, route_item_ok it = true -> reorder_item "index" it = Ok it.
Proof.
  intros [| | | | |[|[k v] t]] H; try discriminate; [reflexivity|].
  unfold reorder_item. cbn [as_obj bind]. unfold route_item_ok in H.
  destruct (String.eqb k "index") eqn:E.
  - apply String.eqb_eq in E. subst k. apply andb_true_iff in H as [H1 H2]. apply negb_true_iff in H1.
    cbn [jget]. rewrite String.eqb_refl. cbn [jdel]. rewrite String.eqb_refl.
    assert (Hn : jget "index" t = None) by (unfold jhas in H1; destruct (jget "index" t); [discriminate|reflexivity]).
    rewrite (jdel_notin _ _ Hn). destruct v; try reflexivity. discriminate.
  - apply negb_true_iff in H. unfold jhas in H. destruct (jget "index" ((k, v) :: t)); [discriminate|reflexivity].
Qed.

Definition slot_ok (s : json) : bool :=
  match s with
  | JObj so => match so with [] => false | _ => true end
               && match jget "N" so with Some JNull => false | _ => true end
               && match jget "M" so with Some JNull => false | _ => true end
  | _ => false
  end.
Lemma pop_if_none_id : forall k o, match jget k o with Some JNull => false | _ => true end = true -> pop_if_none k o = o.
Proof. intros k o H. unfold pop_if_none. destruct (jget k o) as [[| | | | |]|]; try reflexivity. discriminate. Qed.

Lemma set_nth_same : forall l i s, nth_error l i = Some s -> set_nth l i s = l.
Proof.
  induction l as [|x t IH]; intros [|i] s H; cbn in *; try discriminate.
  - now injection H as ->.
  - now rewrite IH.
Qed.

Lemma slot_loop_id : forall fuel i l, forallb slot_ok l = true -> slot_loop fuel i l = Ok l.
Proof.
  induction fuel as [|fuel IH]; intros i l H; [reflexivity|]. cbn [slot_loop].
  destruct (nth_error l i) as [s|] eqn:E; [|reflexivity].
  assert (Hs : slot_ok s = true) by (rewrite forallb_forall in H; apply H; eapply nth_error_In; eauto).
  destruct s as [| | | | |so]; try discriminate. cbn [as_obj bind]. unfold slot_ok in Hs.
  apply andb_true_iff in Hs as [Hs H3]. apply andb_true_iff in Hs as [H1 H2].
  rewrite (pop_if_none_id "N" so H2), (pop_if_none_id "M" so H3), (set_nth_same _ _ _ E).
  destruct so; [discriminate|]. now apply IH.
Qed.

Definition te_ok (te : obj) : bool :=
  match jget "effective-freq-slot" te with
  | None => true
  | Some (JArr (s :: t)) => forallb slot_ok (s :: t)
  | Some _ => false
  end
  && match jget "max-nb-of-channel" te with Some JNull => false | _ => true end
  && match jget "trx_mode" te with Some JNull => false | _ => true end
  && match jget "output-power" te with Some JNull => false | _ => true end.
Lemma union_te_id : forall te, te_ok te = true -> union_te te = Ok te.
Proof.
  intros te H. unfold te_ok in H.
  apply andb_true_iff in H as [H H4]. apply andb_true_iff in H as [H H3]. apply andb_true_iff in H as [H1 H2].
  unfold union_te.
  assert (E : match jget "effective-freq-slot" te with
              | None => Ok te
              | Some fs => if truthy fs
                           then let* l := as_arr fs in let* l' := slot_loop (length l) 0 l in
                                Ok (match l' with [] => jdel "effective-freq-slot" te
                                                | _ => jset "effective-freq-slot" (JArr l') te end)
                           else Ok te
              end = Ok te).
  { destruct (jget "effective-freq-slot" te) as [fs|] eqn:Ef; [|reflexivity].
    destruct fs as [| | | |[|s t]|]; try discriminate.
    cbn [truthy as_arr bind]. rewrite (slot_loop_id _ 0 (s :: t) H1). cbn [bind].
    now rewrite (jset_same _ _ _ Ef). }
  rewrite E. cbn [bind].
  now rewrite (pop_if_none_id _ _ H2), (pop_if_none_id _ _ H3), (pop_if_none_id _ _ H4).
Qed.

Definition request_ok (r : json) : bool :=
  match r with
  | JObj ro =>
      match jget "explicit-route-objects" ro with
      | None => true
      | Some (JObj ero) => match jget "route-object-include-exclude" ero with
                           | Some (JArr items) => forallb route_item_ok items
                           | _ => false
                           end
      | Some _ => false
      end
      && match jget "path-constraints" ro with
         | Some (JObj pc) => match jget "te-bandwidth" pc with Some (JObj te) => te_ok te | _ => false end
         | _ => false
         end
  | _ => false
  end.

Lemma reorder_route_request_id : forall ro, request_ok (JObj ro) = true -> reorder_route_request ro = Ok ro.
Proof.
  intros ro H. unfold request_ok in H. apply andb_true_iff in H as [H _]. unfold reorder_route_request.
  destruct (jget "explicit-route-objects" ro) as [[| | | | |ero]|] eqn:E; try discriminate; [|reflexivity].
  destruct (jget "route-object-include-exclude" ero) as [[| | | |items|]|] eqn:E2; try discriminate.
  apply (upd_sub_id _ _ _ ero E). unfold jreq. rewrite E2. cbn [bind]. unfold reorder_keys. cbn [as_arr bind].
  rewrite (mapM_id (reorder_item "index") items).
  - cbn [bind]. now rewrite (jset_same _ _ _ E2).
  - rewrite forallb_forall in H. rewrite Forall_forall. intros it Hit. apply reorder_item_id. auto.
Qed.

Lemma union_request_id : forall ro, request_ok (JObj ro) = true -> union_request ro = Ok ro.
Proof.
  intros ro H. unfold request_ok in H. apply andb_true_iff in H as [_ H]. unfold union_request.
  destruct (jget "path-constraints" ro) as [[| | | | |pc]|] eqn:E; try discriminate.
  destruct (jget "te-bandwidth" pc) as [[| | | | |te]|] eqn:E2; try discriminate.
  apply (upd_sub_id _ _ _ pc E). apply (upd_sub_id _ _ _ te E2). now apply union_te_id.
Qed.

Lemma on_requests_id : forall f top rs,
  jget "path-request" top = Some (JArr rs) ->
  Forall (fun r => exists ro, r = JObj ro /\ f ro = Ok ro) rs -> on_requests f top = Ok top.
Proof.
  intros f top rs H HF. unfold on_requests, jreq. rewrite H. cbn [bind as_arr].
  rewrite (mapM_id _ rs).
  - cbn [bind]. now rewrite (jset_same _ _ _ H).
  - rewrite Forall_forall in *. intros r Hr. destruct (HF r Hr) as (ro & -> & Hf). cbn [as_obj bind]. now rewrite Hf.
Qed.

(* a service document whose lists are already in the shape the YANG schema needs *)
Definition is_services (o : obj) : bool :=
  negb (jhas K_elements o) && negb (jhas TOPO_NMSP o) && negb (any_key EQPT_TYPES o) && negb (jhas EQPT_NMSP o)
  && match jget "path-request" o with Some (JArr rs) => forallb request_ok rs | _ => false end.

Theorem y2l_l2y_services : forall o,
  is_services (map (fun kv => (fst kv, none_to_empty (snd kv))) o) = true ->
  legacy_nulls_ok (JObj o) = true -> doc_ok (prec SERV_NMSP) (JObj o) = true ->
  exists y, legacy_to_yang (JObj o) = Ok y /\ yang_to_legacy y = Ok (JObj o).
Proof.
  intros o Hs Hn W. set (o' := map (fun kv => (fst kv, none_to_empty (snd kv))) o) in *.
  unfold is_services in Hs.
  apply andb_true_iff in Hs as [Hs H5]. apply andb_true_iff in Hs as [Hs H4].
  apply andb_true_iff in Hs as [Hs H3]. apply andb_true_iff in Hs as [H1 H2].
  apply negb_true_iff in H1, H2, H3, H4.
  destruct (jget "path-request" o') as [[| | | |rs|]|] eqn:Er; try discriminate.
  assert (Hreq : forall r, In r rs -> exists ro, r = JObj ro /\ request_ok (JObj ro) = true).
  { rewrite forallb_forall in H5. intros r Hr. specialize (H5 r Hr). destruct r; try discriminate. eauto. }
  assert (C1 : reorder_route_objects o' = Ok o').
  { apply (on_requests_id _ _ rs Er). rewrite Forall_forall. intros r Hr.
    destruct (Hreq r Hr) as (ro & -> & Hro). exists ro. split; [reflexivity|now apply reorder_route_request_id]. }
  assert (C2 : remove_union_that_fail o' = Ok o').
  { apply (on_requests_id _ _ rs Er). rewrite Forall_forall. intros r Hr.
    destruct (Hreq r Hr) as (ro & -> & Hro). exists ro. split; [reflexivity|now apply union_request_id]. }
  destruct (generic_roundtrip (JObj o) (prec SERV_NMSP) Hn W) as (y0 & G1 & G2).
  exists (JObj [(SERV_NMSP, y0)]). split.
  - unfold legacy_to_yang. cbn [none_to_empty as_obj bind]. fold o'.
    rewrite H1, H2, H3, H4.
    assert (Hp : jhas "path-request" o' = true) by (unfold jhas; now rewrite Er). rewrite Hp.
    unfold chain, serv_forth. cbn [fold_left bind]. rewrite C1. cbn [bind]. rewrite C2. cbn [bind].
    unfold convert_dict. rewrite cd_obj_eq, mapM_cons, mapM_nil. cbn [fst snd].
    rewrite prec_d_dflt. cbn [none_to_empty] in G1. fold o' in G1. rewrite G1. reflexivity.
  - unfold yang_to_legacy, convert_back. cbn [empty_to_none map fst snd]. rewrite cb_obj_eq, mapM_cons, mapM_nil.
    cbn [fst snd]. rewrite G2. cbn [bind as_obj]. reflexivity.
Qed.
