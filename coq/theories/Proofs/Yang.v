(* C18 — lemmas about the model of Model/Yang.v. *)
From Verif Require Import Prelude Model.YangPrecision Model.Yang.
From Coq Require Import Lia ZifyBool.
Open Scope Z_scope.

(* ------------------------------------------------------------------ dict primitives *)
Lemma jget_jset_same : forall k v o, jget k (jset k v o) = Some v.
Proof.
  intros k v o; induction o as [|[k' v'] t IH]; cbn.
  - now rewrite String.eqb_refl.
  - destruct (String.eqb k k') eqn:E; cbn; rewrite E; [reflexivity|exact IH].
Qed.

Lemma jget_jset_other : forall k k' v o, String.eqb k k' = false -> jget k (jset k' v o) = jget k o.
Proof.
  intros k k' v o Hne; induction o as [|[k2 v2] t IH]; cbn.
  - now rewrite Hne.
  - destruct (String.eqb k' k2) eqn:E; cbn.
    + apply String.eqb_eq in E; subst k2. now rewrite Hne.
    + destruct (String.eqb k k2); [reflexivity|exact IH].
Qed.

Lemma jget_jdel_other : forall k k' o, String.eqb k k' = false -> jget k (jdel k' o) = jget k o.
Proof.
  intros k k' o Hne; induction o as [|[k2 v2] t IH]; cbn; [reflexivity|].
  destruct (String.eqb k' k2) eqn:E; cbn.
  - apply String.eqb_eq in E; subst k2. now rewrite Hne.
  - destruct (String.eqb k k2); [reflexivity|exact IH].
Qed.

Lemma jget_jdel_same : forall k o, jget k (jdel k o) = None.
Proof.
  intros k o; induction o as [|[k2 v2] t IH]; cbn; [reflexivity|].
  destruct (String.eqb k k2) eqn:E; cbn; [exact IH|now rewrite E].
Qed.

(* ------------------------------------------------------------------ induction over JSON values *)
Section JsonInd.
  Context (P : json -> Prop).
  Context (HNull : P JNull) (HBool : forall b, P (JBool b)) (HNum : forall m d, P (JNum m d))
           (HStr : forall s, P (JStr s))
           (HArr : forall l, Forall P l -> P (JArr l))
           (HObj : forall o, Forall (fun kv => P (snd kv)) o -> P (JObj o)).
  Fixpoint json_ind' (j : json) : P j :=
    match j with
    | JNull => HNull
    | JBool b => HBool b
    | JNum m d => HNum m d
    | JStr s => HStr s
    | JArr l => HArr l ((fix go (l : list json) : Forall P l :=
                           match l with [] => Forall_nil _ | x :: t => Forall_cons x (json_ind' x) (go t) end) l)
    | JObj o => HObj o ((fix go (o : list (string * json)) : Forall (fun kv => P (snd kv)) o :=
                           match o with [] => Forall_nil _ | kv :: t => Forall_cons kv (json_ind' (snd kv)) (go t) end) o)
    end.
End JsonInd.

(* ------------------------------------------------------------------ None <-> [None] *)
(* a legacy document in which no list is the singleton [null] *)
Fixpoint legacy_nulls_ok (j : json) : bool :=
  match j with
  | JArr l => match l with [JNull] => false | _ => forallb legacy_nulls_ok l end
  | JObj o => forallb (fun kv => legacy_nulls_ok (snd kv)) o
  | _ => true
  end.
(* a YANG document: null occurs only as the single element of a list, and never as [[null]] *)
Fixpoint yang_nulls_ok (j : json) : bool :=
  match j with
  | JNull => false
  | JArr l => match l with
              | [JNull] => true
              | [JArr [JNull]] => false
              | _ => forallb yang_nulls_ok l
              end
  | JObj o => forallb (fun kv => yang_nulls_ok (snd kv)) o
  | _ => true
  end.

Lemma map_id_Forall : forall {A} (f : A -> A) l, Forall (fun x => f x = x) l -> map f l = l.
Proof. intros A f l H; induction H; cbn; [reflexivity|congruence]. Qed.

Lemma map_kv_id_Forall : forall (f : json -> json) (o : obj),
  Forall (fun kv => f (snd kv) = snd kv) o -> map (fun kv => (fst kv, f (snd kv))) o = o.
Proof. intros f o H; induction H as [|[k v] t Hx Ht IH]; cbn in *; [reflexivity|congruence]. Qed.

Lemma map_kv_id_Forall' : forall (o : obj) (f : string -> json -> json),
  Forall (fun kv => f (fst kv) (snd kv) = snd kv) o -> map (fun kv => (fst kv, f (fst kv) (snd kv))) o = o.
Proof. intros o f H; induction H as [|[k v] t Hx Ht IH]; cbn in *; [reflexivity|congruence]. Qed.

Lemma n2e_arr : forall l, l <> [JNull] -> none_to_empty (JArr l) = JArr (map none_to_empty l).
Proof. intros [|x [|y t]] H; try reflexivity; destruct x; try reflexivity; now elim H. Qed.
Lemma e2n_arr : forall l, l <> [JNull] -> empty_to_none (JArr l) = JArr (map empty_to_none l).
Proof. intros [|x [|y t]] H; try reflexivity; destruct x; try reflexivity; now elim H. Qed.
Lemma legacy_nulls_arr : forall l, l <> [JNull] -> legacy_nulls_ok (JArr l) = forallb legacy_nulls_ok l.
Proof. intros [|x [|y t]] H; try reflexivity; destruct x; try reflexivity; now elim H. Qed.
Lemma yang_nulls_arr : forall l, l <> [JNull] -> l <> [JArr [JNull]] ->
  yang_nulls_ok (JArr l) = forallb yang_nulls_ok l.
Proof.
  intros [|x [|y t]] H H2; try reflexivity; destruct x; try reflexivity; try (now elim H).
  all: destruct l as [|a [|b r]]; try reflexivity; destruct a; try reflexivity; now elim H2.
Qed.

Lemma n2e_not_single_null : forall l, l <> [JNull] -> map none_to_empty l <> [JNull].
Proof.
  intros [|x [|y t]] H; cbn; try discriminate.
  destruct x; cbn; try discriminate.
  destruct l as [|a [|b r]]; try discriminate; destruct a; discriminate.
Qed.

Theorem e2n_n2e : forall j, legacy_nulls_ok j = true -> empty_to_none (none_to_empty j) = j.
Proof.
  induction j as [| | | |l IH|o IH] using json_ind'; intros W; try reflexivity.
  - (* array *)
    assert (Hl : l <> [JNull]) by (intro; subst; cbn in W; discriminate).
    rewrite legacy_nulls_arr in W by exact Hl.
    rewrite n2e_arr by exact Hl.
    rewrite e2n_arr by (apply n2e_not_single_null; exact Hl).
    rewrite map_map. f_equal. apply map_id_Forall.
    rewrite forallb_forall in W. rewrite Forall_forall in *. intros x Hx. apply IH; auto.
  - (* object *)
    cbn in *. rewrite map_map. cbn. f_equal.
    apply (map_kv_id_Forall (fun v => empty_to_none (none_to_empty v))).
    rewrite forallb_forall in W. rewrite Forall_forall in *. intros kv Hkv. apply IH; auto.
Qed.

Lemma e2n_not_single_null : forall l,
  l <> [JNull] -> l <> [JArr [JNull]] -> forallb yang_nulls_ok l = true -> map empty_to_none l <> [JNull].
Proof.
  intros [|x [|y t]] H1 H2 W; cbn; try discriminate.
  cbn in W. rewrite andb_true_r in W.
  destruct x; cbn; try discriminate.
  destruct l as [|a [|b r]]; try discriminate; destruct a; try discriminate. now elim H2.
Qed.

Lemma single_null_dec : forall l : list json, {l = [JNull]} + {l <> [JNull]}.
Proof.
  intros [|x [|y t]]; try (right; discriminate).
  destruct x; try (right; discriminate). now left.
Defined.

Theorem n2e_e2n : forall y, yang_nulls_ok y = true -> none_to_empty (empty_to_none y) = y.
Proof.
  induction y as [| | | |l IH|o IH] using json_ind'; intros W; try reflexivity; try discriminate.
  - destruct (single_null_dec l) as [E|Hl]; [subst; reflexivity|].
    assert (H2 : l <> [JArr [JNull]]) by (intro; subst; cbn in W; discriminate).
    rewrite yang_nulls_arr in W by assumption.
    rewrite e2n_arr by exact Hl.
    rewrite n2e_arr by (apply e2n_not_single_null; assumption).
    rewrite map_map. f_equal. apply map_id_Forall.
    rewrite forallb_forall in W. rewrite Forall_forall in *. intros x Hx. apply IH; auto.
  - cbn in *. rewrite map_map. cbn. f_equal.
    apply (map_kv_id_Forall (fun v => none_to_empty (empty_to_none v))).
    rewrite forallb_forall in W. rewrite Forall_forall in *. intros kv Hkv. apply IH; auto.
Qed.

(* ------------------------------------------------------------------ other_name expansion *)
(* the entry a name must map to: the declared entry without its alias list, reporting that name *)
Definition alias_entry (e : obj) (n : string) : obj := jdel "other_name" (jset "type_variety" (JStr n) e).

Lemma lookup_last_notin : forall (f : string -> obj) names n,
  ~ In n names -> lookup_last n (map (fun x => (x, f x)) names) = None.
Proof.
  intros f names n; induction names as [|a t IH]; intros H; [reflexivity|].
  cbn. rewrite IH by (intro; apply H; now right).
  destruct (String.eqb n a) eqn:E; [|reflexivity].
  apply String.eqb_eq in E. exfalso. apply H. now left.
Qed.

Lemma lookup_last_map : forall (f : string -> obj) names n,
  In n names -> lookup_last n (map (fun x => (x, f x)) names) = Some (f n).
Proof.
  intros f names n; induction names as [|a t IH]; intros H; [contradiction|].
  cbn. destruct (in_dec string_dec n t) as [Ht|Ht].
  - now rewrite IH.
  - destruct H as [->|H]; [|contradiction].
    rewrite lookup_last_notin by exact Ht. now rewrite String.eqb_refl.
Qed.

Theorem alias_spec_edfa : forall e names l,
  jhas "other_name" e = true -> alias_names e = Ok names -> expand_edfa e = Ok l ->
  forall n, In n names ->
    lookup_last n l = Some (alias_entry e n)
    /\ jget "type_variety" (alias_entry e n) = Some (JStr n)
    /\ jget "other_name" (alias_entry e n) = None
    /\ (forall k, String.eqb k "type_variety" = false -> String.eqb k "other_name" = false ->
                  jget k (alias_entry e n) = jget k e).
Proof.
  intros e names l Hh Hn Hx n Hin. unfold expand_edfa in Hx. rewrite Hh, Hn in Hx. cbn in Hx.
  injection Hx as <-. unfold alias_entry. repeat split.
  - exact (lookup_last_map (fun n => jdel "other_name" (jset "type_variety" (JStr n) e)) names n Hin).
  - rewrite jget_jdel_other by reflexivity. apply jget_jset_same.
  - apply jget_jdel_same.
  - intros k H1 H2. rewrite jget_jdel_other by exact H2. apply jget_jset_other; exact H1.
Qed.

Lemma jset_jdel_comm : forall k k' v o, String.eqb k k' = false ->
  jset k v (jdel k' o) = jdel k' (jset k v o).
Proof.
  intros k k' v o Hne. assert (Hne' : String.eqb k' k = false) by (rewrite String.eqb_sym; exact Hne).
  induction o as [|[k2 v2] t IH].
  - cbn. now rewrite Hne'.
  - destruct (String.eqb k' k2) eqn:E1; destruct (String.eqb k k2) eqn:E2.
    + apply String.eqb_eq in E1, E2. subst. now rewrite String.eqb_refl in Hne.
    + cbn [jdel jset]. rewrite E1, E2. cbn [jdel]. rewrite E1. exact IH.
    + cbn [jdel jset]. rewrite E1, E2. cbn [jdel jset]. rewrite E1, E2. reflexivity.
    + cbn [jdel jset]. rewrite E1, E2. cbn [jdel jset]. rewrite E1, E2, IH. reflexivity.
Qed.

(* the Transceiver branch (after the fix of F5) builds the same entries as the Edfa branch *)
Lemma expand_trx_eq : forall e, expand_trx e = expand_edfa e.
Proof.
  intros e. unfold expand_trx, expand_edfa. destruct (jhas "other_name" e); [|reflexivity].
  destruct (alias_names e) as [names|]; [|reflexivity]. cbn [bind]. f_equal.
  apply map_ext. intros n. f_equal. now apply jset_jdel_comm.
Qed.

Theorem alias_spec_trx : forall e names l,
  jhas "other_name" e = true -> alias_names e = Ok names -> expand_trx e = Ok l ->
  forall n, In n names ->
    lookup_last n l = Some (alias_entry e n)
    /\ jget "type_variety" (alias_entry e n) = Some (JStr n)
    /\ jget "other_name" (alias_entry e n) = None
    /\ (forall k, String.eqb k "type_variety" = false -> String.eqb k "other_name" = false ->
                  jget k (alias_entry e n) = jget k e).
Proof. intros e names l Hh Hn Hx. rewrite expand_trx_eq in Hx. exact (alias_spec_edfa e names l Hh Hn Hx). Qed.

(* ------------------------------------------------------------------ decimal text: printing and parsing *)
Lemma pow10_pos : forall n, 0 < pow10 n.
Proof. intros n; unfold pow10; apply Z.pow_pos_nonneg; lia. Qed.

Lemma pow10_S : forall n, pow10 (S n) = 10 * pow10 n.
Proof. intros n; unfold pow10. rewrite Nat2Z.inj_succ, Z.pow_succ_r by lia. reflexivity. Qed.

Lemma pow10_add : forall a b, pow10 (a + b) = pow10 a * pow10 b.
Proof. intros a b; unfold pow10. rewrite Nat2Z.inj_add, Z.pow_add_r by lia. reflexivity. Qed.

Definition is_digit (c : ascii) : Prop := exists v, digit_val c = Some v /\ 0 <= v <= 9.

Lemma digit_cases : forall d, 0 <= d <= 9 ->
  d = 0 \/ d = 1 \/ d = 2 \/ d = 3 \/ d = 4 \/ d = 5 \/ d = 6 \/ d = 7 \/ d = 8 \/ d = 9.
Proof. intros; lia. Qed.

Lemma digit_val_char : forall d, 0 <= d <= 9 -> digit_val (digit_char d) = Some d.
Proof.
  intros d H. destruct (digit_cases d H) as [->|[->|[->|[->|[->|[->|[->|[->|[->| ->]]]]]]]]]; reflexivity.
Qed.

Lemma digit_char_not_special : forall d, 0 <= d <= 9 ->
  Ascii.eqb (digit_char d) dot = false /\ Ascii.eqb (digit_char d) minus = false /\ Ascii.eqb (digit_char d) plus = false.
Proof.
  intros d H. destruct (digit_cases d H) as [->|[->|[->|[->|[->|[->|[->|[->|[->| ->]]]]]]]]]; repeat split; reflexivity.
Qed.

Definition digit_like (c : ascii) : Prop :=
  (exists v, digit_val c = Some v) /\ Ascii.eqb c dot = false /\ Ascii.eqb c minus = false /\ Ascii.eqb c plus = false.

Lemma digit_char_like : forall d, 0 <= d <= 9 -> digit_like (digit_char d).
Proof.
  intros d H. split; [exists d; now apply digit_val_char|now apply digit_char_not_special].
Qed.

Lemma mod10_range : forall n, 0 <= n mod 10 <= 9.
Proof. intros n; pose proof (Z.mod_pos_bound n 10); lia. Qed.

Lemma digs_like : forall k n, Forall digit_like (digs k n).
Proof.
  induction k as [|k IH]; intros n; cbn; [constructor|].
  apply Forall_app; split; [apply IH|]. constructor; [|constructor]. apply digit_char_like, mod10_range.
Qed.

Lemma digs_length : forall k n, length (digs k n) = k.
Proof. induction k as [|k IH]; intros n; cbn; [reflexivity|]. rewrite app_length, IH; cbn; lia. Qed.

Lemma val_acc_app : forall a b acc,
  val_acc acc (a ++ b) = match val_acc acc a with Some v => val_acc v b | None => None end.
Proof.
  induction a as [|c t IH]; intros b acc; cbn; [reflexivity|].
  destruct (digit_val c); [apply IH|reflexivity].
Qed.

Lemma val_acc_digs : forall k n acc, val_acc acc (digs k n) = Some (acc * pow10 k + n mod pow10 k).
Proof.
  induction k as [|k IH]; intros n acc.
  - cbn. unfold pow10; cbn. rewrite Z.mod_1_r. f_equal; lia.
  - cbn [digs]. rewrite val_acc_app, IH. cbn [val_acc]. rewrite digit_val_char by apply mod10_range.
    f_equal. rewrite pow10_S.
    rewrite (Z.rem_mul_r n 10 (pow10 k)) by (try lia; apply pow10_pos). ring.
Qed.

Lemma ndigits_fuel_bound : forall f n, 0 <= n -> n < pow10 (S f) -> n < pow10 (ndigits_fuel f n).
Proof.
  induction f as [|f IH]; intros n H0 H; cbn [ndigits_fuel]; [exact H|].
  destruct (n <? 10) eqn:E; [unfold pow10; cbn; lia|].
  assert (Hq : n / 10 < pow10 (S f)).
  { rewrite (pow10_S (S f)) in H. apply Z.div_lt_upper_bound; lia. }
  specialize (IH (n / 10) ltac:(apply Z.div_pos; lia) Hq).
  rewrite pow10_S. pose proof (Z.div_mod n 10 ltac:(lia)). pose proof (mod10_range n). lia.
Qed.

Lemma ndigits_bound : forall n, 0 <= n -> n < pow10 (ndigits n).
Proof.
  intros n H. unfold ndigits. apply ndigits_fuel_bound; [exact H|].
  destruct (Z.eq_dec n 0) as [->|Hn]; [unfold pow10; cbn; lia|].
  assert (Hl : 0 <= Z.log2 n) by apply Z.log2_nonneg.
  pose proof (Z.log2_spec n ltac:(lia)) as [_ Hs].
  unfold pow10. rewrite Nat2Z.inj_succ, Z2Nat.id by lia.
  eapply Z.lt_le_trans; [exact Hs|].
  apply Z.pow_le_mono_l; lia.
Qed.

Lemma ndigits_pos : forall n, (1 <= ndigits n)%nat.
Proof.
  intros n; unfold ndigits. destruct (Z.to_nat (Z.log2 n)); cbn; [lia|]. destruct (n <? 10); lia.
Qed.

Lemma val_nat_str : forall n acc, 0 <= n -> val_acc acc (nat_str n) = Some (acc * pow10 (ndigits n) + n).
Proof.
  intros n acc H. unfold nat_str. rewrite val_acc_digs. f_equal. f_equal.
  apply Z.mod_small. split; [exact H|now apply ndigits_bound].
Qed.

Lemma split_dot_like : forall l r, Forall digit_like l ->
  split_dot (l ++ r) = (l ++ fst (split_dot r), snd (split_dot r)).
Proof.
  induction l as [|c t IH]; intros r H; cbn.
  - now destruct (split_dot r).
  - inversion H as [|? ? Hc Ht]; subst. destruct Hc as [_ [Hd _]]. rewrite Hd.
    rewrite (IH r Ht). reflexivity.
Qed.

Lemma strip_sign_like : forall l r, Forall digit_like l -> l <> [] -> strip_sign (l ++ r) = (false, l ++ r).
Proof.
  intros [|c t] r H Hn; [now elim Hn|]. cbn. inversion H as [|? ? Hc Ht]; subst.
  destruct Hc as [_ [_ [Hm Hp]]]. now rewrite Hm, Hp.
Qed.

Lemma nat_str_like : forall n, Forall digit_like (nat_str n).
Proof. intros; apply digs_like. Qed.
Lemma nat_str_nonempty : forall n, nat_str n <> [].
Proof.
  intros n H. apply (f_equal (@length _)) in H. unfold nat_str in H. rewrite digs_length in H.
  pose proof (ndigits_pos n). cbn in H. lia.
Qed.

Lemma strip_sign_signed : forall neg l r, Forall digit_like l -> l <> [] ->
  strip_sign (sign_str neg ++ l ++ r) = (neg, l ++ r).
Proof.
  intros [|] l r H Hn; cbn [sign_str app].
  - cbn. reflexivity.
  - now apply strip_sign_like.
Qed.

(* float(s) on the text the formatter produces *)
Lemma py_float_fixed : forall neg a d, 0 <= a ->
  py_float (string_of_list_ascii (fixed_str neg a d)) = Ok (norm_float (if neg then - a else a) d).
Proof.
  intros neg a d Ha. unfold py_float, fixed_str.
  rewrite list_ascii_of_string_of_list_ascii.
  rewrite strip_sign_signed by (apply nat_str_like || apply nat_str_nonempty).
  rewrite split_dot_like by apply nat_str_like.
  cbn [split_dot]. rewrite Ascii.eqb_refl. cbn [fst snd]. rewrite app_nil_r.
  assert (Hne : nat_str (a / pow10 d) ++ digs d (a mod pow10 d) <> []).
  { intro H. apply app_eq_nil in H. destruct H as [H _]. now apply nat_str_nonempty in H. }
  destruct (nat_str (a / pow10 d) ++ digs d (a mod pow10 d)) eqn:E; [now elim Hne|]. rewrite <- E.
  rewrite val_acc_app, val_nat_str by (apply Z.div_pos; [lia|apply pow10_pos]).
  rewrite val_acc_digs, digs_length. f_equal. f_equal.
  pose proof (pow10_pos d). pose proof (pow10_pos (ndigits (a / pow10 d))).
  rewrite Z.mod_mod by lia. rewrite Z.mul_0_l, Z.add_0_l.
  assert (a / pow10 d * pow10 d + a mod pow10 d = a) as -> by (pose proof (Z.div_mod a (pow10 d)); lia).
  reflexivity.
Qed.

(* ---- trailing zeros ---- *)
Lemma strip0_SS : forall a p,
  strip0 a (S (S p)) = if a mod 10 =? 0 then strip0 (a / 10) (S p) else (a, S (S p)).
Proof. reflexivity. Qed.

Lemma strip0_pad : forall k a d, (1 <= d)%nat -> strip0 (a * pow10 k) (d + k) = strip0 a d.
Proof.
  induction k as [|k IH]; intros a d Hd.
  - unfold pow10; cbn. rewrite Z.mul_1_r, Nat.add_0_r. reflexivity.
  - replace (d + S k)%nat with (S (d + k)) by lia.
    destruct (d + k)%nat as [|p] eqn:E; [lia|].
    rewrite strip0_SS, pow10_S.
    replace (a * (10 * pow10 k)) with (a * pow10 k * 10) by ring.
    rewrite Z.mod_mul, Z.div_mul by lia. cbn [Z.eqb]. rewrite <- E. now apply IH.
Qed.

Lemma strip0_spec : forall d a a' d', strip0 a d = (a', d') ->
  (d' <= d)%nat /\ ((1 <= d)%nat -> (1 <= d')%nat) /\ a = a' * pow10 (d - d') /\ strip0 a' d' = (a', d').
Proof.
  induction d as [|d IH]; intros a a' d' H.
  - cbn in H. injection H as <- <-. repeat split; try lia. unfold pow10; cbn; lia.
  - destruct d as [|p].
    + cbn in H. injection H as <- <-. repeat split; try lia. unfold pow10; cbn; lia.
    + rewrite strip0_SS in H. destruct (a mod 10 =? 0) eqn:E.
      * destruct (IH _ _ _ H) as (H1 & H2 & H3 & H4). repeat split; try lia; [|exact H4].
        specialize (H2 ltac:(lia)).
        replace (S (S p) - d')%nat with (S (S p - d')) by lia. rewrite pow10_S.
        pose proof (Z.div_mod a 10 ltac:(lia)). lia.
      * injection H as <- <-. repeat split; try lia.
        -- rewrite Nat.sub_diag. unfold pow10; cbn; lia.
        -- rewrite strip0_SS, E. reflexivity.
Qed.

(* a float as the model represents it *)
Definition wf_float (m : Z) (d : nat) : Prop := (1 <= d)%nat /\ strip0 (Z.abs m) d = (Z.abs m, d).

Lemma norm_float_wf : forall m d, wf_float m d -> norm_float m d = JNum m d.
Proof.
  intros m d [Hd Hs]. unfold norm_float. destruct d as [|p]; [lia|]. rewrite Hs.
  destruct (m <? 0) eqn:E; f_equal; lia.
Qed.

Lemma norm_float_is_wf : forall m d m' d', (1 <= d)%nat -> norm_float m d = JNum m' d' ->
  wf_float m' d' /\ (d' <= d)%nat.
Proof.
  intros m d m' d' Hd H. unfold norm_float in H. destruct d as [|p]; [lia|].
  destruct (strip0 (Z.abs m) (S p)) as [a dd] eqn:E.
  destruct (strip0_spec _ _ _ _ E) as (H1 & H2 & H3 & H4).
  assert (Ha : 0 <= a).
  { pose proof (pow10_pos (S p - dd)). pose proof (Z.abs_nonneg m). nia. }
  injection H as <- <-. split; [|exact H1]. split; [apply H2; lia|].
  destruct (m <? 0); [rewrite Z.abs_opp|]; rewrite Z.abs_eq by exact Ha; exact H4.
Qed.

(* ---- the value a number has after one conversion to text with fd fraction digits and back ---- *)
Definition quant_pair (fd : nat) (m : Z) (d : nat) : Z * nat :=
  if (d =? 0)%nat || repr_has_e m d || (Z.of_nat fd <? 17) then (round_he (Z.abs m) d fd, fd)
  else trunc_to (Z.abs m) d fd.
Definition quant (fd : nat) (m : Z) (d : nat) : json :=
  let '(a1, d1) := quant_pair fd m d in norm_float (if m <? 0 then - a1 else a1) d1.

Lemma round_he_nonneg : forall a d fd, 0 <= a -> 0 <= round_he a d fd.
Proof.
  intros a d fd H. unfold round_he. destruct (d <=? fd)%nat.
  - pose proof (pow10_pos (fd - d)). nia.
  - pose proof (pow10_pos (d - fd)) as Hp.
    assert (0 <= a / pow10 (d - fd)) by (apply Z.div_pos; lia).
    destruct (2 * (a mod pow10 (d - fd)) <? pow10 (d - fd)); [lia|].
    destruct (pow10 (d - fd) <? 2 * (a mod pow10 (d - fd))); [lia|].
    destruct (Z.even (a / pow10 (d - fd))); lia.
Qed.

(* round_he is a nearest rounding: the error is at most half a unit of the last kept digit *)
Lemma round_he_nearest : forall a d fd, 0 <= a -> (fd < d)%nat ->
  2 * Z.abs (round_he a d fd * pow10 (d - fd) - a) <= pow10 (d - fd).
Proof.
  intros a d fd H Hlt. unfold round_he. destruct (d <=? fd)%nat eqn:E; [apply Nat.leb_le in E; lia|].
  pose proof (pow10_pos (d - fd)) as Hp. set (p := pow10 (d - fd)) in *.
  pose proof (Z.div_mod a p ltac:(lia)) as Hdm. pose proof (Z.mod_pos_bound a p Hp) as Hb.
  destruct (2 * (a mod p) <? p) eqn:E1; [lia|].
  destruct (p <? 2 * (a mod p)) eqn:E2; [lia|].
  destruct (Z.even (a / p)); lia.
Qed.

Lemma quant_pair_nonneg : forall fd m d, 0 <= fst (quant_pair fd m d).
Proof.
  intros fd m d. unfold quant_pair.
  destruct ((d =? 0)%nat || repr_has_e m d || (Z.of_nat fd <? 17)); cbn [fst].
  - apply round_he_nonneg, Z.abs_nonneg.
  - unfold trunc_to. destruct (d <=? fd)%nat; cbn [fst]; [apply Z.abs_nonneg|].
    apply Z.div_pos; [apply Z.abs_nonneg|apply pow10_pos].
Qed.

Lemma quant_pair_digits : forall fd m d, (1 <= fd)%nat ->
  (1 <= snd (quant_pair fd m d) <= fd)%nat.
Proof.
  intros fd m d Hf. unfold quant_pair.
  destruct ((d =? 0)%nat || repr_has_e m d || (Z.of_nat fd <? 17)) eqn:Eb; cbn [snd]; [lia|].
  assert (Hd : (1 <= d)%nat) by (destruct d; [cbn in Eb; discriminate|lia]).
  unfold trunc_to. destruct (d <=? fd)%nat eqn:E; cbn [snd]; [apply Nat.leb_le in E; lia|lia].
Qed.

Lemma sign_abs : forall m, (if m <? 0 then - Z.abs m else Z.abs m) = m.
Proof. intros m; destruct (m <? 0) eqn:E; lia. Qed.

Lemma norm_float_pad : forall m d k, wf_float m d -> norm_float (m * pow10 k) (d + k) = JNum m d.
Proof.
  intros m d k [Hd Hs]. unfold norm_float. destruct (d + k)%nat as [|p] eqn:E; [lia|]. rewrite <- E.
  pose proof (pow10_pos k) as Hp.
  rewrite Z.abs_mul, (Z.abs_eq (pow10 k)) by lia. rewrite strip0_pad, Hs by exact Hd.
  assert ((m * pow10 k <? 0) = (m <? 0)) as -> by (destruct (m <? 0) eqn:Em; nia).
  f_equal. apply sign_abs.
Qed.

(* a float with at most fd digits is not changed *)
Lemma quant_exact : forall fd m d, wf_float m d -> (d <= fd)%nat -> quant fd m d = JNum m d.
Proof.
  intros fd m d W Hle. unfold quant, quant_pair.
  destruct ((d =? 0)%nat || repr_has_e m d || (Z.of_nat fd <? 17)).
  - unfold round_he. apply Nat.leb_le in Hle. rewrite Hle. apply Nat.leb_le in Hle.
    assert ((if m <? 0 then - (Z.abs m * pow10 (fd - d)) else Z.abs m * pow10 (fd - d)) = m * pow10 (fd - d)) as ->
      by (destruct (m <? 0) eqn:E; nia).
    replace fd with (d + (fd - d))%nat at 2 by lia. now apply norm_float_pad.
  - unfold trunc_to. apply Nat.leb_le in Hle. rewrite Hle. rewrite sign_abs. now apply norm_float_wf.
Qed.

Lemma quant_is_wf : forall fd m d m' d', (1 <= fd)%nat -> quant fd m d = JNum m' d' ->
  wf_float m' d' /\ (d' <= fd)%nat.
Proof.
  intros fd m d m' d' Hf H. unfold quant in H.
  pose proof (quant_pair_digits fd m d Hf) as Hq.
  destruct (quant_pair fd m d) as [a1 d1]. cbn [snd] in Hq.
  destruct (norm_float_is_wf _ _ _ _ (proj1 Hq) H) as [W Hle]. split; [exact W|lia].
Qed.

(* rounded once: converting the converted value again changes nothing *)
Lemma quant_idempotent : forall fd m d m' d', (1 <= fd)%nat -> quant fd m d = JNum m' d' ->
  quant fd m' d' = JNum m' d'.
Proof. intros fd m d m' d' Hf H. destruct (quant_is_wf _ _ _ _ _ Hf H). now apply quant_exact. Qed.

Lemma quant_is_num : forall fd m d, exists m' d', quant fd m d = JNum m' d'.
Proof.
  intros fd m d. unfold quant. destruct (quant_pair fd m d) as [a1 d1]. unfold norm_float.
  destruct d1; [eauto|]. destruct (strip0 _ _); eauto.
Qed.

(* ---- str(PrettyFloat(x, fd)) followed by float() ---- *)
Lemma pretty_parse : forall fd m d, (1 <= fd <= 18)%nat ->
  exists s, pretty (Z.of_nat fd) m d = Ok s /\ py_float (string_of_list_ascii s) = Ok (quant fd m d).
Proof.
  intros fd m d Hf. unfold pretty.
  assert (E0 : (Z.of_nat fd <? 0) || (18 <? Z.of_nat fd) = false) by lia. rewrite E0.
  rewrite Nat2Z.id. unfold quant, quant_pair.
  destruct ((d =? 0)%nat || repr_has_e m d || (Z.of_nat fd <? 17)) eqn:Eb.
  - destruct fd as [|q]; [lia|].
    destruct (strip0 (round_he (Z.abs m) d (S q)) (S q)) as [a' d'] eqn:Es.
    eexists; split; [reflexivity|].
    pose proof (round_he_nonneg (Z.abs m) d (S q) (Z.abs_nonneg m)) as Hr.
    destruct (strip0_spec _ _ _ _ Es) as (H1 & H2 & H3 & H4).
    assert (Ha' : 0 <= a') by (pose proof (pow10_pos (S q - d')); nia).
    rewrite py_float_fixed by exact Ha'.
    (* both sides are norm_float of the same magnitude with the same sign test *)
    unfold norm_float at 2.
    assert (Habs : Z.abs (if m <? 0 then - round_he (Z.abs m) d (S q) else round_he (Z.abs m) d (S q))
                   = round_he (Z.abs m) d (S q)) by (destruct (m <? 0); lia).
    rewrite Habs, Es.
    specialize (H2 ltac:(lia)).
    assert (W : wf_float (if m <? 0 then - a' else a') d').
    { split; [exact H2|]. destruct (m <? 0); [rewrite Z.abs_opp|]; rewrite Z.abs_eq by exact Ha'; exact H4. }
    rewrite (norm_float_wf _ _ W). f_equal.
    destruct (m <? 0) eqn:Em;
      [|assert ((round_he (Z.abs m) d (S q) <? 0) = false) as -> by lia; reflexivity].
    destruct (Z.eq_dec a' 0) as [->|Hn0].
    + assert (round_he (Z.abs m) d (S q) = 0) as -> by lia. reflexivity.
    + assert (0 < round_he (Z.abs m) d (S q)) by (pose proof (pow10_pos (S q - d')); nia).
      assert ((- round_he (Z.abs m) d (S q) <? 0) = true) as -> by lia.
      assert ((- a' <? 0) = true) by lia. reflexivity.
  - destruct (trunc_to (Z.abs m) d fd) as [a1 d1] eqn:Et.
    destruct (strip0 a1 d1) as [a' d'] eqn:Es.
    eexists; split; [reflexivity|].
    assert (Hd : (1 <= d)%nat).
    { destruct d; [cbn in Eb; discriminate|lia]. }
    assert (Ha1 : 0 <= a1 /\ (1 <= d1)%nat).
    { unfold trunc_to in Et. destruct (d <=? fd)%nat; injection Et as <- <-.
      - split; [apply Z.abs_nonneg|lia].
      - split; [apply Z.div_pos; [apply Z.abs_nonneg|apply pow10_pos]|lia]. }
    destruct (strip0_spec _ _ _ _ Es) as (H1 & H2 & H3 & H4).
    assert (Ha' : 0 <= a') by (pose proof (pow10_pos (d1 - d')); nia).
    rewrite py_float_fixed by exact Ha'.
    unfold norm_float at 2. destruct d1 as [|p1]; [lia|].
    assert (Habs : Z.abs (if m <? 0 then - a1 else a1) = a1) by (destruct (m <? 0); lia).
    rewrite Habs, Es.
    specialize (H2 ltac:(lia)).
    assert (W : wf_float (if m <? 0 then - a' else a') d').
    { split; [exact H2|]. destruct (m <? 0); [rewrite Z.abs_opp|]; rewrite Z.abs_eq by exact Ha'; exact H4. }
    rewrite (norm_float_wf _ _ W). f_equal.
    destruct (m <? 0) eqn:Em; [|assert ((a1 <? 0) = false) as -> by lia; reflexivity].
    destruct (Z.eq_dec a' 0) as [->|Hn0].
    + assert (a1 = 0) as -> by lia. reflexivity.
    + assert (0 < a1) by (pose proof (pow10_pos (S p1 - d')); nia).
      assert ((- a1 <? 0) = true) as -> by lia.
      assert ((- a' <? 0) = true) by lia. reflexivity.
Qed.

(* ------------------------------------------------------------------ convert_dict / convert_back on documents *)
Lemma mapM_chain : forall {A B C} (f : A -> res B) (g : B -> res C) (q : A -> C) l,
  Forall (fun x => exists y, f x = Ok y /\ g y = Ok (q x)) l ->
  exists l', mapM f l = Ok l' /\ mapM g l' = Ok (map q l).
Proof.
  intros A B C f g q l H; induction H as [|x t (y & Hf & Hg) Ht (t' & IH1 & IH2)].
  - exists []. split; reflexivity.
  - exists (y :: t'). split; cbn.
    + fold (mapM f). rewrite Hf. cbn. rewrite IH1. reflexivity.
    + fold (mapM g). rewrite Hg. cbn. rewrite IH2. reflexivity.
Qed.

Arguments prec k : simpl never.
Arguments prec_d k : simpl never.

Definition dflt (c : option Z) : Z := match c with Some f => f | None => 2 end.
Lemma prec_d_dflt : forall k, prec_d k = dflt (prec k).
Proof. reflexivity. Qed.

(* what convert_back does to one element of a list *)
Definition cb_elem (c : option Z) (x : json) : res json :=
  match x with
  | JStr s => if in_none_m1 c then Ok x else py_float s
  | _ => convert_back_fd c x
  end.

Lemma cb_arr_eq : forall c l, convert_back_fd c (JArr l) = let* l' := mapM (cb_elem c) l in Ok (JArr l').
Proof. reflexivity. Qed.
Lemma cb_obj_eq : forall c o, convert_back_fd c (JObj o) =
  let* o' := mapM (fun kv => let* v' := convert_back_fd (prec (fst kv)) (snd kv) in Ok (fst kv, v')) o in Ok (JObj o').
Proof. reflexivity. Qed.
Lemma cd_arr_eq : forall fd l, convert_dict_fd fd (JArr l) = let* l' := mapM (convert_dict_fd fd) l in Ok (JArr l').
Proof. reflexivity. Qed.
Lemma cd_obj_eq : forall fd o, convert_dict_fd fd (JObj o) =
  let* o' := mapM (fun kv => let* v' := convert_dict_fd (prec_d (fst kv)) (snd kv) in Ok (fst kv, v')) o in Ok (JObj o').
Proof. reflexivity. Qed.

(* documents whose numbers sit in leaves that declare a precision: an int in an integer leaf (0 digits),
   any number in a decimal leaf (1..18 digits); strings only in string-typed or undeclared leaves *)
Definition num_loose (c : option Z) (d : nat) : bool :=
  match c with
  | None => false
  | Some f => if f =? 0 then (d =? 0)%nat else (0 <? f) && (f <=? 18)
  end.
Fixpoint doc_loose (c : option Z) (j : json) : bool :=
  match j with
  | JNum m d => num_loose c d
  | JStr _ => in_none_m1 c
  | JArr l => forallb (doc_loose c) l
  | JObj o => forallb (fun kv => doc_loose (prec (fst kv)) (snd kv)) o
  | _ => true
  end.
(* ... and whose floats have at most the declared number of digits *)
Definition wf_float_b (m : Z) (d : nat) : bool :=
  (1 <=? d)%nat && (let '(a, d') := strip0 (Z.abs m) d in (a =? Z.abs m) && (d' =? d)%nat).
Definition num_ok (c : option Z) (m : Z) (d : nat) : bool :=
  match c with
  | None => false
  | Some f => if f =? 0 then (d =? 0)%nat
              else (0 <? f) && (f <=? 18) && wf_float_b m d && (Z.of_nat d <=? f)
  end.
Fixpoint doc_ok (c : option Z) (j : json) : bool :=
  match j with
  | JNum m d => num_ok c m d
  | JStr _ => in_none_m1 c
  | JArr l => forallb (doc_ok c) l
  | JObj o => forallb (fun kv => doc_ok (prec (fst kv)) (snd kv)) o
  | _ => true
  end.

Lemma wf_float_b_spec : forall m d, wf_float_b m d = true <-> wf_float m d.
Proof.
  intros m d. unfold wf_float_b, wf_float. destruct (strip0 (Z.abs m) d) as [a d'] eqn:E. split.
  - intros H. apply andb_true_iff in H as [H1 H2]. apply andb_true_iff in H2 as [H2 H3].
    apply Nat.leb_le in H1. apply Z.eqb_eq in H2. apply Nat.eqb_eq in H3. subst. auto.
  - intros [H1 H2]. injection H2 as -> ->. apply Nat.leb_le in H1. rewrite H1, Z.eqb_refl, Nat.eqb_refl. reflexivity.
Qed.

(* the document after legacy -> text -> legacy: every number of a decimal leaf brought to the declared digits *)
Fixpoint quant_doc (c : option Z) (j : json) : json :=
  match j with
  | JNum m d => match c with
                | Some f => if 0 <? f then quant (Z.to_nat f) m d else j
                | None => j
                end
  | JArr l => JArr (map (quant_doc c) l)
  | JObj o => JObj (map (fun kv => (fst kv, quant_doc (prec (fst kv)) (snd kv))) o)
  | _ => j
  end.

Lemma cb_of_num : forall c m d, convert_back_fd c (JNum m d) = Ok (JNum m d).
Proof. reflexivity. Qed.

Lemma cd_cb_main : forall x c, doc_loose c x = true ->
  exists y, convert_dict_fd (dflt c) x = Ok y /\ convert_back_fd c y = Ok (quant_doc c x)
            /\ cb_elem c y = Ok (quant_doc c x).
Proof.
  induction x as [| | | |l IH|o IH] using json_ind'; intros c W.
  - exists JNull. repeat split; reflexivity.
  - exists (JBool b). repeat split; reflexivity.
  - (* number *)
    cbn in W. unfold num_loose in W. destruct c as [f|]; [|discriminate]. cbn [dflt quant_doc].
    destruct (f =? 0) eqn:Ef.
    + apply Z.eqb_eq in Ef. subst f. apply Nat.eqb_eq in W. subst d.
      exists (JNum m 0). repeat split; reflexivity.
    + apply andb_true_iff in W as [W1 W2].
      assert (Hf : (1 <= Z.to_nat f <= 18)%nat) by lia.
      destruct (pretty_parse (Z.to_nat f) m d Hf) as (s & Hs & Hp).
      rewrite Z2Nat.id in Hs by lia.
      assert (Hc : convert_dict_fd f (JNum m d) = Ok (JStr (string_of_list_ascii s))).
      { cbn. unfold cnum. destruct d; rewrite ?W1, Hs; reflexivity. }
      exists (JStr (string_of_list_ascii s)). rewrite W1. repeat split; [exact Hc| |].
      * cbn. rewrite W1. exact Hp.
      * unfold cb_elem, in_none_m1. assert ((f =? -1) = false) as -> by lia. exact Hp.
  - (* string *)
    cbn in W. exists (JStr s). repeat split; try reflexivity.
    + destruct c as [f|]; [|reflexivity]. cbn in W. cbn.
      assert ((0 <? f) = false) as -> by lia. assert ((f <? 0) = true) as -> by lia. reflexivity.
    + cbn. rewrite W. reflexivity.
  - (* array *)
    cbn in W.
    assert (Hall : Forall (fun x => exists y, convert_dict_fd (dflt c) x = Ok y /\ cb_elem c y = Ok (quant_doc c x)) l).
    { rewrite forallb_forall in W. rewrite Forall_forall in *. intros x Hx.
      destruct (IH x Hx c (W x Hx)) as (y & H1 & _ & H3). eauto. }
    destruct (mapM_chain _ _ _ _ Hall) as (l' & H1 & H2).
    exists (JArr l'). rewrite cd_arr_eq, H1. cbn [bind quant_doc]. split; [reflexivity|].
    assert (Hb : convert_back_fd c (JArr l') = Ok (JArr (map (quant_doc c) l))) by (rewrite cb_arr_eq, H2; reflexivity).
    split; [exact Hb|exact Hb].
  - (* object *)
    cbn in W.
    assert (Hall : Forall (fun kv => exists kv',
                (let* v' := convert_dict_fd (prec_d (fst kv)) (snd kv) in Ok (fst kv, v')) = Ok kv' /\
                (let* v' := convert_back_fd (prec (fst kv')) (snd kv') in Ok (fst kv', v'))
                  = Ok ((fun kv => (fst kv, quant_doc (prec (fst kv)) (snd kv))) kv)) o).
    { rewrite forallb_forall in W. rewrite Forall_forall in *. intros kv Hkv.
      destruct (IH kv Hkv (prec (fst kv)) (W kv Hkv)) as (y & H1 & H2 & _).
      exists (fst kv, y). rewrite prec_d_dflt, H1. cbn [fst snd bind]. rewrite H2. split; reflexivity. }
    destruct (mapM_chain _ _ _ _ Hall) as (o' & H1 & H2).
    exists (JObj o'). rewrite cd_obj_eq, H1. cbn [bind quant_doc]. split; [reflexivity|].
    assert (Hb : convert_back_fd c (JObj o') =
                 Ok (JObj (map (fun kv => (fst kv, quant_doc (prec (fst kv)) (snd kv))) o)))
      by (rewrite cb_obj_eq, H2; reflexivity).
    split; exact Hb.
Qed.

Lemma doc_ok_loose : forall x c, doc_ok c x = true -> doc_loose c x = true.
Proof.
  induction x as [| | | |l IH|o IH] using json_ind'; intros c W; try exact W; try reflexivity.
  - cbn in *. unfold num_ok in W. unfold num_loose. destruct c as [f|]; [|discriminate].
    destruct (f =? 0); [exact W|]. apply andb_true_iff in W as [W _]. apply andb_true_iff in W as [W _]. exact W.
  - cbn in *. rewrite forallb_forall in *. rewrite Forall_forall in IH. intros x Hx. apply IH; auto.
  - cbn in *. rewrite forallb_forall in *. rewrite Forall_forall in IH. intros kv Hkv. apply IH; auto.
Qed.

Lemma quant_doc_exact : forall x c, doc_ok c x = true -> quant_doc c x = x.
Proof.
  induction x as [| | | |l IH|o IH] using json_ind'; intros c W; try reflexivity.
  - cbn in *. unfold num_ok in W. destruct c as [f|]; [|reflexivity].
    destruct (0 <? f) eqn:E0; [|reflexivity].
    assert ((f =? 0) = false) as Ef by lia. rewrite Ef in W.
    apply andb_true_iff in W as [W W4]. apply andb_true_iff in W as [W W3]. apply andb_true_iff in W as [W1 W2].
    apply wf_float_b_spec in W3. apply quant_exact; [exact W3|lia].
  - cbn in *. f_equal. apply map_id_Forall. rewrite forallb_forall in W. rewrite Forall_forall in *.
    intros x Hx. apply IH; auto.
  - cbn in *. f_equal. apply (map_kv_id_Forall' o (fun k v => quant_doc (prec k) v)).
    rewrite forallb_forall in W. rewrite Forall_forall in *. intros kv Hkv. apply IH; auto.
Qed.

Lemma quant_doc_ok : forall x c, doc_loose c x = true -> doc_ok c (quant_doc c x) = true.
Proof.
  induction x as [| | | |l IH|o IH] using json_ind'; intros c W; try exact W; try reflexivity.
  - cbn in *. unfold num_loose in W. destruct c as [f|]; [|discriminate].
    destruct (f =? 0) eqn:Ef.
    + assert ((0 <? f) = false) as -> by lia. cbn. now rewrite Ef.
    + apply andb_true_iff in W as [W1 W2]. rewrite W1.
      destruct (quant_is_num (Z.to_nat f) m d) as (m' & d' & Hq). rewrite Hq.
      assert (Hf1 : (1 <= Z.to_nat f)%nat) by lia.
      destruct (quant_is_wf _ _ _ _ _ Hf1 Hq) as [Wf Hd].
      cbn. rewrite Ef, W1, W2. apply wf_float_b_spec in Wf. rewrite Wf. cbn. lia.
  - cbn in *. rewrite forallb_forall in *. rewrite Forall_forall in IH. intros x Hx.
    apply in_map_iff in Hx as (x0 & <- & Hx0). apply IH; auto.
  - cbn in *. rewrite forallb_forall in *. rewrite Forall_forall in IH. intros kv Hkv.
    apply in_map_iff in Hkv as (kv0 & <- & Hkv0). cbn [fst snd]. apply IH; auto.
Qed.

(* back (forth d) = d : every value already within its declared precision survives unchanged *)
Theorem cback_cdict_exact : forall x, doc_ok None x = true ->
  exists y, convert_dict x = Ok y /\ convert_back y = Ok x.
Proof.
  intros x W. destruct (cd_cb_main x None (doc_ok_loose _ _ W)) as (y & H1 & H2 & _).
  exists y. split; [exact H1|]. unfold convert_back. rewrite H2, quant_doc_exact by exact W. reflexivity.
Qed.

(* more digits than declared: rounded once — the result is within the declared precision, and a second
   conversion there and back leaves it unchanged *)
Theorem cback_cdict_rounds_once : forall x, doc_loose None x = true ->
  exists y x', convert_dict x = Ok y /\ convert_back y = Ok x' /\ x' = quant_doc None x /\ doc_ok None x' = true /\
               exists y', convert_dict x' = Ok y' /\ convert_back y' = Ok x'.
Proof.
  intros x W. destruct (cd_cb_main x None W) as (y & H1 & H2 & _).
  exists y, (quant_doc None x). repeat split; try assumption.
  - now apply quant_doc_ok.
  - apply cback_cdict_exact. now apply quant_doc_ok.
Qed.

(* hence the conversion to text is idempotent *)
Corollary cdict_idempotent : forall x, doc_ok None x = true ->
  exists y x', convert_dict x = Ok y /\ convert_back y = Ok x' /\ convert_dict x' = Ok y.
Proof.
  intros x W. destruct (cback_cdict_exact x W) as (y & H1 & H2). exists y, x. auto.
Qed.

(* ------------------------------------------------------------------ more dict lemmas *)
Definition keys (o : obj) : list string := map fst o.

Lemma jget_none_notin : forall k o, jget k o = None <-> ~ In k (keys o).
Proof.
  intros k o; induction o as [|[k' v] t IH]; cbn; [tauto|].
  destruct (String.eqb k k') eqn:E.
  - apply String.eqb_eq in E. subst. split; [discriminate|intros H; elim H; now left].
  - apply String.eqb_neq in E. rewrite IH. split; [intros H [H1|H1]; [congruence|auto]|intros H H1; apply H; now right].
Qed.

Lemma jdel_notin : forall k o, jget k o = None -> jdel k o = o.
Proof.
  intros k o; induction o as [|[k' v] t IH]; cbn; [reflexivity|].
  destruct (String.eqb k k'); [discriminate|]. intros H. now rewrite IH.
Qed.

Lemma jset_notin : forall k v o, jget k o = None -> jset k v o = o ++ [(k, v)].
Proof.
  intros k v o; induction o as [|[k' v'] t IH]; cbn; [reflexivity|].
  destruct (String.eqb k k'); [discriminate|]. intros H. now rewrite IH.
Qed.

Lemma jget_app : forall k a b, jget k (a ++ b) = match jget k a with Some v => Some v | None => jget k b end.
Proof.
  intros k a b; induction a as [|[k' v] t IH]; cbn; [reflexivity|].
  destruct (String.eqb k k'); [reflexivity|exact IH].
Qed.

Lemma jdel_app : forall k a b, jdel k (a ++ b) = jdel k a ++ jdel k b.
Proof.
  intros k a b; induction a as [|[k' v] t IH]; cbn; [reflexivity|].
  destruct (String.eqb k k'); [exact IH|cbn; now rewrite IH].
Qed.

Lemma jget_last : forall k v a, jget k a = None -> jget k (a ++ [(k, v)]) = Some v.
Proof. intros k v a H. rewrite jget_app, H. cbn. now rewrite String.eqb_refl. Qed.

Lemma jdel_last : forall k v a, jget k a = None -> jdel k (a ++ [(k, v)]) = a.
Proof.
  intros k v a H. rewrite jdel_app, (jdel_notin _ _ H). cbn. rewrite String.eqb_refl. apply app_nil_r.
Qed.

Lemma jset_app_notin : forall k v a b, jget k a = None -> jset k v (a ++ b) = a ++ jset k v b.
Proof.
  intros k v a b; induction a as [|[k' v'] t IH]; cbn; [reflexivity|].
  destruct (String.eqb k k'); [discriminate|]. intros H. now rewrite IH.
Qed.

Lemma jset_same : forall k v o, jget k o = Some v -> jset k v o = o.
Proof.
  intros k v o; induction o as [|[k' v'] t IH]; cbn; [discriminate|].
  destruct (String.eqb k k') eqn:E.
  - intros H. injection H as <-. reflexivity.
  - intros H. now rewrite IH.
Qed.

Lemma jset_comm : forall k1 k2 v1 v2 o, String.eqb k1 k2 = false -> jget k1 o <> None -> jget k2 o <> None ->
  jset k1 v1 (jset k2 v2 o) = jset k2 v2 (jset k1 v1 o).
Proof.
  intros k1 k2 v1 v2 o Hne. assert (Hne' : String.eqb k2 k1 = false) by (rewrite String.eqb_sym; exact Hne).
  induction o as [|[k v] t IH]; cbn; intros H1 H2; [now elim H1|].
  destruct (String.eqb k1 k) eqn:E1; destruct (String.eqb k2 k) eqn:E2; cbn; rewrite ?E1, ?E2; cbn; rewrite ?E1, ?E2.
  - apply String.eqb_eq in E1, E2. subst. now rewrite String.eqb_refl in Hne.
  - reflexivity.
  - reflexivity.
  - f_equal. now apply IH.
Qed.

(* ------------------------------------------------------------------ design bands: ROADM params *)
Definition db_entry (dv : string * json) : json := JObj [(K_degree, JStr (fst dv)); (K_db, snd dv)].

Lemma fold_back_db_err : forall l e, fold_left back_db_step l (Err e) = Err e.
Proof. induction l as [|x t IH]; intros e; cbn; [reflexivity|apply IH]. Qed.

Lemma fold_back_db : forall items pre, NoDup (keys (pre ++ items)) ->
  fold_left back_db_step (map db_entry items) (Ok pre) = Ok (pre ++ items).
Proof.
  induction items as [|[du v] t IH]; intros pre H; cbn [map fold_left].
  - now rewrite app_nil_r.
  - assert (Hn : jget du pre = None).
    { apply jget_none_notin. unfold keys in *. rewrite map_app in H. cbn in H.
      apply NoDup_remove_2 in H. intro Hin. apply H. apply in_or_app. now left. }
    cbn. rewrite (jset_notin _ _ _ Hn).
    replace (pre ++ (du, v) :: t) with ((pre ++ [(du, v)]) ++ t) by (rewrite <- app_assoc; reflexivity).
    apply IH. rewrite <- app_assoc. exact H.
Qed.

(* params = others ++ [per_degree_design_bands: {degree: bands}] with at least one degree, distinct degrees *)
Theorem design_band_roundtrip : forall others items,
  jget K_pddb others = None -> jget K_pddbt others = None -> items <> [] -> NoDup (keys items) ->
  let p := others ++ [(K_pddb, JObj items)] in
  exists p', design_band_params p = Ok p' /\ back_design_band_params p' = Ok p.
Proof.
  intros others items H1 H2 Hne Hnd p. subst p.
  unfold design_band_params. rewrite (jget_last _ _ _ H1), (jdel_last _ _ _ H1).
  assert (Ht : truthy (JObj items) = true) by (destruct items; [now elim Hne|reflexivity]).
  rewrite Ht. eexists; split; [reflexivity|].
  rewrite (jset_notin _ _ _ H2). unfold back_design_band_params.
  rewrite (jget_last _ _ _ H2), (jdel_last _ _ _ H2).
  assert (Ht2 : truthy (JArr (map (fun dv => JObj [(K_degree, JStr (fst dv)); (K_db, snd dv)]) items)) = true)
    by (destruct items; [now elim Hne|reflexivity]).
  rewrite Ht2. cbn [as_arr bind].
  change (map (fun dv => JObj [(K_degree, JStr (fst dv)); (K_db, snd dv)]) items) with (map db_entry items).
  rewrite (fold_back_db items []) by exact Hnd. cbn [bind app].
  destruct items; [now elim Hne|]. now rewrite (jset_notin _ _ _ H1).
Qed.

(* ------------------------------------------------------------------ per-frequency loss: fibre params *)
Lemma mapM_nil : forall {A B} (f : A -> res B), mapM f [] = Ok [].
Proof. reflexivity. Qed.

Lemma mapM_cons : forall {A B} (f : A -> res B) x t,
  mapM f (x :: t) = let* y := f x in let* t' := mapM f t in Ok (y :: t').
Proof. reflexivity. Qed.

Lemma pluck_zip2_fst : forall k1 k2 a b, length a = length b -> pluck k1 (zip2 k1 k2 a b) = Ok a.
Proof.
  intros k1 k2 a; induction a as [|x t IH]; intros [|y u] H; try discriminate; [reflexivity|].
  cbn in H. injection H as H. specialize (IH u H). unfold pluck in *. cbn [zip2]. rewrite mapM_cons, IH.
  cbn [as_obj bind]. unfold jreq. cbn [jget]. rewrite String.eqb_refl. reflexivity.
Qed.

Lemma pluck_zip2_snd : forall k1 k2 a b, String.eqb k2 k1 = false -> length a = length b ->
  pluck k2 (zip2 k1 k2 a b) = Ok b.
Proof.
  intros k1 k2 a; induction a as [|x t IH]; intros [|y u] Hk H; try discriminate; [reflexivity|].
  cbn in H. injection H as H. specialize (IH u Hk H). unfold pluck in *. cbn [zip2]. rewrite mapM_cons, IH.
  cbn [as_obj bind]. unfold jreq. cbn [jget]. rewrite Hk, String.eqb_refl. reflexivity.
Qed.

Lemma zip2_nonempty : forall k1 k2 a b, length a = length b -> b <> [] -> zip2 k1 k2 a b <> [].
Proof. intros k1 k2 [|x t] [|y u] H Hn; try discriminate. now elim Hn. Qed.

Theorem loss_coef_roundtrip : forall others fl vl,
  jget K_loss others = None -> jget K_losspf others = None -> length fl = length vl -> vl <> [] ->
  let p := others ++ [(K_loss, JObj [("frequency"%string, JArr fl); ("value"%string, JArr vl)])] in
  exists p', loss_params p = Ok p' /\ back_loss_params p' = Ok p.
Proof.
  intros others fl vl H1 H2 Hlen Hne p. subst p.
  destruct vl as [|v0 vt]; [now elim Hne|]. destruct fl as [|f0 ft]; [discriminate|].
  unfold loss_params. rewrite (jget_last _ _ _ H1), (jdel_last _ _ _ H1).
  cbn [jget String.eqb Ascii.eqb Bool.eqb truthy as_iter bind].
  eexists; split; [reflexivity|].
  rewrite (jset_notin _ _ _ H2). unfold back_loss_params.
  rewrite (jget_last _ _ _ H2), (jdel_last _ _ _ H2).
  cbn [zip2 truthy as_arr bind].
  change (JObj [("frequency"%string, f0); ("loss_coef_value"%string, v0)] :: zip2 "frequency" "loss_coef_value" ft vt)
    with (zip2 "frequency" "loss_coef_value" (f0 :: ft) (v0 :: vt)).
  rewrite (pluck_zip2_fst _ _ _ _ Hlen). cbn [bind].
  rewrite (pluck_zip2_snd "frequency" "loss_coef_value" _ _ eq_refl Hlen). cbn [bind].
  now rewrite (jset_notin _ _ _ H1).
Qed.

(* ------------------------------------------------------------------ Raman coefficient: fibre params *)
Theorem raman_coef_roundtrip : forall others rf gl fl,
  jget K_raman others = None -> length fl = length gl -> fl <> [] ->
  let p := others ++ [(K_raman, JObj [("reference_frequency"%string, rf); ("g0"%string, JArr gl);
                                      ("frequency_offset"%string, JArr fl)])] in
  exists p', raman_params p = Ok p' /\ back_raman_params p' = Ok p.
Proof.
  intros others rf gl fl H1 Hlen Hne p. subst p.
  destruct fl as [|f0 ft]; [now elim Hne|]. destruct gl as [|g0 gt]; [discriminate|].
  unfold raman_params. rewrite (jget_last _ _ _ H1), (jdel_last _ _ _ H1).
  cbn [key_in jhas jget String.eqb Ascii.eqb Bool.eqb bind as_obj opt_list truthy jreq as_iter].
  eexists; split; [reflexivity|].
  rewrite (jset_notin _ _ _ H1). unfold back_raman_params.
  rewrite (jget_last _ _ _ H1), (jdel_last _ _ _ H1).
  cbn [key_in jhas jget String.eqb Ascii.eqb Bool.eqb bind as_obj jreq as_arr zip2].
  change (JObj [("frequency_offset"%string, f0); ("g0"%string, g0)] :: zip2 "frequency_offset" "g0" ft gt)
    with (zip2 "frequency_offset" "g0" (f0 :: ft) (g0 :: gt)).
  rewrite (pluck_zip2_snd "frequency_offset" "g0" _ _ eq_refl Hlen). cbn [bind].
  rewrite (pluck_zip2_fst _ _ _ _ Hlen). cbn [bind].
  now rewrite (jset_notin _ _ _ H1).
Qed.

(* ------------------------------------------------------------------ nf_coef / nf_fit_coeff *)
Definition coef_pairs (i : Z) (l : list json) : list (json * json) :=
  map (fun it => (match it with JObj ((_, k) :: _) => k | _ => JNull end, it)) (enum_coef i l).

Lemma sort_enum : forall l i, sort_by (coef_pairs i l) = Ok (coef_pairs i l).
Proof.
  induction l as [|c t IH]; intros i; [reflexivity|].
  unfold coef_pairs in *. cbn [enum_coef map sort_by]. rewrite (IH (i + 1)). cbn [bind].
  destruct t as [|c2 t2]; [reflexivity|].
  cbn [enum_coef map insert_by fst num_lt bind]. unfold pow10; cbn [Z.of_nat Z.pow].
  assert (((i + 1) * 1 <? i * 1) = false) as -> by lia. reflexivity.
Qed.

Lemma enum_pairs_mapM : forall l i,
  mapM (fun it => let* o := as_obj it in let* k := jreq "coef_order" o in Ok (k, it)) (enum_coef i l)
  = Ok (coef_pairs i l).
Proof.
  induction l as [|c t IH]; intros i; [reflexivity|].
  cbn [enum_coef]. rewrite mapM_cons, (IH (i + 1)). reflexivity.
Qed.

Lemma enum_values_mapM : forall l i,
  mapM (fun p => let* o := as_obj (snd p) in jreq "nf_coef" o) (coef_pairs i l) = Ok l.
Proof.
  induction l as [|c t IH]; intros i; [reflexivity|].
  unfold coef_pairs in *. cbn [enum_coef map]. rewrite mapM_cons, (IH (i + 1)). reflexivity.
Qed.

Theorem nf_coef_roundtrip : forall key others c0 ct,
  jget key others = None -> is_dict c0 = false ->
  let e := others ++ [(key, JArr (c0 :: ct))] in
  exists e', nf_forth key e = Ok e' /\ nf_back key e' = Ok e.
Proof.
  intros key others c0 ct H1 Hd e. subst e.
  unfold nf_forth. rewrite (jget_last _ _ _ H1), (jdel_last _ _ _ H1). cbn [as_arr bind nth_req nth_error].
  rewrite Hd. eexists; split; [reflexivity|].
  rewrite (jset_notin _ _ _ H1). unfold nf_back.
  rewrite (jget_last _ _ _ H1), (jdel_last _ _ _ H1). cbn [as_arr bind].
  cbn [enum_coef nth_req nth_error bind is_dict].
  change (JObj [("coef_order"%string, JNum 0 0); ("nf_coef"%string, c0)] :: enum_coef (0 + 1) ct)
    with (enum_coef 0 (c0 :: ct)).
  rewrite enum_pairs_mapM. cbn [bind]. rewrite sort_enum. cbn [bind]. rewrite enum_values_mapM. cbn [bind].
  now rewrite (jset_notin _ _ _ H1).
Qed.

(* ------------------------------------------------------------------ Span / SI power range *)
Definition range_dict (a b c : json) : json :=
  JObj [("min_value"%string, a); ("max_value"%string, b); ("step"%string, c)].

Lemma range_entry_forth : forall lk dk others a b c,
  String.eqb lk dk = false -> jget lk others = None -> jget dk others = None ->
  range_entry lk dk (others ++ [(lk, JArr [a; b; c])]) = Ok (others ++ [(dk, range_dict a b c)]).
Proof.
  intros lk dk others a b c Hne H1 H2. unfold range_entry, jhas.
  assert (Hk : String.eqb dk lk = false) by (rewrite String.eqb_sym; exact Hne).
  rewrite jget_app, H2. cbn [jget]. rewrite Hk.
  rewrite (jget_last _ _ _ H1). cbn [as_arr bind nth_req nth_error].
  rewrite jset_notin by (rewrite jget_app, H2; cbn; now rewrite Hk).
  rewrite !jdel_app, (jdel_notin _ _ H1). cbn [jdel]. rewrite String.eqb_refl, Hne. now rewrite app_nil_r.
Qed.

Lemma back_range_entry_ok : forall lk dk others a b c,
  String.eqb lk dk = false -> jget lk others = None -> jget dk others = None ->
  back_range_entry lk dk (JObj (others ++ [(dk, range_dict a b c)])) = Ok (JObj (others ++ [(lk, JArr [a; b; c])])).
Proof.
  intros lk dk others a b c Hne H1 H2. unfold back_range_entry. cbn [key_in bind]. unfold jhas.
  rewrite (jget_last _ _ _ H2). cbn [as_obj bind]. unfold jreq. rewrite (jget_last _ _ _ H2).
  cbn [bind as_obj range_dict jget String.eqb Ascii.eqb Bool.eqb].
  rewrite (jdel_last _ _ _ H2), (jset_notin _ _ _ H1). reflexivity.
Qed.

(* an entry that carries its range as a list, last key *)
Definition range_entry_ok (lk dk : string) (e : json) : Prop :=
  exists others a b c, e = JObj (others ++ [(lk, JArr [a; b; c])]) /\ jget lk others = None /\ jget dk others = None.

Lemma jset_jset : forall k v1 v2 o, jset k v2 (jset k v1 o) = jset k v2 o.
Proof.
  intros k v1 v2 o; induction o as [|[k' v'] t IH]; cbn.
  - now rewrite String.eqb_refl.
  - destruct (String.eqb k k') eqn:E; cbn; rewrite E; [reflexivity|now rewrite IH].
Qed.

(* any number of entries under one key *)
Lemma range_roundtrip_key : forall key lk dk doc es,
  String.eqb lk dk = false -> jget key doc = Some (JArr es) -> Forall (range_entry_ok lk dk) es ->
  exists es', on_entries key (range_entry lk dk) doc = Ok (jset key (JArr es') doc) /\
              back_range_all key lk dk (jset key (JArr es') doc) = Ok doc.
Proof.
  intros key lk dk doc es Hne Hk HF.
  assert (Hall : Forall (fun e => exists e', (let* eo := as_obj e in let* eo' := range_entry lk dk eo in Ok (JObj eo')) = Ok e'
                                            /\ back_range_entry lk dk e' = Ok ((fun x => x) e)) es).
  { rewrite Forall_forall in *. intros e He. destruct (HF e He) as (others & a & b & c & -> & H1 & H2).
    exists (JObj (others ++ [(dk, range_dict a b c)])). cbn [as_obj bind].
    rewrite (range_entry_forth _ _ _ _ _ _ Hne H1 H2). split; [reflexivity|].
    now apply back_range_entry_ok. }
  destruct (mapM_chain _ _ _ _ Hall) as (es' & M1 & M2). rewrite map_id in M2.
  exists es'. split.
  - unfold on_entries. rewrite Hk. cbn [as_arr bind]. rewrite M1. reflexivity.
  - unfold back_range_all. rewrite jget_jset_same. cbn [as_arr bind]. rewrite M2. cbn [bind].
    now rewrite jset_jset, (jset_same _ _ _ Hk).
Qed.

(* the whole pair on a library: every Span entry and every SI entry *)
Theorem range_roundtrip : forall doc spans sis,
  jget "Span" doc = Some (JArr spans) -> jget "SI" doc = Some (JArr sis) ->
  Forall (range_entry_ok "delta_power_range_db" "delta_power_range_dict_db") spans ->
  Forall (range_entry_ok "power_range_db" "power_range_dict_db") sis ->
  exists doc', convert_delta_power_range doc = Ok doc' /\ convert_back_delta_power_range doc' = Ok doc.
Proof.
  intros doc spans sis Hs Hi Fs Fi.
  destruct (range_roundtrip_key "Span" "delta_power_range_db" "delta_power_range_dict_db" doc spans eq_refl Hs Fs) as (sp' & A1 & A2).
  set (d1 := jset "Span" (JArr sp') doc) in *.
  assert (Hi1 : jget "SI" d1 = Some (JArr sis)) by (unfold d1; rewrite jget_jset_other by reflexivity; exact Hi).
  destruct (range_roundtrip_key "SI" "power_range_db" "power_range_dict_db" d1 sis eq_refl Hi1 Fi) as (si' & B1 & B2).
  set (d2 := jset "SI" (JArr si') d1) in *.
  exists d2. unfold convert_delta_power_range, convert_back_delta_power_range. rewrite A1. cbn [bind]. split; [exact B1|].
  (* back: Span first, on d2 *)
  assert (Hs2 : jget "Span" d2 = Some (JArr sp')).
  { unfold d2. rewrite jget_jset_other by reflexivity. unfold d1. apply jget_jset_same. }
  assert (Hall : mapM (back_range_entry "delta_power_range_db" "delta_power_range_dict_db") sp' = Ok spans).
  { unfold back_range_all in A2. unfold d1 in A2. rewrite jget_jset_same in A2. cbn [as_arr bind] in A2.
    destruct (mapM _ sp') as [x|] eqn:E; [|discriminate]. cbn [bind] in A2. injection A2 as A2.
    rewrite jset_jset in A2. f_equal.
    assert (G : jget "Span" (jset "Span" (JArr x) doc) = jget "Span" doc) by now rewrite A2.
    rewrite jget_jset_same, Hs in G. now injection G. }
  unfold back_range_all at 1. rewrite Hs2. cbn [as_arr bind]. rewrite Hall. cbn [bind].
  (* jset Span spans d2 = jset SI si' doc *)
  assert (E : jset "Span" (JArr spans) d2 = jset "SI" (JArr si') doc).
  { unfold d2, d1. rewrite (jset_comm "Span" "SI");
      [|reflexivity|rewrite jget_jset_same; discriminate|rewrite jget_jset_other by reflexivity; rewrite Hi; discriminate].
    rewrite jset_jset, (jset_same _ _ _ Hs). reflexivity. }
  rewrite E.
  unfold back_range_all in B2. unfold d2 in B2. rewrite jget_jset_same in B2. cbn [as_arr bind] in B2.
  destruct (mapM (back_range_entry "power_range_db" "power_range_dict_db") si') as [y|] eqn:E2; [|discriminate].
  cbn [bind] in B2. injection B2 as B2. rewrite jset_jset in B2.
  assert (Hy : y = sis).
  { assert (G : jget "SI" (jset "SI" (JArr y) d1) = jget "SI" d1) by now rewrite B2.
    rewrite jget_jset_same, Hi1 in G. now injection G. }
  subst y. unfold back_range_all. rewrite jget_jset_same. cbn [as_arr bind]. rewrite E2. cbn [bind].
  now rewrite jset_jset, (jset_same _ _ _ Hi).
Qed.

(* F16: RamanFiber raman_efficiency does not come back under its own name *)
Definition raman_eff_doc : obj :=
  [("RamanFiber"%string, JArr [JObj [("type_variety"%string, JStr "SSMF");
      ("raman_efficiency"%string, JObj [("cr"%string, JArr [JNum 0 1; JNum 1 5]);
                                        ("frequency_offset"%string, JArr [JNum 0 1; JNum 10000000000000 1])])]])].

Theorem raman_efficiency_refuted :
  exists doc doc' doc'', convert_raman_efficiency doc = Ok doc' /\ convert_back_raman_efficiency doc' = Ok doc''
                         /\ doc'' <> doc /\
                         (* and the forward conversion of the result differs: not idempotent *)
                         convert_raman_efficiency doc'' <> Ok doc'.
Proof.
  exists raman_eff_doc. eexists. eexists. split; [vm_compute; reflexivity|]. split; [vm_compute; reflexivity|].
  split; [discriminate|]. vm_compute. discriminate.
Qed.

(* ------------------------------------------------------------------ per-degree power targets: ROADM params *)
Definition blk (e : string) (o : option obj) : obj := match o with Some items => [(e, JObj items)] | None => [] end.
Definition ents (e : string) (o : option obj) : list json :=
  match o with Some items => degree_entries e items | None => [] end.
Definition items_ok (o : option obj) : Prop :=
  match o with Some items => items <> [] /\ NoDup (keys items) | None => True end.

Lemma degree_step_blk : forall E a b o nt,
  jget E a = None -> jget E b = None -> items_ok o ->
  degree_step (Ok ((a ++ blk E o ++ b : obj), nt)) E = Ok ((a ++ b : obj), nt ++ ents E o).
Proof.
  intros E a b o nt Ha Hb Ho. unfold degree_step. cbn [bind].
  destruct o as [items|]; cbn [blk ents app].
  - destruct Ho as [Hne _].
    rewrite jget_app, Ha. cbn [jget]. rewrite String.eqb_refl.
    assert (Ht : truthy (JObj items) = true) by (destruct items; [now elim Hne|reflexivity]). rewrite Ht.
    rewrite jdel_app, (jdel_notin _ _ Ha). cbn [jdel]. rewrite String.eqb_refl, (jdel_notin _ _ Hb). reflexivity.
  - rewrite jget_app, Ha, Hb. now rewrite app_nil_r.
Qed.

Definition E1 := "per_degree_pch_out_db"%string.
Definition E2 := "per_degree_psd_out_mWperGHz"%string.
Definition E3 := "per_degree_psd_out_mWperSlotWidth"%string.

Lemma jget_blk_other : forall E E' o, String.eqb E E' = false -> jget E (blk E' o) = None.
Proof. intros E E' [items|] H; cbn; [now rewrite H|reflexivity]. Qed.

(* one power target entry written back into the params *)
Definition upsert (E du : string) (v : json) (q : obj) : res obj :=
  match jget E q with
  | None => Ok (jset E (JObj [(du, v)]) q)
  | Some (JObj d) => Ok (jset E (JObj (jset du v d)) q)
  | Some _ => Err "TypeError:item assignment"%string
  end.

Lemma back_target_entry : forall E, In E eq_types -> forall q du v,
  back_target (Ok q) (JObj [(K_degree, JStr du); (E, v)]) = upsert E du v q.
Proof.
  intros E HE q du v. unfold upsert.
  destruct HE as [<-|[<-|[<-|[]]]]; unfold back_target; cbn [bind as_obj jreq jget K_degree String.eqb Ascii.eqb Bool.eqb as_key];
    unfold eq_types; cbn [fold_left]; unfold back_target_step;
    cbn [bind jget K_degree String.eqb Ascii.eqb Bool.eqb];
    match goal with |- context [jget ?e q] => destruct (jget e q) as [[| | | | |d]|] end; reflexivity.
Qed.

Lemma fold_back_target_err : forall l e, fold_left back_target l (Err e) = Err e.
Proof. induction l as [|x t IH]; intros e; cbn; [reflexivity|apply IH]. Qed.

Lemma fold_upsert_more : forall E, In E eq_types -> forall items a pre,
  jget E a = None -> NoDup (keys (pre ++ items)) ->
  fold_left back_target (degree_entries E items) (Ok (a ++ [(E, JObj pre)])) = Ok (a ++ [(E, JObj (pre ++ items))]).
Proof.
  intros E HE items; induction items as [|[du v] t IH]; intros a pre Ha Hnd; cbn [degree_entries map fold_left].
  - now rewrite app_nil_r.
  - cbn [fst snd]. rewrite (back_target_entry E HE). unfold upsert. rewrite (jget_last _ _ _ Ha).
    assert (Hn : jget du pre = None).
    { apply jget_none_notin. unfold keys in *. rewrite map_app in Hnd. cbn in Hnd.
      apply NoDup_remove_2 in Hnd. intro Hin. apply Hnd. apply in_or_app. now left. }
    rewrite (jset_notin _ _ _ Hn), jset_app_notin by exact Ha. cbn [jset]. rewrite String.eqb_refl.
    change (map (fun dv => JObj [(K_degree, JStr (fst dv)); (E, snd dv)]) t) with (degree_entries E t).
    etransitivity; [apply (IH a (pre ++ [(du, v)]) Ha); rewrite <- app_assoc; exact Hnd|].
    now rewrite <- app_assoc.
Qed.

Lemma fold_upsert_block : forall E, In E eq_types -> forall o a,
  jget E a = None -> items_ok o ->
  fold_left back_target (ents E o) (Ok a) = Ok (a ++ blk E o : obj).
Proof.
  intros E HE [items|] a Ha Ho; cbn [ents blk]; [|now rewrite app_nil_r].
  destruct Ho as [Hne Hnd]. destruct items as [|[du v] t]; [now elim Hne|].
  cbn [degree_entries map fold_left fst snd]. rewrite (back_target_entry E HE). unfold upsert. rewrite Ha.
  rewrite (jset_notin _ _ _ Ha).
  change (map (fun dv => JObj [(K_degree, JStr (fst dv)); (E, snd dv)]) t) with (degree_entries E t).
  exact (fold_upsert_more E HE t a [(du, v)] Ha Hnd).
Qed.

(* params = others ++ [pch targets] ++ [psd targets] ++ [psw targets] (each optional, non-empty, distinct degrees) *)
Theorem degree_roundtrip : forall others o1 o2 o3,
  jget E1 others = None -> jget E2 others = None -> jget E3 others = None -> jget K_pdt others = None ->
  items_ok o1 -> items_ok o2 -> items_ok o3 ->
  let p := others ++ blk E1 o1 ++ blk E2 o2 ++ blk E3 o3 in
  exists p', degree_params p = Ok p' /\ back_degree_params p' = Ok p.
Proof.
  intros others o1 o2 o3 H1 H2 H3 H4 K1 K2 K3 p. subst p.
  unfold degree_params, eq_types. cbn [fold_left]. fold E1 E2 E3.
  rewrite (degree_step_blk E1 others (blk E2 o2 ++ blk E3 o3) o1 [] H1)
    by (try exact K1; rewrite jget_app, !jget_blk_other by reflexivity; reflexivity).
  rewrite (degree_step_blk E2 others (blk E3 o3) o2 _ H2) by (try exact K2; now rewrite jget_blk_other).
  replace (others ++ blk E3 o3) with (others ++ blk E3 o3 ++ []) by now rewrite app_nil_r.
  rewrite (degree_step_blk E3 others [] o3 _ H3) by (try exact K3; reflexivity).
  cbn [bind app]. rewrite app_nil_r, <- (app_assoc (ents E1 o1)).
  destruct (ents E1 o1 ++ ents E2 o2 ++ ents E3 o3) as [|t0 tr] eqn:En.
  - (* no target at all *)
    exists others. split; [reflexivity|].
    assert (o1 = None /\ o2 = None /\ o3 = None) as (-> & -> & ->).
    { destruct o1 as [[|? ?]|]; [destruct K1; congruence|discriminate|].
      destruct o2 as [[|? ?]|]; [destruct K2; congruence|discriminate|].
      destruct o3 as [[|? ?]|]; [destruct K3; congruence|discriminate|]. auto. }
    cbn [blk app]. rewrite app_nil_r. unfold back_degree_params. now rewrite H4.
  - eexists; split; [reflexivity|]. rewrite <- En.
    rewrite (jset_notin _ _ _ H4). unfold back_degree_params. rewrite (jget_last _ _ _ H4), (jdel_last _ _ _ H4).
    assert (Ht : truthy (JArr (ents E1 o1 ++ ents E2 o2 ++ ents E3 o3)) = true) by now rewrite En.
    rewrite Ht. cbn [as_arr bind].
    assert (In1 : In E1 eq_types) by (now left).
    assert (In2 : In E2 eq_types) by (right; now left).
    assert (In3 : In E3 eq_types) by (right; right; now left).
    rewrite !fold_left_app.
    rewrite (fold_upsert_block E1 In1 o1 others H1 K1).
    rewrite (fold_upsert_block E2 In2 o2 _) by (try exact K2; rewrite jget_app, H2; now apply jget_blk_other).
    rewrite (fold_upsert_block E3 In3 o3 _)
      by (try exact K3; rewrite !jget_app, H3, !jget_blk_other by reflexivity; reflexivity).
    now rewrite <- !app_assoc.
Qed.

(* ------------------------------------------------------------------ the generic layer of yang_to_legacy o legacy_to_yang *)
Lemma mapM_map_commute : forall {A B} (f : A -> res B) (h : A -> A) (h' : B -> B) l l',
  Forall (fun x => forall z, f x = Ok z -> f (h x) = Ok (h' z)) l ->
  mapM f l = Ok l' -> mapM f (map h l) = Ok (map h' l').
Proof.
  intros A B f h h' l; induction l as [|x t IH]; intros l' HF H.
  - cbn in H. injection H as <-. reflexivity.
  - inversion HF as [|? ? Hx Ht]; subst. rewrite mapM_cons in H.
    destruct (f x) as [y|] eqn:Ey; [|discriminate]. cbn [bind] in H.
    destruct (mapM f t) as [t'|] eqn:Et; [|discriminate]. cbn [bind] in H. injection H as <-.
    cbn [map]. rewrite mapM_cons, (Hx y eq_refl). cbn [bind]. rewrite (IH t' Ht eq_refl). reflexivity.
Qed.

Lemma py_float_scalar : forall s z, py_float s = Ok z -> empty_to_none z = z.
Proof.
  intros s z H. unfold py_float in H.
  destruct (strip_sign (list_ascii_of_string s)) as [neg body].
  destruct (split_dot body) as [ip fp].
  destruct (ip ++ match fp with Some f => f | None => [] end) as [|c t]; [discriminate|].
  destruct (val_acc 0 (c :: t)); [|discriminate]. injection H as <-.
  unfold norm_float. destruct (length _); [reflexivity|]. destruct (strip0 _ _); reflexivity.
Qed.
Lemma py_int_scalar : forall s z, py_int s = Ok z -> empty_to_none z = z.
Proof.
  intros s z H. unfold py_int in H.
  destruct (strip_sign (list_ascii_of_string s)) as [neg body].
  destruct body as [|c t]; [discriminate|]. destruct (val_acc 0 (c :: t)); [|discriminate].
  injection H as <-. reflexivity.
Qed.

Lemma cb_elem_null : forall c x, cb_elem c x = Ok JNull -> x = JNull.
Proof.
  intros c x H. destruct x as [| | | s | l | o]; try reflexivity; try discriminate.
  - cbn in H. destruct (in_none_m1 c); [discriminate|].
    pose proof (py_float_scalar s JNull H) as _. unfold py_float in H.
    destruct (strip_sign _) as [neg body]. destruct (split_dot body) as [ip fp].
    destruct (ip ++ _); [discriminate|]. destruct (val_acc _ _); [|discriminate]. injection H as H.
    unfold norm_float in H. destruct (length _); [discriminate|]. destruct (strip0 _ _); discriminate.
  - unfold cb_elem in H. rewrite (cb_arr_eq c l) in H. destruct (mapM (cb_elem c) l); discriminate.
  - unfold cb_elem in H. rewrite cb_obj_eq in H. destruct (mapM _ o); discriminate.
Qed.

Lemma cb_e2n : forall y,
  (forall c z, convert_back_fd c y = Ok z -> convert_back_fd c (empty_to_none y) = Ok (empty_to_none z)) /\
  (forall c z, cb_elem c y = Ok z -> cb_elem c (empty_to_none y) = Ok (empty_to_none z)).
Proof.
  induction y as [| | | s |l IH|o IH] using json_ind'.
  - split; intros c z H; cbn in *; injection H as <-; reflexivity.
  - split; intros c z H; cbn in *; injection H as <-; reflexivity.
  - split; intros c z H; cbn in *; injection H as <-; reflexivity.
  - split; intros c z H.
    + cbn [empty_to_none]. rewrite H. f_equal. symmetry. cbn in H. destruct c as [f|]; [|injection H as <-; reflexivity].
      destruct (0 <? f); [exact (py_float_scalar _ _ H)|]. destruct (f <? 0); [injection H as <-; reflexivity|].
      exact (py_int_scalar _ _ H).
    + cbn [empty_to_none]. rewrite H. f_equal. symmetry. cbn in H.
      destruct (in_none_m1 c); [injection H as <-; reflexivity|exact (py_float_scalar _ _ H)].
  - (* arrays *)
    assert (Main : forall c z, convert_back_fd c (JArr l) = Ok z ->
                               convert_back_fd c (empty_to_none (JArr l)) = Ok (empty_to_none z)).
    { intros c z H. destruct (single_null_dec l) as [->|Hl].
      - cbn in H. injection H as <-. reflexivity.
      - rewrite cb_arr_eq in H. destruct (mapM (cb_elem c) l) as [l'|] eqn:El; [|discriminate].
        cbn [bind] in H. injection H as <-.
        rewrite e2n_arr by exact Hl. rewrite cb_arr_eq.
        assert (HF : Forall (fun x => forall z, cb_elem c x = Ok z -> cb_elem c (empty_to_none x) = Ok (empty_to_none z)) l).
        { rewrite Forall_forall in *. intros x Hx z Hz. exact (proj2 (IH x Hx) c z Hz). }
        rewrite (mapM_map_commute _ _ _ _ _ HF El). cbn [bind]. f_equal. symmetry. apply e2n_arr.
        (* l' is not [null] *)
        intro Hc. subst l'. destruct l as [|x [|y t]].
        + cbn in El. discriminate.
        + rewrite mapM_cons in El. destruct (cb_elem c x) as [x'|] eqn:Ex; [|discriminate].
          cbn in El. injection El as ->. apply cb_elem_null in Ex. subst. now elim Hl.
        + rewrite !mapM_cons in El. destruct (cb_elem c x); [|discriminate]. cbn [bind] in El.
          destruct (cb_elem c y); [|discriminate]. cbn [bind] in El.
          destruct (mapM (cb_elem c) t); [|discriminate]. discriminate. }
    split; [exact Main|]. intros c z H. destruct (single_null_dec l) as [->|Hl].
    + cbn in H. injection H as <-. reflexivity.
    + rewrite e2n_arr by exact Hl. change (cb_elem c (JArr (map empty_to_none l))) with (convert_back_fd c (JArr (map empty_to_none l))).
      rewrite <- (e2n_arr l Hl). apply Main. exact H.
  - (* objects *)
    assert (Main : forall c z, convert_back_fd c (JObj o) = Ok z ->
                               convert_back_fd c (empty_to_none (JObj o)) = Ok (empty_to_none z)).
    { intros c z H. rewrite cb_obj_eq in H.
      destruct (mapM (fun kv => let* v' := convert_back_fd (prec (fst kv)) (snd kv) in Ok (fst kv, v')) o) as [o'|] eqn:Eo;
        [|discriminate].
      cbn [bind] in H. injection H as <-. cbn [empty_to_none]. rewrite cb_obj_eq.
      assert (HF : Forall (fun kv => forall z,
                   (let* v' := convert_back_fd (prec (fst kv)) (snd kv) in Ok (fst kv, v')) = Ok z ->
                   (let* v' := convert_back_fd (prec (fst ((fun kv => (fst kv, empty_to_none (snd kv))) kv)))
                                 (snd ((fun kv => (fst kv, empty_to_none (snd kv))) kv)) in
                    Ok (fst ((fun kv => (fst kv, empty_to_none (snd kv))) kv), v'))
                   = Ok ((fun kv => (fst kv, empty_to_none (snd kv))) z)) o).
      { rewrite Forall_forall in *. intros kv Hkv z Hz. cbn [fst snd].
        destruct (convert_back_fd (prec (fst kv)) (snd kv)) as [v'|] eqn:Ev; [|discriminate].
        cbn [bind] in Hz. injection Hz as <-. rewrite (proj1 (IH kv Hkv) _ _ Ev). reflexivity. }
      rewrite (mapM_map_commute _ _ _ _ _ HF Eo). reflexivity. }
    split; [exact Main|exact Main].
Qed.

Lemma doc_ok_n2e : forall x c, doc_ok c x = true -> doc_ok c (none_to_empty x) = true.
Proof.
  induction x as [| | | |l IH|o IH] using json_ind'; intros c W; try exact W; try reflexivity.
  - destruct (single_null_dec l) as [->|Hl]; [reflexivity|]. rewrite n2e_arr by exact Hl.
    cbn in *. rewrite forallb_forall in *. rewrite Forall_forall in IH. intros x Hx.
    apply in_map_iff in Hx as (x0 & <- & Hx0). apply IH; auto.
  - cbn in *. rewrite forallb_forall in *. rewrite Forall_forall in IH. intros kv Hkv.
    apply in_map_iff in Hkv as (kv0 & <- & Hkv0). cbn [fst snd]. apply IH; auto.
Qed.

(* legacy value -> none_to_empty -> convert_dict -> (YANG text) -> empty_to_none -> convert_back -> same value *)
Theorem generic_roundtrip : forall d c, legacy_nulls_ok d = true -> doc_ok c d = true ->
  exists y, convert_dict_fd (dflt c) (none_to_empty d) = Ok y /\
            convert_back_fd c (empty_to_none y) = Ok d.
Proof.
  intros d c Hn W. pose proof (doc_ok_n2e d c W) as W'.
  destruct (cd_cb_main _ c (doc_ok_loose _ _ W')) as (y & H1 & H2 & _).
  exists y. split; [exact H1|].
  rewrite (proj1 (cb_e2n y) c _ H2), quant_doc_exact by exact W'. now rewrite e2n_n2e.
Qed.

(* ------------------------------------------------------------------ whole documents: sim-params and spectrum *)
Lemma jget_map_val : forall (f : json -> json) k o,
  jget k (map (fun kv => (fst kv, f (snd kv))) o) = option_map f (jget k o).
Proof.
  intros f k o; induction o as [|[k' v] t IH]; cbn; [reflexivity|].
  destruct (String.eqb k k'); [reflexivity|exact IH].
Qed.
Lemma jhas_map_val : forall (f : json -> json) k o, jhas k (map (fun kv => (fst kv, f (snd kv))) o) = jhas k o.
Proof. intros f k o. unfold jhas. rewrite jget_map_val. now destruct (jget k o). Qed.
Lemma any_key_map_val : forall (f : json -> json) ks o,
  any_key ks (map (fun kv => (fst kv, f (snd kv))) o) = any_key ks o.
Proof.
  intros f ks o. unfold any_key. induction ks as [|k t IH]; cbn; [reflexivity|]. now rewrite jhas_map_val, IH.
Qed.

(* a legacy simulation-parameter document: none of the keys that select an earlier branch of the dispatch *)
Definition is_sim_params (o : obj) : bool :=
  negb (jhas K_elements o) && negb (jhas TOPO_NMSP o) && negb (any_key EQPT_TYPES o) && negb (jhas EQPT_NMSP o)
  && negb (jhas "path-request" o) && negb (jhas SERV_NMSP o) && negb (any_key EDFA_CONFIG_KEYS o)
  && negb (jhas EDFA_CONFIG_NMSP o) && negb (jhas "spectrum" o) && any_key SIM_PARAMS_KEYS o.

Theorem y2l_l2y_sim_params : forall o,
  is_sim_params o = true -> legacy_nulls_ok (JObj o) = true -> doc_ok (prec SIM_PARAMS_NMSP) (JObj o) = true ->
  exists y, legacy_to_yang (JObj o) = Ok y /\ yang_to_legacy y = Ok (JObj o).
Proof.
  intros o Hs Hn W. unfold is_sim_params in Hs.
  repeat (apply andb_true_iff in Hs as [Hs ?]).
  repeat match goal with H : negb _ = true |- _ => apply negb_true_iff in H end.
  destruct (generic_roundtrip (JObj o) (prec SIM_PARAMS_NMSP) Hn W) as (y0 & G1 & G2).
  exists (JObj [(SIM_PARAMS_NMSP, y0)]). split.
  - unfold legacy_to_yang. cbn [none_to_empty as_obj bind].
    rewrite !jhas_map_val, !any_key_map_val.
    repeat match goal with H : _ = false |- _ => rewrite H end.
    match goal with H : any_key SIM_PARAMS_KEYS o = true |- _ => rewrite H end.
    cbn [bind]. unfold convert_dict. rewrite cd_obj_eq, mapM_cons, mapM_nil. cbn [fst snd].
    rewrite prec_d_dflt. cbn [none_to_empty] in G1. rewrite G1. reflexivity.
  - unfold yang_to_legacy, convert_back. cbn [empty_to_none map fst snd]. rewrite cb_obj_eq, mapM_cons, mapM_nil.
    cbn [fst snd]. rewrite G2. cbn [bind as_obj]. reflexivity.
Qed.

Theorem y2l_l2y_spectrum : forall v,
  legacy_nulls_ok v = true -> doc_ok (prec SPECTRUM_NMSP) v = true ->
  let d := JObj [("spectrum"%string, v)] in
  exists y, legacy_to_yang d = Ok y /\ yang_to_legacy y = Ok d.
Proof.
  intros v Hn W d. subst d.
  destruct (generic_roundtrip v (prec SPECTRUM_NMSP) Hn W) as (y0 & G1 & G2).
  exists (JObj [(SPECTRUM_NMSP, y0)]). split.
  - unfold legacy_to_yang. cbn [none_to_empty map fst snd as_obj bind]. cbn [jhas jget any_key existsb
      K_elements TOPO_NMSP EQPT_TYPES EQPT_NMSP SERV_NMSP EDFA_CONFIG_KEYS EDFA_CONFIG_NMSP String.eqb Ascii.eqb Bool.eqb orb].
    cbn [jreq jget String.eqb Ascii.eqb Bool.eqb bind].
    unfold convert_dict. rewrite cd_obj_eq, mapM_cons, mapM_nil. cbn [fst snd].
    rewrite prec_d_dflt, G1. reflexivity.
  - unfold yang_to_legacy, convert_back. cbn [empty_to_none map fst snd]. rewrite cb_obj_eq, mapM_cons, mapM_nil.
    cbn [fst snd]. rewrite G2. cbn [bind as_obj]. reflexivity.
Qed.

(* l2y (y2l (l2y d)) = l2y d and y2l (l2y (y2l y)) = y2l y, from a round trip *)
Lemma idempotent_of_roundtrip : forall d,
  (exists y, legacy_to_yang d = Ok y /\ yang_to_legacy y = Ok d) ->
  exists y l, legacy_to_yang d = Ok y /\ yang_to_legacy y = Ok l /\ legacy_to_yang l = Ok y /\
              (exists y', legacy_to_yang l = Ok y' /\ yang_to_legacy y' = Ok l).
Proof. intros d (y & H1 & H2). exists y, d. repeat split; try assumption. exists y. auto. Qed.

(* ------------------------------------------------------------------ whole documents: services *)
Lemma mapM_id : forall {A} (f : A -> res A) l, Forall (fun x => f x = Ok x) l -> mapM f l = Ok l.
Proof.
  intros A f l H; induction H as [|x t Hx Ht IH]; [reflexivity|]. rewrite mapM_cons, Hx. cbn [bind]. now rewrite IH.
Qed.

Lemma upd_sub_id : forall key g e po, jget key e = Some (JObj po) -> g po = Ok po -> upd_sub key g e = Ok e.
Proof.
  intros key g e po H Hg. unfold upd_sub, jreq. rewrite H. cbn [bind as_obj]. rewrite Hg. cbn [bind].
  now rewrite (jset_same _ _ _ H).
Qed.

(* a route object whose list key `index` already comes first (or that has none) *)
Definition route_item_ok (it : json) : bool :=
  match it with
  | JObj ((k, v) :: t) =>
      if String.eqb k "index" then negb (jhas "index" t) && match v with JNull => false | _ => true end
      else negb (jhas "index" ((k, v) :: t))
  | JObj [] => true
  | _ => false
  end.
Lemma reorder_item_id : forall it, route_item_ok it = true -> reorder_item "index" it = Ok it.
Proof.
  intros [| | | | |[|[k v] t]] H; try discriminate; [reflexivity|].
  unfold reorder_item. cbn [as_obj bind]. unfold route_item_ok in H.
  destruct (String.eqb k "index") eqn:E.
  - apply String.eqb_eq in E. subst k. apply andb_true_iff in H as [H1 H2]. apply negb_true_iff in H1.
    cbn [jget]. rewrite String.eqb_refl. cbn [jdel]. rewrite String.eqb_refl.
    assert (Hn : jget "index" t = None) by (unfold jhas in H1; destruct (jget "index" t); [discriminate|reflexivity]).
    rewrite (jdel_notin _ _ Hn). destruct v; try reflexivity. discriminate.
  - apply negb_true_iff in H. unfold jhas in H. destruct (jget "index" ((k, v) :: t)); [discriminate|reflexivity].
Qed.

Definition slot_ok (s : json) : bool :=
  match s with
  | JObj so => match so with [] => false | _ => true end
               && match jget "N" so with Some JNull => false | _ => true end
               && match jget "M" so with Some JNull => false | _ => true end
  | _ => false
  end.
Lemma pop_if_none_id : forall k o, match jget k o with Some JNull => false | _ => true end = true -> pop_if_none k o = o.
Proof. intros k o H. unfold pop_if_none. destruct (jget k o) as [[| | | | |]|]; try reflexivity. discriminate. Qed.

Lemma set_nth_same : forall l i s, nth_error l i = Some s -> set_nth l i s = l.
Proof.
  induction l as [|x t IH]; intros [|i] s H; cbn in *; try discriminate.
  - now injection H as ->.
  - now rewrite IH.
Qed.

Lemma slot_loop_id : forall fuel i l, forallb slot_ok l = true -> slot_loop fuel i l = Ok l.
Proof.
  induction fuel as [|fuel IH]; intros i l H; [reflexivity|]. cbn [slot_loop].
  destruct (nth_error l i) as [s|] eqn:E; [|reflexivity].
  assert (Hs : slot_ok s = true) by (rewrite forallb_forall in H; apply H; eapply nth_error_In; eauto).
  destruct s as [| | | | |so]; try discriminate. cbn [as_obj bind]. unfold slot_ok in Hs.
  apply andb_true_iff in Hs as [Hs H3]. apply andb_true_iff in Hs as [H1 H2].
  rewrite (pop_if_none_id "N" so H2), (pop_if_none_id "M" so H3), (set_nth_same _ _ _ E).
  destruct so; [discriminate|]. now apply IH.
Qed.

Definition te_ok (te : obj) : bool :=
  match jget "effective-freq-slot" te with
  | None => true
  | Some (JArr (s :: t)) => forallb slot_ok (s :: t)
  | Some _ => false
  end
  && match jget "max-nb-of-channel" te with Some JNull => false | _ => true end
  && match jget "trx_mode" te with Some JNull => false | _ => true end
  && match jget "output-power" te with Some JNull => false | _ => true end.
Lemma union_te_id : forall te, te_ok te = true -> union_te te = Ok te.
Proof.
  intros te H. unfold te_ok in H.
  apply andb_true_iff in H as [H H4]. apply andb_true_iff in H as [H H3]. apply andb_true_iff in H as [H1 H2].
  unfold union_te.
  assert (E : match jget "effective-freq-slot" te with
              | None => Ok te
              | Some fs => if truthy fs
                           then let* l := as_arr fs in let* l' := slot_loop (length l) 0 l in
                                Ok (match l' with [] => jdel "effective-freq-slot" te
                                                | _ => jset "effective-freq-slot" (JArr l') te end)
                           else Ok te
              end = Ok te).
  { destruct (jget "effective-freq-slot" te) as [fs|] eqn:Ef; [|reflexivity].
    destruct fs as [| | | |[|s t]|]; try discriminate.
    cbn [truthy as_arr bind]. rewrite (slot_loop_id _ 0 (s :: t) H1). cbn [bind].
    now rewrite (jset_same _ _ _ Ef). }
  rewrite E. cbn [bind].
  now rewrite (pop_if_none_id _ _ H2), (pop_if_none_id _ _ H3), (pop_if_none_id _ _ H4).
Qed.

Definition request_ok (r : json) : bool :=
  match r with
  | JObj ro =>
      match jget "explicit-route-objects" ro with
      | None => true
      | Some (JObj ero) => match jget "route-object-include-exclude" ero with
                           | Some (JArr items) => forallb route_item_ok items
                           | _ => false
                           end
      | Some _ => false
      end
      && match jget "path-constraints" ro with
         | Some (JObj pc) => match jget "te-bandwidth" pc with Some (JObj te) => te_ok te | _ => false end
         | _ => false
         end
  | _ => false
  end.

Lemma reorder_route_request_id : forall ro, request_ok (JObj ro) = true -> reorder_route_request ro = Ok ro.
Proof.
  intros ro H. unfold request_ok in H. apply andb_true_iff in H as [H _]. unfold reorder_route_request.
  destruct (jget "explicit-route-objects" ro) as [[| | | | |ero]|] eqn:E; try discriminate; [|reflexivity].
  destruct (jget "route-object-include-exclude" ero) as [[| | | |items|]|] eqn:E2; try discriminate.
  apply (upd_sub_id _ _ _ ero E). unfold jreq. rewrite E2. cbn [bind]. unfold reorder_keys. cbn [as_arr bind].
  rewrite (mapM_id (reorder_item "index") items).
  - cbn [bind]. now rewrite (jset_same _ _ _ E2).
  - rewrite forallb_forall in H. rewrite Forall_forall. intros it Hit. apply reorder_item_id. auto.
Qed.

Lemma union_request_id : forall ro, request_ok (JObj ro) = true -> union_request ro = Ok ro.
Proof.
  intros ro H. unfold request_ok in H. apply andb_true_iff in H as [_ H]. unfold union_request.
  destruct (jget "path-constraints" ro) as [[| | | | |pc]|] eqn:E; try discriminate.
  destruct (jget "te-bandwidth" pc) as [[| | | | |te]|] eqn:E2; try discriminate.
  apply (upd_sub_id _ _ _ pc E). apply (upd_sub_id _ _ _ te E2). now apply union_te_id.
Qed.

Lemma on_requests_id : forall f top rs,
  jget "path-request" top = Some (JArr rs) ->
  Forall (fun r => exists ro, r = JObj ro /\ f ro = Ok ro) rs -> on_requests f top = Ok top.
Proof.
  intros f top rs H HF. unfold on_requests, jreq. rewrite H. cbn [bind as_arr].
  rewrite (mapM_id _ rs).
  - cbn [bind]. now rewrite (jset_same _ _ _ H).
  - rewrite Forall_forall in *. intros r Hr. destruct (HF r Hr) as (ro & -> & Hf). cbn [as_obj bind]. now rewrite Hf.
Qed.

(* a service document whose lists are already in the shape the YANG schema needs *)
Definition is_services (o : obj) : bool :=
  negb (jhas K_elements o) && negb (jhas TOPO_NMSP o) && negb (any_key EQPT_TYPES o) && negb (jhas EQPT_NMSP o)
  && match jget "path-request" o with Some (JArr rs) => forallb request_ok rs | _ => false end.

Theorem y2l_l2y_services : forall o,
  is_services (map (fun kv => (fst kv, none_to_empty (snd kv))) o) = true ->
  legacy_nulls_ok (JObj o) = true -> doc_ok (prec SERV_NMSP) (JObj o) = true ->
  exists y, legacy_to_yang (JObj o) = Ok y /\ yang_to_legacy y = Ok (JObj o).
Proof.
  intros o Hs Hn W. set (o' := map (fun kv => (fst kv, none_to_empty (snd kv))) o) in *.
  unfold is_services in Hs.
  apply andb_true_iff in Hs as [Hs H5]. apply andb_true_iff in Hs as [Hs H4].
  apply andb_true_iff in Hs as [Hs H3]. apply andb_true_iff in Hs as [H1 H2].
  apply negb_true_iff in H1, H2, H3, H4.
  destruct (jget "path-request" o') as [[| | | |rs|]|] eqn:Er; try discriminate.
  assert (Hreq : forall r, In r rs -> exists ro, r = JObj ro /\ request_ok (JObj ro) = true).
  { rewrite forallb_forall in H5. intros r Hr. specialize (H5 r Hr). destruct r; try discriminate. eauto. }
  assert (C1 : reorder_route_objects o' = Ok o').
  { apply (on_requests_id _ _ rs Er). rewrite Forall_forall. intros r Hr.
    destruct (Hreq r Hr) as (ro & -> & Hro). exists ro. split; [reflexivity|now apply reorder_route_request_id]. }
  assert (C2 : remove_union_that_fail o' = Ok o').
  { apply (on_requests_id _ _ rs Er). rewrite Forall_forall. intros r Hr.
    destruct (Hreq r Hr) as (ro & -> & Hro). exists ro. split; [reflexivity|now apply union_request_id]. }
  destruct (generic_roundtrip (JObj o) (prec SERV_NMSP) Hn W) as (y0 & G1 & G2).
  exists (JObj [(SERV_NMSP, y0)]). split.
  - unfold legacy_to_yang. cbn [none_to_empty as_obj bind]. fold o'.
    rewrite H1, H2, H3, H4.
    assert (Hp : jhas "path-request" o' = true) by (unfold jhas; now rewrite Er). rewrite Hp.
    unfold chain, serv_forth. cbn [fold_left bind]. rewrite C1. cbn [bind]. rewrite C2. cbn [bind].
    unfold convert_dict. rewrite cd_obj_eq, mapM_cons, mapM_nil. cbn [fst snd].
    rewrite prec_d_dflt. cbn [none_to_empty] in G1. fold o' in G1. rewrite G1. reflexivity.
  - unfold yang_to_legacy, convert_back. cbn [empty_to_none map fst snd]. rewrite cb_obj_eq, mapM_cons, mapM_nil.
    cbn [fst snd]. rewrite G2. cbn [bind as_obj]. reflexivity.
Qed.

(* ------------------------------------------------------------------ whole documents: topology and equipment (frames) *)
Definition nmap (o : obj) : obj := map (fun kv => (fst kv, none_to_empty (snd kv))) o.

(* if the structural chain commutes with none_to_empty on this document (it maps N top to N t2) and the back
   chain undoes it, the whole conversion there and back is the identity *)
Theorem topology_frame : forall top t2,
  jhas K_elements top = true ->
  chain topo_forth (nmap top) = Ok (nmap t2) ->
  chain topo_back t2 = Ok top ->
  legacy_nulls_ok (JObj t2) = true -> doc_ok (prec TOPO_NMSP) (JObj t2) = true ->
  remove_ns "gnpy-network-topology:" (JObj t2) = JObj t2 ->
  exists y, legacy_to_yang (JObj top) = Ok y /\ yang_to_legacy y = Ok (JObj top).
Proof.
  intros top t2 He Hf Hb Hn W Hr.
  destruct (generic_roundtrip (JObj t2) (prec TOPO_NMSP) Hn W) as (y0 & G1 & G2).
  exists (JObj [(TOPO_NMSP, y0)]). split.
  - unfold legacy_to_yang. cbn [none_to_empty as_obj bind]. fold (nmap top).
    assert (jhas K_elements (nmap top) = true) as -> by (unfold nmap; now rewrite jhas_map_val).
    rewrite Hf. cbn [bind]. unfold convert_dict. rewrite cd_obj_eq, mapM_cons, mapM_nil. cbn [fst snd].
    rewrite prec_d_dflt. cbn [none_to_empty] in G1. fold (nmap t2) in G1. rewrite G1. reflexivity.
  - unfold yang_to_legacy, convert_back. cbn [empty_to_none map fst snd]. rewrite cb_obj_eq, mapM_cons, mapM_nil.
    cbn [fst snd]. rewrite G2. cbn [bind as_obj].
    cbn [jhas jget K_elements TOPO_NMSP String.eqb Ascii.eqb Bool.eqb jreq bind].
    rewrite Hr. cbn [as_obj bind]. rewrite Hb. reflexivity.
Qed.

Theorem equipment_frame : forall top t2,
  jhas K_elements top = false -> jhas TOPO_NMSP top = false -> any_key EQPT_TYPES top = true ->
  chain eqpt_forth (nmap top) = Ok (nmap t2) ->
  chain eqpt_back t2 = Ok top ->
  legacy_nulls_ok (JObj t2) = true -> doc_ok (prec EQPT_NMSP) (JObj t2) = true ->
  remove_ns "gnpy-eqpt-config:" (JObj top) = JObj top ->
  exists y, legacy_to_yang (JObj top) = Ok y /\ yang_to_legacy y = Ok (JObj top).
Proof.
  intros top t2 H1 H2 H3 Hf Hb Hn W Hr.
  destruct (generic_roundtrip (JObj t2) (prec EQPT_NMSP) Hn W) as (y0 & G1 & G2).
  exists (JObj [(EQPT_NMSP, y0)]). split.
  - unfold legacy_to_yang. cbn [none_to_empty as_obj bind]. fold (nmap top).
    assert (jhas K_elements (nmap top) = false) as -> by (unfold nmap; now rewrite jhas_map_val).
    assert (jhas TOPO_NMSP (nmap top) = false) as -> by (unfold nmap; now rewrite jhas_map_val).
    assert (any_key EQPT_TYPES (nmap top) = true) as -> by (unfold nmap; now rewrite any_key_map_val).
    rewrite Hf. cbn [bind]. unfold convert_dict. rewrite cd_obj_eq, mapM_cons, mapM_nil. cbn [fst snd].
    rewrite prec_d_dflt. cbn [none_to_empty] in G1. fold (nmap t2) in G1. rewrite G1. reflexivity.
  - unfold yang_to_legacy, convert_back. cbn [empty_to_none map fst snd]. rewrite cb_obj_eq, mapM_cons, mapM_nil.
    cbn [fst snd]. rewrite G2. cbn [bind as_obj].
    cbn [jhas jget any_key existsb K_elements TOPO_NMSP EQPT_TYPES EQPT_NMSP String.eqb Ascii.eqb Bool.eqb orb].
    unfold under, jreq. cbn [jget EQPT_NMSP String.eqb Ascii.eqb Bool.eqb bind as_obj].
    rewrite Hb. cbn [bind jset EQPT_NMSP String.eqb Ascii.eqb Bool.eqb jget]. now rewrite Hr.
Qed.

(* ------------------------------------------------------------------ key-local transformers and overlays *)
(* doc with the values of the keys bound in s replaced (first binding of s wins) *)
Definition jover (s : obj) (doc : obj) : obj :=
  map (fun kv => (fst kv, match jget (fst kv) s with Some v => v | None => snd kv end)) doc.

Lemma jover_nil : forall doc, jover [] doc = doc.
Proof. intros doc; unfold jover; induction doc as [|[k v] t IH]; cbn in *; [reflexivity|congruence]. Qed.

Lemma jget_jover : forall k s doc,
  jget k (jover s doc) = match jget k doc with
                         | None => None
                         | Some v0 => Some (match jget k s with Some v => v | None => v0 end)
                         end.
Proof.
  intros k s doc; induction doc as [|[k' v'] t IH]; cbn; [reflexivity|].
  destruct (String.eqb k k') eqn:E; [|exact IH]. apply String.eqb_eq in E. now subst.
Qed.

Lemma jover_cons_notin : forall k v s t, ~ In k (keys t) -> jover ((k, v) :: s) t = jover s t.
Proof.
  intros k v s t; induction t as [|[k2 v2] t2 IH]; intros H; cbn; [reflexivity|].
  assert (String.eqb k2 k = false) as -> by (apply String.eqb_neq; intro; subst; apply H; now left).
  f_equal. apply IH. intro Hin. apply H. now right.
Qed.

Lemma jset_jover : forall k v s doc, NoDup (keys doc) -> jget k doc <> None ->
  jset k v (jover s doc) = jover ((k, v) :: s) doc.
Proof.
  intros k v s doc; induction doc as [|[k' v'] t IH]; intros Hnd Hk; cbn in *; [now elim Hk|].
  inversion Hnd as [|? ? Hnin Hnd']; subst.
  destruct (String.eqb k k') eqn:E.
  - apply String.eqb_eq in E. subst k'. rewrite String.eqb_refl. f_equal.
    symmetry. now apply jover_cons_notin.
  - assert (String.eqb k' k = false) as -> by (rewrite String.eqb_sym; exact E).
    f_equal. now apply IH.
Qed.

Lemma jover_id : forall s doc,
  (forall k v, jget k s = Some v -> jget k doc = Some v \/ jget k doc = None) -> NoDup (keys doc) -> jover s doc = doc.
Proof.
  intros s doc; induction doc as [|[k v] t IH]; intros H Hnd; cbn; [reflexivity|].
  inversion Hnd as [|? ? Hnin Hnd']; subst. f_equal.
  - f_equal. destruct (jget k s) as [w|] eqn:E; [|reflexivity].
    destruct (H k w E) as [H1|H1]; cbn in H1; rewrite String.eqb_refl in H1; [now injection H1|discriminate].
  - apply IH; [|exact Hnd']. intros k' w E. destruct (H k' w E) as [H1|H1]; cbn in H1.
    + destruct (String.eqb k' k) eqn:E2; [|now left].
      apply String.eqb_eq in E2. subst k'. right. apply jget_none_notin. exact Hnin.
    + destruct (String.eqb k' k); [discriminate|now right].
Qed.

Lemma nmap_jover : forall s doc, nmap (jover s doc) = jover (nmap s) (nmap doc).
Proof.
  intros s doc; unfold nmap, jover. rewrite !map_map. apply map_ext. intros [k v]. cbn [fst snd]. f_equal.
  rewrite (jget_map_val none_to_empty). now destruct (jget k s).
Qed.

Lemma keys_jover : forall s doc, keys (jover s doc) = keys doc.
Proof. intros s doc; unfold keys, jover. rewrite map_map. reflexivity. Qed.
Lemma keys_nmap : forall doc, keys (nmap doc) = keys doc.
Proof. intros doc; unfold keys, nmap. rewrite map_map. reflexivity. Qed.
Lemma jget_nmap : forall k doc, jget k (nmap doc) = option_map none_to_empty (jget k doc).
Proof. intros; apply jget_map_val. Qed.

(* a list of entries, each of which is rewritten by f on the document after none_to_empty and restored by h *)
Definition ET (f h : json -> res json) (e : json) : Prop :=
  exists e1, f e = Ok e1 /\ f (none_to_empty e) = Ok (none_to_empty e1) /\ h e1 = Ok e /\
             e <> JNull /\ e1 <> JNull.

Lemma mapM_ET : forall f h es, Forall (ET f h) es ->
  exists es1, mapM f es = Ok es1 /\ mapM f (map none_to_empty es) = Ok (map none_to_empty es1) /\ mapM h es1 = Ok es /\
              es <> [JNull] /\ es1 <> [JNull].
Proof.
  intros f h es H; induction H as [|e t (e1 & H0 & H1 & H2 & H3 & H4) Ht (t1 & I0 & I1 & I2 & _ & _)].
  - exists []. repeat split; try reflexivity; discriminate.
  - exists (e1 :: t1). cbn [map]. rewrite !mapM_cons, H0, H1, H2. cbn [bind]. rewrite I0, I1, I2. cbn [bind].
    repeat split; intro Hc; injection Hc as Hc _; contradiction.
Qed.

(* ------------------------------------------------------------------ equipment libraries: composition *)
Definition wrapf (f : obj -> res obj) (e : json) : res json :=
  let* eo := as_obj e in let* eo' := f eo in Ok (JObj eo').
(* if key in doc: doc[key] = [fj(e) for e in doc[key]] *)
Definition on_list (key : string) (fj : json -> res json) (doc : obj) : res obj :=
  match jget key doc with
  | None => Ok doc
  | Some l => let* items := as_arr l in let* items' := mapM fj items in Ok (jset key (JArr items') doc)
  end.
Lemma on_entries_on_list : forall key f doc, on_entries key f doc = on_list key (wrapf f) doc.
Proof. reflexivity. Qed.
Lemma back_range_all_on_list : forall key lk dk doc, back_range_all key lk dk doc = on_list key (back_range_entry lk dk) doc.
Proof. reflexivity. Qed.

(* the value of `key`, when present, is a list of entries each satisfying ET f h *)
Definition KV (key : string) (f h : json -> res json) (top : obj) : Prop :=
  match jget key top with
  | None => True
  | Some v0 => exists es, v0 = JArr es /\ Forall (ET f h) es
  end.

Lemma on_list_absent : forall key fj s B X, jget key B = None ->
  on_list key fj (jover s B) = Ok (jover ((key, X) :: s) B).
Proof.
  intros key fj s B X H. unfold on_list. rewrite jget_jover, H.
  rewrite jover_cons_notin by (now apply jget_none_notin). reflexivity.
Qed.

(* forward step: on the document itself and on the document after none_to_empty *)
Lemma kv_forth : forall key f h top s sN, NoDup (keys top) -> KV key f h top -> jget key s = None -> jget key sN = None ->
  exists X, on_list key f (jover s top) = Ok (jover ((key, X) :: s) top) /\
            on_list key f (jover sN (nmap top)) = Ok (jover ((key, none_to_empty X) :: sN) (nmap top)) /\
            match jget key top with
            | None => True
            | Some v0 => exists es es1, v0 = JArr es /\ X = JArr es1 /\ mapM h es1 = Ok es
            end.
Proof.
  intros key f h top s sN Hnd Hkv Hs HsN. unfold KV in Hkv. destruct (jget key top) as [v0|] eqn:E.
  - destruct Hkv as (es & -> & HF). destruct (mapM_ET f h es HF) as (es1 & I0 & I1 & I2 & N1 & N2).
    exists (JArr es1). split; [|split; [|eauto]].
    + unfold on_list. rewrite jget_jover, E, Hs. cbn [as_arr bind]. rewrite I0. cbn [bind].
      rewrite jset_jover; [reflexivity|exact Hnd|rewrite E; discriminate].
    + unfold on_list. rewrite jget_jover, jget_nmap, E, HsN. cbn [option_map].
      rewrite !n2e_arr by assumption. cbn [as_arr bind]. rewrite I1. cbn [bind].
      rewrite jset_jover; [reflexivity|now rewrite keys_nmap|rewrite jget_nmap, E; discriminate].
  - exists JNull. split; [|split; [|exact I]]; apply on_list_absent; [exact E|now rewrite jget_nmap, E].
Qed.

(* backward step, on the converted document *)
Lemma kv_back : forall key h top s X, NoDup (keys top) ->
  match jget key top with
  | None => True
  | Some v0 => exists es es1, v0 = JArr es /\ X = JArr es1 /\ mapM h es1 = Ok es
  end ->
  jget key s = Some X ->
  exists Y, on_list key h (jover s top) = Ok (jover ((key, Y) :: s) top) /\
            (forall v0, jget key top = Some v0 -> Y = v0).
Proof.
  intros key h top s X Hnd Hb Hs. destruct (jget key top) as [v0|] eqn:E.
  - destruct Hb as (es & es1 & -> & -> & Hm). exists (JArr es). split.
    + unfold on_list. rewrite jget_jover, E, Hs. cbn [as_arr bind]. rewrite Hm. cbn [bind].
      rewrite jset_jover; [reflexivity|exact Hnd|rewrite E; discriminate].
    + intros v0 Hv. now injection Hv.
  - exists JNull. split; [now apply on_list_absent|discriminate].
Qed.

Lemma nmap_app : forall a b, nmap (a ++ b) = nmap a ++ nmap b.
Proof. intros; unfold nmap; apply map_app. Qed.
Lemma n2e_obj : forall o, none_to_empty (JObj o) = JObj (nmap o).
Proof. reflexivity. Qed.
Lemma jget_nmap_none : forall k o, jget k o = None -> jget k (nmap o) = None.
Proof. intros k o H. now rewrite jget_nmap, H. Qed.

(* RamanFiber entries without the legacy raman_efficiency block are left alone *)
Lemma ET_raman_plain : forall eo, jget K_raman_eff eo = None ->
  ET (wrapf raman_eff_entry) (wrapf back_raman_eff_entry) (JObj eo).
Proof.
  intros eo H. exists (JObj eo). repeat split; try discriminate.
  - unfold wrapf, raman_eff_entry. cbn [as_obj bind]. now rewrite H.
  - rewrite n2e_obj. unfold wrapf, raman_eff_entry. cbn [as_obj bind]. now rewrite (jget_nmap_none _ _ H).
  - unfold wrapf, back_raman_eff_entry. cbn [as_obj bind]. now rewrite H.
Qed.

Lemma ET_range : forall lk dk e, String.eqb lk dk = false -> range_entry_ok lk dk e ->
  ET (wrapf (range_entry lk dk)) (back_range_entry lk dk) e.
Proof.
  intros lk dk e Hne (others & a & b & c & -> & H1 & H2).
  exists (JObj (others ++ [(dk, range_dict a b c)])). repeat split; try discriminate.
  - unfold wrapf. cbn [as_obj bind]. now rewrite (range_entry_forth lk dk others _ _ _ Hne H1 H2).
  - rewrite !n2e_obj, !nmap_app. cbn [nmap map fst snd].
    rewrite (n2e_arr [a; b; c]) by discriminate. cbn [map].
    unfold wrapf. cbn [as_obj bind].
    rewrite (range_entry_forth lk dk (nmap others) _ _ _ Hne (jget_nmap_none _ _ H1) (jget_nmap_none _ _ H2)).
    reflexivity.
  - now apply back_range_entry_ok.
Qed.

(* an amplifier entry: no nf_coef, or nf_coef as the last key holding a non-empty list of numbers *)
Definition edfa_entry_ok (e : json) : Prop :=
  exists eo, e = JObj eo /\
    (jget "nf_coef" eo = None \/
     exists others m d ct, eo = others ++ [("nf_coef"%string, JArr (JNum m d :: ct))] /\ jget "nf_coef" others = None).

Lemma enum_coef_n2e : forall l i, map none_to_empty (enum_coef i l) = enum_coef i (map none_to_empty l).
Proof. induction l as [|c t IH]; intros i; cbn; [reflexivity|]. now rewrite IH. Qed.

Lemma ET_edfa : forall e, edfa_entry_ok e -> ET (wrapf (nf_forth "nf_coef")) (wrapf (nf_back "nf_coef")) e.
Proof.
  intros e (eo & -> & [H|(others & m & d & ct & -> & H)]).
  - exists (JObj eo). repeat split; try discriminate.
    + unfold wrapf, nf_forth. cbn [as_obj bind]. now rewrite H.
    + rewrite n2e_obj. unfold wrapf, nf_forth. cbn [as_obj bind]. now rewrite (jget_nmap_none _ _ H).
    + unfold wrapf, nf_back. cbn [as_obj bind]. now rewrite H.
  - destruct (nf_coef_roundtrip "nf_coef" others (JNum m d) ct H eq_refl) as (e' & F1 & B1).
    exists (JObj e'). repeat split; try discriminate.
    + unfold wrapf. cbn [as_obj bind]. now rewrite F1.
    + (* forward on the none_to_empty side, explicitly *)
      unfold nf_forth in F1. rewrite (jget_last _ _ _ H), (jdel_last _ _ _ H) in F1.
      cbn [as_arr bind nth_req nth_error is_dict] in F1. injection F1 as <-.
      rewrite (jset_notin _ _ _ H).
      rewrite !n2e_obj, !nmap_app. cbn [nmap map fst snd].
      rewrite (n2e_arr (JNum m d :: ct)) by discriminate.
      change (JObj [("coef_order"%string, JNum 0 0); ("nf_coef"%string, JNum m d)] :: enum_coef 1 ct)
        with (enum_coef 0 (JNum m d :: ct)).
      rewrite (n2e_arr (enum_coef 0 (JNum m d :: ct))) by (cbn; discriminate).
      rewrite enum_coef_n2e. cbn [map none_to_empty].
      unfold wrapf, nf_forth. cbn [as_obj bind].
      pose proof (jget_nmap_none _ _ H) as Hn.
      rewrite (jget_last _ _ _ Hn), (jdel_last _ _ _ Hn). cbn [as_arr bind nth_req nth_error is_dict].
      now rewrite (jset_notin _ _ _ Hn).
    + unfold wrapf. cbn [as_obj bind]. now rewrite B1.
Qed.

(* add_missing_default_type_variety does nothing when every Roadm entry names its type_variety *)
Definition roadm_entries_ok (top : obj) : Prop :=
  match jget K_roadm top with
  | None => True
  | Some v => exists items, v = JArr items /\ Forall (fun e => exists eo, e = JObj eo /\ jhas "type_variety" eo = true) items
  end.
Lemma add_default_first_id : forall items,
  Forall (fun e => exists eo, e = JObj eo /\ jhas "type_variety" eo = true) items -> add_default_first items = Ok items.
Proof.
  intros items H; induction H as [|e t (eo & -> & He) Ht IH]; [reflexivity|].
  cbn [add_default_first key_in bind]. rewrite He, IH. reflexivity.
Qed.
Lemma add_default_id : forall doc, roadm_entries_ok doc -> add_missing_default_type_variety doc = Ok doc.
Proof.
  intros doc H. unfold add_missing_default_type_variety, roadm_entries_ok in *.
  destruct (jget K_roadm doc) as [v|] eqn:E; [|reflexivity].
  destruct H as (items & -> & HF). cbn [as_arr bind]. rewrite (add_default_first_id _ HF). cbn [bind].
  now rewrite (jset_same _ _ _ E).
Qed.

Lemma roadm_entries_ok_nmap : forall v,
  (exists items, v = JArr items /\ Forall (fun e => exists eo, e = JObj eo /\ jhas "type_variety" eo = true) items) ->
  exists items, none_to_empty v = JArr items /\
                Forall (fun e => exists eo, e = JObj eo /\ jhas "type_variety" eo = true) items.
Proof.
  intros v (items & -> & HF). exists (map none_to_empty items). split.
  - apply n2e_arr. intro Hc. subst. inversion HF as [|? ? (eo & He & _) _]. discriminate.
  - rewrite Forall_forall in *. intros e He. apply in_map_iff in He as (e0 & <- & He0).
    destruct (HF e0 He0) as (eo & -> & Ht). exists (nmap eo). split; [reflexivity|].
    unfold nmap. now rewrite jhas_map_val.
Qed.

Definition LKS := "delta_power_range_db"%string.
Definition DKS := "delta_power_range_dict_db"%string.
Definition LKI := "power_range_db"%string.
Definition DKI := "power_range_dict_db"%string.

(* an equipment library in canonical shape: RamanFiber entries without the legacy raman_efficiency block (F16),
   every Span / SI entry with its range list as last key, amplifier entries with nf_coef (if any) as last key,
   every Roadm entry with its type_variety *)
Record eqpt_canonical (top : obj) : Prop := {
  ec_nodup : NoDup (keys top);
  ec_not_topo : jhas K_elements top = false /\ jhas TOPO_NMSP top = false;
  ec_types : any_key EQPT_TYPES top = true;
  ec_raman : KV "RamanFiber" (wrapf raman_eff_entry) (wrapf back_raman_eff_entry) top;
  ec_span : KV "Span" (wrapf (range_entry LKS DKS)) (back_range_entry LKS DKS) top;
  ec_si : KV "SI" (wrapf (range_entry LKI DKI)) (back_range_entry LKI DKI) top;
  ec_edfa : KV "Edfa" (wrapf (nf_forth "nf_coef")) (wrapf (nf_back "nf_coef")) top;
  ec_roadm : roadm_entries_ok top;
  ec_ns : remove_ns "gnpy-eqpt-config:" (JObj top) = JObj top
}.

Lemma equipment_chains : forall top, eqpt_canonical top ->
  exists t2, chain eqpt_forth top = Ok t2 /\ chain eqpt_forth (nmap top) = Ok (nmap t2) /\ chain eqpt_back t2 = Ok top.
Proof.
  intros top C. destruct C as [Hnd _ _ Hr Hs Hi He Hro _].
  destruct (kv_forth _ _ _ top [] [] Hnd Hr eq_refl eq_refl) as (X0 & F0 & G0 & B0).
  destruct (kv_forth _ _ _ top [("RamanFiber"%string, X0)] [("RamanFiber"%string, none_to_empty X0)] Hnd Hs eq_refl eq_refl)
    as (X1 & F1 & G1 & B1).
  destruct (kv_forth _ _ _ top (("Span"%string, X1) :: [("RamanFiber"%string, X0)])
              (("Span"%string, none_to_empty X1) :: [("RamanFiber"%string, none_to_empty X0)]) Hnd Hi eq_refl eq_refl)
    as (X2 & F2 & G2 & B2).
  destruct (kv_forth _ _ _ top (("SI"%string, X2) :: ("Span"%string, X1) :: [("RamanFiber"%string, X0)])
              (("SI"%string, none_to_empty X2) :: ("Span"%string, none_to_empty X1) :: [("RamanFiber"%string, none_to_empty X0)])
              Hnd He eq_refl eq_refl)
    as (X3 & F3 & G3 & B3).
  set (sg := [("Edfa"%string, X3); ("SI"%string, X2); ("Span"%string, X1); ("RamanFiber"%string, X0)]) in *.
  rewrite jover_nil in F0, G0.
  exists (jover sg top).
  assert (Hro1 : roadm_entries_ok (jover sg top)).
  { unfold roadm_entries_ok in *. rewrite jget_jover. destruct (jget K_roadm top); [exact Hro|exact I]. }
  assert (Hro2 : roadm_entries_ok (jover (nmap sg) (nmap top))).
  { unfold roadm_entries_ok in *. rewrite jget_jover, jget_nmap. destruct (jget K_roadm top) as [v|]; [|exact I].
    cbn [option_map]. change (jget K_roadm (nmap sg)) with (@None json). now apply roadm_entries_ok_nmap. }
  split; [|split].
  - unfold chain, eqpt_forth. cbn [fold_left bind]. unfold convert_raman_efficiency, convert_delta_power_range, convert_nf_coef.
    rewrite ?on_entries_on_list. rewrite F0. cbn [bind]. rewrite ?on_entries_on_list. fold LKS DKS LKI DKI.
    rewrite F1. cbn [bind]. rewrite ?on_entries_on_list. fold LKS DKS LKI DKI. rewrite F2. cbn [bind].
    rewrite ?on_entries_on_list. rewrite F3. cbn [bind]. fold sg. now rewrite (add_default_id _ Hro1).
  - rewrite nmap_jover.
    unfold chain, eqpt_forth. cbn [fold_left bind]. unfold convert_raman_efficiency, convert_delta_power_range, convert_nf_coef.
    rewrite ?on_entries_on_list. rewrite G0. cbn [bind]. rewrite ?on_entries_on_list. fold LKS DKS LKI DKI.
    rewrite G1. cbn [bind]. rewrite ?on_entries_on_list. fold LKS DKS LKI DKI. rewrite G2. cbn [bind].
    rewrite ?on_entries_on_list. rewrite G3. cbn [bind].
    change (("Edfa"%string, none_to_empty X3) :: ("SI"%string, none_to_empty X2) :: ("Span"%string, none_to_empty X1)
             :: [("RamanFiber"%string, none_to_empty X0)]) with (nmap sg).
    now rewrite (add_default_id _ Hro2).
  - destruct (kv_back "Span" _ top sg X1 Hnd B1 eq_refl) as (Y1 & K1 & Q1).
    destruct (kv_back "SI" _ top (("Span"%string, Y1) :: sg) X2 Hnd B2 eq_refl) as (Y2 & K2 & Q2).
    destruct (kv_back "RamanFiber" _ top (("SI"%string, Y2) :: ("Span"%string, Y1) :: sg) X0 Hnd B0 eq_refl) as (Y0 & K0 & Q0).
    destruct (kv_back "Edfa" _ top (("RamanFiber"%string, Y0) :: ("SI"%string, Y2) :: ("Span"%string, Y1) :: sg) X3 Hnd B3 eq_refl)
      as (Y3 & K3 & Q3).
    unfold chain, eqpt_back. cbn [fold_left bind]. unfold convert_back_delta_power_range, convert_back_raman_efficiency, convert_back_nf_coef.
    rewrite ?back_range_all_on_list. fold LKS DKS LKI DKI. rewrite K1. cbn [bind].
    rewrite ?back_range_all_on_list. fold LKS DKS LKI DKI. rewrite K2. cbn [bind].
    rewrite ?on_entries_on_list. rewrite K0. cbn [bind]. rewrite ?on_entries_on_list. rewrite K3. f_equal.
    apply jover_id; [|exact Hnd]. intros k v Hk. cbn [jget] in Hk.
    repeat match type of Hk with
           | (if String.eqb k ?lit then _ else _) = _ =>
               let E := fresh "E" in destruct (String.eqb k lit) eqn:E;
               [apply String.eqb_eq in E; subst k; injection Hk as <-;
                match goal with |- jget ?kk top = _ \/ _ => destruct (jget kk top) as [v0|] eqn:Et; [left|now right] end|]
           end; try discriminate;
    try (f_equal; symmetry; first [now apply Q3|now apply Q0|now apply Q2|now apply Q1]).
    unfold sg in Hk. cbn [jget] in Hk.
    repeat match goal with H : String.eqb k _ = false |- _ => rewrite H in Hk; clear H end. discriminate.
Qed.

Theorem y2l_l2y_equipment : forall top t2, eqpt_canonical top ->
  chain eqpt_forth top = Ok t2 ->
  legacy_nulls_ok (JObj t2) = true -> doc_ok (prec EQPT_NMSP) (JObj t2) = true ->
  exists y, legacy_to_yang (JObj top) = Ok y /\ yang_to_legacy y = Ok (JObj top).
Proof.
  intros top t2 C Hc Hn W. destruct (equipment_chains top C) as (t2' & F & G & B).
  rewrite F in Hc. injection Hc as ->.
  destruct C as [_ [H1 H2] H3 _ _ _ _ _ Hns].
  exact (equipment_frame top t2 H1 H2 H3 G B Hn W Hns).
Qed.

Lemma nmap_jset : forall k v o, nmap (jset k v o) = jset k (none_to_empty v) (nmap o).
Proof.
  intros k v o; unfold nmap; induction o as [|[k' v'] t IH]; cbn; [reflexivity|].
  destruct (String.eqb k k'); cbn; [reflexivity|now rewrite IH].
Qed.

(* ------------------------------------------------------------------ topology: composition *)
Definition chainE (fs : list (json -> res json)) (e : json) : res json :=
  fold_left (fun st f => let* x := st in f x) fs (Ok e).
Definition passes (fs : list (json -> res json)) (es : list json) : res (list json) :=
  fold_left (fun st f => let* l := st in mapM f l) fs (Ok es).

Lemma chainE_err : forall fs s, fold_left (fun st (f : json -> res json) => let* x := st in f x) fs (Err s) = Err s.
Proof. induction fs as [|f t IH]; intros s; cbn; [reflexivity|apply IH]. Qed.
Lemma chainE_cons : forall f fs e, chainE (f :: fs) e = let* x := f e in chainE fs x.
Proof. intros f fs e. unfold chainE. cbn [fold_left bind]. destruct (f e); cbn [bind]; [reflexivity|apply chainE_err]. Qed.
Lemma passes_err : forall fs s, fold_left (fun st (f : json -> res json) => let* l := st in mapM f l) fs (Err s) = Err s.
Proof. induction fs as [|f t IH]; intros s; cbn; [reflexivity|apply IH]. Qed.
Lemma passes_cons : forall f fs es, passes (f :: fs) es = let* l := mapM f es in passes fs l.
Proof. intros f fs es. unfold passes. cbn [fold_left bind]. destruct (mapM f es); cbn [bind]; [reflexivity|apply passes_err]. Qed.
Lemma chain_err : forall fs s, fold_left (fun st (f : obj -> res obj) => let* x := st in f x) fs (Err s) = Err s.
Proof. induction fs as [|f t IH]; intros s; cbn; [reflexivity|apply IH]. Qed.
Lemma chain_cons : forall f fs d, chain (f :: fs) d = let* x := f d in chain fs x.
Proof. intros f fs d. unfold chain. cbn [fold_left bind]. destruct (f d); cbn [bind]; [reflexivity|apply chain_err]. Qed.

Lemma passes_of_chainE : forall fs es es',
  Forall2 (fun e e' => chainE fs e = Ok e') es es' -> passes fs es = Ok es'.
Proof.
  induction fs as [|f fs IH]; intros es es' H.
  - unfold passes; cbn. f_equal. induction H as [|e e' t t' He Ht IHt]; [reflexivity|].
    unfold chainE in He; cbn in He. injection He as ->. now rewrite IHt.
  - rewrite passes_cons.
    assert (exists mids, mapM f es = Ok mids /\ Forall2 (fun e e' => chainE fs e = Ok e') mids es') as (mids & M1 & M2).
    { induction H as [|e e' t t' He Ht (mt & I1 & I2)].
      - exists []. split; [reflexivity|constructor].
      - rewrite chainE_cons in He. destruct (f e) as [m|] eqn:Ef; [|discriminate]. cbn [bind] in He.
        exists (m :: mt). split; [rewrite mapM_cons, Ef; cbn [bind]; now rewrite I1|now constructor]. }
    rewrite M1. cbn [bind]. now apply IH.
Qed.

Lemma chain_on_elements : forall fs doc es es',
  jget K_elements doc = Some (JArr es) -> passes (map wrapf fs) es = Ok es' ->
  chain (map on_elements fs) doc = Ok (jset K_elements (JArr es') doc).
Proof.
  induction fs as [|f fs IH]; intros doc es es' Hk Hp.
  - unfold passes in Hp; cbn in Hp. injection Hp as <-. unfold chain; cbn. now rewrite (jset_same _ _ _ Hk).
  - cbn [map] in *. rewrite passes_cons in Hp. destruct (mapM (wrapf f) es) as [mids|] eqn:Em; [|discriminate].
    cbn [bind] in Hp. rewrite chain_cons.
    assert (on_elements f doc = Ok (jset K_elements (JArr mids) doc)) as ->.
    { unfold on_elements, jreq. rewrite Hk. cbn [bind as_arr]. fold (wrapf f). now rewrite Em. }
    cbn [bind]. rewrite (IH _ mids es' (jget_jset_same _ _ _) Hp). now rewrite jset_jset.
Qed.

(* the per-element functions of legacy_to_yang / yang_to_legacy on a topology *)
Definition topo_elem_forth : list (obj -> res obj) :=
  [reorder_in "operational" "raman_pumps" "frequency"; reorder_in K_params "lumped_losses" "position"; region_city_elem;
   degree_elem; design_band_elem; with_params loss_params; with_params raman_params].
(* without remove_null_region_city, which never fires after none_to_empty: the converted document *)
Definition topo_elem_struct : list (obj -> res obj) :=
  [reorder_in "operational" "raman_pumps" "frequency"; reorder_in K_params "lumped_losses" "position";
   degree_elem; design_band_elem; with_params loss_params; with_params raman_params].
Definition topo_elem_back : list (obj -> res obj) :=
  [back_degree_elem; back_design_band_elem; with_params back_loss_params; with_params back_raman_params].
Definition topo_struct : list (obj -> res obj) := map on_elements topo_elem_struct.

Lemma topo_forth_eq : topo_forth = map on_elements topo_elem_forth.
Proof. reflexivity. Qed.
Lemma topo_back_eq : topo_back = map on_elements topo_elem_back.
Proof. reflexivity. Qed.

(* an element on which the structural conversion commutes with none_to_empty and is undone by the back chain *)
Definition ETS (e : json) : Prop :=
  exists e1, chainE (map wrapf topo_elem_struct) e = Ok e1 /\
             chainE (map wrapf topo_elem_forth) (none_to_empty e) = Ok (none_to_empty e1) /\
             chainE (map wrapf topo_elem_back) e1 = Ok e /\ e <> JNull /\ e1 <> JNull.

Lemma topology_chains : forall top es,
  jget K_elements top = Some (JArr es) -> Forall ETS es ->
  exists t2, chain topo_struct top = Ok t2 /\ chain topo_forth (nmap top) = Ok (nmap t2) /\ chain topo_back t2 = Ok top.
Proof.
  intros top es Hk HF.
  assert (exists es1, Forall2 (fun e e' => chainE (map wrapf topo_elem_struct) e = Ok e') es es1 /\
                      Forall2 (fun e e' => chainE (map wrapf topo_elem_forth) e = Ok e') (map none_to_empty es) (map none_to_empty es1) /\
                      Forall2 (fun e e' => chainE (map wrapf topo_elem_back) e = Ok e') es1 es /\
                      es <> [JNull] /\ es1 <> [JNull]) as (es1 & A1 & A2 & A3 & N1 & N2).
  { clear Hk. induction HF as [|e t He Ht IHt].
    - exists []. repeat split; try constructor; discriminate.
    - destruct He as (e1 & H1 & H2 & H3 & H4 & H5). destruct IHt as (t1 & I1 & I2 & I3 & _ & _).
      exists (e1 :: t1). cbn [map]. repeat split; try (constructor; assumption);
        intro Hc; injection Hc as Hc _; contradiction. }
  exists (jset K_elements (JArr es1) top). split; [|split].
  - unfold topo_struct. exact (chain_on_elements _ _ _ _ Hk (passes_of_chainE _ _ _ A1)).
  - rewrite topo_forth_eq.
    assert (Hk' : jget K_elements (nmap top) = Some (JArr (map none_to_empty es))).
    { rewrite jget_nmap, Hk. cbn [option_map]. now rewrite n2e_arr. }
    rewrite (chain_on_elements _ _ _ _ Hk' (passes_of_chainE _ _ _ A2)).
    f_equal. now rewrite nmap_jset, n2e_arr.
  - rewrite topo_back_eq. rewrite (chain_on_elements _ _ es1 es (jget_jset_same _ _ _) (passes_of_chainE _ _ _ A3)).
    now rewrite jset_jset, (jset_same _ _ _ Hk).
Qed.

Theorem y2l_l2y_topology : forall top t2 es,
  jget K_elements top = Some (JArr es) -> Forall ETS es ->
  chain topo_struct top = Ok t2 ->
  legacy_nulls_ok (JObj t2) = true -> doc_ok (prec TOPO_NMSP) (JObj t2) = true ->
  remove_ns "gnpy-network-topology:" (JObj t2) = JObj t2 ->
  exists y, legacy_to_yang (JObj top) = Ok y /\ yang_to_legacy y = Ok (JObj top).
Proof.
  intros top t2 es Hk HF Hc Hn W Hns. destruct (topology_chains top es Hk HF) as (t2' & F & G & B).
  rewrite F in Hc. injection Hc as ->.
  apply (topology_frame top t2); try assumption. unfold jhas. now rewrite Hk.
Qed.

(* ---- one element: the steps that rewrite params, lifted from the params object ---- *)
Definition is_roadm (ty : string) : bool := String.eqb K_roadm ty.
Definition P2 (p : obj) : res obj :=
  if jhas "lumped_losses" p then
    let* l := jreq "lumped_losses" p in let* l' := reorder_keys "position" l in Ok (jset "lumped_losses" l' p)
  else Ok p.
Definition P4 (ty : string) (p : obj) : res obj := if is_roadm ty then degree_params p else Ok p.
Definition is_band (ty : string) : bool := String.eqb K_roadm ty || String.eqb K_trx ty.
Definition P5 (ty : string) (p : obj) : res obj := if is_band ty then design_band_params p else Ok p.
Definition Q1 (ty : string) (p : obj) : res obj := if is_roadm ty then back_degree_params p else Ok p.
Definition Q2 (ty : string) (p : obj) : res obj := if is_band ty then back_design_band_params p else Ok p.
Definition PF (ty : string) : list (obj -> res obj) := [P2; P4 ty; P5 ty; loss_params; raman_params].
Definition PB (ty : string) : list (obj -> res obj) := [Q1 ty; Q2 ty; back_loss_params; back_raman_params].

(* element x of type ty whose params are the object p *)
Definition has_tp (x : obj) (ty : string) (p : obj) : Prop :=
  jget K_type x = Some (JStr ty) /\ jget K_params x = Some (JObj p).
Lemma has_tp_set : forall x ty p p', has_tp x ty p -> has_tp (jset K_params (JObj p') x) ty p'.
Proof.
  intros x ty p p' [H1 H2]. split; [rewrite jget_jset_other by reflexivity; exact H1|apply jget_jset_same].
Qed.

Lemma lift_s2 : forall x ty p p', has_tp x ty p -> P2 p = Ok p' ->
  reorder_in K_params "lumped_losses" "position" x = Ok (jset K_params (JObj p') x).
Proof.
  intros x ty p p' [H1 H2] H. unfold reorder_in. rewrite H2. cbn [key_in bind]. unfold P2 in H.
  destruct (jhas "lumped_losses" p).
  - unfold upd_sub, jreq. rewrite H2. cbn [bind as_obj]. unfold jreq in H. now rewrite H.
  - injection H as <-. now rewrite (jset_same _ _ _ H2).
Qed.

Lemma roadm_guard : forall x ty p, has_tp x ty p -> roadm_with_params x = Ok (is_roadm ty).
Proof.
  intros x ty p [H1 H2]. unfold roadm_with_params, jreq, jhas. rewrite H1, H2. cbn [bind is_str].
  unfold is_roadm. now rewrite andb_true_r.
Qed.

Lemma band_guard : forall x ty p, has_tp x ty p -> band_elem_with_params x = Ok (is_band ty).
Proof.
  intros x ty p [H1 H2]. unfold band_elem_with_params, jreq, jhas. rewrite H1, H2. cbn [bind is_str].
  unfold is_band. now rewrite andb_true_r.
Qed.

Lemma lift_guarded_gen : forall (guard : obj -> res bool) (b : bool) (g : obj -> res obj) x ty p p', has_tp x ty p ->
  guard x = Ok b -> (if b then g p else Ok p) = Ok p' ->
  (let* c := guard x in if c then upd_sub K_params g x else Ok x) = Ok (jset K_params (JObj p') x).
Proof.
  intros guard b g x ty p p' Ht Hg H. rewrite Hg. cbn [bind]. destruct Ht as [H1 H2].
  destruct b.
  - unfold upd_sub, jreq. rewrite H2. cbn [bind as_obj]. now rewrite H.
  - injection H as <-. now rewrite (jset_same _ _ _ H2).
Qed.

Lemma lift_guarded : forall (g : obj -> res obj) x ty p p', has_tp x ty p ->
  (if is_roadm ty then g p else Ok p) = Ok p' ->
  (let* b := roadm_with_params x in if b then upd_sub K_params g x else Ok x) = Ok (jset K_params (JObj p') x).
Proof.
  intros g x ty p p' Ht H. rewrite (roadm_guard x ty p Ht). cbn [bind]. destruct Ht as [H1 H2].
  destruct (is_roadm ty).
  - unfold upd_sub, jreq. rewrite H2. cbn [bind as_obj]. now rewrite H.
  - injection H as <-. now rewrite (jset_same _ _ _ H2).
Qed.

Lemma lift_with_params : forall (g : obj -> res obj) x ty p p', has_tp x ty p -> g p = Ok p' ->
  with_params g x = Ok (jset K_params (JObj p') x).
Proof.
  intros g x ty p p' [H1 H2] H. unfold with_params. rewrite H2. unfold upd_sub, jreq. rewrite H2.
  cbn [bind as_obj]. now rewrite H.
Qed.

(* the five forward steps on the params, in the order of the code; `mid` stands for remove_null_region_city,
   which sits between them and does not look at params *)
Lemma lift_forward : forall (mid : obj -> res obj) x ty p p1, has_tp x ty p -> chain (PF ty) p = Ok p1 ->
  (forall p', mid (jset K_params (JObj p') x) = Ok (jset K_params (JObj p') x)) ->
  (let* a := reorder_in K_params "lumped_losses" "position" x in
   let* a' := mid a in
   let* b := degree_elem a' in let* c := design_band_elem b in
   let* d := with_params loss_params c in with_params raman_params d) = Ok (jset K_params (JObj p1) x).
Proof.
  intros mid x ty p p1 Ht Hc Hmid. unfold PF in Hc. rewrite ?chain_cons in Hc.
  destruct (P2 p) as [pa|] eqn:E2; [|discriminate]. cbn [bind] in Hc. rewrite ?chain_cons in Hc.
  destruct (P4 ty pa) as [pb|] eqn:E4; [|discriminate]. cbn [bind] in Hc. rewrite ?chain_cons in Hc.
  destruct (P5 ty pb) as [pc|] eqn:E5; [|discriminate]. cbn [bind] in Hc. rewrite ?chain_cons in Hc.
  destruct (loss_params pc) as [pd|] eqn:E6; [|discriminate]. cbn [bind] in Hc. rewrite ?chain_cons in Hc.
  destruct (raman_params pd) as [pe|] eqn:E7; [|discriminate]. cbn [bind] in Hc.
  unfold chain in Hc; cbn in Hc. injection Hc as <-.
  rewrite (lift_s2 x ty p pa Ht E2). cbn [bind]. rewrite Hmid. cbn [bind].
  pose proof (has_tp_set x ty p pa Ht) as Ta.
  unfold degree_elem. rewrite (lift_guarded degree_params _ ty pa pb Ta E4). cbn [bind]. rewrite jset_jset.
  pose proof (has_tp_set x ty p pb Ht) as Tb.
  unfold design_band_elem. rewrite (lift_guarded_gen band_elem_with_params (is_band ty) design_band_params _ ty pb pc Tb (band_guard _ _ _ Tb) E5). cbn [bind]. rewrite jset_jset.
  pose proof (has_tp_set x ty p pc Ht) as Tc.
  rewrite (lift_with_params loss_params _ ty pc pd Tc E6). cbn [bind]. rewrite jset_jset.
  pose proof (has_tp_set x ty p pd Ht) as Td.
  rewrite (lift_with_params raman_params _ ty pd pe Td E7). now rewrite jset_jset.
Qed.

Lemma lift_backward : forall x ty p1 p, has_tp x ty p1 -> chain (PB ty) p1 = Ok p ->
  (let* a := back_degree_elem x in let* b := back_design_band_elem a in
   let* c := with_params back_loss_params b in with_params back_raman_params c) = Ok (jset K_params (JObj p) x).
Proof.
  intros x ty p1 p Ht Hc. unfold PB in Hc. rewrite !chain_cons in Hc.
  destruct (Q1 ty p1) as [pa|] eqn:E1; [|discriminate]. cbn [bind] in Hc. rewrite ?chain_cons in Hc.
  destruct (Q2 ty pa) as [pb|] eqn:E2; [|discriminate]. cbn [bind] in Hc. rewrite ?chain_cons in Hc.
  destruct (back_loss_params pb) as [pc|] eqn:E3; [|discriminate]. cbn [bind] in Hc. rewrite ?chain_cons in Hc.
  destruct (back_raman_params pc) as [pd|] eqn:E4; [|discriminate]. cbn [bind] in Hc.
  unfold chain in Hc; cbn in Hc. injection Hc as <-.
  unfold back_degree_elem. rewrite (lift_guarded back_degree_params _ ty p1 pa Ht E1). cbn [bind].
  pose proof (has_tp_set x ty p1 pa Ht) as Ta.
  unfold back_design_band_elem. rewrite (lift_guarded_gen band_elem_with_params (is_band ty) back_design_band_params _ ty pa pb Ta (band_guard _ _ _ Ta) E2). cbn [bind]. rewrite jset_jset.
  pose proof (has_tp_set x ty p1 pb Ht) as Tb.
  rewrite (lift_with_params back_loss_params _ ty pb pc Tb E3). cbn [bind]. rewrite jset_jset.
  pose proof (has_tp_set x ty p1 pc Ht) as Tc.
  rewrite (lift_with_params back_raman_params _ ty pc pd Tc E4). now rewrite jset_jset.
Qed.

(* ---- the steps that look at `operational` and `metadata` ---- *)
Definition first_key_ok (key : string) (it : json) : bool :=
  match it with
  | JObj ((k, v) :: t) =>
      if String.eqb k key then negb (jhas key t) && match v with JNull => false | _ => true end
      else negb (jhas key ((k, v) :: t))
  | JObj [] => true
  | _ => false
  end.
Lemma reorder_item_first : forall key it, first_key_ok key it = true -> reorder_item key it = Ok it.
Proof.
  intros key [| | | | |[|[k v] t]] H; try discriminate; [reflexivity|].
  unfold reorder_item. cbn [as_obj bind]. unfold first_key_ok in H.
  destruct (String.eqb k key) eqn:E.
  - apply String.eqb_eq in E. subst k. apply andb_true_iff in H as [H1 H2]. apply negb_true_iff in H1.
    cbn [jget]. rewrite String.eqb_refl. cbn [jdel]. rewrite String.eqb_refl.
    assert (Hn : jget key t = None) by (unfold jhas in H1; destruct (jget key t); [discriminate|reflexivity]).
    rewrite (jdel_notin _ _ Hn). destruct v; try reflexivity. discriminate.
  - apply negb_true_iff in H. unfold jhas in H. destruct (jget key ((k, v) :: t)); [discriminate|reflexivity].
Qed.
Lemma n2e_not_null : forall v, match none_to_empty v with JNull => false | _ => true end = true.
Proof. intros [| | | |l|]; try reflexivity. destruct l as [|[] [|]]; reflexivity. Qed.

Lemma first_key_ok_n2e : forall key it, first_key_ok key it = true -> first_key_ok key (none_to_empty it) = true.
Proof.
  intros key [| | | | |[|[k v] t]] H; try discriminate; [reflexivity|].
  rewrite n2e_obj. cbn [nmap map fst snd]. unfold first_key_ok in *.
  change (map (fun kv => (fst kv, none_to_empty (snd kv))) t) with (nmap t).
  destruct (String.eqb k key).
  - apply andb_true_iff in H as [H1 H2]. unfold nmap. rewrite jhas_map_val, H1. apply n2e_not_null.
  - change ((k, none_to_empty v) :: nmap t) with (nmap ((k, v) :: t)). unfold nmap. now rewrite jhas_map_val.
Qed.

(* sub-object `sub` of an element: absent, null, or an object whose list `key` (if any) has its items keyed first *)
Definition sub_list_ok (sub key first : string) (x : obj) : Prop :=
  match jget sub x with
  | None => True
  | Some JNull => True
  | Some (JObj so) => match jget key so with
                      | None => True
                      | Some (JArr items) => forallb (first_key_ok first) items = true
                      | Some _ => False
                      end
  | Some _ => False
  end.

Lemma reorder_in_id : forall sub key first x, sub_list_ok sub key first x ->
  (forall v, jget sub x = Some v -> v <> JNull) -> reorder_in sub key first x = Ok x.
Proof.
  intros sub key first x H Hnn. unfold reorder_in, sub_list_ok in *.
  destruct (jget sub x) as [sv|] eqn:E; [|reflexivity].
  destruct sv as [| | | | |so]; try contradiction; [now elim (Hnn JNull eq_refl)|].
  cbn [key_in bind]. unfold jhas. destruct (jget key so) as [kv|] eqn:E2; [|reflexivity].
  destruct kv as [| | | |items|]; try contradiction.
  apply (upd_sub_id _ _ _ so E). unfold jreq. rewrite E2. cbn [bind]. unfold reorder_keys. cbn [as_arr bind].
  rewrite (mapM_id (reorder_item first) items).
  - cbn [bind]. now rewrite (jset_same _ _ _ E2).
  - rewrite forallb_forall in H. rewrite Forall_forall. intros it Hit. apply reorder_item_first. auto.
Qed.

(* after none_to_empty: null has become [null], on which `key in ...` is False *)
Lemma reorder_in_id_n2e : forall sub key first x, sub_list_ok sub key first x ->
  reorder_in sub key first (nmap x) = Ok (nmap x).
Proof.
  intros sub key first x H. unfold sub_list_ok in H. unfold reorder_in. rewrite jget_nmap.
  destruct (jget sub x) as [sv|] eqn:E; [|reflexivity]. cbn [option_map].
  destruct sv as [| | | | |so]; try contradiction; [reflexivity|].
  rewrite n2e_obj. cbn [key_in bind]. unfold jhas. rewrite jget_nmap.
  destruct (jget key so) as [kv|] eqn:E2; [|reflexivity]. cbn [option_map].
  destruct kv as [| | | |items|]; try contradiction.
  assert (Hne : items <> [JNull]).
  { intro Hc. subst. cbn in H. discriminate. }
  assert (Es : jget sub (nmap x) = Some (JObj (nmap so))) by (rewrite jget_nmap, E; reflexivity).
  assert (Ek : jget key (nmap so) = Some (JArr (map none_to_empty items))).
  { rewrite jget_nmap, E2. cbn [option_map]. now rewrite n2e_arr. }
  apply (upd_sub_id _ _ _ (nmap so) Es). unfold jreq. rewrite Ek. cbn [bind]. unfold reorder_keys. cbn [as_arr bind].
  rewrite (mapM_id (reorder_item first) (map none_to_empty items)).
  - cbn [bind]. now rewrite (jset_same _ _ _ Ek).
  - rewrite forallb_forall in H. rewrite Forall_forall. intros it Hit. apply in_map_iff in Hit as (it0 & <- & Hit0).
    apply reorder_item_first, first_key_ok_n2e. auto.
Qed.

(* metadata: absent, or an object whose location is absent, null or an object *)
Definition md_ok (x : obj) : Prop :=
  match jget "metadata" x with
  | None => True
  | Some (JObj mo) => match jget "location" mo with
                      | None | Some JNull | Some (JObj _) => True
                      | Some _ => False
                      end
  | Some _ => False
  end.

Lemma null_to_empty_str_n2e : forall name lo, null_to_empty_str name (nmap lo) = nmap lo.
Proof.
  intros name lo. unfold null_to_empty_str. rewrite jget_nmap. destruct (jget name lo) as [v|]; [|reflexivity].
  cbn [option_map]. destruct v as [| | | |l|]; try reflexivity. cbn. destruct l as [|[] [|]]; reflexivity.
Qed.

Lemma region_city_id_n2e : forall x y, md_ok x -> jget "metadata" y = jget "metadata" (nmap x) -> region_city_elem y = Ok y.
Proof.
  intros x y H Hy. unfold md_ok in H. unfold region_city_elem. rewrite Hy, jget_nmap.
  destruct (jget "metadata" x) as [md|] eqn:E; [|reflexivity]. cbn [option_map].
  destruct md as [| | | | |mo]; try contradiction. rewrite n2e_obj. cbn [key_in bind]. unfold jhas. rewrite jget_nmap.
  destruct (jget "location" mo) as [loc|] eqn:E2; [|reflexivity]. cbn [option_map].
  assert (Em : jget "metadata" y = Some (JObj (nmap mo))) by (rewrite Hy, jget_nmap, E; reflexivity).
  destruct loc as [| | | | |lo]; try contradiction.
  - (* null -> [null] *)
    apply (upd_sub_id _ _ _ (nmap mo) Em). unfold jreq. rewrite jget_nmap, E2. reflexivity.
  - apply (upd_sub_id _ _ _ (nmap mo) Em). unfold jreq. rewrite jget_nmap, E2. cbn [option_map bind]. rewrite n2e_obj.
    rewrite !null_to_empty_str_n2e.
    assert (El : jget "location" (nmap mo) = Some (JObj (nmap lo))) by (rewrite jget_nmap, E2; reflexivity).
    now rewrite (jset_same _ _ _ El).
Qed.

Lemma chainE_wrapf : forall fs x, chainE (map wrapf fs) (JObj x) = let* y := chain fs x in Ok (JObj y).
Proof.
  induction fs as [|f fs IH]; intros x; [reflexivity|].
  cbn [map]. rewrite chainE_cons, chain_cons. unfold wrapf at 1. cbn [as_obj bind].
  destruct (f x) as [y|]; cbn [bind]; [apply IH|reflexivity].
Qed.

(* the params pipeline commutes with none_to_empty and is undone by the back pipeline *)
Definition PT (ty : string) (p p1 : obj) : Prop :=
  chain (PF ty) p = Ok p1 /\ chain (PF ty) (nmap p) = Ok (nmap p1) /\ chain (PB ty) p1 = Ok p.

Definition op_ok (eo : obj) : Prop :=
  sub_list_ok "operational" "raman_pumps" "frequency" eo /\ (forall v, jget "operational" eo = Some v -> v <> JNull).

Theorem ETS_of_params : forall eo ty p p1,
  has_tp eo ty p -> op_ok eo -> md_ok eo -> PT ty p p1 -> ETS (JObj eo).
Proof.
  intros eo ty p p1 Ht [Hop Hnn] Hmd (F1 & F2 & B).
  exists (JObj (jset K_params (JObj p1) eo)). repeat split; try discriminate.
  - rewrite chainE_wrapf. unfold topo_elem_struct. rewrite chain_cons.
    rewrite (reorder_in_id _ _ _ eo Hop Hnn). cbn [bind].
    pose proof (lift_forward (fun a => Ok a) eo ty p p1 Ht F1 (fun _ => eq_refl)) as L. cbn [bind] in L.
    rewrite !chain_cons. unfold chain at 1; cbn [fold_left].
    destruct (reorder_in K_params "lumped_losses" "position" eo) as [a|]; [|discriminate]. cbn [bind] in *.
    destruct (degree_elem a) as [b|]; [|discriminate]. cbn [bind] in *.
    destruct (design_band_elem b) as [c|]; [|discriminate]. cbn [bind] in *.
    destruct (with_params loss_params c) as [d|]; [|discriminate]. cbn [bind] in *.
    rewrite L. reflexivity.
  - rewrite n2e_obj, chainE_wrapf. unfold topo_elem_forth. rewrite chain_cons.
    rewrite (reorder_in_id_n2e _ _ _ eo Hop). cbn [bind].
    assert (Htn : has_tp (nmap eo) ty (nmap p)).
    { destruct Ht as [H1 H2]. split; rewrite jget_nmap; [rewrite H1|rewrite H2]; reflexivity. }
    assert (Hmid : forall p', region_city_elem (jset K_params (JObj p') (nmap eo)) = Ok (jset K_params (JObj p') (nmap eo))).
    { intros p'. apply (region_city_id_n2e eo); [exact Hmd|]. now rewrite jget_jset_other. }
    pose proof (lift_forward region_city_elem (nmap eo) ty (nmap p) (nmap p1) Htn F2 Hmid) as L.
    rewrite !chain_cons. unfold chain at 1; cbn [fold_left].
    destruct (reorder_in K_params "lumped_losses" "position" (nmap eo)) as [a|]; [|discriminate]. cbn [bind] in *.
    destruct (region_city_elem a) as [a'|]; [|discriminate]. cbn [bind] in *.
    destruct (degree_elem a') as [b|]; [|discriminate]. cbn [bind] in *.
    destruct (design_band_elem b) as [c|]; [|discriminate]. cbn [bind] in *.
    destruct (with_params loss_params c) as [d|]; [|discriminate]. cbn [bind] in *.
    rewrite L. cbn [bind]. now rewrite n2e_obj, nmap_jset, n2e_obj.
  - rewrite chainE_wrapf. unfold topo_elem_back.
    pose proof (lift_backward (jset K_params (JObj p1) eo) ty p1 p (has_tp_set eo ty p p1 Ht) B) as L.
    rewrite !chain_cons. unfold chain at 1; cbn [fold_left].
    destruct (back_degree_elem (jset K_params (JObj p1) eo)) as [a|]; [|discriminate]. cbn [bind] in *.
    destruct (back_design_band_elem a) as [b|]; [|discriminate]. cbn [bind] in *.
    destruct (with_params back_loss_params b) as [c|]; [|discriminate]. cbn [bind] in *.
    rewrite L. cbn [bind]. destruct Ht as [_ H2]. now rewrite jset_jset, (jset_same _ _ _ H2).
Qed.

(* an element without params (Edfa, Transceiver, Fused ...) *)
Lemma no_params_steps : forall x ty, jget K_type x = Some (JStr ty) -> jget K_params x = None ->
  reorder_in K_params "lumped_losses" "position" x = Ok x /\ degree_elem x = Ok x /\ design_band_elem x = Ok x /\
  with_params loss_params x = Ok x /\ with_params raman_params x = Ok x /\
  back_degree_elem x = Ok x /\ back_design_band_elem x = Ok x /\
  with_params back_loss_params x = Ok x /\ with_params back_raman_params x = Ok x.
Proof.
  intros x ty H1 H2.
  assert (G : roadm_with_params x = Ok false).
  { unfold roadm_with_params, jreq, jhas. rewrite H1, H2. cbn [bind]. now rewrite andb_false_r. }
  assert (G2 : band_elem_with_params x = Ok false).
  { unfold band_elem_with_params, jreq, jhas. rewrite H1, H2. cbn [bind]. now rewrite andb_false_r. }
  unfold reorder_in, degree_elem, design_band_elem, back_degree_elem, back_design_band_elem, with_params.
  rewrite H2, G, G2. cbn [bind]. repeat split; reflexivity.
Qed.

Theorem ETS_no_params : forall eo ty,
  jget K_type eo = Some (JStr ty) -> jget K_params eo = None -> op_ok eo -> md_ok eo -> ETS (JObj eo).
Proof.
  intros eo ty H1 H2 [Hop Hnn] Hmd. exists (JObj eo). repeat split; try discriminate.
  - rewrite chainE_wrapf. unfold topo_elem_struct. rewrite !chain_cons.
    destruct (no_params_steps eo ty H1 H2) as (A2 & A4 & A5 & A6 & A7 & _).
    rewrite (reorder_in_id _ _ _ eo Hop Hnn). cbn [bind]. rewrite chain_cons, A2. cbn [bind]. rewrite chain_cons, A4. cbn [bind].
    rewrite chain_cons, A5. cbn [bind]. rewrite chain_cons, A6. cbn [bind]. rewrite chain_cons, A7. reflexivity.
  - rewrite n2e_obj, chainE_wrapf. unfold topo_elem_forth. rewrite !chain_cons.
    assert (H1n : jget K_type (nmap eo) = Some (JStr ty)) by (rewrite jget_nmap, H1; reflexivity).
    assert (H2n : jget K_params (nmap eo) = None) by (rewrite jget_nmap, H2; reflexivity).
    destruct (no_params_steps (nmap eo) ty H1n H2n) as (A2 & A4 & A5 & A6 & A7 & _).
    rewrite (reorder_in_id_n2e _ _ _ eo Hop). cbn [bind]. rewrite chain_cons, A2. cbn [bind]. rewrite chain_cons.
    rewrite (region_city_id_n2e eo (nmap eo) Hmd eq_refl). cbn [bind]. rewrite chain_cons, A4. cbn [bind].
    rewrite chain_cons, A5. cbn [bind]. rewrite chain_cons, A6. cbn [bind]. rewrite chain_cons, A7. reflexivity.
  - rewrite chainE_wrapf. unfold topo_elem_back. rewrite !chain_cons.
    destruct (no_params_steps eo ty H1 H2) as (_ & _ & _ & _ & _ & B1 & B2 & B3 & B4).
    rewrite B1. cbn [bind]. rewrite chain_cons, B2. cbn [bind]. rewrite chain_cons, B3. cbn [bind].
    rewrite chain_cons, B4. reflexivity.
Qed.

(* ---- params of a fibre (any non-ROADM element): optional per-frequency loss block, optional Raman block ---- *)
Definition lblk (ol : option (list json * list json)) : obj :=
  match ol with
  | Some (fl, vl) => [(K_loss, JObj [("frequency"%string, JArr fl); ("value"%string, JArr vl)])]
  | None => []
  end.
Definition lout (ol : option (list json * list json)) : obj :=
  match ol with
  | Some (fl, vl) => [(K_losspf, JArr (zip2 "frequency" "loss_coef_value" fl vl))]
  | None => []
  end.
Definition l_ok (ol : option (list json * list json)) : Prop :=
  match ol with Some (fl, vl) => length fl = length vl /\ vl <> [] /\ fl <> [JNull] /\ vl <> [JNull] | None => True end.
Definition rblk (orr : option (json * list json * list json)) : obj :=
  match orr with
  | Some (rf, gl, fl) => [(K_raman, JObj [("reference_frequency"%string, rf); ("g0"%string, JArr gl);
                                           ("frequency_offset"%string, JArr fl)])]
  | None => []
  end.
Definition rout (orr : option (json * list json * list json)) : obj :=
  match orr with
  | Some (rf, gl, fl) => [(K_raman, JObj [("reference_frequency"%string, rf);
                                           ("g0_per_frequency"%string, JArr (zip2 "frequency_offset" "g0" fl gl))])]
  | None => []
  end.
Definition r_ok (orr : option (json * list json * list json)) : Prop :=
  match orr with Some (rf, gl, fl) => length fl = length gl /\ fl <> [] /\ fl <> [JNull] /\ gl <> [JNull] | None => True end.

Definition not_obj (o : option json) : Prop := forall lc, o <> Some (JObj lc).

Lemma loss_fwd : forall a b ol, l_ok ol ->
  jget K_losspf a = None -> jget K_losspf b = None ->
  match ol with Some _ => jget K_loss a = None /\ jget K_loss b = None | None => not_obj (jget K_loss (a ++ b)) end ->
  loss_params (a ++ lblk ol ++ b) = Ok (a ++ b ++ lout ol).
Proof.
  intros a b [[fl vl]|] Hok H1 H2 H3; cbn [lblk lout].
  - destruct H3 as [Ha Hb]. destruct Hok as (Hlen & Hne & _ & _).
    destruct vl as [|v0 vt]; [now elim Hne|]. destruct fl as [|f0 ft]; [discriminate|].
    unfold loss_params. rewrite jget_app, Ha. cbn [app jget]. rewrite String.eqb_refl.
    cbn [jget String.eqb Ascii.eqb Bool.eqb truthy as_iter bind].
    rewrite jdel_app, (jdel_notin _ _ Ha). cbn [jdel]. rewrite String.eqb_refl, (jdel_notin _ _ Hb).
    rewrite jset_notin by (rewrite jget_app, H1; exact H2). now rewrite <- app_assoc.
  - cbn [app]. rewrite app_nil_r. unfold loss_params. unfold not_obj in H3.
    destruct (jget K_loss (a ++ b)) as [[| | | | |lc]|]; try reflexivity. now elim (H3 lc).
Qed.

Lemma back_loss_fwd : forall a b ol, l_ok ol ->
  jget K_losspf a = None -> jget K_losspf b = None ->
  match ol with Some _ => jget K_loss a = None /\ jget K_loss b = None | None => True end ->
  back_loss_params (a ++ lout ol ++ b) = Ok (a ++ b ++ lblk ol).
Proof.
  intros a b [[fl vl]|] Hok H1 H2 Hab; cbn [lblk lout].
  - destruct Hab as [Ha Hb]. destruct Hok as (Hlen & Hne & _ & _).
    pose proof (zip2_nonempty "frequency" "loss_coef_value" fl vl Hlen Hne) as Hz.
    unfold back_loss_params. rewrite jget_app, H1. cbn [app jget]. rewrite String.eqb_refl.
    rewrite jdel_app, (jdel_notin _ _ H1). cbn [jdel]. rewrite String.eqb_refl, (jdel_notin _ _ H2).
    assert (Ht : truthy (JArr (zip2 "frequency" "loss_coef_value" fl vl)) = true)
      by (destruct (zip2 "frequency" "loss_coef_value" fl vl); [now elim Hz|reflexivity]).
    rewrite Ht. cbn [as_arr bind].
    rewrite (pluck_zip2_fst _ _ _ _ Hlen). cbn [bind].
    rewrite (pluck_zip2_snd "frequency" "loss_coef_value" _ _ eq_refl Hlen). cbn [bind].
    rewrite jset_notin by (rewrite jget_app, Ha; exact Hb). now rewrite <- app_assoc.
  - cbn [app]. rewrite app_nil_r. unfold back_loss_params. now rewrite jget_app, H1, H2.
Qed.

Lemma raman_fwd : forall a b orr, r_ok orr -> jget K_raman a = None -> jget K_raman b = None ->
  raman_params (a ++ rblk orr ++ b) = Ok (a ++ b ++ rout orr).
Proof.
  intros a b [[[rf gl] fl]|] Hok Ha Hb; cbn [rblk rout].
  - destruct Hok as (Hlen & Hne & _ & _).
    destruct fl as [|f0 ft]; [now elim Hne|]. destruct gl as [|g0 gt]; [discriminate|].
    unfold raman_params. rewrite jget_app, Ha. cbn [app jget]. rewrite String.eqb_refl.
    cbn [key_in jhas jget String.eqb Ascii.eqb Bool.eqb bind as_obj opt_list truthy jreq as_iter].
    rewrite jdel_app, (jdel_notin _ _ Ha). cbn [jdel]. rewrite String.eqb_refl, (jdel_notin _ _ Hb).
    rewrite jset_notin by (rewrite jget_app, Ha; exact Hb). now rewrite <- app_assoc.
  - cbn [app]. rewrite app_nil_r. unfold raman_params. now rewrite jget_app, Ha, Hb.
Qed.

Lemma back_raman_fwd : forall a b orr, r_ok orr -> jget K_raman a = None -> jget K_raman b = None ->
  back_raman_params (a ++ rout orr ++ b) = Ok (a ++ b ++ rblk orr).
Proof.
  intros a b [[[rf gl] fl]|] Hok Ha Hb; cbn [rblk rout].
  - destruct Hok as (Hlen & Hne & _ & _).
    destruct fl as [|f0 ft]; [now elim Hne|]. destruct gl as [|g0 gt]; [discriminate|].
    unfold back_raman_params. rewrite jget_app, Ha. cbn [app jget]. rewrite String.eqb_refl.
    cbn [key_in jhas jget String.eqb Ascii.eqb Bool.eqb bind as_obj jreq as_arr zip2].
    change (JObj [("frequency_offset"%string, f0); ("g0"%string, g0)] :: zip2 "frequency_offset" "g0" ft gt)
      with (zip2 "frequency_offset" "g0" (f0 :: ft) (g0 :: gt)).
    rewrite (pluck_zip2_snd "frequency_offset" "g0" _ _ eq_refl Hlen). cbn [bind].
    rewrite (pluck_zip2_fst _ _ _ _ Hlen). cbn [bind].
    rewrite jdel_app, (jdel_notin _ _ Ha). cbn [jdel]. rewrite String.eqb_refl, (jdel_notin _ _ Hb).
    rewrite jset_notin by (rewrite jget_app, Ha; exact Hb). now rewrite <- app_assoc.
  - cbn [app]. rewrite app_nil_r. unfold back_raman_params. now rewrite jget_app, Ha, Hb.
Qed.

Definition lumped_ok (p : obj) : Prop :=
  match jget "lumped_losses" p with
  | None => True
  | Some (JArr items) => forallb (first_key_ok "position") items = true
  | Some _ => False
  end.
Lemma P2_id : forall p, lumped_ok p -> P2 p = Ok p.
Proof.
  intros p H. unfold P2, lumped_ok, jhas, jreq in *. destruct (jget "lumped_losses" p) as [l|] eqn:E; [|reflexivity].
  destruct l as [| | | |items|]; try contradiction. cbn [bind]. unfold reorder_keys. cbn [as_arr bind].
  rewrite (mapM_id (reorder_item "position") items).
  - cbn [bind]. now rewrite (jset_same _ _ _ E).
  - rewrite forallb_forall in H. rewrite Forall_forall. intros it Hit. apply reorder_item_first. auto.
Qed.
Lemma lumped_ok_n2e : forall p, lumped_ok p -> lumped_ok (nmap p).
Proof.
  intros p H. unfold lumped_ok in *. rewrite jget_nmap. destruct (jget "lumped_losses" p) as [l|]; [|exact I].
  cbn [option_map]. destruct l as [| | | |items|]; try contradiction.
  assert (Hne : items <> [JNull]) by (intro Hc; subst; cbn in H; discriminate).
  rewrite n2e_arr by exact Hne. rewrite forallb_forall in *. intros it Hit.
  apply in_map_iff in Hit as (it0 & <- & Hit0). apply first_key_ok_n2e. auto.
Qed.

Lemma map_n2e_zip2 : forall k1 k2 a b,
  map none_to_empty (zip2 k1 k2 a b) = zip2 k1 k2 (map none_to_empty a) (map none_to_empty b).
Proof. intros k1 k2 a; induction a as [|x t IH]; intros [|y u]; cbn; try reflexivity. now rewrite IH. Qed.
Lemma zip2_not_single_null : forall k1 k2 a b, zip2 k1 k2 a b <> [JNull].
Proof. intros k1 k2 [|x t] [|y u]; cbn; discriminate. Qed.

Definition oln (ol : option (list json * list json)) : option (list json * list json) :=
  match ol with Some (fl, vl) => Some (map none_to_empty fl, map none_to_empty vl) | None => None end.
Definition orn (orr : option (json * list json * list json)) : option (json * list json * list json) :=
  match orr with Some (rf, gl, fl) => Some (none_to_empty rf, map none_to_empty gl, map none_to_empty fl) | None => None end.

Lemma map_n2e_not_single_null : forall l, map none_to_empty l <> [JNull].
Proof. intros [|x [|y t]]; cbn; try discriminate. intro H. injection H as H. pose proof (n2e_not_null x). now rewrite H in *. Qed.

Lemma l_ok_n : forall ol, l_ok ol -> l_ok (oln ol).
Proof.
  intros [[fl vl]|] H; [|exact I]. destruct H as (H1 & H2 & H3 & H4). cbn. rewrite !map_length.
  repeat split; try assumption; try apply map_n2e_not_single_null. destruct vl; [now elim H2|discriminate].
Qed.
Lemma r_ok_n : forall orr, r_ok orr -> r_ok (orn orr).
Proof.
  intros [[[rf gl] fl]|] H; [|exact I]. destruct H as (H1 & H2 & H3 & H4). cbn. rewrite !map_length.
  repeat split; try assumption; try apply map_n2e_not_single_null. destruct fl; [now elim H2|discriminate].
Qed.
Lemma nmap_lblk : forall ol, l_ok ol -> nmap (lblk ol) = lblk (oln ol).
Proof.
  intros [[fl vl]|] H; [|reflexivity]. destruct H as (_ & _ & H3 & H4). cbn [lblk oln nmap map fst snd].
  rewrite n2e_obj. cbn [nmap map fst snd]. now rewrite !n2e_arr by assumption.
Qed.
Lemma nmap_lout : forall ol, nmap (lout ol) = lout (oln ol).
Proof.
  intros [[fl vl]|]; [|reflexivity]. cbn [lout oln nmap map fst snd].
  rewrite n2e_arr by apply zip2_not_single_null. now rewrite map_n2e_zip2.
Qed.
Lemma nmap_rblk : forall orr, r_ok orr -> nmap (rblk orr) = rblk (orn orr).
Proof.
  intros [[[rf gl] fl]|] H; [|reflexivity]. destruct H as (_ & _ & H3 & H4). cbn [rblk orn nmap map fst snd].
  rewrite n2e_obj. cbn [nmap map fst snd]. now rewrite !n2e_arr by assumption.
Qed.
Lemma nmap_rout : forall orr, nmap (rout orr) = rout (orn orr).
Proof.
  intros [[[rf gl] fl]|]; [|reflexivity]. cbn [rout orn nmap map fst snd].
  rewrite n2e_obj. cbn [nmap map fst snd]. rewrite n2e_arr by apply zip2_not_single_null. now rewrite map_n2e_zip2.
Qed.

Lemma jget_lblk_other : forall k ol, String.eqb k K_loss = false -> jget k (lblk ol) = None.
Proof. intros k [[fl vl]|] H; cbn; [now rewrite H|reflexivity]. Qed.
Lemma jget_lout_other : forall k ol, String.eqb k K_losspf = false -> jget k (lout ol) = None.
Proof. intros k [[fl vl]|] H; cbn; [now rewrite H|reflexivity]. Qed.
Lemma jget_rblk_other : forall k orr, String.eqb k K_raman = false -> jget k (rblk orr) = None.
Proof. intros k [[[rf gl] fl]|] H; cbn; [now rewrite H|reflexivity]. Qed.
Lemma jget_rout_other : forall k orr, String.eqb k K_raman = false -> jget k (rout orr) = None.
Proof. intros k [[[rf gl] fl]|] H; cbn; [now rewrite H|reflexivity]. Qed.

(* the params of a non-ROADM element in canonical shape *)
Record fiber_params_ok (o : obj) (ol : option (list json * list json)) (orr : option (json * list json * list json)) : Prop := {
  fp_lumped : lumped_ok o;
  fp_losspf : jget K_losspf o = None;
  fp_raman : jget K_raman o = None;
  fp_loss : match ol with Some _ => jget K_loss o = None | None => not_obj (jget K_loss o) end;
  fp_l : l_ok ol;
  fp_r : r_ok orr
}.

Lemma is_band_roadm : forall ty, is_band ty = false -> is_roadm ty = false.
Proof. intros ty H. unfold is_band, is_roadm in *. now apply orb_false_iff in H as [H _]. Qed.

Lemma fiber_forward : forall ty o ol orr, is_band ty = false -> fiber_params_ok o ol orr ->
  chain (PF ty) (o ++ lblk ol ++ rblk orr) = Ok (o ++ lout ol ++ rout orr).
Proof.
  intros ty o ol orr Hb [Hl H1 H2 H3 H4 H5]. pose proof (is_band_roadm ty Hb) as Hty. unfold PF. rewrite chain_cons.
  assert (Hlum : lumped_ok (o ++ lblk ol ++ rblk orr)).
  { unfold lumped_ok in *. now rewrite !jget_app, jget_lblk_other, jget_rblk_other by reflexivity;
      destruct (jget "lumped_losses" o). }
  rewrite (P2_id _ Hlum). cbn [bind]. rewrite chain_cons. unfold P4, P5. rewrite Hty, Hb. cbn [bind].
  rewrite chain_cons. cbn [bind]. rewrite chain_cons.
  rewrite (loss_fwd o (rblk orr) ol H4 H1 (jget_rblk_other K_losspf _ eq_refl)).
  - cbn [bind]. rewrite chain_cons.
    rewrite (raman_fwd o (lout ol) orr H5 H2 (jget_lout_other K_raman _ eq_refl)). reflexivity.
  - destruct ol; [split; [exact H3|apply jget_rblk_other; reflexivity]|].
    unfold not_obj in *. rewrite jget_app. destruct (jget K_loss o); [exact H3|].
    rewrite jget_rblk_other by reflexivity. discriminate.
Qed.

Lemma fiber_backward : forall ty o ol orr, is_band ty = false -> fiber_params_ok o ol orr ->
  chain (PB ty) (o ++ lout ol ++ rout orr) = Ok (o ++ lblk ol ++ rblk orr).
Proof.
  intros ty o ol orr Hb [Hl H1 H2 H3 H4 H5]. pose proof (is_band_roadm ty Hb) as Hty.
  unfold PB. rewrite chain_cons. unfold Q1, Q2. rewrite Hty, Hb. cbn [bind].
  rewrite chain_cons. cbn [bind]. rewrite chain_cons.
  rewrite (back_loss_fwd o (rout orr) ol H4 H1 (jget_rout_other K_losspf _ eq_refl)).
  - cbn [bind]. rewrite chain_cons.
    rewrite (back_raman_fwd o (lblk ol) orr H5 H2 (jget_lblk_other K_raman _ eq_refl)). reflexivity.
  - destruct ol; [split; [exact H3|apply jget_rout_other; reflexivity]|exact I].
Qed.

Lemma fiber_params_ok_n : forall o ol orr, fiber_params_ok o ol orr -> fiber_params_ok (nmap o) (oln ol) (orn orr).
Proof.
  intros o ol orr [Hl H1 H2 H3 H4 H5]. constructor.
  - now apply lumped_ok_n2e.
  - now apply jget_nmap_none.
  - now apply jget_nmap_none.
  - destruct ol as [[fl vl]|]; cbn [oln]; [now apply jget_nmap_none|].
    unfold not_obj in *. intros lc. rewrite jget_nmap. destruct (jget K_loss o) as [v|]; [|discriminate].
    cbn [option_map]. destruct v as [| | | |l|lc0]; try discriminate.
    + cbn. destruct l as [|[] [|]]; discriminate.
    + now elim (H3 lc0).
  - now apply l_ok_n.
  - now apply r_ok_n.
Qed.

Theorem PT_fiber : forall ty o ol orr, is_band ty = false -> fiber_params_ok o ol orr ->
  PT ty (o ++ lblk ol ++ rblk orr) (o ++ lout ol ++ rout orr).
Proof.
  intros ty o ol orr Hty H. split; [|split].
  - now apply fiber_forward.
  - rewrite !nmap_app, nmap_lblk, nmap_rblk, nmap_lout, nmap_rout by (destruct H; assumption).
    apply fiber_forward; [exact Hty|now apply fiber_params_ok_n].
  - now apply fiber_backward.
Qed.

(* ---- params of a ROADM: per-degree power targets, then per-degree design bands ---- *)
Definition dblocks (o1 o2 o3 : option obj) : obj := blk E1 o1 ++ blk E2 o2 ++ blk E3 o3.
Definition dents (o1 o2 o3 : option obj) : list json := ents E1 o1 ++ ents E2 o2 ++ ents E3 o3.
Definition dout (o1 o2 o3 : option obj) : obj :=
  match dents o1 o2 o3 with [] => [] | nt => [(K_pdt, JArr nt)] end.
Definition bblk (ob : option obj) : obj := match ob with Some items => [(K_pddb, JObj items)] | None => [] end.
Definition bout (ob : option obj) : obj :=
  match ob with Some items => [(K_pddbt, JArr (map db_entry items))] | None => [] end.

Lemma degree_fwd : forall a b o1 o2 o3,
  jget E1 a = None -> jget E2 a = None -> jget E3 a = None -> jget K_pdt a = None ->
  jget E1 b = None -> jget E2 b = None -> jget E3 b = None -> jget K_pdt b = None ->
  items_ok o1 -> items_ok o2 -> items_ok o3 ->
  degree_params (a ++ dblocks o1 o2 o3 ++ b) = Ok (a ++ b ++ dout o1 o2 o3).
Proof.
  intros a b o1 o2 o3 A1 A2 A3 A4 B1 B2 B3 B4 K1 K2 K3. unfold dblocks, dout, dents.
  unfold degree_params, eq_types. cbn [fold_left]. fold E1 E2 E3. rewrite <- !app_assoc.
  rewrite (degree_step_blk E1 a (blk E2 o2 ++ blk E3 o3 ++ b) o1 [] A1)
    by (try exact K1; rewrite !jget_app, !jget_blk_other by reflexivity; exact B1).
  rewrite (degree_step_blk E2 a (blk E3 o3 ++ b) o2 _ A2)
    by (try exact K2; rewrite jget_app, jget_blk_other by reflexivity; exact B2).
  rewrite (degree_step_blk E3 a b o3 _ A3) by (try exact K3; exact B3).
  cbn [bind app]. rewrite <- (app_assoc (ents E1 o1)).
  destruct (ents E1 o1 ++ ents E2 o2 ++ ents E3 o3) as [|t0 tr]; [now rewrite app_nil_r|].
  rewrite jset_notin by (rewrite jget_app, A4; exact B4). now rewrite <- app_assoc.
Qed.

Lemma back_degree_fwd : forall a b o1 o2 o3,
  jget E1 a = None -> jget E2 a = None -> jget E3 a = None -> jget K_pdt a = None ->
  jget E1 b = None -> jget E2 b = None -> jget E3 b = None -> jget K_pdt b = None ->
  items_ok o1 -> items_ok o2 -> items_ok o3 ->
  back_degree_params (a ++ dout o1 o2 o3 ++ b) = Ok (a ++ b ++ dblocks o1 o2 o3).
Proof.
  intros a b o1 o2 o3 A1 A2 A3 A4 B1 B2 B3 B4 K1 K2 K3. unfold dblocks, dout, dents.
  destruct (ents E1 o1 ++ ents E2 o2 ++ ents E3 o3) as [|t0 tr] eqn:En.
  - assert (o1 = None /\ o2 = None /\ o3 = None) as (-> & -> & ->).
    { destruct o1 as [[|? ?]|]; [destruct K1; congruence|discriminate|].
      destruct o2 as [[|? ?]|]; [destruct K2; congruence|discriminate|].
      destruct o3 as [[|? ?]|]; [destruct K3; congruence|discriminate|]. auto. }
    cbn [blk app]. rewrite app_nil_r. unfold back_degree_params. now rewrite jget_app, A4, B4.
  - rewrite <- En. unfold back_degree_params. rewrite jget_app, A4. cbn [app jget]. rewrite String.eqb_refl.
    rewrite jdel_app, (jdel_notin _ _ A4). cbn [jdel]. rewrite String.eqb_refl, (jdel_notin _ _ B4).
    assert (Ht : truthy (JArr (ents E1 o1 ++ ents E2 o2 ++ ents E3 o3)) = true) by now rewrite En.
    rewrite Ht. cbn [as_arr bind].
    assert (In1 : In E1 eq_types) by (now left).
    assert (In2 : In E2 eq_types) by (right; now left).
    assert (In3 : In E3 eq_types) by (right; right; now left).
    rewrite !fold_left_app.
    rewrite (fold_upsert_block E1 In1 o1 (a ++ b)) by (try exact K1; rewrite jget_app, A1; exact B1).
    rewrite (fold_upsert_block E2 In2 o2 _)
      by (try exact K2; rewrite !jget_app, A2, B2; now apply jget_blk_other).
    rewrite (fold_upsert_block E3 In3 o3 _)
      by (try exact K3; rewrite !jget_app, A3, B3, !jget_blk_other by reflexivity; reflexivity).
    now rewrite <- !app_assoc.
Qed.

Lemma design_fwd : forall a b ob, items_ok ob ->
  jget K_pddb a = None -> jget K_pddbt a = None -> jget K_pddb b = None -> jget K_pddbt b = None ->
  design_band_params (a ++ bblk ob ++ b) = Ok (a ++ b ++ bout ob).
Proof.
  intros a b [items|] Hok A1 A2 B1 B2; cbn [bblk bout].
  - destruct Hok as [Hne _]. unfold design_band_params. rewrite jget_app, A1. cbn [app jget]. rewrite String.eqb_refl.
    assert (Ht : truthy (JObj items) = true) by (destruct items; [now elim Hne|reflexivity]). rewrite Ht.
    rewrite jdel_app, (jdel_notin _ _ A1). cbn [jdel]. rewrite String.eqb_refl, (jdel_notin _ _ B1).
    rewrite jset_notin by (rewrite jget_app, A2; exact B2). now rewrite <- app_assoc.
  - cbn [app]. rewrite app_nil_r. unfold design_band_params. now rewrite jget_app, A1, B1.
Qed.

Lemma back_design_fwd : forall a b ob, items_ok ob ->
  jget K_pddb a = None -> jget K_pddbt a = None -> jget K_pddb b = None -> jget K_pddbt b = None ->
  back_design_band_params (a ++ bout ob ++ b) = Ok (a ++ b ++ bblk ob).
Proof.
  intros a b [items|] Hok A1 A2 B1 B2; cbn [bblk bout].
  - destruct Hok as [Hne Hnd]. unfold back_design_band_params. rewrite jget_app, A2. cbn [app jget]. rewrite String.eqb_refl.
    rewrite jdel_app, (jdel_notin _ _ A2). cbn [jdel]. rewrite String.eqb_refl, (jdel_notin _ _ B2).
    assert (Ht : truthy (JArr (map db_entry items)) = true) by (destruct items; [now elim Hne|reflexivity]).
    rewrite Ht. cbn [as_arr bind]. rewrite (fold_back_db items []) by exact Hnd. cbn [bind app].
    destruct items; [now elim Hne|]. rewrite jset_notin by (rewrite jget_app, A1; exact B1). now rewrite <- app_assoc.
  - cbn [app]. rewrite app_nil_r. unfold back_design_band_params. now rewrite jget_app, A2, B2.
Qed.

Lemma loss_params_id : forall p, not_obj (jget K_loss p) -> loss_params p = Ok p.
Proof. intros p H. unfold loss_params, not_obj in *. destruct (jget K_loss p) as [[| | | | |lc]|]; try reflexivity. now elim (H lc). Qed.
Lemma raman_params_id : forall p, jget K_raman p = None -> raman_params p = Ok p.
Proof. intros p H. unfold raman_params. now rewrite H. Qed.
Lemma back_loss_params_id : forall p, jget K_losspf p = None -> back_loss_params p = Ok p.
Proof. intros p H. unfold back_loss_params. now rewrite H. Qed.
Lemma back_raman_params_id : forall p, jget K_raman p = None -> back_raman_params p = Ok p.
Proof. intros p H. unfold back_raman_params. now rewrite H. Qed.

Definition onm (oo : option obj) : option obj := option_map nmap oo.
Lemma items_ok_n : forall oo, items_ok oo -> items_ok (onm oo).
Proof.
  intros [items|] H; [|exact I]. destruct H as [H1 H2]. cbn. split; [destruct items; [now elim H1|discriminate]|].
  now rewrite keys_nmap.
Qed.
Lemma nmap_blk : forall E oo, nmap (blk E oo) = blk E (onm oo).
Proof. intros E [items|]; reflexivity. Qed.
Lemma map_n2e_ents : forall E oo, map none_to_empty (ents E oo) = ents E (onm oo).
Proof.
  intros E [items|]; [|reflexivity]. cbn [ents onm option_map]. unfold degree_entries, nmap. rewrite !map_map.
  apply map_ext. intros [k v]. reflexivity.
Qed.
Lemma ents_not_single_null : forall o1 o2 o3, dents o1 o2 o3 <> [JNull].
Proof.
  intros o1 o2 o3 H. unfold dents in H.
  assert (Hin : In JNull (ents E1 o1 ++ ents E2 o2 ++ ents E3 o3)) by (rewrite H; now left).
  rewrite !in_app_iff in Hin.
  assert (Hn : forall E oo, ~ In JNull (ents E oo)).
  { intros E [items|]; cbn; [|tauto]. unfold degree_entries. intro Hi. apply in_map_iff in Hi as (x & Hx & _). discriminate. }
  destruct Hin as [Hi|[Hi|Hi]]; eapply Hn; eauto.
Qed.
Lemma nmap_dout : forall o1 o2 o3, nmap (dout o1 o2 o3) = dout (onm o1) (onm o2) (onm o3).
Proof.
  intros o1 o2 o3. unfold dout. pose proof (ents_not_single_null o1 o2 o3) as Hn.
  assert (Hm : map none_to_empty (dents o1 o2 o3) = dents (onm o1) (onm o2) (onm o3)).
  { unfold dents. now rewrite !map_app, !map_n2e_ents. }
  destruct (dents o1 o2 o3) as [|t0 tr] eqn:E.
  - cbn in Hm. rewrite <- Hm. reflexivity.
  - cbn [nmap map fst snd]. rewrite n2e_arr by exact Hn. rewrite Hm.
    destruct (dents (onm o1) (onm o2) (onm o3)) eqn:E2; [cbn in Hm; discriminate|reflexivity].
Qed.
Lemma nmap_dblocks : forall o1 o2 o3, nmap (dblocks o1 o2 o3) = dblocks (onm o1) (onm o2) (onm o3).
Proof. intros. unfold dblocks. now rewrite !nmap_app, !nmap_blk. Qed.
Lemma nmap_bblk : forall ob, nmap (bblk ob) = bblk (onm ob).
Proof. intros [items|]; reflexivity. Qed.
Lemma nmap_bout : forall ob, nmap (bout ob) = bout (onm ob).
Proof.
  intros [items|]; [|reflexivity]. cbn [bout onm option_map nmap map fst snd].
  rewrite n2e_arr by (intro Hc; assert (Hi : In JNull (map db_entry items)) by (rewrite Hc; now left);
                      apply in_map_iff in Hi as (x & Hx & _); discriminate).
  unfold nmap. rewrite !map_map. reflexivity.
Qed.

Lemma jget_dblocks_other : forall k o1 o2 o3,
  String.eqb k E1 = false -> String.eqb k E2 = false -> String.eqb k E3 = false -> jget k (dblocks o1 o2 o3) = None.
Proof. intros k o1 o2 o3 H1 H2 H3. unfold dblocks. now rewrite !jget_app, !jget_blk_other. Qed.
Lemma jget_dout_other : forall k o1 o2 o3, String.eqb k K_pdt = false -> jget k (dout o1 o2 o3) = None.
Proof. intros k o1 o2 o3 H. unfold dout. destruct (dents o1 o2 o3); cbn; [reflexivity|now rewrite H]. Qed.
Lemma jget_bblk_other : forall k ob, String.eqb k K_pddb = false -> jget k (bblk ob) = None.
Proof. intros k [items|] H; cbn; [now rewrite H|reflexivity]. Qed.
Lemma jget_bout_other : forall k ob, String.eqb k K_pddbt = false -> jget k (bout ob) = None.
Proof. intros k [items|] H; cbn; [now rewrite H|reflexivity]. Qed.

Record roadm_params_ok (o : obj) (o1 o2 o3 ob : option obj) : Prop := {
  rp_lumped : lumped_ok o;
  rp_e1 : jget E1 o = None; rp_e2 : jget E2 o = None; rp_e3 : jget E3 o = None; rp_pdt : jget K_pdt o = None;
  rp_db : jget K_pddb o = None; rp_dbt : jget K_pddbt o = None;
  rp_losspf : jget K_losspf o = None; rp_raman : jget K_raman o = None; rp_loss : not_obj (jget K_loss o);
  rp_i1 : items_ok o1; rp_i2 : items_ok o2; rp_i3 : items_ok o3; rp_ib : items_ok ob
}.

Lemma roadm_forward : forall ty o o1 o2 o3 ob, is_roadm ty = true -> roadm_params_ok o o1 o2 o3 ob ->
  chain (PF ty) (o ++ dblocks o1 o2 o3 ++ bblk ob) = Ok (o ++ dout o1 o2 o3 ++ bout ob).
Proof.
  intros ty o o1 o2 o3 ob Hty [Hl A1 A2 A3 A4 A5 A6 A7 A8 A9 K1 K2 K3 Kb]. unfold PF. rewrite chain_cons.
  assert (Hlum : lumped_ok (o ++ dblocks o1 o2 o3 ++ bblk ob)).
  { unfold lumped_ok in *. rewrite !jget_app, jget_dblocks_other, jget_bblk_other by reflexivity.
    now destruct (jget "lumped_losses" o). }
  assert (Hb : is_band ty = true) by (unfold is_band, is_roadm in *; now rewrite Hty).
  rewrite (P2_id _ Hlum). cbn [bind]. rewrite chain_cons. unfold P4, P5. rewrite Hty, Hb.
  rewrite (degree_fwd o (bblk ob) o1 o2 o3 A1 A2 A3 A4) by (try assumption; apply jget_bblk_other; reflexivity).
  cbn [bind]. rewrite chain_cons.
  rewrite (design_fwd o (dout o1 o2 o3) ob Kb A5 A6) by (apply jget_dout_other; reflexivity).
  cbn [bind]. rewrite chain_cons.
  rewrite loss_params_id.
  - cbn [bind]. rewrite chain_cons. rewrite raman_params_id; [reflexivity|].
    now rewrite !jget_app, A8, jget_dout_other, jget_bout_other by reflexivity.
  - unfold not_obj in *. rewrite !jget_app. destruct (jget K_loss o); [exact A9|].
    rewrite jget_dout_other, jget_bout_other by reflexivity. discriminate.
Qed.

Lemma roadm_backward : forall ty o o1 o2 o3 ob, is_roadm ty = true -> roadm_params_ok o o1 o2 o3 ob ->
  chain (PB ty) (o ++ dout o1 o2 o3 ++ bout ob) = Ok (o ++ dblocks o1 o2 o3 ++ bblk ob).
Proof.
  intros ty o o1 o2 o3 ob Hty [Hl A1 A2 A3 A4 A5 A6 A7 A8 A9 K1 K2 K3 Kb]. unfold PB. rewrite chain_cons.
  assert (Hb : is_band ty = true) by (unfold is_band, is_roadm in *; now rewrite Hty).
  unfold Q1, Q2. rewrite Hty, Hb.
  rewrite (back_degree_fwd o (bout ob) o1 o2 o3 A1 A2 A3 A4) by (try assumption; apply jget_bout_other; reflexivity).
  cbn [bind]. rewrite chain_cons.
  rewrite (back_design_fwd o (dblocks o1 o2 o3) ob Kb A5 A6) by (apply jget_dblocks_other; reflexivity).
  cbn [bind]. rewrite chain_cons.
  rewrite back_loss_params_id by (now rewrite !jget_app, A7, jget_dblocks_other, jget_bblk_other by reflexivity).
  cbn [bind]. rewrite chain_cons.
  rewrite back_raman_params_id by (now rewrite !jget_app, A8, jget_dblocks_other, jget_bblk_other by reflexivity).
  reflexivity.
Qed.

Lemma roadm_params_ok_n : forall o o1 o2 o3 ob, roadm_params_ok o o1 o2 o3 ob ->
  roadm_params_ok (nmap o) (onm o1) (onm o2) (onm o3) (onm ob).
Proof.
  intros o o1 o2 o3 ob [Hl A1 A2 A3 A4 A5 A6 A7 A8 A9 K1 K2 K3 Kb].
  constructor; try (now apply jget_nmap_none); try (now apply items_ok_n).
  - now apply lumped_ok_n2e.
  - unfold not_obj in *. intros lc. rewrite jget_nmap. destruct (jget K_loss o) as [v|]; [|discriminate].
    cbn [option_map]. destruct v as [| | | |l|lc0]; try discriminate.
    + cbn. destruct l as [|[] [|]]; discriminate.
    + now elim (A9 lc0).
Qed.

Theorem PT_roadm : forall ty o o1 o2 o3 ob, is_roadm ty = true -> roadm_params_ok o o1 o2 o3 ob ->
  PT ty (o ++ dblocks o1 o2 o3 ++ bblk ob) (o ++ dout o1 o2 o3 ++ bout ob).
Proof.
  intros ty o o1 o2 o3 ob Hty H. split; [|split].
  - now apply roadm_forward.
  - rewrite !nmap_app, nmap_dblocks, nmap_bblk, nmap_dout, nmap_bout.
    apply roadm_forward; [exact Hty|now apply roadm_params_ok_n].
  - now apply roadm_backward.
Qed.

(* ------------------------------------------------------------------ mode-level aliases *)
Lemma mapM_In : forall {A B} (f : A -> res B) l l' x, mapM f l = Ok l' -> In x l -> exists y, f x = Ok y /\ In y l'.
Proof.
  intros A B f l; induction l as [|a t IH]; intros l' x H Hin; [contradiction|].
  rewrite mapM_cons in H. destruct (f a) as [b|] eqn:Ea; [|discriminate]. cbn [bind] in H.
  destruct (mapM f t) as [t'|] eqn:Et; [|discriminate]. cbn [bind] in H. injection H as <-.
  destruct Hin as [->|Hin]; [exists b; split; [exact Ea|now left]|].
  destruct (IH t' x eq_refl Hin) as (y & Hy & Hin'). exists y. split; [exact Hy|now right].
Qed.

(* every declared mode stays (without its alias list) and every alias names a mode equal to it except for `format` *)
Theorem mode_alias_spec : forall ms l, expand_modes ms = Ok l ->
  forall m names, In m ms -> mode_alias_names m = Ok names ->
    In (jdel "other_name" m) l /\
    forall n, In n names ->
      let m' := jset "format" (JStr n) (jdel "other_name" m) in
      In m' l /\ jget "format" m' = Some (JStr n) /\ jget "other_name" m' = None /\
      (forall k, String.eqb k "format" = false -> String.eqb k "other_name" = false -> jget k m' = jget k m).
Proof.
  intros ms l H m names Hm Hn. unfold expand_modes in H.
  destruct (mapM mode_aliases ms) as [al|] eqn:Ea; [|discriminate]. cbn [bind] in H. injection H as <-.
  split; [apply in_or_app; left; now apply in_map|].
  intros n Hin m'. subst m'. repeat split.
  - apply in_or_app. right. destruct (mapM_In _ _ _ m Ea Hm) as (am & Ham & Hal).
    apply in_concat. exists am. split; [exact Hal|].
    unfold mode_aliases in Ham. rewrite Hn in Ham. cbn [bind] in Ham. injection Ham as <-.
    apply in_map_iff. exists n. split; [reflexivity|exact Hin].
  - apply jget_jset_same.
  - rewrite jget_jset_other by reflexivity. apply jget_jdel_same.
  - intros k H1 H2. rewrite jget_jset_other by exact H1. now apply jget_jdel_other.
Qed.

(* ---- params of a Transceiver: anything, then the optional per-degree design bands ---- *)
Record trx_params_ok (o : obj) (ob : option obj) : Prop := {
  tp_lumped : lumped_ok o;
  tp_db : jget K_pddb o = None; tp_dbt : jget K_pddbt o = None;
  tp_losspf : jget K_losspf o = None; tp_raman : jget K_raman o = None; tp_loss : not_obj (jget K_loss o);
  tp_ib : items_ok ob
}.
Lemma trx_forward : forall o ob, trx_params_ok o ob -> chain (PF K_trx) (o ++ bblk ob) = Ok (o ++ bout ob).
Proof.
  intros o ob [Hl A5 A6 A7 A8 A9 Kb]. unfold PF. rewrite chain_cons.
  assert (Hlum : lumped_ok (o ++ bblk ob)).
  { unfold lumped_ok in *. rewrite jget_app, jget_bblk_other by reflexivity. now destruct (jget "lumped_losses" o). }
  rewrite (P2_id _ Hlum). cbn [bind]. rewrite chain_cons. unfold P4, P5.
  change (is_roadm K_trx) with false. change (is_band K_trx) with true. cbn [bind]. rewrite chain_cons.
  replace (o ++ bblk ob) with (o ++ bblk ob ++ []) by now rewrite app_nil_r.
  rewrite (design_fwd o [] ob Kb A5 A6 eq_refl eq_refl). cbn [bind app]. rewrite chain_cons.
  rewrite loss_params_id.
  - cbn [bind]. rewrite chain_cons. rewrite raman_params_id; [reflexivity|].
    now rewrite jget_app, A8, jget_bout_other by reflexivity.
  - unfold not_obj in *. rewrite jget_app. destruct (jget K_loss o); [exact A9|].
    rewrite jget_bout_other by reflexivity. discriminate.
Qed.
Lemma trx_backward : forall o ob, trx_params_ok o ob -> chain (PB K_trx) (o ++ bout ob) = Ok (o ++ bblk ob).
Proof.
  intros o ob [Hl A5 A6 A7 A8 A9 Kb]. unfold PB. rewrite chain_cons. unfold Q1, Q2.
  change (is_roadm K_trx) with false. change (is_band K_trx) with true. cbn [bind]. rewrite chain_cons.
  replace (o ++ bout ob) with (o ++ bout ob ++ []) by now rewrite app_nil_r.
  rewrite (back_design_fwd o [] ob Kb A5 A6 eq_refl eq_refl). cbn [bind app]. rewrite chain_cons.
  rewrite back_loss_params_id by (now rewrite jget_app, A7, jget_bblk_other by reflexivity).
  cbn [bind]. rewrite chain_cons.
  rewrite back_raman_params_id by (now rewrite jget_app, A8, jget_bblk_other by reflexivity).
  reflexivity.
Qed.
Theorem PT_trx : forall o ob, trx_params_ok o ob -> PT K_trx (o ++ bblk ob) (o ++ bout ob).
Proof.
  intros o ob H. split; [|split].
  - now apply trx_forward.
  - rewrite !nmap_app, nmap_bblk, nmap_bout. apply trx_forward.
    destruct H as [Hl A5 A6 A7 A8 A9 Kb]. constructor; try (now apply jget_nmap_none).
    + now apply lumped_ok_n2e.
    + unfold not_obj in *. intros lc. rewrite jget_nmap. destruct (jget K_loss o) as [v|]; [|discriminate].
      cbn [option_map]. destruct v as [| | | |l|lc0]; try discriminate.
      * cbn. destruct l as [|[] [|]]; discriminate.
      * now elim (A9 lc0).
    + now apply items_ok_n.
  - now apply trx_backward.
Qed.
