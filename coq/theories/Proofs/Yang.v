(* C18 — lemmas about the model of Model/Yang.v. *)
From Verif Require Import Prelude Model.YangPrecision Model.Yang.
From Coq Require Import Lia ZifyBool.
Open Scope Z_scope.

(* ------------------------------------------------------------------ dict primitives *)
Lemma jget_jset_same : forall k v o, jget k (jset k v o) = Some v.
Proof.
  intros k v o; induction o as [|[k' v'] t IH]; cbn.
  - now rewrite String.eqb_refl.
  - destruct (String.eqb k k') eqn:E; cbn; rewrite E; [reflexivity|exact IH].
Qed.

Lemma jget_jset_other : forall k k' v o, String.eqb k k' = false -> jget k (jset k' v o) = jget k o.
Proof.
  intros k k' v o Hne; induction o as [|[k2 v2] t IH]; cbn.
  - now rewrite Hne.
  - destruct (String.eqb k' k2) eqn:E; cbn.
    + apply String.eqb_eq in E; subst k2. now rewrite Hne.
    + destruct (String.eqb k k2); [reflexivity|exact IH].
Qed.

Lemma jget_jdel_other : forall k k' o, String.eqb k k' = false -> jget k (jdel k' o) = jget k o.
Proof.
  intros k k' o Hne; induction o as [|[k2 v2] t IH]; cbn; [reflexivity|].
  destruct (String.eqb k' k2) eqn:E; cbn.
  - apply String.eqb_eq in E; subst k2. now rewrite Hne.
  - destruct (String.eqb k k2); [reflexivity|exact IH].
Qed.

Lemma jget_jdel_same : forall k o, jget k (jdel k o) = None.
Proof.
  intros k o; induction o as [|[k2 v2] t IH]; cbn; [reflexivity|].
  destruct (String.eqb k k2) eqn:E; cbn; [exact IH|now rewrite E].
Qed.

(* ------------------------------------------------------------------ induction over JSON values *)
Section JsonInd.
  Context (P : json -> Prop).
  Context (HNull : P JNull) (HBool : forall b, P (JBool b)) (HNum : forall m d, P (JNum m d))
           (HStr : forall s, P (JStr s))
           (HArr : forall l, Forall P l -> P (JArr l))
           (HObj : forall o, Forall (fun kv => P (snd kv)) o -> P (JObj o)).
  Fixpoint json_ind' (j : json) : P j :=
    match j with
    | JNull => HNull
    | JBool b => HBool b
    | JNum m d => HNum m d
    | JStr s => HStr s
    | JArr l => HArr l ((fix go (l : list json) : Forall P l :=
                           match l with [] => Forall_nil _ | x :: t => Forall_cons x (json_ind' x) (go t) end) l)
    | JObj o => HObj o ((fix go (o : list (string * json)) : Forall (fun kv => P (snd kv)) o :=
                           match o with [] => Forall_nil _ | kv :: t => Forall_cons kv (json_ind' (snd kv)) (go t) end) o)
    end.
End JsonInd.

(* ------------------------------------------------------------------ None <-> [None] *)
(* a legacy document in which no list is the singleton [null] *)
Fixpoint legacy_nulls_ok (j : json) : bool :=
  match j with
  | JArr l => match l with [JNull] => false | _ => forallb legacy_nulls_ok l end
  | JObj o => forallb (fun kv => legacy_nulls_ok (snd kv)) o
  | _ => true
  end.
(* a YANG document: null occurs only as the single element of a list, and never as [[null]] *)
Fixpoint yang_nulls_ok (j : json) : bool :=
  match j with
  | JNull => false
  | JArr l => match l with
              | [JNull] => true
              | [JArr [JNull]] => false
              | _ => forallb yang_nulls_ok l
              end
  | JObj o => forallb (fun kv => yang_nulls_ok (snd kv)) o
  | _ => true
  end.

Lemma map_id_Forall : forall {A} (f : A -> A) l, Forall (fun x => f x = x) l -> map f l = l.
Proof. intros A f l H; induction H; cbn; [reflexivity|congruence]. Qed.

Lemma map_kv_id_Forall : forall (f : json -> json) (o : obj),
  Forall (fun kv => f (snd kv) = snd kv) o -> map (fun kv => (fst kv, f (snd kv))) o = o.
Proof. intros f o H; induction H as [|[k v] t Hx Ht IH]; cbn in *; [reflexivity|congruence]. Qed.

Lemma map_kv_id_Forall' : forall (o : obj) (f : string -> json -> json),
  Forall (fun kv => f (fst kv) (snd kv) = snd kv) o -> map (fun kv => (fst kv, f (fst kv) (snd kv))) o = o.
Proof. intros o f H; induction H as [|[k v] t Hx Ht IH]; cbn in *; [reflexivity|congruence]. Qed.

Lemma n2e_arr : forall l, l <> [JNull] -> none_to_empty (JArr l) = JArr (map none_to_empty l).
Proof. intros [|x [|y t]] H; try reflexivity; destruct x; try reflexivity; now elim H. Qed.
Lemma e2n_arr : forall l, l <> [JNull] -> empty_to_none (JArr l) = JArr (map empty_to_none l).
Proof. intros [|x [|y t]] H; try reflexivity; destruct x; try reflexivity; now elim H. Qed.
Lemma legacy_nulls_arr : forall l, l <> [JNull] -> legacy_nulls_ok (JArr l) = forallb legacy_nulls_ok l.
Proof. intros [|x [|y t]] H; try reflexivity; destruct x; try reflexivity; now elim H. Qed.
Lemma yang_nulls_arr : forall l, l <> [JNull] -> l <> [JArr [JNull]] ->
  yang_nulls_ok (JArr l) = forallb yang_nulls_ok l.
Proof.
  intros [|x [|y t]] H H2; try reflexivity; destruct x; try reflexivity; try (now elim H).
  all: destruct l as [|a [|b r]]; try reflexivity; destruct a; try reflexivity; now elim H2.
Qed.

Lemma n2e_not_single_null : forall l, l <> [JNull] -> map none_to_empty l <> [JNull].
Proof.
  intros [|x [|y t]] H; cbn; try discriminate.
  destruct x; cbn; try discriminate.
  destruct l as [|a [|b r]]; try discriminate; destruct a; discriminate.
Qed.

Theorem e2n_n2e : forall j, legacy_nulls_ok j = true -> empty_to_none (none_to_empty j) = j.
Proof.
  induction j as [| | | |l IH|o IH] using json_ind'; intros W; try reflexivity.
  - (* array *)
    assert (Hl : l <> [JNull]) by (intro; subst; cbn in W; discriminate).
    rewrite legacy_nulls_arr in W by exact Hl.
    rewrite n2e_arr by exact Hl.
    rewrite e2n_arr by (apply n2e_not_single_null; exact Hl).
    rewrite map_map. f_equal. apply map_id_Forall.
    rewrite forallb_forall in W. rewrite Forall_forall in *. intros x Hx. apply IH; auto.
  - (* object *)
    cbn in *. rewrite map_map. cbn. f_equal.
    apply (map_kv_id_Forall (fun v => empty_to_none (none_to_empty v))).
    rewrite forallb_forall in W. rewrite Forall_forall in *. intros kv Hkv. apply IH; auto.
Qed.

Lemma e2n_not_single_null : forall l,
  l <> [JNull] -> l <> [JArr [JNull]] -> forallb yang_nulls_ok l = true -> map empty_to_none l <> [JNull].
Proof.
  intros [|x [|y t]] H1 H2 W; cbn; try discriminate.
  cbn in W. rewrite andb_true_r in W.
  destruct x; cbn; try discriminate.
  destruct l as [|a [|b r]]; try discriminate; destruct a; try discriminate. now elim H2.
Qed.

Lemma single_null_dec : forall l : list json, {l = [JNull]} + {l <> [JNull]}.
Proof.
  intros [|x [|y t]]; try (right; discriminate).
  destruct x; try (right; discriminate). now left.
Defined.

Theorem n2e_e2n : forall y, yang_nulls_ok y = true -> none_to_empty (empty_to_none y) = y.
Proof.
  induction y as [| | | |l IH|o IH] using json_ind'; intros W; try reflexivity; try discriminate.
  - destruct (single_null_dec l) as [E|Hl]; [subst; reflexivity|].
    assert (H2 : l <> [JArr [JNull]]) by (intro; subst; cbn in W; discriminate).
    rewrite yang_nulls_arr in W by assumption.
    rewrite e2n_arr by exact Hl.
    rewrite n2e_arr by (apply e2n_not_single_null; assumption).
    rewrite map_map. f_equal. apply map_id_Forall.
    rewrite forallb_forall in W. rewrite Forall_forall in *. intros x Hx. apply IH; auto.
  - cbn in *. rewrite map_map. cbn. f_equal.
    apply (map_kv_id_Forall (fun v => none_to_empty (empty_to_none v))).
    rewrite forallb_forall in W. rewrite Forall_forall in *. intros kv Hkv. apply IH; auto.
Qed.

(* ------------------------------------------------------------------ other_name expansion *)
(* the entry a name must map to: the declared entry without its alias list, reporting that name *)
Definition alias_entry (e : obj) (n : string) : obj := jdel "other_name" (jset "type_variety" (JStr n) e).

Lemma lookup_last_notin : forall (f : string -> obj) names n,
  ~ In n names -> lookup_last n (map (fun x => (x, f x)) names) = None.
Proof.
  intros f names n; induction names as [|a t IH]; intros H; [reflexivity|].
  cbn. rewrite IH by (intro; apply H; now right).
  destruct (String.eqb n a) eqn:E; [|reflexivity].
  apply String.eqb_eq in E. exfalso. apply H. now left.
Qed.

Lemma lookup_last_map : forall (f : string -> obj) names n,
  In n names -> lookup_last n (map (fun x => (x, f x)) names) = Some (f n).
Proof.
  intros f names n; induction names as [|a t IH]; intros H; [contradiction|].
  cbn. destruct (in_dec string_dec n t) as [Ht|Ht].
  - now rewrite IH.
  - destruct H as [->|H]; [|contradiction].
    rewrite lookup_last_notin by exact Ht. now rewrite String.eqb_refl.
Qed.

Theorem alias_spec_edfa : forall e names l,
  jhas "other_name" e = true -> alias_names e = Ok names -> expand_edfa e = Ok l ->
  forall n, In n names ->
    lookup_last n l = Some (alias_entry e n)
    /\ jget "type_variety" (alias_entry e n) = Some (JStr n)
    /\ jget "other_name" (alias_entry e n) = None
    /\ (forall k, String.eqb k "type_variety" = false -> String.eqb k "other_name" = false ->
                  jget k (alias_entry e n) = jget k e).
Proof.
  intros e names l Hh Hn Hx n Hin. unfold expand_edfa in Hx. rewrite Hh, Hn in Hx. cbn in Hx.
  injection Hx as <-. unfold alias_entry. repeat split.
  - exact (lookup_last_map (fun n => jdel "other_name" (jset "type_variety" (JStr n) e)) names n Hin).
  - rewrite jget_jdel_other by reflexivity. apply jget_jset_same.
  - apply jget_jdel_same.
  - intros k H1 H2. rewrite jget_jdel_other by exact H2. apply jget_jset_other; exact H1.
Qed.

(* the Transceiver branch as it is: the i-th assigned entry reports the name assigned at step i-1, the first
   one the entry's own type_variety *)
Lemma trx_loop_reports : forall names cur,
  map (fun p => jget "type_variety" (snd p)) (trx_loop cur names) =
  match names with
  | [] => []
  | _ => jget "type_variety" cur :: map (fun n => Some (JStr n)) (removelast names)
  end.
Proof.
  induction names as [|n t IH]; intros cur; [reflexivity|].
  cbn [trx_loop map snd]. rewrite jget_jdel_other by reflexivity. f_equal.
  rewrite IH. destruct t as [|m r]; [reflexivity|].
  rewrite jget_jset_same. reflexivity.
Qed.

Definition trx_witness : obj :=
  [("type_variety"%string, JStr "Voyager"); ("other_name"%string, JArr [JStr "aliasA"; JStr "aliasB"]);
   ("frequency"%string, JObj [("min"%string, JNum 1913500000000000 1); ("max"%string, JNum 1961000000000000 1)])].

(* F5: the full alias specification is false of the faithful Transceiver model *)
Theorem alias_transceiver_refuted :
  exists e names l n e',
    jhas "other_name" e = true /\ alias_names e = Ok names /\ expand_trx e = Ok l /\ In n names /\
    lookup_last n l = Some e' /\ jget "type_variety" e' <> Some (JStr n).
Proof.
  exists trx_witness, ["aliasA"; "aliasB"; "Voyager"]%string.
  eexists. exists "aliasA"%string. eexists.
  repeat split; try (vm_compute; reflexivity).
  - now left.
  - vm_compute. discriminate.
Qed.

(* ------------------------------------------------------------------ decimal text: printing and parsing *)
Lemma pow10_pos : forall n, 0 < pow10 n.
Proof. intros n; unfold pow10; apply Z.pow_pos_nonneg; lia. Qed.

Lemma pow10_S : forall n, pow10 (S n) = 10 * pow10 n.
Proof. intros n; unfold pow10. rewrite Nat2Z.inj_succ, Z.pow_succ_r by lia. reflexivity. Qed.

Lemma pow10_add : forall a b, pow10 (a + b) = pow10 a * pow10 b.
Proof. intros a b; unfold pow10. rewrite Nat2Z.inj_add, Z.pow_add_r by lia. reflexivity. Qed.

Definition is_digit (c : ascii) : Prop := exists v, digit_val c = Some v /\ 0 <= v <= 9.

Lemma digit_cases : forall d, 0 <= d <= 9 ->
  d = 0 \/ d = 1 \/ d = 2 \/ d = 3 \/ d = 4 \/ d = 5 \/ d = 6 \/ d = 7 \/ d = 8 \/ d = 9.
Proof. intros; lia. Qed.

Lemma digit_val_char : forall d, 0 <= d <= 9 -> digit_val (digit_char d) = Some d.
Proof.
  intros d H. destruct (digit_cases d H) as [->|[->|[->|[->|[->|[->|[->|[->|[->| ->]]]]]]]]]; reflexivity.
Qed.

Lemma digit_char_not_special : forall d, 0 <= d <= 9 ->
  Ascii.eqb (digit_char d) dot = false /\ Ascii.eqb (digit_char d) minus = false /\ Ascii.eqb (digit_char d) plus = false.
Proof.
  intros d H. destruct (digit_cases d H) as [->|[->|[->|[->|[->|[->|[->|[->|[->| ->]]]]]]]]]; repeat split; reflexivity.
Qed.

Definition digit_like (c : ascii) : Prop :=
  (exists v, digit_val c = Some v) /\ Ascii.eqb c dot = false /\ Ascii.eqb c minus = false /\ Ascii.eqb c plus = false.

Lemma digit_char_like : forall d, 0 <= d <= 9 -> digit_like (digit_char d).
Proof.
  intros d H. split; [exists d; now apply digit_val_char|now apply digit_char_not_special].
Qed.

Lemma mod10_range : forall n, 0 <= n mod 10 <= 9.
Proof. intros n; pose proof (Z.mod_pos_bound n 10); lia. Qed.

Lemma digs_like : forall k n, Forall digit_like (digs k n).
Proof.
  induction k as [|k IH]; intros n; cbn; [constructor|].
  apply Forall_app; split; [apply IH|]. constructor; [|constructor]. apply digit_char_like, mod10_range.
Qed.

Lemma digs_length : forall k n, length (digs k n) = k.
Proof. induction k as [|k IH]; intros n; cbn; [reflexivity|]. rewrite app_length, IH; cbn; lia. Qed.

Lemma val_acc_app : forall a b acc,
  val_acc acc (a ++ b) = match val_acc acc a with Some v => val_acc v b | None => None end.
Proof.
  induction a as [|c t IH]; intros b acc; cbn; [reflexivity|].
  destruct (digit_val c); [apply IH|reflexivity].
Qed.

Lemma val_acc_digs : forall k n acc, val_acc acc (digs k n) = Some (acc * pow10 k + n mod pow10 k).
Proof.
  induction k as [|k IH]; intros n acc.
  - cbn. unfold pow10; cbn. rewrite Z.mod_1_r. f_equal; lia.
  - cbn [digs]. rewrite val_acc_app, IH. cbn [val_acc]. rewrite digit_val_char by apply mod10_range.
    f_equal. rewrite pow10_S.
    rewrite (Z.rem_mul_r n 10 (pow10 k)) by (try lia; apply pow10_pos). ring.
Qed.

Lemma ndigits_fuel_bound : forall f n, 0 <= n -> n < pow10 (S f) -> n < pow10 (ndigits_fuel f n).
Proof.
  induction f as [|f IH]; intros n H0 H; cbn [ndigits_fuel]; [exact H|].
  destruct (n <? 10) eqn:E; [unfold pow10; cbn; lia|].
  assert (Hq : n / 10 < pow10 (S f)).
  { rewrite (pow10_S (S f)) in H. apply Z.div_lt_upper_bound; lia. }
  specialize (IH (n / 10) ltac:(apply Z.div_pos; lia) Hq).
  rewrite pow10_S. pose proof (Z.div_mod n 10 ltac:(lia)). pose proof (mod10_range n). lia.
Qed.

Lemma ndigits_bound : forall n, 0 <= n -> n < pow10 (ndigits n).
Proof.
  intros n H. unfold ndigits. apply ndigits_fuel_bound; [exact H|].
  destruct (Z.eq_dec n 0) as [->|Hn]; [unfold pow10; cbn; lia|].
  assert (Hl : 0 <= Z.log2 n) by apply Z.log2_nonneg.
  pose proof (Z.log2_spec n ltac:(lia)) as [_ Hs].
  unfold pow10. rewrite Nat2Z.inj_succ, Z2Nat.id by lia.
  eapply Z.lt_le_trans; [exact Hs|].
  apply Z.pow_le_mono_l; lia.
Qed.

Lemma ndigits_pos : forall n, (1 <= ndigits n)%nat.
Proof.
  intros n; unfold ndigits. destruct (Z.to_nat (Z.log2 n)); cbn; [lia|]. destruct (n <? 10); lia.
Qed.

Lemma val_nat_str : forall n acc, 0 <= n -> val_acc acc (nat_str n) = Some (acc * pow10 (ndigits n) + n).
Proof.
  intros n acc H. unfold nat_str. rewrite val_acc_digs. f_equal. f_equal.
  apply Z.mod_small. split; [exact H|now apply ndigits_bound].
Qed.

Lemma split_dot_like : forall l r, Forall digit_like l ->
  split_dot (l ++ r) = (l ++ fst (split_dot r), snd (split_dot r)).
Proof.
  induction l as [|c t IH]; intros r H; cbn.
  - now destruct (split_dot r).
  - inversion H as [|? ? Hc Ht]; subst. destruct Hc as [_ [Hd _]]. rewrite Hd.
    rewrite (IH r Ht). reflexivity.
Qed.

Lemma strip_sign_like : forall l r, Forall digit_like l -> l <> [] -> strip_sign (l ++ r) = (false, l ++ r).
Proof.
  intros [|c t] r H Hn; [now elim Hn|]. cbn. inversion H as [|? ? Hc Ht]; subst.
  destruct Hc as [_ [_ [Hm Hp]]]. now rewrite Hm, Hp.
Qed.

Lemma nat_str_like : forall n, Forall digit_like (nat_str n).
Proof. intros; apply digs_like. Qed.
Lemma nat_str_nonempty : forall n, nat_str n <> [].
Proof.
  intros n H. apply (f_equal (@length _)) in H. unfold nat_str in H. rewrite digs_length in H.
  pose proof (ndigits_pos n). cbn in H. lia.
Qed.

Lemma strip_sign_signed : forall neg l r, Forall digit_like l -> l <> [] ->
  strip_sign (sign_str neg ++ l ++ r) = (neg, l ++ r).
Proof.
  intros [|] l r H Hn; cbn [sign_str app].
  - cbn. reflexivity.
  - now apply strip_sign_like.
Qed.

(* float(s) on the text the formatter produces *)
Lemma py_float_fixed : forall neg a d, 0 <= a ->
  py_float (string_of_list_ascii (fixed_str neg a d)) = Ok (norm_float (if neg then - a else a) d).
Proof.
  intros neg a d Ha. unfold py_float, fixed_str.
  rewrite list_ascii_of_string_of_list_ascii.
  rewrite strip_sign_signed by (apply nat_str_like || apply nat_str_nonempty).
  rewrite split_dot_like by apply nat_str_like.
  cbn [split_dot]. rewrite Ascii.eqb_refl. cbn [fst snd]. rewrite app_nil_r.
  assert (Hne : nat_str (a / pow10 d) ++ digs d (a mod pow10 d) <> []).
  { intro H. apply app_eq_nil in H. destruct H as [H _]. now apply nat_str_nonempty in H. }
  destruct (nat_str (a / pow10 d) ++ digs d (a mod pow10 d)) eqn:E; [now elim Hne|]. rewrite <- E.
  rewrite val_acc_app, val_nat_str by (apply Z.div_pos; [lia|apply pow10_pos]).
  rewrite val_acc_digs, digs_length. f_equal. f_equal.
  pose proof (pow10_pos d). pose proof (pow10_pos (ndigits (a / pow10 d))).
  rewrite Z.mod_mod by lia. rewrite Z.mul_0_l, Z.add_0_l.
  assert (a / pow10 d * pow10 d + a mod pow10 d = a) as -> by (pose proof (Z.div_mod a (pow10 d)); lia).
  reflexivity.
Qed.

(* ---- trailing zeros ---- *)
Lemma strip0_SS : forall a p,
  strip0 a (S (S p)) = if a mod 10 =? 0 then strip0 (a / 10) (S p) else (a, S (S p)).
Proof. reflexivity. Qed.

Lemma strip0_pad : forall k a d, (1 <= d)%nat -> strip0 (a * pow10 k) (d + k) = strip0 a d.
Proof.
  induction k as [|k IH]; intros a d Hd.
  - unfold pow10; cbn. rewrite Z.mul_1_r, Nat.add_0_r. reflexivity.
  - replace (d + S k)%nat with (S (d + k)) by lia.
    destruct (d + k)%nat as [|p] eqn:E; [lia|].
    rewrite strip0_SS, pow10_S.
    replace (a * (10 * pow10 k)) with (a * pow10 k * 10) by ring.
    rewrite Z.mod_mul, Z.div_mul by lia. cbn [Z.eqb]. rewrite <- E. now apply IH.
Qed.

Lemma strip0_spec : forall d a a' d', strip0 a d = (a', d') ->
  (d' <= d)%nat /\ ((1 <= d)%nat -> (1 <= d')%nat) /\ a = a' * pow10 (d - d') /\ strip0 a' d' = (a', d').
Proof.
  induction d as [|d IH]; intros a a' d' H.
  - cbn in H. injection H as <- <-. repeat split; try lia. unfold pow10; cbn; lia.
  - destruct d as [|p].
    + cbn in H. injection H as <- <-. repeat split; try lia. unfold pow10; cbn; lia.
    + rewrite strip0_SS in H. destruct (a mod 10 =? 0) eqn:E.
      * destruct (IH _ _ _ H) as (H1 & H2 & H3 & H4). repeat split; try lia; [|exact H4].
        specialize (H2 ltac:(lia)).
        replace (S (S p) - d')%nat with (S (S p - d')) by lia. rewrite pow10_S.
        pose proof (Z.div_mod a 10 ltac:(lia)). lia.
      * injection H as <- <-. repeat split; try lia.
        -- rewrite Nat.sub_diag. unfold pow10; cbn; lia.
        -- rewrite strip0_SS, E. reflexivity.
Qed.

(* a float as the model represents it *)
Definition wf_float (m : Z) (d : nat) : Prop := (1 <= d)%nat /\ strip0 (Z.abs m) d = (Z.abs m, d).

Lemma norm_float_wf : forall m d, wf_float m d -> norm_float m d = JNum m d.
Proof.
  intros m d [Hd Hs]. unfold norm_float. destruct d as [|p]; [lia|]. rewrite Hs.
  destruct (m <? 0) eqn:E; f_equal; lia.
Qed.

Lemma norm_float_is_wf : forall m d m' d', (1 <= d)%nat -> norm_float m d = JNum m' d' ->
  wf_float m' d' /\ (d' <= d)%nat.
Proof.
  intros m d m' d' Hd H. unfold norm_float in H. destruct d as [|p]; [lia|].
  destruct (strip0 (Z.abs m) (S p)) as [a dd] eqn:E.
  destruct (strip0_spec _ _ _ _ E) as (H1 & H2 & H3 & H4).
  assert (Ha : 0 <= a).
  { pose proof (pow10_pos (S p - dd)). pose proof (Z.abs_nonneg m). nia. }
  injection H as <- <-. split; [|exact H1]. split; [apply H2; lia|].
  destruct (m <? 0); [rewrite Z.abs_opp|]; rewrite Z.abs_eq by exact Ha; exact H4.
Qed.

(* ---- the value a number has after one conversion to text with fd fraction digits and back ---- *)
Definition quant_pair (fd : nat) (m : Z) (d : nat) : Z * nat :=
  if (d =? 0)%nat || repr_has_e m d || (Z.of_nat fd <? 17) then (round_he (Z.abs m) d fd, fd)
  else trunc_to (Z.abs m) d fd.
Definition quant (fd : nat) (m : Z) (d : nat) : json :=
  let '(a1, d1) := quant_pair fd m d in norm_float (if m <? 0 then - a1 else a1) d1.

Lemma round_he_nonneg : forall a d fd, 0 <= a -> 0 <= round_he a d fd.
Proof.
  intros a d fd H. unfold round_he. destruct (d <=? fd)%nat.
  - pose proof (pow10_pos (fd - d)). nia.
  - pose proof (pow10_pos (d - fd)) as Hp.
    assert (0 <= a / pow10 (d - fd)) by (apply Z.div_pos; lia).
    destruct (2 * (a mod pow10 (d - fd)) <? pow10 (d - fd)); [lia|].
    destruct (pow10 (d - fd) <? 2 * (a mod pow10 (d - fd))); [lia|].
    destruct (Z.even (a / pow10 (d - fd))); lia.
Qed.

(* round_he is a nearest rounding: the error is at most half a unit of the last kept digit *)
Lemma round_he_nearest : forall a d fd, 0 <= a -> (fd < d)%nat ->
  2 * Z.abs (round_he a d fd * pow10 (d - fd) - a) <= pow10 (d - fd).
Proof.
  intros a d fd H Hlt. unfold round_he. destruct (d <=? fd)%nat eqn:E; [apply Nat.leb_le in E; lia|].
  pose proof (pow10_pos (d - fd)) as Hp. set (p := pow10 (d - fd)) in *.
  pose proof (Z.div_mod a p ltac:(lia)) as Hdm. pose proof (Z.mod_pos_bound a p Hp) as Hb.
  destruct (2 * (a mod p) <? p) eqn:E1; [lia|].
  destruct (p <? 2 * (a mod p)) eqn:E2; [lia|].
  destruct (Z.even (a / p)); lia.
Qed.

Lemma quant_pair_nonneg : forall fd m d, 0 <= fst (quant_pair fd m d).
Proof.
  intros fd m d. unfold quant_pair.
  destruct ((d =? 0)%nat || repr_has_e m d || (Z.of_nat fd <? 17)); cbn [fst].
  - apply round_he_nonneg, Z.abs_nonneg.
  - unfold trunc_to. destruct (d <=? fd)%nat; cbn [fst]; [apply Z.abs_nonneg|].
    apply Z.div_pos; [apply Z.abs_nonneg|apply pow10_pos].
Qed.

Lemma quant_pair_digits : forall fd m d, (1 <= fd)%nat ->
  (1 <= snd (quant_pair fd m d) <= fd)%nat.
Proof.
  intros fd m d Hf. unfold quant_pair.
  destruct ((d =? 0)%nat || repr_has_e m d || (Z.of_nat fd <? 17)) eqn:Eb; cbn [snd]; [lia|].
  assert (Hd : (1 <= d)%nat) by (destruct d; [cbn in Eb; discriminate|lia]).
  unfold trunc_to. destruct (d <=? fd)%nat eqn:E; cbn [snd]; [apply Nat.leb_le in E; lia|lia].
Qed.

Lemma sign_abs : forall m, (if m <? 0 then - Z.abs m else Z.abs m) = m.
Proof. intros m; destruct (m <? 0) eqn:E; lia. Qed.

Lemma norm_float_pad : forall m d k, wf_float m d -> norm_float (m * pow10 k) (d + k) = JNum m d.
Proof.
  intros m d k [Hd Hs]. unfold norm_float. destruct (d + k)%nat as [|p] eqn:E; [lia|]. rewrite <- E.
  pose proof (pow10_pos k) as Hp.
  rewrite Z.abs_mul, (Z.abs_eq (pow10 k)) by lia. rewrite strip0_pad, Hs by exact Hd.
  assert ((m * pow10 k <? 0) = (m <? 0)) as -> by (destruct (m <? 0) eqn:Em; nia).
  f_equal. apply sign_abs.
Qed.

(* a float with at most fd digits is not changed *)
Lemma quant_exact : forall fd m d, wf_float m d -> (d <= fd)%nat -> quant fd m d = JNum m d.
Proof.
  intros fd m d W Hle. unfold quant, quant_pair.
  destruct ((d =? 0)%nat || repr_has_e m d || (Z.of_nat fd <? 17)).
  - unfold round_he. apply Nat.leb_le in Hle. rewrite Hle. apply Nat.leb_le in Hle.
    assert ((if m <? 0 then - (Z.abs m * pow10 (fd - d)) else Z.abs m * pow10 (fd - d)) = m * pow10 (fd - d)) as ->
      by (destruct (m <? 0) eqn:E; nia).
    replace fd with (d + (fd - d))%nat at 2 by lia. now apply norm_float_pad.
  - unfold trunc_to. apply Nat.leb_le in Hle. rewrite Hle. rewrite sign_abs. now apply norm_float_wf.
Qed.

Lemma quant_is_wf : forall fd m d m' d', (1 <= fd)%nat -> quant fd m d = JNum m' d' ->
  wf_float m' d' /\ (d' <= fd)%nat.
Proof.
  intros fd m d m' d' Hf H. unfold quant in H.
  pose proof (quant_pair_digits fd m d Hf) as Hq.
  destruct (quant_pair fd m d) as [a1 d1]. cbn [snd] in Hq.
  destruct (norm_float_is_wf _ _ _ _ (proj1 Hq) H) as [W Hle]. split; [exact W|lia].
Qed.

(* rounded once: converting the converted value again changes nothing *)
Lemma quant_idempotent : forall fd m d m' d', (1 <= fd)%nat -> quant fd m d = JNum m' d' ->
  quant fd m' d' = JNum m' d'.
Proof. intros fd m d m' d' Hf H. destruct (quant_is_wf _ _ _ _ _ Hf H). now apply quant_exact. Qed.

Lemma quant_is_num : forall fd m d, exists m' d', quant fd m d = JNum m' d'.
Proof.
  intros fd m d. unfold quant. destruct (quant_pair fd m d) as [a1 d1]. unfold norm_float.
  destruct d1; [eauto|]. destruct (strip0 _ _); eauto.
Qed.

(* ---- str(PrettyFloat(x, fd)) followed by float() ---- *)
Lemma pretty_parse : forall fd m d, (1 <= fd <= 18)%nat ->
  exists s, pretty (Z.of_nat fd) m d = Ok s /\ py_float (string_of_list_ascii s) = Ok (quant fd m d).
Proof.
  intros fd m d Hf. unfold pretty.
  assert (E0 : (Z.of_nat fd <? 0) || (18 <? Z.of_nat fd) = false) by lia. rewrite E0.
  rewrite Nat2Z.id. unfold quant, quant_pair.
  destruct ((d =? 0)%nat || repr_has_e m d || (Z.of_nat fd <? 17)) eqn:Eb.
  - destruct fd as [|q]; [lia|].
    destruct (strip0 (round_he (Z.abs m) d (S q)) (S q)) as [a' d'] eqn:Es.
    eexists; split; [reflexivity|].
    pose proof (round_he_nonneg (Z.abs m) d (S q) (Z.abs_nonneg m)) as Hr.
    destruct (strip0_spec _ _ _ _ Es) as (H1 & H2 & H3 & H4).
    assert (Ha' : 0 <= a') by (pose proof (pow10_pos (S q - d')); nia).
    rewrite py_float_fixed by exact Ha'.
    (* both sides are norm_float of the same magnitude with the same sign test *)
    unfold norm_float at 2.
    assert (Habs : Z.abs (if m <? 0 then - round_he (Z.abs m) d (S q) else round_he (Z.abs m) d (S q))
                   = round_he (Z.abs m) d (S q)) by (destruct (m <? 0); lia).
    rewrite Habs, Es.
    specialize (H2 ltac:(lia)).
    assert (W : wf_float (if m <? 0 then - a' else a') d').
    { split; [exact H2|]. destruct (m <? 0); [rewrite Z.abs_opp|]; rewrite Z.abs_eq by exact Ha'; exact H4. }
    rewrite (norm_float_wf _ _ W). f_equal.
    destruct (m <? 0) eqn:Em;
      [|assert ((round_he (Z.abs m) d (S q) <? 0) = false) as -> by lia; reflexivity].
    destruct (Z.eq_dec a' 0) as [->|Hn0].
    + assert (round_he (Z.abs m) d (S q) = 0) as -> by lia. reflexivity.
    + assert (0 < round_he (Z.abs m) d (S q)) by (pose proof (pow10_pos (S q - d')); nia).
      assert ((- round_he (Z.abs m) d (S q) <? 0) = true) as -> by lia.
      assert ((- a' <? 0) = true) by lia. reflexivity.
  - destruct (trunc_to (Z.abs m) d fd) as [a1 d1] eqn:Et.
    destruct (strip0 a1 d1) as [a' d'] eqn:Es.
    eexists; split; [reflexivity|].
    assert (Hd : (1 <= d)%nat).
    { destruct d; [cbn in Eb; discriminate|lia]. }
    assert (Ha1 : 0 <= a1 /\ (1 <= d1)%nat).
    { unfold trunc_to in Et. destruct (d <=? fd)%nat; injection Et as <- <-.
      - split; [apply Z.abs_nonneg|lia].
      - split; [apply Z.div_pos; [apply Z.abs_nonneg|apply pow10_pos]|lia]. }
    destruct (strip0_spec _ _ _ _ Es) as (H1 & H2 & H3 & H4).
    assert (Ha' : 0 <= a') by (pose proof (pow10_pos (d1 - d')); nia).
    rewrite py_float_fixed by exact Ha'.
    unfold norm_float at 2. destruct d1 as [|p1]; [lia|].
    assert (Habs : Z.abs (if m <? 0 then - a1 else a1) = a1) by (destruct (m <? 0); lia).
    rewrite Habs, Es.
    specialize (H2 ltac:(lia)).
    assert (W : wf_float (if m <? 0 then - a' else a') d').
    { split; [exact H2|]. destruct (m <? 0); [rewrite Z.abs_opp|]; rewrite Z.abs_eq by exact Ha'; exact H4. }
    rewrite (norm_float_wf _ _ W). f_equal.
    destruct (m <? 0) eqn:Em; [|assert ((a1 <? 0) = false) as -> by lia; reflexivity].
    destruct (Z.eq_dec a' 0) as [->|Hn0].
    + assert (a1 = 0) as -> by lia. reflexivity.
    + assert (0 < a1) by (pose proof (pow10_pos (S p1 - d')); nia).
      assert ((- a1 <? 0) = true) as -> by lia.
      assert ((- a' <? 0) = true) by lia. reflexivity.
Qed.

(* ------------------------------------------------------------------ convert_dict / convert_back on documents *)
Lemma mapM_chain : forall {A B C} (f : A -> res B) (g : B -> res C) (q : A -> C) l,
  Forall (fun x => exists y, f x = Ok y /\ g y = Ok (q x)) l ->
  exists l', mapM f l = Ok l' /\ mapM g l' = Ok (map q l).
Proof.
  intros A B C f g q l H; induction H as [|x t (y & Hf & Hg) Ht (t' & IH1 & IH2)].
  - exists []. split; reflexivity.
  - exists (y :: t'). split; cbn.
    + fold (mapM f). rewrite Hf. cbn. rewrite IH1. reflexivity.
    + fold (mapM g). rewrite Hg. cbn. rewrite IH2. reflexivity.
Qed.

Arguments prec k : simpl never.
Arguments prec_d k : simpl never.

Definition dflt (c : option Z) : Z := match c with Some f => f | None => 2 end.
Lemma prec_d_dflt : forall k, prec_d k = dflt (prec k).
Proof. reflexivity. Qed.

(* what convert_back does to one element of a list *)
Definition cb_elem (c : option Z) (x : json) : res json :=
  match x with
  | JStr s => if in_none_m1 c then Ok x else py_float s
  | _ => convert_back_fd c x
  end.

Lemma cb_arr_eq : forall c l, convert_back_fd c (JArr l) = let* l' := mapM (cb_elem c) l in Ok (JArr l').
Proof. reflexivity. Qed.
Lemma cb_obj_eq : forall c o, convert_back_fd c (JObj o) =
  let* o' := mapM (fun kv => let* v' := convert_back_fd (prec (fst kv)) (snd kv) in Ok (fst kv, v')) o in Ok (JObj o').
Proof. reflexivity. Qed.
Lemma cd_arr_eq : forall fd l, convert_dict_fd fd (JArr l) = let* l' := mapM (convert_dict_fd fd) l in Ok (JArr l').
Proof. reflexivity. Qed.
Lemma cd_obj_eq : forall fd o, convert_dict_fd fd (JObj o) =
  let* o' := mapM (fun kv => let* v' := convert_dict_fd (prec_d (fst kv)) (snd kv) in Ok (fst kv, v')) o in Ok (JObj o').
Proof. reflexivity. Qed.

(* documents whose numbers sit in leaves that declare a precision: an int in an integer leaf (0 digits),
   any number in a decimal leaf (1..18 digits); strings only in string-typed or undeclared leaves *)
Definition num_loose (c : option Z) (d : nat) : bool :=
  match c with
  | None => false
  | Some f => if f =? 0 then (d =? 0)%nat else (0 <? f) && (f <=? 18)
  end.
Fixpoint doc_loose (c : option Z) (j : json) : bool :=
  match j with
  | JNum m d => num_loose c d
  | JStr _ => in_none_m1 c
  | JArr l => forallb (doc_loose c) l
  | JObj o => forallb (fun kv => doc_loose (prec (fst kv)) (snd kv)) o
  | _ => true
  end.
(* ... and whose floats have at most the declared number of digits *)
Definition wf_float_b (m : Z) (d : nat) : bool :=
  (1 <=? d)%nat && (let '(a, d') := strip0 (Z.abs m) d in (a =? Z.abs m) && (d' =? d)%nat).
Definition num_ok (c : option Z) (m : Z) (d : nat) : bool :=
  match c with
  | None => false
  | Some f => if f =? 0 then (d =? 0)%nat
              else (0 <? f) && (f <=? 18) && wf_float_b m d && (Z.of_nat d <=? f)
  end.
Fixpoint doc_ok (c : option Z) (j : json) : bool :=
  match j with
  | JNum m d => num_ok c m d
  | JStr _ => in_none_m1 c
  | JArr l => forallb (doc_ok c) l
  | JObj o => forallb (fun kv => doc_ok (prec (fst kv)) (snd kv)) o
  | _ => true
  end.

Lemma wf_float_b_spec : forall m d, wf_float_b m d = true <-> wf_float m d.
Proof.
  intros m d. unfold wf_float_b, wf_float. destruct (strip0 (Z.abs m) d) as [a d'] eqn:E. split.
  - intros H. apply andb_true_iff in H as [H1 H2]. apply andb_true_iff in H2 as [H2 H3].
    apply Nat.leb_le in H1. apply Z.eqb_eq in H2. apply Nat.eqb_eq in H3. subst. auto.
  - intros [H1 H2]. injection H2 as -> ->. apply Nat.leb_le in H1. rewrite H1, Z.eqb_refl, Nat.eqb_refl. reflexivity.
Qed.

(* the document after legacy -> text -> legacy: every number of a decimal leaf brought to the declared digits *)
Fixpoint quant_doc (c : option Z) (j : json) : json :=
  match j with
  | JNum m d => match c with
                | Some f => if 0 <? f then quant (Z.to_nat f) m d else j
                | None => j
                end
  | JArr l => JArr (map (quant_doc c) l)
  | JObj o => JObj (map (fun kv => (fst kv, quant_doc (prec (fst kv)) (snd kv))) o)
  | _ => j
  end.

Lemma cb_of_num : forall c m d, convert_back_fd c (JNum m d) = Ok (JNum m d).
Proof. reflexivity. Qed.

Lemma cd_cb_main : forall x c, doc_loose c x = true ->
  exists y, convert_dict_fd (dflt c) x = Ok y /\ convert_back_fd c y = Ok (quant_doc c x)
            /\ cb_elem c y = Ok (quant_doc c x).
Proof.
  induction x as [| | | |l IH|o IH] using json_ind'; intros c W.
  - exists JNull. repeat split; reflexivity.
  - exists (JBool b). repeat split; reflexivity.
  - (* number *)
    cbn in W. unfold num_loose in W. destruct c as [f|]; [|discriminate]. cbn [dflt quant_doc].
    destruct (f =? 0) eqn:Ef.
    + apply Z.eqb_eq in Ef. subst f. apply Nat.eqb_eq in W. subst d.
      exists (JNum m 0). repeat split; reflexivity.
    + apply andb_true_iff in W as [W1 W2].
      assert (Hf : (1 <= Z.to_nat f <= 18)%nat) by lia.
      destruct (pretty_parse (Z.to_nat f) m d Hf) as (s & Hs & Hp).
      rewrite Z2Nat.id in Hs by lia.
      assert (Hc : convert_dict_fd f (JNum m d) = Ok (JStr (string_of_list_ascii s))).
      { cbn. unfold cnum. destruct d; rewrite ?W1, Hs; reflexivity. }
      exists (JStr (string_of_list_ascii s)). rewrite W1. repeat split; [exact Hc| |].
      * cbn. rewrite W1. exact Hp.
      * unfold cb_elem, in_none_m1. assert ((f =? -1) = false) as -> by lia. exact Hp.
  - (* string *)
    cbn in W. exists (JStr s). repeat split; try reflexivity.
    + destruct c as [f|]; [|reflexivity]. cbn in W. cbn.
      assert ((0 <? f) = false) as -> by lia. assert ((f <? 0) = true) as -> by lia. reflexivity.
    + cbn. rewrite W. reflexivity.
  - (* array *)
    cbn in W.
    assert (Hall : Forall (fun x => exists y, convert_dict_fd (dflt c) x = Ok y /\ cb_elem c y = Ok (quant_doc c x)) l).
    { rewrite forallb_forall in W. rewrite Forall_forall in *. intros x Hx.
      destruct (IH x Hx c (W x Hx)) as (y & H1 & _ & H3). eauto. }
    destruct (mapM_chain _ _ _ _ Hall) as (l' & H1 & H2).
    exists (JArr l'). rewrite cd_arr_eq, H1. cbn [bind quant_doc]. split; [reflexivity|].
    assert (Hb : convert_back_fd c (JArr l') = Ok (JArr (map (quant_doc c) l))) by (rewrite cb_arr_eq, H2; reflexivity).
    split; [exact Hb|exact Hb].
  - (* object *)
    cbn in W.
    assert (Hall : Forall (fun kv => exists kv',
                (let* v' := convert_dict_fd (prec_d (fst kv)) (snd kv) in Ok (fst kv, v')) = Ok kv' /\
                (let* v' := convert_back_fd (prec (fst kv')) (snd kv') in Ok (fst kv', v'))
                  = Ok ((fun kv => (fst kv, quant_doc (prec (fst kv)) (snd kv))) kv)) o).
    { rewrite forallb_forall in W. rewrite Forall_forall in *. intros kv Hkv.
      destruct (IH kv Hkv (prec (fst kv)) (W kv Hkv)) as (y & H1 & H2 & _).
      exists (fst kv, y). rewrite prec_d_dflt, H1. cbn [fst snd bind]. rewrite H2. split; reflexivity. }
    destruct (mapM_chain _ _ _ _ Hall) as (o' & H1 & H2).
    exists (JObj o'). rewrite cd_obj_eq, H1. cbn [bind quant_doc]. split; [reflexivity|].
    assert (Hb : convert_back_fd c (JObj o') =
                 Ok (JObj (map (fun kv => (fst kv, quant_doc (prec (fst kv)) (snd kv))) o)))
      by (rewrite cb_obj_eq, H2; reflexivity).
    split; exact Hb.
Qed.

Lemma doc_ok_loose : forall x c, doc_ok c x = true -> doc_loose c x = true.
Proof.
  induction x as [| | | |l IH|o IH] using json_ind'; intros c W; try exact W; try reflexivity.
  - cbn in *. unfold num_ok in W. unfold num_loose. destruct c as [f|]; [|discriminate].
    destruct (f =? 0); [exact W|]. apply andb_true_iff in W as [W _]. apply andb_true_iff in W as [W _]. exact W.
  - cbn in *. rewrite forallb_forall in *. rewrite Forall_forall in IH. intros x Hx. apply IH; auto.
  - cbn in *. rewrite forallb_forall in *. rewrite Forall_forall in IH. intros kv Hkv. apply IH; auto.
Qed.

Lemma quant_doc_exact : forall x c, doc_ok c x = true -> quant_doc c x = x.
Proof.
  induction x as [| | | |l IH|o IH] using json_ind'; intros c W; try reflexivity.
  - cbn in *. unfold num_ok in W. destruct c as [f|]; [|reflexivity].
    destruct (0 <? f) eqn:E0; [|reflexivity].
    assert ((f =? 0) = false) as Ef by lia. rewrite Ef in W.
    apply andb_true_iff in W as [W W4]. apply andb_true_iff in W as [W W3]. apply andb_true_iff in W as [W1 W2].
    apply wf_float_b_spec in W3. apply quant_exact; [exact W3|lia].
  - cbn in *. f_equal. apply map_id_Forall. rewrite forallb_forall in W. rewrite Forall_forall in *.
    intros x Hx. apply IH; auto.
  - cbn in *. f_equal. apply (map_kv_id_Forall' o (fun k v => quant_doc (prec k) v)).
    rewrite forallb_forall in W. rewrite Forall_forall in *. intros kv Hkv. apply IH; auto.
Qed.

Lemma quant_doc_ok : forall x c, doc_loose c x = true -> doc_ok c (quant_doc c x) = true.
Proof.
  induction x as [| | | |l IH|o IH] using json_ind'; intros c W; try exact W; try reflexivity.
  - cbn in *. unfold num_loose in W. destruct c as [f|]; [|discriminate].
    destruct (f =? 0) eqn:Ef.
    + assert ((0 <? f) = false) as -> by lia. cbn. now rewrite Ef.
    + apply andb_true_iff in W as [W1 W2]. rewrite W1.
      destruct (quant_is_num (Z.to_nat f) m d) as (m' & d' & Hq). rewrite Hq.
      assert (Hf1 : (1 <= Z.to_nat f)%nat) by lia.
      destruct (quant_is_wf _ _ _ _ _ Hf1 Hq) as [Wf Hd].
      cbn. rewrite Ef, W1, W2. apply wf_float_b_spec in Wf. rewrite Wf. cbn. lia.
  - cbn in *. rewrite forallb_forall in *. rewrite Forall_forall in IH. intros x Hx.
    apply in_map_iff in Hx as (x0 & <- & Hx0). apply IH; auto.
  - cbn in *. rewrite forallb_forall in *. rewrite Forall_forall in IH. intros kv Hkv.
    apply in_map_iff in Hkv as (kv0 & <- & Hkv0). cbn [fst snd]. apply IH; auto.
Qed.

(* back (forth d) = d : every value already within its declared precision survives unchanged *)
Theorem cback_cdict_exact : forall x, doc_ok None x = true ->
  exists y, convert_dict x = Ok y /\ convert_back y = Ok x.
Proof.
  intros x W. destruct (cd_cb_main x None (doc_ok_loose _ _ W)) as (y & H1 & H2 & _).
  exists y. split; [exact H1|]. unfold convert_back. rewrite H2, quant_doc_exact by exact W. reflexivity.
Qed.

(* more digits than declared: rounded once — the result is within the declared precision, and a second
   conversion there and back leaves it unchanged *)
Theorem cback_cdict_rounds_once : forall x, doc_loose None x = true ->
  exists y x', convert_dict x = Ok y /\ convert_back y = Ok x' /\ x' = quant_doc None x /\ doc_ok None x' = true /\
               exists y', convert_dict x' = Ok y' /\ convert_back y' = Ok x'.
Proof.
  intros x W. destruct (cd_cb_main x None W) as (y & H1 & H2 & _).
  exists y, (quant_doc None x). repeat split; try assumption.
  - now apply quant_doc_ok.
  - apply cback_cdict_exact. now apply quant_doc_ok.
Qed.

(* hence the conversion to text is idempotent *)
Corollary cdict_idempotent : forall x, doc_ok None x = true ->
  exists y x', convert_dict x = Ok y /\ convert_back y = Ok x' /\ convert_dict x' = Ok y.
Proof.
  intros x W. destruct (cback_cdict_exact x W) as (y & H1 & H2). exists y, x. auto.
Qed.
