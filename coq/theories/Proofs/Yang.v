(* C18 — lemmas about the model of Model/Yang.v. *)
From Verif Require Import Prelude Model.YangPrecision Model.Yang.
From Coq Require Import Lia ZifyBool.
Open Scope Z_scope.

(* ------------------------------------------------------------------ dict primitives *)
Lemma jget_jset_same : forall k v o, jget k (jset k v o) = Some v.
Proof.
  intros k v o; induction o as [|[k' v'] t IH]; cbn.
  - now rewrite String.eqb_refl.
  - destruct (String.eqb k k') eqn:E; cbn; rewrite E; [reflexivity|exact IH].
Qed.

Lemma jget_jset_other : forall k k' v o, String.eqb k k' = false -> jget k (jset k' v o) = jget k o.
Proof.
  intros k k' v o Hne; induction o as [|[k2 v2] t IH]; cbn.
  - now rewrite Hne.
  - destruct (String.eqb k' k2) eqn:E; cbn.
    + apply String.eqb_eq in E; subst k2. now rewrite Hne.
    + destruct (String.eqb k k2); [reflexivity|exact IH].
Qed.

Lemma jget_jdel_other : forall k k' o, String.eqb k k' = false -> jget k (jdel k' o) = jget k o.
Proof.
  intros k k' o Hne; induction o as [|[k2 v2] t IH]; cbn; [reflexivity|].
  destruct (String.eqb k' k2) eqn:E; cbn.
  - apply String.eqb_eq in E; subst k2. now rewrite Hne.
  - destruct (String.eqb k k2); [reflexivity|exact IH].
Qed.

Lemma jget_jdel_same : forall k o, jget k (jdel k o) = None.
Proof.
  intros k o; induction o as [|[k2 v2] t IH]; cbn; [reflexivity|].
  destruct (String.eqb k k2) eqn:E; cbn; [exact IH|now rewrite E].
Qed.

(* ------------------------------------------------------------------ induction over JSON values *)
Section JsonInd.
  Context (P : json -> Prop).
  Context (HNull : P JNull) (HBool : forall b, P (JBool b)) (HNum : forall m d, P (JNum m d))
           (HStr : forall s, P (JStr s))
           (HArr : forall l, Forall P l -> P (JArr l))
           (HObj : forall o, Forall (fun kv => P (snd kv)) o -> P (JObj o)).
  Fixpoint json_ind' (j : json) : P j :=
    match j with
    | JNull => HNull
    | JBool b => HBool b
    | JNum m d => HNum m d
    | JStr s => HStr s
    | JArr l => HArr l ((fix go (l : list json) : Forall P l :=
                           match l with [] => Forall_nil _ | x :: t => Forall_cons x (json_ind' x) (go t) end) l)
    | JObj o => HObj o ((fix go (o : list (string * json)) : Forall (fun kv => P (snd kv)) o :=
                           match o with [] => Forall_nil _ | kv :: t => Forall_cons kv (json_ind' (snd kv)) (go t) end) o)
    end.
End JsonInd.

(* ------------------------------------------------------------------ None <-> [None] *)
(* a legacy document in which no list is the singleton [null] *)
Fixpoint legacy_nulls_ok (j : json) : bool :=
  match j with
  | JArr l => match l with [JNull] => false | _ => forallb legacy_nulls_ok l end
  | JObj o => forallb (fun kv => legacy_nulls_ok (snd kv)) o
  | _ => true
  end.
(* a YANG document: null occurs only as the single element of a list, and never as [[null]] *)
Fixpoint yang_nulls_ok (j : json) : bool :=
  match j with
  | JNull => false
  | JArr l => match l with
              | [JNull] => true
              | [JArr [JNull]] => false
              | _ => forallb yang_nulls_ok l
              end
  | JObj o => forallb (fun kv => yang_nulls_ok (snd kv)) o
  | _ => true
  end.

Lemma map_id_Forall : forall {A} (f : A -> A) l, Forall (fun x => f x = x) l -> map f l = l.
Proof. intros A f l H; induction H; cbn; [reflexivity|congruence]. Qed.

Lemma map_kv_id_Forall : forall (f : json -> json) (o : obj),
  Forall (fun kv => f (snd kv) = snd kv) o -> map (fun kv => (fst kv, f (snd kv))) o = o.
Proof. intros f o H; induction H as [|[k v] t Hx Ht IH]; cbn in *; [reflexivity|congruence]. Qed.

Lemma n2e_arr : forall l, l <> [JNull] -> none_to_empty (JArr l) = JArr (map none_to_empty l).
Proof. intros [|x [|y t]] H; try reflexivity; destruct x; try reflexivity; now elim H. Qed.
Lemma e2n_arr : forall l, l <> [JNull] -> empty_to_none (JArr l) = JArr (map empty_to_none l).
Proof. intros [|x [|y t]] H; try reflexivity; destruct x; try reflexivity; now elim H. Qed.
Lemma legacy_nulls_arr : forall l, l <> [JNull] -> legacy_nulls_ok (JArr l) = forallb legacy_nulls_ok l.
Proof. intros [|x [|y t]] H; try reflexivity; destruct x; try reflexivity; now elim H. Qed.
Lemma yang_nulls_arr : forall l, l <> [JNull] -> l <> [JArr [JNull]] ->
  yang_nulls_ok (JArr l) = forallb yang_nulls_ok l.
Proof.
  intros [|x [|y t]] H H2; try reflexivity; destruct x; try reflexivity; try (now elim H).
  all: destruct l as [|a [|b r]]; try reflexivity; destruct a; try reflexivity; now elim H2.
Qed.

Lemma n2e_not_single_null : forall l, l <> [JNull] -> map none_to_empty l <> [JNull].
Proof.
  intros [|x [|y t]] H; cbn; try discriminate.
  destruct x; cbn; try discriminate.
  destruct l as [|a [|b r]]; try discriminate; destruct a; discriminate.
Qed.

Theorem e2n_n2e : forall j, legacy_nulls_ok j = true -> empty_to_none (none_to_empty j) = j.
Proof.
  induction j as [| | | |l IH|o IH] using json_ind'; intros W; try reflexivity.
  - (* array *)
    assert (Hl : l <> [JNull]) by (intro; subst; cbn in W; discriminate).
    rewrite legacy_nulls_arr in W by exact Hl.
    rewrite n2e_arr by exact Hl.
    rewrite e2n_arr by (apply n2e_not_single_null; exact Hl).
    rewrite map_map. f_equal. apply map_id_Forall.
    rewrite forallb_forall in W. rewrite Forall_forall in *. intros x Hx. apply IH; auto.
  - (* object *)
    cbn in *. rewrite map_map. cbn. f_equal.
    apply (map_kv_id_Forall (fun v => empty_to_none (none_to_empty v))).
    rewrite forallb_forall in W. rewrite Forall_forall in *. intros kv Hkv. apply IH; auto.
Qed.

Lemma e2n_not_single_null : forall l,
  l <> [JNull] -> l <> [JArr [JNull]] -> forallb yang_nulls_ok l = true -> map empty_to_none l <> [JNull].
Proof.
  intros [|x [|y t]] H1 H2 W; cbn; try discriminate.
  cbn in W. rewrite andb_true_r in W.
  destruct x; cbn; try discriminate.
  destruct l as [|a [|b r]]; try discriminate; destruct a; try discriminate. now elim H2.
Qed.

Lemma single_null_dec : forall l : list json, {l = [JNull]} + {l <> [JNull]}.
Proof.
  intros [|x [|y t]]; try (right; discriminate).
  destruct x; try (right; discriminate). now left.
Defined.

Theorem n2e_e2n : forall y, yang_nulls_ok y = true -> none_to_empty (empty_to_none y) = y.
Proof.
  induction y as [| | | |l IH|o IH] using json_ind'; intros W; try reflexivity; try discriminate.
  - destruct (single_null_dec l) as [E|Hl]; [subst; reflexivity|].
    assert (H2 : l <> [JArr [JNull]]) by (intro; subst; cbn in W; discriminate).
    rewrite yang_nulls_arr in W by assumption.
    rewrite e2n_arr by exact Hl.
    rewrite n2e_arr by (apply e2n_not_single_null; assumption).
    rewrite map_map. f_equal. apply map_id_Forall.
    rewrite forallb_forall in W. rewrite Forall_forall in *. intros x Hx. apply IH; auto.
  - cbn in *. rewrite map_map. cbn. f_equal.
    apply (map_kv_id_Forall (fun v => none_to_empty (empty_to_none v))).
    rewrite forallb_forall in W. rewrite Forall_forall in *. intros kv Hkv. apply IH; auto.
Qed.

(* ------------------------------------------------------------------ other_name expansion *)
(* the entry a name must map to: the declared entry without its alias list, reporting that name *)
Definition alias_entry (e : obj) (n : string) : obj := jdel "other_name" (jset "type_variety" (JStr n) e).

Lemma lookup_last_notin : forall (f : string -> obj) names n,
  ~ In n names -> lookup_last n (map (fun x => (x, f x)) names) = None.
Proof.
  intros f names n; induction names as [|a t IH]; intros H; [reflexivity|].
  cbn. rewrite IH by (intro; apply H; now right).
  destruct (String.eqb n a) eqn:E; [|reflexivity].
  apply String.eqb_eq in E. exfalso. apply H. now left.
Qed.

Lemma lookup_last_map : forall (f : string -> obj) names n,
  In n names -> lookup_last n (map (fun x => (x, f x)) names) = Some (f n).
Proof.
  intros f names n; induction names as [|a t IH]; intros H; [contradiction|].
  cbn. destruct (in_dec string_dec n t) as [Ht|Ht].
  - now rewrite IH.
  - destruct H as [->|H]; [|contradiction].
    rewrite lookup_last_notin by exact Ht. now rewrite String.eqb_refl.
Qed.

Theorem alias_spec_edfa : forall e names l,
  jhas "other_name" e = true -> alias_names e = Ok names -> expand_edfa e = Ok l ->
  forall n, In n names ->
    lookup_last n l = Some (alias_entry e n)
    /\ jget "type_variety" (alias_entry e n) = Some (JStr n)
    /\ jget "other_name" (alias_entry e n) = None
    /\ (forall k, String.eqb k "type_variety" = false -> String.eqb k "other_name" = false ->
                  jget k (alias_entry e n) = jget k e).
Proof.
  intros e names l Hh Hn Hx n Hin. unfold expand_edfa in Hx. rewrite Hh, Hn in Hx. cbn in Hx.
  injection Hx as <-. unfold alias_entry. repeat split.
  - exact (lookup_last_map (fun n => jdel "other_name" (jset "type_variety" (JStr n) e)) names n Hin).
  - rewrite jget_jdel_other by reflexivity. apply jget_jset_same.
  - apply jget_jdel_same.
  - intros k H1 H2. rewrite jget_jdel_other by exact H2. apply jget_jset_other; exact H1.
Qed.

(* the Transceiver branch as it is: the i-th assigned entry reports the name assigned at step i-1, the first
   one the entry's own type_variety *)
Lemma trx_loop_reports : forall names cur,
  map (fun p => jget "type_variety" (snd p)) (trx_loop cur names) =
  match names with
  | [] => []
  | _ => jget "type_variety" cur :: map (fun n => Some (JStr n)) (removelast names)
  end.
Proof.
  induction names as [|n t IH]; intros cur; [reflexivity|].
  cbn [trx_loop map snd]. rewrite jget_jdel_other by reflexivity. f_equal.
  rewrite IH. destruct t as [|m r]; [reflexivity|].
  rewrite jget_jset_same. reflexivity.
Qed.

Definition trx_witness : obj :=
  [("type_variety"%string, JStr "Voyager"); ("other_name"%string, JArr [JStr "aliasA"; JStr "aliasB"]);
   ("frequency"%string, JObj [("min"%string, JNum 1913500000000000 1); ("max"%string, JNum 1961000000000000 1)])].

(* F5: the full alias specification is false of the faithful Transceiver model *)
Theorem alias_transceiver_refuted :
  exists e names l n e',
    jhas "other_name" e = true /\ alias_names e = Ok names /\ expand_trx e = Ok l /\ In n names /\
    lookup_last n l = Some e' /\ jget "type_variety" e' <> Some (JStr n).
Proof.
  exists trx_witness, ["aliasA"; "aliasB"; "Voyager"]%string.
  eexists. exists "aliasA"%string. eexists.
  repeat split; try (vm_compute; reflexivity).
  - now left.
  - vm_compute. discriminate.
Qed.
