(* C06 — lemmas about the ROADM model (Model/Roadm.v). *)
From Coq Require Import QArith Qabs Qminmax Lqa Lia.
From Verif Require Import Prelude Model.Roadm.
Open Scope Q_scope.

(* ------------------------------------------------------------------ the per-channel arithmetic *)
Lemma correction_neg : forall x, x <= 0 -> correction x == - x.
Proof. intros x H. unfold correction. rewrite (Qabs_neg x H). field. Qed.

Lemma correction_pos : forall x, 0 <= x -> correction x == 0.
Proof. intros x H. unfold correction. rewrite (Qabs_pos x H). field. Qed.

Lemma equalize_formula : forall pl c ml,
  cp (equalize pl (c, ml)) == Qmin (chan_target pl c + coff c) (cp c - ml).
Proof.
  intros pl c ml. unfold equalize, delta_power, net_in. cbn [cp set_p].
  set (tg := chan_target pl c + coff c). set (net := cp c - ml).
  destruct (Qlt_le_dec (net - tg) 0) as [Hlt | Hge].
  - rewrite (correction_neg (net - tg)) by lra.
    rewrite (Q.min_r tg net) by lra. lra.
  - rewrite (correction_pos (net - tg)) by exact Hge.
    rewrite (Q.min_l tg net) by lra. lra.
Qed.

(* the second attenuation of propagate is never a gain *)
Lemma delta_power_nonneg : forall tg ml c, 0 <= delta_power tg ml c.
Proof.
  intros tg ml c. unfold delta_power, net_in.
  set (t := tg + coff c). set (net := cp c - ml).
  destruct (Qlt_le_dec (net - t) 0) as [Hlt | Hge].
  - rewrite (correction_neg (net - t)) by lra. lra.
  - rewrite (correction_pos (net - t)) by exact Hge. lra.
Qed.

Lemma equalize_keeps : forall pl c ml,
  let c' := equalize pl (c, ml) in
  cs c' = cs c /\ ca c' = ca c /\ cn c' = cn c /\
  cf c' = cf c /\ cbaud c' = cbaud c /\ cslot c' = cslot c /\ coff c' = coff c /\
  cpmd2 c' = cpmd2 c /\ cpdl2 c' = cpdl2 c.
Proof. intros pl c ml. cbn. repeat split. Qed.

(* ------------------------------------------------------------------ lists *)
Lemma nth_error_map_combine : forall (A B C : Type) (f : A * B -> C) (l : list A) (m : list B) i a b,
  nth_error l i = Some a -> nth_error m i = Some b ->
  nth_error (map f (combine l m)) i = Some (f (a, b)).
Proof.
  intros A B C f l. induction l as [| x l IH]; intros m i a b Ha Hb.
  - destruct i; discriminate.
  - destruct m as [| y m]; [destruct i; discriminate |].
    destruct i as [| i]; cbn in *.
    + inversion Ha; inversion Hb; reflexivity.
    + apply IH; assumption.
Qed.

Lemma length_map_combine : forall (A B C : Type) (f : A * B -> C) (l : list A) (m : list B),
  length m = length l -> length (map f (combine l m)) = length l.
Proof.
  intros A B C f l m H. rewrite map_length, combine_length, H. apply Nat.min_id.
Qed.

Lemma broadcast_length : forall raw n mls, broadcast raw n = Ok mls -> length mls = n.
Proof.
  intros raw n mls H. unfold broadcast in H.
  destruct raw as [| q [| q' t]].
  - discriminate.
  - inversion H. apply repeat_length.
  - destruct (Nat.eqb (length (q :: q' :: t)) n) eqn:E; [| discriminate].
    inversion H. subst. apply Nat.eqb_eq. exact E.
Qed.

Lemma fold_max_ge_init : forall t h, h <= fold_left Qmax t h.
Proof.
  induction t as [| x t IH]; intros h; cbn.
  - apply Qle_refl.
  - eapply Qle_trans; [apply (Q.le_max_l h x) | apply IH].
Qed.

Lemma qmaxl_upper : forall t h x, In x (h :: t) -> x <= qmaxl h t.
Proof.
  unfold qmaxl. induction t as [| y t IH]; intros h x Hin.
  - destruct Hin as [E | []]. subst. apply Qle_refl.
  - cbn. destruct Hin as [E | [E | Hin]].
    + subst. eapply Qle_trans; [apply (Q.le_max_l x y) | apply fold_max_ge_init].
    + subst. eapply Qle_trans; [apply (Q.le_max_r h x) | apply fold_max_ge_init].
    + apply IH. right. exact Hin.
Qed.

(* ------------------------------------------------------------------ inversion of a successful crossing *)
Lemma path_maxloss_inv : forall r from deg l mls mx,
  path_maxloss r from deg l = Ok (mls, mx) ->
  exists bs h t,
    get_path (rpaths r) from deg = Ok bs /\ lookup_all bs (map cf l) = h :: t /\
    broadcast (h :: t) (length l) = Ok mls /\ mx = qmaxl h t.
Proof.
  intros r from deg l mls mx H. unfold path_maxloss in H.
  destruct (get_path (rpaths r) from deg) as [bs | e] eqn:Hp; cbn [bind] in H; [| discriminate].
  destruct (broadcast (lookup_all bs (map cf l)) (length l)) as [m | e] eqn:Hb; cbn [bind] in H; [| discriminate].
  destruct (lookup_all bs (map cf l)) as [| h t] eqn:Hl; [discriminate |].
  inversion H; subst. exists bs, h, t. repeat split; assumption.
Qed.

Lemma path_maxloss_length : forall r from deg l mls mx,
  path_maxloss r from deg l = Ok (mls, mx) -> length mls = length l.
Proof.
  intros r from deg l mls mx H.
  destruct (path_maxloss_inv _ _ _ _ _ _ H) as (bs & h & t & _ & _ & Hb & _).
  eapply broadcast_length; exact Hb.
Qed.

Lemma path_maxloss_max : forall r from deg l mls mx,
  path_maxloss r from deg l = Ok (mls, mx) -> forall ml, In ml mls -> ml <= mx.
Proof.
  intros r from deg l mls mx H ml Hin.
  destruct (path_maxloss_inv _ _ _ _ _ _ H) as (bs & h & t & _ & _ & Hb & Hmx). subst mx.
  unfold broadcast in Hb. destruct t as [| q' t].
  - inversion Hb; subst. apply repeat_spec in Hin. subst. apply qmaxl_upper. left. reflexivity.
  - destruct (Nat.eqb (length (h :: q' :: t)) (length l)); [| discriminate].
    inversion Hb; subst. apply qmaxl_upper. exact Hin.
Qed.

Lemma propagate_inv : forall r deg from l o,
  propagate_power r deg from l = Ok o ->
  exists pl mls mx rin rtg,
    resolve r deg = Some pl /\ path_maxloss r from deg l = Ok (mls, mx) /\
    zfind from (refin r) = Some rin /\ ref_target r deg = Ok (Some rtg) /\
    o_chans o = map (equalize pl) (combine l mls) /\
    o_loss o = map (fun cc => cp (fst cc) - cp (snd cc)) (combine l (o_chans o)) /\
    o_ref_out o = Qmin (rin - mx) rtg /\ o_ref_loss o = rin - o_ref_out o.
Proof.
  intros r deg from l o H. unfold propagate_power in H.
  destruct (path_maxloss r from deg l) as [[mls mx] | e] eqn:Hm; cbn [bind] in H; [| discriminate].
  destruct (ref_target r deg) as [rt | e] eqn:Hr; cbn [bind] in H; [| discriminate].
  destruct (zfind from (refin r)) as [rin |] eqn:Hi; [| discriminate].
  destruct rt as [rtg |]; [| discriminate].
  destruct (resolve r deg) as [pl |] eqn:Hres; [| discriminate].
  inversion H; subst; cbn.
  exists pl, mls, mx, rin, rtg. repeat split; reflexivity.
Qed.

(* ------------------------------------------------------------------ the crossing theorems, for every spectrum *)
Lemma pw_roadm_formula : forall r deg from l o,
  propagate_power r deg from l = Ok o ->
  exists pl mls mx,
    resolve r deg = Some pl /\ path_maxloss r from deg l = Ok (mls, mx) /\
    length mls = length l /\ length (o_chans o) = length l /\
    forall i c ml c', chan_at l mls (o_chans o) i c ml c' ->
      cp c' == Qmin (chan_target pl c + coff c) (cp c - ml).
Proof.
  intros r deg from l o H.
  destruct (propagate_inv _ _ _ _ _ H) as (pl & mls & mx & rin & rtg & Hres & Hm & _ & _ & Ho & _).
  pose proof (path_maxloss_length _ _ _ _ _ _ Hm) as Hlen.
  exists pl, mls, mx. repeat split; try assumption.
  - rewrite Ho. apply length_map_combine. exact Hlen.
  - intros i c ml c' (Hc & Hml & Hc'). rewrite Ho in Hc'.
    rewrite (nth_error_map_combine _ _ _ (equalize pl) l mls i c ml Hc Hml) in Hc'.
    inversion Hc'; subst. apply equalize_formula.
Qed.

Lemma pw_roadm_no_gain : forall r deg from l o,
  propagate_power r deg from l = Ok o ->
  exists mls mx, path_maxloss r from deg l = Ok (mls, mx) /\
    forall i c ml c', chan_at l mls (o_chans o) i c ml c' -> 0 <= ml -> cp c' <= cp c.
Proof.
  intros r deg from l o H.
  destruct (pw_roadm_formula _ _ _ _ _ H) as (pl & mls & mx & _ & Hm & _ & _ & Hf).
  exists mls, mx. split; [exact Hm |].
  intros i c ml c' Hat Hml. rewrite (Hf i c ml c' Hat).
  eapply Qle_trans; [apply Q.le_min_r | lra].
Qed.

Lemma pw_roadm_caps_at_target : forall r deg from l o,
  propagate_power r deg from l = Ok o ->
  exists pl mls mx, resolve r deg = Some pl /\ path_maxloss r from deg l = Ok (mls, mx) /\
    forall i c ml c', chan_at l mls (o_chans o) i c ml c' -> cp c' <= chan_target pl c + coff c.
Proof.
  intros r deg from l o H.
  destruct (pw_roadm_formula _ _ _ _ _ H) as (pl & mls & mx & Hres & Hm & _ & _ & Hf).
  exists pl, mls, mx. repeat split; try assumption.
  intros i c ml c' Hat. rewrite (Hf i c ml c' Hat). apply Q.le_min_l.
Qed.

Lemma pw_roadm_exact_when_enough_power : forall r deg from l o,
  propagate_power r deg from l = Ok o ->
  exists pl mls mx, resolve r deg = Some pl /\ path_maxloss r from deg l = Ok (mls, mx) /\
    forall i c ml c', chan_at l mls (o_chans o) i c ml c' ->
      (chan_target pl c + coff c <= cp c - ml -> cp c' == chan_target pl c + coff c) /\
      (cp c - ml <= chan_target pl c + coff c -> cp c' == cp c - ml).
Proof.
  intros r deg from l o H.
  destruct (pw_roadm_formula _ _ _ _ _ H) as (pl & mls & mx & Hres & Hm & _ & _ & Hf).
  exists pl, mls, mx. repeat split; try assumption.
  - intros Hle. rewrite (Hf i c ml c' H0). apply Q.min_l. exact Hle.
  - intros Hle. rewrite (Hf i c ml c' H0). apply Q.min_r. exact Hle.
Qed.

Lemma pw_roadm_quality : forall r deg from l o,
  propagate_power r deg from l = Ok o ->
  length (o_chans o) = length l /\
  forall i c c', nth_error l i = Some c -> nth_error (o_chans o) i = Some c' ->
    cs c' = cs c /\ ca c' = ca c /\ cn c' = cn c /\
    cf c' = cf c /\ cbaud c' = cbaud c /\ cslot c' = cslot c /\ coff c' = coff c /\
    cpmd2 c' = cpmd2 c /\ cpdl2 c' = cpdl2 c.
Proof.
  intros r deg from l o H.
  destruct (propagate_inv _ _ _ _ _ H) as (pl & mls & mx & rin & rtg & _ & Hm & _ & _ & Ho & _).
  pose proof (path_maxloss_length _ _ _ _ _ _ Hm) as Hlen.
  split.
  - rewrite Ho. apply length_map_combine. exact Hlen.
  - intros i c c' Hc Hc'.
    assert (Hml : exists ml, nth_error mls i = Some ml).
    { destruct (nth_error mls i) as [ml |] eqn:E; [eauto |].
      apply nth_error_None in E. assert (i < length l)%nat by (apply nth_error_Some; congruence). lia. }
    destruct Hml as [ml Hml]. rewrite Ho in Hc'.
    rewrite (nth_error_map_combine _ _ _ (equalize pl) l mls i c ml Hc Hml) in Hc'.
    inversion Hc'; subst. apply (equalize_keeps pl c ml).
Qed.

(* what the element reports: loss_pch_db is input minus output and is at least the path loss;
   the reference channel obeys the same min rule with the largest path loss *)
Lemma pw_roadm_reports : forall r deg from l o,
  propagate_power r deg from l = Ok o ->
  exists mls mx rin rtg,
    path_maxloss r from deg l = Ok (mls, mx) /\ zfind from (refin r) = Some rin /\
    ref_target r deg = Ok (Some rtg) /\
    (forall ml, In ml mls -> ml <= mx) /\
    o_ref_out o = Qmin (rin - mx) rtg /\ o_ref_loss o = rin - o_ref_out o /\ mx <= o_ref_loss o /\
    length (o_loss o) = length l /\
    forall i c ml c' x, chan_at l mls (o_chans o) i c ml c' -> nth_error (o_loss o) i = Some x ->
      x = cp c - cp c' /\ ml <= x.
Proof.
  intros r deg from l o H.
  destruct (propagate_inv _ _ _ _ _ H) as (pl & mls & mx & rin & rtg & Hres & Hm & Hin & Hrt & Ho & Hl & Hro & Hrl).
  destruct (pw_roadm_formula _ _ _ _ _ H) as (pl' & mls' & mx' & Hres' & Hm' & Hlen & Hlen' & Hf).
  rewrite Hm in Hm'. inversion Hm'; subst mls' mx'.
  exists mls, mx, rin, rtg. repeat split; try assumption.
  - apply (path_maxloss_max _ _ _ _ _ _ Hm).
  - rewrite Hrl, Hro. pose proof (Q.le_min_l (rin - mx) rtg). lra.
  - rewrite Hl. apply length_map_combine. exact Hlen'.
  - destruct H0 as (Hc & Hml & Hc'). rewrite Hl in H1.
    rewrite (nth_error_map_combine _ _ _ (fun cc => cp (fst cc) - cp (snd cc)) l (o_chans o) i c c' Hc Hc') in H1.
    inversion H1. reflexivity.
  - destruct H0 as (Hc & Hml & Hc'). rewrite Hl in H1.
    rewrite (nth_error_map_combine _ _ _ (fun cc => cp (fst cc) - cp (snd cc)) l (o_chans o) i c c' Hc Hc') in H1.
    inversion H1; subst x. cbn [fst snd].
    assert (Hat : chan_at l mls (o_chans o) i c ml c') by (repeat split; assumption).
    rewrite (Hf i c ml c' Hat). pose proof (Q.le_min_r (chan_target pl' c + coff c) (cp c - ml)). lra.
Qed.

(* ------------------------------------------------------------------ the whole crossing: powers, then PMD / PDL *)
Lemma path_pol_inv : forall r from deg l pm pd,
  path_pol r from deg l = Ok (pm, pd) ->
  exists bs, get_path (rpaths r) from deg = Ok bs /\
    broadcast (lookup_allk bpmd bs (map cf l)) (length l) = Ok pm /\
    broadcast (lookup_allk bpdl bs (map cf l)) (length l) = Ok pd /\
    length pm = length l /\ length pd = length l.
Proof.
  intros r from deg l pm pd H. unfold path_pol in H.
  destruct (get_path (rpaths r) from deg) as [bs | e] eqn:Hp; cbn [bind] in H; [| discriminate].
  destruct (broadcast (lookup_allk bpmd bs (map cf l)) (length l)) as [a | e] eqn:Ha; cbn [bind] in H; [| discriminate].
  destruct (broadcast (lookup_allk bpdl bs (map cf l)) (length l)) as [b | e] eqn:Hb; cbn [bind] in H; [| discriminate].
  inversion H; subst. exists bs. repeat split; auto; eapply broadcast_length; eassumption.
Qed.

Lemma propagate_split : forall r deg from l o,
  propagate r deg from l = Ok o ->
  exists o0 pm pd,
    propagate_power r deg from l = Ok o0 /\ path_pol r from deg l = Ok (pm, pd) /\
    length pm = length l /\ length pd = length l /\ length (o_chans o0) = length l /\
    o_chans o = map add_pol3 (combine (o_chans o0) (combine pm pd)) /\
    o_loss o = o_loss o0 /\ o_ref_out o = o_ref_out o0 /\ o_ref_loss o = o_ref_loss o0.
Proof.
  intros r deg from l o H. unfold propagate in H.
  destruct (propagate_power r deg from l) as [o0 | e] eqn:H0; cbn [bind] in H; [| discriminate].
  destruct (path_pol r from deg l) as [[pm pd] | e] eqn:Hp; cbn [bind] in H; [| discriminate].
  inversion H; subst; cbn.
  destruct (path_pol_inv _ _ _ _ _ _ Hp) as (bs & _ & _ & _ & La & Lb).
  destruct (pw_roadm_quality _ _ _ _ _ H0) as (L0 & _).
  exists o0, pm, pd. repeat split; auto.
Qed.

Lemma combine_length_eq : forall (A B : Type) (l : list A) (m : list B), length m = length l -> length (combine l m) = length l.
Proof. intros A B l m H. rewrite combine_length, H. apply Nat.min_id. Qed.

Lemma nth_error_in_range : forall (A : Type) (l : list A) i, (i < length l)%nat -> exists x, nth_error l i = Some x.
Proof.
  intros A l i H. destruct (nth_error l i) as [x |] eqn:E; [eauto |]. apply nth_error_None in E. lia.
Qed.

(* the i-th output carrier is the i-th power-equalised carrier with the i-th looked-up pmd / pdl added in quadrature *)
Lemma propagate_nth : forall (l outs0 : list chan) (pm pd : list Q) i c',
  length pm = length l -> length pd = length l -> length outs0 = length l ->
  nth_error (map add_pol3 (combine outs0 (combine pm pd))) i = Some c' ->
  exists c0 a b, nth_error outs0 i = Some c0 /\ nth_error pm i = Some a /\ nth_error pd i = Some b /\
                 c' = add_pol c0 a b.
Proof.
  intros l outs0 pm pd i c' La Lb L0 H.
  assert (Hi : (i < length l)%nat).
  { assert (Hs : nth_error (map add_pol3 (combine outs0 (combine pm pd))) i <> None) by congruence.
    apply nth_error_Some in Hs. rewrite map_length in Hs.
    rewrite combine_length_eq in Hs; [lia |]. rewrite combine_length_eq; lia. }
  destruct (nth_error_in_range _ outs0 i ltac:(lia)) as [c0 Hc0].
  destruct (nth_error_in_range _ pm i ltac:(lia)) as [a Ha].
  destruct (nth_error_in_range _ pd i ltac:(lia)) as [b Hb].
  assert (Hab : nth_error (combine pm pd) i = Some (a, b)).
  { pose proof (nth_error_map_combine _ _ _ (fun x : Q * Q => x) pm pd i a b Ha Hb) as E.
    rewrite map_id in E. exact E. }
  rewrite (nth_error_map_combine _ _ _ add_pol3 outs0 (combine pm pd) i c0 (a, b) Hc0 Hab) in H.
  inversion H; subst. exists c0, a, b. repeat split; auto.
Qed.

Lemma chan_at_lift : forall r deg from l o o0 pm pd mls i c ml c',
  propagate_power r deg from l = Ok o0 ->
  length pm = length l -> length pd = length l -> length (o_chans o0) = length l ->
  o_chans o = map add_pol3 (combine (o_chans o0) (combine pm pd)) ->
  chan_at l mls (o_chans o) i c ml c' ->
  exists c0 a b, chan_at l mls (o_chans o0) i c ml c0 /\ nth_error pm i = Some a /\ nth_error pd i = Some b /\
                 c' = add_pol c0 a b.
Proof.
  intros r deg from l o o0 pm pd mls i c ml c' H0 La Lb L0 Ho (Hc & Hml & Hc').
  rewrite Ho in Hc'. destruct (propagate_nth l (o_chans o0) pm pd i c' La Lb L0 Hc') as (c0 & a & b & Hc0 & Ha & Hb & E).
  exists c0, a, b. repeat split; auto.
Qed.

Lemma roadm_formula : forall r deg from l o,
  propagate r deg from l = Ok o ->
  exists pl mls mx,
    resolve r deg = Some pl /\ path_maxloss r from deg l = Ok (mls, mx) /\
    length mls = length l /\ length (o_chans o) = length l /\
    forall i c ml c', chan_at l mls (o_chans o) i c ml c' ->
      cp c' == Qmin (chan_target pl c + coff c) (cp c - ml).
Proof.
  intros r deg from l o H.
  destruct (propagate_split _ _ _ _ _ H) as (o0 & pm & pd & H0 & Hp & La & Lb & L0 & Ho & _).
  destruct (pw_roadm_formula _ _ _ _ _ H0) as (pl & mls & mx & Hres & Hm & Lm & _ & Hf).
  exists pl, mls, mx. repeat split; auto.
  - rewrite Ho, map_length. rewrite combine_length_eq; [exact L0 |]. rewrite combine_length_eq; lia.
  - intros i c ml c' Hat.
    destruct (chan_at_lift _ _ _ _ _ _ _ _ _ _ _ _ _ H0 La Lb L0 Ho Hat) as (c0 & a & b & Hat0 & _ & _ & E).
    subst c'. cbn [cp add_pol]. apply (Hf i c ml c0 Hat0).
Qed.

Lemma roadm_no_gain : forall r deg from l o,
  propagate r deg from l = Ok o ->
  exists mls mx, path_maxloss r from deg l = Ok (mls, mx) /\
    forall i c ml c', chan_at l mls (o_chans o) i c ml c' -> 0 <= ml -> cp c' <= cp c.
Proof.
  intros r deg from l o H.
  destruct (roadm_formula _ _ _ _ _ H) as (pl & mls & mx & _ & Hm & _ & _ & Hf).
  exists mls, mx. split; [exact Hm |].
  intros i c ml c' Hat Hml. rewrite (Hf i c ml c' Hat).
  eapply Qle_trans; [apply Q.le_min_r | lra].
Qed.

Lemma roadm_caps_at_target : forall r deg from l o,
  propagate r deg from l = Ok o ->
  exists pl mls mx, resolve r deg = Some pl /\ path_maxloss r from deg l = Ok (mls, mx) /\
    forall i c ml c', chan_at l mls (o_chans o) i c ml c' -> cp c' <= chan_target pl c + coff c.
Proof.
  intros r deg from l o H.
  destruct (roadm_formula _ _ _ _ _ H) as (pl & mls & mx & Hres & Hm & _ & _ & Hf).
  exists pl, mls, mx. repeat split; try assumption.
  intros i c ml c' Hat. rewrite (Hf i c ml c' Hat). apply Q.le_min_l.
Qed.

Lemma roadm_exact_when_enough_power : forall r deg from l o,
  propagate r deg from l = Ok o ->
  exists pl mls mx, resolve r deg = Some pl /\ path_maxloss r from deg l = Ok (mls, mx) /\
    forall i c ml c', chan_at l mls (o_chans o) i c ml c' ->
      (chan_target pl c + coff c <= cp c - ml -> cp c' == chan_target pl c + coff c) /\
      (cp c - ml <= chan_target pl c + coff c -> cp c' == cp c - ml).
Proof.
  intros r deg from l o H.
  destruct (roadm_formula _ _ _ _ _ H) as (pl & mls & mx & Hres & Hm & _ & _ & Hf).
  exists pl, mls, mx. repeat split; try assumption.
  - intros Hle. rewrite (Hf i c ml c' H0). apply Q.min_l. exact Hle.
  - intros Hle. rewrite (Hf i c ml c' H0). apply Q.min_r. exact Hle.
Qed.

Lemma roadm_quality : forall r deg from l o,
  propagate r deg from l = Ok o ->
  length (o_chans o) = length l /\
  forall i c c', nth_error l i = Some c -> nth_error (o_chans o) i = Some c' ->
    cs c' = cs c /\ ca c' = ca c /\ cn c' = cn c /\
    cf c' = cf c /\ cbaud c' = cbaud c /\ cslot c' = cslot c /\ coff c' = coff c.
Proof.
  intros r deg from l o H.
  destruct (propagate_split _ _ _ _ _ H) as (o0 & pm & pd & H0 & Hp & La & Lb & L0 & Ho & _).
  destruct (pw_roadm_quality _ _ _ _ _ H0) as (_ & Hq).
  split.
  - rewrite Ho, map_length. rewrite combine_length_eq; [exact L0 |]. rewrite combine_length_eq; lia.
  - intros i c c' Hc Hc'. rewrite Ho in Hc'.
    destruct (propagate_nth l (o_chans o0) pm pd i c' La Lb L0 Hc') as (c0 & a & b & Hc0 & _ & _ & E).
    subst c'. cbn [cs ca cn cf cbaud cslot coff add_pol].
    destruct (Hq i c c0 Hc Hc0) as (A1 & A2 & A3 & A4 & A5 & A6 & A7 & _). repeat split; assumption.
Qed.

Lemma roadm_reports : forall r deg from l o,
  propagate r deg from l = Ok o ->
  exists mls mx rin rtg,
    path_maxloss r from deg l = Ok (mls, mx) /\ zfind from (refin r) = Some rin /\
    ref_target r deg = Ok (Some rtg) /\
    (forall ml, In ml mls -> ml <= mx) /\
    o_ref_out o = Qmin (rin - mx) rtg /\ o_ref_loss o = rin - o_ref_out o /\ mx <= o_ref_loss o /\
    length (o_loss o) = length l /\
    forall i c ml c' x, chan_at l mls (o_chans o) i c ml c' -> nth_error (o_loss o) i = Some x ->
      x = cp c - cp c' /\ ml <= x.
Proof.
  intros r deg from l o H.
  destruct (propagate_split _ _ _ _ _ H) as (o0 & pm & pd & H0 & Hp & La & Lb & L0 & Ho & El & Er & Erl).
  destruct (pw_roadm_reports _ _ _ _ _ H0) as (mls & mx & rin & rtg & Hm & Hin & Hrt & Hmx & Hro & Hrl & Hge & Ll & Hx).
  exists mls, mx, rin, rtg. rewrite El, Er, Erl. repeat split; auto.
  - destruct (chan_at_lift _ _ _ _ _ _ _ _ _ _ _ _ _ H0 La Lb L0 Ho H1) as (c0 & a & b & Hat0 & _ & _ & E).
    subst c'. cbn [cp add_pol]. apply (Hx i c ml c0 x Hat0 H2).
  - destruct (chan_at_lift _ _ _ _ _ _ _ _ _ _ _ _ _ H0 La Lb L0 Ho H1) as (c0 & a & b & Hat0 & _ & _ & E).
    apply (Hx i c ml c0 x Hat0 H2).
Qed.

(* PMD / PDL: the crossing adds exactly the looked-up 'roadm-pmd' / 'roadm-pdl' in quadrature and never lowers them *)
Lemma roadm_pmd_pdl : forall r deg from l o,
  propagate r deg from l = Ok o ->
  exists pm pd, path_pol r from deg l = Ok (pm, pd) /\ length pm = length l /\ length pd = length l /\
    forall i c c', nth_error l i = Some c -> nth_error (o_chans o) i = Some c' ->
      exists a b, nth_error pm i = Some a /\ nth_error pd i = Some b /\
        cpmd2 c' = cpmd2 c + a * a /\ cpdl2 c' = cpdl2 c + b * b /\
        cpmd2 c <= cpmd2 c' /\ cpdl2 c <= cpdl2 c'.
Proof.
  intros r deg from l o H.
  destruct (propagate_split _ _ _ _ _ H) as (o0 & pm & pd & H0 & Hp & La & Lb & L0 & Ho & _).
  destruct (pw_roadm_quality _ _ _ _ _ H0) as (_ & Hq).
  exists pm, pd. repeat split; auto.
  intros i c c' Hc Hc'. rewrite Ho in Hc'.
  destruct (propagate_nth l (o_chans o0) pm pd i c' La Lb L0 Hc') as (c0 & a & b & Hc0 & Ha & Hb & E).
  destruct (Hq i c c0 Hc Hc0) as (_ & _ & _ & _ & _ & _ & _ & E1 & E2).
  exists a, b. subst c'. cbn [cpmd2 cpdl2 add_pol]. rewrite E1, E2. repeat split; auto.
  - nra.
  - nra.
Qed.

(* unsquared reading: for non-negative x, y with x^2 = pmd^2 before and y^2 = pmd^2 after, x <= y *)
Lemma sq_le_le : forall x y, 0 <= x -> 0 <= y -> x * x <= y * y -> x <= y.
Proof.
  intros x y Hx Hy H. destruct (Qlt_le_dec y x) as [Hlt | Hle]; [| exact Hle].
  exfalso. assert (y * y < x * x) by nra. lra.
Qed.

(* ------------------------------------------------------------------ impairment lookup *)
Lemma lookup1_spec : forall bs f q,
  lookup1 bs f = Some q ->
  exists pre b post, bs = pre ++ b :: post /\ in_band b f = true /\ band_val b = Some q /\
    Forall (fun b' => in_band b' f = false \/ band_val b' = None) pre.
Proof.
  induction bs as [| b bs IH]; intros f q H; [discriminate |].
  cbn in H. destruct (in_band b f) eqn:Eb.
  - destruct (band_val b) as [v |] eqn:Ev.
    + inversion H; subst. exists [], b, bs. repeat split; auto.
    + destruct (IH f q H) as (pre & b0 & post & E & Hi & Hv & Hall).
      exists (b :: pre), b0, post. subst. repeat split; auto.
  - destruct (IH f q H) as (pre & b0 & post & E & Hi & Hv & Hall).
    exists (b :: pre), b0, post. subst. repeat split; auto.
Qed.

Lemma lookup_all_covered : forall bs fs,
  Forall (fun f => lookup1 bs f <> None) fs ->
  Forall2 (fun f q => lookup1 bs f = Some q) fs (lookup_all bs fs).
Proof.
  intros bs fs H. induction H as [| f fs Hf _ IH]; cbn.
  - constructor.
  - destruct (lookup1 bs f) as [q |] eqn:E; [| congruence]. cbn. constructor; assumption.
Qed.

Lemma Forall2_nth : forall (A B : Type) (P : A -> B -> Prop) l m i a b,
  Forall2 P l m -> nth_error l i = Some a -> nth_error m i = Some b -> P a b.
Proof.
  intros A B P l m i a b H. revert i. induction H as [| x y l m Hxy _ IH]; intros i Ha Hb.
  - destruct i; discriminate.
  - destruct i; cbn in *; [inversion Ha; inversion Hb; subst; exact Hxy | eapply IH; eassumption].
Qed.

Lemma Forall2_len : forall (A B : Type) (P : A -> B -> Prop) l m, Forall2 P l m -> length l = length m.
Proof. intros A B P l m H. induction H; cbn; congruence. Qed.

(* when every channel lies in a band that defines a loss, channel i gets the loss of the first such band *)
Lemma maxloss_per_band : forall r from deg l mls mx bs,
  path_maxloss r from deg l = Ok (mls, mx) -> get_path (rpaths r) from deg = Ok bs ->
  Forall (fun c => lookup1 bs (cf c) <> None) l ->
  forall i c ml, nth_error l i = Some c -> nth_error mls i = Some ml -> lookup1 bs (cf c) = Some ml.
Proof.
  intros r from deg l mls mx bs H Hp Hcov i c ml Hc Hml.
  destruct (path_maxloss_inv _ _ _ _ _ _ H) as (bs' & h & t & Hp' & Hl & Hb & _).
  rewrite Hp in Hp'. inversion Hp'; subst bs'.
  assert (Hcov' : Forall (fun f => lookup1 bs f <> None) (map cf l)).
  { apply Forall_forall. intros f Hf. apply in_map_iff in Hf. destruct Hf as (c0 & E & Hin). subst.
    rewrite Forall_forall in Hcov. apply Hcov. exact Hin. }
  pose proof (lookup_all_covered bs (map cf l) Hcov') as HF. rewrite Hl in HF.
  assert (Hlen : length (h :: t) = length l).
  { apply Forall2_len in HF. rewrite map_length in HF. symmetry. exact HF. }
  assert (Emls : mls = h :: t).
  { unfold broadcast in Hb. destruct t as [| q' t].
    - inversion Hb. cbn in Hlen. rewrite <- Hlen. reflexivity.
    - rewrite Hlen, Nat.eqb_refl in Hb. inversion Hb. reflexivity. }
  subst mls.
  assert (Hcf : nth_error (map cf l) i = Some (cf c)) by (rewrite nth_error_map, Hc; reflexivity).
  exact (Forall2_nth _ _ _ _ _ i (cf c) ml HF Hcf Hml).
Qed.

(* the same for 'roadm-pmd' / 'roadm-pdl' (default None: an entry without the key is skipped) *)
Lemma lookup1k_spec : forall sel bs f q,
  lookup1k sel bs f = Some q ->
  exists pre b post, bs = pre ++ b :: post /\ in_band b f = true /\ sel b = Val q /\
    Forall (fun b' => in_band b' f = false \/ kv_val (sel b') = None) pre.
Proof.
  intros sel. induction bs as [| b bs IH]; intros f q H; [discriminate |].
  cbn in H. destruct (in_band b f) eqn:Eb.
  - destruct (kv_val (sel b)) as [v |] eqn:Ev.
    + inversion H; subst. exists [], b, bs. repeat split; auto.
      destruct (sel b); cbn in Ev; try discriminate. inversion Ev. reflexivity.
    + destruct (IH f q H) as (pre & b0 & post & E & Hi & Hv & Hall).
      exists (b :: pre), b0, post. subst. repeat split; auto.
  - destruct (IH f q H) as (pre & b0 & post & E & Hi & Hv & Hall).
    exists (b :: pre), b0, post. subst. repeat split; auto.
Qed.

Lemma lookup_allk_covered : forall sel bs fs,
  Forall (fun f => lookup1k sel bs f <> None) fs ->
  Forall2 (fun f q => lookup1k sel bs f = Some q) fs (lookup_allk sel bs fs).
Proof.
  intros sel bs fs H. induction H as [| f fs Hf _ IH]; cbn.
  - constructor.
  - destruct (lookup1k sel bs f) as [q |] eqn:E; [| congruence]. cbn. constructor; assumption.
Qed.

Lemma broadcast_full : forall raw n mls, length raw = n -> broadcast raw n = Ok mls -> mls = raw.
Proof.
  intros raw n mls Hl H. unfold broadcast in H. destruct raw as [| q [| q' t]].
  - discriminate.
  - inversion H. cbn in Hl. subst n. reflexivity.
  - rewrite Hl, Nat.eqb_refl in H. inversion H. reflexivity.
Qed.

Lemma covered_nth : forall sel bs (l : list chan) vals i c v,
  Forall (fun c => lookup1k sel bs (cf c) <> None) l ->
  broadcast (lookup_allk sel bs (map cf l)) (length l) = Ok vals ->
  nth_error l i = Some c -> nth_error vals i = Some v -> lookup1k sel bs (cf c) = Some v.
Proof.
  intros sel bs l vals i c v Hcov Hb Hc Hv.
  assert (Hcov' : Forall (fun f => lookup1k sel bs f <> None) (map cf l)).
  { apply Forall_forall. intros f Hf. apply in_map_iff in Hf. destruct Hf as (c0 & E & Hin). subst.
    rewrite Forall_forall in Hcov. apply Hcov. exact Hin. }
  pose proof (lookup_allk_covered sel bs (map cf l) Hcov') as HF.
  assert (Hlen : length (lookup_allk sel bs (map cf l)) = length l).
  { apply Forall2_len in HF. rewrite map_length in HF. symmetry. exact HF. }
  rewrite (broadcast_full _ _ _ Hlen Hb) in Hv.
  assert (Hcf : nth_error (map cf l) i = Some (cf c)) by (rewrite nth_error_map, Hc; reflexivity).
  exact (Forall2_nth _ _ _ _ _ i (cf c) v HF Hcf Hv).
Qed.

Lemma pol_per_band : forall r from deg l pm pd bs,
  path_pol r from deg l = Ok (pm, pd) -> get_path (rpaths r) from deg = Ok bs ->
  Forall (fun c => lookup1k bpmd bs (cf c) <> None) l -> Forall (fun c => lookup1k bpdl bs (cf c) <> None) l ->
  forall i c a b, nth_error l i = Some c -> nth_error pm i = Some a -> nth_error pd i = Some b ->
    lookup1k bpmd bs (cf c) = Some a /\ lookup1k bpdl bs (cf c) = Some b.
Proof.
  intros r from deg l pm pd bs H Hp C1 C2 i c a b Hc Ha Hb.
  destruct (path_pol_inv _ _ _ _ _ _ H) as (bs' & Hp' & B1 & B2 & _ & _).
  rewrite Hp in Hp'. inversion Hp'; subst bs'.
  split; [eapply covered_nth with (vals := pm) | eapply covered_nth with (vals := pd)]; eassumption.
Qed.

(* ------------------------------------------------------------------ target resolution *)
Lemma target_resolution : forall r deg,
  (forall t, zfind deg (dpow r) = Some t -> resolve r deg = Some (Power t)) /\
  (forall d, zfind deg (dpow r) = None -> zfind deg (dpsd r) = Some d -> resolve r deg = Some (Psd d)) /\
  (forall d, zfind deg (dpow r) = None -> zfind deg (dpsd r) = None -> zfind deg (dpsw r) = Some d ->
             resolve r deg = Some (Psw d)) /\
  (zfind deg (dpow r) = None -> zfind deg (dpsd r) = None -> zfind deg (dpsw r) = None ->
   resolve r deg = node_policy r).
Proof.
  intros r deg. unfold resolve. repeat split; intros.
  - rewrite H. reflexivity.
  - rewrite H, H0. reflexivity.
  - rewrite H, H0, H1. reflexivity.
  - rewrite H, H0, H1. reflexivity.
Qed.

Lemma node_policy_exactly_one : forall r, exactly_one r ->
  (exists t, npow r = Some t /\ npsd r = None /\ npsw r = None /\ node_policy r = Some (Power t)) \/
  (exists d, npow r = None /\ npsd r = Some d /\ npsw r = None /\ node_policy r = Some (Psd d)) \/
  (exists d, npow r = None /\ npsd r = None /\ npsw r = Some d /\ node_policy r = Some (Psw d)).
Proof.
  intros r H. unfold exactly_one, count_some in H. unfold node_policy.
  destruct (npow r) as [t |], (npsd r) as [d |], (npsw r) as [w |]; cbn in H; try lia.
  - left. exists t. auto.
  - right; left. exists d. auto.
  - right; right. exists w. auto.
Qed.

Lemma target_values : forall t d c,
  chan_target (Power t) c = t /\ chan_target (Psd d) c = d + cbaud c /\ chan_target (Psw d) c = d + cslot c.
Proof. intros. repeat split. Qed.

(* ------------------------------------------------------------------ design step: per-degree targets *)
Lemma zfind_app_other : forall (l : list (Z * Q)) d v k, k <> d -> zfind k (l ++ [(d, v)]) = zfind k l.
Proof.
  induction l as [| [k' v'] l IH]; intros d v k Hne; cbn.
  - destruct (d =? k)%Z eqn:E; [apply Z.eqb_eq in E; congruence | reflexivity].
  - destruct (k' =? k)%Z; [reflexivity | apply IH; exact Hne].
Qed.

Lemma zfind_app_new : forall (l : list (Z * Q)) d v, zfind d l = None -> zfind d (l ++ [(d, v)]) = Some v.
Proof.
  induction l as [| [k' v'] l IH]; intros d v H; cbn in *.
  - rewrite Z.eqb_refl. reflexivity.
  - destruct (k' =? d)%Z; [discriminate | apply IH; exact H].
Qed.

Lemma zfind_app_keep : forall (l : list (Z * Q)) d v k x, zfind k l = Some x -> zfind k (l ++ [(d, v)]) = Some x.
Proof.
  induction l as [| [k' v'] l IH]; intros d v k x H; cbn in *.
  - discriminate.
  - destruct (k' =? k)%Z; [exact H | apply IH; exact H].
Qed.

Lemma deg_has_false : forall r d, deg_has r d = false ->
  zfind d (dpow r) = None /\ zfind d (dpsd r) = None /\ zfind d (dpsw r) = None.
Proof.
  intros r d H. unfold deg_has, zhas in H.
  destruct (zfind d (dpow r)), (zfind d (dpsd r)), (zfind d (dpsw r)); cbn in H; try discriminate; auto.
Qed.

Lemma resolve_other : forall r r' deg,
  zfind deg (dpow r') = zfind deg (dpow r) -> zfind deg (dpsd r') = zfind deg (dpsd r) ->
  zfind deg (dpsw r') = zfind deg (dpsw r) -> node_policy r' = node_policy r ->
  resolve r' deg = resolve r deg.
Proof. intros r r' deg H1 H2 H3 H4. unfold resolve. rewrite H1, H2, H3, H4. reflexivity. Qed.

(* one step of set_targets on a degree without entry: what is added resolves to the node's policy *)
Lemma set_targets_preserves : forall next r r',
  exactly_one r -> set_targets r next = Ok r' ->
  exactly_one r' /\ npow r' = npow r /\ npsd r' = npsd r /\ npsw r' = npsw r /\
  refc r' = refc r /\ refin r' = refin r /\ rpaths r' = rpaths r /\
  (forall deg, resolve r' deg = resolve r deg) /\
  (forall deg t, zfind deg (dpow r) = Some t -> zfind deg (dpow r') = Some t) /\
  (forall deg t, zfind deg (dpsd r) = Some t -> zfind deg (dpsd r') = Some t) /\
  (forall deg t, zfind deg (dpsw r) = Some t -> zfind deg (dpsw r') = Some t) /\
  (forall d, In d next -> deg_has r' d = true).
Proof.
  induction next as [| d next IH]; intros r r' Hone H.
  - cbn in H. inversion H; subst. repeat split; auto; try (intros d0 []).
  - cbn [set_targets] in H.
    assert (Hstep : forall r1, exactly_one r1 -> npow r1 = npow r -> npsd r1 = npsd r -> npsw r1 = npsw r ->
              refc r1 = refc r -> refin r1 = refin r -> rpaths r1 = rpaths r ->
              (forall deg, resolve r1 deg = resolve r deg) ->
              (forall deg t, zfind deg (dpow r) = Some t -> zfind deg (dpow r1) = Some t) ->
              (forall deg t, zfind deg (dpsd r) = Some t -> zfind deg (dpsd r1) = Some t) ->
              (forall deg t, zfind deg (dpsw r) = Some t -> zfind deg (dpsw r1) = Some t) ->
              deg_has r1 d = true ->
              set_targets r1 next = Ok r' ->
              exactly_one r' /\ npow r' = npow r /\ npsd r' = npsd r /\ npsw r' = npsw r /\
              refc r' = refc r /\ refin r' = refin r /\ rpaths r' = rpaths r /\
              (forall deg, resolve r' deg = resolve r deg) /\
              (forall deg t, zfind deg (dpow r) = Some t -> zfind deg (dpow r') = Some t) /\
              (forall deg t, zfind deg (dpsd r) = Some t -> zfind deg (dpsd r') = Some t) /\
              (forall deg t, zfind deg (dpsw r) = Some t -> zfind deg (dpsw r') = Some t) /\
              (forall d0, In d0 (d :: next) -> deg_has r' d0 = true)).
    { intros r1 Hone1 Ea Eb Ec Ed Ee Ef Hres Hk1 Hk2 Hk3 Hhas Hset.
      destruct (IH r1 r' Hone1 Hset) as (Ho & Fa & Fb & Fc & Fd & Fe & Ff & Fres & Fk1 & Fk2 & Fk3 & Fall).
      repeat split; try congruence; auto.
      - intros d0 [E | Hin]; [| apply Fall; exact Hin]. subst d0.
        unfold deg_has, zhas in *.
        destruct (zfind d (dpow r1)) as [x |] eqn:E1.
        { rewrite (Fk1 d x E1). reflexivity. }
        destruct (zfind d (dpsd r1)) as [x |] eqn:E2.
        { rewrite (Fk2 d x E2). apply orb_true_iff. left. apply orb_true_iff. right. reflexivity. }
        destruct (zfind d (dpsw r1)) as [x |] eqn:E3.
        { rewrite (Fk3 d x E3). apply orb_true_iff. right. reflexivity. }
        cbn in Hhas. discriminate. }
    destruct (deg_has r d) eqn:Hd.
    + apply (Hstep r); auto.
    + destruct (deg_has_false r d Hd) as (N1 & N2 & N3).
      destruct (node_policy_exactly_one r Hone) as [(t & P1 & P2 & P3 & Pn) | [(t & P1 & P2 & P3 & Pn) | (t & P1 & P2 & P3 & Pn)]].
      * (* power *)
        rewrite P1 in H. destruct (truthy_pow (Some t)) eqn:Ht.
        2:{ rewrite P2, P3 in H. cbn in H. discriminate. }
        cbn [getq] in H.
        apply (Hstep (with_deg r (dpow r ++ [(d, t)]) (dpsd r) (dpsw r))); auto.
        -- intros deg. destruct (Z.eq_dec deg d) as [E | Hne].
           ++ subst deg. unfold resolve at 1. cbn [with_deg dpow dpsd dpsw].
              rewrite (zfind_app_new (dpow r) d t N1).
              unfold resolve. rewrite N1, N2, N3. symmetry. exact Pn.
           ++ apply resolve_other; cbn [with_deg dpow dpsd dpsw]; auto. apply zfind_app_other. exact Hne.
        -- intros deg x Hx. cbn [with_deg dpow]. apply zfind_app_keep. exact Hx.
        -- unfold deg_has, zhas. cbn [with_deg dpow]. rewrite (zfind_app_new (dpow r) d t N1). reflexivity.
      * (* PSD *)
        rewrite P1, P2 in H. cbn [truthy_pow truthy_lin getq] in H.
        apply (Hstep (with_deg r (dpow r) (dpsd r ++ [(d, t)]) (dpsw r))); auto.
        -- intros deg. destruct (Z.eq_dec deg d) as [E | Hne].
           ++ subst deg. unfold resolve at 1. cbn [with_deg dpow dpsd dpsw].
              rewrite N1, (zfind_app_new (dpsd r) d t N2).
              unfold resolve. rewrite N1, N2, N3. symmetry. exact Pn.
           ++ apply resolve_other; cbn [with_deg dpow dpsd dpsw]; auto. apply zfind_app_other. exact Hne.
        -- intros deg x Hx. cbn [with_deg dpsd]. apply zfind_app_keep. exact Hx.
        -- unfold deg_has, zhas. cbn [with_deg dpow dpsd]. rewrite (zfind_app_new (dpsd r) d t N2).
           destruct (zfind d (dpow r)); reflexivity.
      * (* PSW *)
        rewrite P1, P2, P3 in H. cbn [truthy_pow truthy_lin getq] in H.
        apply (Hstep (with_deg r (dpow r) (dpsd r) (dpsw r ++ [(d, t)]))); auto.
        -- intros deg. destruct (Z.eq_dec deg d) as [E | Hne].
           ++ subst deg. unfold resolve at 1. cbn [with_deg dpow dpsd dpsw].
              rewrite N1, N2, (zfind_app_new (dpsw r) d t N3).
              unfold resolve. rewrite N1, N2, N3. symmetry. exact Pn.
           ++ apply resolve_other; cbn [with_deg dpow dpsd dpsw]; auto. apply zfind_app_other. exact Hne.
        -- intros deg x Hx. cbn [with_deg dpsw]. apply zfind_app_keep. exact Hx.
        -- unfold deg_has, zhas. cbn [with_deg dpow dpsd dpsw]. rewrite (zfind_app_new (dpsw r) d t N3).
           destruct (zfind d (dpow r)), (zfind d (dpsd r)); reflexivity.
Qed.

(* the design step succeeds for every single-policy ROADM *)
Lemma set_targets_ok : forall next r, exactly_one r -> exists r', set_targets r next = Ok r'.
Proof.
  induction next as [| d next IH]; intros r Hone.
  - exists r. reflexivity.
  - cbn [set_targets]. destruct (deg_has r d); [apply IH; assumption |].
    destruct (node_policy_exactly_one r Hone) as [(t & P1 & P2 & P3 & _) | [(t & P1 & P2 & P3 & _) | (t & P1 & P2 & P3 & _)]].
    + rewrite P1. cbn [truthy_pow]. apply IH. unfold exactly_one in *. cbn [with_deg npow npsd npsw]. exact Hone.
    + rewrite P1, P2. cbn [truthy_pow truthy_lin]. apply IH. unfold exactly_one in *. cbn [with_deg npow npsd npsw]. exact Hone.
    + rewrite P1, P2, P3. cbn [truthy_pow truthy_lin]. apply IH. unfold exactly_one in *. cbn [with_deg npow npsd npsw]. exact Hone.
Qed.

(* a ROADM without node-level policy is rejected by the design step as soon as one egress OMS has no own target *)
Lemma design_rejects_none : forall next r d,
  npow r = None -> npsd r = None -> npsw r = None -> In d next -> deg_has r d = false ->
  exists e, set_targets r next = Err e.
Proof.
  induction next as [| x next IH]; intros r d A B C Hin Hd; [destruct Hin |].
  cbn [set_targets]. destruct (deg_has r x) eqn:Hx.
  - destruct Hin as [E | Hin]; [subst; congruence |]. eapply IH; eassumption.
  - rewrite A, B, C. cbn. eauto.
Qed.

(* ------------------------------------------------------------------ single policy *)
Lemma one_policy_accepted : forall eq el t,
  no_null eq -> no_null el -> load_policy eq el = Ok t ->
  count_some t = 1%Z /\ count_present eq = 1%Z /\ (count_present el <= 1)%Z /\
  t = (if (count_present el =? 1)%Z then vals el else vals eq).
Proof.
  intros [e1 e2 e3] [l1 l2 l3] t (N1 & N2 & N3) (M1 & M2 & M3) H. cbn in N1, N2, N3, M1, M2, M3.
  unfold load_policy, eqpt_check, merge_policy, roadm_params, count_present, count_valued, vals in *.
  destruct e1, e2, e3; try congruence; destruct l1, l2, l3; try congruence;
    cbn in H; try discriminate; inversion H; subst; cbn; repeat split; lia.
Qed.

Lemma one_policy_many_rejected : forall eq el,
  (1 < count_present el \/ 1 < count_present eq)%Z -> exists e, load_policy eq el = Err e.
Proof.
  intros [e1 e2 e3] [l1 l2 l3] H.
  unfold load_policy, eqpt_check, merge_policy, roadm_params, count_present, count_valued in *.
  destruct e1, e2, e3, l1, l2, l3; cbn in *; try lia; eauto.
Qed.

Lemma one_policy_none_rejected : forall eq el, count_present eq = 0%Z -> exists e, load_policy eq el = Err e.
Proof.
  intros [e1 e2 e3] el H. unfold load_policy, eqpt_check, count_present in *.
  destruct e1, e2, e3; cbn in *; try lia; eauto.
Qed.

Lemma roadm_params_policy : forall k,
  ((1 < count_valued k)%Z -> exists e, roadm_params k = Err e) /\
  (forall t, roadm_params k = Ok t -> t = vals k /\ (count_some t <= 1)%Z).
Proof.
  intros [k1 k2 k3]. unfold roadm_params, count_valued, vals. split.
  - intros H. destruct k1, k2, k3; cbn in *; try lia; eauto.
  - intros t H. destruct k1, k2, k3; cbn in *; try discriminate; inversion H; subst; cbn; split; auto; lia.
Qed.

(* with an explicit null the loader accepts a ROADM on which no policy is in force *)
Lemma one_policy_null_refuted :
  exists eq el t, load_policy eq el = Ok t /\ count_some t = 0%Z.
Proof.
  exists (mkK (Val (-20)) Absent Absent), (mkK Null Absent Absent), (None, None, None).
  split; vm_compute; reflexivity.
Qed.

(* ------------------------------------------------------------------ design step: reference input powers *)
Lemma input_powers_spec : forall pref b w feeds k,
  zfind k (input_powers pref b w feeds) =
  match zfind k feeds with Some f => Some (feed_power pref b w f) | None => None end.
Proof.
  intros pref b w feeds k. induction feeds as [| [k' f] t IH]; cbn; [reflexivity |].
  destruct (k' =? k)%Z; [reflexivity | exact IH].
Qed.

Lemma qmax_list_upper : forall l m x, qmax_list l = Some m -> In x l -> x <= m.
Proof.
  intros [| h t] m x H Hin; cbn in H; [discriminate |]. inversion H; subst. apply qmaxl_upper. exact Hin.
Qed.

Lemma qmax_list_in_opt : forall l x, In x l -> exists m, qmax_list l = Some m /\ x <= m.
Proof.
  intros [| h t] x Hin; [destruct Hin |]. exists (qmaxl h t). split; [reflexivity |]. apply qmaxl_upper. exact Hin.
Qed.

Lemma zfind_in_snd : forall (l : list (Z * Q)) k v, zfind k l = Some v -> In (k, v) l.
Proof.
  induction l as [| [k' v'] t IH]; intros k v H; cbn in H; [discriminate |].
  destruct (k' =? k)%Z eqn:E.
  - inversion H; subst. apply Z.eqb_eq in E. subst. left. reflexivity.
  - right. apply IH. exact H.
Qed.

(* every reference target the ROADM can resolve is at most target_to_be_supported *)
Lemma supported_bounds_targets : forall r b w m,
  supported r b w = Ok m -> refc r = Some (b, w) ->
  forall deg rt, ref_target r deg = Ok (Some rt) -> rt <= m.
Proof.
  intros r b w m Hs Hrc deg rt Hrt. unfold supported in Hs.
  set (t1 := opt_list (qmax_list (map snd (dpow r)))) in *.
  set (t2 := opt_list (qmax_list (map (fun kv => snd kv + b) (dpsd r)))) in *.
  set (t3 := opt_list (qmax_list (map (fun kv => snd kv + w) (dpsw r)))) in *.
  set (t4 := opt_list (npow r)) in *.
  set (t5 := opt_list (match npsd r with Some d => Some (d + b) | None => None end)) in *.
  set (t6 := opt_list (match npsw r with Some d => Some (d + w) | None => None end)) in *.
  destruct (qmax_list (t1 ++ t2 ++ t3 ++ t4 ++ t5 ++ t6)) as [m' |] eqn:Hm; [| discriminate].
  inversion Hs; subst m'.
  assert (Hup : forall x, In x (t1 ++ t2 ++ t3 ++ t4 ++ t5 ++ t6) -> x <= m)
    by (intros x Hx; eapply qmax_list_upper; eassumption).
  assert (Hvia : forall (l : list Q) x, In x l -> forall pre post,
            (forall y, In y (pre ++ opt_list (qmax_list l) ++ post) -> y <= m) -> x <= m).
  { intros l x Hx pre post Hall. destruct (qmax_list_in_opt l x Hx) as (mm & Emm & Hle).
    eapply Qle_trans; [exact Hle |]. apply Hall. apply in_or_app. right. apply in_or_app. left.
    rewrite Emm. left. reflexivity. }
  unfold ref_target, resolve in Hrt. rewrite Hrc in Hrt.
  destruct (zfind deg (dpow r)) as [t |] eqn:E1.
  { inversion Hrt; subst rt. apply (Hvia (map snd (dpow r)) t) with (pre := []) (post := t2 ++ t3 ++ t4 ++ t5 ++ t6).
    - apply zfind_in_snd in E1. apply (in_map snd) in E1. exact E1.
    - exact Hup. }
  destruct (zfind deg (dpsd r)) as [d |] eqn:E2.
  { inversion Hrt; subst rt. cbn [target_dbm].
    apply (Hvia (map (fun kv => snd kv + b) (dpsd r)) (d + b)) with (pre := t1) (post := t3 ++ t4 ++ t5 ++ t6).
    - apply zfind_in_snd in E2. apply (in_map (fun kv : Z * Q => snd kv + b)) in E2. exact E2.
    - exact Hup. }
  destruct (zfind deg (dpsw r)) as [d |] eqn:E3.
  { inversion Hrt; subst rt. cbn [target_dbm].
    apply (Hvia (map (fun kv => snd kv + w) (dpsw r)) (d + w)) with (pre := t1 ++ t2) (post := t4 ++ t5 ++ t6).
    - apply zfind_in_snd in E3. apply (in_map (fun kv : Z * Q => snd kv + w)) in E3. exact E3.
    - intros y Hy. apply Hup. rewrite <- app_assoc in Hy. exact Hy. }
  unfold node_policy in Hrt.
  destruct (npow r) as [t |] eqn:N1.
  { inversion Hrt; subst rt. apply Hup. do 3 (apply in_or_app; right). apply in_or_app. left.
    subst t4. try rewrite N1. left. reflexivity. }
  destruct (npsd r) as [d |] eqn:N2.
  { inversion Hrt; subst rt. cbn [target_dbm]. apply Hup. do 4 (apply in_or_app; right). apply in_or_app. left.
    subst t5. try rewrite N2. left. reflexivity. }
  destruct (npsw r) as [d |] eqn:N3.
  { inversion Hrt; subst rt. cbn [target_dbm]. apply Hup. do 5 (apply in_or_app; right).
    subst t6. try rewrite N3. left. reflexivity. }
  discriminate.
Qed.

(* no "target can not be met" warning for an ingress degree (its reference input power, less the largest path loss,
   still reaches target_to_be_supported)  =>  the reference channel leaves on the egress degree's target *)
Lemma ref_on_target_when_supported : forall r deg from l o b w m rin mls mx,
  propagate r deg from l = Ok o -> refc r = Some (b, w) -> supported r b w = Ok m ->
  zfind from (refin r) = Some rin -> path_maxloss r from deg l = Ok (mls, mx) -> m + mx <= rin ->
  exists rtg, ref_target r deg = Ok (Some rtg) /\ o_ref_out o == rtg /\ o_ref_loss o == rin - rtg.
Proof.
  intros r deg from l o b w m rin mls mx H Hrc Hs Hin Hm Hle.
  destruct (roadm_reports _ _ _ _ _ H) as (mls' & mx' & rin' & rtg & Hm' & Hin' & Hrt & _ & Hro & Hrl & _).
  rewrite Hm in Hm'. inversion Hm'; subst mls' mx'. rewrite Hin in Hin'. inversion Hin'; subst rin'.
  pose proof (supported_bounds_targets r b w m Hs Hrc deg rtg Hrt) as Hb.
  exists rtg. split; [exact Hrt |].
  assert (E : o_ref_out o == rtg) by (rewrite Hro; apply Q.min_r; lra).
  split; [exact E |]. rewrite Hrl, E. reflexivity.
Qed.

(* ------------------------------------------------------------------ design step: internal paths *)
Lemma mapM_ok_in : forall (A B : Type) (f : A -> res B) l ys x,
  mapM f l = Ok ys -> In x l -> exists y, f x = Ok y /\ In y ys.
Proof.
  intros A B f. induction l as [| a t IH]; intros ys x H Hin; [destruct Hin |].
  cbn in H. destruct (f a) as [y |] eqn:Ey; cbn [bind] in H; [| discriminate].
  destruct (mapM f t) as [ys' |] eqn:Et; cbn [bind] in H; [| discriminate].
  inversion H; subst. destruct Hin as [E | Hin].
  - subst. exists y. split; [exact Ey | left; reflexivity].
  - destruct (IH ys' x eq_refl Hin) as (y' & Ey' & Hy'). exists y'. split; [exact Ey' | right; exact Hy'].
Qed.

Lemma typed_call_shape : forall profs d want from to c,
  typed_call profs d want from to = Ok c -> c = mkCall from to want (pdi_find d from to).
Proof.
  intros profs d want from to c H. unfold typed_call in H.
  destruct (prof_type profs (pdi_find d from to)) as [t |]; [destruct (ptype_eqb t want); [| discriminate] |];
    inversion H; reflexivity.
Qed.

(* every pair (ingress, egress) gets its internal path: express between line degrees, drop towards and add from a
   transceiver degree, each with the impairment id the user chose for that pair (if any) *)
Lemma internal_paths_covers : forall profs pdis prev next drops adds calls,
  internal_paths profs pdis prev next drops adds = Ok calls ->
  let d := pdi_dict pdis in
  (forall from to, In from prev -> In to next -> In (mkCall from to Express (pdi_find d from to)) calls) /\
  (forall from dr, In from prev -> In dr drops -> In (mkCall from dr Drop (pdi_find d from dr)) calls) /\
  (forall ad to, In ad adds -> In to next -> In (mkCall ad to Add (pdi_find d ad to)) calls).
Proof.
  intros profs pdis prev next drops adds calls H d. unfold internal_paths in H. fold d in H.
  match type of H with bind ?M _ = _ => destruct M as [a |] eqn:Ha end; cbn [bind] in H; [| discriminate].
  match type of H with bind ?M _ = _ => destruct M as [b |] eqn:Hb end; cbn [bind] in H; [| discriminate].
  match type of H with (if ?c then _ else _) = _ => destruct c end; [| discriminate].
  inversion H; subst calls. repeat split.
  - intros from to Hf Ht.
    destruct (mapM_ok_in _ _ _ _ _ from Ha Hf) as (y & Ey & Hy).
    destruct (mapM (fun dr => typed_call profs d Drop from dr) drops) as [ds |]; cbn [bind] in Ey; [| discriminate].
    inversion Ey; subst y. apply in_or_app. left. apply in_concat. eexists. split; [exact Hy |].
    apply in_or_app. left. apply in_map_iff. exists to. split; [reflexivity | exact Ht].
  - intros from dr Hf Hd.
    destruct (mapM_ok_in _ _ _ _ _ from Ha Hf) as (y & Ey & Hy).
    destruct (mapM (fun dr => typed_call profs d Drop from dr) drops) as [ds |] eqn:Eds; cbn [bind] in Ey; [| discriminate].
    inversion Ey; subst y.
    destruct (mapM_ok_in _ _ _ _ _ dr Eds Hd) as (c & Ec & Hc). apply typed_call_shape in Ec. subst c.
    apply in_or_app. left. apply in_concat. eexists. split; [exact Hy |]. apply in_or_app. right. exact Hc.
  - intros ad to Had Ht.
    destruct (mapM_ok_in _ _ _ _ _ to Hb Ht) as (y & Ey & Hy).
    destruct (mapM_ok_in _ _ _ _ _ ad Ey Had) as (c & Ec & Hc). apply typed_call_shape in Ec. subst c.
    apply in_or_app. right. apply in_concat. eexists. split; [exact Hy | exact Hc].
Qed.
