(* Proofs about Model/Channels.v (property C07). *)
From Coq Require Import QArith Lqa Lia Permutation Sorted.
From Verif Require Import Prelude Model.Channels.
Open Scope Q_scope.

(* ================= boolean comparisons ================= *)
Lemma qle_iff a b : qle a b = true <-> a <= b.
Proof. unfold qle. apply Qle_bool_iff. Qed.
Lemma qlt_iff a b : qlt a b = true <-> a < b.
Proof.
  unfold qlt. rewrite negb_true_iff. split; intro H.
  - apply Qnot_le_lt. intro Hle. apply Qle_bool_iff in Hle. congruence.
  - destruct (Qle_bool b a) eqn:E; auto. apply Qle_bool_iff in E. exfalso. apply (Qlt_not_le _ _ H E).
Qed.
Lemma qle_false a b : qle a b = false <-> b < a.
Proof.
  split; intro H.
  - apply Qnot_le_lt. intro Hle. apply qle_iff in Hle. congruence.
  - destruct (qle a b) eqn:E; auto. apply qle_iff in E. exfalso. apply (Qlt_not_le _ _ H E).
Qed.
Lemma qlt_false a b : qlt a b = false <-> b <= a.
Proof.
  split; intro H.
  - apply Qnot_lt_le. intro Hlt. apply qlt_iff in Hlt. congruence.
  - destruct (qlt a b) eqn:E; auto. apply qlt_iff in E. exfalso. apply (Qlt_not_le _ _ E H).
Qed.

Lemma qmax_cases a b : (qmax a b = a /\ b <= a) \/ (qmax a b = b /\ a < b).
Proof. unfold qmax. destruct (qlt a b) eqn:E; [right|left]; split; auto; [apply qlt_iff|apply qlt_false]; auto. Qed.
Lemma qmin_cases a b : (qmin a b = a /\ a <= b) \/ (qmin a b = b /\ b < a).
Proof. unfold qmin. destruct (qlt b a) eqn:E; [right|left]; split; auto; [apply qlt_iff|apply qlt_false]; auto. Qed.

(* ================= pairwise predicates ================= *)
Fixpoint pw {A} (R : A -> A -> Prop) (l : list A) : Prop :=
  match l with
  | [] => True
  | a :: t => Forall (R a) t /\ pw R t
  end.

Lemma pw_app {A} (R : A -> A -> Prop) l1 l2 :
  pw R (l1 ++ l2) <-> pw R l1 /\ pw R l2 /\ (forall a b, In a l1 -> In b l2 -> R a b).
Proof.
  induction l1 as [|x l1 IH]; cbn [app pw].
  - split; [intros H; repeat split; auto; intros a b []|tauto].
  - rewrite Forall_app, IH. split.
    + intros [[Hf1 Hf2] [Hp1 [Hp2 Hc]]]. repeat split; auto.
      intros a b [->|Ha] Hb; [rewrite Forall_forall in Hf2; auto|auto].
    + intros [[Hf1 Hp1] [Hp2 Hc]]. repeat split; auto.
      * apply Forall_forall. intros b Hb. apply Hc; cbn; auto.
      * intros a b Ha Hb. apply Hc; cbn; auto.
Qed.

Lemma pw_perm {A} (R : A -> A -> Prop) (Hsym : forall a b, R a b -> R b a) l l' :
  Permutation l l' -> pw R l -> pw R l'.
Proof.
  induction 1 as [|x l l' HP IH|x y l|l l' l'' HP1 IH1 HP2 IH2]; cbn [pw]; auto.
  - intros [Hf Hp]. split; auto. eapply Permutation_Forall; eauto.
  - intros [Hf [Hf' Hp]]. inversion Hf as [|? ? Hyx Hf2]; subst.
    repeat split; auto.
Qed.

Lemma pw_sub {A} (R : A -> A -> Prop) p l : pw R l -> pw R (filter p l).
Proof.
  induction l as [|a t IH]; cbn [filter pw]; auto.
  intros [Hf Hp]. destruct (p a); cbn [pw]; auto. split; auto.
  apply Forall_forall. intros b Hb. apply filter_In in Hb. rewrite Forall_forall in Hf. apply Hf; tauto.
Qed.

Lemma pw_StronglySorted {A} (R : A -> A -> Prop) l : pw R l <-> StronglySorted R l.
Proof.
  induction l as [|a t IH]; cbn [pw].
  - split; auto. constructor.
  - split.
    + intros [Hf Hp]. constructor; tauto.
    + intros H. inversion H; subst. tauto.
Qed.

(* two lists sorted by an asymmetric relation with the same elements are equal *)
Lemma pw_perm_unique {A} (R : A -> A -> Prop) (Hasym : forall a b, R a b -> R b a -> False) :
  forall l l', pw R l -> pw R l' -> Permutation l l' -> l = l'.
Proof.
  induction l as [|a t IH]; intros l' Hs Hs' HP.
  - apply Permutation_nil in HP. auto.
  - destruct l' as [|b t']; [apply Permutation_sym, Permutation_nil in HP; discriminate|].
    cbn [pw] in Hs, Hs'. destruct Hs as [Hf Hp], Hs' as [Hf' Hp'].
    assert (a = b) as ->.
    { assert (Ha : In a (b :: t')) by (eapply Permutation_in; [exact HP|cbn; auto]).
      assert (Hb : In b (a :: t)) by (eapply Permutation_in; [apply Permutation_sym; exact HP|cbn; auto]).
      destruct Ha as [Ha|Ha]; auto. destruct Hb as [Hb|Hb]; auto.
      rewrite Forall_forall in Hf, Hf'. exfalso. apply (Hasym a b); auto. }
    f_equal. apply IH; auto. eapply Permutation_cons_inv; eauto.
Qed.

(* ================= the stable sort ================= *)
Lemma insert_by_perm {A} (key : A -> Q) x l : Permutation (insert_by key x l) (x :: l).
Proof.
  induction l as [|y t IH]; cbn [insert_by]; auto.
  destruct (qle (key x) (key y)); auto.
  eapply perm_trans; [apply perm_skip, IH|apply perm_swap].
Qed.
Lemma sort_by_perm {A} (key : A -> Q) l : Permutation (sort_by key l) l.
Proof.
  induction l as [|x t IH]; cbn [sort_by fold_right]; auto.
  eapply perm_trans; [apply insert_by_perm|]. apply perm_skip, IH.
Qed.

Definition le_key {A} (key : A -> Q) (a b : A) : Prop := key a <= key b.

Lemma insert_by_sorted {A} (key : A -> Q) x l : pw (le_key key) l -> pw (le_key key) (insert_by key x l).
Proof.
  induction l as [|y t IH]; cbn [insert_by pw]; auto.
  intros [Hf Hp]. destruct (qle (key x) (key y)) eqn:E.
  - apply qle_iff in E. cbn [pw]. repeat split; auto. constructor; auto.
    eapply Forall_impl; [|exact Hf]. intros b Hb. unfold le_key in *. lra.
  - apply qle_false in E. cbn [pw]. split; auto.
    eapply Permutation_Forall; [apply Permutation_sym, insert_by_perm|].
    constructor; auto. unfold le_key. lra.
Qed.
Lemma sort_by_sorted {A} (key : A -> Q) l : pw (le_key key) (sort_by key l).
Proof.
  induction l as [|x t IH]; cbn [sort_by fold_right pw]; auto.
  apply insert_by_sorted, IH.
Qed.
Lemma sort_by_id {A} (key : A -> Q) l : pw (le_key key) l -> sort_by key l = l.
Proof.
  induction l as [|x t IH]; cbn [sort_by fold_right pw]; auto.
  intros [Hf Hp]. fold (sort_by key t). rewrite IH by auto.
  destruct t as [|y t']; cbn [insert_by]; auto.
  inversion Hf as [|? ? Hxy _]; subst. unfold le_key in Hxy. apply qle_iff in Hxy. rewrite Hxy. auto.
Qed.

(* ================= overlap ================= *)
Definition pos_slots (l : list chan) : Prop := forall c, In c l -> 0 < cslot c.
(* the open slots ]f - w/2, f + w/2[ of the two channels intersect *)
Definition chan_overlap (a b : chan) : Prop := clo a < chi b /\ clo b < chi a.
(* two entries (at different positions) of the list overlap *)
Definition overlapping (l : list chan) : Prop :=
  exists l1 a l2 b l3, l = l1 ++ a :: l2 ++ b :: l3 /\ chan_overlap a b.
Definition sep (a b : chan) : Prop := chi a <= clo b.      (* a's slot ends before b's starts *)
Definition apart (a b : chan) : Prop := ~ chan_overlap a b.

Lemma chan_overlap_sym a b : chan_overlap a b -> chan_overlap b a.
Proof. unfold chan_overlap. tauto. Qed.
Lemma apart_sym a b : apart a b -> apart b a.
Proof. unfold apart. intros H H'. apply H, chan_overlap_sym, H'. Qed.

Lemma lo_lt_hi c : 0 < cslot c -> clo c < chi c.
Proof. unfold clo, chi, half. intros. lra. Qed.
Lemma lo_lt_f c : 0 < cslot c -> clo c < cf c /\ cf c < chi c.
Proof. unfold clo, chi, half. intros. lra. Qed.

Lemma overlapping_iff l : overlapping l <-> ~ pw apart l.
Proof.
  split.
  - intros (l1 & a & l2 & b & l3 & -> & Hov) Hpw.
    apply pw_app in Hpw. destruct Hpw as (_ & Hp & _). cbn [pw] in Hp. destruct Hp as [Hf _].
    rewrite Forall_forall in Hf. apply (Hf b); auto. apply in_or_app. right. cbn. auto.
  - induction l as [|a t IH]; cbn [pw]; intros Hn.
    + exfalso. auto.
    + assert (Hdec : forall a b, chan_overlap a b \/ apart a b).
      { intros x y. unfold apart, chan_overlap.
        destruct (Qlt_le_dec (clo x) (chi y)); destruct (Qlt_le_dec (clo y) (chi x)); try tauto;
          right; intros [? ?]; lra. }
      assert (Hex : (exists b, In b t /\ chan_overlap a b) \/ Forall (apart a) t).
      { clear - Hdec. induction t as [|b t IH]; [right; constructor|].
        destruct (Hdec a b) as [H|H]; [left; exists b; cbn; auto|].
        destruct IH as [(c & Hc & Hov)|IH]; [left; exists c; cbn; auto|right; constructor; auto]. }
      destruct Hex as [(b & Hb & Hov)|Hf].
      * apply in_split in Hb. destruct Hb as (l2 & l3 & ->).
        exists [], a, l2, b, l3. split; auto.
      * destruct IH as (l1 & x & l2 & y & l3 & -> & Hov); [tauto|].
        exists (a :: l1), x, l2, y, l3. split; auto.
Qed.

Lemma pw_apart_dec l : pw apart l \/ ~ pw apart l.
Proof.
  assert (Hdec : forall a b, chan_overlap a b \/ apart a b).
  { intros x y. unfold apart, chan_overlap.
    destruct (Qlt_le_dec (clo x) (chi y)); destruct (Qlt_le_dec (clo y) (chi x)); try tauto;
      right; intros [? ?]; lra. }
  induction l as [|a t IH]; cbn [pw]; [left; auto|].
  assert (Hex : Forall (apart a) t \/ ~ Forall (apart a) t).
  { clear - Hdec. induction t as [|b t IH]; [left; constructor|].
    destruct (Hdec a b) as [H|H].
    - right. intros HF. inversion HF; subst. unfold apart in *. tauto.
    - destruct IH as [IH|IH]; [left; constructor; auto|right; intros HF; inversion HF; auto]. }
  tauto.
Qed.

Lemma overlapping_perm l l' : Permutation l l' -> overlapping l -> overlapping l'.
Proof.
  intros HP. rewrite !overlapping_iff. intros Hn Hp. apply Hn.
  eapply pw_perm; [exact apart_sym|apply Permutation_sym; exact HP|exact Hp].
Qed.

(* on a list sorted by frequency with positive slot widths: adjacent check <-> pairwise check *)
Lemma adj_over_iff a b : 0 < cslot a -> 0 < cslot b -> cf a <= cf b ->
  (adj_over a b = true <-> chan_overlap a b).
Proof.
  intros Ha Hb Hab. unfold adj_over. rewrite qlt_iff. unfold chan_overlap.
  pose proof (lo_lt_f a Ha). pose proof (lo_lt_f b Hb). split; [intros; split; lra|tauto].
Qed.

Lemma adj_overlap_false_iff s :
  pw (le_key cf) s -> pos_slots s -> (adj_overlap s = false <-> pw sep s).
Proof.
  induction s as [|a t IH]; intros Hs Hpos.
  - cbn. tauto.
  - cbn [pw] in Hs. destruct Hs as [Hf Hs].
    assert (Hpt : pos_slots t) by (intros c Hc; apply Hpos; cbn; auto).
    specialize (IH Hs Hpt).
    destruct t as [|b t'].
    + cbn. split; auto.
    + cbn [adj_overlap]. rewrite orb_false_iff, IH. cbn [pw].
      inversion Hf as [|? ? Hab Hf']; subst. unfold le_key in Hab.
      assert (Ha : 0 < cslot a) by (apply Hpos; cbn; auto).
      assert (Hb : 0 < cslot b) by (apply Hpos; cbn; auto).
      split.
      * intros [Hov [Hfb Hpt']]. unfold adj_over in Hov. apply qlt_false in Hov.
        repeat split; auto. constructor; [exact Hov|].
        eapply Forall_impl; [|exact Hfb]. intros c Hc. unfold sep in *.
        pose proof (lo_lt_hi b Hb). lra.
      * intros [Hfa [Hfb Hpt']]. repeat split; auto.
        inversion Hfa; subst. unfold adj_over. apply qlt_false. auto.
Qed.

Lemma sep_apart l : pw sep l -> pw apart l.
Proof.
  induction l as [|a t IH]; cbn [pw]; auto. intros [Hf Hp]. split; auto.
  eapply Forall_impl; [|exact Hf]. intros b Hb [_ H]. unfold sep in Hb. lra.
Qed.

Lemma sorted_apart_sep s : pw (le_key cf) s -> pos_slots s -> pw apart s -> pw sep s.
Proof.
  induction s as [|a t IH]; cbn [pw]; auto. intros [Hf Hs] Hpos [Ha Hp]. split.
  - apply Forall_forall. intros b Hb. rewrite Forall_forall in Hf, Ha.
    specialize (Hf b Hb). specialize (Ha b Hb). unfold le_key in Hf. unfold apart, chan_overlap in Ha. unfold sep.
    assert (H1 : 0 < cslot a) by (apply Hpos; cbn; auto).
    assert (H2 : 0 < cslot b) by (apply Hpos; cbn; auto).
    pose proof (lo_lt_f a H1). pose proof (lo_lt_f b H2).
    destruct (Qlt_le_dec (clo b) (chi a)); auto. exfalso. apply Ha. split; lra.
  - apply IH; auto. intros c Hc. apply Hpos; cbn; auto.
Qed.

Lemma sep_asym l : pos_slots l -> forall a b, In a l -> In b l -> sep a b -> sep b a -> False.
Proof.
  intros Hpos a b Ha Hb H1 H2. unfold sep in *.
  pose proof (lo_lt_hi a (Hpos a Ha)). pose proof (lo_lt_hi b (Hpos b Hb)). lra.
Qed.

(* uniqueness restricted to elements of a list (asymmetry only holds for positive slots) *)
Lemma pw_perm_unique_in {A} (R : A -> A -> Prop) :
  forall l l', (forall a b, In a l -> In b l -> R a b -> R b a -> False) ->
  pw R l -> pw R l' -> Permutation l l' -> l = l'.
Proof.
  induction l as [|a t IH]; intros l' Hasym Hs Hs' HP.
  - apply Permutation_nil in HP. auto.
  - destruct l' as [|b t']; [apply Permutation_sym, Permutation_nil in HP; discriminate|].
    cbn [pw] in Hs, Hs'. destruct Hs as [Hf Hp], Hs' as [Hf' Hp'].
    assert (Hb : In b (a :: t)) by (eapply Permutation_in; [apply Permutation_sym; exact HP|cbn; auto]).
    assert (a = b) as ->.
    { assert (Ha : In a (b :: t')) by (eapply Permutation_in; [exact HP|cbn; auto]).
      destruct Ha as [Ha|Ha]; auto. destruct Hb as [Hb|Hb]; auto.
      rewrite Forall_forall in Hf, Hf'. exfalso. apply (Hasym a b); cbn; auto. }
    f_equal. apply IH; auto.
    + intros x y Hx Hy. apply Hasym; cbn; auto.
    + eapply Permutation_cons_inv; eauto.
Qed.

Lemma existsb_perm {A} (p : A -> bool) l l' : Permutation l l' -> existsb p l = existsb p l'.
Proof.
  intros HP. destruct (existsb p l) eqn:E; symmetry.
  - apply existsb_exists in E. destruct E as (x & Hx & Hp). apply existsb_exists. exists x. split; auto.
    eapply Permutation_in; eauto.
  - destruct (existsb p l') eqn:E'; auto. apply existsb_exists in E'. destruct E' as (x & Hx & Hp).
    assert (existsb p l = true); [|congruence].
    apply existsb_exists. exists x. split; auto. eapply Permutation_in; [apply Permutation_sym|]; eauto.
Qed.

Lemma pos_slots_perm l l' : Permutation l l' -> pos_slots l -> pos_slots l'.
Proof. intros HP H c Hc. apply H. eapply Permutation_in; [apply Permutation_sym|]; eauto. Qed.

(* ================= SpectralInformation.__init__ ================= *)
(* a well-formed spectral information: sorted with separated slots, positive slot widths, baud <= slot *)
Definition si_ok (s : si) : Prop :=
  pw sep s /\ pos_slots s /\ (forall c, In c s -> cbaud c <= cslot c).

Lemma existsb_exceeds_false l : existsb exceeds l = false <-> (forall c, In c l -> cbaud c <= cslot c).
Proof.
  split.
  - intros H c Hc. apply qlt_false. destruct (qlt (cslot c) (cbaud c)) eqn:E; auto.
    assert (existsb exceeds l = true); [|congruence]. apply existsb_exists. exists c. auto.
  - intros H. destruct (existsb exceeds l) eqn:E; auto. apply existsb_exists in E.
    destruct E as (c & Hc & He). unfold exceeds in He. apply qlt_iff in He. specialize (H c Hc). lra.
Qed.
Lemma existsb_exceeds_true l : existsb exceeds l = true <-> (exists c, In c l /\ cslot c < cbaud c).
Proof.
  rewrite existsb_exists. split; intros (c & Hc & H); exists c; split; auto; unfold exceeds in *; apply qlt_iff; auto.
Qed.

(* complete case analysis of the constructor *)
Lemma mk_si_cases l : pos_slots l ->
  (overlapping l /\ mk_si l = Err E_overlap) \/
  (~ overlapping l /\ (exists c, In c l /\ cslot c < cbaud c) /\ mk_si l = Err E_baud) \/
  (~ overlapping l /\ (forall c, In c l -> cbaud c <= cslot c) /\ mk_si l = Ok (sort_by cf l)).
Proof.
  intros Hpos. unfold mk_si, check_si.
  pose proof (sort_by_perm cf l) as HP. pose proof (sort_by_sorted cf l) as Hs.
  assert (Hps : pos_slots (sort_by cf l)) by (eapply pos_slots_perm; [apply Permutation_sym|]; eauto).
  pose proof (adj_overlap_false_iff _ Hs Hps) as Hadj.
  destruct (adj_overlap (sort_by cf l)) eqn:E.
  - left. split; auto. apply overlapping_iff. intros Hp.
    assert (Hsep : pw sep (sort_by cf l)).
    { apply sorted_apart_sep; auto. eapply pw_perm; [exact apart_sym|apply Permutation_sym; exact HP|auto]. }
    apply Hadj in Hsep. discriminate.
  - right. assert (Hno : ~ overlapping l).
    { rewrite overlapping_iff. intros Hn. apply Hn.
      eapply pw_perm; [exact apart_sym|exact HP|]. apply sep_apart. apply Hadj. auto. }
    destruct (existsb exceeds (sort_by cf l)) eqn:E2.
    + left. repeat split; auto. apply existsb_exceeds_true. rewrite <- E2. apply existsb_perm, Permutation_sym, HP.
    + right. repeat split; auto. apply existsb_exceeds_false. rewrite <- E2. apply existsb_perm, Permutation_sym, HP.
Qed.

(* mk_si_rejects: the constructor raises exactly when two channels overlap or one baud rate exceeds its slot *)
Lemma mk_si_rejects l : pos_slots l ->
  ((exists e, mk_si l = Err e) <-> overlapping l \/ exists c, In c l /\ cslot c < cbaud c).
Proof.
  intros Hpos. destruct (mk_si_cases l Hpos) as [[Ho E]|[[Hn [Hex E]]|[Hn [Hall E]]]]; rewrite E.
  - split; eauto.
  - split; eauto.
  - split; [intros [e He]; discriminate|]. intros [Ho|(c & Hc & Hlt)]; [tauto|]. specialize (Hall c Hc). lra.
Qed.
Lemma mk_si_overlap_iff l : pos_slots l -> (mk_si l = Err E_overlap <-> overlapping l).
Proof.
  intros Hpos. destruct (mk_si_cases l Hpos) as [[Ho E]|[[Hn [Hex E]]|[Hn [Hall E]]]]; rewrite E.
  - tauto.
  - split; [intros H; inversion H|tauto].
  - split; [discriminate|tauto].
Qed.
Lemma mk_si_baud_iff l : pos_slots l ->
  (mk_si l = Err E_baud <-> ~ overlapping l /\ exists c, In c l /\ cslot c < cbaud c).
Proof.
  intros Hpos. destruct (mk_si_cases l Hpos) as [[Ho E]|[[Hn [Hex E]]|[Hn [Hall E]]]]; rewrite E.
  - split; [intros H; inversion H|tauto].
  - tauto.
  - split; [discriminate|]. intros [_ (c & Hc & Hlt)]. specialize (Hall c Hc). lra.
Qed.

(* mk_si_sorted: an accepted spectrum is the same records, sorted, separated *)
Lemma mk_si_sorted l s : pos_slots l -> mk_si l = Ok s ->
  Permutation l s /\ si_ok s /\ pw (fun a b => cf a < cf b) s.
Proof.
  intros Hpos E. destruct (mk_si_cases l Hpos) as [[Ho E']|[[Hn [Hex E']]|[Hn [Hall E']]]];
    rewrite E' in E; try discriminate. inversion E; subst s.
  pose proof (sort_by_perm cf l) as HP.
  assert (Hps : pos_slots (sort_by cf l)) by (eapply pos_slots_perm; [apply Permutation_sym|]; eauto).
  assert (Hsep : pw sep (sort_by cf l)).
  { apply sorted_apart_sep; auto; [apply sort_by_sorted|].
    eapply pw_perm; [exact apart_sym|apply Permutation_sym; exact HP|].
    destruct (pw_apart_dec l) as [H|H]; auto. apply overlapping_iff in H. tauto. }
  split; [apply Permutation_sym; auto|]. split.
  - repeat split; auto. intros c Hc. apply Hall. eapply Permutation_in; eauto.
  - clear - Hsep Hps. induction (sort_by cf l) as [|a t IH]; cbn [pw] in *; auto.
    destruct Hsep as [Hf Hp]. split; [|apply IH; auto; intros c Hc; apply Hps; cbn; auto].
    apply Forall_forall. intros b Hb. rewrite Forall_forall in Hf. specialize (Hf b Hb). unfold sep in Hf.
    assert (H1 : 0 < cslot a) by (apply Hps; cbn; auto).
    assert (H2 : 0 < cslot b) by (apply Hps; cbn; auto).
    pose proof (lo_lt_f a H1). pose proof (lo_lt_f b H2). lra.
Qed.

Lemma sep_le_key s : pos_slots s -> pw sep s -> pw (le_key cf) s.
Proof.
  induction s as [|a t IH]; cbn [pw]; auto. intros Hpos [Hf Hp]. split.
  - apply Forall_forall. intros b Hb. rewrite Forall_forall in Hf. specialize (Hf b Hb). unfold sep in Hf.
    assert (H1 : 0 < cslot a) by (apply Hpos; cbn; auto).
    assert (H2 : 0 < cslot b) by (apply Hpos; cbn; auto).
    pose proof (lo_lt_f a H1). pose proof (lo_lt_f b H2). unfold le_key. lra.
  - apply IH; auto. intros c Hc. apply Hpos; cbn; auto.
Qed.

(* a well-formed spectrum is a fixed point of the constructor *)
Lemma mk_si_ok_id s : si_ok s -> mk_si s = Ok s.
Proof.
  intros (Hsep & Hpos & Hb). unfold mk_si, check_si.
  rewrite (sort_by_id cf s) by (apply sep_le_key; auto).
  assert (E : adj_overlap s = false) by (apply adj_overlap_false_iff; auto; apply sep_le_key; auto).
  rewrite E. apply existsb_exceeds_false in Hb. rewrite Hb. auto.
Qed.

(* mk_si_perm: the order in which the carriers are supplied is irrelevant (both accepted with the same
   arrays, or both rejected with the same error) *)
Lemma mk_si_perm l l' : pos_slots l -> Permutation l l' -> mk_si l = mk_si l'.
Proof.
  intros Hpos HP. assert (Hpos' : pos_slots l') by (eapply pos_slots_perm; eauto).
  destruct (mk_si_cases l Hpos) as [[Ho E]|[[Hn [Hex E]]|[Hn [Hall E]]]]; rewrite E; symmetry.
  - apply mk_si_overlap_iff; auto. apply (overlapping_perm _ _ HP Ho).
  - apply mk_si_baud_iff; auto. split.
    + intros Ho. apply Hn. apply (overlapping_perm _ _ (Permutation_sym HP) Ho).
    + destruct Hex as (c & Hc & Hlt). exists c. split; auto. apply (Permutation_in _ HP Hc).
  - destruct (mk_si_cases l' Hpos') as [[Ho' E']|[[Hn' [Hex' E']]|[Hn' [Hall' E']]]]; rewrite E'.
    + exfalso. apply Hn. apply (overlapping_perm _ _ (Permutation_sym HP) Ho').
    + exfalso. destruct Hex' as (c & Hc & Hlt).
      assert (Hc' : In c l) by (apply (Permutation_in _ (Permutation_sym HP) Hc)).
      specialize (Hall c Hc'). lra.
    + f_equal.
      destruct (mk_si_sorted l _ Hpos E) as (HP1 & (Hs1 & Hp1 & _) & _).
      destruct (mk_si_sorted l' _ Hpos' E') as (HP2 & (Hs2 & Hp2 & _) & _).
      symmetry. apply (pw_perm_unique_in sep).
      * intros a b Ha Hb. apply (sep_asym _ Hp1 a b Ha Hb).
      * exact Hs1.
      * exact Hs2.
      * apply (perm_trans (Permutation_sym HP1)). apply (perm_trans HP). exact HP2.
Qed.

(* equal frequencies: two carriers on the same frequency (positive slot widths) are always rejected *)
Lemma equal_freq_rejected l1 a l2 b l3 :
  pos_slots (l1 ++ a :: l2 ++ b :: l3) -> cf a == cf b -> mk_si (l1 ++ a :: l2 ++ b :: l3) = Err E_overlap.
Proof.
  intros Hpos Heq. apply mk_si_overlap_iff; auto. exists l1, a, l2, b, l3. split; auto.
  assert (Ha : 0 < cslot a) by (apply Hpos; apply in_or_app; right; cbn; auto).
  assert (Hb : 0 < cslot b) by (apply Hpos; apply in_or_app; right; right; apply in_or_app; right; cbn; auto).
  pose proof (lo_lt_f a Ha). pose proof (lo_lt_f b Hb). unfold chan_overlap. split; lra.
Qed.

(* ================= select / demux / mux ================= *)
Lemma si_ok_filter p s : si_ok s -> si_ok (filter p s).
Proof.
  intros (Hsep & Hpos & Hb). repeat split.
  - apply pw_sub; auto.
  - intros c Hc. apply filter_In in Hc. apply Hpos; tauto.
  - intros c Hc. apply filter_In in Hc. apply Hb; tauto.
Qed.

Lemma select_ok p s : si_ok s -> select p s = Ok (filter p s).
Proof. intros H. unfold select. apply mk_si_ok_id, si_ok_filter, H. Qed.

Definition opt_si (l : si) : option si := match l with [] => None | _ => Some l end.

Lemma demux_ok s b : si_ok s -> demux s b = Ok (opt_si (filter (in_band b) s)).
Proof.
  intros H. unfold demux. pose proof (si_ok_filter (in_band b) s H) as Hf.
  destruct (filter (in_band b) s) as [|c t] eqn:E; auto.
  rewrite (mk_si_ok_id _ Hf). auto.
Qed.

Definition part_of (s : si) (b : band) : list si :=
  match filter (in_band b) s with [] => [] | x => [x] end.
Definition parts_of (bs : list band) (s : si) : list si := flat_map (part_of s) bs.

Lemma demux_all_ok bs s : si_ok s -> demux_all bs s = Ok (parts_of bs s).
Proof.
  intros H. induction bs as [|b t IH]; cbn [demux_all parts_of flat_map]; auto.
  rewrite (demux_ok s b H). cbn [bind]. rewrite IH. cbn [bind]. unfold part_of.
  destruct (filter (in_band b) s); auto.
Qed.

Lemma concat_parts_of bs s : concat (parts_of bs s) = concat (map (fun b => filter (in_band b) s) bs).
Proof.
  induction bs as [|b t IH]; cbn [parts_of flat_map map concat]; auto.
  rewrite concat_app. fold (parts_of t s). rewrite IH. f_equal. unfold part_of.
  destruct (filter (in_band b) s); cbn; auto. rewrite app_nil_r. auto.
Qed.

Lemma pos_slots_app l1 l2 : pos_slots (l1 ++ l2) <-> pos_slots l1 /\ pos_slots l2.
Proof.
  unfold pos_slots. split.
  - intros H. split; intros c Hc; apply H, in_or_app; auto.
  - intros [H1 H2] c Hc. apply in_app_or in Hc. destruct Hc; auto.
Qed.

(* the general fact about mux: when the parts are well-formed and no two channels of the parts overlap,
   the result is the sorted union *)
Lemma list_eq_nil_dec {A} (l : list A) : {l = []} + {l <> []}.
Proof. destruct l; [left; auto|right; congruence]. Qed.

Lemma mux_cons s t : t <> [] -> mux (s :: t) = let* r := mux t in si_add s r.
Proof. destruct t; [congruence|auto]. Qed.

Lemma mux_sorted_union parts :
  parts <> [] -> Forall si_ok parts -> pos_slots (concat parts) -> ~ overlapping (concat parts) ->
  (forall c, In c (concat parts) -> cbaud c <= cslot c) ->
  mux parts = Ok (sort_by cf (concat parts)).
Proof.
  induction parts as [|s t IH]; [congruence|]. intros _ Hok Hpos Hno Hb.
  inversion Hok as [|? ? Hs Ht]; subst.
  destruct (list_eq_nil_dec t) as [->|Hne].
  - cbn [mux concat]. rewrite app_nil_r. f_equal. symmetry. apply sort_by_id.
    destruct Hs as (Hsep & Hp & _). apply sep_le_key; auto.
  - rewrite (mux_cons s t Hne).
    change (concat (s :: t)) with (s ++ concat t) in *.
    set (u := concat t) in *.
    apply pos_slots_app in Hpos. destruct Hpos as [Hp1 Hp2].
    assert (IH' : mux t = Ok (sort_by cf u)).
    { apply IH; auto.
      - intros (l1 & a & l2 & b & l3 & E & Hov). apply Hno.
        exists (s ++ l1), a, l2, b, l3. split; auto. rewrite E, app_assoc. auto.
      - intros c Hc. apply Hb, in_or_app. auto. }
    rewrite IH'. cbn [bind]. unfold si_add.
    assert (HP : Permutation (s ++ sort_by cf u) (s ++ u)).
    { apply Permutation_app_head, sort_by_perm. }
    assert (Hpp : pos_slots (s ++ sort_by cf u)).
    { apply pos_slots_app. split; auto. eapply pos_slots_perm; [apply Permutation_sym, sort_by_perm|]; auto. }
    rewrite (mk_si_perm _ _ Hpp HP).
    assert (Hpos : pos_slots (s ++ u)) by (apply pos_slots_app; auto).
    destruct (mk_si_cases _ Hpos) as [[Ho E]|[[Hn [Hex E]]|[Hn [Hall E]]]].
    + tauto.
    + destruct Hex as (c & Hc & Hlt). specialize (Hb c Hc). lra.
    + rewrite E. auto.
Qed.

(* bands *)
Definition bdisj (a b : band) : Prop := bmax a <= bmin b \/ bmax b <= bmin a.   (* interiors disjoint *)
Definition bands_disjoint (bs : list band) : Prop := pw bdisj bs.
Lemma bdisj_sym a b : bdisj a b -> bdisj b a.
Proof. unfold bdisj. tauto. Qed.

Lemma in_band_iff b c : in_band b c = true <-> bmin b <= clo c /\ chi c <= bmax b.
Proof. unfold in_band. rewrite andb_true_iff, !qle_iff. tauto. Qed.

Lemma in_band_disj a b c : 0 < cslot c -> bdisj a b -> in_band a c = true -> in_band b c = true -> False.
Proof.
  intros Hc Hd Ha Hb. apply in_band_iff in Ha, Hb. pose proof (lo_lt_hi c Hc). unfold bdisj in Hd. lra.
Qed.

Lemma in_some_iff bs c : in_some bs c = true <-> exists b, In b bs /\ in_band b c = true.
Proof. unfold in_some. apply existsb_exists. Qed.

Lemma filter_split_perm {A} (p q : A -> bool) (s : list A) :
  (forall c, In c s -> p c = true -> q c = true -> False) ->
  Permutation (filter p s ++ filter q s) (filter (fun c => p c || q c) s).
Proof.
  induction s as [|c t IH]; intros Hd; cbn [filter app]; auto.
  assert (IH' : Permutation (filter p t ++ filter q t) (filter (fun c => p c || q c) t)).
  { apply IH. intros x Hx. apply Hd; cbn; auto. }
  destruct (p c) eqn:Ep; destruct (q c) eqn:Eq; cbn [orb app].
  - exfalso. apply (Hd c); cbn; auto.
  - apply perm_skip, IH'.
  - eapply perm_trans; [apply Permutation_sym, Permutation_middle|]. apply perm_skip, IH'.
  - exact IH'.
Qed.

Lemma concat_filters_perm bs s : pos_slots s -> bands_disjoint bs ->
  Permutation (concat (map (fun b => filter (in_band b) s) bs)) (filter (in_some bs) s).
Proof.
  intros Hpos. induction bs as [|b t IH]; intros Hd.
  - cbn [map concat]. clear Hpos. induction s as [|c s IHs]; cbn; auto.
  - cbn [map concat]. cbn [bands_disjoint pw] in Hd. destruct Hd as [Hf Hp].
    eapply perm_trans; [apply Permutation_app_head, IH, Hp|].
    eapply perm_trans; [apply filter_split_perm|].
    + intros c Hc H1 H2. apply in_some_iff in H2. destruct H2 as (b' & Hb' & H2).
      rewrite Forall_forall in Hf. apply (in_band_disj b b' c); auto.
    + unfold in_some. cbn [existsb]. apply Permutation_refl.
Qed.

(* demux_mux_partition: with pairwise disjoint bands, demultiplexing on every band and multiplexing the
   non-empty parts yields exactly the channels lying in some band: a sub-sequence of the input (each
   kept channel exactly once, in frequency order, every attribute intact) *)
Lemma filter_bands_ok bs s : si_ok s -> bands_disjoint bs ->
  filter_bands bs s = match filter (in_some bs) s with
                      | [] => Err E_noband
                      | kept => Ok kept
                      end.
Proof.
  intros Hok Hd. unfold filter_bands. rewrite (demux_all_ok bs s Hok). cbn [bind].
  pose proof Hok as (Hsep & Hpos & Hb).
  pose proof (concat_filters_perm bs s Hpos Hd) as HP. rewrite <- concat_parts_of in HP.
  destruct (parts_of bs s) as [|p ps] eqn:E.
  - cbn [concat] in HP. apply Permutation_nil in HP. rewrite HP. auto.
  - assert (Hk : si_ok (filter (in_some bs) s)) by (apply si_ok_filter; auto).
    assert (Hne : filter (in_some bs) s <> []).
    { intros E0. rewrite E0 in HP. apply Permutation_sym, Permutation_nil in HP.
      assert (Hp0 : p = []) by (cbn [concat] in HP; apply app_eq_nil in HP; tauto).
      assert (Hin : In p (parts_of bs s)) by (rewrite E; cbn; auto).
      unfold parts_of in Hin. apply in_flat_map in Hin. destruct Hin as (b & _ & Hin). unfold part_of in Hin.
      destruct (filter (in_band b) s) eqn:Ef; cbn in Hin; [tauto|]. destruct Hin as [Hin|[]]. congruence. }
    rewrite <- E in *.
    assert (Hmux : mux (parts_of bs s) = Ok (sort_by cf (concat (parts_of bs s)))).
    { apply mux_sorted_union.
      - rewrite E. congruence.
      - apply Forall_forall. intros x Hx. unfold parts_of in Hx. apply in_flat_map in Hx.
        destruct Hx as (b & _ & Hx). unfold part_of in Hx.
        destruct (filter (in_band b) s) eqn:Ef; cbn in Hx; [tauto|]. destruct Hx as [<-|[]].
        rewrite <- Ef. apply si_ok_filter; auto.
      - eapply pos_slots_perm; [apply Permutation_sym; exact HP|]. apply Hk.
      - intros Ho. apply (overlapping_perm _ _ HP) in Ho. apply overlapping_iff in Ho. apply Ho.
        apply sep_apart, Hk.
      - intros c Hc. apply Hk. apply (Permutation_in _ HP Hc). }
    rewrite Hmux.
    assert (Heq : sort_by cf (concat (parts_of bs s)) = filter (in_some bs) s).
    { apply (pw_perm_unique_in sep).
      - intros a b Ha Hb'. apply (sep_asym (sort_by cf (concat (parts_of bs s)))); auto.
        eapply pos_slots_perm; [apply Permutation_sym, sort_by_perm|].
        eapply pos_slots_perm; [apply Permutation_sym; exact HP|]. apply Hk.
      - apply sorted_apart_sep.
        + apply sort_by_sorted.
        + eapply pos_slots_perm; [apply Permutation_sym, sort_by_perm|].
          eapply pos_slots_perm; [apply Permutation_sym; exact HP|]. apply Hk.
        + eapply pw_perm; [exact apart_sym|apply Permutation_sym, sort_by_perm|].
          eapply pw_perm; [exact apart_sym|apply Permutation_sym; exact HP|]. apply sep_apart, Hk.
      - apply Hk.
      - apply (perm_trans (sort_by_perm cf _)). exact HP. }
    rewrite Heq. destruct (filter (in_some bs) s); [congruence|]. destruct (parts_of bs s); [congruence|auto].
Qed.

(* ================= find_common_range ================= *)
(* A "probe" is a property P lo hi of a band's edges that is compatible with intersections
   (P of max/min <-> P of both), implies a non-empty interior, and only depends on the edges' values.
   Two probes are used: "the point x lies strictly inside" and "the slot of channel c fits inside". *)
Definition probe (P : Q -> Q -> Prop) : Prop :=
  (forall a b a' b', P (qmax a a') (qmin b b') <-> P a b /\ P a' b') /\
  (forall a b, P a b -> a < b) /\
  (forall a b a' b', a == a' -> b == b' -> P a b -> P a' b').
Definition Pb (P : Q -> Q -> Prop) (b : band) : Prop := P (bmin b) (bmax b).
Definition some_band (P : Q -> Q -> Prop) (bs : list band) : Prop := exists b, In b bs /\ Pb P b.

Lemma probe_point x : probe (fun lo hi => lo < x /\ x < hi).
Proof.
  split; [|split].
  - intros a b a' b'.
    destruct (qmax_cases a a') as [[-> ?]|[-> ?]]; destruct (qmin_cases b b') as [[-> ?]|[-> ?]];
      (split; [intros [? ?]; repeat split; lra|intros [[? ?] [? ?]]; split; lra]).
  - intros a b [? ?]. lra.
  - intros a b a' b' ? ? [? ?]. split; lra.
Qed.

Lemma probe_slot c : 0 < cslot c -> probe (fun lo hi => lo <= clo c /\ chi c <= hi).
Proof.
  intros Hc. pose proof (lo_lt_hi c Hc). split; [|split].
  - intros a b a' b'.
    destruct (qmax_cases a a') as [[-> ?]|[-> ?]]; destruct (qmin_cases b b') as [[-> ?]|[-> ?]];
      (split; [intros [? ?]; repeat split; lra|intros [[? ?] [? ?]]; split; lra]).
  - intros a b [? ?]. lra.
  - intros a b a' b' ? ? [? ?]. split; lra.
Qed.

Lemma inter_probe P d f s : probe P -> (some_band P (inter d f s) <-> Pb P f /\ Pb P s).
Proof.
  intros (Hint & Hne & _). unfold inter, some_band, Pb.
  destruct (qlt (qmax (bmin f) (bmin s)) (qmin (bmax f) (bmax s))) eqn:E.
  - split.
    + intros (b & [<-|[]] & Hb). cbn [bmin bmax] in Hb. apply Hint. auto.
    + intros H. eexists. split; [left; reflexivity|]. cbn [bmin bmax]. apply Hint. auto.
  - apply qlt_false in E. split.
    + intros (b & [] & _).
    + intros H. apply Hint in H. apply Hne in H. lra.
Qed.

Lemma cr_step_probe P d cr bands : probe P ->
  (some_band P (cr_step d cr bands) <-> some_band P cr /\ some_band P bands).
Proof.
  intros HP. unfold cr_step. split.
  - intros (r & Hr & Hp). apply in_flat_map in Hr. destruct Hr as (f & Hf & Hr).
    apply in_flat_map in Hr. destruct Hr as (s & Hs & Hr).
    assert (H : some_band P (inter d f s)) by (exists r; auto).
    apply (inter_probe P d f s HP) in H. destruct H. split; [exists f|exists s]; auto.
  - intros [(f & Hf & Hpf) (s & Hs & Hps)].
    assert (H : some_band P (inter d f s)) by (apply (inter_probe P d f s HP); auto).
    destruct H as (r & Hr & Hp). exists r. split; auto.
    apply in_flat_map. exists f. split; auto. apply in_flat_map. exists s. auto.
Qed.

Lemma fold_step_probe P d u acc : probe P ->
  (some_band P (fold_left (cr_step d) u acc) <-> some_band P acc /\ forall a, In a u -> some_band P a).
Proof.
  intros HP. revert acc. induction u as [|a t IH]; intros acc; cbn [fold_left].
  - split; [intros H; split; auto; intros a []|tauto].
  - rewrite IH, (cr_step_probe P d acc a HP). split.
    + intros [[Hacc Ha] Ht]. split; auto. intros x [<-|Hx]; auto.
    + intros [Hacc H]. repeat split; auto; [apply H; cbn; auto|intros x Hx; apply H; cbn; auto].
Qed.

Lemma some_band_perm P l l' : Permutation l l' -> (some_band P l <-> some_band P l').
Proof.
  intros HP. split; intros (b & Hb & Hp); exists b; split; auto.
  - apply (Permutation_in _ HP Hb).
  - apply (Permutation_in _ (Permutation_sym HP) Hb).
Qed.

Lemma common_of_probe P d u : probe P -> u <> [] ->
  (some_band P (common_of d u) <-> forall a, In a u -> some_band P a).
Proof.
  intros HP Hne. destruct u as [|first t]; [congruence|]. unfold common_of.
  rewrite (some_band_perm P _ _ (sort_by_perm bmin _)), (fold_step_probe P d _ first HP).
  split; [tauto|]. intros H. split; auto. apply H. cbn; auto.
Qed.

(* remove_duplicates keeps one representative (up to float equality) of every amplifier *)
Lemma band_eqb_Pb P a b : probe P -> band_eqb a b = true -> Pb P a -> Pb P b.
Proof.
  intros (_ & _ & Hext) E. unfold band_eqb in E. apply andb_true_iff in E. destruct E as [E _].
  apply andb_true_iff in E. destruct E as [E1 E2]. unfold qeqb in *. apply Qeq_bool_iff in E1, E2.
  unfold Pb. apply Hext; auto.
Qed.
Lemma band_eqb_sym a b : band_eqb a b = true -> band_eqb b a = true.
Proof.
  unfold band_eqb. rewrite !andb_true_iff. intros [[E1 E2] E3]. unfold qeqb in *.
  apply Qeq_bool_iff in E1, E2. repeat split; try (apply Qeq_bool_iff; symmetry; auto).
  unfold oq_eqb in *. destruct (bsp a), (bsp b); auto. unfold qeqb in *. apply Qeq_bool_iff in E3.
  apply Qeq_bool_iff. symmetry. auto.
Qed.
Lemma list_eqb_some_band P a b : probe P -> list_eqb band_eqb a b = true -> some_band P a -> some_band P b.
Proof.
  intros HP. revert b. induction a as [|x ta IH]; intros b E (r & Hr & Hp); [destruct Hr|].
  destruct b as [|y tb]; [discriminate|]. cbn [list_eqb] in E. apply andb_true_iff in E. destruct E as [E1 E2].
  destruct Hr as [<-|Hr].
  - exists y. split; [cbn; auto|]. eapply band_eqb_Pb; eauto.
  - destruct (IH tb E2) as (r' & Hr' & Hp'); [exists r; auto|]. exists r'. split; [cbn; auto|auto].
Qed.
Lemma list_eqb_sym a b : list_eqb band_eqb a b = true -> list_eqb band_eqb b a = true.
Proof.
  revert b. induction a as [|x ta IH]; intros [|y tb] E; try discriminate; auto.
  cbn [list_eqb] in *. apply andb_true_iff in E. destruct E as [E1 E2]. apply andb_true_iff. split.
  - apply band_eqb_sym, E1.
  - apply IH, E2.
Qed.

Definition rd_step (acc : list (list band)) (a : list band) : list (list band) :=
  if existsb (list_eqb band_eqb a) acc then acc else acc ++ [a].
Lemma remove_dups_unfold l : remove_dups l = fold_left rd_step l [].
Proof. reflexivity. Qed.

Lemma rd_in l : forall acc a, In a (fold_left rd_step l acc) -> In a acc \/ In a l.
Proof.
  induction l as [|x t IH]; intros acc a Ha; cbn [fold_left] in Ha; auto.
  apply IH in Ha. unfold rd_step in Ha. destruct (existsb (list_eqb band_eqb x) acc).
  - destruct Ha; cbn; auto.
  - destruct Ha as [Ha|Ha]; [apply in_app_or in Ha; destruct Ha as [Ha|[<-|[]]]|]; cbn; auto.
Qed.
Lemma rd_grow l : forall acc a, In a acc -> In a (fold_left rd_step l acc).
Proof.
  induction l as [|x t IH]; intros acc a Ha; cbn [fold_left]; auto.
  apply IH. unfold rd_step. destruct (existsb (list_eqb band_eqb x) acc); auto. apply in_or_app. auto.
Qed.
Lemma rd_repr l : forall acc a, In a l ->
  exists a', In a' (fold_left rd_step l acc) /\ (a' = a \/ list_eqb band_eqb a a' = true).
Proof.
  induction l as [|x t IH]; intros acc a Ha; [destruct Ha|]. cbn [fold_left].
  destruct Ha as [<-|Ha]; [|apply IH; auto].
  unfold rd_step at 2. destruct (existsb (list_eqb band_eqb x) acc) eqn:E.
  - apply existsb_exists in E. destruct E as (y & Hy & Ey). exists y. split; auto. apply rd_grow; auto.
  - exists x. split; auto. apply rd_grow. apply in_or_app. cbn. auto.
Qed.

Lemma filter_valid_raw bs : filter_valid (map (map raw_of) bs) = bs.
Proof.
  induction bs as [|a t IH]; cbn [map filter_valid flat_map]; auto.
  fold (filter_valid (map (map raw_of) t)). rewrite IH.
  assert (E : valid_amp (map raw_of a) = Some a).
  { clear. induction a as [|b a IH]; cbn [map valid_amp]; auto. cbn [raw_of rmin rmax rsp]. rewrite IH.
    destruct b; auto. }
  rewrite E. auto.
Qed.

(* common_range_spec (generic in the probe) *)
Lemma common_range_gen_probe P amps dmin dmax dsp ddb : probe P -> filter_valid amps <> [] ->
  (some_band P (find_common_range_gen amps dmin dmax dsp ddb) <-> forall a, In a (filter_valid amps) -> some_band P a).
Proof.
  intros HP Hne. unfold find_common_range_gen. rewrite remove_dups_unfold.
  set (v := filter_valid amps) in *. set (w := map (sort_by bmin) v).
  assert (Hu : fold_left rd_step w [] <> []).
  { destruct v as [|a0 v0]; [congruence|]. destruct (rd_repr w [] (sort_by bmin a0)) as (a' & Ha' & _).
    - subst w. cbn. auto.
    - intros E. rewrite E in Ha'. destruct Ha'. }
  destruct (fold_left rd_step w []) as [|u0 ut] eqn:E; [congruence|]. cbv beta iota.
  rewrite (common_of_probe P _ (u0 :: ut) HP) by congruence. rewrite <- E. split.
  - intros H a Ha. destruct (rd_repr w [] (sort_by bmin a)) as (a' & Ha' & Hr).
    + subst w. apply in_map. auto.
    + apply (some_band_perm P _ _ (sort_by_perm bmin a)). destruct Hr as [->|Hr]; auto.
      apply (list_eqb_some_band P a'); auto. apply list_eqb_sym, Hr.
  - intros H a' Ha'. apply rd_in in Ha'. destruct Ha' as [[]|Ha']. subst w. apply in_map_iff in Ha'.
    destruct Ha' as (a & <- & Ha). apply (some_band_perm P _ _ (sort_by_perm bmin a)). auto.
Qed.

Lemma common_range_probe P amps dmin dmax dsp : probe P -> filter_valid amps <> [] ->
  (some_band P (find_common_range amps dmin dmax dsp) <-> forall a, In a (filter_valid amps) -> some_band P a).
Proof. intros HP Hne. apply (common_range_gen_probe P amps dmin dmax dsp [] HP Hne). Qed.

Lemma common_range_default amps dmin dmax dsp : filter_valid amps = [] ->
  find_common_range amps dmin dmax dsp =
    match dmin, dmax with Some a, Some b => [mkB a b None] | _, _ => [] end.
Proof. intros E. unfold find_common_range, find_common_range_gen. rewrite E. reflexivity. Qed.

(* --- the returned bands are pairwise disjoint when every amplifier's own bands are --- *)
Definition bsub (r b : band) : Prop := bmin b <= bmin r /\ bmax r <= bmax b.

Lemma inter_sub d f s r : In r (inter d f s) -> bsub r f /\ bsub r s.
Proof.
  unfold inter. destruct (qlt _ _); [|intros []]. intros [<-|[]]. unfold bsub. cbn [bmin bmax].
  destruct (qmax_cases (bmin f) (bmin s)) as [[-> ?]|[-> ?]];
    destruct (qmin_cases (bmax f) (bmax s)) as [[-> ?]|[-> ?]]; repeat split; lra.
Qed.
Lemma bdisj_sub f s r r' : bdisj f s -> bsub r f -> bsub r' s -> bdisj r r'.
Proof. unfold bdisj, bsub. intros [H|H] [? ?] [? ?]; [left|right]; lra. Qed.

Lemma inter_len d f s : inter d f s = [] \/ exists r, inter d f s = [r].
Proof. unfold inter. destruct (qlt _ _); eauto. Qed.

Lemma row_disjoint d f bands : pw bdisj bands -> pw bdisj (flat_map (inter d f) bands).
Proof.
  induction bands as [|s t IH]; cbn [flat_map pw]; auto. intros [Hf Hp].
  apply pw_app. split; [|split].
  - destruct (inter_len d f s) as [->|[r ->]]; cbn; auto.
  - auto.
  - intros a b Ha Hb. apply in_flat_map in Hb. destruct Hb as (s' & Hs' & Hb).
    apply inter_sub in Ha, Hb. rewrite Forall_forall in Hf.
    apply (bdisj_sub s s'); [apply Hf; auto|tauto|tauto].
Qed.

Lemma cr_step_disjoint d cr bands : pw bdisj cr -> pw bdisj bands -> pw bdisj (cr_step d cr bands).
Proof.
  intros Hcr Hb. unfold cr_step. induction cr as [|f t IH]; cbn [flat_map pw]; auto.
  cbn [pw] in Hcr. destruct Hcr as [Hf Hp]. apply pw_app. split; [|split].
  - apply row_disjoint; auto.
  - auto.
  - intros a b Ha Hb'. apply in_flat_map in Ha. destruct Ha as (s & Hs & Ha).
    apply in_flat_map in Hb'. destruct Hb' as (f' & Hf' & Hb').
    apply in_flat_map in Hb'. destruct Hb' as (s' & Hs' & Hb').
    apply inter_sub in Ha, Hb'. rewrite Forall_forall in Hf.
    apply (bdisj_sub f f'); [apply Hf; auto|tauto|tauto].
Qed.

Lemma fold_step_disjoint d u : forall acc, pw bdisj acc -> (forall a, In a u -> pw bdisj a) ->
  pw bdisj (fold_left (cr_step d) u acc).
Proof.
  induction u as [|a t IH]; intros acc Hacc Hu; cbn [fold_left]; auto.
  apply IH; [|intros x Hx; apply Hu; cbn; auto]. apply cr_step_disjoint; auto. apply Hu. cbn. auto.
Qed.

Lemma common_range_gen_disjoint amps dmin dmax dsp ddb :
  (forall a, In a (filter_valid amps) -> bands_disjoint a) ->
  bands_disjoint (find_common_range_gen amps dmin dmax dsp ddb).
Proof.
  intros H. unfold find_common_range_gen, bands_disjoint in *. rewrite remove_dups_unfold.
  set (w := map (sort_by bmin) (filter_valid amps)).
  assert (Hw : forall a, In a (fold_left rd_step w []) -> pw bdisj a).
  { intros a Ha. apply rd_in in Ha. destruct Ha as [[]|Ha]. subst w. apply in_map_iff in Ha.
    destruct Ha as (a0 & <- & Ha0). eapply pw_perm; [exact bdisj_sym|apply Permutation_sym, sort_by_perm|auto]. }
  destruct (fold_left rd_step w []) as [|u0 ut].
  - destruct dmin, dmax; cbn; auto.
  - unfold common_of. eapply pw_perm; [exact bdisj_sym|apply Permutation_sym, sort_by_perm|].
    apply fold_step_disjoint; auto. apply Hw. cbn. auto.
Qed.

Lemma common_range_disjoint amps dmin dmax dsp :
  (forall a, In a (filter_valid amps) -> bands_disjoint a) ->
  bands_disjoint (find_common_range amps dmin dmax dsp).
Proof. intros H. apply (common_range_gen_disjoint amps dmin dmax dsp [] H). Qed.

(* the returned list is sorted by f_min *)
Lemma common_range_gen_sorted amps dmin dmax dsp ddb : filter_valid amps <> [] ->
  pw (le_key bmin) (find_common_range_gen amps dmin dmax dsp ddb).
Proof.
  intros Hne. unfold find_common_range_gen. destruct (remove_dups _) as [|u0 ut].
  - destruct dmin, dmax; cbn; auto.
  - unfold common_of. apply sort_by_sorted.
Qed.

(* ================= amplifiers and the path ================= *)
Lemma mux_perm_ok parts k :
  parts <> [] -> Forall si_ok parts -> si_ok k -> Permutation (concat parts) k -> mux parts = Ok k.
Proof.
  intros Hne Hall Hk HP. pose proof Hk as (Hsep & Hpos & Hb).
  assert (Hpc : pos_slots (concat parts)) by (eapply pos_slots_perm; [apply Permutation_sym; exact HP|auto]).
  rewrite mux_sorted_union; auto.
  - f_equal. apply (pw_perm_unique_in sep).
    + intros a b Ha Hb'. apply (sep_asym (sort_by cf (concat parts))); auto.
      eapply pos_slots_perm; [apply Permutation_sym, sort_by_perm|auto].
    + apply sorted_apart_sep.
      * apply sort_by_sorted.
      * eapply pos_slots_perm; [apply Permutation_sym, sort_by_perm|auto].
      * eapply pw_perm; [exact apart_sym|apply Permutation_sym, sort_by_perm|].
        eapply pw_perm; [exact apart_sym|apply Permutation_sym; exact HP|]. apply sep_apart, Hsep.
    + exact Hsep.
    + apply (perm_trans (sort_by_perm cf _)). exact HP.
  - intros Ho. apply (overlapping_perm _ _ HP) in Ho. apply overlapping_iff in Ho. apply Ho, sep_apart, Hsep.
  - intros c Hc. apply Hb. apply (Permutation_in _ HP Hc).
Qed.

(* the per-channel data that identify a launched carrier *)
Definition same_chan (a b : chan) : Prop :=
  cid a = cid b /\ cf a = cf b /\ cbaud a = cbaud b /\ cslot a = cslot b /\ clabel a = clabel b /\ ctx a = ctx b.
Definition idp (g : chan -> chan) : Prop := forall c, same_chan c (g c).

Lemma same_chan_refl c : same_chan c c.
Proof. unfold same_chan. tauto. Qed.
Lemma same_chan_trans a b c : same_chan a b -> same_chan b c -> same_chan a c.
Proof. unfold same_chan. intros (?&?&?&?&?&?) (?&?&?&?&?&?). repeat split; congruence. Qed.
Lemma idp_stamp u : idp (stamp u).
Proof. intros c. unfold same_chan, stamp. cbn. tauto. Qed.

Lemma same_chan_edges a b : same_chan a b -> clo a = clo b /\ chi a = chi b.
Proof. intros (_&Hf&_&Hs&_). unfold clo, chi. rewrite Hf, Hs. auto. Qed.
Lemma same_chan_in_band bd a b : same_chan a b -> in_band bd a = in_band bd b.
Proof. intros H. apply same_chan_edges in H. destruct H as [H1 H2]. unfold in_band. rewrite H1, H2. auto. Qed.

Lemma pw_map {A B} (R : A -> A -> Prop) (R' : B -> B -> Prop) (g : A -> B) l :
  (forall a b, R a b -> R' (g a) (g b)) -> pw R l -> pw R' (map g l).
Proof.
  intros H. induction l as [|a t IH]; cbn [map pw]; auto. intros [Hf Hp]. split; auto.
  apply Forall_forall. intros b Hb. apply in_map_iff in Hb. destruct Hb as (x & <- & Hx).
  rewrite Forall_forall in Hf. auto.
Qed.

Lemma si_ok_map g s : idp g -> si_ok s -> si_ok (map g s).
Proof.
  intros Hg (Hsep & Hpos & Hb). repeat split.
  - eapply pw_map; [|exact Hsep]. intros a b Hab. unfold sep in *.
    destruct (same_chan_edges _ _ (Hg a)) as [_ <-]. destruct (same_chan_edges _ _ (Hg b)) as [<- _]. auto.
  - intros c Hc. apply in_map_iff in Hc. destruct Hc as (x & <- & Hx). destruct (Hg x) as (_&_&_&<-&_). auto.
  - intros c Hc. apply in_map_iff in Hc. destruct Hc as (x & <- & Hx). destruct (Hg x) as (_&_&<-&<-&_). auto.
Qed.

Lemma filter_all {A} (p : A -> bool) l : (forall x, In x l -> p x = true) -> filter p l = l.
Proof.
  induction l as [|a t IH]; cbn [filter]; auto. intros H. rewrite (H a) by (cbn; auto). f_equal.
  apply IH. intros x Hx. apply H. cbn. auto.
Qed.
Lemma filter_none {A} (p : A -> bool) l : (forall x, In x l -> p x = false) -> filter p l = [].
Proof.
  induction l as [|a t IH]; cbn [filter]; auto. intros H. rewrite (H a) by (cbn; auto).
  apply IH. intros x Hx. apply H. cbn. auto.
Qed.

(* Edfa.__call__ *)
Lemma edfa_call_ok a b rest s : abands a = b :: rest -> si_ok s -> s <> [] ->
  (forall c, In c s -> in_band b c = true) -> edfa_call a s = Ok (map (stamp (auid a)) s).
Proof.
  intros Ea Hok Hne Hin. unfold edfa_call. rewrite Ea, (demux_ok s b Hok). cbn [bind].
  rewrite (filter_all _ _ Hin). destruct s; [congruence|]. reflexivity.
Qed.

(* Multiband_amplifier.__call__ *)
Definition inb (a : amp) (c : chan) : bool := match abands a with b :: _ => in_band b c | [] => false end.
Definition in_subs (subs : list amp) (c : chan) : bool := existsb (fun a => inb a c) subs.
Definition sub_disj (a a' : amp) : Prop :=
  match abands a, abands a' with b :: _, b' :: _ => bdisj b b' | _, _ => True end.
Definition subs_disjoint (subs : list amp) : Prop := pw sub_disj subs.
Fixpoint mstamp (subs : list amp) (c : chan) : chan :=
  match subs with
  | [] => c
  | a :: t => if inb a c then stamp (auid a) c else mstamp t c
  end.
Definition part_m (s : si) (a : amp) : list si :=
  match filter (inb a) s with [] => [] | x => [map (stamp (auid a)) x] end.
Definition parts_m (subs : list amp) (s : si) : list si := flat_map (part_m s) subs.

Lemma idp_mstamp subs : idp (mstamp subs).
Proof.
  induction subs as [|a t IH]; intros c; cbn [mstamp]; [apply same_chan_refl|].
  destruct (inb a c); [apply idp_stamp|apply IH].
Qed.

Lemma multi_parts_ok subs s : si_ok s -> (forall a, In a subs -> abands a <> []) ->
  multi_parts subs s = Ok (parts_m subs s).
Proof.
  intros Hok. induction subs as [|a t IH]; intros Hb; cbn [multi_parts parts_m flat_map]; auto.
  destruct (abands a) as [|b rest] eqn:Ea; [exfalso; apply (Hb a); cbn; auto|].
  rewrite (demux_ok s b Hok). cbn [bind].
  assert (Ef : filter (inb a) s = filter (in_band b) s).
  { apply filter_ext. intros c. unfold inb. rewrite Ea. auto. }
  assert (IH' : multi_parts t s = Ok (parts_m t s)) by (apply IH; intros x Hx; apply Hb; cbn; auto).
  unfold part_m. rewrite Ef.
  destruct (filter (in_band b) s) as [|c0 x] eqn:E; cbn [opt_si app].
  - exact IH'.
  - rewrite <- E.
    rewrite (edfa_call_ok a b rest _ Ea).
    + cbn [bind]. rewrite IH'. cbn [bind]. rewrite E. reflexivity.
    + apply si_ok_filter, Hok.
    + rewrite E. congruence.
    + intros c Hc. apply filter_In in Hc. tauto.
Qed.

Lemma concat_parts_m subs s :
  concat (parts_m subs s) = concat (map (fun a => map (stamp (auid a)) (filter (inb a) s)) subs).
Proof.
  induction subs as [|a t IH]; cbn [parts_m flat_map map concat]; auto.
  rewrite concat_app. fold (parts_m t s). rewrite IH. f_equal. unfold part_m.
  destruct (filter (inb a) s); cbn; auto. rewrite app_nil_r. auto.
Qed.

Lemma split_map_perm (p q : chan -> bool) (g h k : chan -> chan) (s : list chan) :
  (forall c, In c s -> p c = true -> q c = true -> False) ->
  (forall c, p c = true -> k c = g c) -> (forall c, p c = false -> k c = h c) ->
  Permutation (map g (filter p s) ++ map h (filter q s)) (map k (filter (fun c => p c || q c) s)).
Proof.
  intros Hd Hg Hh. induction s as [|c t IH]; cbn [filter map app]; auto.
  assert (IH' : Permutation (map g (filter p t) ++ map h (filter q t)) (map k (filter (fun c => p c || q c) t))).
  { apply IH. intros x Hx. apply Hd; cbn; auto. }
  destruct (p c) eqn:Ep; destruct (q c) eqn:Eq; cbn [orb app map].
  - exfalso. apply (Hd c); cbn; auto.
  - rewrite (Hg c Ep). apply perm_skip, IH'.
  - rewrite (Hh c Ep). eapply perm_trans; [apply Permutation_sym, Permutation_middle|]. apply perm_skip, IH'.
  - exact IH'.
Qed.

Lemma inb_disj a a' c : 0 < cslot c -> sub_disj a a' -> inb a c = true -> inb a' c = true -> False.
Proof.
  unfold sub_disj, inb. intros Hc Hd H1 H2.
  destruct (abands a) as [|b ?]; [discriminate|]. destruct (abands a') as [|b' ?]; [discriminate|].
  apply (in_band_disj b b' c); auto.
Qed.

Lemma concat_subs_perm subs s : pos_slots s -> subs_disjoint subs ->
  Permutation (concat (map (fun a => map (stamp (auid a)) (filter (inb a) s)) subs))
              (map (mstamp subs) (filter (in_subs subs) s)).
Proof.
  intros Hpos. induction subs as [|a t IH]; intros Hd.
  - cbn [map concat]. rewrite filter_none; [cbn; auto|]. intros; reflexivity.
  - cbn [map concat]. cbn [subs_disjoint pw] in Hd. destruct Hd as [Hf Hp].
    eapply perm_trans; [apply Permutation_app_head, IH, Hp|].
    apply (split_map_perm (inb a) (in_subs t) (stamp (auid a)) (mstamp t) (mstamp (a :: t)) s).
    + intros c Hc H1 H2. unfold in_subs in H2. apply existsb_exists in H2. destruct H2 as (a' & Ha' & H2).
      rewrite Forall_forall in Hf. apply (inb_disj a a' c); auto.
    + intros c E. cbn [mstamp]. rewrite E. auto.
    + intros c E. cbn [mstamp]. rewrite E. auto.
Qed.

Lemma multi_call_ok subs s : si_ok s -> s <> [] ->
  (forall a, In a subs -> abands a <> []) -> subs_disjoint subs ->
  (forall c, In c s -> in_subs subs c = true) ->
  multi_call subs s = Ok (map (mstamp subs) s).
Proof.
  intros Hok Hne Hb Hd Hin. unfold multi_call. rewrite (multi_parts_ok subs s Hok Hb). cbn [bind].
  pose proof Hok as (_ & Hpos & _).
  pose proof (concat_subs_perm subs s Hpos Hd) as HP. rewrite <- concat_parts_m in HP.
  rewrite (filter_all _ _ Hin) in HP.
  assert (Hk : si_ok (map (mstamp subs) s)) by (apply si_ok_map; [apply idp_mstamp|auto]).
  assert (Hpn : parts_m subs s <> []).
  { intros E. rewrite E in HP. cbn in HP. apply Permutation_nil in HP. destruct s; [congruence|discriminate]. }
  rewrite (mux_perm_ok (parts_m subs s) (map (mstamp subs) s)); auto.
  - destruct (parts_m subs s); [congruence|auto].
  - apply Forall_forall. intros x Hx. unfold parts_m in Hx. apply in_flat_map in Hx.
    destruct Hx as (a & _ & Hx). unfold part_m in Hx.
    destruct (filter (inb a) s) eqn:Ef; cbn [In] in Hx; [tauto|]. destruct Hx as [<-|[]].
    rewrite <- Ef. apply si_ok_map; [apply idp_stamp|apply si_ok_filter; auto].
Qed.

(* --- well-formed path elements --- *)
Definition elem_ok (e : elem) : Prop :=
  match e with
  | EPass _ => True
  | EEdfa a => exists b, abands a = [b]                       (* an Edfa has exactly one band *)
  | EMulti _ mb subs =>
      (forall a, In a subs -> abands a <> []) /\
      subs_disjoint subs /\                                    (* the per-band amplifiers do not overlap *)
      bands_disjoint mb /\
      (forall b, In b mb -> exists a b' rest, In a subs /\ abands a = b' :: rest /\ bsub b b')
                                                               (* every declared band is served by an amplifier *)
  end.
Definition path_ok (path : list elem) : Prop := Forall elem_ok path.
Definition n_amps (path : list elem) : nat := length (path_bands path).

Definition estamp (e : elem) (c : chan) : chan :=
  match e with
  | EPass _ => c
  | EEdfa a => stamp (auid a) c
  | EMulti _ _ subs => mstamp subs c
  end.
Definition pstamp (path : list elem) (c : chan) : chan := fold_left (fun c e => estamp e c) path c.

Lemma idp_estamp e : idp (estamp e).
Proof. destruct e; cbn [estamp]; [intros c; apply same_chan_refl|apply idp_stamp|apply idp_mstamp]. Qed.
Lemma idp_pstamp path : idp (pstamp path).
Proof.
  unfold pstamp. induction path as [|e t IH]; intros c; cbn [fold_left]; [apply same_chan_refl|].
  eapply same_chan_trans; [apply (idp_estamp e c)|apply IH].
Qed.

Lemma in_band_sub b b' c : bsub b b' -> in_band b c = true -> in_band b' c = true.
Proof. unfold bsub. rewrite !in_band_iff. intros [? ?] [? ?]. split; lra. Qed.

Lemma multi_covered mb subs c :
  (forall b, In b mb -> exists a b' rest, In a subs /\ abands a = b' :: rest /\ bsub b b') ->
  in_some mb c = true -> in_subs subs c = true.
Proof.
  intros Hcov H. apply in_some_iff in H. destruct H as (b & Hb & Hin).
  destruct (Hcov b Hb) as (a & b' & rest & Ha & Ea & Hsub).
  unfold in_subs. apply existsb_exists. exists a. split; auto. unfold inb. rewrite Ea.
  apply (in_band_sub b b'); auto.
Qed.

Lemma elem_call_ok e s : elem_ok e -> si_ok s -> s <> [] ->
  (forall bs, In bs (elem_bands e) -> forall c, In c s -> in_some bs c = true) ->
  elem_call e s = Ok (map (estamp e) s).
Proof.
  intros He Hok Hne Hin. destruct e as [u|a|u mb subs]; cbn [elem_call estamp].
  - rewrite map_id. auto.
  - destruct He as [b Eb]. apply (edfa_call_ok a b []); auto.
    intros c Hc. specialize (Hin [b]). cbn [elem_bands] in Hin. rewrite Eb in Hin.
    specialize (Hin (or_introl eq_refl) c Hc). unfold in_some in Hin. cbn [existsb] in Hin.
    rewrite orb_false_r in Hin. auto.
  - destruct He as (Hb & Hd & _ & Hcov). apply multi_call_ok; auto.
    intros c Hc. apply (multi_covered mb); auto. apply (Hin mb); cbn; auto.
Qed.

Lemma in_some_same bs a b : same_chan a b -> in_some bs a = in_some bs b.
Proof.
  intros H. unfold in_some. induction bs as [|x t IH]; cbn [existsb]; auto.
  rewrite (same_chan_in_band x a b H), IH. auto.
Qed.

Lemma propagate_ok path : forall s, path_ok path -> si_ok s -> s <> [] ->
  (forall bs, In bs (path_bands path) -> forall c, In c s -> in_some bs c = true) ->
  propagate_path path s = Ok (map (pstamp path) s).
Proof.
  induction path as [|e t IH]; intros s Hp Hok Hne Hin; cbn [propagate_path].
  - unfold pstamp. cbn. rewrite map_id. auto.
  - inversion Hp as [|? ? He Ht]; subst.
    rewrite (elem_call_ok e s He Hok Hne).
    + cbn [bind]. rewrite IH; auto.
      * rewrite map_map. reflexivity.
      * apply si_ok_map; [apply idp_estamp|auto].
      * destruct s; [congruence|discriminate].
      * intros bs Hbs c Hc. apply in_map_iff in Hc. destruct Hc as (x & <- & Hx).
        rewrite <- (in_some_same bs x _ (idp_estamp e x)). apply (Hin bs); auto.
        unfold path_bands. cbn [flat_map]. apply in_or_app. auto.
    + intros bs Hbs. apply Hin. unfold path_bands. cbn [flat_map]. apply in_or_app. auto.
Qed.

(* every amplifier of the path stamps every channel exactly once *)
Lemma mstamp_hist subs c : in_subs subs c = true -> length (chist (mstamp subs c)) = S (length (chist c)).
Proof.
  induction subs as [|a t IH]; cbn [in_subs existsb mstamp]; [discriminate|].
  destruct (inb a c); cbn [orb]; auto.
Qed.

Lemma pstamp_hist path : forall c, path_ok path ->
  (forall bs, In bs (path_bands path) -> in_some bs c = true) ->
  length (chist (pstamp path c)) = (length (chist c) + n_amps path)%nat.
Proof.
  unfold pstamp, n_amps, path_bands.
  induction path as [|e t IH]; intros c Hp Hin; cbn [fold_left flat_map length]; [lia|].
  inversion Hp as [|? ? He Ht]; subst. rewrite app_length, IH; auto.
  - assert (E : length (chist (estamp e c)) = (length (chist c) + length (elem_bands e))%nat).
    { destruct e as [u|a|u mb subs]; cbn [estamp elem_bands length stamp chist]; try lia.
      destruct He as (_ & _ & _ & Hcov). rewrite mstamp_hist; [lia|].
      apply (multi_covered mb); auto. apply Hin. cbn [flat_map]. apply in_or_app. cbn. auto. }
    rewrite E. lia.
  - intros bs Hbs. rewrite <- (in_some_same bs c _ (idp_estamp e c)). apply Hin. cbn [flat_map].
    apply in_or_app. auto.
Qed.

(* --- the request-level filter --- *)
Lemma path_bands_disjoint path : path_ok path -> forall bs, In bs (path_bands path) -> bands_disjoint bs.
Proof.
  intros Hp bs Hbs. unfold path_bands in Hbs. apply in_flat_map in Hbs. destruct Hbs as (e & He & Hbs).
  unfold path_ok in Hp. rewrite Forall_forall in Hp. specialize (Hp e He).
  destruct e as [u|a|u mb subs]; cbn [elem_bands] in Hbs.
  - destruct Hbs.
  - destruct Hbs as [<-|[]]. destruct Hp as [b ->]. cbn. auto.
  - destruct Hbs as [<-|[]]. cbn [elem_ok] in Hp. destruct Hp as (_ & _ & Hd & _). exact Hd.
Qed.

Lemma filter_si_spec path dmin dmax dsp s : path_ok path -> si_ok s ->
  filter_si path dmin dmax dsp s =
    match filter (in_some (path_common_range path dmin dmax dsp)) s with
    | [] => Err E_noband
    | kept => Ok kept
    end.
Proof.
  intros Hp Hok. unfold filter_si. apply filter_bands_ok; auto.
  unfold path_common_range. apply common_range_disjoint. rewrite filter_valid_raw.
  apply path_bands_disjoint, Hp.
Qed.

Lemma in_some_probe bs c :
  in_some bs c = true <-> some_band (fun lo hi => lo <= clo c /\ chi c <= hi) bs.
Proof.
  rewrite in_some_iff. unfold some_band, Pb. split; intros (b & Hb & H); exists b; split; auto; apply in_band_iff; auto.
Qed.

(* a channel (positive slot width) fits a band of the common range iff it fits a band of every amplifier *)
Lemma common_range_channel path dmin dmax dsp c : 0 < cslot c -> path_bands path <> [] ->
  (in_some (path_common_range path dmin dmax dsp) c = true <->
   forall bs, In bs (path_bands path) -> in_some bs c = true).
Proof.
  intros Hc Hne. unfold path_common_range. rewrite in_some_probe.
  rewrite (common_range_probe _ _ dmin dmax dsp (probe_slot c Hc)); rewrite filter_valid_raw; auto.
  split; intros H bs Hbs; apply in_some_probe; auto.
Qed.

(* filter_then_path *)
Lemma filter_then_path path dmin dmax dsp s0 s1 : path_ok path -> si_ok s0 ->
  filter_si path dmin dmax dsp s0 = Ok s1 ->
  s1 = filter (in_some (path_common_range path dmin dmax dsp)) s0 /\ s1 <> [] /\
  propagate_path path s1 = Ok (map (pstamp path) s1) /\
  Forall (fun c => same_chan c (pstamp path c) /\
                   length (chist (pstamp path c)) = (length (chist c) + n_amps path)%nat) s1.
Proof.
  intros Hp Hok E. rewrite (filter_si_spec path dmin dmax dsp s0 Hp Hok) in E.
  remember (filter (in_some (path_common_range path dmin dmax dsp)) s0) as K eqn:EK.
  destruct K as [|c0 k]; [discriminate|]. inversion E; subst s1. clear E.
  assert (HokK : si_ok (c0 :: k)) by (rewrite EK; apply si_ok_filter; auto).
  assert (Hin : forall bs, In bs (path_bands path) -> forall c, In c (c0 :: k) -> in_some bs c = true).
  { intros bs Hbs c Hc. rewrite EK in Hc. apply filter_In in Hc. destruct Hc as [Hc Hcr].
    assert (Hne : path_bands path <> []) by (intros E0; rewrite E0 in Hbs; destruct Hbs).
    destruct Hok as (_ & Hpos & _).
    apply (common_range_channel path dmin dmax dsp c (Hpos c Hc) Hne); auto. }
  split; [reflexivity|]. split; [congruence|]. split.
  - apply propagate_ok; auto. congruence.
  - apply Forall_forall. intros c Hc. split; [apply idp_pstamp|].
    apply pstamp_hist; [exact Hp|]. intros bs Hbs. apply (Hin bs Hbs c Hc).
Qed.

(* the whole launch is independent of the order of the carrier list *)
Lemma launch_perm path dmin dmax dsp l l' : pos_slots l -> Permutation l l' ->
  launch path dmin dmax dsp l = launch path dmin dmax dsp l'.
Proof. intros Hpos HP. unfold launch. rewrite (mk_si_perm l l' Hpos HP). reflexivity. Qed.

(* ================= statements in plain terms (used by Props/C07.v) ================= *)
Lemma common_range_point amps dmin dmax dsp x : filter_valid amps <> [] ->
  ((exists b, In b (find_common_range amps dmin dmax dsp) /\ bmin b < x /\ x < bmax b) <->
   (forall a, In a (filter_valid amps) -> exists b, In b a /\ bmin b < x /\ x < bmax b)).
Proof. intros Hne. apply (common_range_probe _ amps dmin dmax dsp (probe_point x) Hne). Qed.

Lemma common_range_slot amps dmin dmax dsp c : 0 < cslot c -> filter_valid amps <> [] ->
  (in_some (find_common_range amps dmin dmax dsp) c = true <->
   (forall a, In a (filter_valid amps) -> in_some a c = true)).
Proof.
  intros Hc Hne. rewrite in_some_probe, (common_range_probe _ amps dmin dmax dsp (probe_slot c Hc) Hne).
  split; intros H a Ha; apply in_some_probe; auto.
Qed.

Lemma mk_si_ok_of l s : pos_slots l -> mk_si l = Ok s -> si_ok s.
Proof. intros Hpos E. apply (mk_si_sorted l s Hpos E). Qed.

(* kept channels form a sub-sequence of the input: exactly once, same order, same records *)
Lemma filter_sublist_props (p : chan -> bool) s : si_ok s ->
  si_ok (filter p s) /\ NoDup (filter p s) /\ (forall c, In c (filter p s) <-> In c s /\ p c = true).
Proof.
  intros Hok. pose proof (si_ok_filter p s Hok) as Hk. split; auto. split.
  - destruct Hk as (Hsep & Hpos & _). revert Hsep Hpos. generalize (filter p s). clear.
    induction l as [|a t IH]; intros Hsep Hpos; constructor.
    + cbn [pw] in Hsep. destruct Hsep as [Hf _]. intros Hin. rewrite Forall_forall in Hf. specialize (Hf a Hin).
      unfold sep in Hf. pose proof (lo_lt_hi a (Hpos a (or_introl eq_refl))). lra.
    + cbn [pw] in Hsep. apply IH; [tauto|]. intros c Hc. apply Hpos. cbn. auto.
  - intros c. apply filter_In.
Qed.

(* ====================================================================================================
   Construction of the launched spectrum
   ==================================================================================================== *)
From Coq Require Import Qround.

(* ---------- column-wise constructor = row-wise constructor ---------- *)
Lemma insert_by_map {A B} (g : A -> B) (key : B -> Q) x l :
  map g (insert_by (fun a => key (g a)) x l) = insert_by key (g x) (map g l).
Proof.
  induction l as [|y t IH]; cbn [insert_by map]; auto.
  destruct (qle (key (g x)) (key (g y))); cbn [map]; [auto|rewrite IH; auto].
Qed.
Lemma sort_by_map {A B} (g : A -> B) (key : B -> Q) l :
  map g (sort_by (fun a => key (g a)) l) = sort_by key (map g l).
Proof.
  induction l as [|x t IH]; cbn [sort_by fold_right map]; auto.
  fold (sort_by (fun a => key (g a)) t). fold (sort_by key (map g t)). rewrite insert_by_map, IH. auto.
Qed.

Lemma nth_map_in {A B} (h : A -> B) l j d d' : (j < length l)%nat -> nth j (map h l) d = h (nth j l d').
Proof.
  revert j. induction l as [|x t IH]; intros j Hj; cbn [length] in Hj; [lia|].
  destruct j; cbn [map nth]; auto. apply IH. lia.
Qed.
Lemma map_nth_seq {A B} (g : A -> B) l d : map (fun j => g (nth j l d)) (seq 0 (length l)) = map g l.
Proof.
  induction l as [|x t IH]; cbn [length seq map]; auto. f_equal.
  rewrite <- seq_shift, map_map. cbn [nth]. exact IH.
Qed.

Lemma rows_reindex cs idx : rows (reindex cs idx) = map (row cs) idx.
Proof.
  unfold rows, reindex. cbn [q_f].
  assert (Hl : length (take 0 (q_f cs) idx) = length idx) by apply map_length. rewrite Hl.
  rewrite <- (map_nth_seq (row cs) idx 0%nat). apply map_ext_in. intros j Hj. apply in_seq in Hj.
  unfold row, take. cbn [q_id q_f q_baud q_slot q_label q_osnr q_txp q_dpdb q_ro].
  rewrite !(nth_map_in _ idx j _ 0%nat) by lia. reflexivity.
Qed.

Lemma mk_si_cols_rowwise cs : mk_si_cols cs = mk_si (rows cs).
Proof.
  unfold mk_si_cols, mk_si. f_equal. rewrite rows_reindex. unfold argsort, rows.
  apply (sort_by_map (row cs) cf).
Qed.

(* ---------- carriers_to_spectral_information ---------- *)
Lemma cols_of_dict_wf d : cols_wf (cols_of_dict d) = true.
Proof. unfold cols_wf, cols_of_dict. cbn. rewrite !map_length, Nat.eqb_refl. reflexivity. Qed.

Lemma rows_of_dict d : rows (cols_of_dict d) = map chan_of d.
Proof.
  unfold rows. cbn [cols_of_dict q_f]. rewrite map_length.
  destruct d as [|kv0 t]; [reflexivity|]. set (d := kv0 :: t).
  rewrite <- (map_nth_seq chan_of d kv0). apply map_ext_in. intros j Hj. apply in_seq in Hj.
  unfold row, chan_of. cbn [cols_of_dict q_id q_f q_baud q_slot q_label q_osnr q_txp q_dpdb q_ro].
  rewrite !(nth_map_in _ d j _ kv0) by lia. reflexivity.
Qed.

(* the attribute lists built separately from keys() and values() describe, entry by entry, the carriers of the dict *)
Lemma carriers_to_si_rowwise d : carriers_to_si d = mk_si (map chan_of d).
Proof.
  unfold carriers_to_si, create_arbitrary_cols. rewrite cols_of_dict_wf, mk_si_cols_rowwise, rows_of_dict. reflexivity.
Qed.

Definition pos_carriers (d : list (Q * carrier)) : Prop := forall kv, In kv d -> 0 < k_slot (snd kv).

Lemma pos_carriers_slots d : pos_carriers d -> pos_slots (map chan_of d).
Proof. intros H c Hc. apply in_map_iff in Hc. destruct Hc as (kv & <- & Hkv). apply H, Hkv. Qed.

Lemma carriers_to_si_perm d d' : pos_carriers d -> Permutation d d' -> carriers_to_si d = carriers_to_si d'.
Proof.
  intros Hpos HP. rewrite !carriers_to_si_rowwise. apply mk_si_perm.
  - apply pos_carriers_slots, Hpos.
  - apply Permutation_map, HP.
Qed.

(* every array entry of the resulting spectrum is one dict entry: the frequency (key) with that carrier's own
   baud rate, slot width, label and transmitter data; every dict entry appears exactly once; frequency order *)
Lemma carriers_to_si_attached d s : pos_carriers d -> carriers_to_si d = Ok s ->
  Permutation (map chan_of d) s /\ si_ok s /\
  (forall c, In c s -> exists kv, In kv d /\ c = chan_of kv) /\
  (forall kv, In kv d -> In (chan_of kv) s).
Proof.
  intros Hpos E. rewrite carriers_to_si_rowwise in E.
  destruct (mk_si_sorted _ _ (pos_carriers_slots d Hpos) E) as (HP & Hok & _). repeat split; auto; try apply Hok.
  - intros c Hc. apply (Permutation_in _ (Permutation_sym HP)) in Hc. apply in_map_iff in Hc.
    destruct Hc as (kv & <- & Hkv). eauto.
  - intros kv Hkv. apply (Permutation_in _ HP). apply in_map, Hkv.
Qed.

(* ---------- uniform grid ---------- *)
Lemma grid_from_in mk k : forall i c, In c (grid_from mk i k) ->
  exists j, (i <= j < i + Z.of_nat k)%Z /\ c = mk j.
Proof.
  induction k as [|k IH]; intros i c Hc; cbn [grid_from] in Hc; [destruct Hc|].
  destruct Hc as [<-|Hc].
  - exists i. split; auto. lia.
  - destruct (IH _ _ Hc) as (j & Hj & ->). exists j. split; auto. lia.
Qed.
Lemma grid_from_length mk k : forall i, length (grid_from mk i k) = k.
Proof. induction k; intros i; cbn [grid_from length]; auto. Qed.

Lemma inject_Z_mult_le sp i j : 0 < sp -> (i <= j)%Z -> sp * inject_Z i <= sp * inject_Z j.
Proof.
  intros Hsp Hij. rewrite !(Qmult_comm sp). apply Qmult_le_compat_r; [|apply Qlt_le_weak, Hsp].
  rewrite <- Zle_Qle. exact Hij.
Qed.

Lemma grid_chan_edges fmin sp baud label tx i :
  clo (grid_chan fmin sp baud label tx i) == fmin + sp * inject_Z i - half sp /\
  chi (grid_chan fmin sp baud label tx i) == fmin + sp * inject_Z i + half sp.
Proof. unfold clo, chi, grid_chan. cbn [cf cslot]. split; reflexivity. Qed.

Lemma inject_Z_succ i : inject_Z (i + 1) == inject_Z i + 1.
Proof. rewrite inject_Z_plus. reflexivity. Qed.

(* consecutive channels touch, all others are apart: the grid is separated *)
Lemma grid_from_sep fmin sp baud label tx k : 0 < sp ->
  forall i, pw sep (grid_from (grid_chan fmin sp baud label tx) i k).
Proof.
  intros Hsp. induction k as [|k IH]; intros i; cbn [grid_from pw]; auto. split; auto.
  apply Forall_forall. intros c Hc. apply grid_from_in in Hc. destruct Hc as (j & Hj & ->).
  unfold sep. destruct (grid_chan_edges fmin sp baud label tx i) as [_ ->].
  destruct (grid_chan_edges fmin sp baud label tx j) as [-> _].
  assert (H : sp * inject_Z (i + 1) <= sp * inject_Z j) by (apply inject_Z_mult_le; auto; lia).
  rewrite inject_Z_succ in H. unfold half. lra.
Qed.

Lemma grid_chans_ok fmin sp baud label tx n : 0 < sp -> baud <= sp ->
  si_ok (grid_chans fmin sp baud label tx n).
Proof.
  intros Hsp Hb. unfold grid_chans. repeat split.
  - apply grid_from_sep, Hsp.
  - intros c Hc. apply grid_from_in in Hc. destruct Hc as (j & _ & ->). exact Hsp.
  - intros c Hc. apply grid_from_in in Hc. destruct Hc as (j & _ & ->). exact Hb.
Qed.

Lemma automatic_nch_ok fmin fmax sp : 0 < sp -> automatic_nch fmin fmax sp = Ok (Qfloor ((fmax - fmin) / sp)).
Proof.
  intros Hsp. unfold automatic_nch, qeqb. destruct (Qeq_bool sp 0) eqn:E; auto.
  apply Qeq_bool_iff in E. rewrite E in Hsp. exfalso. apply (Qlt_irrefl 0 Hsp).
Qed.

(* the uniform grid is accepted as it is: automatic_nch channels, channel i on f_min + i * spacing *)
Lemma nch_nonneg fmin fmax sp : 0 < sp -> fmin <= fmax -> (0 <= Qfloor ((fmax - fmin) / sp))%Z.
Proof.
  intros Hsp Hf. change 0%Z with (Qfloor 0). apply Qfloor_resp_le.
  apply Qle_shift_div_l; auto. lra.
Qed.

Lemma create_input_si_ok fmin fmax sp baud label tx : 0 < sp -> baud <= sp -> fmin <= fmax ->
  create_input_si fmin fmax sp baud label tx =
    Ok (grid_chans fmin sp baud label tx (Qfloor ((fmax - fmin) / sp))).
Proof.
  intros Hsp Hb Hf. unfold create_input_si. rewrite (automatic_nch_ok _ _ _ Hsp). cbn [bind].
  pose proof (nch_nonneg fmin fmax sp Hsp Hf) as Hn.
  destruct (Qfloor ((fmax - fmin) / sp) <? 0)%Z eqn:E; [lia|].
  apply mk_si_ok_id, grid_chans_ok; auto.
Qed.

(* f_max below f_min: automatic_nch is negative and numpy refuses to build the arrays *)
Lemma create_input_si_negative fmin fmax sp baud label tx : 0 < sp -> fmax < fmin ->
  create_input_si fmin fmax sp baud label tx = Err E_negdim.
Proof.
  intros Hsp Hf. unfold create_input_si. rewrite (automatic_nch_ok _ _ _ Hsp). cbn [bind].
  assert (Hn : (Qfloor ((fmax - fmin) / sp) < 0)%Z).
  { apply Z.lt_nge. intros Hge. rewrite Zle_Qle in Hge.
    pose proof (Qfloor_le ((fmax - fmin) / sp)) as Hfl.
    assert (H0 : 0 <= (fmax - fmin) / sp) by (eapply Qle_trans; eauto).
    apply (Qmult_le_compat_r _ _ sp) in H0; [|apply Qlt_le_weak, Hsp].
    unfold Qdiv in H0. rewrite <- Qmult_assoc, (Qmult_comm (/ sp)), Qmult_inv_r, Qmult_1_r in H0;
      [|intros E; rewrite E in Hsp; apply (Qlt_irrefl 0 Hsp)]. lra. }
  apply Z.ltb_lt in Hn. rewrite Hn. reflexivity.
Qed.

Lemma grid_chans_length fmin sp baud label tx n :
  length (grid_chans fmin sp baud label tx n) = Z.to_nat n.
Proof. apply grid_from_length. Qed.

(* where the channels are: number i in 1..n on f_min + i*spacing; centres in ]f_min, f_max]; lower slot edge at least
   spacing/2 above f_min; upper slot edge at most spacing/2 above f_max; one more channel would not fit *)
Lemma grid_chans_spec fmin fmax sp baud label tx c : 0 < sp ->
  In c (grid_chans fmin sp baud label tx (Qfloor ((fmax - fmin) / sp))) ->
  exists i, (1 <= i <= Qfloor ((fmax - fmin) / sp))%Z /\ c = grid_chan fmin sp baud label tx i /\
            fmin < cf c /\ cf c <= fmax /\ fmin + half sp <= clo c /\ chi c <= fmax + half sp.
Proof.
  intros Hsp Hc. unfold grid_chans in Hc. apply grid_from_in in Hc. destruct Hc as (i & Hi & ->).
  set (n := Qfloor ((fmax - fmin) / sp)) in *.
  assert (Hin : (1 <= i <= n)%Z) by lia.
  exists i. split; auto. split; auto.
  assert (Hfl : inject_Z n <= (fmax - fmin) / sp) by apply Qfloor_le.
  assert (Hn : sp * inject_Z n <= fmax - fmin).
  { apply (Qmult_le_compat_r _ _ sp) in Hfl; [|apply Qlt_le_weak, Hsp].
    unfold Qdiv in Hfl. rewrite <- Qmult_assoc, (Qmult_comm (/ sp)), Qmult_inv_r, Qmult_1_r in Hfl;
      [|intros E; rewrite E in Hsp; apply (Qlt_irrefl 0 Hsp)].
    rewrite Qmult_comm. exact Hfl. }
  assert (H1 : sp * inject_Z 1 <= sp * inject_Z i) by (apply inject_Z_mult_le; auto; lia).
  assert (H2 : sp * inject_Z i <= sp * inject_Z n) by (apply inject_Z_mult_le; auto; lia).
  assert (E1 : sp * inject_Z 1 == sp) by (unfold inject_Z; ring).
  destruct (grid_chan_edges fmin sp baud label tx i) as [-> ->].
  unfold grid_chan. cbn [cf]. unfold half. repeat split; lra.
Qed.

Lemma grid_maximal fmin fmax sp : 0 < sp ->
  fmax < fmin + sp * inject_Z (Qfloor ((fmax - fmin) / sp) + 1).
Proof.
  intros Hsp. pose proof (Qlt_floor ((fmax - fmin) / sp)) as H.
  set (n := Qfloor ((fmax - fmin) / sp)) in *.
  apply (Qmult_lt_r _ _ sp Hsp) in H.
  unfold Qdiv in H. rewrite <- Qmult_assoc, (Qmult_comm (/ sp)), Qmult_inv_r, Qmult_1_r in H;
    [|intros E; rewrite E in Hsp; apply (Qlt_irrefl 0 Hsp)].
  rewrite (Qmult_comm sp). lra.
Qed.

Lemma grid_chans_increasing fmin sp baud label tx n : 0 < sp ->
  pw (fun a b => cf a < cf b) (grid_chans fmin sp baud label tx n).
Proof.
  intros Hsp. pose proof (grid_from_sep fmin sp baud label tx (Z.to_nat n) Hsp 1%Z) as Hs.
  unfold grid_chans.
  assert (Hp : pos_slots (grid_from (grid_chan fmin sp baud label tx) 1 (Z.to_nat n))).
  { intros c Hc. apply grid_from_in in Hc. destruct Hc as (j & _ & ->). exact Hsp. }
  revert Hs Hp. generalize (grid_from (grid_chan fmin sp baud label tx) 1 (Z.to_nat n)).
  induction l as [|a t IH]; cbn [pw]; auto. intros [Hf Hs] Hp. split.
  - apply Forall_forall. intros b Hb. rewrite Forall_forall in Hf. specialize (Hf b Hb). unfold sep in Hf.
    pose proof (lo_lt_f a (Hp a (or_introl eq_refl))). pose proof (lo_lt_f b (Hp b (or_intror Hb))). lra.
  - apply IH; auto. intros c Hc. apply Hp. cbn. auto.
Qed.

(* a baud rate above the spacing is rejected as soon as there is a channel *)
Lemma create_input_si_baud fmin fmax sp baud label tx : 0 < sp -> sp < baud ->
  (1 <= Qfloor ((fmax - fmin) / sp))%Z ->
  create_input_si fmin fmax sp baud label tx = Err E_baud.
Proof.
  intros Hsp Hb Hn. unfold create_input_si. rewrite (automatic_nch_ok _ _ _ Hsp). cbn [bind].
  destruct (Qfloor ((fmax - fmin) / sp) <? 0)%Z eqn:En; [lia|].
  set (l := grid_chans fmin sp baud label tx (Qfloor ((fmax - fmin) / sp))).
  assert (Hpos : pos_slots l).
  { intros c Hc. unfold l, grid_chans in Hc. apply grid_from_in in Hc. destruct Hc as (j & _ & ->). exact Hsp. }
  apply mk_si_baud_iff; auto. split.
  - rewrite overlapping_iff. intros Hn'. apply Hn'. apply sep_apart. unfold l, grid_chans. apply grid_from_sep, Hsp.
  - exists (grid_chan fmin sp baud label tx 1). split; [|exact Hb].
    unfold l, grid_chans. destruct (Z.to_nat (Qfloor ((fmax - fmin) / sp))) eqn:E; [lia|]. cbn. auto.
Qed.

(* ====================================================================================================
   Idempotence of the filter; filtering commutes with the construction
   ==================================================================================================== *)
Lemma filter_idem {A} (p : A -> bool) l : filter p (filter p l) = filter p l.
Proof. apply filter_all. intros x Hx. apply filter_In in Hx. tauto. Qed.

Lemma filter_bands_idem bs s k : si_ok s -> bands_disjoint bs ->
  filter_bands bs s = Ok k -> filter_bands bs k = Ok k.
Proof.
  intros Hok Hd E. rewrite (filter_bands_ok bs s Hok Hd) in E.
  destruct (filter (in_some bs) s) as [|c0 t] eqn:Ef; [discriminate|]. inversion E; subst k. rewrite <- Ef.
  rewrite filter_bands_ok; auto; [|apply si_ok_filter, Hok]. rewrite filter_idem, Ef. reflexivity.
Qed.

Lemma filter_si_idem path dmin dmax dsp s k : path_ok path -> si_ok s ->
  filter_si path dmin dmax dsp s = Ok k -> filter_si path dmin dmax dsp k = Ok k.
Proof.
  intros Hp Hok E. unfold filter_si in *. apply (filter_bands_idem _ s); auto.
  unfold path_common_range. apply common_range_disjoint. rewrite filter_valid_raw. apply path_bands_disjoint, Hp.
Qed.

Lemma Permutation_filter {A} (p : A -> bool) l l' : Permutation l l' -> Permutation (filter p l) (filter p l').
Proof.
  induction 1 as [|x l l' HP IH|x y l|l l' l'' HP1 IH1 HP2 IH2]; cbn [filter]; auto.
  - destruct (p x); auto.
  - destruct (p x), (p y); auto. apply perm_swap.
  - eapply perm_trans; eauto.
Qed.

(* removing the out-of-band carriers from the launch list first and constructing then = constructing and filtering *)
Lemma filter_before_or_after bs l s : pos_slots l -> bands_disjoint bs -> mk_si l = Ok s ->
  filter_bands bs s = match filter (in_some bs) l with
                      | [] => Err E_noband
                      | l' => mk_si l'
                      end.
Proof.
  intros Hpos Hd E. destruct (mk_si_sorted l s Hpos E) as (HP & Hok & _).
  rewrite (filter_bands_ok bs s Hok Hd).
  pose proof (Permutation_filter (in_some bs) l s HP) as HPf.
  assert (Hk : mk_si (filter (in_some bs) l) = Ok (filter (in_some bs) s)).
  { rewrite (mk_si_perm _ _ (fun c Hc => Hpos c (proj1 (proj1 (filter_In _ _ _) Hc))) HPf).
    apply mk_si_ok_id, si_ok_filter, Hok. }
  destruct (filter (in_some bs) l) as [|a t] eqn:El.
  - apply Permutation_nil in HPf. rewrite HPf. reflexivity.
  - rewrite Hk. destruct (filter (in_some bs) s) eqn:Es; auto.
    apply Permutation_sym, Permutation_nil in HPf. discriminate.
Qed.

(* the filtered spectrum does not depend on the order of the carrier list *)
Lemma filter_perm path dmin dmax dsp l l' : pos_slots l -> Permutation l l' ->
  (let* s := mk_si l in filter_si path dmin dmax dsp s) = (let* s := mk_si l' in filter_si path dmin dmax dsp s).
Proof. intros Hpos HP. rewrite (mk_si_perm l l' Hpos HP). reflexivity. Qed.

(* ====================================================================================================
   The `spacing` key of the common range (also with default_design_bands)
   ==================================================================================================== *)
(* r carries a spacing at least as large as the one b declares (if b declares one) *)
Definition sp_ge (r b : band) : Prop := forall x, bsp b = Some x -> exists y, bsp r = Some y /\ x <= y.
Definition refines (r b : band) : Prop := bsub r b /\ sp_ge r b.

Lemma refines_trans r a b : refines r a -> refines a b -> refines r b.
Proof.
  intros [[H1 H2] Hs1] [[H3 H4] Hs2]. split; [split; lra|].
  intros x Hx. destruct (Hs2 x Hx) as (y & Hy & Hxy). destruct (Hs1 y Hy) as (z & Hz & Hyz).
  exists z. split; auto. lra.
Qed.

Lemma inter_refines d f s r : In r (inter d f s) -> refines r f /\ refines r s /\ exists y, bsp r = Some y.
Proof.
  intros Hr. pose proof (inter_sub d f s r Hr) as [Hf Hs]. unfold inter in Hr.
  destruct (qlt _ _); [|destruct Hr]. destruct Hr as [<-|[]].
  split; [split; [exact Hf|]|split; [split; [exact Hs|]|eexists; reflexivity]].
  - intros x Hx. eexists. split; [reflexivity|]. unfold spacing_of. rewrite Hx.
    destruct (bsp s) as [b|]; [destruct (qmax_cases x b) as [[-> ?]|[-> ?]]; lra|lra].
  - intros x Hx. eexists. split; [reflexivity|]. unfold spacing_of. rewrite Hx.
    destruct (bsp f) as [a|]; [destruct (qmax_cases a x) as [[-> ?]|[-> ?]]; lra|lra].
Qed.

Lemma cr_step_refines d cr bands r : In r (cr_step d cr bands) ->
  exists f s, In f cr /\ In s bands /\ refines r f /\ refines r s /\ exists y, bsp r = Some y.
Proof.
  unfold cr_step. intros Hr. apply in_flat_map in Hr. destruct Hr as (f & Hf & Hr).
  apply in_flat_map in Hr. destruct Hr as (s & Hs & Hr). exists f, s.
  destruct (inter_refines d f s r Hr) as (H1 & H2 & H3). auto.
Qed.

Lemma fold_step_refines d u : forall acc r, In r (fold_left (cr_step d) u acc) ->
  (exists a, In a acc /\ (a = r \/ refines r a)) /\ (forall amp, In amp u -> exists b, In b amp /\ refines r b).
Proof.
  induction u as [|a t IH]; intros acc r Hr; cbn [fold_left] in Hr.
  - split; [exists r; split; auto|intros amp []].
  - destruct (IH _ _ Hr) as [(x & Hx & Hrx) Ht].
    destruct (cr_step_refines d acc a x Hx) as (f & s & Hf & Hs & Hxf & Hxs & _).
    assert (Hrf : refines r f) by (destruct Hrx as [->|Hrx]; [exact Hxf|exact (refines_trans r x f Hrx Hxf)]).
    assert (Hrs : refines r s) by (destruct Hrx as [->|Hrx]; [exact Hxs|exact (refines_trans r x s Hrx Hxs)]).
    split; [exists f; split; auto|]. intros amp [<-|Hamp]; [exists s; split; auto|apply Ht; auto].
Qed.

Lemma fold_step_some d u : forall acc r, u <> [] -> In r (fold_left (cr_step d) u acc) -> exists y, bsp r = Some y.
Proof.
  induction u as [|a t IH]; intros acc r Hne Hr; [congruence|]. cbn [fold_left] in Hr.
  destruct t as [|a' t'].
  - cbn [fold_left] in Hr. destruct (cr_step_refines d acc a r Hr) as (_ & _ & _ & _ & _ & _ & H). exact H.
  - apply (IH (cr_step d acc a) r); [congruence|exact Hr].
Qed.

Lemma band_eqb_refines r b b' : band_eqb b b' = true -> refines r b' -> refines r b.
Proof.
  unfold band_eqb. rewrite !andb_true_iff. intros [[E1 E2] E3] [[H1 H2] Hs]. unfold qeqb in *.
  apply Qeq_bool_iff in E1, E2. split; [split; lra|].
  intros x Hx. unfold oq_eqb in E3. rewrite Hx in E3. destruct (bsp b') as [x'|] eqn:Eb'; [|discriminate].
  unfold qeqb in E3. apply Qeq_bool_iff in E3. destruct (Hs x' Eb') as (y & Hy & Hxy). exists y. split; auto. lra.
Qed.

Lemma list_eqb_in a1 : forall a2 b', list_eqb band_eqb a1 a2 = true -> In b' a2 ->
  exists b, In b a1 /\ band_eqb b b' = true.
Proof.
  induction a1 as [|x t IH]; intros [|y t2] b' E Hb'; try discriminate; [destruct Hb'|].
  cbn [list_eqb] in E. apply andb_true_iff in E. destruct E as [E1 E2]. destruct Hb' as [<-|Hb'].
  - exists x. cbn. auto.
  - destruct (IH t2 b' E2 Hb') as (b & Hb & Eb). exists b. cbn. auto.
Qed.

(* every returned band lies inside one band of every valid amplifier and carries a spacing that is at least the one
   that band declares; and it always carries a spacing *)
Lemma common_range_gen_refines amps dmin dmax dsp ddb r : filter_valid amps <> [] ->
  In r (find_common_range_gen amps dmin dmax dsp ddb) ->
  (exists y, bsp r = Some y) /\
  (forall a, In a (filter_valid amps) -> exists b, In b a /\ bsub r b /\ sp_ge r b).
Proof.
  intros Hne Hr. unfold find_common_range_gen in Hr. rewrite remove_dups_unfold in Hr.
  set (v := filter_valid amps) in *. set (w := map (sort_by bmin) v) in *.
  assert (Hu : fold_left rd_step w [] <> []).
  { destruct v as [|a0 v0]; [congruence|]. destruct (rd_repr w [] (sort_by bmin a0)) as (a' & Ha' & _).
    - subst w. cbn. auto.
    - intros E. rewrite E in Ha'. destruct Ha'. }
  destruct (fold_left rd_step w []) as [|u0 ut] eqn:E; [congruence|]. cbv beta iota in Hr.
  unfold common_of in Hr. apply (Permutation_in _ (sort_by_perm bmin _)) in Hr.
  split; [apply (fold_step_some (dsp, ddb) (u0 :: ut) u0 r); [congruence|exact Hr]|].
  destruct (fold_step_refines (dsp, ddb) _ _ _ Hr) as [_ Hall]. rewrite <- E in Hall.
  intros a Ha. destruct (rd_repr w [] (sort_by bmin a)) as (a' & Ha' & Hrep).
  { subst w. apply in_map. exact Ha. }
  destruct (Hall a' Ha') as (b' & Hb' & Hrb').
  assert (Hb : exists b, In b (sort_by bmin a) /\ refines r b).
  { destruct Hrep as [->|Hrep]; [exists b'; auto|].
    destruct (list_eqb_in _ _ b' Hrep Hb') as (b & Hb & Eb). exists b. split; auto.
    apply (band_eqb_refines r b b'); auto. }
  destruct Hb as (b & Hb & [Hsub Hsp]). exists b. split; [|auto].
  apply (Permutation_in _ (sort_by_perm bmin a) Hb).
Qed.

Lemma common_range_gen_point amps dmin dmax dsp ddb x : filter_valid amps <> [] ->
  ((exists b, In b (find_common_range_gen amps dmin dmax dsp ddb) /\ bmin b < x /\ x < bmax b) <->
   (forall a, In a (filter_valid amps) -> exists b, In b a /\ bmin b < x /\ x < bmax b)).
Proof. intros Hne. apply (common_range_gen_probe _ amps dmin dmax dsp ddb (probe_point x) Hne). Qed.

Lemma common_range_gen_slot amps dmin dmax dsp ddb c : 0 < cslot c -> filter_valid amps <> [] ->
  (in_some (find_common_range_gen amps dmin dmax dsp ddb) c = true <->
   (forall a, In a (filter_valid amps) -> in_some a c = true)).
Proof.
  intros Hc Hne. rewrite in_some_probe, (common_range_gen_probe _ amps dmin dmax dsp ddb (probe_slot c Hc) Hne).
  split; intros H a Ha; apply in_some_probe; auto.
Qed.
